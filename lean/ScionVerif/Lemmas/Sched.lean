import ScionVerif.Model.Sched
/-!
# Invariants of the path-manager concurrency model (C20)

* worker-local facts about `wNext` (13 program points × 17 actions, by exhaustive case analysis);
* frame lemmas: what one global step can do to any worker / any waiter;
* the global invariant `Inv` and its preservation by every enabled action, hence along every schedule.
-/
namespace ScionVerif.Sched

/-! ## simp lemmas for state updates -/
@[simp] theorem setW_w (s : State) (i k : Nat) (x : Worker) : (s.setW i x).w k = if k = i then x else s.w k := rfl
@[simp] theorem setW_t (s : State) (i : Nat) (x : Worker) : (s.setW i x).t = s.t := rfl
@[simp] theorem setW_nW (s : State) (i : Nat) (x : Worker) : (s.setW i x).nW = s.nW := rfl
@[simp] theorem setW_nT (s : State) (i : Nat) (x : Worker) : (s.setW i x).nT = s.nT := rfl
@[simp] theorem setW_map (s : State) (i : Nat) (x : Worker) : (s.setW i x).map = s.map := rfl
@[simp] theorem setW_ud (s : State) (i : Nat) (x : Worker) : (s.setW i x).userDropped = s.userDropped := rfl
@[simp] theorem setW_sp (s : State) (i : Nat) (x : Worker) : (s.setW i x).spawned = s.spawned := rfl
@[simp] theorem setW_rm (s : State) (i : Nat) (x : Worker) : (s.setW i x).removed = s.removed := rfl
@[simp] theorem setT_t (s : State) (j k : Nat) (x : Waiter) : (s.setT j x).t k = if k = j then x else s.t k := rfl
@[simp] theorem setT_w (s : State) (j : Nat) (x : Waiter) : (s.setT j x).w = s.w := rfl
@[simp] theorem setT_nW (s : State) (j : Nat) (x : Waiter) : (s.setT j x).nW = s.nW := rfl
@[simp] theorem setT_nT (s : State) (j : Nat) (x : Waiter) : (s.setT j x).nT = s.nT := rfl
@[simp] theorem setT_map (s : State) (j : Nat) (x : Waiter) : (s.setT j x).map = s.map := rfl
@[simp] theorem setT_ud (s : State) (j : Nat) (x : Waiter) : (s.setT j x).userDropped = s.userDropped := rfl
@[simp] theorem setT_sp (s : State) (j : Nat) (x : Waiter) : (s.setT j x).spawned = s.spawned := rfl
@[simp] theorem setT_rm (s : State) (j : Nat) (x : Waiter) : (s.setT j x).removed = s.removed := rfl

@[simp] theorem afterEnsure_h (t : Waiter) (i : Nat) : (afterEnsure t i).h = some i := by
  unfold afterEnsure; split <;> rfl
@[simp] theorem afterEnsure_kind (t : Waiter) (i : Nat) : (afterEnsure t i).kind = t.kind := by
  unfold afterEnsure; split <;> rfl
@[simp] theorem afterEnsure_key (t : Waiter) (i : Nat) : (afterEnsure t i).key = t.key := by
  unfold afterEnsure; split <;> rfl
theorem afterEnsure_pc (t : Waiter) (i : Nat) :
    ((afterEnsure t i).pc = .done ∧ (afterEnsure t i).res = some .nothing ∧ t.kind = .cached) ∨
    ((afterEnsure t i).pc = .loadActive ∧ t.kind ≠ .cached) := by
  unfold afterEnsure; split <;> simp_all
@[simp] theorem afterEnsure_not_waiting (t : Waiter) (i g : Nat) : (afterEnsure t i).pc ≠ .waiting g := by
  rcases afterEnsure_pc t i with h | h <;> simp [h.1]

@[simp] theorem afterEnsure_not_contains (t : Waiter) (i : Nat) : (afterEnsure t i).pc ≠ .contains := by
  rcases afterEnsure_pc t i with h | h <;> simp [h.1]
theorem afterEnsure_done (t : Waiter) (i : Nat) (h : (afterEnsure t i).pc = .done) :
    t.kind = .cached ∧ (afterEnsure t i).res = some .nothing := by
  rcases afterEnsure_pc t i with h' | h' <;> simp_all
@[simp] theorem afterEnsure_needsH (t : Waiter) (i : Nat) : (afterEnsure t i).h.isSome = true := by simp

/-! ## worker-local facts -/

/-- case analysis of a worker-local transition `h : wNext x al a = some y` -/
macro "wcases" x:ident a:ident h:ident : tactic =>
  `(tactic| (rcases $x:ident with ⟨k, pc, sh, u, c, f⟩; cases pc <;> cases $a:ident <;> simp [wNext] at $h:ident <;>
      (first | subst $h:ident
             | (obtain ⟨_, $h:ident⟩ := $h:ident; first | subst $h:ident | (obtain ⟨_, $h:ident⟩ := $h:ident; first | subst $h:ident | (obtain ⟨_, $h:ident⟩ := $h:ident; subst $h:ident))))))

theorem wNext_key {x y : Worker} {al a} (h : wNext x al a = some y) :
    y.key = x.key ∧ y.cancelled = x.cancelled := by
  wcases x a h <;> simp

theorem wNext_gen_mono {x y : Worker} {al a} (h : wNext x al a = some y) : x.sh.gen ≤ y.sh.gen := by
  wcases x a h <;> simp

/-- flags pending ⇒ the worker is at a program point from which a `notify_waiters()` is still ahead -/
def P1 (x : Worker) : Prop := x.pending = true → 0 < x.pc.notifyRank

theorem wNext_P1 {x y : Worker} {al a} (h : wNext x al a = some y) (hp : P1 x) : P1 y := by
  wcases x a h <;> simp_all [P1, Worker.pending, WPc.notifyRank]

/-- a `Notified` created at counter value `g` on this worker's `Notify` is either already complete
(`g < gen`) or the flags still say "pending" -/
def HG (g : Nat) (x : Worker) : Prop := g ≤ x.sh.gen ∧ (g = x.sh.gen → x.pending = true)

theorem wNext_HG {g} {x y : Worker} {al a} (h : wNext x al a = some y) (hg : HG g x) : HG g y := by
  wcases x a h <;> simp_all [HG, Worker.pending] <;> omega

theorem wNext_rank {x y : Worker} {al a} (h : wNext x al a = some y) (hr : 0 < x.pc.notifyRank) :
    y.pc.notifyRank < x.pc.notifyRank := by
  wcases x a h <;> simp_all [WPc.notifyRank]

theorem wNext_clear {x y : Worker} {al a} (h : wNext x al a = some y)
    (hp : x.pending = true) (hq : y.pending = false) : y.sh.gen = x.sh.gen + 1 := by
  wcases x a h <;> simp_all [Worker.pending]

/-- exit state: the error is set under the same lock as the last notify; the slot is cleared last -/
def DInv (x : Worker) : Prop :=
  ((x.pc = .exitStore ∨ x.pc = .done) → (∃ r, x.sh.error = some (.exited r)) ∧ x.pending = false) ∧
  (x.pc = .done → x.sh.active = none)

theorem wNext_DInv {x y : Worker} {al a} (h : wNext x al a = some y) (hd : DInv x) : DInv y := by
  wcases x a h <;> simp_all [DInv, Worker.pending]

theorem wNext_exitRank {x y : Worker} {a} (h : wNext x false a = some y) :
    y.pc.exitRank < x.pc.exitRank := by
  wcases x a h <;> simp [WPc.exitRank]

theorem wNext_done {x y : Worker} {al a} (h : wNext x al a = some y) : x.pc ≠ .done := by
  wcases x a h <;> simp

theorem wNext_enabled_dead (x : Worker) (h : x.pc ≠ .done) : ∃ a, (wNext x false a).isSome = true := by
  rcases x with ⟨k, pc, sh, u, c, f⟩
  cases pc <;> simp at h
  · exact ⟨.mgrGone, by simp [wNext]⟩
  · exact ⟨.setOngoing, by simp [wNext]⟩
  · exact ⟨.fetchDone .ok, by simp [wNext]⟩
  · exact ⟨.cacheStore .keep, by simp [wNext]⟩
  · exact ⟨.setErr, by simp [wNext]⟩
  · exact ⟨.publishActive .keep, by simp [wNext]⟩
  · exact ⟨.clearAndNotify, by simp [wNext]⟩
  · exact ⟨.releaseMgr, by simp [wNext]⟩
  · exact ⟨.mgrGone, by simp [wNext]⟩
  · exact ⟨.exitRemove, by simp [wNext]⟩
  · exact ⟨.exitNotify, by simp [wNext]⟩
  · exact ⟨.storeNone, by simp [wNext]⟩

theorem wNext_enabled_pending (x : Worker) (al : Bool) (h : 0 < x.pc.notifyRank) :
    ∃ a, (wNext x al a).isSome = true := by
  rcases x with ⟨k, pc, sh, u, c, f⟩
  cases pc <;> simp [WPc.notifyRank] at h
  · cases al
    · exact ⟨.mgrGone, by simp [wNext]⟩
    · exact ⟨.upgradeStart, by simp [wNext]⟩
  · exact ⟨.setOngoing, by simp [wNext]⟩
  · exact ⟨.fetchDone .ok, by simp [wNext]⟩
  · exact ⟨.cacheStore .keep, by simp [wNext]⟩
  · exact ⟨.setErr, by simp [wNext]⟩
  · exact ⟨.publishActive .keep, by simp [wNext]⟩
  · exact ⟨.clearAndNotify, by simp [wNext]⟩
  · exact ⟨.exitRemove, by simp [wNext]⟩
  · exact ⟨.exitNotify, by simp [wNext]⟩

/-! ## frame: what a global step does to an arbitrary worker -/

/-- nothing the protocol looks at changed (only `used` / `cancelled` may differ) -/
def Same (x x' : Worker) : Prop :=
  x'.pc = x.pc ∧ x'.sh = x.sh ∧ x'.key = x.key ∧ x'.fetches = x.fetches ∧ (x.cancelled = true → x'.cancelled = true)

theorem Same.rfl' (x : Worker) : Same x x := ⟨rfl, rfl, rfl, rfl, id⟩
theorem Same.trans {x y z : Worker} (h1 : Same x y) (h2 : Same y z) : Same x z :=
  ⟨h2.1.trans h1.1, h2.2.1.trans h1.2.1, h2.2.2.1.trans h1.2.2.1, h2.2.2.2.1.trans h1.2.2.2.1,
   fun h => h2.2.2.2.2 (h1.2.2.2.2 h)⟩

theorem Same_settle (s : State) (i : Nat) : Same (s.w i) (s.settle.w i) := by
  unfold State.settle; split
  · exact Same.rfl' _
  · simp [Same]

theorem Same_removeKey (s : State) (k : Key) (i : Nat) : Same (s.w i) ((s.removeKey k).w i) := by
  unfold State.removeKey; split <;> exact Same.rfl' _

@[simp] theorem insert_t (s : State) (k : Key) : (s.insert k).t = s.t := rfl
@[simp] theorem insert_nT (s : State) (k : Key) : (s.insert k).nT = s.nT := rfl
@[simp] theorem insert_nW (s : State) (k : Key) : (s.insert k).nW = s.nW + 1 := rfl
@[simp] theorem insert_ud (s : State) (k : Key) : (s.insert k).userDropped = s.userDropped := rfl
@[simp] theorem insert_w (s : State) (k : Key) (i : Nat) :
    (s.insert k).w i = if i = s.nW then { key := k } else s.w i := rfl
@[simp] theorem settle_t (s : State) : s.settle.t = s.t := by unfold State.settle; split <;> rfl
@[simp] theorem settle_nW (s : State) : s.settle.nW = s.nW := by unfold State.settle; split <;> rfl
@[simp] theorem settle_nT (s : State) : s.settle.nT = s.nT := by unfold State.settle; split <;> rfl
@[simp] theorem settle_ud (s : State) : s.settle.userDropped = s.userDropped := by unfold State.settle; split <;> rfl
@[simp] theorem settle_sp (s : State) : s.settle.spawned = s.spawned := by unfold State.settle; split <;> rfl
@[simp] theorem removeKey_t (s : State) (k : Key) : (s.removeKey k).t = s.t := by unfold State.removeKey; split <;> rfl
@[simp] theorem removeKey_nW (s : State) (k : Key) : (s.removeKey k).nW = s.nW := by unfold State.removeKey; split <;> rfl
@[simp] theorem removeKey_nT (s : State) (k : Key) : (s.removeKey k).nT = s.nT := by unfold State.removeKey; split <;> rfl
@[simp] theorem removeKey_ud (s : State) (k : Key) : (s.removeKey k).userDropped = s.userDropped := by unfold State.removeKey; split <;> rfl
@[simp] theorem removeKey_sp (s : State) (k : Key) : (s.removeKey k).spawned = s.spawned := by unfold State.removeKey; split <;> rfl

/-- effect of one enabled action `a` in `s` on worker slot `i` -/
def WRel (s : State) (a : Action) (i : Nat) (x x' : Worker) : Prop :=
  Same x x' ∨
  (∃ b y, a = .w i b ∧ i < s.nW ∧ wNext x s.alive b = some y ∧ Same y x') ∨
  (i = s.nW ∧ ∃ j k, a = .t j .ensure ∧ Same { key := k } x')

theorem stepW_frame {s s1 : State} {i0 b} (h : stepW s i0 b = some s1) (i : Nat) :
    WRel s (.w i0 b) i (s.w i) (s1.w i) ∧ s1.nW = s.nW := by
  simp only [stepW] at h
  by_cases hlt : i0 < s.nW
  · simp only [hlt, if_true] at h
    cases hx : wNext (s.w i0) s.alive b with
    | none => simp [hx] at h
    | some x =>
      simp only [hx] at h
      have key : ∀ s2 : State, (∀ i, Same ((s.setW i0 x).w i) (s2.w i)) → s2.nW = s.nW →
          WRel s (.w i0 b) i (s.w i) (s2.w i) ∧ s2.nW = s.nW := by
        intro s2 hs hn
        refine ⟨?_, hn⟩
        by_cases hi : i = i0
        · subst hi
          refine Or.inr (Or.inl ⟨b, x, rfl, hlt, hx, ?_⟩)
          simpa using hs i
        · refine Or.inl ?_
          simpa [hi] using hs i
      split at h
      · injection h with h; subst h
        exact key _ (fun i => Same_removeKey _ _ i) (by simp)
      · injection h with h; subst h
        exact key _ (fun i => Same.rfl' _) (by simp)
  · simp [hlt] at h

theorem stepT_frame {s s1 : State} {j b} (h : stepT s j b = some s1) (i : Nat) :
    WRel s (.t j b) i (s.w i) (s1.w i) ∧ s.nW ≤ s1.nW ∧ (s1.nW ≠ s.nW → b = .ensure ∧ s1.nW = s.nW + 1) := by
  simp only [stepT] at h
  split at h
  · (repeat' split at h) <;> simp_all <;> subst h <;> simp [WRel, Same]
    all_goals (try (split <;> simp_all))
  · simp at h

theorem stepM_frame {s s1 : State} {b} (h : stepM s b = some s1) (i : Nat) :
    Same (s.w i) (s1.w i) ∧ s1.nW = s.nW := by
  cases b <;> simp only [stepM] at h <;> split at h <;> simp at h <;> subst h
  · exact ⟨Same.rfl' _, rfl⟩
  · exact ⟨Same.rfl' _, rfl⟩
  · exact ⟨Same.rfl' _, rfl⟩
  · exact ⟨Same_removeKey _ _ _, by simp⟩
  · exact ⟨Same.rfl' _, rfl⟩
  · refine ⟨?_, rfl⟩
    simp only [setW_w]; split
    · subst_vars; simp [Same]
    · exact Same.rfl' _

theorem WRel.settle {s : State} {a i x} {s1 : State} (h : WRel s a i x (s1.w i)) :
    WRel s a i x (s1.settle.w i) := by
  rcases h with h | ⟨b, y, h1, h2, h3, h4⟩ | ⟨h1, j, k, h2, h3⟩
  · exact Or.inl (h.trans (Same_settle _ _))
  · exact Or.inr (Or.inl ⟨b, y, h1, h2, h3, h4.trans (Same_settle _ _)⟩)
  · exact Or.inr (Or.inr ⟨h1, j, k, h2, h3.trans (Same_settle _ _)⟩)


/-- **Frame.** One enabled action changes worker slot `i` either not at all (up to `used`/`cancelled`), or by
that worker's own local transition, or by allocating it freshly. -/
theorem step?_frame {s s' : State} {a} (h : step? s a = some s') (i : Nat) :
    WRel s a i (s.w i) (s'.w i) ∧ s.nW ≤ s'.nW := by
  simp only [step?, Option.map_eq_some_iff] at h
  obtain ⟨s1, h1, rfl⟩ := h
  cases a with
  | w i0 b =>
    obtain ⟨hr, hn⟩ := stepW_frame h1 i
    exact ⟨hr.settle, by simp [hn]⟩
  | t j b =>
    obtain ⟨hr, hn, _⟩ := stepT_frame h1 i
    exact ⟨hr.settle, by simpa using hn⟩
  | m b =>
    obtain ⟨hr, hn⟩ := stepM_frame h1 i
    exact ⟨Or.inl (hr.trans (Same_settle _ _)), by simp [hn]⟩


theorem Same.HG {g x x'} (h : Same x x') (hg : HG g x) : HG g x' := by
  simp only [ScionVerif.Sched.HG, Worker.pending, h.2.1] at hg ⊢; exact hg
theorem Same.P1 {x x'} (h : Same x x') (hp : P1 x) : P1 x' := by
  simp only [ScionVerif.Sched.P1, Worker.pending, h.2.1, h.1] at hp ⊢; exact hp
theorem Same.DInv {x x'} (h : Same x x') (hp : DInv x) : DInv x' := by
  simp only [ScionVerif.Sched.DInv, Worker.pending, h.2.1, h.1] at hp ⊢; exact hp

/-- the completion guarantee of a registered `Notified` survives every step of anybody -/
theorem HG_step {s s' : State} {a} (h : step? s a = some s') {i g} (hi : i < s.nW) (hg : HG g (s.w i)) :
    HG g (s'.w i) := by
  rcases (step?_frame h i).1 with h | ⟨b, y, _, _, h3, h4⟩ | ⟨h1, _⟩
  · exact h.HG hg
  · exact h4.HG (wNext_HG h3 hg)
  · omega

/-! ## what a waiter step does -/

theorem stepT_other {s s1 : State} {j b} (h : stepT s j b = some s1) (j' : Nat) (hj : j' ≠ j) :
    s1.t j' = s.t j' ∧ s1.nT = s.nT := by
  simp only [stepT] at h
  split at h
  · (repeat' split at h) <;> simp_all <;> (subst h; simp [hj])
  · simp at h

theorem stepW_t {s s1 : State} {i b} (h : stepW s i b = some s1) : s1.t = s.t ∧ s1.nT = s.nT := by
  simp only [stepW] at h
  (repeat' split at h) <;> simp_all <;> (subst h; simp)

theorem pending_of {x : Worker} (h : x.sh.ongoing = false → x.sh.initialized = false) : x.pending = true := by
  unfold Worker.pending; cases h1 : x.sh.ongoing <;> simp_all

def TPc.needsH : TPc → Bool
  | .loadActive | .lockCheck | .waiting _ | .reload | .readErr => true
  | _ => false
@[simp] theorem needsH_loadActive : TPc.needsH .loadActive = true := rfl
@[simp] theorem needsH_lockCheck : TPc.needsH .lockCheck = true := rfl
@[simp] theorem needsH_waiting (g : Nat) : TPc.needsH (.waiting g) = true := rfl
@[simp] theorem needsH_reload : TPc.needsH .reload = true := rfl
@[simp] theorem needsH_readErr : TPc.needsH .readErr = true := rfl
@[simp] theorem needsH_peek : TPc.needsH .peek = false := rfl
@[simp] theorem needsH_contains : TPc.needsH .contains = false := rfl
@[simp] theorem needsH_ensure : TPc.needsH .ensure = false := rfl
@[simp] theorem needsH_done : TPc.needsH .done = false := rfl
theorem afterEnsure_nc (t : Waiter) (i : Nat) (h : (afterEnsure t i).pc.needsH = true) : t.kind ≠ .cached := by
  rcases afterEnsure_pc t i with h' | h' <;> simp_all

theorem stepT_nT {s s1 : State} {j b} (h : stepT s j b = some s1) : s1.nT = s.nT := by
  simp only [stepT] at h
  split at h
  · (repeat' split at h) <;> simp_all <;> (subst h; simp)
  · simp at h

/-- local effect of waiter `j`'s own step -/
structure TStep (s s1 : State) (t t' : Waiter) : Prop where
  kind : t'.kind = t.kind
  key : t'.key = t.key
  h_eq : t.pc ≠ .ensure → t'.h = t.h
  h_new : t.pc = .ensure → ∃ i, t'.h = some i ∧
    (s.map t.key = some i ∨ (s.map t.key = none ∧ i = s.nW ∧ s1.nW = s.nW + 1))
  waiting : ∀ g, t'.pc = .waiting g →
    ∃ i, t.h = some i ∧ t'.h = some i ∧ g = (s.w i).sh.gen ∧
      ((s.w i).sh.ongoing = false → (s.w i).sh.initialized = false)
  needs : t'.pc.needsH = true → t'.h.isSome
  notdone : t.pc ≠ .done
  contains : t'.pc = .contains → t.kind = .cached
  nc : t'.pc.needsH = true → t.pc.needsH = true ∨ t.kind ≠ .cached
  res : t'.pc = .done →
    (∃ p, t'.res = some (.path p)) ∨ ((t.kind = .cached ∨ t.pc = .contains) ∧ t'.res = some .nothing) ∨
    (t.pc = .readErr ∧ ∃ e, t'.res = some (.err e))

theorem stepT_self {s s1 : State} {j b} (h : stepT s j b = some s1) : TStep s s1 (s.t j) (s1.t j) := by
  simp only [stepT] at h
  split at h
  · (repeat' split at h) <;> simp_all <;> subst h <;>
      constructor <;> simp_all [Waiter.finish]
    all_goals first | (intro hd; obtain ⟨h1, h2⟩ := afterEnsure_done _ _ hd; simp [h1, h2]) | (intro hd; exact afterEnsure_nc _ _ hd)
  · simp at h


/-! ## the manager map: `managed_paths` holds exactly the live (un-cancelled) workers -/

structure MapInv (s : State) : Prop where
  mapOK : ∀ k i, s.map k = some i → i < s.nW ∧ (s.w i).key = k ∧ (s.w i).cancelled = false
  count : ∀ k, s.spawned k = s.removed k + (if (s.map k).isSome then 1 else 0)

theorem MapInv.congr {s1 s2 : State} (hw : ∀ i, (s2.w i).key = (s1.w i).key ∧ (s2.w i).cancelled = (s1.w i).cancelled)
    (hm : s2.map = s1.map) (hn : s1.nW ≤ s2.nW) (hs : s2.spawned = s1.spawned) (hr : s2.removed = s1.removed)
    (h : MapInv s1) : MapInv s2 := by
  constructor
  · intro k i hk
    rw [hm] at hk
    obtain ⟨a, b, c⟩ := h.mapOK k i hk
    exact ⟨by omega, by rw [(hw i).1]; exact b, by rw [(hw i).2]; exact c⟩
  · intro k; rw [hs, hr, hm]; exact h.count k

theorem MapInv.removeKey {s : State} (h : MapInv s) (k : Key) : MapInv (s.removeKey k) := by
  unfold State.removeKey
  split
  · rename_i i hi
    constructor
    · intro k' i' hk'
      simp only at hk'
      split at hk'
      · simp at hk'
      · exact h.mapOK k' i' hk'
    · intro k'
      simp only
      have := h.count k'
      split
      · subst_vars; simp [hi] at this ⊢; omega
      · exact this
  · exact h

theorem MapInv.settle {s : State} (h : MapInv s) : MapInv s.settle := by
  unfold State.settle
  split
  · exact h
  · constructor
    · intro k i hk; simp at hk
    · intro k
      have := h.count k
      simp only
      split <;> simp_all

theorem MapInv.insert {s : State} (h : MapInv s) (k : Key) (hk : s.map k = none) : MapInv (s.insert k) := by
  constructor
  · intro k' i hk'
    simp only [State.insert] at hk' ⊢
    split at hk'
    · injection hk' with hk'; subst hk'; subst_vars; simp
    · obtain ⟨a, b, c⟩ := h.mapOK k' i hk'
      have : i ≠ s.nW := by omega
      simp [this, b, c]; omega
  · intro k'
    have := h.count k'
    simp only [State.insert]
    split
    · subst_vars; simp [hk] at this ⊢; omega
    · exact this

theorem MapInv_stepW {s s1 : State} {i b} (hs : stepW s i b = some s1) (h : MapInv s) : MapInv s1 := by
  simp only [stepW] at hs
  by_cases hlt : i < s.nW
  · simp only [hlt, if_true] at hs
    cases hx : wNext (s.w i) s.alive b with
    | none => simp [hx] at hs
    | some x =>
      simp only [hx] at hs
      have h1 : MapInv (s.setW i x) := by
        refine MapInv.congr (s1 := s) ?_ rfl (Nat.le_refl _) rfl rfl h
        intro i'
        simp only [setW_w]
        split
        · subst_vars; exact wNext_key hx
        · exact ⟨rfl, rfl⟩
      split at hs <;> (injection hs with hs; subst hs)
      · exact h1.removeKey _
      · exact h1
  · simp [hlt] at hs

theorem MapInv_stepM {s s1 : State} {b} (hs : stepM s b = some s1) (h : MapInv s) : MapInv s1 := by
  cases b <;> simp only [stepM] at hs <;> split at hs <;> simp at hs <;> subst hs
  · exact MapInv.congr (s1 := s) (fun _ => ⟨rfl, rfl⟩) rfl (Nat.le_refl _) rfl rfl h
  · exact MapInv.congr (s1 := s) (fun _ => ⟨rfl, rfl⟩) rfl (Nat.le_refl _) rfl rfl h
  · exact MapInv.congr (s1 := s) (fun _ => ⟨rfl, rfl⟩) rfl (Nat.le_refl _) rfl rfl h
  · exact h.removeKey _
  · exact MapInv.congr (s1 := s) (fun _ => ⟨rfl, rfl⟩) rfl (Nat.le_refl _) rfl rfl h
  · -- reclaim: only a worker that is no longer in the map is cancelled
    rename_i i hcond
    constructor
    · intro k i' hk
      obtain ⟨a, b, c⟩ := h.mapOK k i' hk
      simp only [setW_map] at hk
      simp only [setW_nW, setW_w]
      by_cases he : i' = i
      · rw [he] at hk b; rw [b] at hcond; exact absurd hk hcond.2
      · simp only [he, if_false]; exact ⟨a, b, c⟩
    · exact h.count

theorem MapInv.setT {s : State} (h : MapInv s) (j : Nat) (x : Waiter) : MapInv (s.setT j x) :=
  MapInv.congr (s1 := s) (fun _ => ⟨rfl, rfl⟩) rfl (Nat.le_refl _) rfl rfl h

theorem MapInv.setW_same {s : State} (h : MapInv s) (i : Nat) (x : Worker)
    (hk : x.key = (s.w i).key) (hc : x.cancelled = (s.w i).cancelled) : MapInv (s.setW i x) := by
  refine MapInv.congr (s1 := s) ?_ rfl (Nat.le_refl _) rfl rfl h
  intro i'; simp only [setW_w]; split
  · subst_vars; exact ⟨hk, hc⟩
  · exact ⟨rfl, rfl⟩

theorem MapInv_stepT {s s1 : State} {j b} (hs : stepT s j b = some s1) (h : MapInv s) : MapInv s1 := by
  simp only [stepT] at hs
  split at hs
  · (repeat' split at hs) <;> simp_all <;> subst hs
    all_goals first
      | exact h.setT _ _
      | (refine MapInv.setT (MapInv.setW_same h _ _ ?_ ?_) _ _ <;> rfl)
      | exact MapInv.setT (h.insert _ (by assumption)) _ _
  · simp at hs

theorem MapInv_step {s s' : State} {a} (hs : step? s a = some s') (h : MapInv s) : MapInv s' := by
  simp only [step?, Option.map_eq_some_iff] at hs
  obtain ⟨s1, h1, rfl⟩ := hs
  cases a with
  | w i b => exact (MapInv_stepW h1 h).settle
  | t j b => exact (MapInv_stepT h1 h).settle
  | m b => exact (MapInv_stepM h1 h).settle


/-! ## frame for waiters -/

/-- a waiter slot right after `spawnPath` / `spawnCached` / `spawnHandle` -/
def Fresh (s : State) (t : Waiter) : Prop :=
  (t.pc = .peek ∧ t.h = none ∧ t.kind ≠ .handle ∧ s.userDropped = false) ∨
  (t.pc = .loadActive ∧ t.kind = .handle ∧ ∃ i, t.h = some i ∧ i < s.nW)

theorem stepM_frameT {s s1 : State} {b} (h : stepM s b = some s1) (j : Nat) :
    (s1.t j = s.t j ∨ (j = s.nT ∧ Fresh s (s1.t j))) ∧ s.nT ≤ s1.nT := by
  cases b <;> simp only [stepM] at h <;> split at h <;> simp at h <;> subst h <;> simp [Fresh]
  all_goals (by_cases hj : j = s.nT <;> simp [hj])
  all_goals first | exact Or.inr (by assumption) | (right; simpa using ‹¬s.userDropped = true›)

theorem step?_frameT {s s' : State} {a} (h : step? s a = some s') (j : Nat) :
    (s'.t j = s.t j ∨ (∃ b, a = .t j b ∧ TStep s s' (s.t j) (s'.t j)) ∨ (j = s.nT ∧ Fresh s (s'.t j)))
      ∧ s.nT ≤ s'.nT := by
  simp only [step?, Option.map_eq_some_iff] at h
  obtain ⟨s1, h1, rfl⟩ := h
  cases a with
  | w i b =>
    obtain ⟨ht, hn⟩ := stepW_t h1
    simp [ht, hn]
  | t j0 b =>
    by_cases hj : j = j0
    · subst hj
      have hs := stepT_self h1
      refine ⟨Or.inr (Or.inl ⟨b, rfl, ?_⟩), ?_⟩
      · simp only [settle_t]
        exact { hs with h_new := by simpa using hs.h_new }
      · simp [stepT_nT h1]
    · obtain ⟨ht, hn⟩ := stepT_other h1 j hj
      simp [ht, hn]
  | m b =>
    obtain ⟨hr, hn⟩ := stepM_frameT h1 j
    refine ⟨?_, by simpa using hn⟩
    rcases hr with hr | hr
    · exact Or.inl (by simpa using hr)
    · exact Or.inr (Or.inr (by simpa using hr))


/-! ## unallocated slots stay untouched -/

theorem step?_tailW {s s' : State} {a} (h : step? s a = some s') (i : Nat) (hi : s'.nW ≤ i) :
    (s'.w i).pc = (s.w i).pc := by
  simp only [step?, Option.map_eq_some_iff] at h
  obtain ⟨s1, h1, rfl⟩ := h
  rw [(Same_settle s1 i).1]
  simp only [settle_nW] at hi
  cases a with
  | w i0 b =>
    simp only [stepRaw, stepW] at h1
    (repeat' split at h1) <;> simp_all <;> subst h1
    · rw [(Same_removeKey _ _ i).1]
      have : i ≠ i0 := by simp at hi; omega
      simp [this]
    · have : i ≠ i0 := by simp at hi; omega
      simp [this]
  | t j b =>
    simp only [stepRaw, stepT] at h1
    split at h1
    · (repeat' split at h1) <;> simp_all <;> subst h1 <;> simp_all
      all_goals (first | omega | (split <;> first | omega | simp_all))
    · simp at h1
  | m b =>
    cases b <;> simp only [stepRaw, stepM] at h1 <;> split at h1 <;> simp at h1 <;> subst h1
    · rfl
    · rfl
    · rfl
    · rw [(Same_removeKey _ _ i).1]
    · rfl
    · simp only [setW_w]; split <;> simp_all

theorem step?_tailT {s s' : State} {a} (h : step? s a = some s') (j : Nat) (hj : s'.nT ≤ j) :
    s'.t j = s.t j := by
  rcases step?_frameT h j with ⟨hh | ⟨b, rfl, _⟩ | ⟨he, _⟩, hn⟩
  · exact hh
  · -- the acting waiter is allocated
    simp only [step?, Option.map_eq_some_iff, stepRaw] at h
    obtain ⟨s1, h1, rfl⟩ := h
    simp only [settle_nT] at hj
    have := stepT_nT h1
    simp only [stepT] at h1
    split at h1
    · omega
    · simp at h1
  · -- a spawn allocates slot `s.nT` and bumps the counter
    simp only [step?, Option.map_eq_some_iff] at h
    obtain ⟨s1, h1, rfl⟩ := h
    simp only [settle_nT, settle_t] at hj ⊢
    cases a with
    | w i0 b => rw [(stepW_t h1).1]
    | t j0 b =>
      by_cases hjj : j = j0
      · have := stepT_nT h1
        simp only [stepRaw, stepT] at h1
        split at h1
        · omega
        · simp at h1
      · exact (stepT_other h1 j hjj).1
    | m b =>
      cases b <;> simp only [stepRaw, stepM] at h1 <;> split at h1 <;> simp at h1 <;> subst h1
      all_goals first | rfl | (simp at hj; omega) | simp

/-! ## the global invariant -/

/-- shape of a finished call: a path, or (cached_path) nothing, or (path / handle) an error -/
def resShape (t : Waiter) : Prop :=
  (∃ p, t.res = some (.path p)) ∨ (t.kind = .cached ∧ t.res = some .nothing) ∨
  (t.kind ≠ .cached ∧ ∃ e, t.res = some (.err e))

structure Inv (s : State) : Prop where
  p1 : ∀ i, P1 (s.w i)
  dinv : ∀ i, DInv (s.w i)
  hlt : ∀ j i, (s.t j).h = some i → i < s.nW
  wait : ∀ j g, (s.t j).pc = .waiting g → ∃ i, (s.t j).h = some i ∧ HG g (s.w i)
  needs : ∀ j, (s.t j).pc.needsH = true → (s.t j).h.isSome ∧ (s.t j).kind ≠ .cached
  early : ∀ j, (s.t j).pc = .contains → (s.t j).kind = .cached
  shape : ∀ j, (s.t j).pc = .done → resShape (s.t j)
  mp : MapInv s
  tailW : ∀ i, s.nW ≤ i → (s.w i).pc = .done
  tailT : ∀ j, s.nT ≤ j → (s.t j).pc = .done

theorem Inv_init : Inv State.init := by
  constructor <;> intros <;>
    simp_all [State.init, Worker.inert, Waiter.inert, P1, DInv, Worker.pending, WPc.notifyRank, resShape]
  constructor <;> intros <;> simp_all

theorem fresh_P1 (k : Key) : P1 { key := k } := by simp [P1, Worker.pending, WPc.notifyRank]
theorem fresh_DInv (k : Key) : DInv { key := k } := by simp [DInv]

theorem Inv_step {s s' : State} {a} (h : step? s a = some s') (hi : Inv s) : Inv s' := by
  have hnW : ∀ i, i < s.nW → i < s'.nW := fun i hlt => Nat.lt_of_lt_of_le hlt (step?_frame h 0).2
  constructor
  · intro i
    rcases (step?_frame h i).1 with hh | ⟨b, y, _, _, h3, h4⟩ | ⟨_, _, k, _, h4⟩
    · exact hh.P1 (hi.p1 i)
    · exact h4.P1 (wNext_P1 h3 (hi.p1 i))
    · exact h4.P1 (fresh_P1 k)
  · intro i
    rcases (step?_frame h i).1 with hh | ⟨b, y, _, _, h3, h4⟩ | ⟨_, _, k, _, h4⟩
    · exact hh.DInv (hi.dinv i)
    · exact h4.DInv (wNext_DInv h3 (hi.dinv i))
    · exact h4.DInv (fresh_DInv k)
  · intro j i hji
    rcases (step?_frameT h j).1 with hh | ⟨b, _, hh⟩ | ⟨_, hh⟩
    · rw [hh] at hji; exact hnW i (hi.hlt j i hji)
    · by_cases hp : (s.t j).pc = .ensure
      · obtain ⟨i', h1, h2⟩ := hh.h_new hp
        rw [h1] at hji; injection hji with hji; subst hji
        rcases h2 with h2 | ⟨_, h2, h3⟩
        · exact hnW _ (hi.mp.mapOK _ _ h2).1
        · omega
      · rw [hh.h_eq hp] at hji; exact hnW i (hi.hlt j i hji)
    · rcases hh with ⟨_, h2, _⟩ | ⟨_, _, i', h2, h3⟩
      · rw [h2] at hji; simp at hji
      · rw [h2] at hji; injection hji with hji; subst hji; exact hnW _ h3
  · intro j g hw
    rcases (step?_frameT h j).1 with hh | ⟨b, _, hh⟩ | ⟨_, hh⟩
    · rw [hh] at hw ⊢
      obtain ⟨i, h1, h2⟩ := hi.wait j g hw
      exact ⟨i, h1, HG_step h (hi.hlt j i h1) h2⟩
    · obtain ⟨i, h1, h2, h3, h4⟩ := hh.waiting g hw
      refine ⟨i, h2, HG_step h (hi.hlt j i h1) ⟨by omega, fun _ => pending_of h4⟩⟩
    · rcases hh with ⟨h1, _⟩ | ⟨h1, _⟩ <;> simp [h1] at hw
  · intro j hn
    rcases (step?_frameT h j).1 with hh | ⟨b, _, hh⟩ | ⟨_, hh⟩
    · rw [hh] at hn ⊢; exact hi.needs j hn
    · refine ⟨hh.needs hn, ?_⟩
      rw [hh.kind]
      rcases hh.nc hn with h1 | h1
      · exact (hi.needs j h1).2
      · exact h1
    · rcases hh with ⟨h1, _⟩ | ⟨h1, h2, i', h3, _⟩
      · simp [h1] at hn
      · simp [h2, h3]
  · intro j hc
    rcases (step?_frameT h j).1 with hh | ⟨b, _, hh⟩ | ⟨_, hh⟩
    · rw [hh] at hc ⊢; exact hi.early j hc
    · rw [hh.kind]; exact hh.contains hc
    · rcases hh with ⟨h1, _⟩ | ⟨h1, _⟩ <;> simp [h1] at hc
  · intro j hd
    rcases (step?_frameT h j).1 with hh | ⟨b, _, hh⟩ | ⟨_, hh⟩
    · rw [hh] at hd ⊢; exact hi.shape j hd
    · rcases hh.res hd with h1 | ⟨h1, h2⟩ | ⟨h1, h2⟩
      · exact Or.inl h1
      · refine Or.inr (Or.inl ⟨?_, h2⟩)
        rw [hh.kind]
        rcases h1 with h1 | h1
        · exact h1
        · exact hi.early j h1
      · refine Or.inr (Or.inr ⟨?_, h2⟩)
        rw [hh.kind]
        exact (hi.needs j (by simp [h1])).2
    · rcases hh with ⟨h1, _⟩ | ⟨h1, _⟩ <;> simp [h1] at hd
  · exact MapInv_step h hi.mp
  · intro i hge
    rw [step?_tailW h i hge]
    exact hi.tailW i (Nat.le_trans (step?_frame h 0).2 hge)
  · intro j hge
    rw [step?_tailT h j hge]
    exact hi.tailT j (Nat.le_trans (step?_frameT h 0).2 hge)

theorem Inv_stepTotal {s : State} (a : Action) (hi : Inv s) : Inv (step s a) := by
  unfold step
  cases h : step? s a with
  | none => simpa using hi
  | some s' => simpa using Inv_step h hi

theorem Inv_run {s : State} (acts : List Action) (hi : Inv s) : Inv (run s acts) := by
  induction acts generalizing s with
  | nil => exact hi
  | cons a as ih => exact ih (Inv_stepTotal a hi)

/-- the states reachable from the initial state under **some** schedule -/
def Reachable (s : State) : Prop := ∃ acts, s = run State.init acts

theorem Reachable.inv {s : State} (h : Reachable s) : Inv s := by
  obtain ⟨acts, rfl⟩ := h; exact Inv_run acts Inv_init


/-! ## progress towards the notification (ranking function on the worker's program counter) -/

/-- an enabled step of worker `i` itself is its local transition -/
theorem step?_self {s s' : State} {i b} (h : step? s (.w i b) = some s') :
    i < s.nW ∧ ∃ y, wNext (s.w i) s.alive b = some y ∧ Same y (s'.w i) := by
  simp only [step?, Option.map_eq_some_iff, stepRaw] at h
  obtain ⟨s1, h1, rfl⟩ := h
  simp only [stepW] at h1
  by_cases hlt : i < s.nW
  · simp only [hlt, if_true] at h1
    cases hx : wNext (s.w i) s.alive b with
    | none => simp [hx] at h1
    | some x =>
      simp only [hx] at h1
      refine ⟨hlt, x, rfl, ?_⟩
      split at h1 <;> (injection h1 with h1; subst h1)
      · have := Same_removeKey (s.setW i x) x.key i
        simp only [setW_w, if_true] at this
        exact this.trans (Same_settle _ _)
      · have := Same_settle (s.setW i x) i
        simpa using this
  · simp [hlt] at h1

/-- every other enabled action leaves worker `i`'s program counter and shared state alone -/
theorem step?_notself {s s' : State} {a} (h : step? s a = some s') {i : Nat} (hi : i < s.nW)
    (hne : ∀ b, a ≠ .w i b) : Same (s.w i) (s'.w i) := by
  rcases (step?_frame h i).1 with hh | ⟨b, _, h1, _⟩ | ⟨h1, _⟩
  · exact hh
  · exact absurd h1 (hne b)
  · omega

theorem gen_mono_step (s : State) (a : Action) {i : Nat} (hi : i < s.nW) :
    (s.w i).sh.gen ≤ ((step s a).w i).sh.gen ∧ i < (step s a).nW := by
  unfold step
  cases h : step? s a with
  | none => simp [hi]
  | some s' =>
    simp only [Option.getD_some]
    refine ⟨?_, Nat.lt_of_lt_of_le hi (step?_frame h i).2⟩
    rcases (step?_frame h i).1 with hh | ⟨b, y, _, _, h3, h4⟩ | ⟨h1, _⟩
    · rw [hh.2.1]; exact Nat.le_refl _
    · rw [h4.2.1]; exact wNext_gen_mono h3
    · omega

theorem gen_mono_run (acts : List Action) {s : State} {i : Nat} (hi : i < s.nW) :
    (s.w i).sh.gen ≤ ((run s acts).w i).sh.gen := by
  induction acts generalizing s with
  | nil => exact Nat.le_refl _
  | cons a as ih =>
    obtain ⟨h1, h2⟩ := gen_mono_step s a hi
    exact Nat.le_trans h1 (ih h2)

/-- **Ranking argument.** If a `Notified` created at counter `g` on worker `i`'s `Notify` is covered by the
handshake (`HG`), then after `notifyRank` effective steps of worker `i` – whatever everybody else does in
between – the counter has moved past `g`. -/
theorem progress (acts : List Action) {s : State} (hinv : Inv s) {i g : Nat} (hi : i < s.nW)
    (hg : HG g (s.w i)) (hr : (s.w i).pc.notifyRank ≤ effW i s acts) :
    g < ((run s acts).w i).sh.gen := by
  induction acts generalizing s with
  | nil =>
    simp only [effW, Nat.le_zero_eq] at hr
    simp only [run, List.foldl_nil]
    have := hinv.p1 i
    rcases Nat.lt_or_ge g (s.w i).sh.gen with h | h
    · exact h
    · have he : g = (s.w i).sh.gen := Nat.le_antisymm hg.1 h
      have := this (hg.2 he)
      omega
  | cons a as ih =>
    rcases Nat.lt_or_ge g (s.w i).sh.gen with hlt | hge
    · exact Nat.lt_of_lt_of_le hlt (gen_mono_run (a :: as) hi)
    · have he : g = (s.w i).sh.gen := Nat.le_antisymm hg.1 hge
      have hpos : 0 < (s.w i).pc.notifyRank := hinv.p1 i (hg.2 he)
      simp only [run, List.foldl_cons]
      have hinv' := Inv_stepTotal a hinv
      have hi' := (gen_mono_step s a hi).2
      cases hs : step? s a with
      | none =>
        have hst : step s a = s := by simp [step, hs]
        simp only [effW, hs, Option.isSome_none] at hr
        rw [hst] at hr ⊢
        refine ih hinv hi hg ?_
        cases a <;> simp_all
      | some s' =>
        have hst : step s a = s' := by simp [step, hs]
        rw [hst] at hinv' hi' ⊢
        have hg' : HG g (s'.w i) := HG_step hs hi hg
        by_cases hself : ∃ b, a = .w i b
        · obtain ⟨b, rfl⟩ := hself
          obtain ⟨_, y, h1, h2⟩ := step?_self hs
          have hrank := wNext_rank h1 hpos
          simp only [effW, hs, Option.isSome_some, and_self, if_true, hst] at hr
          refine ih hinv' hi' hg' ?_
          rw [h2.1]; omega
        · have hsame := step?_notself hs hi (fun b e => hself ⟨b, e⟩)
          refine ih hinv' hi' hg' ?_
          rw [hsame.1]
          have : effW i s (a :: as) = effW i s' as := by
            simp only [effW, hst]
            cases a with
            | w i' b =>
              have : i' ≠ i := fun e => hself ⟨b, by rw [e]⟩
              simp [this]
            | t _ _ => simp
            | m _ => simp
          omega


/-! ## the manager value is gone (`alive = false`): stable, and every worker runs to its end -/

theorem alive_false_iff (s : State) :
    s.alive = false ↔ s.userDropped = true ∧ (∀ i, i < s.nW → (s.w i).pc.holds = false) ∧
      (∀ j, j < s.nT → (s.t j).holds = false) := by
  simp only [State.alive, Bool.or_eq_false_iff, Bool.not_eq_false', List.any_eq_false, List.mem_range,
    Bool.not_eq_true, and_assoc]

theorem wNext_holds_dead {x y : Worker} {a} (h : wNext x false a = some y) (hx : x.pc.holds = false) :
    y.pc.holds = false := by
  wcases x a h <;> simp_all [WPc.holds]

theorem step?_ud {s s' : State} {a} (h : step? s a = some s') (hu : s.userDropped = true) :
    s'.userDropped = true := by
  simp only [step?, Option.map_eq_some_iff] at h
  obtain ⟨s1, h1, rfl⟩ := h
  simp only [settle_ud]
  cases a with
  | w i0 b =>
    simp only [stepRaw, stepW] at h1
    (repeat' split at h1) <;> simp_all <;> subst h1 <;> simp [hu]
  | t j b =>
    simp only [stepRaw, stepT] at h1
    split at h1
    · (repeat' split at h1) <;> simp_all <;> subst h1 <;> simp [hu]
    · simp at h1
  | m b =>
    cases b <;> simp only [stepRaw, stepM] at h1 <;> split at h1 <;> simp at h1 <;> subst h1 <;> simp_all

/-- once the manager value is gone it stays gone: nobody can acquire a reference any more -/
theorem dead_step {s s' : State} {a} (h : step? s a = some s') (hi : Inv s) (hd : s.alive = false) :
    s'.alive = false := by
  have hi' := Inv_step h hi
  obtain ⟨hu, hw, ht⟩ := (alive_false_iff s).1 hd
  refine (alive_false_iff s').2 ⟨step?_ud h hu, ?_, ?_⟩
  · intro i _
    have hold : (s.w i).pc.holds = false := by
      by_cases hlt : i < s.nW
      · exact hw i hlt
      · rw [hi.tailW i (Nat.le_of_not_lt hlt)]; rfl
    rcases (step?_frame h i).1 with hh | ⟨b, y, _, _, h3, h4⟩ | ⟨_, _, k, _, h4⟩
    · rw [hh.1]; exact hold
    · rw [h4.1]; rw [hd] at h3; exact wNext_holds_dead h3 hold
    · rw [h4.1]; rfl
  · intro j _
    have hold : (s.t j).holds = false := by
      by_cases hlt : j < s.nT
      · exact ht j hlt
      · simp [Waiter.holds, hi.tailT j (Nat.le_of_not_lt hlt)]
    rcases (step?_frameT h j).1 with hh | ⟨b, _, hh⟩ | ⟨_, hh⟩
    · rw [hh]; exact hold
    · simp only [Waiter.holds, Bool.and_eq_false_imp, bne_iff_ne, ne_eq, bne_eq_false_iff_eq] at hold ⊢
      intro hk
      rw [hh.kind] at hk
      exact absurd (hold hk) hh.notdone
    · rcases hh with ⟨_, _, _, h4⟩ | ⟨_, h2, _⟩
      · rw [hu] at h4; simp at h4
      · simp [Waiter.holds, h2]

theorem exitRank_zero {pc : WPc} (h : pc.exitRank = 0) : pc = .done := by
  cases pc <;> simp [WPc.exitRank] at h ⊢

theorem exitRank_le_of_not_holds {pc : WPc} (h : pc.holds = false) : pc.exitRank ≤ 4 := by
  cases pc <;> simp [WPc.exitRank, WPc.holds] at h ⊢

/-- a finished worker never moves again -/
theorem done_step {s : State} (a : Action) {i : Nat} (hi : i < s.nW) (hd : (s.w i).pc = .done) :
    ((step s a).w i).pc = .done ∧ ((step s a).w i).sh = (s.w i).sh := by
  unfold step
  cases h : step? s a with
  | none => simp [hd]
  | some s' =>
    simp only [Option.getD_some]
    rcases (step?_frame h i).1 with hh | ⟨b, y, _, _, h3, _⟩ | ⟨h1, _⟩
    · exact ⟨hh.1.trans hd, hh.2.1⟩
    · exact absurd hd (wNext_done h3)
    · omega

/-- **Ranking argument for the exit.**  With the manager value gone, `exitRank` effective steps of worker
`i` take it to `done`, whatever everybody else does. -/
theorem exit_progress (acts : List Action) {s : State} (hinv : Inv s) (hd : s.alive = false) {i : Nat}
    (hi : i < s.nW) (hr : (s.w i).pc.exitRank ≤ effW i s acts) : ((run s acts).w i).pc = .done := by
  induction acts generalizing s with
  | nil =>
    simp only [effW, Nat.le_zero_eq] at hr
    exact exitRank_zero hr
  | cons a as ih =>
    simp only [run, List.foldl_cons]
    cases hs : step? s a with
    | none =>
      have hst : step s a = s := by simp [step, hs]
      rw [hst]
      refine ih hinv hd hi ?_
      simp only [effW, hs, Option.isSome_none, hst] at hr
      cases a <;> simp_all
    | some s' =>
      have hst : step s a = s' := by simp [step, hs]
      rw [hst]
      have hinv' := Inv_step hs hinv
      have hd' := dead_step hs hinv hd
      have hi' : i < s'.nW := Nat.lt_of_lt_of_le hi (step?_frame hs i).2
      by_cases hself : ∃ b, a = .w i b
      · obtain ⟨b, rfl⟩ := hself
        obtain ⟨_, y, h1, h2⟩ := step?_self hs
        rw [hd] at h1
        have hrank := wNext_exitRank h1
        simp only [effW, hs, Option.isSome_some, and_self, if_true, hst] at hr
        refine ih hinv' hd' hi' ?_
        rw [h2.1]; omega
      · have hsame := step?_notself hs hi (fun b e => hself ⟨b, e⟩)
        refine ih hinv' hd' hi' ?_
        rw [hsame.1]
        have : effW i s (a :: as) = effW i s' as := by
          simp only [effW, hst]
          cases a with
          | w i' b =>
            have : i' ≠ i := fun e => hself ⟨b, by rw [e]⟩
            simp [this]
          | t _ _ => simp
          | m _ => simp
        omega

/-! ## a caller's own program is sequential: ranking on its program counter -/

def TPc.rank : TPc → Nat
  | .peek => 8
  | .contains => 7
  | .ensure => 6
  | .loadActive => 5
  | .lockCheck => 4
  | .waiting _ => 3
  | .reload => 2
  | .readErr => 1
  | .done => 0

theorem afterEnsure_rank (t : Waiter) (i : Nat) : (afterEnsure t i).pc.rank ≤ 5 := by
  rcases afterEnsure_pc t i with h | h <;> simp [h.1, TPc.rank]

theorem stepT_rank {s s1 : State} {j b} (h : stepT s j b = some s1) :
    (s1.t j).pc.rank < (s.t j).pc.rank := by
  simp only [stepT] at h
  split at h
  · (repeat' split at h) <;> simp_all <;> subst h <;> simp_all [Waiter.finish]
    all_goals first
      | (simp [TPc.rank]; done)
      | (split <;> simp [TPc.rank]; done)
      | exact Nat.lt_of_le_of_lt (afterEnsure_rank _ _) (by simp [TPc.rank])
  · simp at h


theorem rank_zero {pc : TPc} (h : pc.rank = 0) : pc = .done := by
  cases pc <;> simp [TPc.rank] at h ⊢

/-- an enabled step of caller `j` itself lowers its rank; any other enabled action leaves an allocated
caller untouched -/
theorem step?_selfT {s s' : State} {j b} (h : step? s (.t j b) = some s') :
    (s'.t j).pc.rank < (s.t j).pc.rank := by
  simp only [step?, Option.map_eq_some_iff, stepRaw] at h
  obtain ⟨s1, h1, rfl⟩ := h
  simpa using stepT_rank h1

theorem step?_notselfT {s s' : State} {a} (h : step? s a = some s') {j : Nat} (hj : j < s.nT)
    (hne : ∀ b, a ≠ .t j b) : s'.t j = s.t j := by
  rcases (step?_frameT h j).1 with hh | ⟨b, h1, _⟩ | ⟨h1, _⟩
  · exact hh
  · exact absurd h1 (hne b)
  · omega

theorem caller_progress (acts : List Action) {s : State} {j : Nat} (hj : j < s.nT)
    (hr : (s.t j).pc.rank ≤ effT j s acts) : ((run s acts).t j).pc = .done := by
  induction acts generalizing s with
  | nil =>
    simp only [effT, Nat.le_zero_eq] at hr
    exact rank_zero hr
  | cons a as ih =>
    simp only [run, List.foldl_cons]
    cases hs : step? s a with
    | none =>
      have hst : step s a = s := by simp [step, hs]
      rw [hst]
      refine ih hj ?_
      simp only [effT, hs, Option.isSome_none, hst] at hr
      cases a <;> simp_all
    | some s' =>
      have hst : step s a = s' := by simp [step, hs]
      rw [hst]
      have hj' : j < s'.nT := Nat.lt_of_lt_of_le hj (step?_frameT hs j).2
      by_cases hself : ∃ b, a = .t j b
      · obtain ⟨b, rfl⟩ := hself
        have hrank := step?_selfT hs
        simp only [effT, hs, Option.isSome_some, and_self, if_true, hst] at hr
        refine ih hj' ?_
        omega
      · have hsame := step?_notselfT hs hj (fun b e => hself ⟨b, e⟩)
        refine ih hj' ?_
        rw [hsame]
        have : effT j s (a :: as) = effT j s' as := by
          simp only [effT, hst]
          cases a with
          | t j' b =>
            have : j' ≠ j := fun e => hself ⟨b, by rw [e]⟩
            simp [this]
          | w _ _ => simp
          | m _ => simp
        omega

/-- the caller's next action is enabled unless it is waiting for a notification that has not come yet -/
theorem caller_enabled {s : State} (hinv : Inv s) {j : Nat} (hj : j < s.nT) (hnd : (s.t j).pc ≠ .done)
    (hwoken : ∀ g i, (s.t j).pc = .waiting g → (s.t j).h = some i → (s.w i).sh.gen ≠ g) :
    ∃ b, (step? s (.t j b)).isSome = true := by
  have hneeds := hinv.needs j
  cases hpc : (s.t j).pc with
  | peek =>
    refine ⟨.peek false, ?_⟩
    simp only [step?, stepRaw, stepT, hj, if_true, hpc, Option.isSome_map]
    (repeat' split) <;> rfl
  | contains =>
    refine ⟨.contains, ?_⟩
    simp only [step?, stepRaw, stepT, hj, if_true, hpc, Option.isSome_map]
    (repeat' split) <;> rfl
  | ensure =>
    refine ⟨.ensure, ?_⟩
    simp only [step?, stepRaw, stepT, hj, if_true, hpc, Option.isSome_map]
    (repeat' split) <;> rfl
  | loadActive =>
    obtain ⟨i, hi⟩ := Option.isSome_iff_exists.1 (hneeds (by simp [hpc])).1
    refine ⟨.loadActive false, ?_⟩
    simp only [step?, stepRaw, stepT, hj, if_true, hpc, hi, Option.isSome_map]
    (repeat' split) <;> rfl
  | lockCheck =>
    obtain ⟨i, hi⟩ := Option.isSome_iff_exists.1 (hneeds (by simp [hpc])).1
    refine ⟨.lockCheck, ?_⟩
    simp only [step?, stepRaw, stepT, hj, if_true, hpc, hi, Option.isSome_map]
    (repeat' split) <;> rfl
  | waiting g =>
    obtain ⟨i, hi⟩ := Option.isSome_iff_exists.1 (hneeds (by simp [hpc])).1
    refine ⟨.awake, ?_⟩
    have := hwoken g i hpc hi
    simp only [step?, stepRaw, stepT, hj, if_true, hpc, hi, Option.isSome_map]
    simp [this]
  | reload =>
    obtain ⟨i, hi⟩ := Option.isSome_iff_exists.1 (hneeds (by simp [hpc])).1
    refine ⟨.reload false, ?_⟩
    simp only [step?, stepRaw, stepT, hj, if_true, hpc, hi, Option.isSome_map]
    (repeat' split) <;> rfl
  | readErr =>
    obtain ⟨i, hi⟩ := Option.isSome_iff_exists.1 (hneeds (by simp [hpc])).1
    refine ⟨.readErr, ?_⟩
    simp only [step?, stepRaw, stepT, hj, if_true, hpc, hi, Option.isSome_map]
    rfl
  | done => exact absurd hpc hnd

/-! ## a handle used after its worker has finished -/

/-- what a caller reads from a finished worker: no path, flags clear, the exit error -/
theorem stepT_read {s s1 : State} {j b i} {e : Err} (h : stepT s j b = some s1)
    (hh : (s.t j).h = some i) (hn : (s.t j).pc.needsH = true)
    (ha : (s.w i).sh.active = none) (hp : (s.w i).pending = false)
    (he : (s.w i).sh.error = some e) :
    (s1.t j).h = some i ∧
    (((s.t j).pc = .loadActive ∧ (s1.t j).pc = .lockCheck) ∨ ((s.t j).pc = .lockCheck ∧ (s1.t j).pc = .reload) ∨
     ((s.t j).pc = .reload ∧ (s1.t j).pc = .readErr) ∨
     ((s.t j).pc = .readErr ∧ (s1.t j).pc = .done ∧ (s1.t j).res = some (.err e)) ∨
     (∃ g, (s.t j).pc = .waiting g)) := by
  simp only [Worker.pending, Bool.or_eq_false_iff, Bool.not_eq_false'] at hp
  simp only [stepT] at h
  split at h
  · (repeat' split at h) <;> simp_all <;> subst h <;> simp_all [Waiter.finish]
  · simp at h

end ScionVerif.Sched
