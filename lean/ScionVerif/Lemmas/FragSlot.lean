import ScionVerif.Lemmas.FragLive
/-!
Liveness and at-most-once of one reassembly slot lifted to the whole defragmenter (C17): many queues, frames
of the packet arbitrarily interleaved with frames – honest or hostile – of other packets.

* `Owns d i S` – slot `i` is the one `select_queue` finds for stream offset `S`;
* `NotReclaimed i d frames` – the property's premise "before its slot is reclaimed";
* `recv_own` / `recv_other` – one `recv` call as seen from slot `i`;
* `once_after_idle` – after the slot emitted, no further packet labelled `S` is emitted (at most once);
* `live_run` / `live_run_first` – the packet is emitted exactly once, at the first moment all frames arrived;
* `fresh_live` – the first frame of an honest packet that is given a new slot starts the `Live` state.
-/
namespace ScionVerif.Frag
open ScionVerif.Generated.Frag
variable {α : Type}

/-! ### 1. `ingest_frame` never changes the stream offset of a queue -/

theorem finish_streamOff (q2 : Queue α) (f : Frame α) (idx : Nat) :
    (q2.finish f idx).1.streamOff = q2.streamOff := by
  unfold Queue.finish
  simp only []
  repeat' split
  all_goals rfl

theorem finish_packet_stream {q2 : Queue α} {f : Frame α} {idx s : Nat} {p : List α}
    (h : (q2.finish f idx).2 = .packet s p) : s = q2.streamOff := by
  unfold Queue.finish at h
  simp only [] at h
  repeat' split at h
  all_goals first
    | (simp only [Out.packet.injEq] at h; exact h.1.symm)
    | (simp at h; done)

theorem classify_streamOff_ok {q q1 : Queue α} {f : Frame α} {idx : Nat}
    (h : q.classify f = .ok (q1, idx)) : q1.streamOff = q.streamOff := by
  unfold Queue.classify at h
  simp only [] at h
  repeat' split at h
  all_goals first
    | (simp only [Except.ok.injEq, Prod.mk.injEq] at h; obtain ⟨rfl, _⟩ := h; rfl)
    | (simp at h; done)

theorem classify_streamOff_err {q q' : Queue α} {f : Frame α} {e : Err}
    (h : q.classify f = .error (q', e)) : q'.streamOff = q.streamOff := by
  unfold Queue.classify at h
  simp only [] at h
  repeat' split at h
  all_goals first
    | (simp only [Except.error.injEq, Prod.mk.injEq] at h; obtain ⟨rfl, _⟩ := h; rfl)
    | (simp at h; done)

theorem ingest_streamOff (q : Queue α) (f : Frame α) : (q.ingest f).1.streamOff = q.streamOff := by
  unfold Queue.ingest
  split
  · rfl
  split
  · rfl
  split
  · rename_i q' e hc; exact classify_streamOff_err hc
  · rename_i q1 idx hc
    have h1 := classify_streamOff_ok hc
    split
    · exact h1
    · rename_i q2 ho
      rw [finish_streamOff, (oneTime_ok ho).2.2.1, h1]

theorem ingest_packet_stream {q : Queue α} {f : Frame α} {s : Nat} {p : List α}
    (h : (q.ingest f).2 = .packet s p) : s = q.streamOff := by
  unfold Queue.ingest at h
  split at h
  · simp at h
  split at h
  · simp at h
  split at h
  · simp at h
  · rename_i q1 idx hc
    have h1 := classify_streamOff_ok hc
    split at h
    · simp at h
    · rename_i q2 ho
      rw [finish_packet_stream h, (oneTime_ok ho).2.2.1, h1]

theorem finish_used (q2 : Queue α) (f : Frame α) (idx : Nat) : (q2.finish f idx).1.used = q2.used := by
  unfold Queue.finish
  simp only []
  repeat' split
  all_goals rfl

theorem classify_used_ok {q q1 : Queue α} {f : Frame α} {idx : Nat}
    (h : q.classify f = .ok (q1, idx)) : q1.used = q.used := by
  unfold Queue.classify at h
  simp only [] at h
  repeat' split at h
  all_goals first
    | (simp only [Except.ok.injEq, Prod.mk.injEq] at h; obtain ⟨rfl, _⟩ := h; rfl)
    | (simp at h; done)

theorem classify_used_err {q q' : Queue α} {f : Frame α} {e : Err}
    (h : q.classify f = .error (q', e)) : q'.used = q.used := by
  unfold Queue.classify at h
  simp only [] at h
  repeat' split at h
  all_goals first
    | (simp only [Except.error.injEq, Prod.mk.injEq] at h; obtain ⟨rfl, _⟩ := h; rfl)
    | (simp at h; done)

theorem oneTime_used {q1 q2 : Queue α} (h : oneTime q1 = .ok q2) : q2.used = q1.used := by
  unfold oneTime at h
  split at h
  · split at h
    · simp at h
    · simp only [] at h
      split at h
      · simp at h
      · simp only [Except.ok.injEq] at h; subst h; rfl
  · simp only [Except.ok.injEq] at h; subst h; rfl

/-- `ingest_frame` never touches the `used` flag -/
theorem ingest_used (q : Queue α) (f : Frame α) : (q.ingest f).1.used = q.used := by
  unfold Queue.ingest
  split
  · rfl
  split
  · rfl
  split
  · rename_i q' e hc; exact classify_used_err hc
  · rename_i q1 idx hc
    have h1 := classify_used_ok hc
    split
    · exact h1
    · rename_i q2 ho
      rw [finish_used, oneTime_used ho, h1]

/-- an idle queue answers `queue_idle` and does not change -/
theorem ingest_idle (q : Queue α) (f : Frame α) (h : q.idle = true) :
    q.ingest f = (q, .err .queueNotAccepting) := by
  simp [Queue.ingest, h]

/-! ### 2. which queue `select_queue` finds -/

/-- the test of the `select_queue` loop: queue `q` is the one that reassembles stream offset `s`
    (the only place that depends on the form of that test, together with `scanQueues_cons`,
    `holds_streamOff`, `holds_ingest`, `holds_init` and `selectQueue_existing_holds`) -/
def Queue.holds (q : Queue α) (s : Nat) : Bool := q.used && q.streamOff == s

theorem scanQueues_cons (s : Nat) (q : Queue α) (qs : List (Queue α)) (i : Nat) (sc : Scan) :
    scanQueues s (q :: qs) i sc = if q.holds s then .inl i else scanQueues s qs (i + 1) (scanStep q i sc) := rfl

theorem holds_streamOff {q : Queue α} {s : Nat} (h : q.holds s = true) : q.streamOff = s := by
  simp [Queue.holds] at h; exact h.2

theorem holds_inj {q : Queue α} {s t : Nat} (h1 : q.holds s = true) (h2 : q.holds t = true) : s = t :=
  (holds_streamOff h1).symm.trans (holds_streamOff h2)

/-- `ingest_frame` changes nothing `select_queue` looks at -/
theorem holds_ingest (q : Queue α) (f : Frame α) (s : Nat) : (q.ingest f).1.holds s = q.holds s := by
  simp only [Queue.holds, ingest_streamOff, ingest_used]

theorem holds_init (q : Queue α) (f : Frame α) (s : Nat) : (q.init f).holds s = (f.hdr.streamOff == s) := by
  simp [Queue.holds, Queue.init]

theorem selectQueue_existing_holds {d : Defrag α} {f : Frame α} {i : Nat} (hsel : selectQueue d f = .existing i) :
    ∃ q, d.queues[i]? = some q ∧ q.holds f.hdr.streamOff = true := by
  have scan_inl_holds : ∀ (qs : List (Queue α)) (i0 i : Nat) (sc : Scan),
      scanQueues f.hdr.streamOff qs i0 sc = .inl i →
      i0 ≤ i ∧ ∃ q, qs[i - i0]? = some q ∧ q.holds f.hdr.streamOff = true := by
    intro qs
    induction qs with
    | nil => intro i0 i sc h; simp [scanQueues] at h
    | cons q0 qs ih =>
      intro i0 i sc h
      rw [scanQueues_cons] at h
      split at h
      · rename_i h0
        simp only [Sum.inl.injEq] at h
        subst h
        exact ⟨Nat.le_refl _, q0, by simp, h0⟩
      · obtain ⟨h1, q', hq', hs⟩ := ih _ _ _ h
        refine ⟨by omega, q', ?_, hs⟩
        have : i - i0 = (i - (i0 + 1)) + 1 := by omega
        rw [this]; simpa using hq'
  unfold selectQueue at hsel
  split at hsel
  · rename_i j hscan
    simp only [Sel.existing.injEq] at hsel
    subst hsel
    obtain ⟨_, q, hq, hs⟩ := scan_inl_holds _ _ _ _ hscan
    simp only [Nat.sub_zero] at hq
    exact ⟨q, hq, hs⟩
  · split at hsel
    · simp at hsel
    · split at hsel
      · simp at hsel
      · split at hsel <;> (simp only [] at hsel; split at hsel <;> simp at hsel)

/-- queue `i` is the one `select_queue` finds for stream offset `S`: it carries `S` and no earlier queue does -/
def Owns (d : Defrag α) (i S : Nat) : Prop :=
  (∃ q, d.queues[i]? = some q ∧ q.holds S = true) ∧
  ∀ j q', j < i → d.queues[j]? = some q' → q'.holds S = false

/-- the single-frame fast path of `recv_fallible` -/
def fastPath (f : Frame α) : Bool := f.hdr.isLast && f.hdr.frameOff == 0

/-- slot `i` is not re-initialised for another packet while `frames` are fed to `d`
    (the property's premise "before its slot is reclaimed") -/
def NotReclaimed (i : Nat) : Defrag α → List (Frame α) → Prop
  | _, [] => True
  | d, f :: fs => (fastPath f = false → selectQueue d f ≠ .fresh i) ∧
                  ∀ d' o, d.recvFrame f = some (d', o) → NotReclaimed i d' fs

theorem scan_first {S : Nat} {qs : List (Queue α)} {i : Nat} {q : Queue α} (i0 : Nat) (sc : Scan)
    (hq : qs[i]? = some q) (hS : q.holds S = true)
    (hno : ∀ j q', j < i → qs[j]? = some q' → q'.holds S = false) :
    scanQueues S qs i0 sc = .inl (i0 + i) := by
  induction qs generalizing i i0 sc with
  | nil => simp at hq
  | cons q0 qs ih =>
    rw [scanQueues_cons]
    cases i with
    | zero =>
      simp only [List.getElem?_cons_zero, Option.some.injEq] at hq
      subst hq
      simp [hS]
    | succ i =>
      have h0 : q0.holds S = false := hno 0 q0 (by omega) (by simp)
      simp only [h0, Bool.false_eq_true, ↓reduceIte]
      simp only [List.getElem?_cons_succ] at hq
      rw [ih (i0 + 1) (scanStep q0 i0 sc) hq
        (fun j q' hj hq' => hno (j + 1) q' (by omega) (by simpa using hq'))]
      congr 1; omega

/-- a scan that runs to the end has seen no queue that holds the stream offset looked for -/
theorem scan_inr_none {s : Nat} {qs : List (Queue α)} {i0 : Nat} {sc sc' : Scan}
    (h : scanQueues s qs i0 sc = .inr sc') : ∀ q ∈ qs, q.holds s = false := by
  induction qs generalizing i0 sc with
  | nil => intro q hq; simp at hq
  | cons q0 qs ih =>
    rw [scanQueues_cons] at h
    split at h
    · simp at h
    · rename_i h0
      intro q hq
      rcases List.mem_cons.mp hq with rfl | hq
      · simpa using h0
      · exact ih h q hq

theorem selectQueue_owns {d : Defrag α} {i S : Nat} {f : Frame α} (hown : Owns d i S)
    (hs : f.hdr.streamOff = S) : selectQueue d f = .existing i := by
  obtain ⟨⟨q, hq, hqS⟩, hno⟩ := hown
  unfold selectQueue
  rw [hs, scan_first 0 {} hq hqS hno]
  simp

/-- `select_queue` hands out a fresh slot only if no queue holds the stream offset -/
theorem selectQueue_fresh_none {d : Defrag α} {f : Frame α} {i : Nat} (hsel : selectQueue d f = .fresh i) :
    ∀ q ∈ d.queues, q.holds f.hdr.streamOff = false := by
  unfold selectQueue at hsel
  split at hsel
  · simp at hsel
  · rename_i sc hscan
    exact scan_inr_none hscan

theorem Owns.lt {d : Defrag α} {i S : Nat} (h : Owns d i S) : i < d.queues.length := by
  obtain ⟨⟨q, hq, _⟩, _⟩ := h
  exact (List.getElem?_eq_some_iff.mp hq).1

theorem Owns.holds {d : Defrag α} {i S : Nat} {q : Queue α} (h : Owns d i S)
    (hq : d.queues[i]? = some q) : q.holds S = true := by
  obtain ⟨⟨q0, hq0, hS⟩, _⟩ := h
  rw [hq] at hq0; cases hq0; exact hS

theorem Owns.streamOff {d : Defrag α} {i S : Nat} {q : Queue α} (h : Owns d i S)
    (hq : d.queues[i]? = some q) : q.streamOff = S := holds_streamOff (h.holds hq)

/-- the owning slot is replaced by a queue that holds the same stream offset -/
theorem Owns.set_own {d : Defrag α} {i S : Nat} {q' : Queue α} (h : Owns d i S) (hs : q'.holds S = true) :
    Owns { queues := d.queues.set i q' } i S := by
  refine ⟨⟨q', List.getElem?_set_self h.lt, hs⟩, ?_⟩
  intro j q'' hj hq''
  simp only [] at hq''
  rw [List.getElem?_set_ne (by omega)] at hq''
  exact h.2 j q'' hj hq''

/-- another slot is replaced by a queue that does not hold `S` -/
theorem Owns.set_other {d : Defrag α} {i j S : Nat} {q' : Queue α} (h : Owns d i S) (hji : j ≠ i)
    (hs : q'.holds S = false) : Owns { queues := d.queues.set j q' } i S := by
  obtain ⟨⟨q, hq, hqS⟩, hno⟩ := h
  refine ⟨⟨q, by simp only []; rw [List.getElem?_set_ne hji]; exact hq, hqS⟩, ?_⟩
  intro k q'' hk hq''
  simp only [List.getElem?_set] at hq''
  split at hq''
  · split at hq''
    · cases hq''; exact hs
    · cases hq''
  · exact hno k q'' hk hq''

/-! ### 3./4. one `recv` call, as seen from slot `i` -/

theorem fastPath_false {f : Frame α} (h : fastPath f = false) :
    ¬ ((f.hdr.isLast && f.hdr.frameOff == 0) = true) := by
  unfold fastPath at h; rw [h]; simp

/-- a multi-frame frame with the slot's stream offset is ingested by the slot -/
theorem recv_own {hist : List (Frame α)} {d : Defrag α} {i S : Nat} {q : Queue α} {f : Frame α}
    (hinv : DInv hist d) (hown : Owns d i S) (hq : d.queues[i]? = some q) (hs : f.hdr.streamOff = S)
    (hfast : fastPath f = false) :
    d.recvFrame f = some ({ queues := d.queues.set i (q.ingest f).1 }, (q.ingest f).2) := by
  have hqS := hown.streamOff hq
  unfold Defrag.recvFrame
  rw [if_neg (fastPath_false hfast)]
  simp only [selectQueue_owns hown hs, hq,
    ingestP_of_inv f (hinv q (List.mem_of_getElem? hq)) (hs.trans hqS.symm)]

/-- a frame with another stream offset – honest or hostile – leaves slot `i` untouched unless `select_queue`
    re-initialises exactly that slot, and cannot emit a packet labelled `S` -/
theorem recv_other {hist : List (Frame α)} {d d' : Defrag α} {i S : Nat} {q : Queue α} {f : Frame α} {o : Out α}
    (_hinv : DInv hist d) (hown : Owns d i S) (hq : d.queues[i]? = some q) (hne : f.hdr.streamOff ≠ S)
    (hnr : fastPath f = false → selectQueue d f ≠ .fresh i)
    (hr : d.recvFrame f = some (d', o)) :
    d'.queues[i]? = some q ∧ Owns d' i S ∧ ∀ p, o ≠ .packet S p := by
  unfold Defrag.recvFrame at hr
  split at hr
  · simp only [Option.some.injEq, Prod.mk.injEq] at hr
    obtain ⟨rfl, rfl⟩ := hr
    refine ⟨hq, hown, ?_⟩
    intro p hp
    simp only [Out.packet.injEq] at hp
    exact hne hp.1
  · rename_i hfast
    have hfp : fastPath f = false := by
      unfold fastPath; simpa using hfast
    split at hr
    · simp only [Option.some.injEq, Prod.mk.injEq] at hr
      obtain ⟨rfl, rfl⟩ := hr
      exact ⟨hq, hown, by intro p hp; simp at hp⟩
    · simp at hr
    · -- an existing queue `j`: it carries the frame's stream offset, so `j ≠ i`
      rename_i j hsel
      obtain ⟨qj, hqj, hsj⟩ := selectQueue_existing_holds hsel
      have hji : j ≠ i := by
        rintro rfl
        rw [hq] at hqj; cases hqj
        exact hne (holds_inj hsj (hown.holds hq))
      have hqjS : qj.holds S = false := by
        cases hh : qj.holds S
        · rfl
        · exact absurd (holds_inj hsj hh) hne
      simp only [hqj] at hr
      split at hr
      rotate_left
      · simp at hr
      rename_i q' o' hing
      have hing := ingestP_eq hing
      simp only [Option.some.injEq, Prod.mk.injEq] at hr
      obtain ⟨rfl, rfl⟩ := hr
      have hq'e : q' = (qj.ingest f).1 := by rw [← hing]
      have ho'e : o' = (qj.ingest f).2 := by rw [← hing]
      subst hq'e ho'e
      have hso : (qj.ingest f).1.holds S = false := by rw [holds_ingest]; exact hqjS
      refine ⟨by simp only []; rw [List.getElem?_set_ne hji]; exact hq, hown.set_other hji hso, ?_⟩
      intro p hp
      have := ingest_packet_stream hp
      exact hne ((holds_streamOff hsj).symm.trans this.symm)
    · -- a re-initialised queue `j ≠ i`: it gets the frame's stream offset
      rename_i j hsel
      have hji : j ≠ i := by
        rintro rfl
        exact hnr hfp hsel
      split at hr
      rotate_left
      · simp at hr
      rename_i qj hqj
      split at hr
      rotate_left
      · simp at hr
      rename_i q' o' hing
      have hing := ingestP_eq hing
      simp only [Option.some.injEq, Prod.mk.injEq] at hr
      obtain ⟨rfl, rfl⟩ := hr
      have hq'e : q' = ((qj.init f).ingest f).1 := by rw [← hing]
      have ho'e : o' = ((qj.init f).ingest f).2 := by rw [← hing]
      subst hq'e ho'e
      have hi : (qj.init f).streamOff = f.hdr.streamOff := rfl
      have hso : ((qj.init f).ingest f).1.holds S = false := by
        rw [holds_ingest, holds_init]; simpa using hne
      refine ⟨by simp only []; rw [List.getElem?_set_ne hji]; exact hq, hown.set_other hji hso, ?_⟩
      intro p hp
      have := ingest_packet_stream hp
      exact hne (hi.symm.trans this.symm)

/-! ### runs -/

theorem run_cons {d d1 d2 : Defrag α} {f : Frame α} {fs : List (Frame α)} {o : Out α} {os : List (Out α)}
    (h1 : d.recvFrame f = some (d1, o)) (h2 : d1.run fs = some (d2, os)) :
    d.run (f :: fs) = some (d2, o :: os) := by
  simp [Defrag.run, h1, h2]

theorem run_cons_inv {d d' : Defrag α} {f : Frame α} {fs : List (Frame α)} {outs : List (Out α)}
    (h : d.run (f :: fs) = some (d', outs)) :
    ∃ d1 o os, d.recvFrame f = some (d1, o) ∧ d1.run fs = some (d', os) ∧ outs = o :: os := by
  unfold Defrag.run at h
  split at h
  · simp at h
  · rename_i d1 o h1
    split at h
    · simp at h
    · rename_i d2 os h2
      simp only [Option.some.injEq, Prod.mk.injEq] at h
      obtain ⟨rfl, rfl⟩ := h
      exact ⟨d1, o, os, h1, h2, rfl⟩

/-- a run from a state that satisfies the invariant does not panic -/
theorem run_some_of_inv {hist : List (Frame α)} {d : Defrag α} (hinv : DInv hist d) (frames : List (Frame α)) :
    ∃ d' outs, d.run frames = some (d', outs) := by
  induction frames generalizing hist d with
  | nil => exact ⟨d, [], rfl⟩
  | cons f fs ih =>
    have h := recvFrame_isSome hinv f
    obtain ⟨⟨d1, o⟩, h1⟩ := Option.isSome_iff_exists.mp h
    obtain ⟨d2, os, h2⟩ := ih (recvFrame_inv hinv h1).1
    exact ⟨d2, o :: os, run_cons h1 h2⟩

/-! ### 5. at most once -/

/-- **At most once, whole defragmenter.**  Slot `i` holds stream offset `S` and is idle (it has emitted, or was
    poisoned).  Whatever frames follow – of this or other packets, honest or hostile – as long as the slot is not
    re-initialised for another packet and the frames labelled `S` are not single-frame packets, no packet
    labelled `S` is emitted. -/
theorem once_after_idle {hist : List (Frame α)} {d : Defrag α} {i S : Nat} {q : Queue α} (frames : List (Frame α))
    (hinv : DInv hist d) (hown : Owns d i S) (hq : d.queues[i]? = some q) (hidle : q.idle = true)
    (hnr : NotReclaimed i d frames) (hmulti : ∀ f ∈ frames, f.hdr.streamOff = S → fastPath f = false)
    (d' : Defrag α) (outs : List (Out α)) (hrun : d.run frames = some (d', outs)) :
    ∀ (t : Nat) (p : List α), outs[t]? ≠ some (Out.packet S p) := by
  induction frames generalizing hist d outs with
  | nil =>
    simp only [Defrag.run, Option.some.injEq, Prod.mk.injEq] at hrun
    obtain ⟨_, rfl⟩ := hrun
    intro t p; simp
  | cons f fs ih =>
    obtain ⟨d1, o, os, h1, h2, rfl⟩ := run_cons_inv hrun
    have hinv1 := (recvFrame_inv hinv h1).1
    have hnr1 := hnr.2 d1 o h1
    have hmulti1 : ∀ g ∈ fs, g.hdr.streamOff = S → fastPath g = false :=
      fun g hg => hmulti g (List.mem_cons_of_mem _ hg)
    -- slot `i` is unchanged, and this frame does not emit a packet labelled `S`
    have key : d1.queues[i]? = some q ∧ Owns d1 i S ∧ ∀ p, o ≠ .packet S p := by
      by_cases hs : f.hdr.streamOff = S
      · have hr := recv_own hinv hown hq hs (hmulti f List.mem_cons_self hs)
        rw [ingest_idle q f hidle] at hr
        rw [h1] at hr
        simp only [Option.some.injEq, Prod.mk.injEq] at hr
        obtain ⟨rfl, rfl⟩ := hr
        exact ⟨List.getElem?_set_self hown.lt, hown.set_own (hown.holds hq), by intro p hp; simp at hp⟩
      · exact recv_other hinv hown hq hs hnr.1 h1
    obtain ⟨hq1, hown1, hno⟩ := key
    have hrest := ih hinv1 hown1 hq1 hnr1 hmulti1 os h2
    intro t p
    cases t with
    | zero => intro hc; exact hno p (by simpa using hc)
    | succ t => simp only [List.getElem?_cons_succ]; exact hrest t p

/-! ### 6. liveness -/

/-- an honest frame of a multi-frame packet never takes the single-frame fast path -/
theorem IsFrame_not_fast {sh : Shape} {f : Frame α} {j : Nat} (hf : sh.IsFrame f j) : fastPath f = false := by
  obtain ⟨_, hj, hoff, hkind⟩ := hf
  unfold fastPath
  split at hkind
  · rename_i hjl
    have hn := sh.hn
    have hp := sh.p_pos
    have : 1 * sh.p ≤ j * sh.p := Nat.mul_le_mul_right _ (by omega)
    have hne : f.hdr.frameOff ≠ 0 := by omega
    simp [hne]
  · simp [hkind.1]

theorem IsFrame_inj {sh : Shape} {f : Frame α} {j k : Nat} (hj : sh.IsFrame f j) (hk : sh.IsFrame f k) : j = k := by
  have h1 := hj.2.2.1
  have h2 := hk.2.2.1
  rw [h1] at h2
  exact Nat.eq_of_mul_eq_mul_right sh.p_pos h2

/-- a list of fewer than `n` numbers misses some number below `n` -/
theorem exists_missing {n : Nat} {l : List Nat} (h : l.length < n) : ∃ k, k < n ∧ k ∉ l := by
  apply Classical.byContradiction
  intro hc
  have hsub : List.range n ⊆ l := by
    intro k hk
    apply Classical.byContradiction
    intro hk'
    exact hc ⟨k, List.mem_range.mp hk, hk'⟩
  have := List.Nodup.length_le_of_subset (List.nodup_range) hsub
  simp at this; omega

/-- **Emitted exactly once, at the first moment all frames have arrived, in any interleaving.**
    Slot `i` is reassembling the honest packet `sh` and has accepted the frames `seen`.  The frames that follow may
    be frames of the packet (any order, any duplicates) interleaved with arbitrary frames of other packets; the slot is
    not re-initialised for another packet, and every frame still missing occurs.  Then the run does not panic, the
    packet is emitted at position `t` with exactly `sh.total` bytes by a frame of the packet, at no other position is
    a packet labelled `sh.S` emitted, and `t` is the first position at which all frames have arrived. -/
theorem live_run_first {sh : Shape} {i : Nat} (frames : List (Frame α)) :
    ∀ {hist : List (Frame α)} (d : Defrag α) (q : Queue α) (seen : List Nat), DInv hist d → Owns d i sh.S →
      d.queues[i]? = some q → Live sh q seen → seen.length < sh.n →
      (∀ f ∈ frames, f.hdr.streamOff = sh.S → ∃ j, sh.IsFrame f j) →
      NotReclaimed i d frames →
      (∀ k, k < sh.n → k ∈ seen ∨ ∃ f ∈ frames, sh.IsFrame f k) →
      ∃ (d' : Defrag α) (outs : List (Out α)) (t : Nat) (buf : List α),
        d.run frames = some (d', outs) ∧ buf.length = MAX_PACKET_SIZE ∧
        outs[t]? = some (.packet sh.S (buf.take sh.total)) ∧
        (∃ f j, frames[t]? = some f ∧ sh.IsFrame f j) ∧
        (∀ t' p, t' ≠ t → outs[t']? ≠ some (.packet sh.S p)) ∧
        (∀ k, k < sh.n → k ∈ seen ∨ ∃ f ∈ frames.take (t + 1), sh.IsFrame f k) ∧
        (∀ t', t' < t → ∃ k, k < sh.n ∧ k ∉ seen ∧ ∀ f ∈ frames.take (t' + 1), ¬ sh.IsFrame f k) := by
  induction frames with
  | nil =>
    intro hist d q seen _ _ _ h hlen _ _ hall
    exfalso
    have hsub : List.range sh.n ⊆ seen := by
      intro k hk
      rcases hall k (List.mem_range.mp hk) with h1 | ⟨f, hf, _⟩
      · exact h1
      · simp at hf
    have := List.Nodup.length_le_of_subset (List.nodup_range) hsub
    simp at this; omega
  | cons f fs ih =>
    intro hist d q seen hinv hown hq h hlen hfr hnr hall
    have hfr' : ∀ g ∈ fs, g.hdr.streamOff = sh.S → ∃ j, sh.IsFrame g j :=
      fun g hg => hfr g (List.mem_cons_of_mem _ hg)
    -- lifting the result for the tail
    have lift : ∀ (d1 : Defrag α) (o : Out α) (seen1 : List Nat), d.recvFrame f = some (d1, o) →
        (∀ p, o ≠ .packet sh.S p) → (∀ k, k ∈ seen1 → k ∈ seen ∨ sh.IsFrame f k) →
        (∀ k, k ∈ seen → k ∈ seen1) → (∀ k, sh.IsFrame f k → k ∈ seen1) → (∃ k, k < sh.n ∧ k ∉ seen1) →
        (∃ (d' : Defrag α) (outs : List (Out α)) (t : Nat) (buf : List α),
          d1.run fs = some (d', outs) ∧ buf.length = MAX_PACKET_SIZE ∧
          outs[t]? = some (.packet sh.S (buf.take sh.total)) ∧
          (∃ f j, fs[t]? = some f ∧ sh.IsFrame f j) ∧
          (∀ t' p, t' ≠ t → outs[t']? ≠ some (.packet sh.S p)) ∧
          (∀ k, k < sh.n → k ∈ seen1 ∨ ∃ f ∈ fs.take (t + 1), sh.IsFrame f k) ∧
          (∀ t', t' < t → ∃ k, k < sh.n ∧ k ∉ seen1 ∧ ∀ f ∈ fs.take (t' + 1), ¬ sh.IsFrame f k)) →
        ∃ (d' : Defrag α) (outs : List (Out α)) (t : Nat) (buf : List α),
          d.run (f :: fs) = some (d', outs) ∧ buf.length = MAX_PACKET_SIZE ∧
          outs[t]? = some (.packet sh.S (buf.take sh.total)) ∧
          (∃ f' j, (f :: fs)[t]? = some f' ∧ sh.IsFrame f' j) ∧
          (∀ t' p, t' ≠ t → outs[t']? ≠ some (.packet sh.S p)) ∧
          (∀ k, k < sh.n → k ∈ seen ∨ ∃ f' ∈ (f :: fs).take (t + 1), sh.IsFrame f' k) ∧
          (∀ t', t' < t → ∃ k, k < sh.n ∧ k ∉ seen ∧ ∀ f' ∈ (f :: fs).take (t' + 1), ¬ sh.IsFrame f' k) := by
      intro d1 o seen1 h1 hno hs1 hs2 hs3 hmiss ⟨d', outs, t, buf, hrun, hbl, hout, hfrm, huniq, hfirst, hmin⟩
      refine ⟨d', o :: outs, t + 1, buf, run_cons h1 hrun, hbl, by simpa using hout, by simpa using hfrm, ?_, ?_, ?_⟩
      · intro t' p ht'
        cases t' with
        | zero => intro hc; exact hno p (by simpa using hc)
        | succ t' => simp only [List.getElem?_cons_succ]; exact huniq t' p (by omega)
      · intro k hk
        rcases hfirst k hk with h1 | ⟨g, hg, hgk⟩
        · rcases hs1 k h1 with h2 | h2
          · exact Or.inl h2
          · exact Or.inr ⟨f, by simp [List.take_succ_cons], h2⟩
        · exact Or.inr ⟨g, by simp only [List.take_succ_cons]; exact List.mem_cons_of_mem _ hg, hgk⟩
      · intro t' ht'
        cases t' with
        | zero =>
          -- the packet is not complete after the head frame: some frame is still missing
          obtain ⟨k, hk, hks⟩ := hmiss
          refine ⟨k, hk, fun hc => hks (hs2 k hc), ?_⟩
          intro g hg
          simp only [Nat.zero_add, List.take_succ_cons, List.take_zero, List.mem_singleton] at hg
          subst hg
          exact fun hc => hks (hs3 k hc)
        | succ t' =>
          obtain ⟨k, hk, hks, hkf⟩ := hmin t' (by omega)
          refine ⟨k, hk, fun hc => hks (hs2 k hc), ?_⟩
          intro g hg
          simp only [List.take_succ_cons, List.mem_cons] at hg
          rcases hg with rfl | hg
          · exact fun hc => hks (hs3 k hc)
          · exact hkf g hg
    by_cases hs : f.hdr.streamOff = sh.S
    · -- a frame of the packet
      obtain ⟨j, hfj⟩ := hfr f List.mem_cons_self hs
      have hr := recv_own hinv hown hq hs (IsFrame_not_fast hfj)
      have hall' : ∀ seen1 : List Nat, (∀ k, k ∈ seen → k ∈ seen1) → j ∈ seen1 →
          ∀ k, k < sh.n → k ∈ seen1 ∨ ∃ g ∈ fs, sh.IsFrame g k := by
        intro seen1 hsub hj k hk
        rcases hall k hk with h1 | ⟨g, hg, hgk⟩
        · exact Or.inl (hsub k h1)
        · rcases List.mem_cons.mp hg with rfl | hg
          · exact Or.inl (IsFrame_inj hfj hgk ▸ hj)
          · exact Or.inr ⟨g, hg, hgk⟩
      rcases h.step f j hfj with ⟨hmem, hdup⟩ | ⟨hnew, hl, hout, hlive⟩ | ⟨hnew, hl, hidle, buf, hbl, hout⟩
      · -- duplicate: state unchanged
        rw [hdup] at hr
        have hinv1 := (recvFrame_inv hinv hr).1
        have hnr1 := hnr.2 _ _ hr
        apply lift _ _ seen hr (by intro p hp; simp at hp) (fun k hk => Or.inl hk) (fun k hk => hk)
          (fun k hk => IsFrame_inj hfj hk ▸ hmem) (exists_missing hlen)
        exact ih _ q seen hinv1 (hown.set_own (hown.holds hq)) (List.getElem?_set_self hown.lt) h hlen hfr' hnr1
          (hall' seen (fun k hk => hk) hmem)
      · -- accepted, packet not yet complete
        have hinv1 := (recvFrame_inv hinv hr).1
        have hnr1 := hnr.2 _ _ hr
        have hlen1 : (j :: seen).length < sh.n := by simpa using hl
        apply lift _ _ (j :: seen) hr (by rw [hout]; intro p hp; simp at hp)
          (fun k hk => by
            rcases List.mem_cons.mp hk with rfl | hk
            · exact Or.inr hfj
            · exact Or.inl hk)
          (fun k hk => List.mem_cons_of_mem _ hk)
          (fun k hk => IsFrame_inj hfj hk ▸ List.mem_cons_self) (exists_missing hlen1)
        exact ih _ _ (j :: seen) hinv1 (hown.set_own (by rw [holds_ingest]; exact hown.holds hq))
          (List.getElem?_set_self hown.lt) hlive hlen1 hfr' hnr1
          (hall' (j :: seen) (fun k hk => List.mem_cons_of_mem _ hk) List.mem_cons_self)
      · -- the last missing frame: emitted now, and never again
        have hinv1 := (recvFrame_inv hinv hr).1
        have hnr1 := hnr.2 _ _ hr
        obtain ⟨d', os, hrun⟩ := run_some_of_inv hinv1 fs
        have honce := once_after_idle fs hinv1 (hown.set_own (by rw [holds_ingest]; exact hown.holds hq))
          (List.getElem?_set_self hown.lt) hidle hnr1
          (fun g hg hgs => by obtain ⟨j', hj'⟩ := hfr' g hg hgs; exact IsFrame_not_fast hj') d' os hrun
        have hnd : (j :: seen).Nodup := List.nodup_cons.mpr ⟨hnew, h.nodup⟩
        have hlt : ∀ k ∈ j :: seen, k < sh.n := by
          intro k hk; rcases List.mem_cons.mp hk with rfl | hk
          · exact hfj.2.1
          · exact h.lt k hk
        have hcomplete := all_seen hnd hlt (by simpa using hl)
        refine ⟨d', _ :: os, 0, buf, run_cons hr hrun, hbl, by simp [hout], ⟨f, j, by simp, hfj⟩, ?_, ?_, ?_⟩
        · intro t' p ht'
          cases t' with
          | zero => exact absurd rfl ht'
          | succ t' => simp only [List.getElem?_cons_succ]; exact honce t' p
        · intro k hk
          rcases List.mem_cons.mp (hcomplete k hk) with rfl | hk
          · exact Or.inr ⟨f, by simp, hfj⟩
          · exact Or.inl hk
        · intro t' ht'; omega
    · -- a frame of another packet: slot `i` is untouched
      obtain ⟨⟨d1, o⟩, hr⟩ := Option.isSome_iff_exists.mp (recvFrame_isSome hinv f)
      obtain ⟨hq1, hown1, hno⟩ := recv_other hinv hown hq hs hnr.1 hr
      have hinv1 := (recvFrame_inv hinv hr).1
      have hnr1 := hnr.2 _ _ hr
      apply lift d1 o seen hr hno (fun k hk => Or.inl hk) (fun k hk => hk)
        (fun k hk => absurd hk.1 hs) (exists_missing hlen)
      apply ih d1 q seen hinv1 hown1 hq1 h hlen hfr' hnr1
      intro k hk
      rcases hall k hk with h1 | ⟨g, hg, hgk⟩
      · exact Or.inl h1
      · rcases List.mem_cons.mp hg with rfl | hg
        · exact absurd hgk.1 hs
        · exact Or.inr ⟨g, hg, hgk⟩

/-- **Emitted exactly once, any interleaving** (`live_run_first` without the statement that `t` is the first
    moment at which all frames have arrived). -/
theorem live_run {sh : Shape} {i : Nat} (frames : List (Frame α)) :
    ∀ {hist : List (Frame α)} (d : Defrag α) (q : Queue α) (seen : List Nat), DInv hist d → Owns d i sh.S →
      d.queues[i]? = some q → Live sh q seen → seen.length < sh.n →
      (∀ f ∈ frames, f.hdr.streamOff = sh.S → ∃ j, sh.IsFrame f j) →
      NotReclaimed i d frames →
      (∀ k, k < sh.n → k ∈ seen ∨ ∃ f ∈ frames, sh.IsFrame f k) →
      ∃ (d' : Defrag α) (outs : List (Out α)) (t : Nat) (buf : List α),
        d.run frames = some (d', outs) ∧ buf.length = MAX_PACKET_SIZE ∧
        outs[t]? = some (.packet sh.S (buf.take sh.total)) ∧
        (∃ f j, frames[t]? = some f ∧ sh.IsFrame f j) ∧
        ∀ t' p, t' ≠ t → outs[t']? ≠ some (.packet sh.S p) := by
  intro hist d q seen hinv hown hq h hlen hfr hnr hall
  obtain ⟨d', outs, t, buf, h1, h2, h3, h4, h5, _⟩ := live_run_first frames d q seen hinv hown hq h hlen hfr hnr hall
  exact ⟨d', outs, t, buf, h1, h2, h3, h4, h5⟩

/-! ### 7. the first frame of an honest packet that is given a new slot -/

/-- `select_queue` hands a new (idle or evicted) slot `i` to frame `j` of an honest multi-frame packet: nothing is
    reported, the slot now owns the packet's stream offset and is in the `Live` state having seen frame `j` -/
theorem fresh_live {hist : List (Frame α)} {sh : Shape} {d d' : Defrag α} {i j : Nat} {f0 : Frame α} {o : Out α}
    (hinv : DInv hist d) (hsel : selectQueue d f0 = .fresh i) (hf0 : sh.IsFrame f0 j)
    (hr : d.recvFrame f0 = some (d', o)) :
    o = .none ∧ Owns d' i sh.S ∧ ∃ q', d'.queues[i]? = some q' ∧ Live sh q' [j] := by
  have hi := selectQueue_fresh_lt hsel
  have hnone := selectQueue_fresh_none hsel
  obtain ⟨q, hq⟩ : ∃ q, d.queues[i]? = some q := ⟨_, List.getElem?_eq_getElem hi⟩
  have hqinv := hinv q (List.mem_of_getElem? hq)
  unfold Defrag.recvFrame at hr
  rw [if_neg (fastPath_false (IsFrame_not_fast hf0))] at hr
  simp only [hsel, hq] at hr
  rw [ingestP_of_inv f0 (hqinv.init f0) rfl] at hr
  simp only [Option.some.injEq, Prod.mk.injEq] at hr
  obtain ⟨rfl, rfl⟩ := hr
  have hlive0 := Live.init sh q f0 hqinv.len hf0.1
  rcases hlive0.step f0 j hf0 with ⟨hmem, _⟩ | ⟨_, _, hout, hlive⟩ | ⟨_, hl, _⟩
  · simp at hmem
  · refine ⟨hout, ⟨⟨_, List.getElem?_set_self hi, ?_⟩, ?_⟩, _, List.getElem?_set_self hi, hlive⟩
    · rw [holds_ingest, holds_init]; simp [hf0.1]
    · intro k q' hk hq'
      simp only [] at hq'
      rw [List.getElem?_set_ne (by omega)] at hq'
      rw [← hf0.1]; exact hnone q' (List.mem_of_getElem? hq')
  · have := sh.hn; simp at hl; omega

/-! ### executable form of the premise, and a concrete run that satisfies all hypotheses -/

/-- `NotReclaimed` as a computation (what a test harness can evaluate on a concrete run) -/
def notReclaimedB (i : Nat) : Defrag α → List (Frame α) → Bool
  | _, [] => true
  | d, f :: fs =>
    (fastPath f || decide (selectQueue d f ≠ .fresh i)) &&
    (match d.recvFrame f with
     | some (d', _) => notReclaimedB i d' fs
     | none => true)

theorem NotReclaimed.of_check {i : Nat} :
    ∀ (fs : List (Frame α)) (d : Defrag α), notReclaimedB i d fs = true → NotReclaimed i d fs
  | [], _, _ => trivial
  | f :: fs, d, h => by
    simp only [notReclaimedB, Bool.and_eq_true, Bool.or_eq_true, decide_eq_true_eq] at h
    unfold NotReclaimed
    refine ⟨fun hf => ?_, fun d' o hr => ?_⟩
    · rcases h.1 with h1 | h1
      · rw [hf] at h1; cases h1
      · exact h1
    · have h2 := h.2
      rw [hr] at h2
      exact NotReclaimed.of_check fs d' h2

/-- the hypotheses of `fresh_live` and `live_run` are met by a real run (evaluated by the kernel): two honest
    2-frame packets of 256+3 bytes, interleaved, the first one delivered in reverse order, two queues -/
example :
    let sh : Shape := ⟨7, 256, 2, 3, by decide, by decide, by decide, by decide, by decide⟩
    let a0 : Frame Nat := ⟨⟨7, 0, 0⟩, List.replicate 256 9⟩
    let a1 : Frame Nat := ⟨⟨7, 256, FLAG_LAST⟩, [1, 2, 3]⟩
    let b0 : Frame Nat := ⟨⟨300, 0, 0⟩, List.replicate 256 8⟩
    let b1 : Frame Nat := ⟨⟨300, 256, FLAG_LAST⟩, [4, 5, 6]⟩
    ∃ (d' : Defrag Nat) (outs : List (Out Nat)) (t : Nat) (buf : List Nat),
      (Defrag.new 0 2).run [a1, b0, a0, b1] = some (d', outs) ∧ buf.length = MAX_PACKET_SIZE ∧
      outs[t]? = some (.packet 7 (buf.take sh.total)) ∧
      ∀ t' p, t' ≠ t → outs[t']? ≠ some (.packet 7 p) := by
  intro sh a0 a1 b0 b1
  have hinv : DInv ([] : List (Frame Nat)) (Defrag.new 0 2) := DInv.new 0 2
  have hsel : selectQueue (Defrag.new 0 2) a1 = .fresh 1 := by decide +kernel
  have ha1 : sh.IsFrame a1 1 := ⟨rfl, by decide, by decide, by decide⟩
  have ha0 : sh.IsFrame a0 0 := by
    refine ⟨rfl, by decide, by decide, ?_⟩
    rw [if_neg (by decide)]
    exact ⟨by decide, List.length_replicate⟩
  obtain ⟨⟨d1, o⟩, hr⟩ := Option.isSome_iff_exists.mp (recvFrame_isSome hinv a1)
  have hB : (match (Defrag.new (0 : Nat) 2).recvFrame a1 with
      | some (d1, _) => notReclaimedB 1 d1 [b0, a0, b1]
      | none => false) = true := by decide +kernel
  rw [hr] at hB
  obtain ⟨ho, hown, q', hq', hlive⟩ := fresh_live hinv hsel ha1 hr
  obtain ⟨d', outs, t, buf, hrun, hbl, hout, _, huniq⟩ :=
    live_run (sh := sh) [b0, a0, b1] d1 q' [1] (recvFrame_inv hinv hr).1 hown hq' hlive (by decide)
      (by
        intro f hf hs
        simp only [List.mem_cons, List.not_mem_nil, or_false] at hf
        rcases hf with rfl | rfl | rfl
        · exact absurd hs (by decide)
        · exact ⟨0, ha0⟩
        · exact absurd hs (by decide))
      (NotReclaimed.of_check _ _ hB)
      (by
        intro k hk
        have hk' : k < 2 := hk
        rcases Nat.lt_or_ge k 1 with h0 | h1
        · have : k = 0 := by omega
          subst this
          exact Or.inr ⟨a0, by simp, ha0⟩
        · have : k = 1 := by omega
          subst this
          exact Or.inl (by simp))
  refine ⟨d', o :: outs, t + 1, buf, run_cons hr hrun, hbl, by simpa using hout, ?_⟩
  intro t' p ht'
  cases t' with
  | zero => subst ho; simp
  | succ t' => simp only [List.getElem?_cons_succ]; exact huniq t' p (by omega)

end ScionVerif.Frag
