import ScionVerif.Model.Beacon
import ScionVerif.Lemmas.Router
/-!
Lemmas for C01: a packet on a beaconed segment is forwarded hop by hop by the model of pocketscion's router
(`routeStd` / `walk`), in construction direction (`fwd_*`) and against it (`rev_*`), for an arbitrary MAC
function and arbitrary per-AS keys.  Property theorems: `Theorems/C01.lean`.
-/
namespace ScionVerif.Router
open ScionVerif.Generated.Router

def hopOf (macf : MacF) (ts beta : Nat) (e : Entry) : Hop :=
  { inAlert := false, egAlert := false, exp := e.exp, consIngress := e.consIngress,
    consEgress := e.consEgress, mac := macf e.key beta ts e.exp e.consIngress e.consEgress }

theorem mkHops_length (macf : MacF) (ts : Nat) (beta : Nat) (es : List Entry) :
    (mkHops macf ts beta es).length = es.length := by
  induction es generalizing beta with
  | nil => rfl
  | cons e es ih => simp [mkHops, ih]

theorem mkHops_get (macf : MacF) (ts : Nat) (beta : Nat) (es : List Entry) (k : Nat) (e : Entry)
    (h : es[k]? = some e) :
    (mkHops macf ts beta es)[k]? = some (hopOf macf ts (betaAt macf ts beta es k) e) := by
  induction es generalizing beta k with
  | nil => simp at h
  | cons e0 es ih =>
    cases k with
    | zero => simp at h; subst h; simp [mkHops, betaAt, hopOf]
    | succ k => simp at h; simp [mkHops, betaAt]; exact ih _ _ h

theorem betaAt_succ (macf : MacF) (ts : Nat) (beta : Nat) (es : List Entry) (k : Nat) (e : Entry)
    (h : es[k]? = some e) :
    betaAt macf ts beta es (k + 1) =
      betaStep (betaAt macf ts beta es k) (hopOf macf ts (betaAt macf ts beta es k) e).mac := by
  induction es generalizing beta k with
  | nil => simp at h
  | cons e0 es ih =>
    cases k with
    | zero => simp at h; subst h; simp [betaAt, hopOf]
    | succ k => simp at h; simp only [betaAt]; exact ih _ _ h

theorem setAt_same {α} (l : List α) (i : Nat) (a : α) (h : l[i]? = some a) : setAt l i a = l := by
  unfold setAt
  apply List.ext_getElem?
  intro j
  by_cases hj : i = j
  · subst hj
    have hl : i < l.length := (List.getElem?_eq_some_iff.mp h).1
    rw [List.getElem?_set_self hl, h]
  · rw [List.getElem?_set_ne hj]


/-- the packet on a single segment of `n = es.length` hop fields, travelling in construction direction,
    positioned at hop `k` -/
def fwdPath (macf : MacF) (ts beta0 : Nat) (es : List Entry) (k : Nat) : Path :=
  { currInf := 0, currHf := k, seg0 := es.length, seg1 := 0, seg2 := 0,
    infos := [{ consDir := true, peer := false, segId := betaAt macf ts beta0 es k, ts := ts }],
    hops := mkHops macf ts beta0 es }

theorem fwd_segIndex (macf : MacF) (ts beta0 : Nat) (es : List Entry) (k : Nat) (hk : k < es.length) :
    (fwdPath macf ts beta0 es k).segIndex k = some (0, k == 0, k + 1 == es.length) := by
  simp [Path.segIndex, fwdPath, hk]

theorem fwd_validate (macf : MacF) (ts beta : Nat) (e : Entry) (c : VCtx)
    (hkey : c.key = e.key) (hign : c.ignoreMacs = false) (hts : ts ≤ c.now)
    (hexp : c.now ≤ expiryTs (hopOf macf ts beta e) ⟨true, false, beta, ts⟩)
    (hif : ifaceCheck c (hopOf macf ts beta e) ⟨true, false, beta, ts⟩ = none) :
    validateHop macf c (hopOf macf ts beta e) ⟨true, false, beta, ts⟩ = none := by
  unfold validateHop
  rw [hif]
  simp only []
  have h1 : ¬ ts > c.now := by omega
  have h2 : ¬ expiryTs (hopOf macf ts beta e) ⟨true, false, beta, ts⟩ < c.now := by omega
  simp [h1, hign, hkey, hopOf]
  exact hexp


/-- ingress processing of hop `k` of a construction-direction segment leaves the packet unchanged and
    asks for the egress interface of that hop (or local delivery at the last hop) -/
theorem fwd_ingress (macf : MacF) (ts beta0 : Nat) (es : List Entry) (k : Nat) (e : Entry)
    (hn : 2 ≤ es.length) (he : es[k]? = some e) (c : VCtx) (fi : Bool)
    (hkey : c.key = e.key) (hign : c.ignoreMacs = false) (hin : c.ingress = true) (hsc : c.segChanged = false)
    (hcur : c.curIf = 0 ∨ c.curIf = e.consIngress)
    (hts : ts ≤ c.now)
    (hexp : c.now ≤ expiryTs (hopOf macf ts (betaAt macf ts beta0 es k) e) ⟨true, false, betaAt macf ts beta0 es k, ts⟩) :
    advanceIngress macf c (fwdPath macf ts beta0 es k) fi =
      .ok (fwdPath macf ts beta0 es k,
           { scmpAlert := false, ingressIf := e.consIngress,
             action := if k + 1 = es.length then .forwardLocal else .continueEgress e.consEgress }, none) := by
  have hk : k < es.length := (List.getElem?_eq_some_iff.mp he).1
  have hhop := mkHops_get macf ts beta0 es k e he
  have hif : ifaceCheck c (hopOf macf ts (betaAt macf ts beta0 es k) e) ⟨true, false, betaAt macf ts beta0 es k, ts⟩ = none := by
    unfold ifaceCheck
    simp only [hin, hsc, Bool.false_eq_true, ↓reduceIte, Hop.ingressIf, hopOf]
    rcases hcur with h | h <;> simp [h]
  have hval := fwd_validate macf ts _ e c hkey hign hts hexp hif
  unfold advanceIngress
  have hseg : (fwdPath macf ts beta0 es k).segIndex (fwdPath macf ts beta0 es k).currHf =
      some (0, k == 0, k + 1 == es.length) := fwd_segIndex macf ts beta0 es k hk
  rw [hseg]
  simp only []
  have h1 : ((k == 0) && (k + 1 == es.length)) = false := by
    cases k with
    | zero => simp; omega
    | succ k => simp
  simp only [h1, Bool.false_eq_true, ↓reduceIte]
  have h2 : ((0 : Nat) != (fwdPath macf ts beta0 es k).currInf) = false := by simp [fwdPath]
  simp only [h2, Bool.false_eq_true, ↓reduceIte]
  have hh : (fwdPath macf ts beta0 es k).hops[(fwdPath macf ts beta0 es k).currHf]? =
      some (hopOf macf ts (betaAt macf ts beta0 es k) e) := by simpa [fwdPath] using hhop
  have hi : (fwdPath macf ts beta0 es k).infos[(fwdPath macf ts beta0 es k).currInf]? =
      some ⟨true, false, betaAt macf ts beta0 es k, ts⟩ := by simp [fwdPath]
  rw [hh, hi]
  simp only [Bool.not_true, Bool.and_false, Bool.false_eq_true, ↓reduceIte, hval]
  have halert : (hopOf macf ts (betaAt macf ts beta0 es k) e).ingressAlert true = false := by
    simp [Hop.ingressAlert, hopOf]
  simp only [halert, Bool.and_false, Bool.false_eq_true, ↓reduceIte]
  have hs1 := setAt_same _ _ _ hh
  have hs2 := setAt_same _ _ _ hi
  have hing : (hopOf macf ts (betaAt macf ts beta0 es k) e).ingressIf ⟨true, false, betaAt macf ts beta0 es k, ts⟩ = e.consIngress := by
    simp [Hop.ingressIf, hopOf]
  have heg : (hopOf macf ts (betaAt macf ts beta0 es k) e).egressIf ⟨true, false, betaAt macf ts beta0 es k, ts⟩ = e.consEgress := by
    simp [Hop.egressIf, hopOf]
  by_cases hlast : k + 1 = es.length
  · have : (fwdPath macf ts beta0 es k).currHf + 1 ≥ (fwdPath macf ts beta0 es k).hopCount := by
      simp [fwdPath, Path.hopCount]; omega
    simp [this, hlast, hs1, hs2, hing]
  · have : ¬ (fwdPath macf ts beta0 es k).currHf + 1 ≥ (fwdPath macf ts beta0 es k).hopCount := by
      simp [fwdPath, Path.hopCount]; omega
    simp [this, hlast, hs1, hs2, hing, heg]


theorem fwd_egress (macf : MacF) (ts beta0 : Nat) (es : List Entry) (k : Nat) (e : Entry)
    (he : es[k]? = some e) (hnl : k + 1 < es.length) (hmax : es.length ≤ MAX_TOTAL_HOPS + 1) (c : VCtx)
    (hkey : c.key = e.key) (hign : c.ignoreMacs = false) (hin : c.ingress = false)
    (hcur : c.curIf = e.consEgress) (hts : ts ≤ c.now)
    (hexp : c.now ≤ expiryTs (hopOf macf ts (betaAt macf ts beta0 es k) e) ⟨true, false, betaAt macf ts beta0 es k, ts⟩) :
    advanceEgress macf c (fwdPath macf ts beta0 es k) =
      .ok (fwdPath macf ts beta0 es (k + 1), { scmpAlert := false, egressIf := e.consEgress }, none) := by
  have hk : k < es.length := by omega
  have hhop := mkHops_get macf ts beta0 es k e he
  have hif : ifaceCheck c (hopOf macf ts (betaAt macf ts beta0 es k) e) ⟨true, false, betaAt macf ts beta0 es k, ts⟩ = none := by
    unfold ifaceCheck
    simp [hin, Hop.egressIf, hopOf, hcur]
  have hval := fwd_validate macf ts _ e c hkey hign hts hexp hif
  unfold advanceEgress
  have hseg : (fwdPath macf ts beta0 es k).segIndex (fwdPath macf ts beta0 es k).currHf =
      some (0, k == 0, k + 1 == es.length) := fwd_segIndex macf ts beta0 es k hk
  rw [hseg]
  simp only []
  have h2 : ((0 : Nat) != (fwdPath macf ts beta0 es k).currInf) = false := by simp [fwdPath]
  simp only [h2, Bool.false_eq_true, ↓reduceIte]
  have hh : (fwdPath macf ts beta0 es k).hops[(fwdPath macf ts beta0 es k).currHf]? =
      some (hopOf macf ts (betaAt macf ts beta0 es k) e) := by simpa [fwdPath] using hhop
  have hi : (fwdPath macf ts beta0 es k).infos[(fwdPath macf ts beta0 es k).currInf]? =
      some ⟨true, false, betaAt macf ts beta0 es k, ts⟩ := by simp [fwdPath]
  rw [hh, hi]
  simp only []
  have hnf : ¬ (fwdPath macf ts beta0 es k).currHf + 1 ≥ (fwdPath macf ts beta0 es k).hopCount := by
    simp [fwdPath, Path.hopCount]; omega
  have hne : (k + 1 == es.length) = false := by simp; omega
  have hmx : ¬ (fwdPath macf ts beta0 es k).currHf + 1 > MAX_TOTAL_HOPS := by
    simp only [fwdPath]; omega
  have halert : (hopOf macf ts (betaAt macf ts beta0 es k) e).egressAlert true = false := by
    simp [Hop.egressAlert, hopOf]
  have heg : ∀ s, (hopOf macf ts (betaAt macf ts beta0 es k) e).egressIf ⟨true, false, s, ts⟩ = e.consEgress := by
    intro s; simp [Hop.egressIf, hopOf]
  have hs1 := setAt_same _ _ _ hh
  have hb := betaAt_succ macf ts beta0 es k e he
  simp only [hnf, hmx, hne, Bool.false_eq_true, ↓reduceIte, hval, halert, hs1, heg]
  simp [fwdPath, setAt, hb]


/-- all hop fields of the segment are valid at `now` -/
def Timely (macf : MacF) (ts beta0 now : Nat) (es : List Entry) : Prop :=
  ts ≤ now ∧ ∀ k e, es[k]? = some e →
    now ≤ expiryTs (hopOf macf ts (betaAt macf ts beta0 es k) e) ⟨true, false, betaAt macf ts beta0 es k, ts⟩

theorem fwd_route_step (macf : MacF) (ts beta0 : Nat) (es : List Entry) (k : Nat) (e : Entry)
    (hn : 2 ≤ es.length) (he : es[k]? = some e) (hnl : k + 1 < es.length) (hmax : es.length ≤ MAX_TOTAL_HOPS + 1)
    (dst curIf now : Nat) (lookup : Nat → Option IfState) (st : IfState)
    (hcur : curIf = 0 ∨ curIf = e.consIngress)
    (hl : lookup e.consEgress = some st) (hup : st.up = true)
    (htm : Timely macf ts beta0 now es) :
    routeStd macf e.ia dst (fwdPath macf ts beta0 es k) curIf now e.key lookup false =
      (fwdPath macf ts beta0 es (k + 1), .forwardNext e.consEgress) := by
  unfold routeStd
  simp only []
  rw [fwd_ingress macf ts beta0 es k e hn he _ _ rfl rfl rfl rfl hcur htm.1 (htm.2 k e he)]
  have hne : ¬ (k + 1 = es.length) := by omega
  simp only [hne, ↓reduceIte, Bool.false_and]
  have hi : (fwdPath macf ts beta0 es k).infos[(fwdPath macf ts beta0 es k).currInf]? =
      some ⟨true, false, betaAt macf ts beta0 es k, ts⟩ := by simp [fwdPath]
  rw [hi]
  simp only [hl, hup, Bool.not_true, Bool.false_eq_true, ↓reduceIte]
  rw [fwd_egress macf ts beta0 es k e he hnl hmax _ rfl rfl rfl rfl htm.1 (htm.2 k e he)]
  simp

theorem fwd_route_last (macf : MacF) (ts beta0 : Nat) (es : List Entry) (k : Nat) (e : Entry)
    (hn : 2 ≤ es.length) (he : es[k]? = some e) (hl : k + 1 = es.length)
    (curIf now : Nat) (lookup : Nat → Option IfState)
    (hcur : curIf = 0 ∨ curIf = e.consIngress)
    (htm : Timely macf ts beta0 now es) :
    routeStd macf e.ia e.ia (fwdPath macf ts beta0 es k) curIf now e.key lookup false =
      (fwdPath macf ts beta0 es k, .forwardLocal) := by
  unfold routeStd
  simp only []
  rw [fwd_ingress macf ts beta0 es k e hn he _ _ rfl rfl rfl rfl hcur htm.1 (htm.2 k e he)]
  simp [hl]


/-- the topology contains the ASes and the (up) links the segment was beaconed over -/
structure ChainOK (t : Topo) (es : List Entry) : Prop where
  asOk : ∀ (k : Nat) (e : Entry), es[k]? = some e → ∃ a, t.asInfo e.ia = some a ∧ a.key = e.key ∧ a.external = false
  linkFwd : ∀ (k : Nat) (e e' : Entry), es[k]? = some e → es[k + 1]? = some e' →
    ∃ l, t.link e.ia e.consEgress = some l ∧ l.peerAs = e'.ia ∧ l.peerIf = e'.consIngress ∧ l.up = true
  linkBwd : ∀ (k : Nat) (e e' : Entry), es[k]? = some e → es[k + 1]? = some e' →
    ∃ l, t.link e'.ia e'.consIngress = some l ∧ l.peerAs = e.ia ∧ l.peerIf = e.consEgress ∧ l.up = true ∧
      e.consEgress ≠ 0

theorem fwd_walk (macf : MacF) (t : Topo) (ts beta0 now : Nat) (es : List Entry) (dst : Nat)
    (hn : 2 ≤ es.length) (hmax : es.length ≤ MAX_TOTAL_HOPS + 1) (hc : ChainOK t es) (htm : Timely macf ts beta0 now es)
    (hdst : ∀ e, es[es.length - 1]? = some e → e.ia = dst) :
    ∀ (j k : Nat) (e : Entry) (curIf steps fuel : Nat), k + j + 1 = es.length → es[k]? = some e →
      (curIf = 0 ∨ curIf = e.consIngress) → j + 1 ≤ fuel →
      walk macf t dst now false fuel e.ia curIf (fwdPath macf ts beta0 es k) steps =
        some (.delivered dst, fwdPath macf ts beta0 es (es.length - 1), steps + j + 1) := by
  intro j
  induction j with
  | zero =>
    intro k e curIf steps fuel hk he hcur hf
    obtain ⟨a, ha, hkey, _⟩ := hc.asOk k e he
    cases fuel with
    | zero => omega
    | succ fuel =>
      have hke : k = es.length - 1 := by omega
      have hd : e.ia = dst := hdst e (hke ▸ he)
      unfold walk
      simp only [ha]
      rw [hkey, ← hd, fwd_route_last macf ts beta0 es k e hn he (by omega) curIf now _ hcur htm]
      simp [hke]
  | succ j ih =>
    intro k e curIf steps fuel hk he hcur hf
    obtain ⟨a, ha, hkey, _⟩ := hc.asOk k e he
    have hk1 : k + 1 < es.length := by omega
    obtain ⟨e', he'⟩ : ∃ e', es[k + 1]? = some e' := ⟨es[k + 1], List.getElem?_eq_getElem hk1⟩
    obtain ⟨l, hl, hpa, hpi, hup⟩ := hc.linkFwd k e e' he he'
    obtain ⟨b, hb, _, hbe⟩ := hc.asOk (k + 1) e' he'
    cases fuel with
    | zero => omega
    | succ fuel =>
      unfold walk
      simp only [ha]
      have hlook : t.lookup e.ia e.consEgress = some ⟨roleToLinkType l.role, l.up⟩ := by
        simp [Topo.lookup, hl]
      rw [hkey, fwd_route_step macf ts beta0 es k e hn he hk1 hmax dst curIf now _ _ hcur hlook hup htm]
      simp only [hl, hpa, hb, hbe, Bool.false_eq_true, ↓reduceIte]
      rw [hpi, ih (k + 1) e' e'.consIngress (steps + 1) fuel (by omega) he' (Or.inr rfl) (by omega)]
      simp; omega


/-! ### the same segment travelled against construction direction (the reply / an up-segment) -/

theorem betaStep_cancel (a m : Nat) : betaStep (betaStep a m) m = a := by
  unfold betaStep
  show (a ^^^ (m / 2 ^ 32)) ^^^ (m / 2 ^ 32) = a
  rw [Nat.xor_assoc, Nat.xor_self, Nat.xor_zero]

/-- packet on the reversed segment at position `j` (original hop `n-1-j`) carrying SegID `sid` -/
def revPath (macf : MacF) (ts beta0 : Nat) (es : List Entry) (j sid : Nat) : Path :=
  { currInf := 0, currHf := j, seg0 := es.length, seg1 := 0, seg2 := 0,
    infos := [{ consDir := false, peer := false, segId := sid, ts := ts }],
    hops := (mkHops macf ts beta0 es).reverse }

theorem rev_hop (macf : MacF) (ts beta0 : Nat) (es : List Entry) (j : Nat) (e : Entry) (hj : j < es.length)
    (he : es[es.length - 1 - j]? = some e) :
    (mkHops macf ts beta0 es).reverse[j]? = some (hopOf macf ts (betaAt macf ts beta0 es (es.length - 1 - j)) e) := by
  rw [List.getElem?_reverse (by rw [mkHops_length]; exact hj), mkHops_length]
  exact mkHops_get macf ts beta0 es _ e he

theorem rev_validate (macf : MacF) (ts beta : Nat) (e : Entry) (c : VCtx)
    (hkey : c.key = e.key) (hign : c.ignoreMacs = false) (hts : ts ≤ c.now)
    (hexp : c.now ≤ expiryTs (hopOf macf ts beta e) ⟨true, false, beta, ts⟩)
    (hif : ifaceCheck c (hopOf macf ts beta e) ⟨false, false, beta, ts⟩ = none) :
    validateHop macf c (hopOf macf ts beta e) ⟨false, false, beta, ts⟩ = none := by
  unfold validateHop
  rw [hif]
  simp only []
  have h1 : ¬ ts > c.now := by omega
  have hexp' : c.now ≤ expiryTs (hopOf macf ts beta e) ⟨false, false, beta, ts⟩ := by
    simpa [expiryTs] using hexp
  simp [h1, hign, hkey, hopOf]
  simpa [hopOf] using hexp'

theorem rev_ingress (macf : MacF) (ts beta0 : Nat) (es : List Entry) (j : Nat) (e : Entry) (sid : Nat)
    (hn : 2 ≤ es.length) (hj : j < es.length) (he : es[es.length - 1 - j]? = some e) (c : VCtx) (fi : Bool)
    (hkey : c.key = e.key) (hign : c.ignoreMacs = false) (hin : c.ingress = true) (hsc : c.segChanged = false)
    (hcur : c.curIf = 0 ∨ c.curIf = e.consEgress)
    (hsid : (if fi then sid else betaStep sid (hopOf macf ts (betaAt macf ts beta0 es (es.length - 1 - j)) e).mac) =
              betaAt macf ts beta0 es (es.length - 1 - j))
    (hts : ts ≤ c.now)
    (hexp : c.now ≤ expiryTs (hopOf macf ts (betaAt macf ts beta0 es (es.length - 1 - j)) e)
              ⟨true, false, betaAt macf ts beta0 es (es.length - 1 - j), ts⟩) :
    advanceIngress macf c (revPath macf ts beta0 es j sid) fi =
      .ok (revPath macf ts beta0 es j (betaAt macf ts beta0 es (es.length - 1 - j)),
           { scmpAlert := false, ingressIf := e.consEgress,
             action := if j + 1 = es.length then .forwardLocal else .continueEgress e.consIngress }, none) := by
  have hhop := rev_hop macf ts beta0 es j e hj he
  generalize hb : betaAt macf ts beta0 es (es.length - 1 - j) = b at *
  have hif : ifaceCheck c (hopOf macf ts b e) ⟨false, false, b, ts⟩ = none := by
    unfold ifaceCheck
    simp only [hin, hsc, Bool.false_eq_true, ↓reduceIte, Hop.ingressIf, hopOf]
    rcases hcur with h | h <;> simp [h]
  have hval := rev_validate macf ts b e c hkey hign hts hexp hif
  unfold advanceIngress
  have hseg : (revPath macf ts beta0 es j sid).segIndex (revPath macf ts beta0 es j sid).currHf =
      some (0, j == 0, j + 1 == es.length) := by simp [Path.segIndex, revPath, hj]
  rw [hseg]
  simp only []
  have h1 : ((j == 0) && (j + 1 == es.length)) = false := by
    cases j with
    | zero => simp; omega
    | succ j => simp
  simp only [h1, Bool.false_eq_true, ↓reduceIte]
  have h2 : ((0 : Nat) != (revPath macf ts beta0 es j sid).currInf) = false := by simp [revPath]
  simp only [h2, Bool.false_eq_true, ↓reduceIte]
  have hh : (revPath macf ts beta0 es j sid).hops[(revPath macf ts beta0 es j sid).currHf]? =
      some (hopOf macf ts b e) := by simpa [revPath] using hhop
  have hi : (revPath macf ts beta0 es j sid).infos[(revPath macf ts beta0 es j sid).currInf]? =
      some ⟨false, false, sid, ts⟩ := by simp [revPath]
  rw [hh, hi]
  simp only [Bool.not_false, Bool.and_true]
  have hinfo1 : (if (!fi) = true then ({ consDir := false, peer := false, segId := betaStep sid (hopOf macf ts b e).mac, ts := ts } : Info)
      else ⟨false, false, sid, ts⟩) = ⟨false, false, b, ts⟩ := by
    cases fi <;> simp_all
  simp only [hinfo1, hval]
  have halert : (hopOf macf ts b e).ingressAlert false = false := by simp [Hop.ingressAlert, hopOf]
  simp only [halert, Bool.and_false, Bool.false_eq_true, ↓reduceIte]
  have hs1 := setAt_same _ _ _ hh
  have hing : (hopOf macf ts b e).ingressIf ⟨false, false, sid, ts⟩ = e.consEgress := by simp [Hop.ingressIf, hopOf]
  have heg : (hopOf macf ts b e).egressIf ⟨false, false, b, ts⟩ = e.consIngress := by simp [Hop.egressIf, hopOf]
  by_cases hlast : j + 1 = es.length
  · have : (revPath macf ts beta0 es j sid).currHf + 1 ≥ (revPath macf ts beta0 es j sid).hopCount := by
      simp [revPath, Path.hopCount]; omega
    simp [this, hlast, hs1, hing]
    simp [revPath, setAt]
  · have : ¬ (revPath macf ts beta0 es j sid).currHf + 1 ≥ (revPath macf ts beta0 es j sid).hopCount := by
      simp [revPath, Path.hopCount]; omega
    simp [this, hlast, hs1, hing, heg]
    simp [revPath, setAt]


theorem rev_egress (macf : MacF) (ts beta0 : Nat) (es : List Entry) (j : Nat) (e : Entry)
    (hnl : j + 1 < es.length) (hmax : es.length ≤ MAX_TOTAL_HOPS + 1) (he : es[es.length - 1 - j]? = some e) (c : VCtx)
    (hkey : c.key = e.key) (hign : c.ignoreMacs = false) (hin : c.ingress = false)
    (hcur : c.curIf = e.consIngress) (hts : ts ≤ c.now)
    (hexp : c.now ≤ expiryTs (hopOf macf ts (betaAt macf ts beta0 es (es.length - 1 - j)) e)
              ⟨true, false, betaAt macf ts beta0 es (es.length - 1 - j), ts⟩) :
    advanceEgress macf c (revPath macf ts beta0 es j (betaAt macf ts beta0 es (es.length - 1 - j))) =
      .ok (revPath macf ts beta0 es (j + 1) (betaAt macf ts beta0 es (es.length - 1 - j)),
           { scmpAlert := false, egressIf := e.consIngress }, none) := by
  have hj : j < es.length := by omega
  have hhop := rev_hop macf ts beta0 es j e hj he
  generalize hb : betaAt macf ts beta0 es (es.length - 1 - j) = b at *
  have hif : ifaceCheck c (hopOf macf ts b e) ⟨false, false, b, ts⟩ = none := by
    unfold ifaceCheck
    simp [hin, Hop.egressIf, hopOf, hcur]
  have hval := rev_validate macf ts b e c hkey hign hts hexp hif
  unfold advanceEgress
  have hseg : (revPath macf ts beta0 es j b).segIndex (revPath macf ts beta0 es j b).currHf =
      some (0, j == 0, j + 1 == es.length) := by simp [Path.segIndex, revPath, hj]
  rw [hseg]
  simp only []
  have h2 : ((0 : Nat) != (revPath macf ts beta0 es j b).currInf) = false := by simp [revPath]
  simp only [h2, Bool.false_eq_true, ↓reduceIte]
  have hh : (revPath macf ts beta0 es j b).hops[(revPath macf ts beta0 es j b).currHf]? =
      some (hopOf macf ts b e) := by simpa [revPath] using hhop
  have hi : (revPath macf ts beta0 es j b).infos[(revPath macf ts beta0 es j b).currInf]? =
      some ⟨false, false, b, ts⟩ := by simp [revPath]
  rw [hh, hi]
  simp only []
  have hnf : ¬ (revPath macf ts beta0 es j b).currHf + 1 ≥ (revPath macf ts beta0 es j b).hopCount := by
    simp [revPath, Path.hopCount]; omega
  have hne : (j + 1 == es.length) = false := by simp; omega
  have hmx : ¬ (revPath macf ts beta0 es j b).currHf + 1 > MAX_TOTAL_HOPS := by
    simp only [revPath]; omega
  have halert : (hopOf macf ts b e).egressAlert false = false := by simp [Hop.egressAlert, hopOf]
  have heg : (hopOf macf ts b e).egressIf ⟨false, false, b, ts⟩ = e.consIngress := by simp [Hop.egressIf, hopOf]
  have hs1 := setAt_same _ _ _ hh
  simp only [hnf, hmx, hne, Bool.false_eq_true, ↓reduceIte, hval, halert, hs1, heg]
  simp [revPath, setAt]

theorem rev_route_step (macf : MacF) (ts beta0 : Nat) (es : List Entry) (j : Nat) (e : Entry) (sid : Nat)
    (hn : 2 ≤ es.length) (hnl : j + 1 < es.length) (hmax : es.length ≤ MAX_TOTAL_HOPS + 1) (he : es[es.length - 1 - j]? = some e)
    (dst curIf now : Nat) (lookup : Nat → Option IfState) (st : IfState)
    (hcur : curIf = 0 ∨ curIf = e.consEgress)
    (hsid : (if curIf == 0 then sid else betaStep sid (hopOf macf ts (betaAt macf ts beta0 es (es.length - 1 - j)) e).mac) =
              betaAt macf ts beta0 es (es.length - 1 - j))
    (hl : lookup e.consIngress = some st) (hup : st.up = true)
    (htm : Timely macf ts beta0 now es) :
    routeStd macf e.ia dst (revPath macf ts beta0 es j sid) curIf now e.key lookup false =
      (revPath macf ts beta0 es (j + 1) (betaAt macf ts beta0 es (es.length - 1 - j)), .forwardNext e.consIngress) := by
  unfold routeStd
  simp only []
  rw [rev_ingress macf ts beta0 es j e sid hn (by omega) he _ _ rfl rfl rfl rfl hcur hsid htm.1 (htm.2 _ e he)]
  have hne : ¬ (j + 1 = es.length) := by omega
  simp only [hne, ↓reduceIte, Bool.false_and]
  have hi : ∀ b, (revPath macf ts beta0 es j b).infos[(revPath macf ts beta0 es j b).currInf]? =
      some ⟨false, false, b, ts⟩ := by intro b; simp [revPath]
  rw [hi]
  simp only [hl, hup, Bool.not_true, Bool.false_eq_true, ↓reduceIte]
  rw [rev_egress macf ts beta0 es j e hnl hmax he _ rfl rfl rfl rfl htm.1 (htm.2 _ e he)]
  simp

theorem rev_route_last (macf : MacF) (ts beta0 : Nat) (es : List Entry) (j : Nat) (e : Entry) (sid : Nat)
    (hn : 2 ≤ es.length) (hl : j + 1 = es.length) (he : es[es.length - 1 - j]? = some e)
    (curIf now : Nat) (lookup : Nat → Option IfState)
    (hcur : curIf = 0 ∨ curIf = e.consEgress)
    (hsid : (if curIf == 0 then sid else betaStep sid (hopOf macf ts (betaAt macf ts beta0 es (es.length - 1 - j)) e).mac) =
              betaAt macf ts beta0 es (es.length - 1 - j))
    (htm : Timely macf ts beta0 now es) :
    routeStd macf e.ia e.ia (revPath macf ts beta0 es j sid) curIf now e.key lookup false =
      (revPath macf ts beta0 es j (betaAt macf ts beta0 es (es.length - 1 - j)), .forwardLocal) := by
  unfold routeStd
  simp only []
  rw [rev_ingress macf ts beta0 es j e sid hn (by omega) he _ _ rfl rfl rfl rfl hcur hsid htm.1 (htm.2 _ e he)]
  simp [hl]


theorem rev_walk (macf : MacF) (t : Topo) (ts beta0 now : Nat) (es : List Entry) (dst : Nat)
    (hn : 2 ≤ es.length) (hmax : es.length ≤ MAX_TOTAL_HOPS + 1) (hc : ChainOK t es) (htm : Timely macf ts beta0 now es)
    (hdst : ∀ e, es[0]? = some e → e.ia = dst) :
    ∀ (r j : Nat) (e : Entry) (sid curIf steps fuel : Nat), j + r + 1 = es.length →
      es[es.length - 1 - j]? = some e → (curIf = 0 ∨ curIf = e.consEgress) →
      (if curIf == 0 then sid else betaStep sid (hopOf macf ts (betaAt macf ts beta0 es (es.length - 1 - j)) e).mac) =
        betaAt macf ts beta0 es (es.length - 1 - j) →
      r + 1 ≤ fuel →
      walk macf t dst now false fuel e.ia curIf (revPath macf ts beta0 es j sid) steps =
        some (.delivered dst, revPath macf ts beta0 es (es.length - 1) beta0, steps + r + 1) := by
  intro r
  induction r with
  | zero =>
    intro j e sid curIf steps fuel hj he hcur hsid hf
    obtain ⟨a, ha, hkey, _⟩ := hc.asOk _ e he
    cases fuel with
    | zero => omega
    | succ fuel =>
      have hje : es.length - 1 - j = 0 := by omega
      have hd : e.ia = dst := hdst e (hje ▸ he)
      unfold walk
      simp only [ha]
      rw [hkey, ← hd, rev_route_last macf ts beta0 es j e sid hn (by omega) he curIf now _ hcur hsid htm]
      have : j = es.length - 1 := by omega
      simp [betaAt, this]
  | succ r ih =>
    intro j e sid curIf steps fuel hj he hcur hsid hf
    obtain ⟨a, ha, hkey, _⟩ := hc.asOk _ e he
    have hk : es.length - 1 - j = (es.length - 2 - j) + 1 := by omega
    have hk0 : es.length - 2 - j < es.length := by omega
    obtain ⟨e', he'⟩ : ∃ e', es[es.length - 2 - j]? = some e' := ⟨es[es.length - 2 - j], List.getElem?_eq_getElem hk0⟩
    have he2 : es[es.length - 2 - j + 1]? = some e := by rw [← hk]; exact he
    obtain ⟨l, hl, hpa, hpi, hup, hnz⟩ := hc.linkBwd _ e' e he' he2
    obtain ⟨b, hb, _, hbe⟩ := hc.asOk _ e' he'
    cases fuel with
    | zero => omega
    | succ fuel =>
      unfold walk
      simp only [ha]
      have hlook : t.lookup e.ia e.consIngress = some ⟨roleToLinkType l.role, l.up⟩ := by
        simp [Topo.lookup, hl]
      rw [hkey, rev_route_step macf ts beta0 es j e sid hn (by omega) hmax he dst curIf now _ _ hcur hsid hlook hup htm]
      simp only [hl, hpa, hb, hbe, Bool.false_eq_true, ↓reduceIte]
      have hidx : es.length - 1 - (j + 1) = es.length - 2 - j := by omega
      have hstep := betaAt_succ macf ts beta0 es (es.length - 2 - j) e' he'
      rw [hpi, ih (j + 1) e' _ e'.consEgress (steps + 1) fuel (by omega) (by rw [hidx]; exact he') (Or.inr rfl)
        (by
          have hne : (e'.consEgress == 0) = false := by simpa using hnz
          simp only [hne, Bool.false_eq_true, ↓reduceIte]
          rw [hidx, hk, hstep, betaStep_cancel]) (by omega)]
      simp; omega


end ScionVerif.Router
