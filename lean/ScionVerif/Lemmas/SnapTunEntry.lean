import ScionVerif.Lemmas.SnapTun
import ScionVerif.Model.TunServerEntry
/-! # C09 helper lemmas for the compatibility wrappers of `SnapTunServer` (`Model/TunServerEntry.lean`) -/
namespace ScionVerif.SnapTun

section
variable {σ Pkt Net SD : Type}

theorem incomingPacketResult_not_wtt (r : TunnResult Net) (sd : SD) (pl : Payload) :
    incomingPacketResult r sd ≠ .result (.writeToTunnel pl) := by
  cases r <;> simp [incomingPacketResult]

/-- `HandleIncomingPacketResult::Result { result }` never carries `TunnResult::WriteToTunnel`: every tunnel result goes
through `incoming_packet_result`, which turns it into `Forwarded`; so `into_result()` is `WriteToTunnel` exactly for
`Forwarded`. -/
theorem handleIncoming_result_not_wtt {w : Wg σ Pkt Net} {authz : Id → Option SD} {s : Server σ} {pkt : Pkt}
    {frm : Addr} (pl : Payload) : (handleIncoming w authz s pkt frm).res ≠ .result (.writeToTunnel pl) := by
  unfold handleIncoming
  cases hv : w.verify pkt with
  | cookie c => simp
  | err e => simp
  | ok =>
    simp only
    cases ht : s.tunnels.get? frm with
    | some t =>
      simp only
      cases ha : authz t.peerStatic with
      | none => simp
      | some sd0 => exact incomingPacketResult_not_wtt _ _ _
    | none =>
      simp only
      cases hc : w.initClaim pkt with
      | none => simp
      | some c =>
        cases c with
        | error e => simp
        | ok peer =>
          simp only
          cases ha : authz peer with
          | none => simp
          | some sd0 =>
            simp only [acceptNew]
            split
            · simp
            · exact incomingPacketResult_not_wtt _ _ _

end
end ScionVerif.SnapTun
