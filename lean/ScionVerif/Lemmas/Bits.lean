import ScionVerif.Model.Bits
/-!
# Lemmas about `readBits` / `writeBits` (Model/Bits.lean)

Main results (all for arbitrary buffers, ranges and values):
* `writeBits_length`            – a write keeps the buffer length;
* `readBits_writeBits_same`     – read-after-write returns the value truncated to the width;
* `readBits_writeBits_disjoint` – bit-level frame rule: a read of a range sharing no *bit* with the written
                                  range (they may share bytes) is unchanged;
* `writeBits_take` / `writeBits_drop` – bytes outside the containing byte range are unchanged;
* `readBits_lt`                 – a read is `< 2^width`;
* `readBits_take`, `readBits_append_left`, `readBits_shift_append` – locality of reads.
Core Lean only.
-/
namespace ScionVerif

theorem rev_ind {α : Type} {P : List α → Prop} (hnil : P [])
    (hsnoc : ∀ xs x, P xs → P (xs ++ [x])) (l : List α) : P l := by
  have h : ∀ r : List α, P r.reverse := by
    intro r
    induction r with
    | nil => simpa using hnil
    | cons x xs ih => simp only [List.reverse_cons]; exact hsnoc _ _ ih
  simpa using h l.reverse

theorem natBits_length (w v : Nat) : (natBits w v).length = w := by
  induction w generalizing v with
  | zero => rfl
  | succ n ih => simp [natBits, ih]

theorem bitsNat_snoc (xs : List Bool) (b : Bool) : bitsNat (xs ++ [b]) = 2 * bitsNat xs + b.toNat := by
  simp [bitsNat, List.foldl_append]

theorem bitsNat_append (xs ys : List Bool) :
    bitsNat (xs ++ ys) = bitsNat xs * 2 ^ ys.length + bitsNat ys := by
  induction ys using rev_ind generalizing xs with
  | hnil => simp [bitsNat]
  | hsnoc ys b ih =>
    rw [← List.append_assoc, bitsNat_snoc, bitsNat_snoc, ih]
    simp only [List.length_append, List.length_cons, List.length_nil, Nat.pow_succ]
    rw [Nat.mul_add]
    have : 2 * (bitsNat xs * 2 ^ ys.length) = bitsNat xs * (2 ^ ys.length * 2) := by
      rw [Nat.mul_comm 2, Nat.mul_assoc]
    omega

theorem bitsNat_lt (bs : List Bool) : bitsNat bs < 2 ^ bs.length := by
  induction bs using rev_ind with
  | hnil => simp [bitsNat]
  | hsnoc ys b ih =>
    rw [bitsNat_snoc]; simp only [List.length_append, List.length_cons, List.length_nil, Nat.pow_succ]
    cases b <;> simp <;> omega

theorem bitsNat_natBits (w v : Nat) : bitsNat (natBits w v) = v % 2 ^ w := by
  induction w generalizing v with
  | zero => simp [natBits, bitsNat, Nat.mod_one]
  | succ n ih =>
    rw [natBits, bitsNat_snoc, ih, Nat.pow_succ, Nat.mul_comm (2^n) 2, Nat.mod_mul]
    rcases Nat.mod_two_eq_zero_or_one v with h | h <;> simp [h] <;> omega

theorem natBits_bitsNat (bs : List Bool) : natBits bs.length (bitsNat bs) = bs := by
  induction bs using rev_ind with
  | hnil => rfl
  | hsnoc ys b ih =>
    simp only [List.length_append, List.length_cons, List.length_nil]
    rw [natBits, bitsNat_snoc]
    have h1 : (2 * bitsNat ys + b.toNat) / 2 = bitsNat ys := by cases b <;> simp <;> omega
    have h2 : ((2 * bitsNat ys + b.toNat) % 2 == 1) = b := by cases b <;> simp <;> omega
    rw [h1, h2, ih]

theorem natBits_mod (w v : Nat) : natBits w (v % 2 ^ w) = natBits w v := by
  have := natBits_bitsNat (natBits w v)
  rw [natBits_length, bitsNat_natBits] at this
  exact this


/-! ## bytes ↔ bits -/

theorem byteBits_length (b : UInt8) : (byteBits b).length = 8 := natBits_length _ _

theorem bitsOf_length (b : Bytes) : (bitsOf b).length = 8 * b.length := by
  induction b with
  | nil => rfl
  | cons x xs ih => simp [bitsOf, byteBits_length, ih]; omega

theorem bitsOf_append (a b : Bytes) : bitsOf (a ++ b) = bitsOf a ++ bitsOf b := by
  induction a with
  | nil => rfl
  | cons x xs ih => simp [bitsOf, ih]

theorem packBits_append8 (xs rest : List Bool) (h : xs.length = 8) :
    packBits (xs ++ rest) = UInt8.ofNat (bitsNat xs) :: packBits rest := by
  match xs, h with
  | [b0, b1, b2, b3, b4, b5, b6, b7], _ => simp [packBits]

theorem packBits_bitsOf (b : Bytes) : packBits (bitsOf b) = b := by
  induction b with
  | nil => rfl
  | cons x xs ih =>
    rw [bitsOf, packBits_append8 _ _ (byteBits_length x), ih, byteBits, bitsNat_natBits]
    congr 1
    have : x.toNat % 2 ^ 8 = x.toNat := Nat.mod_eq_of_lt (by have := x.toNat_lt; omega)
    rw [this]; simp

theorem byteBits_ofNat_bitsNat (xs : List Bool) (h : xs.length = 8) :
    byteBits (UInt8.ofNat (bitsNat xs)) = xs := by
  have hl : bitsNat xs < 2 ^ 8 := by have := bitsNat_lt xs; rwa [h] at this
  have h1 : (UInt8.ofNat (bitsNat xs)).toNat = bitsNat xs := by
    simp [UInt8.toNat_ofNat']; omega
  rw [byteBits, h1]
  have := natBits_bitsNat xs
  rwa [h] at this

theorem bitsOf_packBits (bs : List Bool) (h : bs.length % 8 = 0) : bitsOf (packBits bs) = bs := by
  generalize hn : bs.length / 8 = n
  induction n generalizing bs with
  | zero =>
    have : bs.length = 0 := by omega
    have : bs = [] := List.eq_nil_of_length_eq_zero this
    subst this; rfl
  | succ k ih =>
    have hlen : 8 ≤ bs.length := by omega
    have hsplit : bs = bs.take 8 ++ bs.drop 8 := (List.take_append_drop 8 bs).symm
    have ht : (bs.take 8).length = 8 := by simp; omega
    rw [hsplit, packBits_append8 _ _ ht, bitsOf, byteBits_ofNat_bitsNat _ ht,
      ih (bs.drop 8) (by simp; omega) (by simp; omega)]

theorem packBits_length (bs : List Bool) (h : bs.length % 8 = 0) : (packBits bs).length = bs.length / 8 := by
  have := bitsOf_length (packBits bs)
  rw [bitsOf_packBits bs h] at this
  omega

theorem bitsOf_take (b : Bytes) (k : Nat) : bitsOf (b.take k) = (bitsOf b).take (8 * k) := by
  induction b generalizing k with
  | nil => simp [bitsOf]
  | cons x xs ih =>
    cases k with
    | zero => simp [bitsOf]
    | succ k =>
      simp only [List.take_succ_cons, bitsOf, ih]
      have : 8 * (k + 1) = (byteBits x).length + 8 * k := by rw [byteBits_length]; omega
      rw [this, List.take_append]
      simp
      exact (List.take_of_length_le (by omega)).symm

theorem bitsOf_drop (b : Bytes) (k : Nat) : bitsOf (b.drop k) = (bitsOf b).drop (8 * k) := by
  induction b generalizing k with
  | nil => simp [bitsOf]
  | cons x xs ih =>
    cases k with
    | zero => simp [bitsOf]
    | succ k =>
      simp only [List.drop_succ_cons, bitsOf, ih]
      have : 8 * (k + 1) = (byteBits x).length + 8 * k := by rw [byteBits_length]; omega
      rw [this, List.drop_append]
      simp

/-! ## range arithmetic -/

theorem BitRange.byteLo_le_byteHi (r : BitRange) (h : r.wf) : r.byteLo ≤ r.byteHi := by
  unfold BitRange.wf at h; unfold BitRange.byteLo BitRange.byteHi; omega

theorem BitRange.start_ge (r : BitRange) : 8 * r.byteLo ≤ r.start := by
  unfold BitRange.byteLo; omega

theorem BitRange.stop_le (r : BitRange) : r.stop ≤ 8 * r.byteHi := by
  unfold BitRange.byteHi; omega

theorem sliceOf_length (buf : Bytes) (r : BitRange) (h : r.byteHi ≤ buf.length) :
    (sliceOf buf r).length = r.sizeBytes := by
  unfold sliceOf BitRange.sizeBytes; simp; omega

theorem buf_split (buf : Bytes) (r : BitRange) (hw : r.wf) :
    buf = buf.take r.byteLo ++ sliceOf buf r ++ buf.drop r.byteHi := by
  have hle := r.byteLo_le_byteHi hw
  unfold sliceOf BitRange.sizeBytes
  have h1 : buf.drop r.byteHi = (buf.drop r.byteLo).drop (r.byteHi - r.byteLo) := by
    rw [List.drop_drop]; congr 1; omega
  rw [h1, List.append_assoc, List.take_append_drop, List.take_append_drop]

/-- the list obtained by replacing positions `[s, e)` of `B` by `N` (`N.length = e - s`) -/
theorem getElem?_splice {α : Type} (B N : List α) (s e j : Nat) (hse : s ≤ e) (he : e ≤ B.length)
    (hN : N.length = e - s) :
    (B.take s ++ N ++ B.drop e)[j]? = if j < s then B[j]? else if j < e then N[j - s]? else B[j]? := by
  have hT : (B.take s).length = s := by simp; omega
  by_cases h1 : j < s
  · simp only [h1, if_true]
    rw [List.append_assoc, List.getElem?_append_left (by omega), List.getElem?_take_of_lt h1]
  · by_cases h2 : j < e
    · simp only [h1, h2, if_false, if_true]
      rw [List.getElem?_append_left (by simp; omega), List.getElem?_append_right (by omega), hT]
    · simp only [h1, h2, if_false]
      rw [List.getElem?_append_right (by simp; omega), List.getElem?_drop]
      congr 1; simp; omega

/-! ## specification of read and write on the global bit string -/

theorem readBits_spec (buf : Bytes) (r : BitRange) (hw : r.wf) (hb : r.byteHi ≤ buf.length) :
    readBits buf r = bitsNat (((bitsOf buf).drop r.start).take r.width) := by
  unfold readBits
  congr 1
  have hs := buf_split buf r hw
  have hlo := r.start_ge
  have hhi := r.stop_le
  have hle := r.byteLo_le_byteHi hw
  have hsl := sliceOf_length buf r hb
  unfold BitRange.wf at hw
  conv => rhs; rw [hs]
  apply List.ext_getElem?
  intro i
  simp only [List.getElem?_take, List.getElem?_drop, bitsOf_append]
  by_cases hi : i < r.width
  · simp only [hi, if_true]
    have hA : (bitsOf (buf.take r.byteLo)).length = 8 * r.byteLo := by rw [bitsOf_length]; simp; omega
    have hS : (bitsOf (sliceOf buf r)).length = 8 * r.sizeBytes := by rw [bitsOf_length, hsl]
    unfold BitRange.width at hi
    unfold BitRange.sizeBytes at hS
    rw [List.getElem?_append_left (by simp only [List.length_append, hA, hS]; omega),
      List.getElem?_append_right (by omega), hA]
    congr 1; omega
  · simp [hi]

theorem bitsOf_writeBits (buf : Bytes) (r : BitRange) (v : Nat) (hw : r.wf) (hb : r.byteHi ≤ buf.length) :
    bitsOf (writeBits buf r v) = (bitsOf buf).take r.start ++ natBits r.width v ++ (bitsOf buf).drop r.stop := by
  have hs := buf_split buf r hw
  have hlo := r.start_ge
  have hhi := r.stop_le
  have hle := r.byteLo_le_byteHi hw
  have hsl := sliceOf_length buf r hb
  have hA : (bitsOf (buf.take r.byteLo)).length = 8 * r.byteLo := by rw [bitsOf_length]; simp; omega
  have hS : (bitsOf (sliceOf buf r)).length = 8 * r.sizeBytes := by rw [bitsOf_length, hsl]
  unfold BitRange.wf at hw
  unfold writeBits
  simp only [bitsOf_append]
  have hM : (List.take (r.start - 8 * r.byteLo) (bitsOf (sliceOf buf r)) ++ natBits r.width v ++
      List.drop (r.start - 8 * r.byteLo + r.width) (bitsOf (sliceOf buf r))).length % 8 = 0 := by
    simp only [List.length_append, List.length_take, List.length_drop, natBits_length, hS]
    unfold BitRange.width BitRange.sizeBytes
    have : min (r.start - 8 * r.byteLo) (8 * (r.byteHi - r.byteLo)) = r.start - 8 * r.byteLo := by omega
    rw [this]
    have : r.start - 8 * r.byteLo + (r.stop - r.start) +
        (8 * (r.byteHi - r.byteLo) - (r.start - 8 * r.byteLo + (r.stop - r.start))) = 8 * (r.byteHi - r.byteLo) := by omega
    rw [this]; omega
  rw [bitsOf_packBits _ hM]
  conv => rhs; rw [hs]
  simp only [bitsOf_append]
  apply List.ext_getElem?
  intro j
  have hB : (bitsOf (buf.take r.byteLo) ++ bitsOf (sliceOf buf r) ++ bitsOf (buf.drop r.byteHi)).length
      = 8 * buf.length := by
    rw [← bitsOf_append, ← bitsOf_append, ← hs, bitsOf_length]
  rw [getElem?_splice _ (natBits r.width v) r.start r.stop j hw (by rw [hB]; omega)
    (by rw [natBits_length]; rfl)]
  unfold BitRange.width BitRange.sizeBytes at *
  -- left side: A ++ (S.take off ++ N ++ S.drop (off+w)) ++ C
  by_cases h1 : j < 8 * r.byteLo
  · have : j < r.start := by omega
    simp only [this, if_true]
    rw [List.append_assoc, List.getElem?_append_left (by omega),
      List.append_assoc, List.getElem?_append_left (by omega)]
  · by_cases h2 : j < 8 * r.byteHi
    · rw [List.getElem?_append_left (by
        simp only [List.length_append, List.length_take, List.length_drop, natBits_length, hS, hA]; omega),
        List.getElem?_append_right (by omega), hA]
      rw [getElem?_splice _ (natBits (r.stop - r.start) v) (r.start - 8 * r.byteLo)
        (r.start - 8 * r.byteLo + (r.stop - r.start)) (j - 8 * r.byteLo) (by omega) (by rw [hS]; omega)
        (by rw [natBits_length]; omega)]
      by_cases h3 : j < r.start
      · have : j - 8 * r.byteLo < r.start - 8 * r.byteLo := by omega
        simp only [h3, this, if_true]
        rw [List.getElem?_append_left (by simp only [List.length_append, hA, hS]; omega),
          List.getElem?_append_right (by omega), hA]
      · by_cases h4 : j < r.stop
        · have a : ¬ (j - 8 * r.byteLo < r.start - 8 * r.byteLo) := by omega
          have b : j - 8 * r.byteLo < r.start - 8 * r.byteLo + (r.stop - r.start) := by omega
          simp only [h3, h4, a, b, if_true, if_false]
          congr 1; omega
        · have a : ¬ (j - 8 * r.byteLo < r.start - 8 * r.byteLo) := by omega
          have b : ¬ (j - 8 * r.byteLo < r.start - 8 * r.byteLo + (r.stop - r.start)) := by omega
          simp only [h3, h4, a, b, if_false]
          rw [List.getElem?_append_left (by simp only [List.length_append, hA, hS]; omega),
            List.getElem?_append_right (by omega), hA]
    · have a : ¬ j < r.start := by omega
      have b : ¬ j < r.stop := by omega
      simp only [a, b, if_false]
      have hML : (List.take (r.start - 8 * r.byteLo) (bitsOf (sliceOf buf r)) ++ natBits (r.stop - r.start) v ++
          List.drop (r.start - 8 * r.byteLo + (r.stop - r.start)) (bitsOf (sliceOf buf r))).length
          = 8 * (r.byteHi - r.byteLo) := by
        simp only [List.length_append, List.length_take, List.length_drop, natBits_length, hS]; omega
      rw [List.getElem?_append_right (by simp only [List.length_append, hA, hML]; omega),
        List.getElem?_append_right (by simp only [List.length_append, hA, hS]; omega)]
      simp only [List.length_append, hA, hML, hS]

/-! ## the user-facing rules -/

theorem bitsOf_injective {a b : Bytes} (h : bitsOf a = bitsOf b) : a = b := by
  rw [← packBits_bitsOf a, ← packBits_bitsOf b, h]

theorem writeBits_length (buf : Bytes) (r : BitRange) (v : Nat) (hw : r.wf) (hb : r.byteHi ≤ buf.length) :
    (writeBits buf r v).length = buf.length := by
  have h := congrArg List.length (bitsOf_writeBits buf r v hw hb)
  have hhi := r.stop_le
  unfold BitRange.wf at hw
  simp only [bitsOf_length, List.length_append, List.length_take, List.length_drop, natBits_length,
    BitRange.width] at h
  omega

/-- the bit string after a write, position by position -/
theorem bitsOf_writeBits_get (buf : Bytes) (r : BitRange) (v : Nat) (hw : r.wf) (hb : r.byteHi ≤ buf.length)
    (j : Nat) :
    (bitsOf (writeBits buf r v))[j]? =
      if j < r.start then (bitsOf buf)[j]? else if j < r.stop then (natBits r.width v)[j - r.start]?
      else (bitsOf buf)[j]? := by
  rw [bitsOf_writeBits buf r v hw hb]
  have hhi := r.stop_le
  exact getElem?_splice _ _ _ _ _ hw (by rw [bitsOf_length]; omega) (by rw [natBits_length]; rfl)

/-- **read-after-write**: the value truncated to the width -/
theorem readBits_writeBits_same (buf : Bytes) (r : BitRange) (v : Nat) (hw : r.wf) (hb : r.byteHi ≤ buf.length) :
    readBits (writeBits buf r v) r = v % 2 ^ r.width := by
  rw [readBits_spec _ r hw (by rw [writeBits_length buf r v hw hb]; exact hb), ← bitsNat_natBits]
  congr 1
  apply List.ext_getElem?
  intro i
  simp only [List.getElem?_take, List.getElem?_drop]
  by_cases hi : i < r.width
  · simp only [hi, if_true]
    rw [bitsOf_writeBits_get buf r v hw hb]
    unfold BitRange.width at hi
    have a : ¬ r.start + i < r.start := by omega
    have b : r.start + i < r.stop := by omega
    simp only [a, b, if_true, if_false]
    congr 1; omega
  · simp only [hi, if_false]
    rw [List.getElem?_eq_none (by rw [natBits_length]; omega)]

/-- **frame rule (bit level)**: a range sharing no bit with the written one reads as before -/
theorem readBits_writeBits_disjoint (buf : Bytes) (r s : BitRange) (v : Nat) (hw : r.wf) (hb : r.byteHi ≤ buf.length)
    (hsw : s.wf) (hsb : s.byteHi ≤ buf.length) (hd : r.disjoint s) :
    readBits (writeBits buf r v) s = readBits buf s := by
  rw [readBits_spec _ s hsw (by rw [writeBits_length buf r v hw hb]; exact hsb), readBits_spec _ s hsw hsb]
  congr 1
  apply List.ext_getElem?
  intro i
  simp only [List.getElem?_take, List.getElem?_drop]
  by_cases hi : i < s.width
  · simp only [hi, if_true]
    rw [bitsOf_writeBits_get buf r v hw hb]
    unfold BitRange.width at hi
    unfold BitRange.disjoint at hd
    unfold BitRange.wf at hw hsw
    rcases hd with hd | hd
    · have a : ¬ s.start + i < r.start := by omega
      have b : ¬ s.start + i < r.stop := by omega
      simp only [a, b, if_false]
    · have a : s.start + i < r.start := by omega
      simp only [a, if_true]
  · simp only [hi, if_false]

/-- bytes before the containing byte range are untouched -/
theorem writeBits_take (buf : Bytes) (r : BitRange) (v : Nat) (k : Nat) (hk : k ≤ r.byteLo)
    (hw : r.wf) (hb : r.byteHi ≤ buf.length) :
    (writeBits buf r v).take k = buf.take k := by
  have hle := r.byteLo_le_byteHi hw
  unfold writeBits
  rw [List.append_assoc, List.take_append_of_le_length (by simp; omega), List.take_take]
  congr 1; omega

/-- bytes after the containing byte range are untouched -/
theorem writeBits_drop (buf : Bytes) (r : BitRange) (v : Nat) (k : Nat) (hk : r.byteHi ≤ k)
    (hw : r.wf) (hb : r.byteHi ≤ buf.length) :
    (writeBits buf r v).drop k = buf.drop k := by
  apply bitsOf_injective
  rw [bitsOf_drop, bitsOf_drop]
  apply List.ext_getElem?
  intro i
  simp only [List.getElem?_drop]
  rw [bitsOf_writeBits_get buf r v hw hb]
  have hhi := r.stop_le
  have a : ¬ 8 * k + i < r.start := by unfold BitRange.wf at hw; omega
  have b : ¬ 8 * k + i < r.stop := by omega
  simp only [a, b, if_false]

/-- the byte at a position outside the containing byte range is untouched -/
theorem writeBits_getElem? (buf : Bytes) (r : BitRange) (v : Nat) (i : Nat) (hi : i < r.byteLo ∨ r.byteHi ≤ i)
    (hw : r.wf) (hb : r.byteHi ≤ buf.length) :
    (writeBits buf r v)[i]? = buf[i]? := by
  rcases hi with hi | hi
  · have := congrArg (fun l => l[i]?) (writeBits_take buf r v r.byteLo (Nat.le_refl _) hw hb)
    simpa [List.getElem?_take, hi] using this
  · have := congrArg (fun l => l[i - r.byteHi]?) (writeBits_drop buf r v r.byteHi (Nat.le_refl _) hw hb)
    simp only [List.getElem?_drop] at this
    have e : r.byteHi + (i - r.byteHi) = i := by omega
    rwa [e] at this

theorem readBits_lt (buf : Bytes) (r : BitRange) : readBits buf r < 2 ^ r.width := by
  unfold readBits
  refine Nat.lt_of_lt_of_le (bitsNat_lt _) (Nat.pow_le_pow_right (by omega) ?_)
  simp only [List.length_take]; omega

/-- a read only depends on the containing byte slice -/
theorem readBits_congr (a b : Bytes) (r : BitRange) (h : sliceOf a r = sliceOf b r) : readBits a r = readBits b r := by
  unfold readBits; rw [h]

theorem sliceOf_take (buf : Bytes) (r : BitRange) (n : Nat) (hw : r.wf) (h : r.byteHi ≤ n) :
    sliceOf (buf.take n) r = sliceOf buf r := by
  have hle := r.byteLo_le_byteHi hw
  unfold sliceOf BitRange.sizeBytes
  rw [List.drop_take, List.take_take]
  congr 1; omega

/-- truncating the buffer behind the range does not change the read -/
theorem readBits_take (buf : Bytes) (r : BitRange) (n : Nat) (hw : r.wf) (h : r.byteHi ≤ n) :
    readBits (buf.take n) r = readBits buf r := readBits_congr _ _ _ (sliceOf_take buf r n hw h)

theorem sliceOf_append_left (a b : Bytes) (r : BitRange) (hw : r.wf) (h : r.byteHi ≤ a.length) :
    sliceOf (a ++ b) r = sliceOf a r := by
  have := sliceOf_take (a ++ b) r a.length hw h
  rw [List.take_left'] at this
  · exact this.symm
  · rfl

theorem readBits_append_left (a b : Bytes) (r : BitRange) (hw : r.wf) (h : r.byteHi ≤ a.length) :
    readBits (a ++ b) r = readBits a r := readBits_congr _ _ _ (sliceOf_append_left a b r hw h)

theorem BitRange.shift_byteLo (r : BitRange) (k : Nat) : (r.shift k).byteLo = r.byteLo + k := by
  unfold BitRange.shift BitRange.byteLo; simp; omega

theorem BitRange.shift_byteHi (r : BitRange) (k : Nat) : (r.shift k).byteHi = r.byteHi + k := by
  unfold BitRange.shift BitRange.byteHi; simp; omega

theorem BitRange.shift_width (r : BitRange) (k : Nat) : (r.shift k).width = r.width := by
  unfold BitRange.shift BitRange.width; simp; omega

theorem BitRange.shift_wf (r : BitRange) (k : Nat) (h : r.wf) : (r.shift k).wf := by
  unfold BitRange.shift BitRange.wf at *; simp; omega

/-- reading a range shifted by `k` bytes = reading the range in the buffer without its first `k` bytes -/
theorem readBits_shift (buf : Bytes) (r : BitRange) (k : Nat) :
    readBits buf (r.shift k) = readBits (buf.drop k) r := by
  unfold readBits sliceOf BitRange.sizeBytes
  rw [BitRange.shift_byteLo, BitRange.shift_byteHi, BitRange.shift_width, List.drop_drop]
  have e1 : k + r.byteLo = r.byteLo + k := by omega
  have e2 : r.byteHi + k - (r.byteLo + k) = r.byteHi - r.byteLo := by omega
  have e3 : (r.shift k).start - 8 * (r.byteLo + k) = r.start - 8 * r.byteLo := by
    unfold BitRange.shift; simp; omega
  rw [e1, e2, e3]

theorem readBits_shift_append (a b : Bytes) (r : BitRange) :
    readBits (a ++ b) (r.shift a.length) = readBits b r := by
  rw [readBits_shift, List.drop_left']
  rfl

end ScionVerif
