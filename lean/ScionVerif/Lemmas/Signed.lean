import ScionVerif.Model.Signed
import ScionVerif.Model.Rpc
/-!
Helper lemmas for C18: integer casts, `takeWhile`, characterisation of `validate`, the construction
invariant of `build`, injectivity of `flatten` on same-shape chunk lists.
-/
namespace ScionVerif.Signed
open ScionVerif.Generated.Signed

/-! ## casts -/

theorem i32_roundtrip (n : Nat) (h : n < 2 ^ (AD_LEN_BITS - 1)) : i32ToUsize (usizeToI32 n) = n := by
  have hb : (2 : Nat) ^ (AD_LEN_BITS - 1) ≤ 2 ^ AD_LEN_BITS := Nat.pow_le_pow_right (by decide) (by decide)
  have hm : n % 2 ^ AD_LEN_BITS = n := Nat.mod_eq_of_lt (Nat.lt_of_lt_of_le h hb)
  unfold usizeToI32 i32ToUsize
  simp only [hm, h, if_true]
  simp

/-- a length that does not fit the header's `i32` is *not* recovered: the cast chain is lossy -/
theorem i32_lossy_witness : i32ToUsize (usizeToI32 (2 ^ 31)) ≠ 2 ^ 31 := by decide

/-! ## takeWhile -/

theorem takeWhile_append_stop {β : Type} (p : β → Bool) (l₁ l₂ : List β) (x : β) (hx : p x = false) :
    (l₁ ++ x :: l₂).takeWhile p = l₁.takeWhile p := by
  induction l₁ with
  | nil => simp [List.takeWhile, hx]
  | cons a as ih =>
    simp only [List.cons_append, List.takeWhile]
    cases p a <;> simp [ih]

theorem takeWhile_append_of_stop {β : Type} (p : β → Bool) (l₁ l₂ : List β)
    (h : ∃ x ∈ l₁, p x = false) : (l₁ ++ l₂).takeWhile p = l₁.takeWhile p := by
  induction l₁ with
  | nil => simp at h
  | cons a as ih =>
    simp only [List.cons_append, List.takeWhile]
    cases hpa : p a with
    | false => rfl
    | true =>
      simp only
      congr 1
      apply ih
      obtain ⟨x, hx, hpx⟩ := h
      rcases List.mem_cons.mp hx with rfl | hx'
      · rw [hpa] at hpx; cases hpx
      · exact ⟨x, hx', hpx⟩

theorem takeWhile_all {β : Type} (p : β → Bool) (l : List β) (h : ∀ x ∈ l, p x = true) :
    l.takeWhile p = l := by
  induction l with
  | nil => rfl
  | cons a as ih =>
    have ha := h a (List.mem_cons_self ..)
    simp only [List.takeWhile, ha]
    congr 1
    exact ih fun x hx => h x (List.mem_cons_of_mem _ hx)

/-- the code's `take_while` stops exactly at index `i` when `i` is the first position where the predicate fails -/
theorem takeWhile_eq_take {β : Type} (p : β → Bool) (l : List β) (i : Nat) (hi : i < l.length)
    (hbefore : ∀ j (hj : j < i), p (l[j]'(Nat.lt_trans hj hi)) = true) (hat : p l[i] = false) :
    l.takeWhile p = l.take i := by
  have hsplit : l = l.take i ++ l[i] :: l.drop (i + 1) := by
    rw [List.getElem_cons_drop, List.take_append_drop]
  conv => lhs; rw [hsplit, takeWhile_append_stop p _ _ _ hat]
  apply takeWhile_all
  · intro x hx
    obtain ⟨j, hj, rfl⟩ := List.getElem_of_mem hx
    have hj' : j < i := by simpa [Nat.min_eq_left (Nat.le_of_lt hi)] using hj
    simpa using hbefore j hj'

/-! ## validate -/

variable {PK SK : Type}

/-- **Characterisation of acceptance**: `validate` returns `ok` exactly when every one of its checks
passes, the last one being the scheme's verdict on `header_and_body ‖ associated data`. -/
theorem validate_ok_iff (c : Codec) (S : Scheme PK SK) (kp : Bytes → Except VErr PK) (m : SignedMsg)
    (adN : Nat) (ad : List Bytes) (hdr : Header) (body : Bytes) :
    validate c S kp m adN ad = .ok (hdr, body) ↔
      ∃ hbytes pk a, c.decHB m.hb = some (hbytes, body) ∧ c.decHdr hbytes = some hdr ∧
        kp hdr.keyId = .ok pk ∧ i32ToUsize hdr.adLen = adN ∧ algOfI32 hdr.alg = some a ∧
        S.wf m.sig = true ∧ S.verify pk a (m.hb ++ ad.flatten) m.sig = true := by
  unfold validate
  constructor
  · intro h
    split at h
    · cases h
    · rename_i hbytes body' h1
      split at h
      · cases h
      · rename_i hdr' h2
        split at h
        · cases h
        · rename_i pk h3
          split at h
          · cases h
          · rename_i h4
            split at h
            · cases h
            · rename_i a h5
              split at h
              · cases h
              · rename_i h6
                split at h
                · rename_i h7
                  simp only [Except.ok.injEq, Prod.mk.injEq] at h
                  obtain ⟨rfl, rfl⟩ := h
                  refine ⟨hbytes, pk, a, h1, h2, h3, ?_, h5, ?_, h7⟩
                  · simpa using h4
                  · cases hw : S.wf m.sig
                    · exact absurd hw h6
                    · rfl
                · cases h
  · rintro ⟨hbytes, pk, a, h1, h2, h3, h4, h5, h6, h7⟩
    simp [h1, h2, h3, h4, h5, h6, h7]

theorem validate_isOk_iff (c : Codec) (S : Scheme PK SK) (kp : Bytes → Except VErr PK) (m : SignedMsg)
    (adN : Nat) (ad : List Bytes) :
    (∃ r, validate c S kp m adN ad = .ok r) ↔
      ∃ hbytes body hdr pk a, c.decHB m.hb = some (hbytes, body) ∧ c.decHdr hbytes = some hdr ∧
        kp hdr.keyId = .ok pk ∧ i32ToUsize hdr.adLen = adN ∧ algOfI32 hdr.alg = some a ∧
        S.wf m.sig = true ∧ S.verify pk a (m.hb ++ ad.flatten) m.sig = true := by
  constructor
  · rintro ⟨⟨hdr, body⟩, h⟩
    obtain ⟨hbytes, pk, a, h'⟩ := (validate_ok_iff c S kp m adN ad hdr body).mp h
    exact ⟨hbytes, body, hdr, pk, a, h'⟩
  · rintro ⟨hbytes, body, hdr, pk, a, h'⟩
    exact ⟨(hdr, body), (validate_ok_iff c S kp m adN ad hdr body).mpr ⟨hbytes, pk, a, h'⟩⟩

theorem algOfI32_toI32 (a : Alg) : algOfI32 a.toI32 = some a := by
  cases a <;> decide

/-- a message produced by `sign` validates against the same associated data under the matching key,
provided the associated-data length fits the header's `i32` -/
theorem sign_validate (c : Codec) (S : Scheme PK SK) (hc : c.Lawful) (hS : S.Correct)
    (sk : SK) (a : Alg) (ts : Nat) (keyId : Option Bytes) (adN : Nat) (ad : List Bytes) (body md : Bytes)
    (m : SignedMsg) (hsign : sign c S sk a ts keyId adN ad body md = some m)
    (hfit : adN < 2 ^ (AD_LEN_BITS - 1))
    (kp : Bytes → Except VErr PK) (hkp : kp (keyId.getD []) = .ok (S.pk sk)) :
    ∃ hdr, validate c S kp m adN ad = .ok (hdr, body) ∧ hdr.metadata = md ∧ hdr.keyId = keyId.getD [] := by
  unfold sign at hsign
  simp only at hsign
  split at hsign
  · cases hsign
  · rename_i σ hσ
    simp only [Option.some.injEq] at hsign
    subst hsign
    obtain ⟨hwf, hver⟩ := hS _ _ _ _ hσ
    refine ⟨_, (validate_ok_iff c S kp _ adN ad _ body).mpr
      ⟨_, S.pk sk, a, hc.hb _ _, hc.hdr _, hkp, i32_roundtrip adN hfit, algOfI32_toI32 a, hwf, hver⟩, rfl, rfl⟩

/-! ## construction invariant -/

variable {α : Type} [DecidableEq α]

omit [DecidableEq α] in
theorem chunks_append (l₁ l₂ : List (SEntry α)) : chunks (l₁ ++ l₂) = chunks l₁ ++ chunks l₂ := by
  simp [chunks]

/-- the code's associated data of `a` does not change when the segment is extended behind an entry equal to `a` -/
theorem assocTW_stop (info : Bytes) (l₁ l₂ : List (SEntry α)) (e : SEntry α) :
    assocTW { info := info, entries := l₁ ++ e :: l₂ } e.entry = assocTW { info := info, entries := l₁ } e.entry := by
  unfold assocTW
  simp only
  rw [takeWhile_append_stop]
  simp

/-- what `addEntry` pushed: an entry whose signed message was produced by `sign` over the code's
associated data of the segment so far -/
def SignedOver (c : Codec) (S : Scheme PK SK) (encBody : α → Bytes) (ts : Nat) (info : Bytes)
    (before : List (SEntry α)) (it : Item SK α) (e : SEntry α) : Prop :=
  e.entry = it.entry ∧
  sign c S it.sk .sha256 ts it.keyId (total (assocTW { info := info, entries := before } it.entry))
    (assocTW { info := info, entries := before } it.entry) (encBody it.entry) [] = some e.signed

theorem buildFrom_inv (c : Codec) (S : Scheme PK SK) (encBody : α → Bytes) (ts : Nat)
    (items : List (Item SK α)) (seg seg' : Seg α)
    (h : buildFrom c S encBody ts seg items = some seg') :
    seg'.info = seg.info ∧ ∃ news : List (SEntry α), seg'.entries = seg.entries ++ news ∧
      news.length = items.length ∧
      ∀ k (hk : k < items.length) (hk' : k < news.length),
        SignedOver c S encBody ts seg.info (seg.entries ++ news.take k) items[k] news[k] := by
  induction items generalizing seg with
  | nil =>
    simp only [buildFrom, Option.some.injEq] at h
    subst h
    exact ⟨rfl, [], by simp, rfl, fun k hk => by simp at hk⟩
  | cons it rest ih =>
    simp only [buildFrom] at h
    split at h
    · cases h
    · rename_i seg1 h1
      obtain ⟨hinfo, news, hent, hlen, hall⟩ := ih seg1 h
      unfold addEntry at h1
      simp only at h1
      split at h1
      · cases h1
      · rename_i m hm
        simp only [Option.some.injEq] at h1
        subst h1
        refine ⟨hinfo, { entry := it.entry, signed := m } :: news, ?_, by simp [hlen], ?_⟩
        · simpa using hent
        · intro k hk hk'
          cases k with
          | zero =>
            simp only [List.take_zero, List.append_nil, List.getElem_cons_zero]
            exact ⟨rfl, hm⟩
          | succ k =>
            have := hall k (by simpa using hk) (by simpa using hk')
            simpa [List.take_succ_cons] using this

/-- the code's associated data of an entry that already occurs in the segment ignores everything appended -/
theorem assocTW_append_of_mem (seg : Seg α) (ext : List (SEntry α)) (e : SEntry α) (he : e ∈ seg.entries) :
    assocTW { seg with entries := seg.entries ++ ext } e.entry = assocTW seg e.entry := by
  unfold assocTW
  simp only
  rw [takeWhile_append_of_stop]
  exact ⟨e, he, by simp⟩

/-! ## flatten on same-shape chunk lists -/

theorem flatten_inj_of_shape {β : Type} : ∀ (l₁ l₂ : List (List β)),
    l₁.map List.length = l₂.map List.length → l₁.flatten = l₂.flatten → l₁ = l₂
  | [], [], _, _ => rfl
  | [], _ :: _, h, _ => by simp at h
  | _ :: _, [], h, _ => by simp at h
  | a :: as, b :: bs, h, hf => by
    simp only [List.map_cons, List.cons.injEq] at h
    simp only [List.flatten_cons] at hf
    obtain ⟨hab, hrest⟩ := List.append_inj hf h.1
    rw [hab, flatten_inj_of_shape as bs h.2 hrest]

theorem total_eq_length_flatten (l : List Bytes) : total l = l.flatten.length := by
  induction l with
  | nil => rfl
  | cons a as ih => simp [total, List.length_flatten]

end ScionVerif.Signed

namespace ScionVerif.Rpc
open ScionVerif.Generated.Signed ScionVerif.Signed

/-! ## `mapE` -/

theorem mapE_map {α β ε : Type} (f : α → Except ε β) (g : β → α) (l : List β)
    (h : ∀ b ∈ l, f (g b) = .ok b) : mapE f (l.map g) = .ok l := by
  induction l with
  | nil => rfl
  | cons b bs ih =>
    simp only [List.map_cons, mapE, h b (List.mem_cons_self ..)]
    rw [ih fun x hx => h x (List.mem_cons_of_mem _ hx)]

theorem mapE_ne_error {α β ε : Type} (f : α → Except ε β) (bad : ε) (l : List α)
    (h : ∀ a ∈ l, f a ≠ .error bad) : mapE f l ≠ .error bad := by
  induction l with
  | nil => simp [mapE]
  | cons a as ih =>
    have ha := h a (List.mem_cons_self ..)
    have ih' := ih fun x hx => h x (List.mem_cons_of_mem _ hx)
    simp only [mapE]
    split
    · rename_i e he; intro hc; simp only [Except.error.injEq] at hc; subst hc; exact ha he
    · split
      · rename_i e he; intro hc; simp only [Except.error.injEq] at hc; subst hc; exact ih' he
      · simp

theorem mapE_ok_forall {α β ε : Type} (f : α → Except ε β) (l : List α) (bs : List β)
    (h : mapE f l = .ok bs) : ∀ b ∈ bs, ∃ a ∈ l, f a = .ok b := by
  induction l generalizing bs with
  | nil => simp only [mapE, Except.ok.injEq] at h; subst h; simp
  | cons a as ih =>
    simp only [mapE] at h
    split at h
    · cases h
    · rename_i b hb
      split at h
      · cases h
      · rename_i bs' hbs
        simp only [Except.ok.injEq] at h
        subst h
        intro x hx
        rcases List.mem_cons.mp hx with rfl | hx'
        · exact ⟨a, List.mem_cons_self .., hb⟩
        · obtain ⟨a', ha', hfa'⟩ := ih bs' hbs x hx'
          exact ⟨a', List.mem_cons_of_mem _ ha', hfa'⟩

theorem mapE_length {α β ε : Type} (f : α → Except ε β) (l : List α) (bs : List β)
    (h : mapE f l = .ok bs) : bs.length = l.length := by
  induction l generalizing bs with
  | nil => simp only [mapE, Except.ok.injEq] at h; subst h; rfl
  | cons a as ih =>
    simp only [mapE] at h
    split at h
    · cases h
    · split at h
      · cases h
      · rename_i bs' hbs
        simp only [Except.ok.injEq] at h
        subst h
        simp [ih bs' hbs]

end ScionVerif.Rpc
