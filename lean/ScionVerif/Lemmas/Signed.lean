import ScionVerif.Model.Signed
import ScionVerif.Model.Rpc
/-!
Helper lemmas for C18: integer casts, `takeWhile`, characterisation of `validate`, the construction
invariant of `build`, injectivity of `flatten` on same-shape chunk lists.
-/
namespace ScionVerif.Signed
open ScionVerif.Generated.Signed

/-! ## casts -/

theorem i32_roundtrip (n : Nat) (h : n < 2 ^ (AD_LEN_BITS - 1)) : i32ToUsize (usizeToI32 n) = n := by
  have hb : (2 : Nat) ^ (AD_LEN_BITS - 1) ≤ 2 ^ AD_LEN_BITS := Nat.pow_le_pow_right (by decide) (by decide)
  have hm : n % 2 ^ AD_LEN_BITS = n := Nat.mod_eq_of_lt (Nat.lt_of_lt_of_le h hb)
  unfold usizeToI32 i32ToUsize
  simp only [hm, h, if_true]
  simp

/-- a length that does not fit the header's `i32` is *not* recovered: the cast chain is lossy -/
theorem i32_lossy_witness : i32ToUsize (usizeToI32 (2 ^ 31)) ≠ 2 ^ 31 := by decide

/-! ## takeWhile -/

theorem takeWhile_append_stop {β : Type} (p : β → Bool) (l₁ l₂ : List β) (x : β) (hx : p x = false) :
    (l₁ ++ x :: l₂).takeWhile p = l₁.takeWhile p := by
  induction l₁ with
  | nil => simp [List.takeWhile, hx]
  | cons a as ih =>
    simp only [List.cons_append, List.takeWhile]
    cases p a <;> simp [ih]

theorem takeWhile_append_of_stop {β : Type} (p : β → Bool) (l₁ l₂ : List β)
    (h : ∃ x ∈ l₁, p x = false) : (l₁ ++ l₂).takeWhile p = l₁.takeWhile p := by
  induction l₁ with
  | nil => simp at h
  | cons a as ih =>
    simp only [List.cons_append, List.takeWhile]
    cases hpa : p a with
    | false => rfl
    | true =>
      simp only
      congr 1
      apply ih
      obtain ⟨x, hx, hpx⟩ := h
      rcases List.mem_cons.mp hx with rfl | hx'
      · rw [hpa] at hpx; cases hpx
      · exact ⟨x, hx', hpx⟩

theorem takeWhile_all {β : Type} (p : β → Bool) (l : List β) (h : ∀ x ∈ l, p x = true) :
    l.takeWhile p = l := by
  induction l with
  | nil => rfl
  | cons a as ih =>
    have ha := h a (List.mem_cons_self ..)
    simp only [List.takeWhile, ha]
    congr 1
    exact ih fun x hx => h x (List.mem_cons_of_mem _ hx)

/-- the code's `take_while` stops exactly at index `i` when `i` is the first position where the predicate fails -/
theorem takeWhile_eq_take {β : Type} (p : β → Bool) (l : List β) (i : Nat) (hi : i < l.length)
    (hbefore : ∀ j (hj : j < i), p (l[j]'(Nat.lt_trans hj hi)) = true) (hat : p l[i] = false) :
    l.takeWhile p = l.take i := by
  have hsplit : l = l.take i ++ l[i] :: l.drop (i + 1) := by
    rw [List.getElem_cons_drop, List.take_append_drop]
  conv => lhs; rw [hsplit, takeWhile_append_stop p _ _ _ hat]
  apply takeWhile_all
  · intro x hx
    obtain ⟨j, hj, rfl⟩ := List.getElem_of_mem hx
    have hj' : j < i := by simpa [Nat.min_eq_left (Nat.le_of_lt hi)] using hj
    simpa using hbefore j hj'

/-! ## validate -/

variable {PK SK : Type}

/-- **Characterisation of acceptance**: `validate` returns `ok` exactly when every one of its checks
passes, the last one being the scheme's verdict on `header_and_body ‖ associated data`. -/
theorem validate_ok_iff (c : Codec) (S : Scheme PK SK) (kp : Bytes → Except VErr PK) (m : SignedMsg)
    (adN : Nat) (ad : List Bytes) (hdr : Header) (body : Bytes) :
    validate c S kp m adN ad = .ok (hdr, body) ↔
      ∃ hbytes pk a, c.decHB m.hb = some (hbytes, body) ∧ c.decHdr hbytes = some hdr ∧
        kp hdr.keyId = .ok pk ∧ i32ToUsize hdr.adLen = adN ∧ algOfI32 hdr.alg = some a ∧
        S.wf m.sig = true ∧ S.verify pk a (m.hb ++ ad.flatten) m.sig = true := by
  unfold validate
  constructor
  · intro h
    split at h
    · cases h
    · rename_i hbytes body' h1
      split at h
      · cases h
      · rename_i hdr' h2
        split at h
        · cases h
        · rename_i pk h3
          split at h
          · cases h
          · rename_i h4
            split at h
            · cases h
            · rename_i a h5
              split at h
              · cases h
              · rename_i h6
                split at h
                · rename_i h7
                  simp only [Except.ok.injEq, Prod.mk.injEq] at h
                  obtain ⟨rfl, rfl⟩ := h
                  refine ⟨hbytes, pk, a, h1, h2, h3, ?_, h5, ?_, h7⟩
                  · simpa using h4
                  · cases hw : S.wf m.sig
                    · exact absurd hw h6
                    · rfl
                · cases h
  · rintro ⟨hbytes, pk, a, h1, h2, h3, h4, h5, h6, h7⟩
    simp [h1, h2, h3, h4, h5, h6, h7]

theorem validate_isOk_iff (c : Codec) (S : Scheme PK SK) (kp : Bytes → Except VErr PK) (m : SignedMsg)
    (adN : Nat) (ad : List Bytes) :
    (∃ r, validate c S kp m adN ad = .ok r) ↔
      ∃ hbytes body hdr pk a, c.decHB m.hb = some (hbytes, body) ∧ c.decHdr hbytes = some hdr ∧
        kp hdr.keyId = .ok pk ∧ i32ToUsize hdr.adLen = adN ∧ algOfI32 hdr.alg = some a ∧
        S.wf m.sig = true ∧ S.verify pk a (m.hb ++ ad.flatten) m.sig = true := by
  constructor
  · rintro ⟨⟨hdr, body⟩, h⟩
    obtain ⟨hbytes, pk, a, h'⟩ := (validate_ok_iff c S kp m adN ad hdr body).mp h
    exact ⟨hbytes, body, hdr, pk, a, h'⟩
  · rintro ⟨hbytes, body, hdr, pk, a, h'⟩
    exact ⟨(hdr, body), (validate_ok_iff c S kp m adN ad hdr body).mpr ⟨hbytes, pk, a, h'⟩⟩

theorem algOfI32_toI32 (a : Alg) : algOfI32 a.toI32 = some a := by
  cases a <;> decide

/-- a message produced by `sign` validates against the same associated data under the matching key,
provided the associated-data length fits the header's `i32` -/
theorem sign_validate (c : Codec) (S : Scheme PK SK) (hc : c.Lawful) (hS : S.Correct)
    (sk : SK) (a : Alg) (ts : Nat) (keyId : Option Bytes) (adN : Nat) (ad : List Bytes) (body md : Bytes)
    (m : SignedMsg) (hsign : sign c S sk a ts keyId adN ad body md = some m)
    (hfit : adN < 2 ^ (AD_LEN_BITS - 1))
    (kp : Bytes → Except VErr PK) (hkp : kp (keyId.getD []) = .ok (S.pk sk)) :
    ∃ hdr, validate c S kp m adN ad = .ok (hdr, body) ∧ hdr.metadata = md ∧ hdr.keyId = keyId.getD [] := by
  unfold sign at hsign
  simp only at hsign
  split at hsign
  · cases hsign
  · rename_i σ hσ
    simp only [Option.some.injEq] at hsign
    subst hsign
    obtain ⟨hwf, hver⟩ := hS _ _ _ _ hσ
    refine ⟨_, (validate_ok_iff c S kp _ adN ad _ body).mpr
      ⟨_, S.pk sk, a, hc.hb _ _, hc.hdr _, hkp, i32_roundtrip adN hfit, algOfI32_toI32 a, hwf, hver⟩, rfl, rfl⟩

/-! ## construction invariant -/

variable {α : Type} [DecidableEq α]

omit [DecidableEq α] in
theorem chunks_append (l₁ l₂ : List (SEntry α)) : chunks (l₁ ++ l₂) = chunks l₁ ++ chunks l₂ := by
  simp [chunks]

/-- the code's associated data of `a` does not change when the segment is extended behind an entry equal to `a` -/
theorem assocTW_stop (info : Bytes) (l₁ l₂ : List (SEntry α)) (e : SEntry α) :
    assocTW { info := info, entries := l₁ ++ e :: l₂ } e.entry = assocTW { info := info, entries := l₁ } e.entry := by
  unfold assocTW
  simp only
  rw [takeWhile_append_stop]
  simp

/-- what `addEntry` pushed: an entry whose signed message was produced by `sign` over the code's
associated data of the segment so far -/
def SignedOver (c : Codec) (S : Scheme PK SK) (encBody : α → Bytes) (ts : Nat) (info : Bytes)
    (before : List (SEntry α)) (it : Item SK α) (e : SEntry α) : Prop :=
  e.entry = it.entry ∧
  sign c S it.sk .sha256 ts it.keyId (total (assocTW { info := info, entries := before } it.entry))
    (assocTW { info := info, entries := before } it.entry) (encBody it.entry) [] = some e.signed

theorem buildFrom_inv (c : Codec) (S : Scheme PK SK) (encBody : α → Bytes) (ts : Nat)
    (items : List (Item SK α)) (seg seg' : Seg α)
    (h : buildFrom c S encBody ts seg items = some seg') :
    seg'.info = seg.info ∧ ∃ news : List (SEntry α), seg'.entries = seg.entries ++ news ∧
      news.length = items.length ∧
      ∀ k (hk : k < items.length) (hk' : k < news.length),
        SignedOver c S encBody ts seg.info (seg.entries ++ news.take k) items[k] news[k] := by
  induction items generalizing seg with
  | nil =>
    simp only [buildFrom, Option.some.injEq] at h
    subst h
    exact ⟨rfl, [], by simp, rfl, fun k hk => by simp at hk⟩
  | cons it rest ih =>
    simp only [buildFrom] at h
    split at h
    · cases h
    · rename_i seg1 h1
      obtain ⟨hinfo, news, hent, hlen, hall⟩ := ih seg1 h
      unfold addEntry at h1
      simp only at h1
      split at h1
      · cases h1
      · rename_i m hm
        simp only [Option.some.injEq] at h1
        subst h1
        refine ⟨hinfo, { entry := it.entry, signed := m } :: news, ?_, by simp [hlen], ?_⟩
        · simpa using hent
        · intro k hk hk'
          cases k with
          | zero =>
            simp only [List.take_zero, List.append_nil, List.getElem_cons_zero]
            exact ⟨rfl, hm⟩
          | succ k =>
            have := hall k (by simpa using hk) (by simpa using hk')
            simpa [List.take_succ_cons] using this

/-- the code's associated data of an entry that already occurs in the segment ignores everything appended -/
theorem assocTW_append_of_mem (seg : Seg α) (ext : List (SEntry α)) (e : SEntry α) (he : e ∈ seg.entries) :
    assocTW { seg with entries := seg.entries ++ ext } e.entry = assocTW seg e.entry := by
  unfold assocTW
  simp only
  rw [takeWhile_append_of_stop]
  exact ⟨e, he, by simp⟩

/-! ## flatten on same-shape chunk lists -/

theorem flatten_inj_of_shape {β : Type} : ∀ (l₁ l₂ : List (List β)),
    l₁.map List.length = l₂.map List.length → l₁.flatten = l₂.flatten → l₁ = l₂
  | [], [], _, _ => rfl
  | [], _ :: _, h, _ => by simp at h
  | _ :: _, [], h, _ => by simp at h
  | a :: as, b :: bs, h, hf => by
    simp only [List.map_cons, List.cons.injEq] at h
    simp only [List.flatten_cons] at hf
    obtain ⟨hab, hrest⟩ := List.append_inj hf h.1
    rw [hab, flatten_inj_of_shape as bs h.2 hrest]

theorem total_eq_length_flatten (l : List Bytes) : total l = l.flatten.length := by
  induction l with
  | nil => rfl
  | cons a as ih => simp [total, List.length_flatten]

end ScionVerif.Signed

namespace ScionVerif.Rpc
open ScionVerif.Generated.Signed ScionVerif.Signed

/-! ## `mapE` -/

theorem mapE_map {α β ε : Type} (f : α → Except ε β) (g : β → α) (l : List β)
    (h : ∀ b ∈ l, f (g b) = .ok b) : mapE f (l.map g) = .ok l := by
  induction l with
  | nil => rfl
  | cons b bs ih =>
    simp only [List.map_cons, mapE, h b (List.mem_cons_self ..)]
    rw [ih fun x hx => h x (List.mem_cons_of_mem _ hx)]

theorem mapE_ne_error {α β ε : Type} (f : α → Except ε β) (bad : ε) (l : List α)
    (h : ∀ a ∈ l, f a ≠ .error bad) : mapE f l ≠ .error bad := by
  induction l with
  | nil => simp [mapE]
  | cons a as ih =>
    have ha := h a (List.mem_cons_self ..)
    have ih' := ih fun x hx => h x (List.mem_cons_of_mem _ hx)
    simp only [mapE]
    split
    · rename_i e he; intro hc; simp only [Except.error.injEq] at hc; subst hc; exact ha he
    · split
      · rename_i e he; intro hc; simp only [Except.error.injEq] at hc; subst hc; exact ih' he
      · simp

theorem mapE_ok_forall {α β ε : Type} (f : α → Except ε β) (l : List α) (bs : List β)
    (h : mapE f l = .ok bs) : ∀ b ∈ bs, ∃ a ∈ l, f a = .ok b := by
  induction l generalizing bs with
  | nil => simp only [mapE, Except.ok.injEq] at h; subst h; simp
  | cons a as ih =>
    simp only [mapE] at h
    split at h
    · cases h
    · rename_i b hb
      split at h
      · cases h
      · rename_i bs' hbs
        simp only [Except.ok.injEq] at h
        subst h
        intro x hx
        rcases List.mem_cons.mp hx with rfl | hx'
        · exact ⟨a, List.mem_cons_self .., hb⟩
        · obtain ⟨a', ha', hfa'⟩ := ih bs' hbs x hx'
          exact ⟨a', List.mem_cons_of_mem _ ha', hfa'⟩

theorem mapE_length {α β ε : Type} (f : α → Except ε β) (l : List α) (bs : List β)
    (h : mapE f l = .ok bs) : bs.length = l.length := by
  induction l generalizing bs with
  | nil => simp only [mapE, Except.ok.injEq] at h; subst h; rfl
  | cons a as ih =>
    simp only [mapE] at h
    split at h
    · cases h
    · split at h
      · cases h
      · rename_i bs' hbs
        simp only [Except.ok.injEq] at h
        subst h
        simp [ih bs' hbs]

/-! ## paths: `step_by(2)` helpers, canonical paths, what `to_rpc` writes -/

theorem evens_length {α : Type} (l : List α) : (evens l).length = (l.length + 1) / 2 := by
  induction l using evens.induct with
  | case1 => simp [evens]
  | case2 a => simp [evens]
  | case3 a b rest ih => simp only [evens, List.length_cons, ih]; omega

theorem evens_getElem? {α : Type} (l : List α) (k : Nat) : (evens l)[k]? = l[2 * k]? := by
  induction l using evens.induct generalizing k with
  | case1 => simp [evens]
  | case2 a => cases k <;> simp [evens]
  | case3 a b rest ih =>
    cases k with
    | zero => simp [evens]
    | succ k =>
      simp only [evens, List.getElem?_cons_succ, ih]
      have : 2 * (k + 1) = (2 * k + 1) + 1 := by omega
      rw [this, List.getElem?_cons_succ, List.getElem?_cons_succ]

theorem odds_length {α : Type} (l : List α) : (odds l).length = l.length / 2 := by
  unfold odds
  rw [evens_length]
  cases l <;> simp <;> omega

theorem odds_getElem? {α : Type} (l : List α) (k : Nat) : (odds l)[k]? = l[2 * k + 1]? := by
  unfold odds
  rw [evens_getElem?]
  cases l <;> simp

theorem mapE_map' {α β γ ε : Type} (f : α → Except ε β) (g : γ → α) (h : γ → β) (l : List γ)
    (hh : ∀ c ∈ l, f (g c) = .ok (h c)) : mapE f (l.map g) = .ok (l.map h) := by
  induction l with
  | nil => rfl
  | cons c cs ih =>
    simp only [List.map_cons, mapE, hh c (List.mem_cons_self ..)]
    rw [ih fun x hx => hh x (List.mem_cons_of_mem _ hx)]

/-! ## canonical paths (the values `to_rpc → try_from_rpc` reproduces exactly) -/

/-- per-interface conditions (`n` interfaces, this one at index `i`) -/
structure IfCanon (n i : Nat) (m : IfMeta) : Prop where
  id : m.id < 2 ^ PATH_IFID_BITS
  geo : geoFromRpc (geoToRpc m.geo) = m.geo
  lat : if i < n - 1 then durToStd (latToRpc m.latency) = m.latency else m.latency = none
  bw : if i < n - 1 then (if m.bandwidth.getD 0 > 0 then some (m.bandwidth.getD 0) else none) = m.bandwidth
       else m.bandwidth = none

/-- inter-AS links (even indices): all announced with a link type that survives `to_i32`/`from_i32`, or none -/
def EvenCanon (ifm : List IfMeta) : Prop :=
  (∀ k (h : 2 * k < ifm.length), ∃ t, ifm[2 * k].link = some (.egress t) ∧ linkFromI32 (linkToI32 t) = t) ∨
  (∀ k (h : 2 * k < ifm.length), ifm[2 * k].link = none)

/-- intra-AS links (odd indices except the last interface): all announced, or none; nothing on the last -/
def OddCanon (ifm : List IfMeta) : Prop :=
  (∀ k (h : 2 * k + 1 < ifm.length), 2 * k + 1 = ifm.length - 1 → ifm[2 * k + 1].link = none) ∧
  ((∀ k (h : 2 * k + 1 < ifm.length), 2 * k + 1 < ifm.length - 1 → ∃ c, ifm[2 * k + 1].link = some (.ingress c)) ∨
   (∀ k (h : 2 * k + 1 < ifm.length), ifm[2 * k + 1].link = none))

structure MetaCanon (m : PathMeta) (ifm : List IfMeta) : Prop where
  ifs : m.interfaces = some ifm
  nz : ifm.length ≠ 0
  even : ifm.length % 2 = 0
  exp : (m.expiration : Int) ≤ i64Max
  mtu : m.mtu < 2 ^ PATH_MTU_BITS
  notes : m.notes = none ∨ ∃ ns, m.notes = some ns ∧ ns.length = ifm.length / 2 + 1
  each : ∀ i (h : i < ifm.length), IfCanon ifm.length i ifm[i]
  evenL : EvenCanon ifm
  oddL : OddCanon ifm

/-- the vectors `to_rpc` writes for an interface list -/
structure Written (r : RPath) (ifm : List IfMeta) : Prop where
  geo : r.geo = ifm.map fun x => geoToRpc x.geo
  lat : r.latency = (ifm.take (ifm.length - 1)).map fun x => latToRpc x.latency
  bw : r.bandwidth = (ifm.take (ifm.length - 1)).map fun x => x.bandwidth.getD 0
  lt : r.linkType = if (evens ifm).any isEgress then (evens ifm).map egressI32 else []
  ih : r.internalHops =
    if ((odds ifm).take (ifm.length / 2 - 1)).any isIngress then ((odds ifm).take (ifm.length / 2 - 1)).map ingressHops else []

theorem written_geo (r : RPath) (ifm : List IfMeta) (w : Written r ifm) (i : Nat) (hi : i < ifm.length)
    (hc : IfCanon ifm.length i ifm[i]) :
    (if r.geo.length = ifm.length then (r.geo[i]?).bind geoFromRpc else none) = ifm[i].geo := by
  have hl : r.geo.length = ifm.length := by rw [w.geo, List.length_map]
  rw [if_pos hl, w.geo, List.getElem?_map, List.getElem?_eq_getElem hi]
  simpa using hc.geo

theorem written_lat (r : RPath) (ifm : List IfMeta) (w : Written r ifm) (i : Nat) (hi : i < ifm.length)
    (hc : IfCanon ifm.length i ifm[i]) :
    (if r.latency.length = ifm.length - 1 then (r.latency[i]?).bind durToStd else none) = ifm[i].latency := by
  have hl : r.latency.length = ifm.length - 1 := by
    rw [w.lat, List.length_map, List.length_take]; omega
  rw [if_pos hl, w.lat, List.getElem?_map, List.getElem?_take]
  have := hc.lat
  by_cases h : i < ifm.length - 1
  · simp only [h, if_true] at this ⊢
    rw [List.getElem?_eq_getElem hi]
    simpa using this
  · simp only [h, if_false] at this ⊢
    simp [this]

theorem written_bw (r : RPath) (ifm : List IfMeta) (w : Written r ifm) (i : Nat) (hi : i < ifm.length)
    (hc : IfCanon ifm.length i ifm[i]) :
    (if r.bandwidth.length = ifm.length - 1 then
       (r.bandwidth[i]?).bind (fun b => if b > 0 then some b else none) else none) = ifm[i].bandwidth := by
  have hl : r.bandwidth.length = ifm.length - 1 := by
    rw [w.bw, List.length_map, List.length_take]; omega
  rw [if_pos hl, w.bw, List.getElem?_map, List.getElem?_take]
  have := hc.bw
  by_cases h : i < ifm.length - 1
  · simp only [h, if_true] at this ⊢
    rw [List.getElem?_eq_getElem hi]
    simpa using this
  · simp only [h, if_false] at this ⊢
    simp [this]


theorem mem_evens {α : Type} (l : List α) (x : α) (hx : x ∈ evens l) : ∃ k, ∃ h : 2 * k < l.length, l[2 * k] = x := by
  obtain ⟨k, hk, rfl⟩ := List.getElem_of_mem hx
  have h1 : (evens l)[k]? = some (evens l)[k] := List.getElem?_eq_getElem hk
  rw [evens_getElem?] at h1
  obtain ⟨h2, h3⟩ := List.getElem?_eq_some_iff.mp h1
  exact ⟨k, h2, h3⟩

theorem written_link_even (r : RPath) (ifm : List IfMeta) (w : Written r ifm) (_hnz : ifm.length ≠ 0)
    (hev : ifm.length % 2 = 0) (hc : EvenCanon ifm) (i : Nat) (hi : i < ifm.length) (hi2 : i % 2 = 0) :
    (if r.linkType.length = ifm.length / 2 then
       (r.linkType[i / 2]?).map (fun x => LinkMeta.egress (linkFromI32 x)) else none) = ifm[i].link := by
  have hi' : 2 * (i / 2) = i := by omega
  have hevl : (evens ifm).length = ifm.length / 2 := by rw [evens_length]; omega
  rcases hc with hA | hB
  · -- all inter-AS links announced
    have h0 : 2 * 0 < ifm.length := by omega
    obtain ⟨t0, ht0, _⟩ := hA 0 h0
    have hany : (evens ifm).any isEgress = true := by
      rw [List.any_eq_true]
      refine ⟨ifm[2 * 0], ?_, by simp [isEgress, ht0]⟩
      apply List.mem_of_getElem? (i := 0)
      rw [evens_getElem?]; exact List.getElem?_eq_getElem h0
    rw [w.lt, if_pos hany, List.length_map, hevl, if_pos rfl, List.getElem?_map, evens_getElem?, hi',
      List.getElem?_eq_getElem hi]
    have hik : 2 * (i / 2) < ifm.length := by omega
    obtain ⟨t, ht, hcan⟩ := hA (i / 2) hik
    have hidx : ifm[2 * (i / 2)] = ifm[i] := by congr 1
    rw [hidx] at ht
    simp [egressI32, ht, hcan]
  · have hany : (evens ifm).any isEgress = false := by
      rw [List.any_eq_false]
      intro x hx
      obtain ⟨k, hk, rfl⟩ := mem_evens ifm x hx
      simp [isEgress, hB k hk]
    have hik : 2 * (i / 2) < ifm.length := by omega
    have hn := hB (i / 2) hik
    have hidx : ifm[2 * (i / 2)] = ifm[i] := by congr 1
    rw [hidx] at hn
    rw [w.lt, hany, hn]
    have : ¬ (0 = ifm.length / 2) := by omega
    simp [this]

theorem written_link_odd (r : RPath) (ifm : List IfMeta) (w : Written r ifm)
    (hev : ifm.length % 2 = 0) (hc : OddCanon ifm) (i : Nat) (hi : i < ifm.length) (hi2 : ¬ i % 2 = 0) :
    (if r.internalHops.length = ifm.length / 2 - 1 then
       (r.internalHops[i / 2]?).map LinkMeta.ingress else none) = ifm[i].link := by
  have hi' : 2 * (i / 2) + 1 = i := by omega
  have hik : 2 * (i / 2) + 1 < ifm.length := by omega
  have hidx : ifm[2 * (i / 2) + 1] = ifm[i] := by congr 1
  obtain ⟨hlast, hrest⟩ := hc
  have hodl : ((odds ifm).take (ifm.length / 2 - 1)).length = ifm.length / 2 - 1 := by
    rw [List.length_take, odds_length]; omega
  by_cases hl : i = ifm.length - 1
  · -- the last interface never carries an intra-AS link
    have hn := hlast (i / 2) hik (by omega)
    rw [hidx] at hn
    rw [hn]
    have hout : r.internalHops[i / 2]? = none := by
      rw [w.ih]
      split
      · rw [List.getElem?_map, List.getElem?_take]
        have : ¬ i / 2 < ifm.length / 2 - 1 := by omega
        simp [this]
      · simp
    simp [hout]
  · have hlt : i < ifm.length - 1 := by omega
    have hk : i / 2 < ifm.length / 2 - 1 := by omega
    rcases hrest with hA | hB
    · have h1 : 2 * 0 + 1 < ifm.length := by omega
      obtain ⟨c1, hc1⟩ := hA 0 h1 (by omega)
      have hany : ((odds ifm).take (ifm.length / 2 - 1)).any isIngress = true := by
        rw [List.any_eq_true]
        refine ⟨ifm[2 * 0 + 1], ?_, by simp [isIngress, hc1]⟩
        apply List.mem_of_getElem? (i := 0)
        rw [List.getElem?_take, if_pos (by omega), odds_getElem?]
        exact List.getElem?_eq_getElem h1
      obtain ⟨c, hcc⟩ := hA (i / 2) hik (by omega)
      rw [hidx] at hcc
      rw [w.ih, if_pos hany, List.length_map, hodl, if_pos rfl, List.getElem?_map, List.getElem?_take, if_pos hk,
        odds_getElem?, hi', List.getElem?_eq_getElem hi]
      simp [ingressHops, hcc]
    · have hany : ((odds ifm).take (ifm.length / 2 - 1)).any isIngress = false := by
        rw [List.any_eq_false]
        intro x hx
        have hx' := List.mem_of_mem_take hx
        obtain ⟨k, hk', rfl⟩ := List.getElem_of_mem hx'
        have h1 : (odds ifm)[k]? = some (odds ifm)[k] := List.getElem?_eq_getElem hk'
        rw [odds_getElem?] at h1
        obtain ⟨h2, h3⟩ := List.getElem?_eq_some_iff.mp h1
        rw [← h3]
        simp [isIngress, hB k h2]
      have hn := hB (i / 2) hik
      rw [hidx] at hn
      rw [w.ih, hany, hn]
      simp

theorem metaAt_written (r : RPath) (ifm : List IfMeta) (m : PathMeta) (w : Written r ifm) (hc : MetaCanon m ifm)
    (i : Nat) (hi : i < ifm.length) : metaAt r ifm.length i (ifm[i].isdAs, ifm[i].id) = ifm[i] := by
  have hg := written_geo r ifm w i hi (hc.each i hi)
  have hl := written_lat r ifm w i hi (hc.each i hi)
  have hb := written_bw r ifm w i hi (hc.each i hi)
  have hk : (if i % 2 = 0 then
        (if r.linkType.length = ifm.length / 2 then (r.linkType[i / 2]?).map (fun x => LinkMeta.egress (linkFromI32 x)) else none)
      else
        (if r.internalHops.length = ifm.length / 2 - 1 then (r.internalHops[i / 2]?).map LinkMeta.ingress else none)) = ifm[i].link := by
    split
    · rename_i h2; exact written_link_even r ifm w hc.nz hc.even hc.evenL i hi h2
    · rename_i h2; exact written_link_odd r ifm w hc.even hc.oddL i hi h2
  unfold metaAt
  rw [hg, hl, hb, hk]


theorem pathToRpc_written {A : Type} (env : PathEnv A) (p : Path A) (m : PathMeta) (ifm : List IfMeta)
    (hm : p.pmeta = some m) (hi : m.interfaces = some ifm) : Written (pathToRpc env p) ifm := by
  unfold pathToRpc
  simp only [hm, hi]
  constructor <;> rfl

theorem ifaces_written {A : Type} (env : PathEnv A) (p : Path A) (m : PathMeta) (ifm : List IfMeta)
    (hm : p.pmeta = some m) (hi : m.interfaces = some ifm) :
    (pathToRpc env p).interfaces = ifm.map (fun x => ({ isdAs := x.isdAs, id := x.id } : RIface)) ∧
    (pathToRpc env p).mtu = m.mtu ∧
    (pathToRpc env p).expiration = some (if (m.expiration : Int) ≤ i64Max then (m.expiration : Int) else i64Max, 0) ∧
    (pathToRpc env p).epic = m.epic ∧
    (pathToRpc env p).notes = (match m.notes with
          | some ns => if ns.length = ifm.length / 2 + 1 then ns else []
          | none => []) ∧
    (pathToRpc env p).ifaceAddr = p.nextHop.map env.showAddr ∧
    (pathToRpc env p).raw = (match p.dp with | .empty => [] | .standard raw => raw) := by
  unfold pathToRpc
  simp only [hm, hi]
  simp
  exact ⟨rfl, rfl⟩

theorem metaFromRpc_written {A : Type} (env : PathEnv A) (p : Path A) (m : PathMeta) (ifm : List IfMeta)
    (hm : p.pmeta = some m) (hc : MetaCanon m ifm) : metaFromRpc (pathToRpc env p) = .ok m := by
  obtain ⟨hifs, hmtu, hexp, hepic, hnotes, _, _⟩ := ifaces_written env p m ifm hm hc.ifs
  have w := pathToRpc_written env p m ifm hm hc.ifs
  have hlen : (pathToRpc env p).interfaces.length = ifm.length := by rw [hifs, List.length_map]
  have hmap : mapE ifaceFromRpc (pathToRpc env p).interfaces = .ok (ifm.map fun x => (x.isdAs, x.id)) := by
    rw [hifs]
    apply mapE_map'
    intro x hx
    obtain ⟨i, hi, rfl⟩ := List.getElem_of_mem hx
    have := (hc.each i hi).id
    simp [ifaceFromRpc, tryU, this]
  unfold metaFromRpc
  rw [hlen]
  have h1 : ¬ (ifm.length = 0 ∨ ifm.length % 2 ≠ 0) := by
    have := hc.nz; have := hc.even; omega
  rw [if_neg h1, hmap]
  simp only
  have h2 : ¬ ifm.length / 2 < 1 := by have := hc.nz; have := hc.even; omega
  rw [if_neg h2, hexp]
  simp only
  rw [hmtu]
  have h3 : tryU m.mtu PATH_MTU_BITS .mtu = .ok m.mtu := by simp [tryU, hc.mtu]
  rw [h3]
  simp only [if_pos hc.exp]
  have hexp' : ((m.expiration : Int) % ((2 ^ PATH_EXPIRATION_BITS : Nat) : Int)).toNat = m.expiration := by
    have hlt : (m.expiration : Int) < ((2 ^ PATH_EXPIRATION_BITS : Nat) : Int) := by
      have h := hc.exp
      have : i64Max < ((2 ^ PATH_EXPIRATION_BITS : Nat) : Int) := by decide
      omega
    rw [Int.emod_eq_of_lt (Int.natCast_nonneg _) hlt, Int.toNat_natCast]
  have hifm : ((ifm.map fun x => (x.isdAs, x.id)).mapIdx fun i iface => metaAt (pathToRpc env p) ifm.length i iface) = ifm := by
    apply List.ext_getElem
    · simp
    · intro i h1 h2
      rw [List.getElem_mapIdx, List.getElem_map]
      exact metaAt_written _ ifm m w hc i h2
  have hn : (if (pathToRpc env p).notes.length = ifm.length / 2 + 1 then some (pathToRpc env p).notes else none) = m.notes := by
    rw [hnotes]
    rcases hc.notes with h | ⟨ns, h, hl⟩
    · rw [h]; simp
    · rw [h]; simp [hl]
  rw [hexp', hifm, hn, hepic, ← hc.ifs]


/-- the paths `to_rpc → try_from_rpc` reproduces exactly -/
inductive PathCanon {A : Type} (env : PathEnv A) : Path A → Prop
  /-- the AS-local (empty) path of a non-wildcard AS -/
  | loc (ia : Nat) (h : isWildcard ia = false) :
      PathCanon env { src := ia, dst := ia, dp := .empty, pmeta := none, nextHop := none }
  /-- a standard path with canonical metadata -/
  | standard (src dst : Nat) (raw : Bytes) (m : PathMeta) (ifm : List IfMeta) (nh : Option A)
      (hraw : raw ≠ []) (hparse : env.parseRaw raw = .exact)
      (hnh : ∀ a, nh = some a → env.parseAddr (env.showAddr a) = some a)
      (hm : MetaCanon m ifm) :
      PathCanon env { src := src, dst := dst, dp := .standard raw, pmeta := some m, nextHop := nh }

theorem path_roundtrip_of_canon {A : Type} (env : PathEnv A) (p : Path A) (hc : PathCanon env p) :
    pathFromRpc env (pathToRpc env p) p.src p.dst = .ok p := by
  cases hc with
  | loc ia h => simp [pathFromRpc, pathToRpc, localPath, h]
  | standard src dst raw m ifm nh hraw hparse hnh hm =>
    have hmeta := metaFromRpc_written env { src := src, dst := dst, dp := .standard raw, pmeta := some m, nextHop := nh } m ifm rfl hm
    obtain ⟨_, _, _, _, _, haddr, hraweq⟩ := ifaces_written env
      { src := src, dst := dst, dp := .standard raw, pmeta := some m, nextHop := nh } m ifm rfl hm.ifs
    simp only at haddr hraweq
    have hnhop : nextHopFromRpc env (pathToRpc env { src := src, dst := dst, dp := .standard raw, pmeta := some m, nextHop := nh }) = .ok nh := by
      unfold nextHopFromRpc
      rw [haddr]
      cases nh with
      | none => rfl
      | some a => simp [hnh a rfl]
    unfold pathFromRpc
    rw [hraweq]
    have he : raw.isEmpty = false := by cases raw <;> simp_all
    simp only [he, hparse, hnhop, hmeta]
    simp

/-! ## values returned by `try_from_rpc` are canonical -/

theorem tryU_ok' (x bits : Nat) (e : RErr) (y : Nat) (h : tryU x bits e = .ok y) : y = x ∧ x < 2 ^ bits := by
  unfold tryU at h
  split at h
  · simp only [Except.ok.injEq] at h; exact ⟨h.symm, by assumption⟩
  · cases h

/-- wire-range duration with normalised nanoseconds -/
def DurOk (d : Int × Int) : Prop :=
  i64Min ≤ d.1 ∧ d.1 ≤ i64Max ∧ -((NANOS_PER_SECOND : Nat) : Int) < d.2 ∧ d.2 < ((NANOS_PER_SECOND : Nat) : Int)

theorem durToStd_range (d : Int × Int) (hd : DurOk d) :
    durToStd d = none ∨ ∃ s ns : Nat, durToStd d = some (s, ns) ∧ (s : Int) ≤ i64Max ∧ ns < NANOS_PER_SECOND := by
  obtain ⟨h1, h2, h3, h4⟩ := hd
  obtain ⟨s, n⟩ := d
  simp only at h1 h2 h3 h4
  unfold durToStd normalizeDur
  have c1 : ¬ (n ≤ -((NANOS_PER_SECOND : Nat) : Int) ∨ n ≥ ((NANOS_PER_SECOND : Nat) : Int)) := by omega
  simp only [c1, if_false]
  have hmax : i64Max = 9223372036854775807 := by decide
  have hmin : i64Min = -9223372036854775808 := by decide
  have hnps : ((NANOS_PER_SECOND : Nat) : Int) = 1000000000 := by decide
  have hnpsn : NANOS_PER_SECOND = 1000000000 := by decide
  simp only [hmax, hmin, hnps] at h1 h2 h3 h4 ⊢
  by_cases a : s < 0 ∧ n > 0
  · simp only [a, and_self, if_true]
    have h5 : s + 1 ≤ 9223372036854775807 := by omega
    simp only [h5, if_true]
    left
    have h6 : ¬ (s + 1 ≥ 0 ∧ n - 1000000000 ≥ 0) := by omega
    rw [if_neg h6]
  · simp only [a, if_false]
    by_cases b : s > 0 ∧ n < 0
    · simp only [b, and_self, if_true]
      have h5 : (-9223372036854775808 : Int) ≤ s - 1 := by omega
      simp only [h5, if_true]
      right
      have hc : s - 1 ≥ 0 ∧ n + 1000000000 ≥ 0 := by omega
      refine ⟨(s - 1).toNat, (n + 1000000000).toNat, by rw [if_pos hc], ?_, ?_⟩
      · omega
      · rw [hnpsn]; omega
    · simp only [b, if_false]
      by_cases c : s ≥ 0 ∧ n ≥ 0
      · right
        refine ⟨s.toNat, n.toNat, by rw [if_pos c], ?_, ?_⟩
        · omega
        · rw [hnpsn]; omega
      · left; rw [if_neg c]

theorem lat_written_back (s ns : Nat) (hs : (s : Int) ≤ i64Max) (hns : ns < NANOS_PER_SECOND) :
    durToStd (latToRpc (some (s, ns))) = some (s, ns) := by
  have h32 : (ns : Int) ≤ i32Max := by
    have : ((NANOS_PER_SECOND : Nat) : Int) ≤ i32Max := by decide
    have : (ns : Int) < ((NANOS_PER_SECOND : Nat) : Int) := by exact_mod_cast hns
    omega
  simp only [latToRpc, hs, h32, if_true]
  have hn : (ns : Int) < ((NANOS_PER_SECOND : Nat) : Int) := by exact_mod_cast hns
  unfold durToStd normalizeDur
  have c1 : ¬ ((ns : Int) ≤ -((NANOS_PER_SECOND : Nat) : Int) ∨ (ns : Int) ≥ ((NANOS_PER_SECOND : Nat) : Int)) := by omega
  simp only [c1, if_false]
  have c2 : ¬ ((s : Int) < 0 ∧ (ns : Int) > 0) := by omega
  have c3 : ¬ ((s : Int) > 0 ∧ (ns : Int) < 0) := by omega
  simp only [c2, c3, if_false]
  have c4 : (s : Int) ≥ 0 ∧ (ns : Int) ≥ 0 := by omega
  simp [c4]

theorem dur_idem (d : Int × Int) (hd : DurOk d) : durToStd (latToRpc (durToStd d)) = durToStd d := by
  rcases durToStd_range d hd with h | ⟨s, ns, h, h1, h2⟩
  · rw [h]; decide
  · rw [h]; exact lat_written_back s ns h1 h2

theorem geo_idem (g : RGeo) : geoFromRpc (geoToRpc (geoFromRpc g)) = geoFromRpc g := by
  unfold geoFromRpc
  split
  · decide
  · rename_i h
    simp only [geoToRpc]
    cases he : g.address.isEmpty
    · have hne : g.address ≠ [] := by intro h'; rw [h'] at he; simp at he
      simp [he]
    · have : g.address = [] := by cases hg : g.address <;> simp_all
      simp only [he, Bool.and_true] at h
      simp [h]


/-- side conditions on an RPC path under which the value `try_from_rpc` returns is canonical -/
structure RpcSane (r : RPath) : Prop where
  exp : ∀ e, r.expiration = some e → 0 ≤ e.1 ∧ e.1 ≤ i64Max
  link : ∀ x ∈ r.linkType, linkFromI32 (linkToI32 (linkFromI32 x)) = linkFromI32 x
  lat : ∀ d ∈ r.latency, DurOk d

theorem metaFromRpc_canon (r : RPath) (m : PathMeta) (h : metaFromRpc r = .ok m) (hs : RpcSane r) :
    ∃ ifm, MetaCanon m ifm := by
  unfold metaFromRpc at h
  split at h
  · cases h
  · rename_i hn
    split at h
    · cases h
    · rename_i ifs hifs
      split at h
      · cases h
      · rename_i hn2
        split at h
        · cases h
        · rename_i e he
          split at h
          · cases h
          · rename_i mtu hmtu
            simp only [Except.ok.injEq] at h
            subst h
            have hlen : ifs.length = r.interfaces.length := mapE_length _ _ _ hifs
            obtain ⟨rfl, hmtu'⟩ := tryU_ok' _ _ _ _ hmtu
            obtain ⟨ifm, hifm⟩ : ∃ l, l = ifs.mapIdx fun i iface => metaAt r r.interfaces.length i iface := ⟨_, rfl⟩
            refine ⟨ifm, ?_⟩
            have hl : ifm.length = r.interfaces.length := by rw [hifm, List.length_mapIdx, hlen]
            have hel : ∀ i (hi : i < ifm.length) (hi' : i < ifs.length),
                ifm[i] = metaAt r r.interfaces.length i ifs[i] := by
              intro i hi hi'; subst hifm; rw [List.getElem_mapIdx]
            have hlt' : ∀ i, i < ifm.length → i < ifs.length := by intro i hi; omega
            rw [← hifm]
            constructor
            · rfl
            · omega
            · omega
            · obtain ⟨e0, e1⟩ := hs.exp e he
              simp only
              have hlt : e.1 < ((2 ^ PATH_EXPIRATION_BITS : Nat) : Int) := by
                have : i64Max < ((2 ^ PATH_EXPIRATION_BITS : Nat) : Int) := by decide
                omega
              rw [Int.emod_eq_of_lt e0 hlt, Int.toNat_of_nonneg e0]
              exact e1
            · exact hmtu'
            · simp only
              split
              · rename_i hnl; exact Or.inr ⟨_, rfl, by rw [hl]; exact hnl⟩
              · exact Or.inl rfl
            · intro i hi
              have hi' : i < ifs.length := hlt' i hi
              rw [hel i hi hi']
              constructor
              · -- id
                obtain ⟨a, _, ha⟩ := mapE_ok_forall _ _ _ hifs ifs[i] (List.getElem_mem hi')
                unfold ifaceFromRpc at ha
                split at ha
                · cases ha
                · rename_i id hid
                  simp only [Except.ok.injEq] at ha
                  obtain ⟨rfl, hlt⟩ := tryU_ok' _ _ _ _ hid
                  rw [← ha]; exact hlt
              · -- geo
                simp only [metaAt]
                split
                · cases hg : r.geo[i]? with
                  | none => decide
                  | some g => simp only [Option.bind_some]; exact geo_idem g
                · decide
              · -- latency
                simp only [metaAt]
                split
                · split
                  · rename_i hll
                    cases hd : r.latency[i]? with
                    | none => decide
                    | some d =>
                      simp only [Option.bind_some]
                      exact dur_idem d (hs.lat d (List.mem_of_getElem? hd))
                  · decide
                · split
                  · rename_i hge hll
                    have : r.latency[i]? = none := by
                      apply List.getElem?_eq_none; omega
                    rw [this]; rfl
                  · rfl
              · -- bandwidth
                simp only [metaAt]
                split
                · split
                  · cases hb : r.bandwidth[i]? with
                    | none => decide
                    | some b =>
                      simp only [Option.bind_some]
                      by_cases hb0 : b > 0 <;> simp [hb0]
                  · decide
                · split
                  · rename_i hge hll
                    have : r.bandwidth[i]? = none := by
                      apply List.getElem?_eq_none; omega
                    rw [this]; rfl
                  · rfl
            · -- even indices
              unfold EvenCanon
              by_cases hlt : r.linkType.length = r.interfaces.length / 2
              · left
                intro k hk
                rw [hel (2 * k) hk (hlt' _ hk)]
                have hk2 : k < r.linkType.length := by omega
                refine ⟨linkFromI32 r.linkType[k], ?_, hs.link _ (List.getElem_mem hk2)⟩
                simp only [metaAt]
                have : 2 * k % 2 = 0 := by omega
                have hd : 2 * k / 2 = k := by omega
                simp [this, hlt, hd, List.getElem?_eq_getElem hk2]
              · right
                intro k hk
                rw [hel (2 * k) hk (hlt' _ hk)]
                simp only [metaAt]
                have : 2 * k % 2 = 0 := by omega
                simp [this, hlt]
            · -- odd indices
              unfold OddCanon
              constructor
              · intro k hk hlast
                rw [hel (2 * k + 1) hk (hlt' _ hk)]
                simp only [metaAt]
                have : ¬ (2 * k + 1) % 2 = 0 := by omega
                simp only [this, if_false]
                split
                · rename_i hll
                  have : r.internalHops[(2 * k + 1) / 2]? = none := by
                    apply List.getElem?_eq_none; omega
                  rw [this]; rfl
                · rfl
              · by_cases hll : r.internalHops.length = r.interfaces.length / 2 - 1
                · left
                  intro k hk hnl
                  rw [hel (2 * k + 1) hk (hlt' _ hk)]
                  have hk2 : k < r.internalHops.length := by omega
                  refine ⟨r.internalHops[k], ?_⟩
                  simp only [metaAt]
                  have : ¬ (2 * k + 1) % 2 = 0 := by omega
                  have hd : (2 * k + 1) / 2 = k := by omega
                  simp [hll, hd, List.getElem?_eq_getElem hk2]
                · right
                  intro k hk
                  rw [hel (2 * k + 1) hk (hlt' _ hk)]
                  simp only [metaAt]
                  simp [hll]


theorem path_from_rpc_canon {A : Type} (env : PathEnv A) (r : RPath) (src dst : Nat) (p : Path A)
    (h : pathFromRpc env r src dst = .ok p) (hs : RpcSane r)
    (haddr : ∀ s a, env.parseAddr s = some a → env.parseAddr (env.showAddr a) = some a) :
    PathCanon env p ∧ p.src = src ∧ p.dst = dst := by
  unfold pathFromRpc at h
  split at h
  · split at h
    · cases h
    · rename_i hw
      split at h
      · rename_i hsd
        subst hsd
        have hnw : isWildcard src = false := by
          cases hh : isWildcard src
          · rfl
          · simp [hh] at hw
        simp only [localPath, hnw] at h
        simp only [Bool.false_eq_true, if_false, Except.ok.injEq] at h
        subst h
        exact ⟨PathCanon.loc src hnw, rfl, rfl⟩
      · cases h
  · rename_i hne
    split at h
    · cases h
    · cases h
    · rename_i hparse
      split at h
      · cases h
      · rename_i nh hnh
        split at h
        · cases h
        · rename_i m hm
          simp only [Except.ok.injEq] at h
          subst h
          obtain ⟨ifm, hc⟩ := metaFromRpc_canon r m hm hs
          refine ⟨PathCanon.standard src dst r.raw m ifm nh ?_ hparse ?_ hc, rfl, rfl⟩
          · intro he; rw [he] at hne; simp at hne
          · intro a ha
            subst ha
            unfold nextHopFromRpc at hnh
            split at hnh
            · cases hnh
            · split at hnh
              · cases hnh
              · rename_i a' hp
                simp only [Except.ok.injEq, Option.some.injEq] at hnh
                subst hnh
                exact haddr _ a' hp

end ScionVerif.Rpc
