import ScionVerif.Model.Frag
/-! Helper lemmas for the fragmenting model (C17). Property theorems live in `Theorems/C17.lean`. -/
namespace ScionVerif.Frag
open ScionVerif.Generated.Frag
variable {α : Type}

theorem writeAt_length (buf p : List α) (off : Nat) (h : off + p.length ≤ buf.length) :
    (writeAt buf off p).length = buf.length := by
  simp [writeAt]; omega

theorem writeAt_get_inside (buf p : List α) (off pos : Nat) (h : off + p.length ≤ buf.length)
    (h1 : off ≤ pos) (h2 : pos < off + p.length) :
    (writeAt buf off p)[pos]? = p[pos - off]? := by
  unfold writeAt
  have hl : (buf.take off).length = off := by simp; omega
  rw [List.append_assoc, List.getElem?_append_right (by omega), hl,
      List.getElem?_append_left (by omega)]

theorem writeAt_get_outside (buf p : List α) (off pos : Nat) (h : off + p.length ≤ buf.length)
    (h1 : pos < off ∨ off + p.length ≤ pos) :
    (writeAt buf off p)[pos]? = buf[pos]? := by
  unfold writeAt
  have hl : (buf.take off).length = off := by simp; omega
  rcases h1 with h1 | h1
  · rw [List.append_assoc, List.getElem?_append_left (by omega), List.getElem?_take_of_lt h1]
  · rw [List.append_assoc, List.getElem?_append_right (by omega), hl,
        List.getElem?_append_right (by omega), List.getElem?_drop]
    congr 1; omega


/-- frame `f` belongs to the packet with stream offset `s` and carries byte `a` at packet position `pos` -/
def Frame.carries (f : Frame α) (s pos : Nat) (a : α) : Prop :=
  f.hdr.streamOff = s ∧ f.hdr.frameOff ≤ pos ∧ f.payload[pos - f.hdr.frameOff]? = some a

/-- byte `a` at position `pos` was received in some frame (of `hist`) of packet `s` -/
def Good (hist : List (Frame α)) (s pos : Nat) (a : α) : Prop := ∃ f ∈ hist, f.carries s pos a

theorem Good.mono {hist : List (Frame α)} {s pos : Nat} {a : α} (f : Frame α)
    (h : Good hist s pos a) : Good (f :: hist) s pos a := by
  obtain ⟨g, hg, hc⟩ := h; exact ⟨g, List.mem_cons_of_mem _ hg, hc⟩

/-- positions `[lo, hi)` of the buffer hold bytes received for packet `s` -/
def Region (hist : List (Frame α)) (s : Nat) (buf : List α) (lo hi : Nat) : Prop :=
  ∀ pos, lo ≤ pos → pos < hi → ∃ a, buf[pos]? = some a ∧ Good hist s pos a

def LASTBIT : Nat := MAX_FRAMES - 1

/-- invariant of one reassembly queue w.r.t. the frames received so far -/
structure QInv (hist : List (Frame α)) (q : Queue α) : Prop where
  len : q.buf.length = MAX_PACKET_SIZE
  mid : q.idle = false → ∀ idx ∈ q.recv, idx ≠ LASTBIT →
          ∃ w, q.window = some w ∧ Region hist q.streamOff q.buf (idx * w) (idx * w + w)
  last : q.idle = false → LASTBIT ∈ q.recv →
          ∃ fin lo, q.finalSize = some fin ∧ q.lastOff = some lo ∧ Region hist q.streamOff q.buf lo fin
  fin_bit : q.idle = false → q.finalSize.isSome → LASTBIT ∈ q.recv
  exp : q.idle = false → ∀ e, q.expected = some e →
          ∃ fin w lo, q.finalSize = some fin ∧ q.window = some w ∧ q.lastOff = some lo ∧
            0 < w ∧ lo % w = 0 ∧ lo < fin ∧ fin ≤ lo + w ∧ e = (fin + w - 1) / w
  wmin : q.idle = false → ∀ w, q.window = some w → MIN_PAYLOAD_SIZE ≤ w
  finmax : q.idle = false → ∀ fin, q.finalSize = some fin → fin ≤ MAX_PACKET_SIZE
  finwit : q.idle = false → ∀ fin, q.finalSize = some fin →
          ∃ g ∈ hist, g.hdr.streamOff = q.streamOff ∧ g.hdr.isLast = true ∧
            g.hdr.frameOff + g.payload.length = fin
  /-- `final_packet_size` and `last_frame_offset` are set together by a LAST frame (`init` resets only the
      former): the subtraction `final_packet_size - last_frame_offset` cannot underflow -/
  lole : q.idle = false → ∀ fin lo, q.finalSize = some fin → q.lastOff = some lo → lo ≤ fin

theorem QInv.mono {hist : List (Frame α)} {q : Queue α} (f : Frame α) (h : QInv hist q) :
    QInv (f :: hist) q := by
  refine ⟨h.len, ?_, ?_, h.fin_bit, h.exp, h.wmin, h.finmax, ?_, h.lole⟩
  · intro hi idx hidx hne
    obtain ⟨w, hw, hr⟩ := h.mid hi idx hidx hne
    exact ⟨w, hw, fun pos h1 h2 => let ⟨a, ha, hg⟩ := hr pos h1 h2; ⟨a, ha, hg.mono f⟩⟩
  · intro hi hl
    obtain ⟨fin, lo, h1, h2, hr⟩ := h.last hi hl
    exact ⟨fin, lo, h1, h2, fun pos h1 h2 => let ⟨a, ha, hg⟩ := hr pos h1 h2; ⟨a, ha, hg.mono f⟩⟩
  · intro hi fin hf
    obtain ⟨g, hg, rest⟩ := h.finwit hi fin hf
    exact ⟨g, List.mem_cons_of_mem _ hg, rest⟩

theorem QInv.new (z : α) (hist : List (Frame α)) : QInv hist (Queue.new z) := by
  refine ⟨by simp [Queue.new], ?_, ?_, ?_, ?_, ?_, ?_, ?_, ?_⟩ <;> simp [Queue.new]

theorem QInv.idle {hist : List (Frame α)} {q : Queue α} (hl : q.buf.length = MAX_PACKET_SIZE)
    (hi : q.idle = true) : QInv hist q := by
  refine ⟨hl, ?_, ?_, ?_, ?_, ?_, ?_, ?_, ?_⟩ <;> simp [hi]

theorem QInv.init {hist : List (Frame α)} {q : Queue α} (f : Frame α) (h : QInv hist q) :
    QInv hist (q.init f) := by
  refine ⟨by simpa [Queue.init] using h.len, ?_, ?_, ?_, ?_, ?_, ?_, ?_, ?_⟩ <;> simp [Queue.init]

/-- writing the payload of a frame of packet `s` keeps every region good -/
theorem Region.write {hist : List (Frame α)} {s : Nat} {buf : List α} {lo hi : Nat} (f : Frame α)
    (hs : f.hdr.streamOff = s) (hb : f.hdr.frameOff + f.payload.length ≤ buf.length)
    (h : Region hist s buf lo hi) :
    Region (f :: hist) s (writeAt buf f.hdr.frameOff f.payload) lo hi := by
  intro pos h1 h2
  by_cases hin : f.hdr.frameOff ≤ pos ∧ pos < f.hdr.frameOff + f.payload.length
  · rw [writeAt_get_inside _ _ _ _ hb hin.1 hin.2]
    have : pos - f.hdr.frameOff < f.payload.length := by omega
    refine ⟨f.payload[pos - f.hdr.frameOff], by simp [this], f, List.mem_cons_self, hs, hin.1, ?_⟩
    simp [this]
  · rw [writeAt_get_outside _ _ _ _ hb (by omega)]
    obtain ⟨a, ha, hg⟩ := h pos h1 h2
    exact ⟨a, ha, hg.mono f⟩

/-- the freshly written region itself is good -/
theorem Region.written {hist : List (Frame α)} {buf : List α} (f : Frame α)
    (hb : f.hdr.frameOff + f.payload.length ≤ buf.length) :
    Region (f :: hist) f.hdr.streamOff (writeAt buf f.hdr.frameOff f.payload)
      f.hdr.frameOff (f.hdr.frameOff + f.payload.length) := by
  intro pos h1 h2
  rw [writeAt_get_inside _ _ _ _ hb h1 h2]
  have : pos - f.hdr.frameOff < f.payload.length := by omega
  refine ⟨f.payload[pos - f.hdr.frameOff], by simp [this], f, List.mem_cons_self, rfl, h1, ?_⟩
  simp [this]


/-- what `classify` establishes when it succeeds -/
theorem classify_ok {q q1 : Queue α} {f : Frame α} {idx : Nat}
    (hb : f.hdr.frameOff + f.payload.length ≤ MAX_PACKET_SIZE)
    (h : q.classify f = .ok (q1, idx)) :
    q1.buf = q.buf ∧ q1.recv = q.recv ∧ q1.streamOff = q.streamOff ∧ q1.idle = q.idle ∧
    q1.expected = q.expected ∧
    ((idx = LASTBIT ∧ q.finalSize = none ∧ q1.finalSize = some (f.hdr.frameOff + f.payload.length) ∧
        q1.lastOff = some f.hdr.frameOff ∧ q1.window = q.window) ∨
     (idx < LASTBIT ∧ q1.finalSize = q.finalSize ∧ q1.lastOff = q.lastOff ∧
        q1.window = some f.payload.length ∧ (q.window = none ∨ q.window = some f.payload.length) ∧
        MIN_PAYLOAD_SIZE ≤ f.payload.length ∧ f.hdr.frameOff = idx * f.payload.length)) := by
  unfold Queue.classify at h
  simp only [] at h
  split at h
  · split at h
    · simp at h
    · split at h
      · simp at h
      · simp only [Except.ok.injEq, Prod.mk.injEq] at h
        obtain ⟨rfl, rfl⟩ := h
        simp_all [LASTBIT]
  · split at h
    · simp at h
    · split at h
      · simp at h
      · split at h
        · simp at h
        · split at h
          · simp at h
          · simp only [Except.ok.injEq, Prod.mk.injEq] at h
            obtain ⟨rfl, rfl⟩ := h
            have hmin : 0 < MIN_PAYLOAD_SIZE := by decide
            have hmax : MAX_PACKET_SIZE < 65536 := by decide
            have hlen : f.payload.length % 65536 = f.payload.length := Nat.mod_eq_of_lt (by omega)
            rename_i h1 h2 h3 h4 h5
            rw [hlen] at h3
            have hpos : 0 < f.payload.length := by omega
            have hmul : f.hdr.frameOff % f.payload.length = 0 := by
              simp only [isMultipleOf, Bool.not_eq_true', Bool.not_eq_false] at h3
              have : (f.payload.length == 0) = false := beq_eq_false_iff_ne.mpr (by omega)
              simpa [this] using h3
            have hdm := Nat.div_add_mod f.hdr.frameOff f.payload.length
            refine ⟨rfl, rfl, rfl, rfl, rfl, Or.inr ⟨by simp only [LASTBIT]; exact Nat.lt_of_not_ge (by assumption), rfl, rfl, rfl, ?_, by omega, ?_⟩⟩
            · cases hw : q.window <;> simp_all
            · exact (Nat.div_mul_cancel (Nat.dvd_of_mod_eq_zero hmul)).symm

theorem classify_last {q q1 : Queue α} {f : Frame α} {idx : Nat}
    (h : q.classify f = .ok (q1, idx)) (hi : idx = LASTBIT) : f.hdr.isLast = true := by
  unfold Queue.classify at h
  simp only [] at h
  split at h
  · assumption
  · repeat' split at h
    all_goals first
      | (simp only [Except.ok.injEq, Prod.mk.injEq] at h
         obtain ⟨_, h2⟩ := h
         simp only [LASTBIT] at hi
         omega)
      | (simp at h; done)

theorem classify_err {q q' : Queue α} {f : Frame α} {e : Err}
    (h : q.classify f = .error (q', e)) :
    q' = q ∨ (q'.idle = true ∧ q'.buf = q.buf) := by
  unfold Queue.classify at h
  simp only [] at h
  repeat' split at h
  all_goals first
    | (simp only [Except.error.injEq, Prod.mk.injEq] at h; obtain ⟨rfl, _⟩ := h; simp)
    | simp at h

theorem oneTime_ok {q1 q2 : Queue α} (h : oneTime q1 = .ok q2) :
    q2.buf = q1.buf ∧ q2.recv = q1.recv ∧ q2.streamOff = q1.streamOff ∧ q2.idle = q1.idle ∧
    q2.finalSize = q1.finalSize ∧ q2.window = q1.window ∧ q2.lastOff = q1.lastOff ∧
    (q2.expected = q1.expected ∨
      ∃ fin w lo, q1.finalSize = some fin ∧ q1.window = some w ∧ q1.lastOff = some lo ∧
        q1.expected = none ∧ q2.expected = some ((fin + w - 1) / w) ∧
        0 < w ∧ lo % w = 0 ∧ lo < fin ∧ fin ≤ lo + w) := by
  unfold oneTime at h
  split at h
  · rename_i fin w lo hf hw hl he
    split at h
    · simp at h
    · simp only [] at h
      split at h
      · simp at h
      · simp only [Except.ok.injEq] at h
        subst h
        rename_i h1 h2
        simp at h2
        have hw0 : w ≠ 0 := by omega
        simp [isMultipleOf, hw0] at h1
        exact ⟨rfl, rfl, rfl, rfl, rfl, rfl, rfl, Or.inr ⟨fin, w, lo, hf, hw, hl, he, rfl, by omega, h1, by omega, by omega⟩⟩
  · simp only [Except.ok.injEq] at h
    subst h
    simp


/-- state between `oneTime` and `finish`: `QInv` except that the bit of the current frame is not yet set -/
structure PreFin (hist : List (Frame α)) (q : Queue α) (f : Frame α) (idx : Nat) : Prop where
  notIdle : q.idle = false
  len : q.buf.length = MAX_PACKET_SIZE
  stream : f.hdr.streamOff = q.streamOff
  bound : f.hdr.frameOff + f.payload.length ≤ MAX_PACKET_SIZE
  mid : ∀ i ∈ q.recv, i ≠ LASTBIT →
          ∃ w, q.window = some w ∧ Region hist q.streamOff q.buf (i * w) (i * w + w)
  last : LASTBIT ∈ q.recv →
          ∃ fin lo, q.finalSize = some fin ∧ q.lastOff = some lo ∧ Region hist q.streamOff q.buf lo fin
  fin_bit : q.finalSize.isSome → LASTBIT ∈ q.recv ∨ idx = LASTBIT
  exp : ∀ e, q.expected = some e →
          ∃ fin w lo, q.finalSize = some fin ∧ q.window = some w ∧ q.lastOff = some lo ∧
            0 < w ∧ lo % w = 0 ∧ lo < fin ∧ fin ≤ lo + w ∧ e = (fin + w - 1) / w
  wmin : ∀ w, q.window = some w → MIN_PAYLOAD_SIZE ≤ w
  finmax : ∀ fin, q.finalSize = some fin → fin ≤ MAX_PACKET_SIZE
  finwit : ∀ fin, q.finalSize = some fin →
          ∃ g ∈ f :: hist, g.hdr.streamOff = q.streamOff ∧ g.hdr.isLast = true ∧
            g.hdr.frameOff + g.payload.length = fin
  lole : ∀ fin lo, q.finalSize = some fin → q.lastOff = some lo → lo ≤ fin
  cur : (idx = LASTBIT ∧ q.finalSize = some (f.hdr.frameOff + f.payload.length) ∧
            q.lastOff = some f.hdr.frameOff) ∨
        (idx < LASTBIT ∧ q.window = some f.payload.length ∧ f.hdr.frameOff = idx * f.payload.length)

theorem hasFramesBelow_mem {recv : List Nat} {n i : Nat} (h : hasFramesBelow recv n = true) (hi : i < n) :
    i ∈ recv := by
  simp only [hasFramesBelow, List.all_eq_true, List.mem_range] at h
  simpa using h i hi

/-- arithmetic of the completion test: with an aligned last frame of size `1..w` the expected number of
    frames is `lo / w + 1`, and every position below `lo` lies in a regular frame with index `< lo / w` -/
theorem expected_eq {fin w lo : Nat} (hw : 0 < w) (hal : lo % w = 0) (h1 : lo < fin) (h2 : fin ≤ lo + w) :
    (fin + w - 1) / w = lo / w + 1 := by
  have hlo : lo = w * (lo / w) := by have := Nat.div_add_mod lo w; omega
  apply Nat.div_eq_of_lt_le
  · rw [Nat.add_mul, Nat.one_mul, Nat.mul_comm]; omega
  · rw [Nat.add_mul, Nat.add_mul, Nat.one_mul, Nat.mul_comm]; omega

theorem PreFin.finish_inv {hist : List (Frame α)} {q : Queue α} {f : Frame α} {idx : Nat}
    (h : PreFin hist q f idx) :
    QInv (f :: hist) (q.finish f idx).1 ∧
    (∀ s p, (q.finish f idx).2 = .packet s p →
      (∀ pos a, p[pos]? = some a → Good (f :: hist) s pos a) ∧
      ∃ g ∈ f :: hist, g.hdr.streamOff = s ∧ g.hdr.isLast = true ∧ g.hdr.frameOff + g.payload.length = p.length) := by
  have hbuf : f.hdr.frameOff + f.payload.length ≤ q.buf.length := by rw [h.len]; exact h.bound
  unfold Queue.finish
  simp only []
  split
  · -- duplicate: state unchanged
    rename_i hc
    have hmem : idx ∈ q.recv := by simpa using hc
    refine ⟨⟨h.len, ?_, ?_, ?_, ?_, ?_, ?_, fun _ => h.finwit, fun _ => h.lole⟩, by simp⟩
    · intro _ i hi hne
      obtain ⟨w, hw, hr⟩ := h.mid i hi hne
      exact ⟨w, hw, fun pos h1 h2 => let ⟨a, ha, hg⟩ := hr pos h1 h2; ⟨a, ha, hg.mono f⟩⟩
    · intro _ hl
      obtain ⟨fin, lo, h1, h2, hr⟩ := h.last hl
      exact ⟨fin, lo, h1, h2, fun pos h1 h2 => let ⟨a, ha, hg⟩ := hr pos h1 h2; ⟨a, ha, hg.mono f⟩⟩
    · intro _ hf
      rcases h.fin_bit hf with h1 | h1
      · exact h1
      · exact h1 ▸ hmem
    · intro _; exact h.exp
    · intro _; exact h.wmin
    · intro _; exact h.finmax
  · -- the frame is copied
    rename_i hc
    -- invariant of the state after the copy (before the completion test), as separate facts
    have hlen3 : (writeAt q.buf f.hdr.frameOff f.payload).length = MAX_PACKET_SIZE := by
      rw [writeAt_length _ _ _ hbuf]; exact h.len
    have hmid3 : ∀ i ∈ idx :: q.recv, i ≠ LASTBIT → ∃ w, q.window = some w ∧
        Region (f :: hist) q.streamOff (writeAt q.buf f.hdr.frameOff f.payload) (i * w) (i * w + w) := by
      intro i hi hne
      rcases List.mem_cons.mp hi with rfl | hi
      · rcases h.cur with ⟨h1, _⟩ | ⟨_, hw, hoff⟩
        · exact absurd h1 hne
        · refine ⟨_, hw, ?_⟩
          have := Region.written (hist := hist) f hbuf
          rw [h.stream, hoff] at this
          rw [hoff]; exact this
      · obtain ⟨w, hw, hr⟩ := h.mid i hi hne
        exact ⟨w, hw, Region.write f h.stream hbuf hr⟩
    have hlast3 : LASTBIT ∈ idx :: q.recv → ∃ fin lo, q.finalSize = some fin ∧ q.lastOff = some lo ∧
        Region (f :: hist) q.streamOff (writeAt q.buf f.hdr.frameOff f.payload) lo fin := by
      intro hl
      rcases h.cur with ⟨_, hf, hlo⟩ | ⟨hlt, _, _⟩
      · refine ⟨_, _, hf, hlo, ?_⟩
        have := Region.written (hist := hist) f hbuf
        rw [h.stream] at this; exact this
      · rcases List.mem_cons.mp hl with h1 | h1
        · omega
        · obtain ⟨fin, lo, h1, h2, hr⟩ := h.last h1
          exact ⟨fin, lo, h1, h2, Region.write f h.stream hbuf hr⟩
    have hfb3 : q.finalSize.isSome → LASTBIT ∈ idx :: q.recv := by
      intro hf
      rcases h.fin_bit hf with h1 | h1
      · exact List.mem_cons_of_mem _ h1
      · exact h1 ▸ List.mem_cons_self
    split
    · rename_i e he
      try simp only [] at he
      split
      · -- count reached: queue becomes idle
        split
        · exact ⟨QInv.idle hlen3 rfl, by simp⟩
        · rename_i hcnt hfb
          refine ⟨QInv.idle hlen3 rfl, ?_⟩
          intro s p hp
          simp only [Out.packet.injEq] at hp
          obtain ⟨rfl, rfl⟩ := hp
          obtain ⟨fin, w, lo, hf, hw, hlo, hwpos, hal, h1, h2, rfl⟩ := h.exp e he
          have hfb' : hasFramesBelow (idx :: q.recv) ((fin + w - 1) / w - 1) = true := by simpa using hfb
          refine ⟨?_, ?_⟩
          rotate_left
          · obtain ⟨g, hg, h1g, h2g, h3g⟩ := h.finwit fin hf
            refine ⟨g, hg, h1g, h2g, ?_⟩
            have := h.finmax fin hf
            rw [hf]; simp only [Option.getD_some, List.length_take]; omega
          intro pos a ha
          rw [hf] at ha
          simp only [Option.getD_some, List.getElem?_take] at ha
          split at ha
          · rename_i hpos
            by_cases hge : lo ≤ pos
            · obtain ⟨fin', lo', hf', hlo', hr⟩ := hlast3 (hfb3 (by simp [hf]))
              rw [hf] at hf'; rw [hlo] at hlo'
              cases hf'; cases hlo'
              obtain ⟨a', ha', hg⟩ := hr pos hge hpos
              rw [ha] at ha'; cases ha'; exact hg
            · have hexp := expected_eq hwpos hal h1 h2
              have hwm := h.wmin w hw
              have hfm := h.finmax fin hf
              have hi : pos / w < lo / w := by
                have hlo' : lo = w * (lo / w) := by have := Nat.div_add_mod lo w; omega
                apply Nat.div_lt_of_lt_mul; omega
              have hmem := hasFramesBelow_mem hfb' (i := pos / w) (by omega)
              have hne : pos / w ≠ LASTBIT := by
                have : lo / w ≤ MAX_PACKET_SIZE / MIN_PAYLOAD_SIZE := by
                  calc lo / w ≤ MAX_PACKET_SIZE / w := Nat.div_le_div_right (by omega)
                    _ ≤ MAX_PACKET_SIZE / MIN_PAYLOAD_SIZE := Nat.div_le_div_left hwm (by decide)
                have hc : MAX_PACKET_SIZE / MIN_PAYLOAD_SIZE ≤ LASTBIT := by decide
                omega
              obtain ⟨w', hw', hr⟩ := hmid3 _ hmem hne
              rw [hw] at hw'; cases hw'
              have hdm := Nat.div_add_mod pos w
              have hml := Nat.mod_lt pos hwpos
              obtain ⟨a', ha', hg⟩ := hr pos (by rw [Nat.mul_comm]; omega) (by rw [Nat.mul_comm]; omega)
              rw [ha] at ha'; cases ha'; exact hg
          · simp at ha
      · exact ⟨⟨hlen3, fun _ => hmid3, fun _ => hlast3, fun _ => hfb3, fun _ => h.exp,
                fun _ => h.wmin, fun _ => h.finmax, fun _ => h.finwit, fun _ => h.lole⟩, by simp⟩
    · exact ⟨⟨hlen3, fun _ => hmid3, fun _ => hlast3, fun _ => hfb3, fun _ => h.exp,
              fun _ => h.wmin, fun _ => h.finmax, fun _ => h.finwit, fun _ => h.lole⟩, by simp⟩


/-- the state between `oneTime` and `finish` satisfies `PreFin` -/
theorem preFin_of_inv {hist : List (Frame α)} {q q1 q2 : Queue α} {f : Frame α} {idx : Nat} (h : QInv hist q)
    (hs : f.hdr.streamOff = q.streamOff) (hidle : q.idle = false)
    (hb : f.hdr.frameOff + f.payload.length ≤ MAX_PACKET_SIZE)
    (hc : q.classify f = .ok (q1, idx)) (ho : oneTime q1 = .ok q2) : PreFin hist q2 f idx := by
  obtain ⟨hbuf, hrecv, hso, hid, hexp, hcase⟩ := classify_ok hb hc
  obtain ⟨obuf, orecv, oso, oid, ofin, owin, olo, oexp⟩ := oneTime_ok ho
  have hmid := h.mid hidle
  have hlast := h.last hidle
  refine ⟨by rw [oid, hid, hidle], by rw [obuf, hbuf, h.len], by rw [oso, hso, hs], hb, ?_, ?_, ?_, ?_, ?_, ?_, ?_, ?_, ?_⟩
  · -- mid
    intro i hi hne
    rw [orecv, hrecv] at hi
    obtain ⟨w, hw, hr⟩ := hmid i hi hne
    refine ⟨w, ?_, by rw [oso, hso, obuf, hbuf]; exact hr⟩
    rw [owin]
    rcases hcase with ⟨_, _, _, _, hwin⟩ | ⟨_, _, _, hwin, hold, _, _⟩
    · rw [hwin, hw]
    · rcases hold with hold | hold
      · rw [hold] at hw; cases hw
      · rw [hwin, ← hold, hw]
  · -- last
    intro hl
    rw [orecv, hrecv] at hl
    obtain ⟨fin, lo, hf, hlo, hr⟩ := hlast hl
    rcases hcase with ⟨_, hnone, _⟩ | ⟨_, hfin, hlo', _⟩
    · rw [hnone] at hf; cases hf
    · exact ⟨fin, lo, by rw [ofin, hfin, hf], by rw [olo, hlo', hlo], by rw [oso, hso, obuf, hbuf]; exact hr⟩
  · -- fin_bit
    intro hf
    rw [ofin] at hf
    rcases hcase with ⟨hi, _⟩ | ⟨_, hfin, _⟩
    · exact Or.inr hi
    · rw [hfin] at hf
      left; rw [orecv, hrecv]; exact h.fin_bit hidle hf
  · -- exp
    intro e he
    rcases oexp with oexp | ⟨fin, w, lo, hf, hw, hlo, _, he2, hpos, hal, h1, h2⟩
    · rw [oexp, hexp] at he
      obtain ⟨fin, w, lo, hf, hw, hlo, rest⟩ := h.exp hidle e he
      rcases hcase with ⟨_, hnone, _⟩ | ⟨_, hfin, hlo', hwin, hold, _, _⟩
      · rw [hnone] at hf; cases hf
      · refine ⟨fin, w, lo, by rw [ofin, hfin, hf], ?_, by rw [olo, hlo', hlo], rest⟩
        rw [owin, hwin]
        rcases hold with hold | hold
        · rw [hold] at hw; cases hw
        · rw [← hold, hw]
    · rw [he2] at he; cases he
      exact ⟨fin, w, lo, by rw [ofin, hf], by rw [owin, hw], by rw [olo, hlo], hpos, hal, h1, h2, rfl⟩
  · -- wmin
    intro w hw
    rw [owin] at hw
    rcases hcase with ⟨_, _, _, _, hwin⟩ | ⟨_, _, _, hwin, _, hmin, _⟩
    · rw [hwin] at hw; exact h.wmin hidle w hw
    · rw [hwin] at hw; cases hw; exact hmin
  · -- finmax
    intro fin hf
    rw [ofin] at hf
    rcases hcase with ⟨_, _, hfin, _⟩ | ⟨_, hfin, _⟩
    · rw [hfin] at hf; cases hf; exact hb
    · rw [hfin] at hf; exact h.finmax hidle fin hf
  · -- finwit
    intro fin hf
    rw [ofin] at hf
    rcases hcase with ⟨hi, _, hfin, _⟩ | ⟨_, hfin, _⟩
    · rw [hfin] at hf; cases hf
      refine ⟨f, List.mem_cons_self, by rw [oso, hso, hs], ?_, rfl⟩
      exact classify_last hc hi
    · rw [hfin] at hf
      obtain ⟨g, hg, h1g, rest⟩ := h.finwit hidle fin hf
      exact ⟨g, List.mem_cons_of_mem _ hg, by rw [oso, hso, h1g], rest⟩
  · -- lole
    intro fin lo hf hl
    rw [ofin] at hf; rw [olo] at hl
    rcases hcase with ⟨_, _, hfin, hlo, _⟩ | ⟨_, hfin, hlo', _⟩
    · rw [hfin] at hf; rw [hlo] at hl; cases hf; cases hl; omega
    · rw [hfin] at hf; rw [hlo'] at hl; exact h.lole hidle fin lo hf hl
  · -- cur
    rcases hcase with ⟨hi, _, hfin, hlo, _⟩ | ⟨hi, _, _, hwin, _, _, hoff⟩
    · exact Or.inl ⟨hi, by rw [ofin, hfin], by rw [olo, hlo]⟩
    · exact Or.inr ⟨hi, by rw [owin, hwin], hoff⟩

/-- one `ingest_frame` call preserves the queue invariant, and an emitted packet consists of bytes
    received (so far, including this frame) in frames of that packet -/
theorem ingest_inv {hist : List (Frame α)} {q : Queue α} (f : Frame α) (h : QInv hist q)
    (hs : f.hdr.streamOff = q.streamOff) :
    QInv (f :: hist) (q.ingest f).1 ∧
    (∀ s p, (q.ingest f).2 = .packet s p →
      (∀ pos a, p[pos]? = some a → Good (f :: hist) s pos a) ∧
      ∃ g ∈ f :: hist, g.hdr.streamOff = s ∧ g.hdr.isLast = true ∧ g.hdr.frameOff + g.payload.length = p.length) := by
  unfold Queue.ingest
  split
  · exact ⟨h.mono f, by simp⟩
  rename_i hidle
  have hidle : q.idle = false := by simpa using hidle
  split
  · exact ⟨QInv.idle h.len rfl, by simp⟩
  rename_i hb
  have hb : f.hdr.frameOff + f.payload.length ≤ MAX_PACKET_SIZE := by omega
  split
  · rename_i q' e hc
    rcases classify_err hc with rfl | ⟨hi, hbuf⟩
    · exact ⟨h.mono f, by simp⟩
    · exact ⟨QInv.idle (hbuf ▸ h.len) hi, by simp⟩
  · rename_i q1 idx hc
    obtain ⟨hbuf, hrecv, hso, hid, hexp, hcase⟩ := classify_ok hb hc
    split
    · exact ⟨QInv.idle (hbuf ▸ h.len) rfl, by simp⟩
    · rename_i q2 ho
      exact PreFin.finish_inv (preFin_of_inv h hs hidle hb hc ho)

/-! ### no panic site of `ingest_frame` fires in a state that satisfies the invariant -/

theorem classifySafe_true (q : Queue α) (f : Frame α) : q.classifySafe f = true := by
  unfold Queue.classifySafe
  simp only []
  have hmin : 0 < MIN_PAYLOAD_SIZE := by decide
  repeat' split
  all_goals first
    | rfl
    | (simp only [decide_eq_true_eq]; omega)

/-- the frame count derived from an aligned last frame is between 1 and `MAX_FRAMES` -/
theorem expected_range {fin w lo : Nat} (hw : MIN_PAYLOAD_SIZE ≤ w) (hfin : fin ≤ MAX_PACKET_SIZE) (h1 : lo < fin) :
    1 ≤ (fin + w - 1) / w ∧ (fin + w - 1) / w - 1 ≤ BITMASK_ENTRY_BITS * BITMASK_ENTRY_COUNT := by
  have hm : MIN_PAYLOAD_SIZE = 256 := by decide
  have hx : MAX_PACKET_SIZE = 65535 := by decide
  have hb : BITMASK_ENTRY_BITS * BITMASK_ENTRY_COUNT = 256 := by decide
  have hwpos : 0 < w := by omega
  refine ⟨(Nat.le_div_iff_mul_le hwpos).mpr (by omega), ?_⟩
  rw [hb]
  have : (fin + w - 1) / w < 257 := by
    apply Nat.div_lt_of_lt_mul
    have : 256 * w ≥ 256 * 256 := Nat.mul_le_mul_left _ (by omega)
    omega
  omega

theorem PreFin.finishSafe {hist : List (Frame α)} {q : Queue α} {f : Frame α} {idx : Nat}
    (h : PreFin hist q f idx) : q.finishSafe f idx = true := by
  have hbuf : f.hdr.frameOff + f.payload.length ≤ q.buf.length := by rw [h.len]; exact h.bound
  have hmax : MAX_PACKET_SIZE < 65536 := by decide
  have hidx : idx / BITMASK_ENTRY_BITS < BITMASK_ENTRY_COUNT := by
    have hl : LASTBIT = 255 := by decide
    have hb : BITMASK_ENTRY_BITS = 128 := by decide
    have hc : BITMASK_ENTRY_COUNT = 2 := by decide
    have : idx ≤ 255 := by rcases h.cur with ⟨h1, _⟩ | ⟨h1, _⟩ <;> omega
    rw [hb, hc]; omega
  have hu16 : f.hdr.frameOff + f.payload.length % 65536 < 65536 := by
    have := h.bound
    rw [Nat.mod_eq_of_lt (by omega)]; omega
  unfold Queue.finishSafe
  simp only [hidx, decide_true, Bool.true_and]
  split
  · rfl
  · simp only [hbuf, hu16, decide_true, Bool.true_and]
    split
    · rename_i e he
      split
      · obtain ⟨fin, w, lo, hf, hw, hlo, hwpos, hal, h1, h2, rfl⟩ := h.exp e he
        obtain ⟨e1, e2⟩ := expected_range (h.wmin w hw) (h.finmax fin hf) h1
        simp only [e1, e2, decide_true, Bool.true_and]
        split
        · rfl
        · rw [writeAt_length _ _ _ hbuf, hf, h.len]
          simpa using h.finmax fin hf
      · rfl
    · rfl

theorem oneTimeSafe_of {q1 : Queue α}
    (hl : ∀ fin lo, q1.finalSize = some fin → q1.lastOff = some lo → lo ≤ fin) : oneTimeSafe q1 = true := by
  unfold oneTimeSafe
  split
  · rename_i fin w lo hf hw hlo he
    split
    · rfl
    · have := hl fin lo hf hlo
      simp only [this, decide_true, Bool.true_and]
      split
      · rfl
      · rename_i hc
        simp only [Bool.or_eq_true, beq_iff_eq, decide_eq_true_eq, not_or] at hc
        simp only [decide_eq_true_eq]; omega
  · rfl

/-- **no panic site of `ingest_frame` fires** on a queue that satisfies the invariant, whatever the frame -/
theorem ingestSafe_of_inv {hist : List (Frame α)} {q : Queue α} (f : Frame α) (h : QInv hist q)
    (hs : f.hdr.streamOff = q.streamOff) : q.ingestSafe f = true := by
  unfold Queue.ingestSafe
  split
  · rfl
  rename_i hidle
  have hidle : q.idle = false := by simpa using hidle
  split
  · rfl
  rename_i hb
  have hb : f.hdr.frameOff + f.payload.length ≤ MAX_PACKET_SIZE := by omega
  simp only [classifySafe_true, Bool.true_and]
  split
  · rfl
  · rename_i q1 idx hc
    obtain ⟨hbuf, hrecv, hso, hid, hexp, hcase⟩ := classify_ok hb hc
    have hl1 : ∀ fin lo, q1.finalSize = some fin → q1.lastOff = some lo → lo ≤ fin := by
      intro fin lo hf hl
      rcases hcase with ⟨_, _, hfin, hlo, _⟩ | ⟨_, hfin, hlo', _⟩
      · rw [hfin] at hf; rw [hlo] at hl; cases hf; cases hl; omega
      · rw [hfin] at hf; rw [hlo'] at hl; exact h.lole hidle fin lo hf hl
    simp only [oneTimeSafe_of hl1, Bool.true_and]
    split
    · rfl
    · rename_i q2 ho
      exact (preFin_of_inv h hs hidle hb hc ho).finishSafe

theorem ingestP_of_inv {hist : List (Frame α)} {q : Queue α} (f : Frame α) (h : QInv hist q)
    (hs : f.hdr.streamOff = q.streamOff) : q.ingestP f = some (q.ingest f) := by
  simp [Queue.ingestP, ingestSafe_of_inv f h hs]

theorem ingestP_eq {q : Queue α} {f : Frame α} {r : Queue α × Out α} (h : q.ingestP f = some r) :
    r = q.ingest f := by
  unfold Queue.ingestP at h
  split at h
  · exact (Option.some.inj h).symm
  · simp at h

/-! ### the defragmenter (all queues) -/

def DInv (hist : List (Frame α)) (d : Defrag α) : Prop := ∀ q ∈ d.queues, QInv hist q

theorem DInv.new (z : α) (n : Nat) : DInv ([] : List (Frame α)) (Defrag.new z n) := by
  intro q hq
  simp only [Defrag.new, List.mem_replicate] at hq
  rw [hq.2]; exact QInv.new z []

theorem DInv.mono {hist : List (Frame α)} {d : Defrag α} (f : Frame α) (h : DInv hist d) :
    DInv (f :: hist) d := fun q hq => (h q hq).mono f

theorem scan_inl {s : Nat} {qs : List (Queue α)} {i0 i : Nat} {sc : Scan}
    (h : scanQueues s qs i0 sc = .inl i) :
    i0 ≤ i ∧ ∃ q, qs[i - i0]? = some q ∧ q.streamOff = s := by
  induction qs generalizing i0 sc with
  | nil => simp [scanQueues] at h
  | cons q qs ih =>
    unfold scanQueues at h
    split at h
    · rename_i hq
      simp only [Sum.inl.injEq] at h
      subst h
      exact ⟨Nat.le_refl _, q, by simp, by have := hq; simp at this; exact this.2⟩
    · obtain ⟨h1, q', hq', hs⟩ := ih h
      refine ⟨by omega, q', ?_, hs⟩
      have : i - i0 = (i - (i0 + 1)) + 1 := by omega
      rw [this]; simpa using hq'

theorem DInv.set {hist : List (Frame α)} {d : Defrag α} {i : Nat} {q' : Queue α}
    (h : DInv hist d) (hq : QInv hist q') : DInv hist { queues := d.queues.set i q' } := by
  intro q hm
  rcases List.mem_or_eq_of_mem_set hm with h1 | h1
  · exact h q h1
  · exact h1 ▸ hq

/-- one `recv` call: the invariant is preserved and an emitted packet is made of bytes of its own frames -/
theorem recvFrame_inv {hist : List (Frame α)} {d d' : Defrag α} {f : Frame α} {o : Out α}
    (h : DInv hist d) (hr : d.recvFrame f = some (d', o)) :
    DInv (f :: hist) d' ∧
    (∀ s p, o = .packet s p →
      (∀ pos a, p[pos]? = some a → Good (f :: hist) s pos a) ∧
      ∃ g ∈ f :: hist, g.hdr.streamOff = s ∧ g.hdr.isLast = true ∧ g.hdr.frameOff + g.payload.length = p.length) := by
  unfold Defrag.recvFrame at hr
  split at hr
  · -- single-frame fast path
    rename_i hfast
    simp only [Option.some.injEq, Prod.mk.injEq] at hr
    obtain ⟨rfl, rfl⟩ := hr
    refine ⟨h.mono f, ?_⟩
    intro s p hp
    simp only [Out.packet.injEq] at hp
    obtain ⟨rfl, rfl⟩ := hp
    have hoff : f.hdr.frameOff = 0 := by simp at hfast; exact hfast.2
    have hl : f.hdr.isLast = true := by simp at hfast; exact hfast.1
    refine ⟨?_, f, List.mem_cons_self, rfl, hl, by omega⟩
    intro pos a ha
    exact ⟨f, List.mem_cons_self, rfl, by omega, by simpa [hoff] using ha⟩
  · split at hr
    · simp only [Option.some.injEq, Prod.mk.injEq] at hr
      obtain ⟨rfl, rfl⟩ := hr
      exact ⟨h.mono f, by simp⟩
    · simp at hr
    · -- existing queue
      rename_i i hsel
      split at hr
      · rename_i q hq
        split at hr
        rotate_left
        · simp at hr
        rename_i q' o' hing
        have hing := ingestP_eq hing
        simp only [Option.some.injEq, Prod.mk.injEq] at hr
        obtain ⟨rfl, rfl⟩ := hr
        have hq'e : q' = (q.ingest f).1 := by rw [← hing]
        have ho'e : o' = (q.ingest f).2 := by rw [← hing]
        subst hq'e ho'e
        have hso : f.hdr.streamOff = q.streamOff := by
          unfold selectQueue at hsel
          split at hsel
          · rename_i j hscan
            simp only [Sel.existing.injEq] at hsel
            subst hsel
            obtain ⟨_, q', hq', hs⟩ := scan_inl hscan
            simp only [Nat.sub_zero] at hq'
            rw [hq] at hq'; cases hq'; exact hs.symm
          · split at hsel
            · simp at hsel
            · split at hsel
              · simp at hsel
              · split at hsel <;> (simp only [] at hsel; split at hsel <;> simp at hsel)
        have hqi := ingest_inv f (h q (List.mem_of_getElem? hq)) hso
        exact ⟨(h.mono f).set hqi.1, hqi.2⟩
      · simp at hr
    · -- idle or evicted queue, re-initialised for this packet
      rename_i i hsel
      split at hr
      · rename_i q hq
        split at hr
        rotate_left
        · simp at hr
        rename_i q' o' hing
        have hing := ingestP_eq hing
        simp only [Option.some.injEq, Prod.mk.injEq] at hr
        obtain ⟨rfl, rfl⟩ := hr
        have hq'e : q' = ((q.init f).ingest f).1 := by rw [← hing]
        have ho'e : o' = ((q.init f).ingest f).2 := by rw [← hing]
        subst hq'e ho'e
        have hqi := ingest_inv f ((h q (List.mem_of_getElem? hq)).init f) (by simp [Queue.init])
        exact ⟨(h.mono f).set hqi.1, hqi.2⟩
      · simp at hr

/-- feeding a whole frame sequence; `none` = the Rust code would panic -/
def Defrag.run (d : Defrag α) : List (Frame α) → Option (Defrag α × List (Out α))
  | [] => some (d, [])
  | f :: fs =>
    match d.recvFrame f with
    | none => none
    | some (d', o) =>
      match d'.run fs with
      | none => none
      | some (d'', os) => some (d'', o :: os)

theorem run_inv {hist : List (Frame α)} {d d' : Defrag α} {fs : List (Frame α)} {os : List (Out α)}
    (h : DInv hist d) (hr : d.run fs = some (d', os)) :
    os.length = fs.length ∧
    ∀ i s p, os[i]? = some (.packet s p) →
      (∀ pos a, p[pos]? = some a → ∃ f, (f ∈ fs.take (i + 1) ∨ f ∈ hist) ∧ f.carries s pos a) ∧
      ∃ g, (g ∈ fs.take (i + 1) ∨ g ∈ hist) ∧ g.hdr.streamOff = s ∧ g.hdr.isLast = true ∧
        g.hdr.frameOff + g.payload.length = p.length := by
  induction fs generalizing hist d os with
  | nil =>
    simp only [Defrag.run, Option.some.injEq, Prod.mk.injEq] at hr
    obtain ⟨_, rfl⟩ := hr
    simp
  | cons f fs ih =>
    unfold Defrag.run at hr
    split at hr
    · simp at hr
    · rename_i d1 o h1
      split at hr
      · simp at hr
      · rename_i d2 os2 h2
        simp only [Option.some.injEq, Prod.mk.injEq] at hr
        obtain ⟨rfl, rfl⟩ := hr
        obtain ⟨hinv, hemit⟩ := recvFrame_inv h h1
        obtain ⟨hlen, hrest⟩ := ih hinv h2
        refine ⟨by simp [hlen], ?_⟩
        intro i s p hi
        have lift0 : ∀ g, g ∈ f :: hist → (g ∈ (f :: fs).take (0 + 1) ∨ g ∈ hist) := by
          intro g hg
          rcases List.mem_cons.mp hg with rfl | hg
          · exact Or.inl (by simp)
          · exact Or.inr hg
        have liftS : ∀ i g, (g ∈ fs.take (i + 1) ∨ g ∈ f :: hist) →
            (g ∈ (f :: fs).take (i + 1 + 1) ∨ g ∈ hist) := by
          intro i g hg
          rcases hg with hg | hg
          · exact Or.inl (by simp [List.take_succ_cons, hg])
          · rcases List.mem_cons.mp hg with rfl | hg
            · exact Or.inl (by simp)
            · exact Or.inr hg
        cases i with
        | zero =>
          simp only [List.getElem?_cons_zero, Option.some.injEq] at hi
          obtain ⟨hbytes, g, hg, hrest'⟩ := hemit s p hi
          refine ⟨?_, g, lift0 g hg, hrest'⟩
          intro pos a ha
          obtain ⟨g, hg, hc⟩ := hbytes pos a ha
          exact ⟨g, lift0 g hg, hc⟩
        | succ i =>
          simp only [List.getElem?_cons_succ] at hi
          obtain ⟨hbytes, g, hg, hrest'⟩ := hrest i s p hi
          refine ⟨?_, g, liftS i g hg, hrest'⟩
          intro pos a ha
          obtain ⟨g, hg, hc⟩ := hbytes pos a ha
          exact ⟨g, liftS i g hg, hc⟩


/-! ### totality: the indices computed by `select_queue` are in range -/

theorem scanStep_idx (q : Queue α) (i : Nat) (sc : Scan) :
    (∀ e, (scanStep q i sc).idleIdx = some e → sc.idleIdx = some e ∨ e = i) ∧
    ((scanStep q i sc).lowestIdx = sc.lowestIdx ∨ (scanStep q i sc).lowestIdx = i) := by
  unfold scanStep
  simp only []
  constructor
  · intro e he
    split at he <;> (simp only [] at he; split at he)
    all_goals first
      | (left; exact he)
      | (right; simp only [Option.some.injEq] at he; exact he.symm)
  · split <;> simp

theorem scan_inr {s : Nat} {qs : List (Queue α)} {i0 : Nat} {sc sc' : Scan}
    (h : scanQueues s qs i0 sc = .inr sc') :
    (∀ e, sc'.idleIdx = some e → sc.idleIdx = some e ∨ (i0 ≤ e ∧ e < i0 + qs.length)) ∧
    (sc'.lowestIdx = sc.lowestIdx ∨ (i0 ≤ sc'.lowestIdx ∧ sc'.lowestIdx < i0 + qs.length)) := by
  induction qs generalizing i0 sc with
  | nil =>
    simp only [scanQueues, Sum.inr.injEq] at h
    subst h
    exact ⟨fun e he => Or.inl he, Or.inl rfl⟩
  | cons q qs ih =>
    unfold scanQueues at h
    split at h
    · simp at h
    · obtain ⟨h1, h2⟩ := ih h
      obtain ⟨s1, s2⟩ := scanStep_idx q i0 sc
      simp only [List.length_cons]
      constructor
      · intro e he
        rcases h1 e he with h1 | h1
        · rcases s1 e h1 with h | h
          · exact Or.inl h
          · right; omega
        · right; omega
      · rcases h2 with h2 | h2
        · rcases s2 with h | h
          · left; rw [h2, h]
          · right; omega
        · right; omega

theorem selectQueue_ne_panic (d : Defrag α) (f : Frame α) : selectQueue d f ≠ .panic := by
  unfold selectQueue
  split
  · simp
  · rename_i sc hscan
    obtain ⟨h1, h2⟩ := scan_inr hscan
    split
    · simp
    · rename_i hne
      have hpos : 0 < d.queues.length := by
        cases hq : d.queues with
        | nil => simp [hq] at hne
        | cons => simp
      split
      · simp
      · simp only []
        split
        · rename_i e he
          have : e < d.queues.length := by
            rcases h1 e he with h | h
            · simp at h
            · omega
          simp [this]
        · have : sc.lowestIdx < d.queues.length := by
            rcases h2 with h | h
            · simp only [h]; exact hpos
            · omega
          simp [this]

/-- `select_queue` returning an existing queue: the index is in range and that queue carries the frame's
    stream offset -/
theorem selectQueue_existing {d : Defrag α} {f : Frame α} {i : Nat} (hsel : selectQueue d f = .existing i) :
    ∃ q, d.queues[i]? = some q ∧ q.streamOff = f.hdr.streamOff := by
  unfold selectQueue at hsel
  split at hsel
  · rename_i j hscan
    simp only [Sel.existing.injEq] at hsel
    subst hsel
    obtain ⟨_, q, hq, hs⟩ := scan_inl hscan
    simp only [Nat.sub_zero] at hq
    exact ⟨q, hq, hs⟩
  · split at hsel
    · simp at hsel
    · split at hsel
      · simp at hsel
      · split at hsel <;> (simp only [] at hsel; split at hsel <;> simp at hsel)

theorem selectQueue_fresh_lt {d : Defrag α} {f : Frame α} {i : Nat} (hsel : selectQueue d f = .fresh i) :
    i < d.queues.length := by
  unfold selectQueue at hsel
  split at hsel
  · simp at hsel
  · split at hsel
    · simp at hsel
    · split at hsel
      · simp at hsel
      · split at hsel <;> (simp only [] at hsel; split at hsel <;> simp at hsel <;> omega)

/-- **one `recv` call does not panic** in a state that satisfies the invariant: the index computed by
    `select_queue` is in range and no panic site of `ingest_frame` fires -/
theorem recvFrame_isSome {hist : List (Frame α)} {d : Defrag α} (hinv : DInv hist d) (f : Frame α) :
    (d.recvFrame f).isSome = true := by
  unfold Defrag.recvFrame
  split
  · rfl
  · split
    · rfl
    · rename_i h; exact absurd h (selectQueue_ne_panic d f)
    · rename_i i hsel
      obtain ⟨q, hq, hs⟩ := selectQueue_existing hsel
      simp only [hq]
      rw [ingestP_of_inv f (hinv q (List.mem_of_getElem? hq)) hs.symm]
      rfl
    · rename_i i hsel
      have hi := selectQueue_fresh_lt hsel
      simp only [List.getElem?_eq_getElem hi]
      rw [ingestP_of_inv f ((hinv _ (List.getElem_mem hi)).init f) (by simp [Queue.init])]
      rfl

theorem recvFrame_queues_length {d d' : Defrag α} {f : Frame α} {o : Out α}
    (hr : d.recvFrame f = some (d', o)) : d'.queues.length = d.queues.length := by
  unfold Defrag.recvFrame at hr
  repeat' split at hr
  all_goals first
    | (simp only [Option.some.injEq, Prod.mk.injEq] at hr; obtain ⟨rfl, _⟩ := hr; simp)
    | (simp at hr; done)

end ScionVerif.Frag
