import ScionVerif.Model.ScmpSubscribers
/-! Helper lemmas for the receiver list of `ScmpErrorHandler` (C14). Property theorems live in `Theorems/C14.lean`. -/
namespace ScionVerif.Scmp

/-- invariant of the receiver list: no identity is stored twice, every live receiver is stored, identities are older
    than the next fresh one -/
structure SubsInv (w : SubsState) : Prop where
  atMostOnce : ∀ i, w.slots.count i ≤ 1
  liveStored : ∀ i, i ∈ w.alive → w.slots.count i = 1
  slotsOld : ∀ i, i ∈ w.slots → i < w.next
  aliveOld : ∀ i, i ∈ w.alive → i < w.next

theorem subsInv_init : SubsInv {} :=
  ⟨by intro i; simp, by intro i h; simp at h, by intro i h; simp at h, by intro i h; simp at h⟩

theorem live_iff (w : SubsState) (i : Nat) : w.live i = true ↔ i ∈ w.alive := by
  simp [SubsState.live]

theorem count_filter_live (p : Nat → Bool) (l : List Nat) (i : Nat) :
    (l.filter p).count i = if p i then l.count i else 0 := by
  by_cases h : p i = true
  · simp [h, List.count_filter h]
  · have : i ∉ l.filter p := by
      intro hm
      exact h (List.mem_filter.mp hm).2
    simp [h, List.count_eq_zero.mpr this]

theorem subsInv_step (w : SubsState) (op : SubsOp) (h : SubsInv w) : SubsInv (subsStep w op).1 := by
  cases op with
  | error => exact h
  | drop id =>
    refine ⟨h.atMostOnce, ?_, h.slotsOld, ?_⟩
    · intro i hi
      exact h.liveStored i (List.mem_filter.mp hi).1
    · intro i hi
      exact h.aliveOld i (List.mem_filter.mp hi).1
  | register =>
    have hfresh : w.slots.count w.next = 0 :=
      List.count_eq_zero.mpr (fun hm => Nat.lt_irrefl _ (h.slotsOld _ hm))
    have hcount : ∀ i, (Slots.register w.live w.slots w.next).count i
        = (if w.live i then w.slots.count i else 0) + (if w.next = i then 1 else 0) := by
      intro i
      simp only [Slots.register, List.count_append, count_filter_live, List.count_singleton, beq_iff_eq]
    refine ⟨?_, ?_, ?_, ?_⟩
    · intro i
      show (Slots.register w.live w.slots w.next).count i ≤ 1
      rw [hcount]
      by_cases hn : w.next = i
      · subst hn
        simp [hfresh]
      · have := h.atMostOnce i
        simp only [hn, if_false, Nat.add_zero]
        split <;> omega
    · intro i hi
      show (Slots.register w.live w.slots w.next).count i = 1
      rw [hcount]
      have hi' : i = w.next ∨ i ∈ w.alive := by simpa [subsStep] using hi
      by_cases hn : w.next = i
      · subst hn
        simp [hfresh]
      · have hal : i ∈ w.alive := by
          cases hi' with
          | inl e => exact absurd e.symm hn
          | inr m => exact m
        have := h.liveStored i hal
        simp [hn, (live_iff w i).mpr hal, this]
    · intro i hi
      have hi' : i ∈ Slots.register w.live w.slots w.next := hi
      simp only [Slots.register, List.mem_append, List.mem_filter, List.mem_singleton] at hi'
      show i < w.next + 1
      cases hi' with
      | inl m => exact Nat.lt_succ_of_lt (h.slotsOld i m.1)
      | inr e => omega
    · intro i hi
      have hi' : i = w.next ∨ i ∈ w.alive := by simpa [subsStep] using hi
      show i < w.next + 1
      cases hi' with
      | inl e => omega
      | inr m => exact Nat.lt_succ_of_lt (h.aliveOld i m)

theorem subsInv_reach (w : SubsState) (ops : List SubsOp) (h : SubsInv w) : SubsInv (subsReach w ops) := by
  induction ops generalizing w with
  | nil => exact h
  | cons op ops ih => exact ih _ (subsInv_step w op h)

theorem notified_count (w : SubsState) (h : SubsInv w) (i : Nat) :
    w.notified.count i = if i ∈ w.alive then 1 else 0 := by
  simp only [SubsState.notified, Slots.forEach, count_filter_live]
  by_cases hal : i ∈ w.alive
  · simp [(live_iff w i).mpr hal, hal, h.liveStored i hal]
  · have : ¬ w.live i = true := fun hl => hal ((live_iff w i).mp hl)
    simp [this, hal]

theorem subsReach_append (w : SubsState) (a b : List SubsOp) : subsReach w (a ++ b) = subsReach (subsReach w a) b := by
  induction a generalizing w with
  | nil => rfl
  | cons op a ih => exact ih _

theorem next_mono (w : SubsState) (ops : List SubsOp) : w.next ≤ (subsReach w ops).next := by
  induction ops generalizing w with
  | nil => exact Nat.le_refl _
  | cons op ops ih =>
    refine Nat.le_trans ?_ (ih _)
    cases op <;> simp [subsStep]

/-- a receiver that is not alive and whose identity has already been handed out never becomes alive again -/
theorem stays_dead (w : SubsState) (ops : List SubsOp) (i : Nat) (hd : i ∉ w.alive) (ho : i < w.next) :
    i ∉ (subsReach w ops).alive := by
  induction ops generalizing w with
  | nil => exact hd
  | cons op ops ih =>
    apply ih
    · cases op with
      | error => exact hd
      | drop id => exact fun hm => hd (List.mem_filter.mp hm).1
      | register =>
        intro hm
        have : i = w.next ∨ i ∈ w.alive := by simpa [subsStep] using hm
        cases this with
        | inl e => omega
        | inr m => exact hd m
    · cases op <;> simp [subsStep] <;> omega

/-- a live receiver stays alive as long as its owner does not drop it -/
theorem stays_alive (w : SubsState) (ops : List SubsOp) (i : Nat) (ha : i ∈ w.alive) (hn : SubsOp.drop i ∉ ops) :
    i ∈ (subsReach w ops).alive := by
  induction ops generalizing w with
  | nil => exact ha
  | cons op ops ih =>
    apply ih
    · cases op with
      | error => exact ha
      | register => simp [subsStep, ha]
      | drop id =>
        have hne : i ≠ id := by
          intro e
          subst e
          exact hn (List.mem_cons_self ..)
        simp [subsStep, ha, hne]
    · exact fun hm => hn (List.mem_cons_of_mem _ hm)

end ScionVerif.Scmp
