import ScionVerif.Model.Combinator
/-!
Helper lemmas for the path-combinator model (C19, C04).  Property theorems live in
`Theorems/C19.lean` and `Theorems/C04.lean`.
-/
namespace ScionVerif.Comb
open ScionVerif.Generated.Comb

deriving instance DecidableEq for Except

/-! ## 1. the graph: every edge refers to a valid position of its own segment -/

/-- what the `expect`s of `PathSolution::path` rely on -/
structure EdgeOk (s : Seg) (e : Edge) : Prop where
  sc_lt : e.shortcut < s.len
  peer_ok : ∀ pi, e.peer = some pi → ∃ a, s.entries[e.shortcut]? = some a ∧ pi < a.peers.length

theorem lastWins_subset (l : List Ins) : ∀ x ∈ lastWins l, x ∈ l := by
  induction l with
  | nil => simp [lastWins]
  | cons a as ih =>
    intro x hx
    unfold lastWins at hx
    split at hx
    · exact List.mem_cons_of_mem _ (ih x hx)
    · rcases List.mem_cons.mp hx with h | h
      · exact h ▸ List.mem_cons_self
      · exact List.mem_cons_of_mem _ (ih x h)

theorem lastWins_length_le (l : List Ins) : (lastWins l).length ≤ l.length := by
  induction l with
  | nil => simp [lastWins]
  | cons a as ih =>
    unfold lastWins
    split
    · simp; omega
    · simp; omega

theorem firstIa_some {s : Seg} {f : Nat} (h : s.firstIa = some f) : 0 < s.len := by
  unfold Seg.firstIa at h
  unfold Seg.len
  cases hE : s.entries with
  | nil => simp [hE] at h
  | cons a as => simp

theorem lastIa_some {s : Seg} {f : Nat} (h : s.lastIa = some f) : 0 < s.len := by
  unfold Seg.lastIa at h
  unfold Seg.len
  cases hE : s.entries with
  | nil => simp [hE] at h
  | cons a as => simp

theorem lastIa_isSome_of_pos {s : Seg} (h : 0 < s.len) : ∃ l, s.lastIa = some l := by
  unfold Seg.lastIa Seg.len at *
  cases hE : s.entries.getLast? with
  | none => rw [List.getLast?_eq_none_iff] at hE; simp [hE] at h
  | some a => exact ⟨a.ia, by simp⟩

theorem coreInserts_ok (s : Seg) : ∀ i ∈ coreInserts s, EdgeOk s i.2.2 := by
  intro i hi
  unfold coreInserts at hi
  split at hi
  · rename_i f l hf hl
    have hpos := firstIa_some hf
    simp at hi
    rcases hi with h | h <;> subst h <;> exact ⟨hpos, by simp⟩
  · simp at hi

theorem entryInserts_ok (s : Seg) (leaf : Nat) (x : AsE × Nat) (hx : x ∈ s.entries.zipIdx) :
    ∀ i ∈ entryInserts s leaf x, EdgeOk s i.2.2 := by
  have hget : s.entries[x.2]? = some x.1 := List.mem_zipIdx_iff_getElem?.mp hx
  have hlt : x.2 < s.len := by
    unfold Seg.len
    exact (List.getElem?_eq_some_iff.mp hget).1
  intro i hi
  unfold entryInserts at hi
  rcases List.mem_append.mp hi with h | h
  · split at h
    · simp at h
      rcases h with h | h <;> subst h <;> exact ⟨hlt, by simp⟩
    · simp at h
  · rcases List.mem_flatMap.mp h with ⟨p, hp, hi'⟩
    have hpl : p.2 < x.1.peers.length := by
      have := List.mem_zipIdx_iff_getElem?.mp hp
      exact (List.getElem?_eq_some_iff.mp this).1
    simp at hi'
    rcases hi' with h | h <;> subst h
    · exact ⟨hlt, by intro pi hpi; simp at hpi; subst hpi; exact ⟨x.1, hget, hpl⟩⟩
    · exact ⟨hlt, by intro pi hpi; simp at hpi; subst hpi; exact ⟨x.1, hget, hpl⟩⟩

theorem nonCoreInserts_ok (s : Seg) : ∀ i ∈ nonCoreInserts s, EdgeOk s i.2.2 := by
  intro i hi
  unfold nonCoreInserts at hi
  split at hi
  · simp at hi
  · rename_i leaf _
    rcases List.mem_flatMap.mp hi with ⟨x, hx, hi'⟩
    exact entryInserts_ok s leaf x (List.mem_reverse.mp hx) i hi'

theorem inserts_ok (s : InSeg) : ∀ i ∈ inserts s, EdgeOk s.seg i.2.2 := by
  intro i hi
  unfold inserts at hi
  split at hi
  · exact coreInserts_ok _ i hi
  · exact nonCoreInserts_ok _ i hi

theorem mem_segEdges {s : InSeg} {e : GEdge} (h : e ∈ segEdges s) :
    e.seg = s ∧ (e.src, e.dst, e.edge) ∈ inserts s := by
  unfold segEdges at h
  rcases List.mem_map.mp h with ⟨i, hi, rfl⟩
  exact ⟨rfl, lastWins_subset _ _ hi⟩

theorem mem_graphOf {segs : List InSeg} {e : GEdge} (h : e ∈ graphOf segs) :
    e.seg ∈ segs ∧ e ∈ segEdges e.seg := by
  unfold graphOf at h
  rcases List.mem_flatMap.mp h with ⟨s, hs, he⟩
  have := (mem_segEdges he).1
  subst this
  exact ⟨List.mem_eraseDups.mp hs, he⟩

theorem graphOf_edgeOk {segs : List InSeg} {e : GEdge} (h : e ∈ graphOf segs) :
    EdgeOk e.seg.seg e.edge :=
  inserts_ok e.seg _ (mem_segEdges (mem_graphOf h).2).2

/-- the `u64` subtraction of `number_of_hops` never underflows -/
theorem weightsOk_all (s : InSeg) : weightsOk s = true := by
  unfold weightsOk
  split
  · cases hf : s.seg.firstIa with
    | none => simp
    | some f => simp; right; exact firstIa_some hf
  · cases hl : s.seg.lastIa with
    | none => simp
    | some l =>
      simp
      intro a i hx
      have := List.mem_zipIdx_iff_getElem?.mp hx
      have := (List.getElem?_eq_some_iff.mp this).1
      unfold Seg.len
      simp at this
      omega

/-! ## 2. the search: candidates use graph edges, at most `MAX_SEGMENTS` of them -/

theorem validNext_len {es : List GEdge} {n : GEdge} (h : validNext es n = true) : es.length ≤ 2 := by
  unfold validNext at h
  split at h <;> simp_all

theorem mem_extend {g : List GEdge} {s t : Sol} (h : t ∈ extend g s) :
    ∃ e ∈ g, e.src = s.cur ∧ validNext s.edges e = true ∧
      t = ⟨s.edges ++ [e], e.dst, s.cost + e.edge.weight⟩ := by
  unfold extend at h
  rcases List.mem_filterMap.mp h with ⟨e, he, hf⟩
  split at hf
  · rename_i hc
    simp at hf
    exact ⟨e, he, hc.1, hc.2, hf.symm⟩
  · simp at hf

/-- invariant of every solution the search ever holds -/
structure SolOk (g : List GEdge) (s : Sol) : Prop where
  edges_mem : ∀ e ∈ s.edges, e ∈ g
  len_le : s.edges.length ≤ MAX_SEGMENTS

theorem extend_solOk {g : List GEdge} {s t : Sol} (hs : SolOk g s) (h : t ∈ extend g s) : SolOk g t := by
  rcases mem_extend h with ⟨e, he, _, hv, rfl⟩
  constructor
  · intro x hx
    rcases List.mem_append.mp hx with h | h
    · exact hs.edges_mem x h
    · simp at h; subst h; exact he
  · have := validNext_len hv
    simp [MAX_SEGMENTS]; omega

theorem bfs_solOk (g : List GEdge) (dst : Nat) : ∀ (fuel : Nat) (fr : List Sol),
    (∀ s ∈ fr, SolOk g s) → ∀ t ∈ bfs g dst fuel fr, SolOk g t := by
  intro fuel
  induction fuel with
  | zero => intro fr _ t ht; simp [bfs] at ht
  | succ n ih =>
    intro fr hfr t ht
    simp only [bfs] at ht
    have hnew : ∀ s ∈ fr.flatMap (extend g), SolOk g s := by
      intro s hs
      rcases List.mem_flatMap.mp hs with ⟨p, hp, hsp⟩
      exact extend_solOk (hfr p hp) hsp
    rcases List.mem_append.mp ht with h | h
    · exact hnew t (List.mem_filter.mp h).1
    · exact ih _ (fun s hs => hnew s (List.mem_filter.mp hs).1) t h

theorem candidates_solOk (g : List GEdge) (src dst : Nat) : ∀ t ∈ candidates g src dst, SolOk g t := by
  apply bfs_solOk
  intro s hs
  simp at hs
  subst hs
  exact ⟨by simp [Sol.new], by simp [Sol.new]⟩

/-! ## 3. `PathSolution::path` does not panic on such solutions -/

theorem walk_ok (sc : Nat) (peer : Option Nat) : ∀ (l : List (AsE × Nat)) (mtu : Nat),
    (∀ x ∈ l, x.2 = sc → ∀ pi, peer = some pi → pi < x.1.peers.length) →
    ∃ r, walk sc peer l mtu = .ok r := by
  intro l
  induction l with
  | nil => intro mtu _; exact ⟨_, rfl⟩
  | cons x rest ih =>
    intro mtu h
    have hp : ∃ r, pickHop sc peer x.1 x.2 mtu = .ok r := by
      unfold pickHop
      cases peer with
      | none => exact ⟨_, rfl⟩
      | some pi =>
        simp only
        split
        · rename_i heq
          have := h x List.mem_cons_self heq pi rfl
          have hs : x.1.peers[pi]? = some x.1.peers[pi] := List.getElem?_eq_getElem this
          rw [hs]
          exact ⟨_, rfl⟩
        · exact ⟨_, rfl⟩
    rcases hp with ⟨⟨hf, m1⟩, hp⟩
    rcases ih (min m1 (min x.1.mtu AS_MTU_SAT)) (fun y hy => h y (List.mem_cons_of_mem _ hy)) with ⟨⟨m, ifs, hops⟩, hr⟩
    unfold walk
    simp only [hp, hr]
    exact ⟨_, rfl⟩

theorem consDirOf_ok {e : GEdge} (h : 0 < e.seg.seg.len) : ∃ b, consDirOf e = .ok b := by
  rcases lastIa_isSome_of_pos h with ⟨l, hl⟩
  unfold consDirOf
  simp only [hl]
  exact ⟨_, rfl⟩

theorem initSegId_ok {e : GEdge} (h : EdgeOk e.seg.seg e.edge) : ∃ v, initSegId e = .ok v := by
  have hpos : 0 < e.seg.seg.len := Nat.lt_of_le_of_lt (Nat.zero_le _) h.sc_lt
  rcases consDirOf_ok hpos with ⟨b, hb⟩
  have hsc := h.sc_lt
  unfold initSegId
  rw [hb]
  simp only
  rw [if_neg (by omega)]
  cases b
  · simp only [Bool.false_eq_true, if_false]
    split
    · rw [if_neg (by omega)]; exact ⟨_, rfl⟩
    · rw [if_neg (by omega)]; exact ⟨_, rfl⟩
  · simp only [if_true]
    split
    · rw [if_neg (by omega)]; exact ⟨_, rfl⟩
    · rw [if_neg (by omega)]; exact ⟨_, rfl⟩

theorem edgePart_ok {e : GEdge} (h : EdgeOk e.seg.seg e.edge) (mtu : Nat) :
    ∃ r, edgePart e mtu = .ok r := by
  have hsc := h.sc_lt
  have hpos : 0 < e.seg.seg.len := by omega
  have hw : ∃ r, walk e.edge.shortcut e.edge.peer
      (e.seg.seg.entries.zipIdx.drop e.edge.shortcut).reverse mtu = .ok r := by
    apply walk_ok
    intro x hx hx2 pi hpi
    have hx' : x ∈ e.seg.seg.entries.zipIdx := List.mem_of_mem_drop (List.mem_reverse.mp hx)
    have hget := List.mem_zipIdx_iff_getElem?.mp hx'
    rcases h.peer_ok pi hpi with ⟨a, ha, hlt⟩
    rw [hx2, ha] at hget
    simp at hget
    rw [← hget]; exact hlt
  rcases hw with ⟨⟨m, ifs, hops⟩, hw⟩
  rcases consDirOf_ok hpos with ⟨b, hb⟩
  rcases initSegId_ok h with ⟨v, hv⟩
  unfold edgePart
  rw [if_neg (by omega), hw]
  simp only [hb, hv]
  exact ⟨_, rfl⟩

theorem edgeParts_ok : ∀ (es : List GEdge) (mtu n : Nat),
    (∀ e ∈ es, EdgeOk e.seg.seg e.edge) → n + es.length ≤ MAX_SEGMENTS →
    ∃ r, edgeParts es mtu n = .ok r := by
  intro es
  induction es with
  | nil => intro mtu n _ _; exact ⟨_, rfl⟩
  | cons e rest ih =>
    intro mtu n h hn
    rcases edgePart_ok (h e List.mem_cons_self) mtu with ⟨⟨m, ifs, ps⟩, he⟩
    simp at hn
    rcases ih m (n + 1) (fun x hx => h x (List.mem_cons_of_mem _ hx)) (by omega) with ⟨⟨m', ifs', pss⟩, hr⟩
    unfold edgeParts
    simp only [he]
    rw [if_neg (by omega)]
    simp only [hr]
    exact ⟨_, rfl⟩

theorem expSecs_le (e : Nat) : expSecs e ≤ u32Max := by
  unfold expSecs u32Max EXP_UNIT_MS
  omega

theorem pathExpiry_ok (segs : List PSeg) : ∃ v, pathExpiry segs = .ok v := by
  unfold pathExpiry
  have : (segs.any fun s => decide (expSecs (minExp s.hops) > u32Max)) = false := by
    rw [List.any_eq_false]
    intro s _
    have := expSecs_le (minExp s.hops)
    simp; omega
  rw [this]
  simp only [Bool.false_eq_true, if_false]
  split <;> exact ⟨_, rfl⟩

theorem segLenU8_lt_of_encodeOk {segs : List PSeg} (h : encodeOk segs = true) (i : Nat) :
    segLenU8 segs i ≤ MAX_SEGMENT_HOPS := by
  unfold encodeOk at h
  simp only [Bool.and_eq_true] at h
  have hall := h.2
  rw [List.all_eq_true] at hall
  unfold segLenU8
  cases hi : segs[i]? with
  | none => simp
  | some s =>
    have hmem : s ∈ segs := List.mem_of_getElem? hi
    have := hall s hmem
    simp at this
    simp
    have h2 := this.1
    exact Nat.le_trans (Nat.mod_le _ _) h2

theorem viewOk_of_encodeOk {segs : List PSeg} (h : encodeOk segs = true) : viewOk segs = true := by
  unfold viewOk
  have h0 := segLenU8_lt_of_encodeOk h 0
  have h1 := segLenU8_lt_of_encodeOk h 1
  have h2 := segLenU8_lt_of_encodeOk h 2
  unfold MAX_SEGMENT_HOPS at h0 h1 h2
  simp only [Bool.and_eq_true]
  refine ⟨⟨?_, ?_⟩, ?_⟩ <;> apply decide_eq_true <;>
    simp only [SEG0_LEN_BITS, SEG1_LEN_BITS, SEG2_LEN_BITS] <;> omega

theorem solPath_no_panic {g : List GEdge} {s : Sol} (hs : SolOk g s)
    (hg : ∀ e ∈ g, EdgeOk e.seg.seg e.edge) : ∀ st, solPath s ≠ .panic st := by
  intro st
  unfold solPath
  split
  · simp
  · rcases edgeParts_ok s.edges MTU_INIT 0 (fun e he => hg e (hs.edges_mem e he)) (by have := hs.len_le; omega)
      with ⟨⟨mtu, ifs, segs⟩, hr⟩
    rw [hr]
    simp only
    rcases pathExpiry_ok segs with ⟨v, hv⟩
    rw [hv]
    simp only
    split
    · simp
    · rename_i henc
      have henc' : encodeOk segs = true := by simpa using henc
      rw [viewOk_of_encodeOk henc']
      simp only [Bool.not_true, Bool.false_eq_true, if_false]
      split <;> simp

theorem pathsOf_ok : ∀ (l : List Sol), (∀ s ∈ l, ∀ st, solPath s ≠ .panic st) →
    ∃ ps, pathsOf l = .ok ps := by
  intro l
  induction l with
  | nil => intro _; exact ⟨_, rfl⟩
  | cons s rest ih =>
    intro h
    rcases ih (fun x hx => h x (List.mem_cons_of_mem _ hx)) with ⟨ps, hps⟩
    have hs := h s List.mem_cons_self
    unfold pathsOf
    cases hsp : solPath s with
    | panic st => exact absurd hsp (hs st)
    | dropped => exact ⟨ps, by simp only [hps]⟩
    | path p => exact ⟨p :: ps, by simp only [hps]⟩

theorem mem_sortedCandidates {src dst : Nat} {segs : List InSeg} {s : Sol} :
    s ∈ sortedCandidates src dst segs ↔ s ∈ candidates (graphOf segs) src dst := by
  unfold sortedCandidates sortSols
  exact List.mem_mergeSort

theorem sortedCandidates_no_panic (src dst : Nat) (segs : List InSeg) :
    ∀ s ∈ sortedCandidates src dst segs, ∀ st, solPath s ≠ .panic st := by
  intro s hs
  exact solPath_no_panic (candidates_solOk _ _ _ s (mem_sortedCandidates.mp hs))
    (fun e he => graphOf_edgeOk he)

/-- `combine` without the (never failing) checks -/
theorem combine_eq (src dst : Nat) (cores nonCores : List Seg) (hne : src ≠ dst) :
    ∃ ps, pathsOf (sortedCandidates src dst (inputSegs cores nonCores)) = .ok ps ∧
      combine src dst cores nonCores = .ok (filterDuplicates (ps.filter fun p => !hasLoops p)) := by
  rcases pathsOf_ok _ (sortedCandidates_no_panic src dst (inputSegs cores nonCores)) with ⟨ps, hps⟩
  refine ⟨ps, hps, ?_⟩
  unfold combine
  rw [if_neg hne]
  have hall : (inputSegs cores nonCores).all weightsOk = true := by
    rw [List.all_eq_true]; intro x _; exact weightsOk_all x
  simp only [hall, Bool.not_true, Bool.false_eq_true, if_false, finish, hps]

/-- `combine` is `finish` of the sorted candidates -/
theorem combine_unfold (src dst : Nat) (cores nonCores : List Seg) (hne : src ≠ dst) :
    combine src dst cores nonCores = finish (sortedCandidates src dst (inputSegs cores nonCores)) := by
  unfold combine
  rw [if_neg hne]
  have hall : (inputSegs cores nonCores).all weightsOk = true := by
    rw [List.all_eq_true]; intro x _; exact weightsOk_all x
  simp only [hall, Bool.not_true, Bool.false_eq_true, if_false]

/-! ## 4. where offered paths come from -/

theorem mem_insertDedup {l : List Path} {p x : Path} (h : x ∈ insertDedup l p) : x ∈ l ∨ x = p := by
  induction l with
  | nil => simp [insertDedup] at h; exact Or.inr h
  | cons q qs ih =>
    unfold insertDedup at h
    split at h
    · split at h
      · rcases List.mem_cons.mp h with h | h
        · exact Or.inr h
        · exact Or.inl (List.mem_cons_of_mem _ h)
      · exact Or.inl h
    · rcases List.mem_cons.mp h with h | h
      · exact Or.inl (h ▸ List.mem_cons_self)
      · rcases ih h with h | h
        · exact Or.inl (List.mem_cons_of_mem _ h)
        · exact Or.inr h

theorem mem_foldl_insertDedup : ∀ (ps acc : List Path) (x : Path),
    x ∈ ps.foldl insertDedup acc → x ∈ acc ∨ x ∈ ps := by
  intro ps
  induction ps with
  | nil => intro acc x h; exact Or.inl h
  | cons p rest ih =>
    intro acc x h
    simp only [List.foldl_cons] at h
    rcases ih _ _ h with h | h
    · rcases mem_insertDedup h with h | h
      · exact Or.inl h
      · exact Or.inr (h ▸ List.mem_cons_self)
    · exact Or.inr (List.mem_cons_of_mem _ h)

theorem mem_filterDuplicates {ps : List Path} {x : Path} (h : x ∈ filterDuplicates ps) : x ∈ ps := by
  rcases mem_foldl_insertDedup ps [] x h with h | h
  · simp at h
  · exact h

theorem mem_pathsOf : ∀ (l : List Sol) (ps : List Path), pathsOf l = .ok ps →
    ∀ p ∈ ps, ∃ s ∈ l, solPath s = .path p := by
  intro l
  induction l with
  | nil => intro ps h p hp; simp [pathsOf] at h; subst h; simp at hp
  | cons s rest ih =>
    intro ps h p hp
    unfold pathsOf at h
    cases hs : solPath s with
    | panic st => simp [hs] at h
    | dropped =>
      simp only [hs] at h
      rcases ih ps h p hp with ⟨t, ht, htp⟩
      exact ⟨t, List.mem_cons_of_mem _ ht, htp⟩
    | path q =>
      simp only [hs] at h
      cases hr : pathsOf rest with
      | error st => simp [hr] at h
      | ok qs =>
        simp only [hr] at h
        injection h with h
        subst h
        rcases List.mem_cons.mp hp with hp | hp
        · exact ⟨s, List.mem_cons_self, hp ▸ hs⟩
        · rcases ih qs hr p hp with ⟨t, ht, htp⟩
          exact ⟨t, List.mem_cons_of_mem _ ht, htp⟩

theorem mem_pathsOf_of_solPath : ∀ (l : List Sol) (ps : List Path), pathsOf l = .ok ps →
    ∀ s ∈ l, ∀ p, solPath s = .path p → p ∈ ps := by
  intro l
  induction l with
  | nil => intro ps _ s hs; simp at hs
  | cons t rest ih =>
    intro ps h s hs p hp
    unfold pathsOf at h
    cases ht : solPath t with
    | panic st => simp [ht] at h
    | dropped =>
      simp only [ht] at h
      rcases List.mem_cons.mp hs with hs | hs
      · subst hs; rw [ht] at hp; cases hp
      · exact ih ps h s hs p hp
    | path q =>
      simp only [ht] at h
      cases hr : pathsOf rest with
      | error st => simp [hr] at h
      | ok qs =>
        simp only [hr] at h
        injection h with h
        subst h
        rcases List.mem_cons.mp hs with hs | hs
        · subst hs; rw [ht] at hp; injection hp with hp; subst hp; exact List.mem_cons_self
        · exact List.mem_cons_of_mem _ (ih qs hr s hs p hp)

/-- every offered path is the `PathSolution::path` of a candidate solution and passed the loop filter -/
theorem offered_from_candidate {src dst : Nat} {cores nonCores : List Seg} {out : List Path}
    (h : combine src dst cores nonCores = .ok out) {p : Path} (hp : p ∈ out) :
    src ≠ dst ∧ hasLoops p = false ∧
    ∃ s ∈ candidates (graphOf (inputSegs cores nonCores)) src dst, solPath s = .path p := by
  by_cases hne : src = dst
  · simp [combine, hne] at h; subst h; simp at hp
  · rcases combine_eq src dst cores nonCores hne with ⟨ps, hps, hc⟩
    rw [hc] at h
    injection h with h
    subst h
    have h1 := mem_filterDuplicates hp
    rcases List.mem_filter.mp h1 with ⟨h2, h3⟩
    rcases mem_pathsOf _ _ hps p h2 with ⟨s, hs, hsp⟩
    exact ⟨hne, by simpa using h3, s, mem_sortedCandidates.mp hs, hsp⟩

/-! ## 5. what `PathSolution::path` guarantees about a path it returns -/

/-- decomposition of a successful `solPath` -/
theorem solPath_path {s : Sol} {p : Path} (h : solPath s = .path p) :
    ∃ mtu ifs segs expiry f l, s.edges ≠ [] ∧ edgeParts s.edges MTU_INIT 0 = .ok (mtu, ifs, segs) ∧
      pathExpiry segs = .ok expiry ∧ encodeOk segs = true ∧ viewOk segs = true ∧
      ifs.head? = some f ∧ ifs.getLast? = some l ∧ p = ⟨f.1, l.1, segs, mtu, expiry, ifs⟩ := by
  unfold solPath at h
  split at h
  · simp at h
  · rename_i hne
    split at h
    · simp at h
    · rename_i mtu ifs segs hep
      split at h
      · simp at h
      · rename_i expiry hex
        split at h
        · simp at h
        · rename_i henc
          split at h
          · simp at h
          · rename_i hview
            split at h
            · rename_i f l hf hl
              injection h with h
              exact ⟨mtu, ifs, segs, expiry, f, l, by simpa using hne, hep, hex, by simpa using henc,
                by simpa using hview, hf, hl, h.symm⟩
            · simp at h

/-- interfaces pushed by the walk have non-zero ids that are interface ids of the collected hop fields -/
theorem walk_ifs (sc : Nat) (peer : Option Nat) : ∀ (l : List (AsE × Nat)) (mtu m : Nat)
    (ifs : List (Nat × Nat)) (hops : List HopF), walk sc peer l mtu = .ok (m, ifs, hops) →
    ∀ i ∈ ifs, i.2 ≠ 0 ∧ ∃ h ∈ hops, h.ingress = i.2 ∨ h.egress = i.2 := by
  intro l
  induction l with
  | nil =>
    intro mtu m ifs hops h i hi
    simp [walk] at h
    rcases h with ⟨_, rfl, _⟩
    simp at hi
  | cons x rest ih =>
    intro mtu m ifs hops h i hi
    unfold walk at h
    split at h
    · simp at h
    · rename_i hf m1 _
      split at h
      · simp at h
      · rename_i m' ifs' hops' hr
        injection h with h
        simp only [Prod.mk.injEq] at h
        rcases h with ⟨_, rfl, rfl⟩
        rcases List.mem_append.mp hi with hi | hi
        · unfold hopIfs at hi
          rcases List.mem_append.mp hi with hi | hi
          · by_cases hz : hf.egress ≠ 0
            · rw [if_pos hz] at hi; simp at hi; subst hi
              exact ⟨hz, hf, List.mem_cons_self, Or.inr rfl⟩
            · rw [if_neg hz] at hi; simp at hi
          · by_cases hz : hf.ingress ≠ 0 ∧ (¬(x.2 = sc ∧ x.2 ≠ 0) ∨ (x.2 = sc ∧ peer.isSome))
            · rw [if_pos hz] at hi; simp at hi; subst hi
              exact ⟨hz.1, hf, List.mem_cons_self, Or.inl rfl⟩
            · rw [if_neg hz] at hi; simp at hi
        · rcases ih _ _ _ _ hr i hi with ⟨hz, h', hh, hv⟩
          exact ⟨hz, h', List.mem_cons_of_mem _ hh, hv⟩

theorem edgePart_ifs {e : GEdge} {mtu m : Nat} {ifs : List (Nat × Nat)} {ps : PSeg}
    (h : edgePart e mtu = .ok (m, ifs, ps)) :
    ∀ i ∈ ifs, i.2 ≠ 0 ∧ ∃ h ∈ ps.hops, h.ingress = i.2 ∨ h.egress = i.2 := by
  unfold edgePart at h
  split at h
  · simp at h
  · split at h
    · simp at h
    · rename_i m0 ifs0 hops0 hw
      split at h
      · simp at h
      · rename_i cd _
        split at h
        · simp at h
        · injection h with h
          simp only [Prod.mk.injEq] at h
          rcases h with ⟨_, rfl, rfl⟩
          intro i hi
          have hi' : i ∈ ifs0 := by
            split at hi
            · exact List.mem_reverse.mp hi
            · exact hi
          rcases walk_ifs _ _ _ _ _ _ _ hw i hi' with ⟨hz, h', hh, hv⟩
          refine ⟨hz, h', ?_, hv⟩
          simp only
          split
          · exact List.mem_reverse.mpr hh
          · exact hh

theorem edgeParts_ifs : ∀ (es : List GEdge) (mtu n m : Nat) (ifs : List (Nat × Nat)) (segs : List PSeg),
    edgeParts es mtu n = .ok (m, ifs, segs) →
    ∀ i ∈ ifs, i.2 ≠ 0 ∧ ∃ sg ∈ segs, ∃ h ∈ sg.hops, h.ingress = i.2 ∨ h.egress = i.2 := by
  intro es
  induction es with
  | nil =>
    intro mtu n m ifs segs h i hi
    simp [edgeParts] at h
    rcases h with ⟨_, rfl, _⟩
    simp at hi
  | cons e rest ih =>
    intro mtu n m ifs segs h i hi
    unfold edgeParts at h
    split at h
    · simp at h
    · rename_i m1 ifs1 ps hep
      split at h
      · simp at h
      · split at h
        · simp at h
        · rename_i m2 ifs2 pss hr
          injection h with h
          simp only [Prod.mk.injEq] at h
          rcases h with ⟨_, rfl, rfl⟩
          rcases List.mem_append.mp hi with hi | hi
          · rcases edgePart_ifs hep i hi with ⟨hz, h', hh, hv⟩
            exact ⟨hz, ps, List.mem_cons_self, h', hh, hv⟩
          · rcases ih _ _ _ _ _ hr i hi with ⟨hz, sg, hsg, h', hh, hv⟩
            exact ⟨hz, sg, List.mem_cons_of_mem _ hsg, h', hh, hv⟩

theorem edgeParts_length : ∀ (es : List GEdge) (mtu n m : Nat) (ifs : List (Nat × Nat)) (segs : List PSeg),
    edgeParts es mtu n = .ok (m, ifs, segs) → segs.length = es.length := by
  intro es
  induction es with
  | nil => intro mtu n m ifs segs h; simp [edgeParts] at h; simp [h.2.2.symm]
  | cons e rest ih =>
    intro mtu n m ifs segs h
    unfold edgeParts at h
    split at h
    · simp at h
    · split at h
      · simp at h
      · split at h
        · simp at h
        · rename_i m2 ifs2 pss hr
          injection h with h
          simp only [Prod.mk.injEq] at h
          rcases h with ⟨_, _, rfl⟩
          simp; exact ih _ _ _ _ _ hr

/-! ### expiry -/

theorem minExp_le : ∀ (hs : List HopF) (h : HopF), h ∈ hs → minExp hs ≤ h.exp % 256 := by
  intro hs
  cases hs with
  | nil => intro h hh; simp at hh
  | cons a as =>
    intro h hh
    unfold minExp
    have gen : ∀ (l : List HopF) (m : Nat), l.foldl (fun m x => min m (x.exp % 256)) m ≤ m ∧
        ∀ x ∈ l, l.foldl (fun m x => min m (x.exp % 256)) m ≤ x.exp % 256 := by
      intro l
      induction l with
      | nil => intro m; simp
      | cons b bs ih =>
        intro m
        simp only [List.foldl_cons]
        have h1 := (ih (min m (b.exp % 256))).1
        have h2 := (ih (min m (b.exp % 256))).2
        refine ⟨by omega, ?_⟩
        intro x hx
        rcases List.mem_cons.mp hx with hx | hx
        · subst hx; omega
        · exact h2 x hx
    rcases List.mem_cons.mp hh with hh | hh
    · subst hh; exact (gen as _).1
    · exact (gen as _).2 h hh

theorem minExp_mem : ∀ (hs : List HopF), hs ≠ [] → ∃ h ∈ hs, minExp hs = h.exp % 256 := by
  intro hs
  cases hs with
  | nil => intro h; exact absurd rfl h
  | cons a as =>
    intro _
    unfold minExp
    have gen : ∀ (l : List HopF) (m : Nat), l.foldl (fun m x => min m (x.exp % 256)) m = m ∨
        ∃ x ∈ l, l.foldl (fun m x => min m (x.exp % 256)) m = x.exp % 256 := by
      intro l
      induction l with
      | nil => intro m; simp
      | cons b bs ih =>
        intro m
        simp only [List.foldl_cons]
        rcases ih (min m (b.exp % 256)) with h | ⟨x, hx, h⟩
        · by_cases hm : m ≤ b.exp % 256
          · left; rw [h]; omega
          · right; exact ⟨b, List.mem_cons_self, by rw [h]; omega⟩
        · right; exact ⟨x, List.mem_cons_of_mem _ hx, h⟩
    rcases gen as (a.exp % 256) with h | ⟨x, hx, h⟩
    · exact ⟨a, List.mem_cons_self, h⟩
    · exact ⟨x, List.mem_cons_of_mem _ hx, h⟩

theorem expSecs_mono {a b : Nat} (h : a % 256 ≤ b % 256) : expSecs a ≤ expSecs b := by
  unfold expSecs
  apply Nat.div_le_div_right
  apply Nat.mul_le_mul_left
  omega

/-- absolute expiry of one hop field of a data-plane segment, as a router computes it (saturated) -/
def hopExpiry (s : PSeg) (h : HopF) : Nat := min (s.ts + expSecs h.exp) u32Max

theorem expSecs_mod (e : Nat) : expSecs (e % 256) = expSecs e := by
  unfold expSecs; simp

theorem foldl_min_le : ∀ (l : List PSeg) (f : PSeg → Nat) (acc : Nat),
    l.foldl (fun a s => min a (f s)) acc ≤ acc ∧ ∀ s ∈ l, l.foldl (fun a s => min a (f s)) acc ≤ f s := by
  intro l f
  induction l with
  | nil => intro acc; simp
  | cons b bs ih =>
    intro acc
    simp only [List.foldl_cons]
    have h1 := (ih (min acc (f b))).1
    have h2 := (ih (min acc (f b))).2
    refine ⟨by omega, ?_⟩
    intro x hx
    rcases List.mem_cons.mp hx with hx | hx
    · subst hx; omega
    · exact h2 x hx

theorem foldl_min_mem : ∀ (l : List PSeg) (f : PSeg → Nat) (acc : Nat),
    l.foldl (fun a s => min a (f s)) acc = acc ∨ ∃ s ∈ l, l.foldl (fun a s => min a (f s)) acc = f s := by
  intro l f
  induction l with
  | nil => intro acc; simp
  | cons b bs ih =>
    intro acc
    simp only [List.foldl_cons]
    rcases ih (min acc (f b)) with h | ⟨x, hx, h⟩
    · by_cases hm : acc ≤ f b
      · left; rw [h]; omega
      · right; exact ⟨b, List.mem_cons_self, by rw [h]; omega⟩
    · right; exact ⟨x, List.mem_cons_of_mem _ hx, h⟩

/-- `pathExpiry` is the earliest hop expiry when every segment has a hop field -/
theorem pathExpiry_spec {segs : List PSeg} {v : Nat} (h : pathExpiry segs = .ok v)
    (hne : ∀ s ∈ segs, s.hops ≠ []) :
    (∀ s ∈ segs, ∀ hf ∈ s.hops, v ≤ hopExpiry s hf) ∧
    (v = u32Max ∨ ∃ s ∈ segs, ∃ hf ∈ s.hops, v = hopExpiry s hf) := by
  unfold pathExpiry at h
  split at h
  · simp at h
  · split at h
    · rename_i hany
      rw [List.any_eq_true] at hany
      rcases hany with ⟨s, hs, he⟩
      exact absurd (by simpa using he) (hne s hs)
    · injection h with h
      subst h
      constructor
      · intro s hs hf hhf
        have h1 := (foldl_min_le segs (fun s => min (s.ts + expSecs (minExp s.hops)) u32Max) u32Max).2 s hs
        have h2 := minExp_le s.hops hf hhf
        have h3 : expSecs (minExp s.hops) ≤ expSecs hf.exp := by
          rw [← expSecs_mod hf.exp]
          apply expSecs_mono
          have : minExp s.hops % 256 ≤ minExp s.hops := Nat.mod_le _ _
          have : hf.exp % 256 % 256 = hf.exp % 256 := Nat.mod_mod _ _
          omega
        unfold hopExpiry
        omega
      · rcases foldl_min_mem segs (fun s => min (s.ts + expSecs (minExp s.hops)) u32Max) u32Max with h | ⟨s, hs, h⟩
        · exact Or.inl h
        · right
          rcases minExp_mem s.hops (hne s hs) with ⟨hf, hhf, hm⟩
          refine ⟨s, hs, hf, hhf, ?_⟩
          rw [h, hm, expSecs_mod]
          rfl

theorem encodeOk_hops_ne {segs : List PSeg} (h : encodeOk segs = true) : ∀ s ∈ segs, s.hops ≠ [] := by
  unfold encodeOk at h
  simp only [Bool.and_eq_true] at h
  have hall := h.2
  rw [List.all_eq_true] at hall
  intro s hs hnil
  have := hall s hs
  simp [hnil] at this

theorem encodeOk_hops_le {segs : List PSeg} (h : encodeOk segs = true) :
    ∀ s ∈ segs, s.hops.length ≤ MAX_SEGMENT_HOPS := by
  unfold encodeOk at h
  simp only [Bool.and_eq_true] at h
  have hall := h.2
  rw [List.all_eq_true] at hall
  intro s hs
  have := hall s hs
  simp at this
  exact this.1

/-! ## 6. size of the search -/

theorem extend_length (g : List GEdge) (s : Sol) : (extend g s).length ≤ g.length := by
  unfold extend; exact List.length_filterMap_le _ _

theorem extend_nil_of_three {g : List GEdge} {s : Sol} (h : 3 ≤ s.edges.length) : extend g s = [] := by
  unfold extend
  rw [List.filterMap_eq_nil_iff]
  intro e _
  rw [if_neg]
  intro hc
  have := validNext_len hc.2
  omega

theorem flatMap_length_le {α β : Type} (f : α → List β) (c : α → Nat) : ∀ (l : List α),
    (∀ x ∈ l, (f x).length ≤ c x) → (l.flatMap f).length ≤ (l.map c).sum := by
  intro l
  induction l with
  | nil => intro _; simp
  | cons a as ih =>
    intro h
    simp only [List.flatMap_cons, List.length_append, List.map_cons, List.sum_cons]
    have h1 := h a List.mem_cons_self
    have h2 := ih (fun x hx => h x (List.mem_cons_of_mem _ hx))
    omega

theorem sum_map_const {α : Type} (c : Nat) : ∀ (l : List α), (l.map fun _ => c).sum = l.length * c := by
  intro l
  induction l with
  | nil => simp
  | cons a as ih => simp [ih, Nat.succ_mul]; omega

theorem flatMap_extend_length (g : List GEdge) (fr : List Sol) :
    (fr.flatMap (extend g)).length ≤ fr.length * g.length := by
  have := flatMap_length_le (extend g) (fun _ => g.length) fr (fun x _ => extend_length g x)
  rw [sum_map_const] at this
  exact this

theorem length_filter_partition {α : Type} (p : α → Bool) : ∀ (l : List α),
    (l.filter p).length + (l.filter fun x => !p x).length = l.length := by
  intro l
  induction l with
  | nil => simp
  | cons a as ih =>
    cases hp : p a <;> simp [hp] <;> omega

theorem bfs_nil (g : List GEdge) (dst : Nat) : ∀ fuel, bfs g dst fuel [] = [] := by
  intro fuel
  induction fuel with
  | zero => rfl
  | succ n ih => simp [bfs, ih]

/-- number of solutions `k` more rounds can produce per queued solution, `E` = number of graph edges -/
def searchBound (E : Nat) : Nat → Nat
  | 0 => 0
  | k + 1 => E * (1 + searchBound E k)

theorem bfs_length (g : List GEdge) (dst : Nat) : ∀ (fuel : Nat) (fr : List Sol) (k : Nat),
    (∀ s ∈ fr, 3 ≤ s.edges.length + k) →
    (bfs g dst fuel fr).length ≤ fr.length * searchBound g.length k := by
  intro fuel
  induction fuel with
  | zero => intro fr k _; simp [bfs]
  | succ n ih =>
    intro fr k h
    simp only [bfs]
    cases k with
    | zero =>
      have hnil : fr.flatMap (extend g) = [] := by
        rw [List.flatMap_eq_nil_iff]
        intro s hs
        exact extend_nil_of_three (by have := h s hs; omega)
      simp [hnil, bfs_nil]
    | succ k =>
      have hnew : ∀ s ∈ fr.flatMap (extend g), 3 ≤ s.edges.length + k := by
        intro s hs
        rcases List.mem_flatMap.mp hs with ⟨p, hp, hsp⟩
        rcases mem_extend hsp with ⟨e, _, _, _, rfl⟩
        have := h p hp
        simp; omega
      have h1 := ih ((fr.flatMap (extend g)).filter fun s => !decide (s.cur = .as dst)) k
        (fun s hs => hnew s (List.mem_filter.mp hs).1)
      have h2 := length_filter_partition (fun s : Sol => decide (s.cur = .as dst)) (fr.flatMap (extend g))
      have h3 := flatMap_extend_length g fr
      simp only [List.length_append]
      -- done + open * B ≤ (done + open) * (1 + B) ≤ fr * E * (1 + B)
      generalize hd : ((fr.flatMap (extend g)).filter fun s => decide (s.cur = .as dst)).length = d at *
      generalize ho : ((fr.flatMap (extend g)).filter fun s => !decide (s.cur = .as dst)).length = o at *
      generalize hB : searchBound g.length k = B at *
      generalize hN : (fr.flatMap (extend g)).length = N at *
      have h4 : d + o * B ≤ N * (1 + B) := by
        rw [← h2, Nat.add_mul, Nat.mul_add, Nat.mul_add]
        have : o * B ≤ d * B + o * B := Nat.le_add_left _ _
        omega
      have h5 : N * (1 + B) ≤ fr.length * g.length * (1 + B) := Nat.mul_le_mul_right _ h3
      calc d + (bfs g dst n _).length ≤ d + o * B := by omega
        _ ≤ N * (1 + B) := h4
        _ ≤ fr.length * g.length * (1 + B) := h5
        _ = fr.length * searchBound g.length (k + 1) := by
            simp only [searchBound, hB, Nat.mul_assoc]

theorem searchBound_three (E : Nat) : searchBound E 3 ≤ (E + 1) ^ 3 := by
  simp only [searchBound]
  have h1 : 1 + E * (1 + E * (1 + 0)) ≤ (E + 1) * (E + 1) := by
    have : (E + 1) * (E + 1) = E * (E + 1) + (E + 1) := by rw [Nat.add_mul]; omega
    have h2 : E * (1 + E * (1 + 0)) = E * (E + 1) := by
      simp only [Nat.add_zero, Nat.mul_one]; rw [Nat.add_comm]
    omega
  have h3 : E * (1 + E * (1 + E * (1 + 0))) ≤ (E + 1) * ((E + 1) * (E + 1)) :=
    Nat.mul_le_mul (Nat.le_succ _) h1
  have h4 : (E + 1) ^ 3 = (E + 1) * ((E + 1) * (E + 1)) := by
    rw [Nat.pow_succ, Nat.pow_succ, Nat.pow_one, Nat.mul_comm]
  omega

theorem candidates_length (g : List GEdge) (src dst : Nat) :
    (candidates g src dst).length ≤ (g.length + 1) ^ 3 := by
  unfold candidates
  have := bfs_length g dst bfsRounds [Sol.new (.as src)] 3 (by intro s hs; simp at hs; subst hs; simp [Sol.new])
  simp at this
  exact Nat.le_trans this (searchBound_three _)

/-! ### the graph is linear in the input -/

/-- size of a segment: AS entries + peer entries (each counted twice: one edge per direction) -/
def Seg.size (s : Seg) : Nat := 2 * s.len + 2 * (s.entries.map fun a => a.peers.length).sum

theorem entryInserts_length (s : Seg) (leaf : Nat) (x : AsE × Nat) :
    (entryInserts s leaf x).length ≤ 2 + 2 * x.1.peers.length := by
  unfold entryInserts
  simp only [List.length_append]
  have h1 : (if x.2 ≠ s.len - 1 then
      [(Vertex.as leaf, Vertex.as x.1.ia, (⟨numberOfHops s x.2 false, x.2, none⟩ : Edge)),
       (Vertex.as x.1.ia, Vertex.as leaf, (⟨numberOfHops s x.2 false, x.2, none⟩ : Edge))]
      else ([] : List Ins)).length ≤ 2 := by split <;> simp
  have h2 := flatMap_length_le (fun (p : PeerE × Nat) =>
      [(Vertex.as leaf, Vertex.peering x.1.ia p.1.hop.ingress p.1.peer p.1.peerIf,
          (⟨numberOfHops s x.2 true, x.2, some p.2⟩ : Edge)),
       (Vertex.peering p.1.peer p.1.peerIf x.1.ia p.1.hop.ingress, Vertex.as leaf,
          (⟨numberOfHops s x.2 false, x.2, some p.2⟩ : Edge))]) (fun _ => 2) x.1.peers.zipIdx
      (fun _ _ => by simp)
  rw [sum_map_const, List.length_zipIdx] at h2
  omega

theorem sum_map_zipIdx_reverse (l : List AsE) (f : AsE → Nat) :
    (l.zipIdx.reverse.map fun x => f x.1).sum = (l.map f).sum := by
  have h1 : (l.zipIdx.reverse.map fun x => f x.1) = ((l.zipIdx.map Prod.fst).map f).reverse := by
    rw [List.map_map, List.map_reverse]; rfl
  rw [h1, List.zipIdx_map_fst, List.sum_reverse]

theorem inserts_length (s : InSeg) : (inserts s).length ≤ s.seg.size := by
  unfold inserts Seg.size
  split
  · unfold coreInserts
    split
    · rename_i f l hf hl
      have := firstIa_some hf
      simp; omega
    · simp
  · unfold nonCoreInserts
    split
    · simp
    · rename_i leaf _
      have := flatMap_length_le (entryInserts s.seg leaf) (fun x => 2 + 2 * x.1.peers.length)
        s.seg.entries.zipIdx.reverse (fun x _ => entryInserts_length s.seg leaf x)
      rw [sum_map_zipIdx_reverse s.seg.entries (fun a => 2 + 2 * a.peers.length)] at this
      have h2 : (s.seg.entries.map fun a => 2 + 2 * a.peers.length).sum
          = 2 * s.seg.len + 2 * (s.seg.entries.map fun a => a.peers.length).sum := by
        unfold Seg.len
        generalize s.seg.entries = l
        induction l with
        | nil => simp
        | cons a as ih => simp [ih]; omega
      omega

theorem segEdges_length (s : InSeg) : (segEdges s).length ≤ s.seg.size := by
  unfold segEdges
  rw [List.length_map]
  exact Nat.le_trans (lastWins_length_le _) (inserts_length s)

theorem sum_eraseDups_le (f : InSeg → Nat) : ∀ (n : Nat) (l : List InSeg), l.length ≤ n →
    (l.eraseDups.map f).sum ≤ (l.map f).sum := by
  intro n
  induction n with
  | zero => intro l h; have : l = [] := List.length_eq_zero_iff.mp (by omega); subst this; simp
  | succ n ih =>
    intro l h
    cases l with
    | nil => simp
    | cons a as =>
      rw [List.eraseDups_cons]
      simp only [List.map_cons, List.sum_cons]
      have hlen : (as.filter fun b => !b == a).length ≤ n := by
        have := List.length_filter_le (fun b => !b == a) as
        simp at h; omega
      have h1 := ih (as.filter fun b => !b == a) hlen
      have h2 : ((as.filter fun b => !b == a).map f).sum ≤ (as.map f).sum := by
        generalize as = l
        induction l with
        | nil => simp
        | cons b bs ihb =>
          simp only [List.filter_cons]
          split <;> simp <;> omega
      omega

/-- the multigraph has at most `Σ size` directed edges -/
theorem graphOf_length (segs : List InSeg) :
    (graphOf segs).length ≤ (segs.map fun s => s.seg.size).sum := by
  unfold graphOf
  have := flatMap_length_le segEdges (fun s => s.seg.size) segs.eraseDups (fun x _ => segEdges_length x)
  exact Nat.le_trans this (sum_eraseDups_le _ _ segs (Nat.le_refl _))

/-! ## 7. edges that occur in no complete solution can be removed from the graph -/

def Sol.allEdges (Q : GEdge → Bool) (s : Sol) : Bool := s.edges.all Q

theorem extend_filter (g : List GEdge) (Q : GEdge → Bool) (s : Sol) :
    (extend g s).filter (Sol.allEdges Q) = if s.allEdges Q then extend (g.filter Q) s else [] := by
  unfold extend
  induction g with
  | nil => simp
  | cons e es ih =>
    simp only [List.filterMap_cons, List.filter_cons]
    by_cases hc : e.src = s.cur ∧ validNext s.edges e = true
    · simp only [hc, and_self, if_true, List.filter_cons]
      have hP : Sol.allEdges Q ⟨s.edges ++ [e], e.dst, s.cost + e.edge.weight⟩ = (s.allEdges Q && Q e) := by
        simp [Sol.allEdges, List.all_append]
      rw [hP, ih]
      cases hs : s.allEdges Q <;> cases hq : Q e <;> simp [hc]
    · simp only [hc, if_false]
      rw [ih]
      cases hs : s.allEdges Q <;> cases hq : Q e <;> simp [hc]

theorem flatMap_extend_filter (g : List GEdge) (Q : GEdge → Bool) (fr : List Sol) :
    (fr.flatMap (extend g)).filter (Sol.allEdges Q)
      = (fr.filter (Sol.allEdges Q)).flatMap (extend (g.filter Q)) := by
  induction fr with
  | nil => simp
  | cons s rest ih =>
    simp only [List.flatMap_cons, List.filter_append, ih, extend_filter, List.filter_cons]
    cases hs : s.allEdges Q <;> simp

theorem filter_comm' {α : Type} (p q : α → Bool) (l : List α) :
    (l.filter p).filter q = (l.filter q).filter p := by
  rw [List.filter_filter, List.filter_filter]
  congr 1; funext x; exact Bool.and_comm _ _

theorem bfs_filter (g : List GEdge) (Q : GEdge → Bool) (dst : Nat) : ∀ (fuel : Nat) (fr : List Sol),
    (bfs g dst fuel fr).filter (Sol.allEdges Q)
      = bfs (g.filter Q) dst fuel (fr.filter (Sol.allEdges Q)) := by
  intro fuel
  induction fuel with
  | zero => intro fr; simp [bfs]
  | succ n ih =>
    intro fr
    simp only [bfs, List.filter_append]
    rw [ih, filter_comm', filter_comm' _ (Sol.allEdges Q), flatMap_extend_filter]

/-- if every complete candidate over `g` uses only `Q`-edges, the search over `g` and over the
`Q`-edges alone returns the same list -/
theorem candidates_filter (g : List GEdge) (Q : GEdge → Bool) (src dst : Nat)
    (h : ∀ s ∈ candidates g src dst, ∀ e ∈ s.edges, Q e = true) :
    candidates g src dst = candidates (g.filter Q) src dst := by
  have h1 := bfs_filter g Q dst bfsRounds [Sol.new (.as src)]
  have h2 : (candidates g src dst).filter (Sol.allEdges Q) = candidates g src dst := by
    rw [List.filter_eq_self]
    intro s hs
    simp only [Sol.allEdges, List.all_eq_true]
    exact h s hs
  unfold candidates at *
  rw [← h2, h1]
  have : [Sol.new (Vertex.as src)].filter (Sol.allEdges Q) = [Sol.new (Vertex.as src)] := by
    simp [Sol.allEdges, Sol.new]
  rw [this]

theorem eraseDups_filter (p : InSeg → Bool) : ∀ (n : Nat) (l : List InSeg), l.length ≤ n →
    l.eraseDups.filter p = (l.filter p).eraseDups := by
  intro n
  induction n with
  | zero => intro l h; have : l = [] := List.length_eq_zero_iff.mp (by omega); subst this; simp
  | succ n ih =>
    intro l h
    cases l with
    | nil => simp
    | cons a as =>
      have hlen : (as.filter fun b => !b == a).length ≤ n := by
        have := List.length_filter_le (fun b => !b == a) as
        simp at h; omega
      rw [List.eraseDups_cons]
      by_cases hp : p a = true
      · simp only [List.filter_cons, hp, if_true]
        rw [List.eraseDups_cons, ih _ hlen, filter_comm']
      · have hp' : p a = false := by simpa using hp
        simp only [List.filter_cons, hp', Bool.false_eq_true, if_false]
        rw [ih _ hlen, List.filter_filter]
        congr 1
        apply List.filter_congr
        intro x _
        by_cases hx : p x = true
        · have : x ≠ a := by intro e; rw [e] at hx; rw [hx] at hp'; cases hp'
          simp [hx, this]
        · simp [hx]

theorem segEdges_filter (good : List InSeg) (s : InSeg) :
    (segEdges s).filter (fun e => decide (e.seg ∈ good)) = if s ∈ good then segEdges s else [] := by
  split
  · rename_i h
    rw [List.filter_eq_self]
    intro e he
    rw [(mem_segEdges he).1]; simpa using h
  · rename_i h
    rw [List.filter_eq_nil_iff]
    intro e he
    rw [(mem_segEdges he).1]; simpa using h

theorem graphOf_filter (good segs : List InSeg) :
    (graphOf segs).filter (fun e => decide (e.seg ∈ good))
      = graphOf (segs.filter fun s => decide (s ∈ good)) := by
  unfold graphOf
  rw [List.filter_flatMap, ← eraseDups_filter _ _ segs (Nat.le_refl _)]
  generalize segs.eraseDups = l
  induction l with
  | nil => simp
  | cons a as ih =>
    simp only [List.flatMap_cons, List.filter_cons]
    rw [ih, segEdges_filter]
    by_cases h : a ∈ good <;> simp [h]

/-- segments that occur in no complete candidate solution do not change the sorted candidate list -/
theorem sortedCandidates_garbage (src dst : Nat) (segs segs' : List InSeg)
    (h1 : segs'.filter (fun s => decide (s ∈ segs)) = segs)
    (h2 : ∀ s ∈ candidates (graphOf segs') src dst, ∀ e ∈ s.edges, e.seg ∈ segs) :
    sortedCandidates src dst segs' = sortedCandidates src dst segs := by
  unfold sortedCandidates
  rw [candidates_filter (graphOf segs') (fun e => decide (e.seg ∈ segs)) src dst
    (fun s hs e he => by simpa using h2 s hs e he), graphOf_filter, h1]

/-! ## 8. `filter_duplicates` -/

theorem insertDedup_keys (l : List Path) (p : Path) :
    (insertDedup l p).map Path.dedupKey =
      if p.dedupKey ∈ l.map Path.dedupKey then l.map Path.dedupKey else l.map Path.dedupKey ++ [p.dedupKey] := by
  induction l with
  | nil => simp [insertDedup]
  | cons q qs ih =>
    unfold insertDedup
    by_cases hq : q.dedupKey = p.dedupKey
    · rw [if_pos hq]
      have hmem : p.dedupKey ∈ (q :: qs).map Path.dedupKey := by simp [hq]
      rw [if_pos hmem]
      split <;> simp [hq]
    · rw [if_neg hq]
      simp only [List.map_cons, ih, List.mem_cons]
      by_cases hm : p.dedupKey ∈ qs.map Path.dedupKey
      · simp [hm]
      · have hq' : ¬ p.dedupKey = q.dedupKey := fun h => hq h.symm
        simp [hm, hq']

theorem insertDedup_nodup (l : List Path) (p : Path) (h : (l.map Path.dedupKey).Nodup) :
    ((insertDedup l p).map Path.dedupKey).Nodup := by
  rw [insertDedup_keys]
  split
  · exact h
  · rename_i hn
    rw [List.nodup_append]
    refine ⟨h, by simp, ?_⟩
    intro a ha b hb
    simp at hb
    subst hb
    intro e
    exact hn (e ▸ ha)

theorem foldl_insertDedup_nodup : ∀ (ps acc : List Path), (acc.map Path.dedupKey).Nodup →
    ((ps.foldl insertDedup acc).map Path.dedupKey).Nodup := by
  intro ps
  induction ps with
  | nil => intro acc h; exact h
  | cons p rest ih => intro acc h; exact ih _ (insertDedup_nodup acc p h)

theorem filterDuplicates_nodup (ps : List Path) : ((filterDuplicates ps).map Path.dedupKey).Nodup :=
  foldl_insertDedup_nodup ps [] (by simp)

/-- every key of the input survives, and the survivor does not expire earlier -/
theorem insertDedup_keeps (l : List Path) (p x : Path) (hx : x ∈ l ∨ x = p) :
    ∃ y ∈ insertDedup l p, y.dedupKey = x.dedupKey ∧ x.expiry ≤ y.expiry := by
  induction l with
  | nil =>
    rcases hx with hx | hx
    · simp at hx
    · subst hx; exact ⟨x, by simp [insertDedup], rfl, Nat.le_refl _⟩
  | cons q qs ih =>
    unfold insertDedup
    by_cases hq : q.dedupKey = p.dedupKey
    · rw [if_pos hq]
      by_cases he : p.expiry > q.expiry
      · rw [if_pos he]
        rcases hx with hx | hx
        · rcases List.mem_cons.mp hx with hx | hx
          · subst hx; exact ⟨p, List.mem_cons_self, hq.symm, by omega⟩
          · exact ⟨x, List.mem_cons_of_mem _ hx, rfl, Nat.le_refl _⟩
        · subst hx; exact ⟨x, List.mem_cons_self, rfl, Nat.le_refl _⟩
      · rw [if_neg he]
        rcases hx with hx | hx
        · exact ⟨x, hx, rfl, Nat.le_refl _⟩
        · subst hx; exact ⟨q, List.mem_cons_self, hq, by omega⟩
    · rw [if_neg hq]
      rcases hx with hx | hx
      · rcases List.mem_cons.mp hx with hx | hx
        · subst hx; exact ⟨x, List.mem_cons_self, rfl, Nat.le_refl _⟩
        · rcases ih (Or.inl hx) with ⟨y, hy, h1, h2⟩
          exact ⟨y, List.mem_cons_of_mem _ hy, h1, h2⟩
      · rcases ih (Or.inr hx) with ⟨y, hy, h1, h2⟩
        exact ⟨y, List.mem_cons_of_mem _ hy, h1, h2⟩

theorem foldl_insertDedup_keeps : ∀ (ps acc : List Path) (x : Path), x ∈ acc ∨ x ∈ ps →
    ∃ y ∈ ps.foldl insertDedup acc, y.dedupKey = x.dedupKey ∧ x.expiry ≤ y.expiry := by
  intro ps
  induction ps with
  | nil =>
    intro acc x hx
    rcases hx with hx | hx
    · exact ⟨x, hx, rfl, Nat.le_refl _⟩
    · simp at hx
  | cons p rest ih =>
    intro acc x hx
    simp only [List.foldl_cons]
    have hstep : ∃ y ∈ insertDedup acc p, y.dedupKey = x.dedupKey ∧ x.expiry ≤ y.expiry ∨ x ∈ rest := by
      rcases hx with hx | hx
      · rcases insertDedup_keeps acc p x (Or.inl hx) with ⟨y, hy, h⟩
        exact ⟨y, hy, Or.inl h⟩
      · rcases List.mem_cons.mp hx with hx | hx
        · rcases insertDedup_keeps acc p x (Or.inr hx) with ⟨y, hy, h⟩
          exact ⟨y, hy, Or.inl h⟩
        · rcases insertDedup_keeps acc p p (Or.inr rfl) with ⟨y, hy, _⟩
          exact ⟨y, hy, Or.inr hx⟩
    rcases hstep with ⟨y, hy, h | h⟩
    · rcases ih (insertDedup acc p) y (Or.inl hy) with ⟨z, hz, h1, h2⟩
      exact ⟨z, hz, h1.trans h.1, Nat.le_trans h.2 h2⟩
    · exact ih (insertDedup acc p) x (Or.inr h)

theorem filterDuplicates_keeps (ps : List Path) (x : Path) (hx : x ∈ ps) :
    ∃ y ∈ filterDuplicates ps, y.dedupKey = x.dedupKey ∧ x.expiry ≤ y.expiry :=
  foldl_insertDedup_keeps ps [] x (Or.inr hx)

end ScionVerif.Comb
