import ScionVerif.Model.Combinator
/-!
Helper lemmas for the path-combinator model (C19, C04).  Property theorems live in
`Theorems/C19.lean` and `Theorems/C04.lean`.
-/
namespace ScionVerif.Comb
open ScionVerif.Generated.Comb

deriving instance DecidableEq for Except

/-! ## 1. the graph: every edge refers to a valid position of its own segment -/

/-- what the `expect`s of `PathSolution::path` rely on -/
structure EdgeOk (s : Seg) (e : Edge) : Prop where
  sc_lt : e.shortcut < s.len
  peer_ok : ∀ pi, e.peer = some pi → ∃ a, s.entries[e.shortcut]? = some a ∧ pi < a.peers.length

theorem lastWins_subset (l : List Ins) : ∀ x ∈ lastWins l, x ∈ l := by
  induction l with
  | nil => simp [lastWins]
  | cons a as ih =>
    intro x hx
    unfold lastWins at hx
    split at hx
    · exact List.mem_cons_of_mem _ (ih x hx)
    · rcases List.mem_cons.mp hx with h | h
      · exact h ▸ List.mem_cons_self
      · exact List.mem_cons_of_mem _ (ih x h)

theorem lastWins_length_le (l : List Ins) : (lastWins l).length ≤ l.length := by
  induction l with
  | nil => simp [lastWins]
  | cons a as ih =>
    unfold lastWins
    split
    · simp; omega
    · simp; omega

theorem firstIa_some {s : Seg} {f : Nat} (h : s.firstIa = some f) : 0 < s.len := by
  unfold Seg.firstIa at h
  unfold Seg.len
  cases hE : s.entries with
  | nil => simp [hE] at h
  | cons a as => simp

theorem lastIa_some {s : Seg} {f : Nat} (h : s.lastIa = some f) : 0 < s.len := by
  unfold Seg.lastIa at h
  unfold Seg.len
  cases hE : s.entries with
  | nil => simp [hE] at h
  | cons a as => simp

theorem lastIa_isSome_of_pos {s : Seg} (h : 0 < s.len) : ∃ l, s.lastIa = some l := by
  unfold Seg.lastIa Seg.len at *
  cases hE : s.entries.getLast? with
  | none => rw [List.getLast?_eq_none_iff] at hE; simp [hE] at h
  | some a => exact ⟨a.ia, by simp⟩

theorem coreInserts_ok (s : Seg) : ∀ i ∈ coreInserts s, EdgeOk s i.2.2 := by
  intro i hi
  unfold coreInserts at hi
  split at hi
  · rename_i f l hf hl
    have hpos := firstIa_some hf
    simp at hi
    rcases hi with h | h <;> subst h <;> exact ⟨hpos, by simp⟩
  · simp at hi

theorem entryInserts_ok (s : Seg) (leaf : Nat) (x : AsE × Nat) (hx : x ∈ s.entries.zipIdx) :
    ∀ i ∈ entryInserts s leaf x, EdgeOk s i.2.2 := by
  have hget : s.entries[x.2]? = some x.1 := List.mem_zipIdx_iff_getElem?.mp hx
  have hlt : x.2 < s.len := by
    unfold Seg.len
    exact (List.getElem?_eq_some_iff.mp hget).1
  intro i hi
  unfold entryInserts at hi
  rcases List.mem_append.mp hi with h | h
  · split at h
    · simp at h
      rcases h with h | h <;> subst h <;> exact ⟨hlt, by simp⟩
    · simp at h
  · rcases List.mem_flatMap.mp h with ⟨p, hp, hi'⟩
    have hpl : p.2 < x.1.peers.length := by
      have := List.mem_zipIdx_iff_getElem?.mp hp
      exact (List.getElem?_eq_some_iff.mp this).1
    simp at hi'
    rcases hi' with h | h <;> subst h
    · exact ⟨hlt, by intro pi hpi; simp at hpi; subst hpi; exact ⟨x.1, hget, hpl⟩⟩
    · exact ⟨hlt, by intro pi hpi; simp at hpi; subst hpi; exact ⟨x.1, hget, hpl⟩⟩

theorem nonCoreInserts_ok (s : Seg) : ∀ i ∈ nonCoreInserts s, EdgeOk s i.2.2 := by
  intro i hi
  unfold nonCoreInserts at hi
  split at hi
  · simp at hi
  · rename_i leaf _
    rcases List.mem_flatMap.mp hi with ⟨x, hx, hi'⟩
    exact entryInserts_ok s leaf x (List.mem_reverse.mp hx) i hi'

theorem inserts_ok (s : InSeg) : ∀ i ∈ inserts s, EdgeOk s.seg i.2.2 := by
  intro i hi
  unfold inserts at hi
  split at hi
  · exact coreInserts_ok _ i hi
  · exact nonCoreInserts_ok _ i hi

theorem mem_segEdges {s : InSeg} {e : GEdge} (h : e ∈ segEdges s) :
    e.seg = s ∧ (e.src, e.dst, e.edge) ∈ inserts s := by
  unfold segEdges at h
  rcases List.mem_map.mp h with ⟨i, hi, rfl⟩
  exact ⟨rfl, lastWins_subset _ _ hi⟩

theorem mem_graphOf {segs : List InSeg} {e : GEdge} (h : e ∈ graphOf segs) :
    e.seg ∈ segs ∧ e ∈ segEdges e.seg := by
  unfold graphOf at h
  rcases List.mem_flatMap.mp h with ⟨s, hs, he⟩
  have := (mem_segEdges he).1
  subst this
  exact ⟨List.mem_eraseDups.mp hs, he⟩

theorem graphOf_edgeOk {segs : List InSeg} {e : GEdge} (h : e ∈ graphOf segs) :
    EdgeOk e.seg.seg e.edge :=
  inserts_ok e.seg _ (mem_segEdges (mem_graphOf h).2).2

/-- the `u64` subtraction of `number_of_hops` never underflows -/
theorem weightsOk_all (s : InSeg) : weightsOk s = true := by
  unfold weightsOk
  split
  · cases hf : s.seg.firstIa with
    | none => simp
    | some f => simp; right; exact firstIa_some hf
  · cases hl : s.seg.lastIa with
    | none => simp
    | some l =>
      simp
      intro a i hx
      have := List.mem_zipIdx_iff_getElem?.mp hx
      have := (List.getElem?_eq_some_iff.mp this).1
      unfold Seg.len
      simp at this
      omega

/-! ## 2. the search: candidates use graph edges, at most `MAX_SEGMENTS` of them -/

theorem validNext_len {es : List GEdge} {n : InSeg} (h : validNext es n = true) : es.length ≤ 2 := by
  unfold validNext at h
  split at h <;> simp_all

theorem mem_extend {g : List GEdge} {s t : Sol} (h : t ∈ extend g s) :
    ∃ e ∈ g, e.src = s.cur ∧ validNext s.edges e.seg = true ∧
      t = ⟨s.edges ++ [e], e.dst, s.cost + e.edge.weight⟩ := by
  unfold extend at h
  rcases List.mem_filterMap.mp h with ⟨e, he, hf⟩
  split at hf
  · rename_i hc
    simp at hf
    exact ⟨e, he, hc.1, hc.2, hf.symm⟩
  · simp at hf

/-- invariant of every solution the search ever holds -/
structure SolOk (g : List GEdge) (s : Sol) : Prop where
  edges_mem : ∀ e ∈ s.edges, e ∈ g
  len_le : s.edges.length ≤ MAX_SEGMENTS

theorem extend_solOk {g : List GEdge} {s t : Sol} (hs : SolOk g s) (h : t ∈ extend g s) : SolOk g t := by
  rcases mem_extend h with ⟨e, he, _, hv, rfl⟩
  constructor
  · intro x hx
    rcases List.mem_append.mp hx with h | h
    · exact hs.edges_mem x h
    · simp at h; subst h; exact he
  · have := validNext_len hv
    simp [MAX_SEGMENTS]; omega

theorem bfs_solOk (g : List GEdge) (dst : Nat) : ∀ (fuel : Nat) (fr : List Sol),
    (∀ s ∈ fr, SolOk g s) → ∀ t ∈ bfs g dst fuel fr, SolOk g t := by
  intro fuel
  induction fuel with
  | zero => intro fr _ t ht; simp [bfs] at ht
  | succ n ih =>
    intro fr hfr t ht
    simp only [bfs] at ht
    have hnew : ∀ s ∈ fr.flatMap (extend g), SolOk g s := by
      intro s hs
      rcases List.mem_flatMap.mp hs with ⟨p, hp, hsp⟩
      exact extend_solOk (hfr p hp) hsp
    rcases List.mem_append.mp ht with h | h
    · exact hnew t (List.mem_filter.mp h).1
    · exact ih _ (fun s hs => hnew s (List.mem_filter.mp hs).1) t h

theorem candidates_solOk (g : List GEdge) (src dst : Nat) : ∀ t ∈ candidates g src dst, SolOk g t := by
  apply bfs_solOk
  intro s hs
  simp at hs
  subst hs
  exact ⟨by simp [Sol.new], by simp [Sol.new]⟩

/-! ## 3. `PathSolution::path` does not panic on such solutions -/

theorem walk_ok (sc : Nat) (peer : Option Nat) : ∀ (l : List (AsE × Nat)) (mtu : Nat),
    (∀ x ∈ l, x.2 = sc → ∀ pi, peer = some pi → pi < x.1.peers.length) →
    ∃ r, walk sc peer l mtu = .ok r := by
  intro l
  induction l with
  | nil => intro mtu _; exact ⟨_, rfl⟩
  | cons x rest ih =>
    intro mtu h
    have hp : ∃ r, pickHop sc peer x.1 x.2 mtu = .ok r := by
      unfold pickHop
      cases peer with
      | none => exact ⟨_, rfl⟩
      | some pi =>
        simp only
        split
        · rename_i heq
          have := h x List.mem_cons_self heq pi rfl
          have hs : x.1.peers[pi]? = some x.1.peers[pi] := List.getElem?_eq_getElem this
          rw [hs]
          exact ⟨_, rfl⟩
        · exact ⟨_, rfl⟩
    rcases hp with ⟨⟨hf, m1⟩, hp⟩
    rcases ih (min m1 (x.1.mtu % 2 ^ AS_MTU_CAST_BITS)) (fun y hy => h y (List.mem_cons_of_mem _ hy)) with ⟨⟨m, ifs, hops⟩, hr⟩
    unfold walk
    simp only [hp, hr]
    exact ⟨_, rfl⟩

theorem consDirOf_ok {e : GEdge} (h : 0 < e.seg.seg.len) : ∃ b, consDirOf e = .ok b := by
  rcases lastIa_isSome_of_pos h with ⟨l, hl⟩
  unfold consDirOf
  simp only [hl]
  exact ⟨_, rfl⟩

theorem initSegId_ok {e : GEdge} (h : EdgeOk e.seg.seg e.edge) : ∃ v, initSegId e = .ok v := by
  have hpos : 0 < e.seg.seg.len := Nat.lt_of_le_of_lt (Nat.zero_le _) h.sc_lt
  rcases consDirOf_ok hpos with ⟨b, hb⟩
  have hsc := h.sc_lt
  unfold initSegId
  rw [hb]
  simp only
  rw [if_neg (by omega)]
  cases b
  · simp only [Bool.false_eq_true, if_false]
    split
    · rw [if_neg (by omega)]; exact ⟨_, rfl⟩
    · rw [if_neg (by omega)]; exact ⟨_, rfl⟩
  · simp only [if_true]
    split
    · rw [if_neg (by omega)]; exact ⟨_, rfl⟩
    · rw [if_neg (by omega)]; exact ⟨_, rfl⟩

theorem edgePart_ok {e : GEdge} (h : EdgeOk e.seg.seg e.edge) (mtu : Nat) :
    ∃ r, edgePart e mtu = .ok r := by
  have hsc := h.sc_lt
  have hpos : 0 < e.seg.seg.len := by omega
  have hw : ∃ r, walk e.edge.shortcut e.edge.peer
      (e.seg.seg.entries.zipIdx.drop e.edge.shortcut).reverse mtu = .ok r := by
    apply walk_ok
    intro x hx hx2 pi hpi
    have hx' : x ∈ e.seg.seg.entries.zipIdx := List.mem_of_mem_drop (List.mem_reverse.mp hx)
    have hget := List.mem_zipIdx_iff_getElem?.mp hx'
    rcases h.peer_ok pi hpi with ⟨a, ha, hlt⟩
    rw [hx2, ha] at hget
    simp at hget
    rw [← hget]; exact hlt
  rcases hw with ⟨⟨m, ifs, hops⟩, hw⟩
  rcases consDirOf_ok hpos with ⟨b, hb⟩
  rcases initSegId_ok h with ⟨v, hv⟩
  unfold edgePart
  rw [if_neg (by omega), hw]
  simp only [hb, hv]
  exact ⟨_, rfl⟩

theorem edgeParts_ok : ∀ (es : List GEdge) (mtu n : Nat),
    (∀ e ∈ es, EdgeOk e.seg.seg e.edge) → n + es.length ≤ MAX_SEGMENTS →
    ∃ r, edgeParts es mtu n = .ok r := by
  intro es
  induction es with
  | nil => intro mtu n _ _; exact ⟨_, rfl⟩
  | cons e rest ih =>
    intro mtu n h hn
    rcases edgePart_ok (h e List.mem_cons_self) mtu with ⟨⟨m, ifs, ps⟩, he⟩
    simp at hn
    rcases ih m (n + 1) (fun x hx => h x (List.mem_cons_of_mem _ hx)) (by omega) with ⟨⟨m', ifs', pss⟩, hr⟩
    unfold edgeParts
    simp only [he]
    rw [if_neg (by omega)]
    simp only [hr]
    exact ⟨_, rfl⟩

theorem expSecs_le (e : Nat) : expSecs e ≤ u32Max := by
  unfold expSecs u32Max EXP_UNIT_MS
  omega

theorem pathExpiry_ok (segs : List PSeg) : ∃ v, pathExpiry segs = .ok v := by
  unfold pathExpiry
  have : (segs.any fun s => decide (expSecs (minExp s.hops) > u32Max)) = false := by
    rw [List.any_eq_false]
    intro s _
    have := expSecs_le (minExp s.hops)
    simp; omega
  rw [this]
  simp only [Bool.false_eq_true, if_false]
  split <;> exact ⟨_, rfl⟩

theorem segLenU8_lt_of_encodeOk {segs : List PSeg} (h : encodeOk segs = true) (i : Nat) :
    segLenU8 segs i ≤ MAX_SEGMENT_HOPS := by
  unfold encodeOk at h
  simp only [Bool.and_eq_true] at h
  have hall := h.2
  rw [List.all_eq_true] at hall
  unfold segLenU8
  cases hi : segs[i]? with
  | none => simp
  | some s =>
    have hmem : s ∈ segs := List.mem_of_getElem? hi
    have := hall s hmem
    simp at this
    simp
    have h2 := this.1
    exact Nat.le_trans (Nat.mod_le _ _) h2

theorem viewOk_of_encodeOk {segs : List PSeg} (h : encodeOk segs = true) : viewOk segs = true := by
  unfold viewOk
  have h0 := segLenU8_lt_of_encodeOk h 0
  have h1 := segLenU8_lt_of_encodeOk h 1
  have h2 := segLenU8_lt_of_encodeOk h 2
  unfold MAX_SEGMENT_HOPS at h0 h1 h2
  simp only [Bool.and_eq_true]
  refine ⟨⟨?_, ?_⟩, ?_⟩ <;> apply decide_eq_true <;>
    simp only [SEG0_LEN_BITS, SEG1_LEN_BITS, SEG2_LEN_BITS] <;> omega

theorem solPath_no_panic {g : List GEdge} {s : Sol} (hs : SolOk g s)
    (hg : ∀ e ∈ g, EdgeOk e.seg.seg e.edge) : ∀ st, solPath s ≠ .panic st := by
  intro st
  unfold solPath
  split
  · simp
  · rcases edgeParts_ok s.edges MTU_INIT 0 (fun e he => hg e (hs.edges_mem e he)) (by have := hs.len_le; omega)
      with ⟨⟨mtu, ifs, segs⟩, hr⟩
    rw [hr]
    simp only
    rcases pathExpiry_ok segs with ⟨v, hv⟩
    rw [hv]
    simp only
    split
    · simp
    · rename_i henc
      have henc' : encodeOk segs = true := by simpa using henc
      rw [viewOk_of_encodeOk henc']
      simp only [Bool.not_true, Bool.false_eq_true, if_false]
      split <;> simp

theorem pathsOf_ok : ∀ (l : List Sol), (∀ s ∈ l, ∀ st, solPath s ≠ .panic st) →
    ∃ ps, pathsOf l = .ok ps := by
  intro l
  induction l with
  | nil => intro _; exact ⟨_, rfl⟩
  | cons s rest ih =>
    intro h
    rcases ih (fun x hx => h x (List.mem_cons_of_mem _ hx)) with ⟨ps, hps⟩
    have hs := h s List.mem_cons_self
    unfold pathsOf
    cases hsp : solPath s with
    | panic st => exact absurd hsp (hs st)
    | dropped => exact ⟨ps, by simp only [hps]⟩
    | path p => exact ⟨p :: ps, by simp only [hps]⟩

theorem mem_sortedCandidates {src dst : Nat} {segs : List InSeg} {s : Sol} :
    s ∈ sortedCandidates src dst segs ↔ s ∈ candidates (graphOf segs) src dst := by
  unfold sortedCandidates sortSols
  exact List.mem_mergeSort

theorem sortedCandidates_no_panic (src dst : Nat) (segs : List InSeg) :
    ∀ s ∈ sortedCandidates src dst segs, ∀ st, solPath s ≠ .panic st := by
  intro s hs
  exact solPath_no_panic (candidates_solOk _ _ _ s (mem_sortedCandidates.mp hs))
    (fun e he => graphOf_edgeOk he)

/-- `combine` without the (never failing) checks -/
theorem combine_eq (src dst : Nat) (cores nonCores : List Seg) (hne : src ≠ dst) :
    ∃ ps, pathsOf (sortedCandidates src dst (inputSegs cores nonCores)) = .ok ps ∧
      combine src dst cores nonCores = .ok (filterDuplicates (ps.filter fun p => !hasLoops p)) := by
  rcases pathsOf_ok _ (sortedCandidates_no_panic src dst (inputSegs cores nonCores)) with ⟨ps, hps⟩
  refine ⟨ps, hps, ?_⟩
  unfold combine
  rw [if_neg hne]
  have hall : (inputSegs cores nonCores).all weightsOk = true := by
    rw [List.all_eq_true]; intro x _; exact weightsOk_all x
  simp only [hall, Bool.not_true, Bool.false_eq_true, if_false, hps]

end ScionVerif.Comb
