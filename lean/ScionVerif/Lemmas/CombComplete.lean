import ScionVerif.Lemmas.CombSpec
import ScionVerif.Lemmas.CombOrder
/-!
Completeness lemmas (C04 `complete`): every valid combination of `Spec/Combine.lean` is found by the
search, provided no `HashMap::insert` of the graph construction overwrites an edge and the leaf AS of a
segment does not occur earlier in it.
-/
namespace ScionVerif.Comb
open ScionVerif.Generated.Comb

/-- no `add_directed_edge` call of the segment replaces an earlier one (true when no AS and no
peering link occurs twice in the segment) -/
def NoOverwrite (s : InSeg) : Prop := lastWins (inserts s) = inserts s

/-- the leaf AS (last entry) occurs nowhere else in the segment -/
def NoRepeatLeaf (s : Seg) : Prop :=
  ∀ x ∈ s.entries.zipIdx, x.2 + 1 < s.len → ∀ leaf, s.lastIa = some leaf → x.1.ia ≠ leaf

theorem lastIa_of_getLast {s : Seg} {a : AsE} (h : s.entries.getLast? = some a) : s.lastIa = some a.ia := by
  simp [Seg.lastIa, h]

theorem mem_nonCoreInserts {s : Seg} {leaf : Nat} (hl : s.lastIa = some leaf) {x : AsE × Nat}
    (hx : x ∈ s.entries.zipIdx) {i : Ins} (hi : i ∈ entryInserts s leaf x) : i ∈ nonCoreInserts s := by
  unfold nonCoreInserts
  rw [hl]
  exact List.mem_flatMap.mpr ⟨x, List.mem_reverse.mpr hx, hi⟩

/-- every valid piece is one of the `add_directed_edge` calls for its segment -/
theorem piece_insert (pc : Spec.Piece) (hv : pc.Valid) (hnr : NoRepeatLeaf pc.seg.seg) (hlen : 2 ≤ pc.seg.seg.len) :
    ∃ i ∈ inserts pc.seg, pieceOf ⟨i.1, i.2.1, pc.seg, i.2.2⟩ = pc := by
  obtain ⟨s, cut, down, peer⟩ := pc
  simp only at hlen hnr
  have hcut : cut < s.seg.entries.length := hv.cut_lt
  have hpos : 0 < s.seg.len := by unfold Seg.len; omega
  rcases lastIa_isSome_of_pos hpos with ⟨leaf, hl⟩
  have ha : s.seg.entries[cut]? = some (s.seg.entries[cut]) := by simp
  generalize hae : s.seg.entries[cut] = a at ha
  have hxmem : (a, cut) ∈ s.seg.entries.zipIdx := List.mem_zipIdx_iff_getElem?.mpr ha
  cases hcore : s.core with
  | true =>
    have hcw := hv.core_whole hcore
    simp only at hcw
    rcases hcw with ⟨rfl, rfl⟩
    have hf : s.seg.firstIa = some a.ia := by
      unfold Seg.firstIa
      rw [List.head?_eq_getElem?, ha]; rfl
    have hins : inserts s = [(.as a.ia, .as leaf, ⟨numberOfHops s.seg 0 false, 0, none⟩),
        (.as leaf, .as a.ia, ⟨numberOfHops s.seg 0 false, 0, none⟩)] := by
      simp [inserts, hcore, coreInserts, hf, hl]
    cases down with
    | true =>
      refine ⟨_, by rw [hins]; exact List.mem_cons_self, ?_⟩
      simp [pieceOf, GEdge.consDir, Vertex.ia?, hl]
    | false =>
      refine ⟨(.as leaf, .as a.ia, ⟨numberOfHops s.seg 0 false, 0, none⟩), by rw [hins]; simp, ?_⟩
      have hne : a.ia ≠ leaf := hnr (a, 0) hxmem (by simp only; omega) leaf hl
      simp [pieceOf, GEdge.consDir, Vertex.ia?, hl, hne]
  | false =>
    have hins : inserts s = nonCoreInserts s.seg := by simp [inserts, hcore]
    cases peer with
    | none =>
      have hlink := hv.noncore_link hcore rfl
      simp only [Spec.Piece.len, Spec.Piece.entries] at hlink
      have hne1 : cut ≠ s.seg.len - 1 := by unfold Seg.len; omega
      have hmemA : ∀ i, i ∈ [(Vertex.as leaf, Vertex.as a.ia, (⟨numberOfHops s.seg cut false, cut, none⟩ : Edge)),
          (Vertex.as a.ia, Vertex.as leaf, (⟨numberOfHops s.seg cut false, cut, none⟩ : Edge))] →
          i ∈ inserts s := by
        intro i hi
        rw [hins]
        apply mem_nonCoreInserts hl hxmem
        unfold entryInserts
        apply List.mem_append_left
        simp only
        rw [if_pos hne1]
        exact hi
      cases down with
      | true =>
        refine ⟨(.as a.ia, .as leaf, ⟨numberOfHops s.seg cut false, cut, none⟩), hmemA _ (by simp), ?_⟩
        simp [pieceOf, GEdge.consDir, Vertex.ia?, hl]
      | false =>
        refine ⟨(.as leaf, .as a.ia, ⟨numberOfHops s.seg cut false, cut, none⟩), hmemA _ (by simp), ?_⟩
        have hne : a.ia ≠ leaf := hnr (a, cut) hxmem (by unfold Seg.len; simpa using hlink) leaf hl
        simp [pieceOf, GEdge.consDir, Vertex.ia?, hl, hne]
    | some pi =>
      rcases hv.peer_ok pi rfl with ⟨q, hq⟩
      have hq' : a.peers[pi]? = some q := by
        simp only [Spec.Piece.peerE?, Spec.Piece.entries, ha, Option.bind_some] at hq
        exact hq
      have hqmem : (q, pi) ∈ a.peers.zipIdx := List.mem_zipIdx_iff_getElem?.mpr hq'
      have hmemP : ∀ i, i ∈ [(Vertex.as leaf, Vertex.peering a.ia q.hop.ingress q.peer q.peerIf,
            (⟨numberOfHops s.seg cut true, cut, some pi⟩ : Edge)),
          (Vertex.peering q.peer q.peerIf a.ia q.hop.ingress, Vertex.as leaf,
            (⟨numberOfHops s.seg cut false, cut, some pi⟩ : Edge))] → i ∈ inserts s := by
        intro i hi
        rw [hins]
        apply mem_nonCoreInserts hl hxmem
        unfold entryInserts
        apply List.mem_append_right
        exact List.mem_flatMap.mpr ⟨(q, pi), hqmem, hi⟩
      cases down with
      | true =>
        refine ⟨_, hmemP _ (List.mem_cons_of_mem _ List.mem_cons_self), ?_⟩
        simp [pieceOf, GEdge.consDir, Vertex.ia?, hl]
      | false =>
        refine ⟨_, hmemP _ List.mem_cons_self, ?_⟩
        simp [pieceOf, GEdge.consDir, Vertex.ia?, hl]

/-- hypotheses on the given segments under which the multigraph contains every valid piece -/
structure GraphFaithful (segs : List InSeg) : Prop where
  noOverwrite : ∀ s ∈ segs, NoOverwrite s
  noRepeatLeaf : ∀ s ∈ segs, NoRepeatLeaf s.seg
  len2 : ∀ s ∈ segs, 2 ≤ s.seg.len

theorem piece_graph_edge {segs : List InSeg} (hg : GraphFaithful segs) (pc : Spec.Piece) (hv : pc.Valid)
    (hmem : pc.seg ∈ segs) : ∃ e ∈ graphOf segs, pieceOf e = pc := by
  rcases piece_insert pc hv (hg.noRepeatLeaf _ hmem) (hg.len2 _ hmem) with ⟨i, hi, hpi⟩
  refine ⟨⟨i.1, i.2.1, pc.seg, i.2.2⟩, ?_, hpi⟩
  unfold graphOf
  refine List.mem_flatMap.mpr ⟨pc.seg, List.mem_eraseDups.mpr hmem, ?_⟩
  unfold segEdges
  rw [hg.noOverwrite _ hmem]
  exact List.mem_map.mpr ⟨i, hi, rfl⟩

theorem jointOf_inj {a b : Vertex} (h : jointOf a = jointOf b) : a = b := by
  cases a <;> cases b <;> simp [jointOf] at h ⊢ <;> exact h

theorem jointOf_as {a : Vertex} {x : Nat} (h : jointOf a = .as x) : a = .as x := by
  cases a <;> simp [jointOf] at h ⊢; exact h

theorem foldl_stepSol_edges : ∀ (es : List GEdge) (s : Sol), (es.foldl stepSol s).edges = s.edges ++ es := by
  intro es
  induction es with
  | nil => intro s; simp
  | cons e rest ih => intro s; simp [ih, stepSol]

theorem usesOk_three {a b c : Spec.Use} (h : Spec.usesOk [a, b, c] = true) : Spec.usesOk [a, b] = true := by
  revert h; cases a <;> cases b <;> cases c <;> decide

/-- a valid combination whose intermediate joints are not the destination is a candidate solution -/
theorem combo_candidate {segs : List InSeg} (hg : GraphFaithful segs) {src dst : Nat} {c : List Spec.Piece}
    (hv : Spec.Valid segs src dst c) (hmid : ∀ p ∈ c.dropLast, p.to? ≠ some (.as dst)) :
    ∃ t ∈ candidates (graphOf segs) src dst, t.edges.map pieceOf = c := by
  -- pick an edge for every piece
  have pick : ∀ p ∈ c, ∃ e ∈ graphOf segs, pieceOf e = p :=
    fun p hp => piece_graph_edge hg p (hv.pieces p hp).1 (hv.pieces p hp).2
  have hk := hv.kinds
  have key : ∀ (es : List GEdge), es.map pieceOf = c → (∀ e ∈ es, e ∈ graphOf segs) →
      Walk (graphOf segs) dst (Sol.new (.as src)) es := by
    intro es hes hmem
    have hsrc : ∀ e ∈ es, (pieceOf e).from? = some (jointOf e.src) ∧ (pieceOf e).to? = some (jointOf e.dst) :=
      fun e he => ⟨(graphOf_piece (hmem e he)).1, (graphOf_piece (hmem e he)).2.1⟩
    subst hes
    have hstart := hv.start
    have hfin := hv.finish
    have hchain := hv.chain
    rw [List.map_map] at hk
    match es, hmem, hsrc, hstart, hfin, hchain, hk, hmid with
    | [], _, _, hstart, _, _, _, _ => simp at hstart
    | [e1], hmem, hsrc, hstart, hfin, _, _, _ =>
      simp only [List.map_cons, List.map_nil, List.head?_cons, Option.bind_some, List.getLast?_singleton] at hstart hfin
      have h1 := hsrc e1 List.mem_cons_self
      rw [h1.1] at hstart; rw [h1.2] at hfin
      injection hstart with hstart; injection hfin with hfin
      exact ⟨⟨hmem e1 List.mem_cons_self, by rw [jointOf_as hstart]; rfl, rfl⟩, jointOf_as hfin⟩
    | [e1, e2], hmem, hsrc, hstart, hfin, hchain, hk, hmid =>
      simp only [List.map_cons, List.map_nil, List.head?_cons, Option.bind_some] at hstart hfin
      have h1 := hsrc e1 List.mem_cons_self
      have h2 := hsrc e2 (by simp)
      rw [h1.1] at hstart
      have hfin' : (pieceOf e2).to? = some (.as dst) := by simpa using hfin
      rw [h2.2] at hfin'
      injection hstart with hstart; injection hfin' with hfin'
      simp only [List.map_cons, List.map_nil, Spec.chained] at hchain
      rcases hchain.1 with ⟨j, hj1, hj2⟩
      rw [h1.2] at hj1; rw [h2.1] at hj2
      have hlink : e1.dst = e2.src := jointOf_inj (by injection hj1 with hj1; injection hj2 with hj2; rw [hj1, hj2])
      have hm1 : e1.dst ≠ .as dst := by
        intro hd
        apply hmid (pieceOf e1) (by simp)
        rw [h1.2, hd]; rfl
      simp only [List.map_cons, List.map_nil, Function.comp, pieceOf_use] at hk
      refine ⟨⟨hmem e1 List.mem_cons_self, by rw [jointOf_as hstart]; rfl, rfl⟩, hm1, ?_⟩
      refine ⟨⟨hmem e2 (by simp), by simp [stepSol, hlink], ?_⟩, jointOf_as hfin'⟩
      simp only [stepSol, Sol.new, List.nil_append, validNext]
      rw [valid2_iff]; exact hk
    | [e1, e2, e3], hmem, hsrc, hstart, hfin, hchain, hk, hmid =>
      simp only [List.map_cons, List.map_nil, List.head?_cons, Option.bind_some] at hstart hfin
      have h1 := hsrc e1 List.mem_cons_self
      have h2 := hsrc e2 (by simp)
      have h3 := hsrc e3 (by simp)
      rw [h1.1] at hstart
      have hfin' : (pieceOf e3).to? = some (.as dst) := by simpa using hfin
      rw [h3.2] at hfin'
      injection hstart with hstart; injection hfin' with hfin'
      simp only [List.map_cons, List.map_nil, Spec.chained] at hchain
      rcases hchain.1 with ⟨j, hj1, hj2⟩
      rcases hchain.2.1 with ⟨k, hk1, hk2⟩
      rw [h1.2] at hj1; rw [h2.1] at hj2; rw [h2.2] at hk1; rw [h3.1] at hk2
      have hlink1 : e1.dst = e2.src := jointOf_inj (by injection hj1 with hj1; injection hj2 with hj2; rw [hj1, hj2])
      have hlink2 : e2.dst = e3.src := jointOf_inj (by injection hk1 with hk1; injection hk2 with hk2; rw [hk1, hk2])
      have hm1 : e1.dst ≠ .as dst := by
        intro hd
        apply hmid (pieceOf e1) (by simp)
        rw [h1.2, hd]; rfl
      have hm2 : e2.dst ≠ .as dst := by
        intro hd
        apply hmid (pieceOf e2) (by simp)
        rw [h2.2, hd]; rfl
      simp only [List.map_cons, List.map_nil, Function.comp, pieceOf_use] at hk
      have hab : valid2 e1.seg.core e1.consDir e2.seg.core e2.consDir = true := by
        rw [valid2_iff]; exact usesOk_three hk
      refine ⟨⟨hmem e1 List.mem_cons_self, by rw [jointOf_as hstart]; rfl, rfl⟩, hm1, ?_⟩
      refine ⟨⟨hmem e2 (by simp), by simp [stepSol, hlink1], ?_⟩, hm2, ?_⟩
      · simp only [stepSol, Sol.new, List.nil_append, validNext]
        exact hab
      · refine ⟨⟨hmem e3 (by simp), by simp [stepSol, hlink2], ?_⟩, jointOf_as hfin'⟩
        simp only [stepSol, Sol.new, List.nil_append, List.cons_append, validNext]
        rw [valid3_iff _ _ _ _ _ _ hab]; exact hk
    | e1 :: e2 :: e3 :: e4 :: _, _, _, _, _, _, hk, _ =>
      exfalso
      simp only [List.map_cons, Function.comp, pieceOf_use, Spec.usesOk, Bool.and_eq_true, decide_eq_true_eq] at hk
      have h1 := hk.1; have h2 := hk.2.1; have h3 := hk.2.2.1
      revert h1 h2 h3
      cases useOf e1.seg.core e1.consDir <;> cases useOf e2.seg.core e2.consDir <;>
        cases useOf e3.seg.core e3.consDir <;> cases useOf e4.seg.core e4.consDir <;> simp [Spec.Use.rank]
  -- choose the edges
  have choose : ∀ (ps : List Spec.Piece), (∀ p ∈ ps, ∃ e ∈ graphOf segs, pieceOf e = p) →
      ∃ es : List GEdge, es.map pieceOf = ps ∧ ∀ e ∈ es, e ∈ graphOf segs := by
    intro ps
    induction ps with
    | nil => intro _; exact ⟨[], rfl, by simp⟩
    | cons p rest ih =>
      intro h
      rcases h p List.mem_cons_self with ⟨e, he, hpe⟩
      rcases ih (fun q hq => h q (List.mem_cons_of_mem _ hq)) with ⟨es, hes, hm⟩
      exact ⟨e :: es, by simp [hpe, hes], by
        intro x hx
        rcases List.mem_cons.mp hx with hx | hx
        · exact hx ▸ he
        · exact hm x hx⟩
  rcases choose c pick with ⟨es, hes, hm⟩
  refine ⟨es.foldl stepSol (Sol.new (.as src)), candidates_complete _ src dst es (key es hes hm), ?_⟩
  rw [foldl_stepSol_edges]
  simpa [Sol.new] using hes

end ScionVerif.Comb
