import ScionVerif.Spec.RefRouter
/-! Helper lemmas about the data-plane model (`Model/SimRouter.lean`). Property theorems: `Theorems/C13.lean`. -/
namespace ScionVerif.Router
open ScionVerif.Generated.Router

theorem segIndex_final_is_end (p : Path) (h : Nat) (s : Nat) (st en : Bool)
    (hs : p.segIndex h = some (s, st, en)) (hf : h + 1 ≥ p.hopCount) : en = true := by
  unfold Path.segIndex at hs
  unfold Path.hopCount at hf
  split at hs
  · simp at hs; obtain ⟨_, _, rfl⟩ := hs; simp; omega
  · split at hs
    · simp at hs; obtain ⟨_, _, rfl⟩ := hs; simp; omega
    · split at hs
      · simp at hs; obtain ⟨_, _, rfl⟩ := hs; simp; omega
      · simp at hs

theorem segIndex_lt (p : Path) (h : Nat) (r) (hs : p.segIndex h = some r) : h < p.hopCount := by
  unfold Path.segIndex at hs
  unfold Path.hopCount
  split at hs
  · omega
  · split at hs
    · omega
    · split at hs
      · omega
      · simp at hs

/-- what a successful ingress advance does to the pointers -/
theorem advanceIngress_ok {macf : MacF} {c : VCtx} {p p1 : Path} {fi : Bool} {out : IngressOut} {v : Option VErr}
    (h : advanceIngress macf c p fi = .ok (p1, out, v)) :
    p1.seg0 = p.seg0 ∧ p1.seg1 = p.seg1 ∧ p1.seg2 = p.seg2 ∧ p.currHf ≤ p1.currHf ∧ p1.currHf ≤ p.currHf + 1 ∧
    p.currHf < p.hopCount ∧
    (out.action = .forwardLocal → p.currHf + 1 ≥ p.hopCount) := by
  unfold advanceIngress at h
  split at h
  · simp at h
  · rename_i segIdx segStart segEnd hseg
    have hlt := segIndex_lt p _ _ hseg
    split at h
    · simp at h
    · split at h
      · simp at h
      · simp only [] at h
        split at h
        · simp at h
        · simp at h
        · rename_i hop info hh hi
          split at h
          · rename_i hfin
            simp only [Except.ok.injEq, Prod.mk.injEq] at h
            obtain ⟨h1, h2, _⟩ := h
            subst h1 h2
            simp only [Bool.and_eq_true, decide_eq_true_eq] at hfin
            exact ⟨rfl, rfl, rfl, Nat.le_refl _, Nat.le_succ _, hlt, fun _ => hfin.1⟩
          · split at h
            · simp only [Except.ok.injEq, Prod.mk.injEq] at h
              obtain ⟨h1, h2, _⟩ := h
              subst h1 h2
              exact ⟨rfl, rfl, rfl, Nat.le_refl _, Nat.le_succ _, hlt, by simp⟩
            · split at h
              · split at h
                · simp at h
                · split at h
                  · simp at h
                  · simp at h
                  · simp only [Except.ok.injEq, Prod.mk.injEq] at h
                    obtain ⟨h1, h2, _⟩ := h
                    subst h1 h2
                    exact ⟨rfl, rfl, rfl, Nat.le_succ _, Nat.le_refl _, hlt, by simp⟩
              · simp at h

/-- the checks `validate_hop` makes on every hop field it accepts: segment not from the future, hop field
    not expired, MAC correct under this AS's key (unless MAC checking is switched off) -/
def Authentic (macf : MacF) (key : List UInt8) (now : Nat) (ign : Bool) (h : Hop) (i : Info) : Prop :=
  i.ts ≤ now ∧ now ≤ expiryTs h i ∧ (ign = true ∨ h.mac = macf key i.segId i.ts h.exp h.consIngress h.consEgress)

theorem ifaceCheck_none {c : VCtx} {h : Hop} {i : Info} (hv : ifaceCheck c h i = none) :
    (c.ingress = false → h.egressIf i = c.curIf) ∧
    (c.ingress = true → c.segChanged = false → c.curIf ≠ 0 → h.ingressIf i = c.curIf) := by
  unfold ifaceCheck at hv
  constructor
  · intro hin
    simp only [hin, Bool.false_eq_true, ↓reduceIte] at hv
    split at hv
    · simp at hv
    · rename_i hne; simpa using hne
  · intro hin hsc hne
    simp only [hin, hsc, Bool.false_eq_true, ↓reduceIte] at hv
    split at hv
    · simp at hv
    · rename_i hh; simp [hne] at hh; exact hh

theorem validateHop_none {macf : MacF} {c : VCtx} {h : Hop} {i : Info} (hv : validateHop macf c h i = none) :
    Authentic macf c.key c.now c.ignoreMacs h i ∧ (c.ingress = false → h.egressIf i = c.curIf) ∧
    (c.ingress = true → c.segChanged = false → c.curIf ≠ 0 → h.ingressIf i = c.curIf) := by
  unfold validateHop at hv
  split at hv
  · simp at hv
  · rename_i hif
    split at hv
    · simp at hv
    · split at hv
      · simp at hv
      · split at hv
        · simp at hv
        · rename_i h1 h2 h3
          refine ⟨⟨by omega, by omega, ?_⟩, ifaceCheck_none hif⟩
          cases hc : c.ignoreMacs
          · right; simpa [hc] using h3
          · left; rfl

/-- what a successful egress advance does: the pointer moves forward by exactly one hop field -/
theorem advanceEgress_ok {macf : MacF} {c : VCtx} {p p2 : Path} {eo : EgressOut} {v : Option VErr}
    (h : advanceEgress macf c p = .ok (p2, eo, v)) :
    p2.seg0 = p.seg0 ∧ p2.seg1 = p.seg1 ∧ p2.seg2 = p.seg2 ∧ p2.currHf = p.currHf + 1 ∧ p2.currInf = p.currInf ∧
    p.currHf + 1 < p.hopCount ∧
    ∃ hop info, p.hops[p.currHf]? = some hop ∧ p.infos[p.currInf]? = some info ∧
      v = validateHop macf c hop info ∧ eo.egressIf = hop.egressIf info := by
  unfold advanceEgress at h
  split at h
  · simp at h
  · split at h
    · simp at h
    · simp only [] at h
      split at h
      · simp at h
      · simp at h
      · rename_i hop info hh hi
        split at h
        · simp at h
        · rename_i hfin
          split at h
          · simp at h
          · split at h
            · simp at h
            · simp only [Except.ok.injEq, Prod.mk.injEq] at h
              obtain ⟨h1, h2, h3⟩ := h
              subst h1 h2 h3
              refine ⟨rfl, rfl, rfl, rfl, rfl, by omega, hop, info, hh, hi, rfl, ?_⟩
              by_cases hc : info.consDir = true <;> simp only [Hop.egressIf, hc] <;> (repeat' split) <;> first | rfl | simp_all


theorem hopCount_eq {p q : Path} (h0 : q.seg0 = p.seg0) (h1 : q.seg1 = p.seg1) (h2 : q.seg2 = p.seg2) :
    q.hopCount = p.hopCount := by simp [Path.hopCount, h0, h1, h2]

theorem validateSegChange_none {c : VCtx} {h nh : Hop} {i ni : Info} (hv : validateSegChange c h i nh ni = none) :
    ∃ a b, c.lookup (h.ingressIf i) = some a ∧ c.lookup (nh.egressIf ni) = some b ∧
      segChangeValid a.linkType b.linkType = true := by
  unfold validateSegChange at hv
  split at hv
  · simp at hv
  · split at hv
    · simp at hv
    · split at hv
      · simp at hv
      · rename_i a ha
        split at hv
        · simp at hv
        · rename_i b hb
          split at hv
          · rename_i hok; exact ⟨a, b, ha, hb, hok⟩
          · simp at hv

/-- a successful, validated ingress advance that changes the segment has validated the segment change and
    the second hop field -/
theorem advanceIngress_segchange {macf : MacF} {c : VCtx} {p p1 : Path} {fi : Bool} {out : IngressOut}
    (h : advanceIngress macf c p fi = .ok (p1, out, none)) (hne : p1.currInf ≠ p.currInf) :
    ∃ hop info nh ni, validateSegChange c hop info nh ni = none ∧
      validateHop macf { c with segChanged := true } nh ni = none ∧
      p.hops[p.currHf + 1]? = some nh ∧ out.action = .continueEgress (nh.egressIf ni) := by
  unfold advanceIngress at h
  split at h
  · simp at h
  · split at h
    · simp at h
    · split at h
      · simp at h
      · simp only [] at h
        split at h
        · simp at h
        · simp at h
        · split at h
          · simp only [Except.ok.injEq, Prod.mk.injEq] at h
            obtain ⟨h1, _, _⟩ := h; subst h1; simp at hne
          · split at h
            · simp only [Except.ok.injEq, Prod.mk.injEq] at h
              obtain ⟨h1, _, _⟩ := h; subst h1; simp at hne
            · split at h
              · split at h
                · simp at h
                · split at h
                  · simp at h
                  · simp at h
                  · rename_i nh ni hnh hni
                    simp only [Except.ok.injEq, Prod.mk.injEq] at h
                    obtain ⟨_, h2, h3⟩ := h
                    subst h2
                    -- the three validations are chained with `or_else`
                    split at h3
                    · simp at h3
                    · rename_i hv1
                      split at hv1
                      · simp at hv1
                      · rename_i hv0
                        exact ⟨_, _, nh, ni, hv1, h3, hnh, rfl⟩
              · simp at h


end ScionVerif.Router
