import ScionVerif.Lemmas.Router
/-!
# Which fields of the *received* packet a successful AS step relied on

`advanceIngress`/`advanceEgress` rewrite the packet while they validate it (SegID chaining, router-alert
flags).  The lemmas here tie every hop field / info field the validator accepted back to a position of the
packet as it arrived, so that the C13 theorems speak about the packet and not about free witnesses.
-/
namespace ScionVerif.Router
open ScionVerif.Generated.Router

/-- `h'` is `h` up to the router-alert flags (the only hop-field bits processing rewrites) -/
def Hop.SameAuth (h' h : Hop) : Prop :=
  h'.consIngress = h.consIngress ∧ h'.consEgress = h.consEgress ∧ h'.exp = h.exp ∧ h'.mac = h.mac

/-- `i'` is `i` up to the SegID, which is either unchanged or advanced by one `mac_beta_step` with `mac` -/
def Info.SameSeg (i' i : Info) (mac : Nat) : Prop :=
  i'.ts = i.ts ∧ i'.consDir = i.consDir ∧ i'.peer = i.peer ∧ (i'.segId = i.segId ∨ i'.segId = betaStep i.segId mac)

theorem Hop.SameAuth.refl (h : Hop) : h.SameAuth h := ⟨rfl, rfl, rfl, rfl⟩
theorem Info.SameSeg.refl (i : Info) (m : Nat) : i.SameSeg i m := ⟨rfl, rfl, rfl, .inl rfl⟩

theorem Hop.SameAuth.ingressIf {h' h : Hop} {i' i : Info} (hh : h'.SameAuth h) (hc : i'.consDir = i.consDir) :
    h'.ingressIf i' = h.ingressIf i := by
  unfold Hop.ingressIf; rw [hc, hh.1, hh.2.1]
theorem Hop.SameAuth.egressIf {h' h : Hop} {i' i : Info} (hh : h'.SameAuth h) (hc : i'.consDir = i.consDir) :
    h'.egressIf i' = h.egressIf i := by
  unfold Hop.egressIf; rw [hc, hh.1, hh.2.1]

theorem getElem?_setAt_self {α} {l : List α} {i : Nat} {a b : α} (h : l[i]? = some b) : (setAt l i a)[i]? = some a := by
  have hl : i < l.length := by
    rcases Nat.lt_or_ge i l.length with hlt | hge
    · exact hlt
    · rw [List.getElem?_eq_none hge] at h; simp at h
  simp [setAt, hl]

theorem getElem?_setAt_ne {α} {l : List α} {i j : Nat} {a : α} (h : i ≠ j) : (setAt l i a)[j]? = l[j]? := by
  simp [setAt, h]

/-- the alert-cleared copy of a hop field -/
theorem sameAuth_clear (hop : Hop) (b c : Bool) :
    (if b then (if c then { hop with inAlert := false } else { hop with egAlert := false }) else hop).SameAuth hop := by
  cases b <;> cases c <;> exact ⟨rfl, rfl, rfl, rfl⟩

theorem sameSeg_step (info : Info) (b : Bool) (mac : Nat) :
    (if b then { info with segId := betaStep info.segId mac } else info).SameSeg info mac := by
  cases b
  · exact Info.SameSeg.refl _ _
  · exact ⟨rfl, rfl, rfl, .inr rfl⟩

/-- Everything a successful, error-free ingress step relied on, in terms of the packet as received:
    * the current hop field `hopA` (under the current info field, SegID possibly advanced by `hopA`'s own MAC)
      passed `validate_hop` in the ingress context;
    * the hop field `hopE` the step leaves the pointer on (the same one, or the first of the next segment) is a
      field of the received packet, and the packet now carries it unchanged up to alert flags / SegID step;
    * if the info pointer moved, it moved by exactly one segment, `validate_segment_change` accepted the pair
      (`hopA`,`hopE`) and `hopE` passed `validate_hop` as second hop field of the crossover. -/
theorem advanceIngress_tie {macf : MacF} {c : VCtx} {p p1 : Path} {fi : Bool} {out : IngressOut}
    (h : advanceIngress macf c p fi = .ok (p1, out, none)) :
    ∃ hopA infoA infoA', p.hops[p.currHf]? = some hopA ∧ p.infos[p.currInf]? = some infoA ∧
      infoA'.SameSeg infoA hopA.mac ∧ validateHop macf c hopA infoA' = none ∧ out.ingressIf = hopA.ingressIf infoA ∧
      ∃ hopE infoE hop1 info1, p.hops[p1.currHf]? = some hopE ∧ p.infos[p1.currInf]? = some infoE ∧
        p1.hops[p1.currHf]? = some hop1 ∧ p1.infos[p1.currInf]? = some info1 ∧
        hop1.SameAuth hopE ∧ info1.SameSeg infoE hopE.mac ∧
        (p1.currInf ≠ p.currInf →
          p1.currHf = p.currHf + 1 ∧ p1.currInf = p.currInf + 1 ∧
          ∃ hopA', hopA'.SameAuth hopA ∧ validateSegChange c hopA' infoA' hopE infoE = none ∧
            validateHop macf { c with segChanged := true } hopE infoE = none ∧ hop1 = hopE ∧ info1 = infoE) := by
  unfold advanceIngress at h
  split at h
  · simp at h
  · rename_i segIdx segStart segEnd hseg
    split at h
    · simp at h
    · split at h
      · simp at h
      · rename_i hidx
        have hidx' : segIdx = p.currInf := by simpa using hidx
        simp only [] at h
        split at h
        · simp at h
        · simp at h
        · rename_i hop info hh hi
          split at h
          · -- final hop, delivered locally
            simp only [Except.ok.injEq, Prod.mk.injEq] at h
            obtain ⟨h1, h2, h3⟩ := h
            subst h1 h2
            refine ⟨hop, info, _, hh, hi, sameSeg_step info _ hop.mac, h3, rfl,
              hop, info, _, _, hh, hi, getElem?_setAt_self hh, getElem?_setAt_self hi,
              sameAuth_clear hop _ _, sameSeg_step info _ hop.mac, ?_⟩
            intro hne; simp at hne
          · split at h
            · -- inside a segment
              simp only [Except.ok.injEq, Prod.mk.injEq] at h
              obtain ⟨h1, h2, h3⟩ := h
              subst h1 h2
              refine ⟨hop, info, _, hh, hi, sameSeg_step info _ hop.mac, h3, rfl,
                hop, info, _, _, hh, hi, getElem?_setAt_self hh, getElem?_setAt_self hi,
                sameAuth_clear hop _ _, sameSeg_step info _ hop.mac, ?_⟩
              intro hne; simp at hne
            · split at h
              · split at h
                · simp at h
                · split at h
                  · simp at h
                  · simp at h
                  · rename_i nh ni hnh hni
                    simp only [Except.ok.injEq, Prod.mk.injEq] at h
                    obtain ⟨h1, h2, h3⟩ := h
                    subst h1 h2
                    subst hidx'
                    split at h3
                    · simp at h3
                    · rename_i hv1
                      split at hv1
                      · simp at hv1
                      · rename_i hv0
                        refine ⟨hop, info, _, hh, hi, sameSeg_step info _ hop.mac, hv0, rfl,
                          nh, ni, nh, ni, hnh, hni, ?_, ?_, Hop.SameAuth.refl _, Info.SameSeg.refl _ _, ?_⟩
                        · show (setAt p.hops p.currHf _)[p.currHf + 1]? = some nh
                          rw [getElem?_setAt_ne (by omega)]; exact hnh
                        · show (setAt p.infos _ _)[_ + 1]? = some ni
                          rw [getElem?_setAt_ne (by omega)]; exact hni
                        · intro _
                          exact ⟨rfl, rfl, _, sameAuth_clear hop _ _, hv1, h3, rfl, rfl⟩
              · simp at h

/-- what an error-free egress step relied on: the hop field under the pointer, as the packet carries it -/
theorem advanceEgress_tie {macf : MacF} {c : VCtx} {p p2 : Path} {eo : EgressOut}
    (h : advanceEgress macf c p = .ok (p2, eo, none)) :
    p2.currHf = p.currHf + 1 ∧ p2.currInf = p.currInf ∧
    ∃ hop info, p.hops[p.currHf]? = some hop ∧ p.infos[p.currInf]? = some info ∧
      validateHop macf c hop info = none ∧ eo.egressIf = hop.egressIf info := by
  obtain ⟨_, _, _, h4, h5, _, hop, info, hh, hi, hv, he⟩ := advanceEgress_ok h
  exact ⟨h4, h5, hop, info, hh, hi, hv.symm, he⟩

end ScionVerif.Router
