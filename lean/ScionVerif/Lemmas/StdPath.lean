import ScionVerif.Model.StdPath
import ScionVerif.Model.OneHop
/-!
# Lemmas for the standard-path model (C11, C12)

1. bytes ↔ numbers (`beNat`, `natBE`), field packing (`field`/`place`) for the three record layouts –
   proved from the generated bit ranges (a changed range re-checks these proofs);
2. `ofBytes`/`toBytes` are mutually inverse on accepted buffers;
3. list facts used by the reversal / conversion theorems;
4. the statement-sequence models (`Imp`) compute the summaries (`ingressImp_eq`, `egressImp_eq`, `reverseViewImp_eq`,
   `reverseModelImp_eq`, `OneHop.reverseViewImp_eq`, `OneHop.reverseModelImp_eq`).
Core Lean only.
-/
namespace ScionVerif.StdPath
open ScionVerif.Generated.StdPath

theorem beNat_lt (bs : Bytes) : beNat bs < 256 ^ bs.length := by
  induction bs with
  | nil => simp [beNat]
  | cons b bs ih =>
    simp only [beNat, List.length_cons, Nat.pow_succ]
    have hb : b.toNat < 256 := b.toNat_lt
    have : b.toNat * 256 ^ bs.length + beNat bs < (b.toNat + 1) * 256 ^ bs.length := by
      rw [Nat.add_mul, Nat.one_mul]; omega
    have h2 : (b.toNat + 1) * 256 ^ bs.length ≤ 256 * 256 ^ bs.length := Nat.mul_le_mul_right _ (by omega)
    rw [Nat.mul_comm (256 ^ bs.length) 256]; omega

theorem natBE_length (n v : Nat) : (natBE n v).length = n := by
  induction n with
  | zero => rfl
  | succ n ih => simp [natBE, ih]

/-- `natBE n` only looks at `v mod 256^n` -/
theorem natBE_add_mul (n v k : Nat) : natBE n (v + k * 256 ^ n) = natBE n v := by
  induction n generalizing v k with
  | zero => rfl
  | succ n ih =>
    simp only [natBE]
    have e : v + k * 256 ^ (n + 1) = v + (k * 256) * 256 ^ n := by
      rw [Nat.pow_succ, Nat.mul_assoc, Nat.mul_comm 256]
    rw [e]
    congr 1
    · congr 1
      rw [Nat.add_mul_div_right _ _ (Nat.pow_pos (by decide : 0 < 256)), Nat.add_mul_mod_self_right]
    · exact ih v (k * 256)

theorem natBE_beNat (bs : Bytes) : natBE bs.length (beNat bs) = bs := by
  induction bs with
  | nil => rfl
  | cons b bs ih =>
    simp only [List.length_cons, natBE, beNat]
    have hlt := beNat_lt bs
    congr 1
    · rw [Nat.add_comm, Nat.add_mul_div_right _ _ (Nat.pow_pos (by decide)), Nat.div_eq_of_lt hlt,
        Nat.zero_add, Nat.mod_eq_of_lt b.toNat_lt]
      exact UInt8.ofNat_toNat
    · rw [Nat.add_comm, natBE_add_mul]; exact ih

theorem beNat_natBE (n v : Nat) : beNat (natBE n v) = v % 256 ^ n := by
  induction n with
  | zero => simp [natBE, beNat, Nat.mod_one]
  | succ n ih =>
    simp only [natBE, beNat, natBE_length, ih, UInt8.toNat_ofNat']
    have : v / 256 ^ n % 256 % 2 ^ 8 = v / 256 ^ n % 256 := Nat.mod_eq_of_lt (by omega)
    rw [this, Nat.pow_succ, Nat.mod_mul, Nat.mul_comm, Nat.add_comm]


/-! ## field packing: the generated ranges tile each record -/

theorem HopF.ofWord_toWord (h : HopF) (hv : h.Valid) : HopF.ofWord h.toWord = h := by
  obtain ⟨h1, h2, h3, h4, h5⟩ := hv
  cases h with | mk f e i g m =>
  simp only [HOP_FLAGS_WIDTH, HOP_EXP_TIME_WIDTH, HOP_CONS_INGRESS_WIDTH, HOP_CONS_EGRESS_WIDTH, HOP_MAC_WIDTH] at h1 h2 h3 h4 h5
  simp only [HopF.ofWord, HopF.toWord, field, place, HOP_TOTAL_WIDTH, HOP_FLAGS_START, HOP_FLAGS_WIDTH,
    HOP_EXP_TIME_START, HOP_EXP_TIME_WIDTH, HOP_CONS_INGRESS_START, HOP_CONS_INGRESS_WIDTH,
    HOP_CONS_EGRESS_START, HOP_CONS_EGRESS_WIDTH, HOP_MAC_START, HOP_MAC_WIDTH, HopF.mk.injEq]
  refine ⟨?_, ?_, ?_, ?_, ?_⟩ <;> omega

theorem HopF.toWord_lt (h : HopF) : h.toWord < 256 ^ HOP_SIZE_BYTES := by
  simp only [HopF.toWord, place, HOP_TOTAL_WIDTH, HOP_FLAGS_START, HOP_FLAGS_WIDTH,
    HOP_EXP_TIME_START, HOP_EXP_TIME_WIDTH, HOP_CONS_INGRESS_START, HOP_CONS_INGRESS_WIDTH,
    HOP_CONS_EGRESS_START, HOP_CONS_EGRESS_WIDTH, HOP_MAC_START, HOP_MAC_WIDTH, HOP_SIZE_BYTES]
  omega

theorem HopF.toWord_ofWord (w : Nat) (hw : w < 256 ^ HOP_SIZE_BYTES) : (HopF.ofWord w).toWord = w := by
  simp only [HOP_SIZE_BYTES] at hw
  simp only [HopF.ofWord, HopF.toWord, field, place, HOP_TOTAL_WIDTH, HOP_FLAGS_START, HOP_FLAGS_WIDTH,
    HOP_EXP_TIME_START, HOP_EXP_TIME_WIDTH, HOP_CONS_INGRESS_START, HOP_CONS_INGRESS_WIDTH,
    HOP_CONS_EGRESS_START, HOP_CONS_EGRESS_WIDTH, HOP_MAC_START, HOP_MAC_WIDTH]
  omega

theorem HopF.ofWord_valid (w : Nat) : (HopF.ofWord w).Valid := by
  simp only [HopF.Valid, HopF.ofWord, field]
  refine ⟨?_, ?_, ?_, ?_, ?_⟩ <;> exact Nat.mod_lt _ (Nat.pow_pos (by decide))

theorem InfoF.ofWord_toWord (i : InfoF) (hv : i.Valid) : InfoF.ofWord i.toWord = i := by
  obtain ⟨h1, h2, h3, h4⟩ := hv
  cases i with | mk f r s t =>
  simp only [INFO_FLAGS_WIDTH, INFO_RSV_WIDTH, INFO_SEGMENT_ID_WIDTH, INFO_TIMESTAMP_WIDTH] at h1 h2 h3 h4
  simp only [InfoF.ofWord, InfoF.toWord, field, place, INFO_TOTAL_WIDTH, INFO_FLAGS_START, INFO_FLAGS_WIDTH,
    INFO_RSV_START, INFO_RSV_WIDTH, INFO_SEGMENT_ID_START, INFO_SEGMENT_ID_WIDTH, INFO_TIMESTAMP_START,
    INFO_TIMESTAMP_WIDTH, InfoF.mk.injEq]
  refine ⟨?_, ?_, ?_, ?_⟩ <;> omega

theorem InfoF.toWord_lt (i : InfoF) : i.toWord < 256 ^ INFO_SIZE_BYTES := by
  simp only [InfoF.toWord, place, INFO_TOTAL_WIDTH, INFO_FLAGS_START, INFO_FLAGS_WIDTH,
    INFO_RSV_START, INFO_RSV_WIDTH, INFO_SEGMENT_ID_START, INFO_SEGMENT_ID_WIDTH, INFO_TIMESTAMP_START,
    INFO_TIMESTAMP_WIDTH, INFO_SIZE_BYTES]
  omega

theorem InfoF.toWord_ofWord (w : Nat) (hw : w < 256 ^ INFO_SIZE_BYTES) : (InfoF.ofWord w).toWord = w := by
  simp only [INFO_SIZE_BYTES] at hw
  simp only [InfoF.ofWord, InfoF.toWord, field, place, INFO_TOTAL_WIDTH, INFO_FLAGS_START, INFO_FLAGS_WIDTH,
    INFO_RSV_START, INFO_RSV_WIDTH, INFO_SEGMENT_ID_START, INFO_SEGMENT_ID_WIDTH, INFO_TIMESTAMP_START,
    INFO_TIMESTAMP_WIDTH]
  omega

theorem InfoF.ofWord_valid (w : Nat) : (InfoF.ofWord w).Valid := by
  simp only [InfoF.Valid, InfoF.ofWord, field]
  refine ⟨?_, ?_, ?_, ?_⟩ <;> exact Nat.mod_lt _ (Nat.pow_pos (by decide))

/-! ### records ↔ bytes -/

theorem HopF.toBytes_length (h : HopF) : h.toBytes.length = HOP_SIZE_BYTES := natBE_length _ _
theorem InfoF.toBytes_length (i : InfoF) : i.toBytes.length = INFO_SIZE_BYTES := natBE_length _ _

theorem HopF.ofBytes_toBytes (h : HopF) (hv : h.Valid) : HopF.ofBytes h.toBytes = h := by
  unfold HopF.ofBytes HopF.toBytes
  rw [beNat_natBE, Nat.mod_eq_of_lt h.toWord_lt, HopF.ofWord_toWord h hv]

theorem HopF.toBytes_ofBytes (c : Bytes) (hc : c.length = HOP_SIZE_BYTES) : (HopF.ofBytes c).toBytes = c := by
  unfold HopF.ofBytes HopF.toBytes
  rw [HopF.toWord_ofWord _ (hc ▸ beNat_lt c), ← hc, natBE_beNat]

theorem InfoF.ofBytes_toBytes (i : InfoF) (hv : i.Valid) : InfoF.ofBytes i.toBytes = i := by
  unfold InfoF.ofBytes InfoF.toBytes
  rw [beNat_natBE, Nat.mod_eq_of_lt i.toWord_lt, InfoF.ofWord_toWord i hv]

theorem InfoF.toBytes_ofBytes (c : Bytes) (hc : c.length = INFO_SIZE_BYTES) : (InfoF.ofBytes c).toBytes = c := by
  unfold InfoF.ofBytes InfoF.toBytes
  rw [InfoF.toWord_ofWord _ (hc ▸ beNat_lt c), ← hc, natBE_beNat]

/-! ### sequences of fixed-size records -/

theorem decodeN_length {α : Type} (dec : Bytes → α) (size n : Nat) (b : Bytes) :
    (decodeN dec size n b).length = n := by
  induction n generalizing b with
  | zero => rfl
  | succ n ih => simp [decodeN, ih]

theorem decodeN_all {α : Type} (dec : Bytes → α) (size n : Nat) (b : Bytes) (P : α → Prop)
    (h : ∀ c, P (dec c)) : ∀ x ∈ decodeN dec size n b, P x := by
  induction n generalizing b with
  | zero => intro x hx; simp [decodeN] at hx
  | succ n ih =>
    intro x hx
    simp only [decodeN, List.mem_cons] at hx
    rcases hx with rfl | hx
    · exact h _
    · exact ih _ x hx

theorem flatten_map_length {α : Type} (enc : α → Bytes) (size : Nat) (xs : List α)
    (h : ∀ x ∈ xs, (enc x).length = size) : (xs.map enc).flatten.length = xs.length * size := by
  induction xs with
  | nil => simp
  | cons x xs ih =>
    simp only [List.map_cons, List.flatten_cons, List.length_append, List.length_cons]
    rw [h x (List.mem_cons_self), ih (fun y hy => h y (List.mem_cons_of_mem _ hy)), Nat.add_mul]; omega

theorem decodeN_flatten {α : Type} (dec : Bytes → α) (enc : α → Bytes) (size : Nat) (xs : List α)
    (rest : Bytes) (hlen : ∀ x ∈ xs, (enc x).length = size) (hdec : ∀ x ∈ xs, dec (enc x) = x) :
    decodeN dec size xs.length ((xs.map enc).flatten ++ rest) = xs := by
  induction xs with
  | nil => rfl
  | cons x xs ih =>
    have hx := hlen x List.mem_cons_self
    simp only [List.length_cons, decodeN, List.map_cons, List.flatten_cons, List.append_assoc]
    rw [List.take_left' hx, List.drop_left' hx, hdec x List.mem_cons_self,
      ih (fun y hy => hlen y (List.mem_cons_of_mem _ hy)) (fun y hy => hdec y (List.mem_cons_of_mem _ hy))]

theorem flatten_decodeN {α : Type} (dec : Bytes → α) (enc : α → Bytes) (size n : Nat) (b : Bytes)
    (hb : n * size ≤ b.length) (henc : ∀ c, c.length = size → enc (dec c) = c) :
    ((decodeN dec size n b).map enc).flatten = b.take (n * size) := by
  induction n generalizing b with
  | zero => simp [decodeN]
  | succ n ih =>
    have h1 : size ≤ b.length := by rw [Nat.add_mul] at hb; omega
    have h2 : n * size ≤ (b.drop size).length := by rw [List.length_drop, Nat.add_mul] at *; omega
    simp only [decodeN, List.map_cons, List.flatten_cons]
    rw [henc _ (by simp [List.length_take]; omega), ih _ h2, Nat.add_mul, Nat.one_mul, Nat.add_comm, List.take_add]

/-! ## the view constructor and `toBytes` are mutually inverse -/

theorem metaWord_lt (p : PathV) : metaWord p < 256 ^ META_SIZE_BYTES := by
  simp only [metaWord, place, META_TOTAL_WIDTH, META_CURR_INFO_FIELD_START, META_CURR_INFO_FIELD_WIDTH,
    META_CURR_HOP_FIELD_START, META_CURR_HOP_FIELD_WIDTH, META_RSV_START, META_RSV_WIDTH, META_SEG0_LEN_START,
    META_SEG0_LEN_WIDTH, META_SEG1_LEN_START, META_SEG1_LEN_WIDTH, META_SEG2_LEN_START, META_SEG2_LEN_WIDTH,
    META_SIZE_BYTES]
  omega

/-- the six fields read back from the packed meta word -/
theorem meta_fields (p : PathV) (h1 : p.currInf < 2 ^ META_CURR_INFO_FIELD_WIDTH)
    (h2 : p.currHf < 2 ^ META_CURR_HOP_FIELD_WIDTH) (h3 : p.rsv < 2 ^ META_RSV_WIDTH)
    (h4 : p.seg0 < 2 ^ META_SEG0_LEN_WIDTH) (h5 : p.seg1 < 2 ^ META_SEG1_LEN_WIDTH)
    (h6 : p.seg2 < 2 ^ META_SEG2_LEN_WIDTH) :
    field META_TOTAL_WIDTH META_CURR_INFO_FIELD_START META_CURR_INFO_FIELD_WIDTH (metaWord p) = p.currInf ∧
    field META_TOTAL_WIDTH META_CURR_HOP_FIELD_START META_CURR_HOP_FIELD_WIDTH (metaWord p) = p.currHf ∧
    field META_TOTAL_WIDTH META_RSV_START META_RSV_WIDTH (metaWord p) = p.rsv ∧
    field META_TOTAL_WIDTH META_SEG0_LEN_START META_SEG0_LEN_WIDTH (metaWord p) = p.seg0 ∧
    field META_TOTAL_WIDTH META_SEG1_LEN_START META_SEG1_LEN_WIDTH (metaWord p) = p.seg1 ∧
    field META_TOTAL_WIDTH META_SEG2_LEN_START META_SEG2_LEN_WIDTH (metaWord p) = p.seg2 := by
  simp only [META_CURR_INFO_FIELD_WIDTH, META_CURR_HOP_FIELD_WIDTH, META_RSV_WIDTH, META_SEG0_LEN_WIDTH,
    META_SEG1_LEN_WIDTH, META_SEG2_LEN_WIDTH] at h1 h2 h3 h4 h5 h6
  simp only [metaWord, field, place, META_TOTAL_WIDTH, META_CURR_INFO_FIELD_START, META_CURR_INFO_FIELD_WIDTH,
    META_CURR_HOP_FIELD_START, META_CURR_HOP_FIELD_WIDTH, META_RSV_START, META_RSV_WIDTH, META_SEG0_LEN_START,
    META_SEG0_LEN_WIDTH, META_SEG1_LEN_START, META_SEG1_LEN_WIDTH, META_SEG2_LEN_START, META_SEG2_LEN_WIDTH]
  refine ⟨?_, ?_, ?_, ?_, ?_, ?_⟩ <;> omega

/-- packing the six fields of a 32-bit word gives the word back (the ranges tile the meta header) -/
theorem meta_repack (w : Nat) (hw : w < 256 ^ META_SIZE_BYTES) (s0 s1 s2 : Nat)
    (h0 : field META_TOTAL_WIDTH META_SEG0_LEN_START META_SEG0_LEN_WIDTH w = s0)
    (h1 : field META_TOTAL_WIDTH META_SEG1_LEN_START META_SEG1_LEN_WIDTH w = s1)
    (h2 : field META_TOTAL_WIDTH META_SEG2_LEN_START META_SEG2_LEN_WIDTH w = s2) :
    place META_TOTAL_WIDTH META_CURR_INFO_FIELD_START META_CURR_INFO_FIELD_WIDTH
        (field META_TOTAL_WIDTH META_CURR_INFO_FIELD_START META_CURR_INFO_FIELD_WIDTH w) +
      place META_TOTAL_WIDTH META_CURR_HOP_FIELD_START META_CURR_HOP_FIELD_WIDTH
        (field META_TOTAL_WIDTH META_CURR_HOP_FIELD_START META_CURR_HOP_FIELD_WIDTH w) +
      place META_TOTAL_WIDTH META_RSV_START META_RSV_WIDTH (field META_TOTAL_WIDTH META_RSV_START META_RSV_WIDTH w) +
      place META_TOTAL_WIDTH META_SEG0_LEN_START META_SEG0_LEN_WIDTH s0 +
      place META_TOTAL_WIDTH META_SEG1_LEN_START META_SEG1_LEN_WIDTH s1 +
      place META_TOTAL_WIDTH META_SEG2_LEN_START META_SEG2_LEN_WIDTH s2 = w := by
  subst h0 h1 h2
  simp only [META_SIZE_BYTES] at hw
  simp only [field, place, META_TOTAL_WIDTH, META_CURR_INFO_FIELD_START, META_CURR_INFO_FIELD_WIDTH,
    META_CURR_HOP_FIELD_START, META_CURR_HOP_FIELD_WIDTH, META_RSV_START, META_RSV_WIDTH, META_SEG0_LEN_START,
    META_SEG0_LEN_WIDTH, META_SEG1_LEN_START, META_SEG1_LEN_WIDTH, META_SEG2_LEN_START, META_SEG2_LEN_WIDTH,
    Nat.mod_mod]
  omega

theorem field_lt (t s w v : Nat) : field t s w v < 2 ^ w := Nat.mod_lt _ (Nat.pow_pos (by decide))

theorem PathV.toBytes_length (p : PathV) (hi : p.infos.length = p.infoCount) (hh : p.hops.length = p.hopCount) :
    p.toBytes.length = requiredSize p.seg0 p.seg1 p.seg2 := by
  unfold PathV.toBytes requiredSize
  rw [List.length_append, List.length_append, natBE_length,
    flatten_map_length _ INFO_SIZE_BYTES _ (fun x _ => x.toBytes_length),
    flatten_map_length _ HOP_SIZE_BYTES _ (fun x _ => x.toBytes_length), hi, hh]
  rfl

/-- **decode ∘ encode**: the view constructor reads back exactly the structured state (and the tail) -/
theorem ofBytes_toBytes (p : PathV) (hv : p.Valid) (rest : Bytes) : ofBytes (p.toBytes ++ rest) = some (p, rest) := by
  obtain ⟨h1, h2, h3, h4, h5, h6, hi, hh, hiv, hhv⟩ := hv
  have hlen := p.toBytes_length hi hh
  obtain ⟨f1, f2, f3, f4, f5, f6⟩ := meta_fields p h1 h2 h3 h4 h5 h6
  have hm : (natBE META_SIZE_BYTES (metaWord p)).length = META_SIZE_BYTES := natBE_length _ _
  have htake : (p.toBytes ++ rest).take META_SIZE_BYTES = natBE META_SIZE_BYTES (metaWord p) := by
    unfold PathV.toBytes
    rw [List.append_assoc, List.append_assoc, List.take_left' hm]
  have hw : beNat ((p.toBytes ++ rest).take META_SIZE_BYTES) = metaWord p := by
    rw [htake, beNat_natBE, Nat.mod_eq_of_lt (metaWord_lt p)]
  have hdrop : (p.toBytes ++ rest).drop META_SIZE_BYTES =
      (p.infos.map InfoF.toBytes).flatten ++ ((p.hops.map HopF.toBytes).flatten ++ rest) := by
    unfold PathV.toBytes
    rw [List.append_assoc, List.append_assoc, List.drop_left' hm]
  have hil : (p.infos.map InfoF.toBytes).flatten.length = infoCount p.seg0 p.seg1 p.seg2 * INFO_SIZE_BYTES := by
    rw [flatten_map_length _ INFO_SIZE_BYTES _ (fun x _ => x.toBytes_length), hi]; rfl
  unfold ofBytes
  have hge : ¬ (p.toBytes ++ rest).length < META_SIZE_BYTES := by
    rw [List.length_append, hlen]; unfold requiredSize; omega
  rw [if_neg hge]
  simp only [hw, f1, f2, f3, f4, f5, f6]
  have hge2 : ¬ (p.toBytes ++ rest).length < requiredSize p.seg0 p.seg1 p.seg2 := by
    rw [List.length_append, hlen]; omega
  rw [if_neg hge2, hdrop]
  have e1 : decodeN InfoF.ofBytes INFO_SIZE_BYTES (infoCount p.seg0 p.seg1 p.seg2)
      ((p.infos.map InfoF.toBytes).flatten ++ ((p.hops.map HopF.toBytes).flatten ++ rest)) = p.infos := by
    have := decodeN_flatten InfoF.ofBytes InfoF.toBytes INFO_SIZE_BYTES p.infos
      ((p.hops.map HopF.toBytes).flatten ++ rest) (fun x _ => x.toBytes_length)
      (fun x hx => InfoF.ofBytes_toBytes x (hiv x hx))
    rw [hi] at this; exact this
  have e2 : decodeN HopF.ofBytes HOP_SIZE_BYTES (p.seg0 + p.seg1 + p.seg2)
      (((p.infos.map InfoF.toBytes).flatten ++ ((p.hops.map HopF.toBytes).flatten ++ rest)).drop
        (infoCount p.seg0 p.seg1 p.seg2 * INFO_SIZE_BYTES)) = p.hops := by
    rw [List.drop_left' hil]
    have := decodeN_flatten HopF.ofBytes HopF.toBytes HOP_SIZE_BYTES p.hops rest (fun x _ => x.toBytes_length)
      (fun x hx => HopF.ofBytes_toBytes x (hhv x hx))
    rw [hh] at this; exact this
  have e3 : (p.toBytes ++ rest).drop (requiredSize p.seg0 p.seg1 p.seg2) = rest := List.drop_left' hlen
  rw [e1, e2, e3]

/-- **encode ∘ decode**: whatever the view constructor accepts is reproduced byte for byte, and the
structured state it yields satisfies `Valid`. -/
theorem toBytes_ofBytes (b : Bytes) (p : PathV) (rest : Bytes) (h : ofBytes b = some (p, rest)) :
    p.toBytes ++ rest = b ∧ p.Valid := by
  unfold ofBytes at h
  split at h
  · simp at h
  · rename_i h4
    simp only [] at h
    split at h
    · simp at h
    · rename_i hreq
      simp only [Option.some.injEq, Prod.mk.injEq] at h
      obtain ⟨hp, hr⟩ := h
      generalize hw : beNat (b.take META_SIZE_BYTES) = w at hp hr hreq
      have hwlt : w < 256 ^ META_SIZE_BYTES := by
        have := beNat_lt (b.take META_SIZE_BYTES)
        rw [hw, List.length_take, Nat.min_eq_left (by omega)] at this; exact this
      generalize hs0 : field META_TOTAL_WIDTH META_SEG0_LEN_START META_SEG0_LEN_WIDTH w = s0 at hp hr hreq
      generalize hs1 : field META_TOTAL_WIDTH META_SEG1_LEN_START META_SEG1_LEN_WIDTH w = s1 at hp hr hreq
      generalize hs2 : field META_TOTAL_WIDTH META_SEG2_LEN_START META_SEG2_LEN_WIDTH w = s2 at hp hr hreq
      have hreq' : requiredSize s0 s1 s2 ≤ b.length := by omega
      have hdata : (b.drop META_SIZE_BYTES).length = b.length - META_SIZE_BYTES := List.length_drop
      have hni : infoCount s0 s1 s2 * INFO_SIZE_BYTES ≤ (b.drop META_SIZE_BYTES).length := by
        unfold requiredSize at hreq'; omega
      have hnh : (s0 + s1 + s2) * HOP_SIZE_BYTES ≤
          ((b.drop META_SIZE_BYTES).drop (infoCount s0 s1 s2 * INFO_SIZE_BYTES)).length := by
        rw [List.length_drop, hdata]; unfold requiredSize at hreq'; omega
      subst hp
      constructor
      · unfold PathV.toBytes
        simp only []
        rw [flatten_decodeN InfoF.ofBytes InfoF.toBytes _ _ _ hni InfoF.toBytes_ofBytes,
          flatten_decodeN HopF.ofBytes HopF.toBytes _ _ _ hnh HopF.toBytes_ofBytes]
        have hm : metaWord
            { currInf := field META_TOTAL_WIDTH META_CURR_INFO_FIELD_START META_CURR_INFO_FIELD_WIDTH w
              currHf := field META_TOTAL_WIDTH META_CURR_HOP_FIELD_START META_CURR_HOP_FIELD_WIDTH w
              rsv := field META_TOTAL_WIDTH META_RSV_START META_RSV_WIDTH w
              seg0 := s0, seg1 := s1, seg2 := s2
              infos := decodeN InfoF.ofBytes INFO_SIZE_BYTES (infoCount s0 s1 s2) (b.drop META_SIZE_BYTES)
              hops := decodeN HopF.ofBytes HOP_SIZE_BYTES (s0 + s1 + s2)
                ((b.drop META_SIZE_BYTES).drop (infoCount s0 s1 s2 * INFO_SIZE_BYTES)) } = w := by
          simp only [metaWord]
          exact meta_repack w hwlt s0 s1 s2 hs0 hs1 hs2
        rw [hm, ← hw]
        have hl4 : (b.take META_SIZE_BYTES).length = META_SIZE_BYTES := by
          rw [List.length_take, Nat.min_eq_left (by omega)]
        have : natBE META_SIZE_BYTES (beNat (b.take META_SIZE_BYTES)) = b.take META_SIZE_BYTES := by
          have := natBE_beNat (b.take META_SIZE_BYTES); rw [hl4] at this; exact this
        rw [this, ← hr]
        unfold requiredSize
        rw [List.append_assoc, List.append_assoc]
        conv => rhs; rw [← List.take_append_drop META_SIZE_BYTES b]
        congr 1
        conv => rhs; rw [← List.take_append_drop (infoCount s0 s1 s2 * INFO_SIZE_BYTES) (b.drop META_SIZE_BYTES)]
        congr 1
        conv => rhs; rw [← List.take_append_drop ((s0 + s1 + s2) * HOP_SIZE_BYTES)
          ((b.drop META_SIZE_BYTES).drop (infoCount s0 s1 s2 * INFO_SIZE_BYTES))]
        congr 1
        rw [List.drop_drop, List.drop_drop]
        congr 1
        omega
      · refine ⟨field_lt _ _ _ _, field_lt _ _ _ _, field_lt _ _ _ _, hs0 ▸ field_lt _ _ _ _,
          hs1 ▸ field_lt _ _ _ _, hs2 ▸ field_lt _ _ _ _, ?_, ?_, ?_, ?_⟩
        · simp only [decodeN_length]; rfl
        · simp only [decodeN_length]; rfl
        · exact decodeN_all _ _ _ _ _ (fun c => InfoF.ofWord_valid _)
        · exact decodeN_all _ _ _ _ _ (fun c => HopF.ofWord_valid _)


/-! ## reversal, conversion, expiry: helper lemmas -/

theorem toggleCons_toggleCons (f : Nat) : toggleCons (toggleCons f) = f := by
  unfold toggleCons; rw [Nat.xor_assoc, Nat.xor_self, Nat.xor_zero]

theorem InfoF.toggle_toggle (i : InfoF) : i.toggle.toggle = i := by
  cases i; simp [InfoF.toggle, toggleCons_toggleCons]

theorem map_toggle_reverse_twice (l : List InfoF) :
    (((l.map InfoF.toggle).reverse).map InfoF.toggle).reverse = l := by
  rw [List.map_reverse, List.reverse_reverse, List.map_map]
  have : InfoF.toggle ∘ InfoF.toggle = id := by funext i; exact InfoF.toggle_toggle i
  rw [this, List.map_id]

theorem wireValid_iff (m : PathM) : m.wireValid = true ↔
    META_SIZE_BYTES + m.segs.length * INFO_SIZE_BYTES + m.hopCount * HOP_SIZE_BYTES ≤ PATH_MAX_SIZE_BYTES ∧
    m.segs.length ≤ MAX_SEGMENTS ∧ m.segs.length ≠ 0 ∧ m.currHf < m.hopCount ∧ m.currInf < m.segs.length ∧
    (∀ s ∈ m.segs, s.hops.length ≤ MAX_SEGMENT_HOPS ∧ s.hops.length ≠ 0) ∧ m.currHf ≤ MAX_TOTAL_HOPS ∧
    m.hopCount ≤ MAX_TOTAL_HOPS + 1 := by
  unfold PathM.wireValid
  simp only [Bool.and_eq_true, decide_eq_true_eq, List.all_eq_true]
  constructor
  · rintro ⟨⟨⟨⟨⟨⟨⟨a, b⟩, c⟩, d⟩, e⟩, f⟩, g⟩, h⟩; exact ⟨a, b, c, d, e, f, g, h⟩
  · rintro ⟨a, b, c, d, e, f, g, h⟩; exact ⟨⟨⟨⟨⟨⟨⟨a, b⟩, c⟩, d⟩, e⟩, f⟩, g⟩, h⟩

theorem toV_toggle (i : InfoM) : i.toggle.toV = i.toV.toggle := rfl

def mRev (m : PathM) : PathM :=
  { segs := reversedSegs m.segs
    currHf := (((reversedSegs m.segs).map (·.hops.length)).sum - m.currHf - 1) % 256
    currInf := (m.segs.length - m.currInf - 1) % 256 }

theorem reverseModel_of_wireValid (m : PathM) (hw : m.wireValid = true) : reverseModel m = (mRev m, .ok ()) := by
  obtain ⟨-, -, hn0, hch, hci, -, -⟩ := (wireValid_iff m).1 hw
  unfold reverseModel mRev
  rw [if_neg hn0, if_neg (by omega), if_neg (by omega)]

theorem ne_nil_of_length_ne {α : Type} (l : List α) (h : l.length ≠ 0) : ¬ l = [] := by
  intro e; simp [e] at h

macro "agree_close" : tactic => `(tactic|
  (and_intros
   all_goals first
     | rfl
     | assumption
     | omega
     | (intro _; omega)
     | (split <;> omega)
     | (intro _; split <;> omega)
     | (repeat' split) <;> omega
     | (intro _; (repeat' split) <;> omega)))

theorem agree_two (ci ch : Nat) (a b : SegM) (hw : PathM.wireValid ⟨ci, ch, [a, b]⟩ = true)
    (h64 : PathM.hopCount ⟨ci, ch, [a, b]⟩ ≤ MAX_TOTAL_HOPS + 1) :
    (mRev ⟨ci, ch, [a, b]⟩).encode = some (reversedState (PathM.encodeUnchecked ⟨ci, ch, [a, b]⟩)) := by
  obtain ⟨hsz, hn3, hn0, hch, hci, hseg, h63, -⟩ := (wireValid_iff _).1 hw
  have ha := hseg a (by simp)
  have hb := hseg b (by simp)
  have hane := ne_nil_of_length_ne _ ha.2
  have hbne := ne_nil_of_length_ne _ hb.2
  simp only [PathM.hopCount, MAX_SEGMENT_HOPS, META_SIZE_BYTES, INFO_SIZE_BYTES, HOP_SIZE_BYTES,
    PATH_MAX_SIZE_BYTES, MAX_TOTAL_HOPS, List.map_cons, List.map_nil, List.sum_cons, List.sum_nil, List.length_cons, List.length_nil] at hsz hch hci ha hb h63 h64
  clear hseg hn3 hn0
  unfold PathM.encode
  have hw' : (mRev ⟨ci, ch, [a, b]⟩).wireValid = true := by
    rw [wireValid_iff]
    simp [mRev, reversedSegs, PathM.hopCount, MAX_SEGMENTS, MAX_SEGMENT_HOPS, META_SIZE_BYTES, INFO_SIZE_BYTES, HOP_SIZE_BYTES,
      PATH_MAX_SIZE_BYTES, MAX_TOTAL_HOPS]
    agree_close
  rw [if_pos hw']
  clear hw hw'
  simp [mRev, reversedSegs, reversedState, PathM.encodeUnchecked, PathM.segLen, PathM.iterInfos, PathM.iterHops, segCountNZ,
    META_SEG0_LEN_WIDTH, META_SEG1_LEN_WIDTH, META_SEG2_LEN_WIDTH, META_CURR_HOP_FIELD_WIDTH, META_CURR_INFO_FIELD_WIDTH]
  agree_close

theorem iterSegs_encode (segs : List SegM) (extra : List Nat) (tail : List HopF) :
    iterSegs (segs.map (·.info.toV)) (segs.map (·.hops.length) ++ extra) ((segs.map (·.hops)).flatten ++ tail) =
      segs.map (fun s => (s.info.toV, s.hops)) := by
  induction segs with
  | nil => cases extra <;> simp [iterSegs]
  | cons s ss ih =>
    simp only [List.map_cons, List.cons_append, List.flatten_cons, List.append_assoc, iterSegs]
    rw [List.take_left' rfl, List.drop_left' rfl, ih]

theorem toM_toV (i : InfoM) : i.toV.toM = i := rfl

theorem fromViewSegs_encode (segs : List SegM) (extra : List Nat) (tail : List HopF) :
    fromViewSegs (segs.map (·.info.toV)) (segs.map (·.hops.length) ++ extra) ((segs.map (·.hops)).flatten ++ tail) = segs := by
  induction segs with
  | nil => cases extra <;> simp [fromViewSegs]
  | cons s ss ih =>
    simp only [List.map_cons, List.cons_append, List.flatten_cons, List.append_assoc, fromViewSegs]
    rw [List.take_left' rfl, List.drop_left' rfl, ih, toM_toV]

theorem expiryLoop_agree (segs : List SegM) (acc : Nat) (h : ∀ s ∈ segs, s.hops.length ≠ 0) :
    expiryLoopV (segs.map (fun s => (s.info.toV, s.hops))) acc = some (expiryLoopM segs acc) := by
  induction segs generalizing acc with
  | nil => rfl
  | cons s ss ih =>
    simp only [List.map_cons, expiryLoopV, expiryLoopM]
    cases hm : minList (s.hops.map (·.exp)) with
    | none =>
      exfalso
      have := h s List.mem_cons_self
      cases hh : s.hops with
      | nil => simp [hh] at this
      | cons x xs => rw [hh] at hm; simp only [List.map_cons, minList] at hm; split at hm <;> simp at hm
    | some e =>
      simp only []
      exact ih _ (fun t ht => h t (List.mem_cons_of_mem _ ht))

theorem agree_one (ci ch : Nat) (a : SegM) (hw : PathM.wireValid ⟨ci, ch, [a]⟩ = true)
    (h64 : PathM.hopCount ⟨ci, ch, [a]⟩ ≤ MAX_TOTAL_HOPS + 1) :
    (mRev ⟨ci, ch, [a]⟩).encode = some (reversedState (PathM.encodeUnchecked ⟨ci, ch, [a]⟩)) := by
  obtain ⟨hsz, hn3, hn0, hch, hci, hseg, h63, -⟩ := (wireValid_iff _).1 hw
  have ha := hseg a (by simp)
  have hane := ne_nil_of_length_ne _ ha.2
  simp only [PathM.hopCount, MAX_SEGMENT_HOPS, META_SIZE_BYTES, INFO_SIZE_BYTES, HOP_SIZE_BYTES,
    PATH_MAX_SIZE_BYTES, MAX_TOTAL_HOPS, List.map_cons, List.map_nil, List.sum_cons, List.sum_nil, List.length_cons, List.length_nil] at hsz hch hci ha h63 h64
  clear hseg hn3 hn0
  unfold PathM.encode
  have hw' : (mRev ⟨ci, ch, [a]⟩).wireValid = true := by
    rw [wireValid_iff]
    simp [mRev, reversedSegs, PathM.hopCount, MAX_SEGMENTS, MAX_SEGMENT_HOPS, META_SIZE_BYTES, INFO_SIZE_BYTES, HOP_SIZE_BYTES,
      PATH_MAX_SIZE_BYTES, MAX_TOTAL_HOPS]
    agree_close
  rw [if_pos hw']
  clear hw hw'
  simp [mRev, reversedSegs, reversedState, PathM.encodeUnchecked, PathM.segLen, PathM.iterInfos, PathM.iterHops, segCountNZ,
    META_SEG0_LEN_WIDTH, META_SEG1_LEN_WIDTH, META_SEG2_LEN_WIDTH, META_CURR_HOP_FIELD_WIDTH, META_CURR_INFO_FIELD_WIDTH]
  agree_close

theorem agree_three (ci ch : Nat) (a b c : SegM) (hw : PathM.wireValid ⟨ci, ch, [a, b, c]⟩ = true)
    (h64 : PathM.hopCount ⟨ci, ch, [a, b, c]⟩ ≤ MAX_TOTAL_HOPS + 1) :
    (mRev ⟨ci, ch, [a, b, c]⟩).encode = some (reversedState (PathM.encodeUnchecked ⟨ci, ch, [a, b, c]⟩)) := by
  obtain ⟨hsz, hn3, hn0, hch, hci, hseg, h63, -⟩ := (wireValid_iff _).1 hw
  have ha := hseg a (by simp)
  have hb := hseg b (by simp)
  have hc := hseg c (by simp)
  have hane := ne_nil_of_length_ne _ ha.2
  have hbne := ne_nil_of_length_ne _ hb.2
  have hcne := ne_nil_of_length_ne _ hc.2
  simp only [PathM.hopCount, MAX_SEGMENT_HOPS, META_SIZE_BYTES, INFO_SIZE_BYTES, HOP_SIZE_BYTES,
    PATH_MAX_SIZE_BYTES, MAX_TOTAL_HOPS, List.map_cons, List.map_nil, List.sum_cons, List.sum_nil, List.length_cons, List.length_nil] at hsz hch hci ha hb hc h63 h64
  clear hseg hn3 hn0
  unfold PathM.encode
  have hw' : (mRev ⟨ci, ch, [a, b, c]⟩).wireValid = true := by
    rw [wireValid_iff]
    simp [mRev, reversedSegs, PathM.hopCount, MAX_SEGMENTS, MAX_SEGMENT_HOPS, META_SIZE_BYTES, INFO_SIZE_BYTES, HOP_SIZE_BYTES,
      PATH_MAX_SIZE_BYTES, MAX_TOTAL_HOPS]
    agree_close
  rw [if_pos hw']
  clear hw hw'
  simp [mRev, reversedSegs, reversedState, PathM.encodeUnchecked, PathM.segLen, PathM.iterInfos, PathM.iterHops, segCountNZ,
    META_SEG0_LEN_WIDTH, META_SEG1_LEN_WIDTH, META_SEG2_LEN_WIDTH, META_CURR_HOP_FIELD_WIDTH, META_CURR_INFO_FIELD_WIDTH]
  agree_close

/-- the segments of a wire-valid model: one, two or three -/
theorem wireValid_cases (m : PathM) (hw : m.wireValid = true) :
    (∃ a, m.segs = [a]) ∨ (∃ a b, m.segs = [a, b]) ∨ (∃ a b c, m.segs = [a, b, c]) := by
  obtain ⟨-, hn3, hn0, -⟩ := (wireValid_iff m).1 hw
  simp only [MAX_SEGMENTS] at hn3
  match h : m.segs with
  | [] => simp [h] at hn0
  | [a] => exact .inl ⟨a, rfl⟩
  | [a, b] => exact .inr (.inl ⟨a, b, rfl⟩)
  | [a, b, c] => exact .inr (.inr ⟨a, b, c, rfl⟩)
  | _ :: _ :: _ :: _ :: _ => simp [h] at hn3

theorem mod_seg (n : Nat) (h : n ≤ 63) : n % 256 % 2 ^ 6 = n := by omega

/-- the view accepts the encoding of a wire-valid model: `reverseView` takes its success path -/
theorem reverseView_encode_ok (m : PathM) (hw : m.wireValid = true) :
    reverseView m.encodeUnchecked = (reversedState m.encodeUnchecked, .ok ()) := by
  obtain ⟨hsz, hn3, hn0, hch, hci, hseg, h63, -⟩ := (wireValid_iff _).1 hw
  cases m with | mk ci ch segs =>
  rcases wireValid_cases _ hw with ⟨a, h⟩ | ⟨a, b, h⟩ | ⟨a, b, c, h⟩
  all_goals
    simp only at h
    subst h
    simp only [PathM.hopCount, MAX_SEGMENT_HOPS, List.map_cons, List.map_nil, List.sum_cons, List.sum_nil,
      List.length_cons, List.length_nil, List.mem_cons, List.not_mem_nil, or_false, forall_eq_or_imp, forall_eq] at hch hci hseg
    clear hsz hn3 hn0 hw
    unfold reverseView
    simp only [PathM.encodeUnchecked, PathM.segLen, segCountNZ, List.getElem?_cons_zero, List.getElem?_cons_succ,
      META_SEG0_LEN_WIDTH, META_SEG1_LEN_WIDTH, META_SEG2_LEN_WIDTH, META_CURR_HOP_FIELD_WIDTH, META_CURR_INFO_FIELD_WIDTH,
      List.getElem?_nil]
  · simp only [mod_seg _ hseg.1]
    repeat' split
    all_goals first | rfl | (exfalso; omega)
  · simp only [mod_seg _ hseg.1.1, mod_seg _ hseg.2.1]
    repeat' split
    all_goals first | rfl | (exfalso; omega)
  · simp only [mod_seg _ hseg.1.1, mod_seg _ hseg.2.1.1, mod_seg _ hseg.2.2.1]
    repeat' split
    all_goals first | rfl | (exfalso; omega)

/-- the segment table written by the encoder, as a list: the model's segment lengths, zero padded;
the segment iterator of the view sees exactly the model's segments -/
theorem enc_segs (m : PathM) (hw : m.wireValid = true) :
    ∃ extra, [m.encodeUnchecked.seg0, m.encodeUnchecked.seg1, m.encodeUnchecked.seg2] =
        m.segs.map (·.hops.length) ++ extra ∧
      [m.encodeUnchecked.seg0, m.encodeUnchecked.seg1, m.encodeUnchecked.seg2].take
        (leadingSegs m.encodeUnchecked.seg0 m.encodeUnchecked.seg1 m.encodeUnchecked.seg2) =
        m.segs.map (·.hops.length) ++ [] ∧
      leadingSegs m.encodeUnchecked.seg0 m.encodeUnchecked.seg1 m.encodeUnchecked.seg2 = m.segs.length := by
  obtain ⟨hsz, hn3, hn0, hch, hci, hseg, h63, -⟩ := (wireValid_iff _).1 hw
  cases m with | mk ci ch segs =>
  rcases wireValid_cases _ hw with ⟨a, h⟩ | ⟨a, b, h⟩ | ⟨a, b, c, h⟩
  all_goals
    simp only at h
    subst h
    simp only [MAX_SEGMENT_HOPS, List.mem_cons, List.not_mem_nil, or_false, forall_eq_or_imp, forall_eq] at hseg
    clear hsz hn3 hn0 hw hch hci
    simp only [PathM.encodeUnchecked, PathM.segLen, leadingSegs, List.getElem?_cons_zero, List.getElem?_cons_succ,
      META_SEG0_LEN_WIDTH, META_SEG1_LEN_WIDTH, META_SEG2_LEN_WIDTH, List.getElem?_nil, List.map_cons, List.map_nil]
  · simp only [mod_seg _ hseg.1]
    exact ⟨[0, 0], by simp, by simp [hseg.2], by simp [hseg.2]⟩
  · simp only [mod_seg _ hseg.1.1, mod_seg _ hseg.2.1]
    exact ⟨[0], by simp, by simp [hseg.1.2, hseg.2.2], by simp [hseg.1.2, hseg.2.2]⟩
  · simp only [mod_seg _ hseg.1.1, mod_seg _ hseg.2.1.1, mod_seg _ hseg.2.2.1]
    exact ⟨[], by simp, by simp [hseg.1.2, hseg.2.1.2, hseg.2.2.2], by simp [hseg.1.2, hseg.2.1.2, hseg.2.2.2]⟩

/-! ## 4. The statement-sequence models compute the summaries

`Imp` threads the receiver through reads, exits and writes in the order of the Rust source; an exit returns the
receiver as written so far.  The `*_eq` theorems show that each statement sequence computes exactly the closed
summary the property theorems are stated over – in particular that on every exit path no write has happened yet
(the summaries return their input there).  A model that mirrored a write moved in front of an exit would not
satisfy them. -/
set_option linter.unusedSimpArgs false

section ImpLemmas
variable {σ ρ α β : Type}
theorem Imp.get_bind (f : σ → Imp σ ρ β) (s : σ) : (Imp.get.bind f) s = f s s := rfl
theorem Imp.exit_bind (r : ρ) (f : α → Imp σ ρ β) (s : σ) : ((Imp.exit r : Imp σ ρ α).bind f) s = (s, .inl r) := rfl
theorem Imp.pure_bind (a : α) (f : α → Imp σ ρ β) (s : σ) : ((Imp.pure a : Imp σ ρ α).bind f) s = f a s := rfl
theorem Imp.write_bind (g : σ → σ) (f : Unit → Imp σ ρ β) (s : σ) : ((Imp.write g).bind f) s = f () (g s) := rfl
theorem Imp.exit_apply (r : ρ) (s : σ) : (Imp.exit r : Imp σ ρ α) s = (s, .inl r) := rfl
theorem Imp.pure_apply (a : α) (s : σ) : (Imp.pure a : Imp σ ρ α) s = (s, .inr a) := rfl
theorem Imp.orExit_some (a : α) (r : ρ) : (Imp.orExit (some a) r : Imp σ ρ α) = Imp.pure a := rfl
theorem Imp.orExit_none (r : ρ) : (Imp.orExit (none : Option α) r : Imp σ ρ α) = Imp.exit r := rfl
theorem Imp.ite_apply (c : Prop) [Decidable c] (a b : Imp σ ρ α) (s : σ) : (if c then a else b) s = if c then a s else b s := by
  split <;> rfl
end ImpLemmas

theorem setInfoOrPanic_apply {α : Type} (ci : Nat) (info : InfoF) (s : PathV) (h : ci < s.infoCount ∧ ci < s.infos.length) :
    (setInfoOrPanic (α := α) ci info) s = ({ s with infos := s.infos.set ci info }, .inr ()) := by
  unfold setInfoOrPanic
  simp only [bind, Imp.get_bind, h, and_self, ↓reduceIte]; rfl
theorem setHopOrPanic_apply {α : Type} (ch : Nat) (hop : HopF) (s : PathV) (h : ch < s.hopCount ∧ ch < s.hops.length) :
    (setHopOrPanic (α := α) ch hop) s = ({ s with hops := s.hops.set ch hop }, .inr ()) := by
  unfold setHopOrPanic
  simp only [bind, Imp.get_bind, h, and_self, ↓reduceIte]; rfl

theorem hopAt_lt (p : PathV) (i : Nat) (h : HopF) (e : p.hopAt i = some h) : i < p.hopCount ∧ i < p.hops.length := by
  unfold PathV.hopAt at e
  split at e
  · exact ⟨by assumption, (List.getElem?_eq_some_iff.1 e).1⟩
  · simp at e
theorem infoAt_lt (p : PathV) (i : Nat) (x : InfoF) (e : p.infoAt i = some x) : i < p.infoCount ∧ i < p.infos.length := by
  unfold PathV.infoAt at e
  split at e
  · exact ⟨by assumption, (List.getElem?_eq_some_iff.1 e).1⟩
  · simp at e

theorem egressImp_eq (val : Validator) (p : PathV) : (egressImp val).run p = advanceEgress val p := by
  unfold egressImp advanceEgress Imp.run
  simp only [bind, pure, Imp.get_bind]
  cases hs : p.segIndex p.currHf with
  | none => simp only [Imp.orExit_none, Imp.exit_bind]
  | some t =>
    obtain ⟨seg, sos, eos⟩ := t
    simp only [Imp.orExit_some, Imp.pure_bind, Imp.ite_apply]
    by_cases hseg : seg ≠ p.currInf
    · simp [hseg, Imp.exit_apply]
    have hseg' : seg = p.currInf := by simpa using hseg
    subst hseg'
    simp only [ne_eq, not_true_eq_false, ↓reduceIte, Imp.get_bind]
    cases hh : p.hopAt p.currHf with
    | none => simp only [Imp.orExit_none, Imp.exit_bind]
    | some hop =>
      simp only [Imp.orExit_some, Imp.pure_bind, Imp.get_bind]
      cases hi : p.infoAt p.currInf with
      | none => simp only [Imp.orExit_none, Imp.exit_bind]
      | some info =>
        simp only [Imp.orExit_some, Imp.pure_bind, Imp.ite_apply, Imp.exit_apply]
        by_cases c1 : p.currHf + 1 ≥ p.hopCount
        · simp only [c1, ↓reduceIte]
        by_cases c2 : p.currHf + 1 > MAX_TOTAL_HOPS
        · simp only [c1, c2, ↓reduceIte]
        by_cases c3 : eos = true
        · simp only [c1, c2, c3, ↓reduceIte]
        simp only [c1, c2, c3, ↓reduceIte]
        have a := hopAt_lt p _ _ hh
        have b := infoAt_lt p _ _ hi
        have hc : p.commit p.currInf (egrInfo hop info) p.currHf (egrHop hop info) =
            some { p with infos := p.infos.set p.currInf (egrInfo hop info), hops := p.hops.set p.currHf (egrHop hop info) } := by
          unfold PathV.commit; rw [if_pos ⟨b.1, b.2, a.1, a.2⟩]
        rw [hc]
        simp only [Imp.bind, setInfoOrPanic_apply _ _ p b]
        rw [setHopOrPanic_apply _ _ _ (by exact a)]
        rfl

theorem ingressImp_eq (val : Validator) (fi : Bool) (p : PathV) : (ingressImp val fi).run p = advanceIngress val fi p := by
  unfold ingressImp advanceIngress Imp.run
  simp only [bind, pure, Imp.get_bind]
  cases hs : p.segIndex p.currHf with
  | none => simp only [Imp.orExit_none, Imp.exit_bind]
  | some t =>
    obtain ⟨seg, sos, eos⟩ := t
    simp only [Imp.orExit_some, Imp.pure_bind, Imp.ite_apply]
    by_cases hse : (sos && eos) = true
    · simp only [hse, ↓reduceIte, Imp.exit_apply]
    simp only [hse, Bool.false_eq_true, ↓reduceIte]
    by_cases hseg : seg ≠ p.currInf
    · simp [hseg, Imp.exit_apply]
    have hseg' : seg = p.currInf := by simpa using hseg
    subst hseg'
    simp only [ne_eq, not_true_eq_false, ↓reduceIte, Imp.get_bind]
    cases hh : p.hopAt p.currHf with
    | none => simp only [Imp.orExit_none, Imp.exit_bind]
    | some hop =>
      simp only [Imp.orExit_some, Imp.pure_bind, Imp.get_bind]
      cases hi : p.infoAt p.currInf with
      | none => simp only [Imp.orExit_none, Imp.exit_bind]
      | some info =>
        simp only [Imp.orExit_some, Imp.pure_bind]
        have a := hopAt_lt p _ _ hh
        have b := infoAt_lt p _ _ hi
        cases hfin : decide (p.currHf + 1 ≥ p.hopCount) <;> cases eos
        all_goals simp only [Imp.bind, Imp.pure_apply, Imp.exit_apply]
        · -- (false, false): normal advance
          rw [setInfoOrPanic_apply _ _ p b]; simp only []; rw [setHopOrPanic_apply _ _ _ (by exact a)]
          unfold finishIngress PathV.commit
          rw [if_pos ⟨b.1, b.2, a.1, a.2⟩]
        · -- (false, true): segment change
          simp only [Imp.ite_apply, Imp.exit_apply]
          by_cases c : p.currHf + 1 > MAX_TOTAL_HOPS
          · simp only [c, ↓reduceIte]
          simp only [c, ↓reduceIte, Imp.get_bind]
          cases hn : p.hopAt (p.currHf + 1) with
          | none => simp only [Imp.orExit_none, Imp.exit_bind]
          | some nh =>
            simp only [Imp.orExit_some, Imp.pure_bind, Imp.get_bind]
            cases hni : p.infoAt (p.currInf + 1) with
            | none => simp only [Imp.orExit_none, Imp.exit_bind]
            | some ni =>
              simp only [Imp.orExit_some, Imp.pure_bind, Imp.write_bind, Imp.pure_apply]
              rw [setInfoOrPanic_apply _ _ _ (by exact b)]; simp only []; rw [setHopOrPanic_apply _ _ _ (by exact a)]
              unfold finishIngress PathV.commit
              rw [if_pos (by exact ⟨b.1, b.2, a.1, a.2⟩)]
        · -- (true, true): forward local; (true, false), the `unreachable!` arm, is closed by evaluation
          rw [setInfoOrPanic_apply _ _ p b]; simp only []; rw [setHopOrPanic_apply _ _ _ (by exact a)]
          unfold finishIngress PathV.commit
          rw [if_pos ⟨b.1, b.2, a.1, a.2⟩]

theorem reverseViewImp_eq (p : PathV) : reverseViewImp.run p = reverseView p := by
  unfold reverseViewImp reverseView reversedState Imp.run
  simp only [bind, Imp.bind, Imp.get, Imp.exit, Imp.write, pure, Imp.pure]
  by_cases h0 : p.seg0 = 0
  · simp [h0, Imp.exit]
  by_cases h1 : p.seg0 + p.seg1 + p.seg2 ≤ p.currHf
  · simp [h0, h1, Imp.exit]
  by_cases h2 : segCountNZ p.seg1 p.seg2 ≤ p.currInf
  · simp [h0, h1, h2, Imp.exit]
  simp only [h0, h1, h2, if_false]
  unfold segCountNZ
  by_cases a : p.seg1 = 0
  · simp [a, Imp.bind, Imp.pure, Imp.write]
  by_cases b : p.seg2 = 0
  · simp [a, b, Imp.bind, Imp.pure, Imp.write]
  · simp [a, b, Imp.bind, Imp.pure, Imp.write]


theorem reverseModelImp_eq (m : PathM) : reverseModelImp.run m = reverseModel m := by
  unfold reverseModelImp reverseModel reversedSegs Imp.run
  by_cases h0 : m.segs.length = 0
  · simp [h0, bind, Imp.bind, Imp.get, Imp.exit, Imp.write, pure, Imp.pure]
  by_cases h1 : m.hopCount ≤ m.currHf
  · simp [h0, h1, bind, Imp.bind, Imp.get, Imp.exit, Imp.write, pure, Imp.pure]
  by_cases h2 : m.segs.length ≤ m.currInf
  · simp [h0, h1, h2, bind, Imp.bind, Imp.get, Imp.exit, Imp.write, pure, Imp.pure]
  simp only [h0, h1, h2, ↓reduceIte, bind, Imp.bind, Imp.get, Imp.exit, Imp.write, pure, Imp.pure]
  simp [PathM.hopCount, Function.comp_def]

end ScionVerif.StdPath

namespace ScionVerif.OneHop
open ScionVerif.StdPath
theorem reverseViewImp_eq (v : OneHopV) : reverseViewImp.run v = reverseView v := by
  unfold reverseViewImp reverseView Imp.run
  by_cases h : secondHopUnset v.info.flags v.hop1 v.hop2 = true <;>
    simp [h, bind, Imp.bind, Imp.get, Imp.exit, Imp.write, pure, Imp.pure, InfoF.toggle]
theorem reverseModelImp_eq (m : OneHopM) : reverseModelImp.run m = reverseModel m := by
  unfold reverseModelImp reverseModel Imp.run
  by_cases h : secondHopUnset m.info.flags m.hop1 m.hop2 = true <;>
    simp [h, bind, Imp.bind, Imp.get, Imp.exit, Imp.write, pure, Imp.pure]
end ScionVerif.OneHop
