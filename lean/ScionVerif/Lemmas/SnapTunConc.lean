import ScionVerif.Model.RegistryConc
import ScionVerif.Lemmas.SnapTun
/-!
# Lemmas for C09, concurrent updates: the lock protocol of `update_state` serialises the modifiers

Invariant `Inv` of the machine of `Model/RegistryConc.lean` running `lockedProgram`: every thread is idle, finished,
or it is *the* holder of the lock and in one of the four phases between `acquire` and `release`; the shared state is
the sequential result of the modifiers of the threads that acquired the lock so far, in acquisition order (without
the holder's as long as the holder has not stored).
-/
namespace ScionVerif.SnapTun.Conc

variable {S : Type}

@[simp] theorem upd_same {α : Type} (f : Nat → α) (i : Nat) (x : α) : upd f i x i = x := by simp [upd]

theorem upd_other {α : Type} (f : Nat → α) {i j : Nat} (x : α) (h : j ≠ i) : upd f i x j = f j := by
  simp [upd, h]

theorem seq_snoc (fs : Nat → S → S) (σ0 : S) (pre : List Nat) (j : Nat) :
    seq fs σ0 (pre ++ [j]) = fs j (seq fs σ0 pre) := by
  simp [seq, List.foldl_append]

/-- where thread `j` is -/
def Phase (fs : Nat → S → S) (σ0 : S) (c : Config S) (j : Nat) : Prop :=
  (c.todo j = lockedProgram ∧ j ∉ c.order ∧ c.lock ≠ some j) ∨
  (c.todo j = [] ∧ j ∈ c.order ∧ c.lock ≠ some j) ∨
  (c.lock = some j ∧ ∃ pre, c.order = pre ++ [j] ∧ c.shared = seq fs σ0 pre ∧
    (c.todo j = [.load, .modify, .store, .release] ∨
     (c.todo j = [.modify, .store, .release] ∧ c.loc j = c.shared) ∨
     (c.todo j = [.store, .release] ∧ c.loc j = fs j c.shared))) ∨
  (c.lock = some j ∧ j ∈ c.order ∧ c.shared = seq fs σ0 c.order ∧ c.todo j = [.release])

structure Inv (fs : Nat → S → S) (σ0 : S) (n : Nat) (c : Config S) : Prop where
  nodup : c.order.Nodup
  mem : ∀ j, j ∈ c.order → j < n
  phase : ∀ j, Phase fs σ0 c j
  free : c.lock = none → c.shared = seq fs σ0 c.order

theorem inv_init (fs : Nat → S → S) (σ0 : S) (n : Nat) : Inv fs σ0 n (init lockedProgram σ0) where
  nodup := by simp [init]
  mem := by simp [init]
  phase j := Or.inl ⟨rfl, by simp [init], by simp [init]⟩
  free _ := rfl

/-- a thread other than the one that moves keeps its phase when lock, order and shared state are unchanged -/
theorem phase_frame {fs : Nat → S → S} {σ0 : S} {c c' : Config S} {j : Nat}
    (ht : c'.todo j = c.todo j) (hl : c'.loc j = c.loc j) (hlock : c'.lock = c.lock) (hord : c'.order = c.order)
    (hsh : c'.shared = c.shared) (h : Phase fs σ0 c j) : Phase fs σ0 c' j := by
  unfold Phase at *
  rw [ht, hl, hlock, hord, hsh]
  exact h

theorem inv_step {fs : Nat → S → S} {σ0 : S} {n : Nat} {c : Config S} (h : Inv fs σ0 n c) (i : Nat) :
    Inv fs σ0 n (step fs n c i) := by
  unfold step
  by_cases hi : i < n
  case neg => rw [if_neg hi]; exact h
  rw [if_pos hi]
  rcases h.phase i with ⟨ht, hnot, hl⟩ | ⟨ht, _, _⟩ | ⟨hl, pre, hord, hsh, hph⟩ | ⟨hl, hmem, hsh, ht⟩
  · -- idle: acquire (or blocked)
    rw [ht]
    simp only [lockedProgram]
    cases hlk : c.lock with
    | some k => simp only []; exact h
    | none =>
      simp only []
      refine ⟨?_, ?_, ?_, ?_⟩
      · simp only []
        exact List.nodup_append.mpr ⟨h.nodup, by simp, by
          intro a ha b hb; simp at hb; subst hb; intro hab; subst hab; exact hnot ha⟩
      · intro j hj
        simp only [List.mem_append, List.mem_singleton] at hj
        rcases hj with hj | hj
        · exact h.mem j hj
        · exact hj ▸ hi
      · intro j
        by_cases hji : j = i
        · subst hji
          refine Or.inr (Or.inr (Or.inl ⟨rfl, c.order, rfl, h.free hlk, Or.inl ?_⟩))
          simp
        · rcases h.phase j with ⟨a, b, _⟩ | ⟨a, b, _⟩ | ⟨a, _⟩ | ⟨a, _⟩
          · refine Or.inl ⟨by simp only [upd_other _ _ hji]; exact a, ?_, ?_⟩
            · simp only [List.mem_append, List.mem_singleton]; intro hh; rcases hh with hh | hh
              · exact b hh
              · exact hji hh
            · simp only [ne_eq, Option.some.injEq]; exact fun hh => hji hh.symm
          · refine Or.inr (Or.inl ⟨by simp only [upd_other _ _ hji]; exact a, ?_, ?_⟩)
            · simp only [List.mem_append]; exact Or.inl b
            · simp only [ne_eq, Option.some.injEq]; exact fun hh => hji hh.symm
          · rw [hlk] at a; cases a
          · rw [hlk] at a; cases a
      · intro hh; cases hh
  · -- finished
    rw [ht]; exact h
  · -- holder, before the store
    have others : ∀ j, j ≠ i → ¬ (c.lock = some j) := fun j hji hh => by
      rw [hl] at hh; cases hh; exact hji rfl
    rcases hph with ht | ⟨ht, hloc⟩ | ⟨ht, hloc⟩
    · -- load
      rw [ht]; simp only []
      refine ⟨h.nodup, h.mem, ?_, fun hh => by simp only [] at hh; rw [hl] at hh; cases hh⟩
      intro j
      by_cases hji : j = i
      · subst hji
        exact Or.inr (Or.inr (Or.inl ⟨hl, pre, hord, hsh, Or.inr (Or.inl ⟨by simp, by simp⟩)⟩))
      · exact phase_frame (c := c) (by simp only [upd_other _ _ hji]) (by simp only [upd_other _ _ hji]) rfl rfl rfl
          (h.phase j)
    · -- modify
      rw [ht]; simp only []
      refine ⟨h.nodup, h.mem, ?_, fun hh => by simp only [] at hh; rw [hl] at hh; cases hh⟩
      intro j
      by_cases hji : j = i
      · subst hji
        exact Or.inr (Or.inr (Or.inl ⟨hl, pre, hord, hsh, Or.inr (Or.inr ⟨by simp, by simp [hloc]⟩)⟩))
      · exact phase_frame (c := c) (by simp only [upd_other _ _ hji]) (by simp only [upd_other _ _ hji]) rfl rfl rfl
          (h.phase j)
    · -- store
      rw [ht]; simp only []
      refine ⟨h.nodup, h.mem, ?_, fun hh => by simp only [] at hh; rw [hl] at hh; cases hh⟩
      intro j
      by_cases hji : j = i
      · subst hji
        refine Or.inr (Or.inr (Or.inr ⟨hl, by rw [hord]; simp, ?_, by simp⟩))
        simp only []
        rw [hloc, hord, seq_snoc, hsh]
      · rcases h.phase j with ⟨a, b, d⟩ | ⟨a, b, d⟩ | ⟨a, _⟩ | ⟨a, _⟩
        · exact Or.inl ⟨by simp only [upd_other _ _ hji]; exact a, b, d⟩
        · exact Or.inr (Or.inl ⟨by simp only [upd_other _ _ hji]; exact a, b, d⟩)
        · exact absurd a (others j hji)
        · exact absurd a (others j hji)
  · -- holder, after the store: release
    rw [ht]; simp only []
    refine ⟨h.nodup, h.mem, ?_, fun _ => hsh⟩
    intro j
    by_cases hji : j = i
    · subst hji
      exact Or.inr (Or.inl ⟨by simp, hmem, by simp⟩)
    · rcases h.phase j with ⟨a, b, _⟩ | ⟨a, b, _⟩ | ⟨a, _⟩ | ⟨a, _⟩
      · exact Or.inl ⟨by simp only [upd_other _ _ hji]; exact a, b, by simp⟩
      · exact Or.inr (Or.inl ⟨by simp only [upd_other _ _ hji]; exact a, b, by simp⟩)
      · rw [hl] at a; cases a; exact absurd rfl hji
      · rw [hl] at a; cases a; exact absurd rfl hji

theorem inv_run {fs : Nat → S → S} {σ0 : S} {n : Nat} {c : Config S} (h : Inv fs σ0 n c) (sched : List Nat) :
    Inv fs σ0 n (run fs n c sched) := by
  induction sched generalizing c with
  | nil => exact h
  | cons i rest ih => exact ih (inv_step h i)

/-- when all `n` calls have returned: the lock is free, every thread acquired it exactly once, and the shared state
is the sequential result in acquisition order -/
theorem inv_allDone {fs : Nat → S → S} {σ0 : S} {n : Nat} {c : Config S} (h : Inv fs σ0 n c) (hd : c.allDone n) :
    c.lock = none ∧ c.order.Perm (List.range n) ∧ c.shared = seq fs σ0 c.order := by
  have hlock : c.lock = none := by
    cases hl : c.lock with
    | none => rfl
    | some j =>
      exfalso
      rcases h.phase j with ⟨_, _, a⟩ | ⟨_, _, a⟩ | ⟨_, pre, hord, _, hph⟩ | ⟨_, hm, _, ht⟩
      · exact a hl
      · exact a hl
      · have hj : j < n := h.mem j (by rw [hord]; simp)
        have := hd j hj
        rcases hph with ht | ⟨ht, _⟩ | ⟨ht, _⟩ <;> rw [this] at ht <;> cases ht
      · have := hd j (h.mem j hm)
        rw [this] at ht; cases ht
  refine ⟨hlock, ?_, h.free hlock⟩
  refine (List.perm_ext_iff_of_nodup h.nodup List.nodup_range).mpr ?_
  intro j
  rw [List.mem_range]
  refine ⟨h.mem j, fun hj => ?_⟩
  have htd := hd j hj
  rcases h.phase j with ⟨ht, _, _⟩ | ⟨_, hm, _⟩ | ⟨hl, _⟩ | ⟨hl, _⟩
  · rw [htd] at ht; cases ht
  · exact hm
  · rw [hlock] at hl; cases hl
  · rw [hlock] at hl; cases hl

/-- at any moment the shared state (what a reader's `load` returns) is the sequential result of a prefix of the
acquisition order: all of it, or all but the current holder -/
theorem inv_shared_prefix {fs : Nat → S → S} {σ0 : S} {n : Nat} {c : Config S} (h : Inv fs σ0 n c) :
    ∃ pre, pre <+: c.order ∧ c.order.length ≤ pre.length + 1 ∧ c.shared = seq fs σ0 pre := by
  cases hl : c.lock with
  | none => exact ⟨c.order, List.prefix_refl _, Nat.le_succ _, h.free hl⟩
  | some j =>
    rcases h.phase j with ⟨_, _, a⟩ | ⟨_, _, a⟩ | ⟨_, pre, hord, hsh, _⟩ | ⟨_, _, hsh, _⟩
    · exact absurd hl a
    · exact absurd hl a
    · exact ⟨pre, by rw [hord]; exact List.prefix_append _ _, by rw [hord]; simp, hsh⟩
    · exact ⟨c.order, List.prefix_refl _, Nat.le_succ _, hsh⟩

/-- the acquisition order only grows at its end -/
theorem order_prefix_step (fs : Nat → S → S) (n : Nat) (c : Config S) (i : Nat) :
    c.order <+: (step fs n c i).order := by
  unfold step
  split
  · split
    · exact List.prefix_refl _
    · split
      · exact List.prefix_append _ _
      · exact List.prefix_refl _
    all_goals exact List.prefix_refl _
  · exact List.prefix_refl _

theorem order_prefix_run (fs : Nat → S → S) (n : Nat) (c : Config S) (sched : List Nat) :
    c.order <+: (run fs n c sched).order := by
  induction sched generalizing c with
  | nil => exact List.prefix_refl _
  | cons i rest ih => exact List.IsPrefix.trans (order_prefix_step fs n c i) (ih _)

theorem run_append (fs : Nat → S → S) (n : Nat) (c : Config S) (a b : List Nat) :
    run fs n c (a ++ b) = run fs n (run fs n c a) b := by
  simp [run, List.foldl_append]

/-! ## the registry's calls -/

theorem Call.apply_inv (call : Call) {r : Registry} (h : r.Inv) : (call.apply r).Inv := by
  cases call with
  | register now key id life => exact Registry.addIdentity_inv h key id (now + life)
  | removeExpired now => exact Registry.cleanExpired_inv h now

theorem callFs_inv (calls : List Call) (j : Nat) {r : Registry} (h : r.Inv) : (callFs calls j r).Inv := by
  unfold callFs
  cases calls[j]? with
  | some c => exact Call.apply_inv _ h
  | none => exact h

theorem seq_callFs_inv (calls : List Call) {r : Registry} (h : r.Inv) (order : List Nat) :
    (seq (callFs calls) r order).Inv := by
  unfold seq
  induction order generalizing r with
  | nil => exact h
  | cons j rest ih => exact ih (callFs_inv calls j h)

/-- the modifiers in index order `order` = the calls themselves in that order -/
theorem seq_callFs_eq_runSeq (calls : List Call) (r : Registry) (order : List Nat) (h : ∀ j ∈ order, j < calls.length) :
    seq (callFs calls) r order = Call.runSeq r (order.filterMap (calls[·]?)) := by
  unfold seq Call.runSeq
  induction order generalizing r with
  | nil => rfl
  | cons j rest ih =>
    have hj : j < calls.length := h j (by simp)
    simp only [List.foldl_cons, List.filterMap_cons, List.getElem?_eq_getElem hj]
    rw [ih _ (fun k hk => h k (List.mem_cons_of_mem _ hk))]
    simp [callFs, List.getElem?_eq_getElem hj]

theorem filterMap_getElem?_range' (l pre : List Call) :
    (List.range' pre.length l.length).filterMap ((pre ++ l)[·]?) = l := by
  induction l generalizing pre with
  | nil => simp
  | cons a l ih =>
    have h1 : (pre ++ a :: l)[pre.length]? = some a := by simp
    have h2 : pre ++ a :: l = (pre ++ [a]) ++ l := by simp
    simp only [List.length_cons, List.range'_succ, List.filterMap_cons, h1]
    rw [h2]
    have := ih (pre ++ [a])
    simp only [List.length_append, List.length_cons, List.length_nil] at this
    rw [this]

theorem filterMap_getElem?_range (calls : List Call) :
    (List.range calls.length).filterMap (calls[·]?) = calls := by
  have := filterMap_getElem?_range' calls []
  simpa [List.range_eq_range'] using this

/-! ## supersession along a sequential history of calls (used for the concurrent corollary) -/

def Call.registers (A : Id) : Call → Prop
  | .register _ _ id _ => id = A
  | .removeExpired _ => False

/-- an identity that is not authorised at `t` stays so under calls that do not register it -/
theorem Call.apply_unauth {A : Id} {t : Time} {r : Registry} (call : Call) (hno : ¬ call.registers A)
    (h : r.isAuthorized t A = none) : (call.apply r).isAuthorized t A = none := by
  cases call with
  | register now key id life =>
    have hne : id ≠ A := hno
    have := Registry.unauth_register_other (now := t) h key id (now + life - t) hne
    -- the verdict about `A` does not depend on the new record's expiry
    rw [Registry.isAuthorized_eq_none] at this ⊢
    intro e he
    apply this e
    simp only [Call.apply, Registry.register, Registry.addIdentity_sess_get?, hne, if_false] at he ⊢
    exact he
  | removeExpired now => exact Registry.unauth_cleanExpired h now

theorem Call.runSeq_unauth {A : Id} {t : Time} (calls : List Call) (hno : ∀ c ∈ calls, ¬ c.registers A)
    {r : Registry} (h : r.isAuthorized t A = none) : (Call.runSeq r calls).isAuthorized t A = none := by
  unfold Call.runSeq
  induction calls generalizing r with
  | nil => exact h
  | cons c rest ih =>
    exact ih (fun c' hc' => hno c' (List.mem_cons_of_mem _ hc')) (Call.apply_unauth c (hno c (by simp)) h)

theorem foldl_dropIdentity_mem_assoc (r : Registry) (ids : List Id) (k : Key) (A : Id) :
    (k, A) ∈ (ids.foldl Registry.dropIdentity r).assoc ↔ (k, A) ∈ r.assoc ∧ A ∉ ids := by
  induction ids generalizing r with
  | nil => simp
  | cons i ids ih =>
    simp only [List.foldl_cons, List.mem_cons, not_or]
    rw [ih]
    simp only [Registry.dropIdentity, AMap.retain, List.mem_filter, bne_iff_ne, ne_eq]
    constructor
    · rintro ⟨⟨a, b⟩, c⟩; exact ⟨a, b, c⟩
    · rintro ⟨a, b, c⟩; exact ⟨⟨a, b⟩, c⟩

/-- "unauthorised, or still bound to token key `k`" is kept by every call that does not register `A`; a registration
of another identity under `k` makes it "unauthorised" -/
theorem Call.apply_bound {A : Id} {k : Key} {t : Time} {r : Registry} (hr : r.Inv) (call : Call)
    (hno : ¬ call.registers A) (h : r.isAuthorized t A = none ∨ (k, A) ∈ r.assoc) :
    ((call.apply r).isAuthorized t A = none ∨ (k, A) ∈ (call.apply r).assoc) ∧
      (∀ now B life, call = .register now k B life → (call.apply r).isAuthorized t A = none) := by
  rcases h with h | h
  · exact ⟨Or.inl (Call.apply_unauth call hno h), fun _ _ _ _ => Call.apply_unauth call hno h⟩
  · have hget : r.assoc.get? k = some A := AMap.get?_of_mem hr.keys_nodup h
    cases call with
    | register now key id life =>
      have hne : id ≠ A := hno
      have super : key = k → ((Call.register now key id life).apply r).isAuthorized t A = none := by
        intro hk
        subst hk
        rw [Registry.isAuthorized_eq_none]
        intro e he
        simp only [Call.apply, Registry.register, Registry.addIdentity_sess_get?, hne, if_false, hget] at he
        simp [Ne.symm hne] at he
      refine ⟨?_, fun now' B life' heq => by cases heq; exact super rfl⟩
      by_cases hk : key = k
      · exact Or.inl (super hk)
      · refine Or.inr ?_
        simp only [Call.apply, Registry.register, Registry.addIdentity_assoc, List.mem_cons, List.mem_filter]
        refine Or.inr ⟨h, ?_⟩
        simp [Ne.symm hk, Ne.symm hne]
    | removeExpired now =>
      refine ⟨?_, fun _ _ _ heq => by cases heq⟩
      have aux : ∀ ids : List Id, (ids.foldl Registry.dropIdentity r).isAuthorized t A = none ∨
          (k, A) ∈ (ids.foldl Registry.dropIdentity r).assoc := by
        intro ids
        by_cases hA : A ∈ ids
        · refine Or.inl ?_
          rw [Registry.isAuthorized_eq_none]
          intro e he
          rw [Registry.foldl_dropIdentity_sess_get?, if_pos hA] at he
          cases he
        · exact Or.inr ((foldl_dropIdentity_mem_assoc r ids k A).mpr ⟨h, hA⟩)
      exact aux _

/-- sequential: token key `k` is bound to `A`; a history of calls that contains a registration of another identity
under `k` and never registers `A` leaves `A` unauthorised at every instant -/
theorem Call.runSeq_superseded {A : Id} {k : Key} {t : Time} (calls : List Call)
    (hno : ∀ c ∈ calls, ¬ c.registers A) (c0 : Call) (hin : c0 ∈ calls)
    (hc0 : ∃ now B life, c0 = .register now k B life)
    {r : Registry} (hr : r.Inv) (h : r.isAuthorized t A = none ∨ (k, A) ∈ r.assoc) :
    (Call.runSeq r calls).isAuthorized t A = none := by
  induction calls generalizing r with
  | nil => cases hin
  | cons c rest ih =>
    have hstep := Call.apply_bound (t := t) hr c (hno c (by simp)) h
    have hno' : ∀ c' ∈ rest, ¬ c'.registers A := fun c' hc' => hno c' (List.mem_cons_of_mem _ hc')
    by_cases hc : c0 = c
    · obtain ⟨now, B, life, heq⟩ := hc0
      have : (c.apply r).isAuthorized t A = none := hstep.2 now B life (hc ▸ heq)
      exact Call.runSeq_unauth rest hno' this
    · have hin' : c0 ∈ rest := by
        rcases List.mem_cons.mp hin with h1 | h1
        · exact absurd h1 hc
        · exact h1
      exact ih hno' hin' (Call.apply_inv c hr) hstep.1

end ScionVerif.SnapTun.Conc
