import ScionVerif.Model.Acl
import ScionVerif.Model.HopPattern
import ScionVerif.Spec.Regex
import ScionVerif.Spec.HopPred
/-!
# Lemmas for C16 (path policy languages)

1. ACL: the two nested loops of `AclPolicy::matches` compute the first-match verdict per hop.
2. Matcher: `absorb` / `closure` (the position-set fixpoint of `all_nested_matches`) – soundness for every
   fuel, completeness for fuel `bound + 1` (pigeonhole on a duplicate-free set of positions `≤ bound`).
3. `matchFrom` vs. the denotational semantics `Spec.Lang`.
4. Parser: fuel, redundant parentheses.  5. Lexer: whitespace.  6. Predicate text round trip.
-/
namespace ScionVerif.Policy
open ScionVerif.Generated.Policy ScionVerif.Spec

deriving instance DecidableEq for Except

/-! ## 1. ACL -/

/-- the abstract rule list of an ACL: (is-allow, predicate) -/
def Acl.rules (acl : Acl) : List (Bool × Pred) := acl.entries.map fun e => (e.op == .allow, e.pred)

def Acl.defaultAllow (acl : Acl) : Bool := acl.default == .allow

theorem scanEntries_spec (es : List Entry) (h : Hop) :
    scanEntries es h =
      match (es.map fun e => ((e.op == Op.allow), e.pred)).find? (fun r => Pred.matches r.2 h) with
      | some r => if r.1 then some true else none
      | none => some false := by
  induction es with
  | nil => rfl
  | cons e es ih =>
    simp only [scanEntries, Entry.matches, List.map_cons, List.find?_cons]
    cases hm : e.pred.matches h
    · simpa using ih
    · cases hop : e.op <;> simp

theorem hopLoop_iff (acl : Acl) (hs : List Hop) :
    hopLoop acl hs = true ↔ aclAllows Pred.matches acl.rules acl.defaultAllow hs := by
  induction hs with
  | nil => simp [hopLoop, aclAllows]
  | cons h hs ih =>
    have hsplit : aclAllows Pred.matches acl.rules acl.defaultAllow (h :: hs) ↔
        firstMatch Pred.matches acl.rules acl.defaultAllow h = true ∧
          aclAllows Pred.matches acl.rules acl.defaultAllow hs := by
      simp [aclAllows]
    rw [hsplit, ← ih]
    simp only [hopLoop, scanEntries_spec, firstMatch, Acl.rules, Acl.defaultAllow]
    cases hf : (acl.entries.map fun e => ((e.op == Op.allow), e.pred)).find? (fun r => Pred.matches r.2 h) with
    | none =>
      cases hd : acl.default <;> simp
    | some r =>
      cases hr : r.1 <;> simp [hr]

/-! ## 2. the position-set fixpoint -/

theorem absorb_mem_all (c : List Nat) (A N : List Nat) (x : Nat) :
    x ∈ (absorb c (A, N)).1 ↔ x ∈ A ∨ x ∈ c := by
  induction c generalizing A N with
  | nil => simp [absorb]
  | cons n ns ih =>
    simp only [absorb]
    split
    · rename_i hn
      rw [ih]; simp only [List.mem_cons]
      constructor
      · rintro (h | h) <;> simp [h]
      · rintro (h | h | h)
        · exact .inl h
        · exact .inl (h ▸ hn)
        · exact .inr h
    · rw [ih]; simp only [List.mem_cons]
      constructor
      · rintro ((h | h) | h) <;> simp [h]
      · rintro (h | h | h) <;> simp [h]

theorem absorb_mem_next (c : List Nat) (A N : List Nat) (x : Nat) :
    x ∈ (absorb c (A, N)).2 ↔ x ∈ N ∨ (x ∈ c ∧ x ∉ A) := by
  induction c generalizing A N with
  | nil => simp [absorb]
  | cons n ns ih =>
    simp only [absorb]
    split
    · rename_i hn
      rw [ih]; simp only [List.mem_cons]
      constructor
      · rintro (h | ⟨h, h'⟩)
        · exact .inl h
        · exact .inr ⟨.inr h, h'⟩
      · rintro (h | ⟨h | h, h'⟩)
        · exact .inl h
        · exact absurd (h ▸ hn) h'
        · exact .inr ⟨h, h'⟩
    · rename_i hn
      rw [ih]; simp only [List.mem_cons]
      constructor
      · rintro ((h | h) | ⟨h, h'⟩)
        · exact .inr ⟨.inl h, h ▸ hn⟩
        · exact .inl h
        · exact .inr ⟨.inr h, fun h'' => h' (.inr h'')⟩
      · rintro (h | ⟨h | h, h'⟩)
        · exact .inl (.inr h)
        · exact .inl (.inl h)
        · by_cases hx : x = n
          · exact .inl (.inl hx)
          · exact .inr ⟨h, by rintro (h'' | h''); exact hx h''; exact h' h''⟩

theorem absorb_nodup (c : List Nat) (A N : List Nat) (hA : A.Nodup) : (absorb c (A, N)).1.Nodup := by
  induction c generalizing A N with
  | nil => simpa [absorb]
  | cons n ns ih =>
    simp only [absorb]
    split
    · exact ih A N hA
    · rename_i hn
      exact ih _ _ (List.nodup_cons.mpr ⟨hn, hA⟩)

theorem absorb_length (c : List Nat) (A N : List Nat) :
    (absorb c (A, N)).1.length + N.length = A.length + (absorb c (A, N)).2.length := by
  induction c generalizing A N with
  | nil => simp [absorb]
  | cons n ns ih =>
    simp only [absorb]
    split
    · exact ih A N
    · have := ih (n :: A) (n :: N)
      simp only [List.length_cons] at this
      omega

/-- reachable from a start set `S` by zero or more applications of `step` -/
inductive Reach (step : Nat → List Nat) (S : List Nat) : Nat → Prop where
  | base {x : Nat} : x ∈ S → Reach step S x
  | more {x y : Nat} : Reach step S x → y ∈ step x → Reach step S y

theorem Reach.trans_set {step : Nat → List Nat} {S S' : List Nat} (h : ∀ x ∈ S, Reach step S' x) {q : Nat}
    (hq : Reach step S q) : Reach step S' q := by
  induction hq with
  | base hx => exact h _ hx
  | more _ hy ih => exact .more ih hy

/-- soundness of the loop, for every fuel -/
theorem closure_sound (step : Nat → List Nat) (S : List Nat) :
    ∀ (fuel : Nat) (F A : List Nat), (∀ x ∈ F, Reach step S x) → (∀ x ∈ A, Reach step S x) →
      ∀ q ∈ closure step fuel F A, Reach step S q := by
  intro fuel
  induction fuel with
  | zero => intro F A _ hA q hq; exact hA q (by simpa [closure] using hq)
  | succ fuel ih =>
    intro F A hF hA q hq
    cases F with
    | nil => exact hA q (by simpa [closure] using hq)
    | cons f fs =>
      simp only [closure] at hq
      have hc : ∀ x ∈ (f :: fs).flatMap step, Reach step S x := by
        intro x hx
        obtain ⟨y, hy, hxy⟩ := List.mem_flatMap.mp hx
        exact .more (hF y hy) hxy
      refine ih _ _ ?_ ?_ q hq
      · intro x hx
        rcases (absorb_mem_next _ _ _ x).mp hx with h | ⟨h, _⟩
        · simp at h
        · exact hc x h
      · intro x hx
        rcases (absorb_mem_all _ _ _ x).mp hx with h | h
        · exact hA x h
        · exact hc x h

/-- completeness of the loop: with `fuel + |all| ≥ bound + 2` (initially `fuel = bound + 1`, `all` non-empty)
    the result contains `all` and is closed under `step`.  The measure is the number of positions `≤ bound`
    not yet in `all`; a round that finds nothing new empties the frontier. -/
theorem closure_closed (step : Nat → List Nat) (B : Nat) (hb : ∀ x ≤ B, ∀ y ∈ step x, y ≤ B) :
    ∀ (fuel : Nat) (F A : List Nat), (∀ x ∈ F, x ∈ A) → (∀ x ∈ A, x ≤ B) → A.Nodup →
      (∀ x ∈ A, x ∉ F → ∀ y ∈ step x, y ∈ A) → (F = [] ∨ B + 2 ≤ fuel + A.length) →
      (∀ x ∈ A, x ∈ closure step fuel F A) ∧
        (∀ x ∈ closure step fuel F A, ∀ y ∈ step x, y ∈ closure step fuel F A) := by
  intro fuel
  induction fuel with
  | zero =>
    intro F A _ hB hN hcl hm
    rcases hm with rfl | hm
    · simp only [closure]
      exact ⟨fun x hx => hx, fun x hx y hy => hcl x hx (by simp) y hy⟩
    · -- impossible: a duplicate-free list of numbers ≤ B has at most B + 1 elements
      have hsub : A ⊆ List.range (B + 1) := fun x hx => List.mem_range.mpr (Nat.lt_succ_of_le (hB x hx))
      have := List.Nodup.length_le_of_subset hN hsub
      simp at this; omega
  | succ fuel ih =>
    intro F A hFA hB hN hcl hm
    cases F with
    | nil =>
      simp only [closure]
      exact ⟨fun x hx => hx, fun x hx y hy => hcl x hx (by simp) y hy⟩
    | cons f fs =>
      simp only [closure]
      have hmem := absorb_mem_all ((f :: fs).flatMap step) A []
      have hnext := absorb_mem_next ((f :: fs).flatMap step) A []
      have hlen := absorb_length ((f :: fs).flatMap step) A []
      have hcB : ∀ x ∈ (f :: fs).flatMap step, x ≤ B := by
        intro x hx
        obtain ⟨y, hy, hxy⟩ := List.mem_flatMap.mp hx
        exact hb y (hB y (hFA y hy)) x hxy
      have := ih (absorb ((f :: fs).flatMap step) (A, [])).2 (absorb ((f :: fs).flatMap step) (A, [])).1
        (by
          intro x hx
          rcases (hnext x).mp hx with h | ⟨h, _⟩
          · simp at h
          · exact (hmem x).mpr (.inr h))
        (by
          intro x hx
          rcases (hmem x).mp hx with h | h
          · exact hB x h
          · exact hcB x h)
        (absorb_nodup _ _ _ hN)
        (by
          intro x hx hxn y hy
          by_cases hxA : x ∈ A
          · by_cases hxF : x ∈ f :: fs
            · exact (hmem y).mpr (.inr (List.mem_flatMap.mpr ⟨x, hxF, hy⟩))
            · exact (hmem y).mpr (.inl (hcl x hxA hxF y hy))
          · rcases (hmem x).mp hx with h | h
            · exact absurd h hxA
            · exact absurd ((hnext x).mpr (.inr ⟨h, hxA⟩)) hxn)
        (by
          cases hn : (absorb ((f :: fs).flatMap step) (A, [])).2 with
          | nil => exact .inl rfl
          | cons n ns =>
            right
            rcases hm with hm | hm
            · cases hm
            · rw [hn] at hlen; simp only [List.length_cons, List.length_nil] at hlen; omega)
      exact ⟨fun x hx => this.1 x ((hmem x).mpr (.inl hx)), this.2⟩

/-- `all_nested_matches` computes exactly the positions reachable by one or more applications of
    `inner.match_from`, provided `step` stays inside `[0, B]` and the loop may run `B + 1` rounds. -/
theorem allNestedWith_iff (step : Nat → List Nat) (B : Nat) (hb : ∀ x ≤ B, ∀ y ∈ step x, y ≤ B)
    (pos : Nat) (hpos : pos ≤ B) (q : Nat) :
    q ∈ allNestedWith step B pos ↔ Reach step (step pos) q := by
  have hmem := absorb_mem_all (step pos) [] []
  have hnext := absorb_mem_next (step pos) [] []
  have hlen := absorb_length (step pos) [] []
  constructor
  · intro hq
    refine closure_sound step (step pos) (B + 1) _ _ ?_ ?_ q hq
    · intro x hx
      rcases (hnext x).mp hx with h | ⟨h, _⟩
      · simp at h
      · exact .base h
    · intro x hx
      rcases (hmem x).mp hx with h | h
      · simp at h
      · exact .base h
  · intro hq
    have hcl := closure_closed step B hb (B + 1) (absorb (step pos) ([], [])).2 (absorb (step pos) ([], [])).1
      (by
        intro x hx
        rcases (hnext x).mp hx with h | ⟨h, _⟩
        · simp at h
        · exact (hmem x).mpr (.inr h))
      (by
        intro x hx
        rcases (hmem x).mp hx with h | h
        · simp at h
        · exact hb pos hpos x h)
      (absorb_nodup _ _ _ List.nodup_nil)
      (by
        intro x hx hxn
        rcases (hmem x).mp hx with h | h
        · simp at h
        · exact absurd ((hnext x).mpr (.inr ⟨h, by simp⟩)) hxn)
      (by
        cases hn : (absorb (step pos) ([], [])).2 with
        | nil => exact .inl rfl
        | cons n ns =>
          right
          rw [hn] at hlen; simp only [List.length_cons, List.length_nil] at hlen; omega)
    unfold allNestedWith
    induction hq with
    | base hx => exact hcl.1 _ ((hmem _).mpr (.inr hx))
    | more _ hy ih => exact hcl.2 _ ih _ hy

/-- fuel beyond `B + 1` changes nothing: the `while` loop has met its exit condition by then -/
theorem closure_fuel_irrelevant (step : Nat → List Nat) (B : Nat) (hb : ∀ x ≤ B, ∀ y ∈ step x, y ≤ B) :
    ∀ (fuel : Nat) (F A : List Nat), (∀ x ∈ F, x ∈ A) → (∀ x ∈ A, x ≤ B) → A.Nodup →
      (F = [] ∨ B + 2 ≤ fuel + A.length) → ∀ extra, closure step (fuel + extra) F A = closure step fuel F A := by
  intro fuel
  induction fuel with
  | zero =>
    intro F A _ hB hN hm extra
    rcases hm with rfl | hm
    · cases extra <;> simp [closure]
    · have hsub : A ⊆ List.range (B + 1) := fun x hx => List.mem_range.mpr (Nat.lt_succ_of_le (hB x hx))
      have := List.Nodup.length_le_of_subset hN hsub
      simp at this; omega
  | succ fuel ih =>
    intro F A hFA hB hN hm extra
    cases F with
    | nil => rw [Nat.add_right_comm]; simp [closure]
    | cons f fs =>
      rw [Nat.add_right_comm]
      simp only [closure]
      have hmem := absorb_mem_all ((f :: fs).flatMap step) A []
      have hnext := absorb_mem_next ((f :: fs).flatMap step) A []
      have hlen := absorb_length ((f :: fs).flatMap step) A []
      apply ih
      · intro x hx
        rcases (hnext x).mp hx with h | ⟨h, _⟩
        · simp at h
        · exact (hmem x).mpr (.inr h)
      · intro x hx
        rcases (hmem x).mp hx with h | h
        · exact hB x h
        · obtain ⟨y, hy, hxy⟩ := List.mem_flatMap.mp h
          exact hb y (hB y (hFA y hy)) x hxy
      · exact absorb_nodup _ _ _ hN
      · cases hn : (absorb ((f :: fs).flatMap step) (A, [])).2 with
        | nil => exact .inl rfl
        | cons n ns =>
          right
          rcases hm with hm | hm
          · cases hm
          · rw [hn] at hlen; simp only [List.length_cons, List.length_nil] at hlen; omega

/-! ## 3. the matcher and the denoted language -/

/-- the model's data as the spec's data (field by field) -/
def Ifs.toSpec : Ifs → Spec.HopInterfaces
  | .any => .any
  | .either i => .either i
  | .both a b => .both a b
def Pred.toSpec (p : Pred) : Spec.HopPredicate := ⟨p.isd, p.asn, p.ifs.toSpec⟩
def Hop.toSpec (h : Hop) : Spec.PolicyHop := ⟨h.isd, h.asn, h.ingress, h.egress⟩

/-- **atom semantics of the hop-pattern language and of ACL entries: the declarative specification**
    `Spec.predMatches` (Spec/HopPred.lean), not the model's matcher -/
def Sat (p : Pred) (h : Hop) : Prop := Spec.predMatches p.toSpec h.toSpec

theorem isdMatches_iff (a b : Nat) : isdMatches a b = true ↔ Spec.idMatches a b := by
  have : ISD_WILDCARD = 0 := rfl
  simp [isdMatches, Spec.idMatches, this, or_assoc]
theorem asnMatches_iff (a b : Nat) : asnMatches a b = true ↔ Spec.idMatches a b := by
  have : ASN_WILDCARD = 0 := rfl
  simp [asnMatches, Spec.idMatches, this, or_assoc]
theorem ifaceMatches_iff (a b : Nat) : ifaceMatches a b = true ↔ Spec.ifMatches a b := by
  have : IF_WILDCARD = 0 := rfl
  simp [ifaceMatches, Spec.ifMatches, this]

/-- **`HopPredicate::matches` = the specification**, for every predicate and every hop -/
theorem pred_matches_iff (p : Pred) (h : Hop) : p.matches h = true ↔ Spec.predMatches p.toSpec h.toSpec := by
  obtain ⟨isd, asn, ifs⟩ := p
  simp only [Pred.matches, Bool.and_eq_true, Spec.predMatches, Pred.toSpec, Hop.toSpec, isdMatches_iff]
  rw [and_assoc]
  refine and_congr Iff.rfl (and_congr ?_ ?_)
  · cases asn with
    | none => simp
    | some a => simp [asnMatches_iff]
  · cases ifs with
    | any => simp [Ifs.matches, Ifs.toSpec]
    | either i => simp [Ifs.matches, Ifs.toSpec, ifaceMatches_iff]
    | both a b => simp [Ifs.matches, Ifs.toSpec, ifaceMatches_iff]

theorem sat_iff (p : Pred) (h : Hop) : Sat p h ↔ p.matches h = true := (pred_matches_iff p h).symm

instance (p : Pred) (h : Hop) : Decidable (Sat p h) := decidable_of_iff _ (sat_iff p h).symm

/-- the specification as a Boolean test (for the ACL spec, which takes a decidable `holds`) -/
def satB (p : Pred) (h : Hop) : Bool := decide (Sat p h)

theorem satB_eq : satB = Pred.matches := by
  funext p h
  simp only [satB]
  cases hm : p.matches h
  · exact decide_eq_false (fun hs => by rw [(sat_iff p h).mp hs] at hm; cases hm)
  · exact decide_eq_true ((sat_iff p h).mpr hm)

/-- the documented meaning of the operators: `|` union, `?` zero or one, `+` one or more, `*` zero or more -/
def denote : Expr → Regex Pred
  | .pred p => .atom p
  | .or a b => .alt (denote a) (denote b)
  | .optional a => .opt (denote a)
  | .oneOrMore a => .plus (denote a)
  | .zeroOrMore a => .star (denote a)

/-- a hop pattern is the juxtaposition (concatenation) of its expressions -/
def denotePolicy (es : List Expr) : Regex Pred := Regex.seq (es.map denote)

theorem drop_split {α : Type} {hs w t : List α} {p : Nat} (h : hs.drop p = w ++ t) :
    hs.drop (p + w.length) = t := by
  rw [← List.drop_drop, h, List.drop_left]

theorem split_pos {α : Type} {hs w : List α} {p q : Nat} (hp : p ≤ hs.length) (hq : q ≤ hs.length)
    (h : hs.drop p = w ++ hs.drop q) : q = p + w.length := by
  have := congrArg List.length h
  simp only [List.length_drop, List.length_append] at this
  omega

/-- positions reachable by ≥ 1 applications of a sound-and-complete `step` = non-empty iterations -/
theorem reach_iff_iter (L : List Hop → Prop) (step : Nat → List Nat) (hs : List Hop)
    (hstep : ∀ p q, p ≤ hs.length → (q ∈ step p ↔ q ≤ hs.length ∧ ∃ w, L w ∧ hs.drop p = w ++ hs.drop q))
    (p q : Nat) (hp : p ≤ hs.length) :
    Reach step (step p) q ↔
      q ≤ hs.length ∧ ∃ ws : List (List Hop), ws ≠ [] ∧ (∀ x ∈ ws, L x) ∧ hs.drop p = ws.flatten ++ hs.drop q := by
  constructor
  · intro h
    induction h with
    | base hx =>
      obtain ⟨hq, w, hw, hd⟩ := (hstep p _ hp).mp hx
      exact ⟨hq, [w], by simp, by simpa using hw, by simpa using hd⟩
    | more _ hy ih =>
      obtain ⟨hx, ws, hne, hws, hd⟩ := ih
      obtain ⟨hq, w, hw, hd'⟩ := (hstep _ _ hx).mp hy
      refine ⟨hq, ws ++ [w], by simp, ?_, ?_⟩
      · intro x hx
        rcases List.mem_append.mp hx with h | h
        · exact hws x h
        · simp at h; exact h ▸ hw
      · rw [hd, hd']; simp
  · rintro ⟨hq, ws, hne, hws, hd⟩
    induction ws generalizing p with
    | nil => exact absurd rfl hne
    | cons w rest ih =>
      cases rest with
      | nil =>
        exact .base ((hstep p q hp).mpr ⟨hq, w, hws w (by simp), by simpa using hd⟩)
      | cons w2 rest =>
        have hd1 : hs.drop p = w ++ ((w2 :: rest).flatten ++ hs.drop q) := by
          simpa [List.append_assoc] using hd
        have hz := drop_split hd1
        have hzle : p + w.length ≤ hs.length := by
          have := congrArg List.length hd1
          simp only [List.length_drop, List.length_append] at this
          omega
        have hzp : p + w.length ∈ step p :=
          (hstep p _ hp).mpr ⟨hzle, w, hws w (by simp), by rw [hz]; exact hd1⟩
        have := ih (p + w.length) hzle (by simp) (fun x hx => hws x (by simp [hx] )) hz
        refine Reach.trans_set ?_ this
        intro x hx
        exact .more (.base hzp) hx

/-- **matcher = language**, split form: from a start position inside the path, `match_from` returns exactly
    the end positions `q` such that the hops between `p` and `q` form a word of the denoted language. -/
theorem matchFrom_split (e : Expr) (hs : List Hop) :
    ∀ p q, p ≤ hs.length →
      (q ∈ matchFrom e hs p ↔ q ≤ hs.length ∧ ∃ w, Lang Sat (denote e) w ∧ hs.drop p = w ++ hs.drop q) := by
  induction e with
  | pred pr =>
    intro p q hp
    simp only [matchFrom, denote, Lang]
    constructor
    · intro h
      cases hget : hs[p]? with
      | none => simp [hget] at h
      | some x =>
        simp only [hget] at h
        by_cases hm : pr.matches x = true
        · simp only [hm, if_true, List.mem_singleton] at h
          obtain ⟨hlt, hx⟩ := List.getElem?_eq_some_iff.mp hget
          subst h
          exact ⟨hlt, [x], ⟨x, rfl, (sat_iff _ _).mpr hm⟩, by rw [List.drop_eq_getElem_cons hlt, hx]; rfl⟩
        · simp [hm] at h
    · rintro ⟨hq, w, ⟨x, rfl, hm⟩, hd⟩
      have hq' := split_pos hp hq hd
      simp only [List.length_singleton] at hq'
      have hlt : p < hs.length := by omega
      rw [List.drop_eq_getElem_cons hlt] at hd
      simp only [List.singleton_append, List.cons.injEq] at hd
      have : hs[p]? = some x := by rw [List.getElem?_eq_getElem hlt, hd.1]
      simp only [this, hq']
      have hm' : pr.matches x = true := (sat_iff _ _).mp hm
      simp [hm']
  | or a b iha ihb =>
    intro p q hp
    simp only [matchFrom, denote, Lang, List.mem_append, iha p q hp, ihb p q hp]
    constructor
    · rintro (⟨hq, w, hw, hd⟩ | ⟨hq, w, hw, hd⟩)
      · exact ⟨hq, w, .inl hw, hd⟩
      · exact ⟨hq, w, .inr hw, hd⟩
    · rintro ⟨hq, w, hw | hw, hd⟩
      · exact .inl ⟨hq, w, hw, hd⟩
      · exact .inr ⟨hq, w, hw, hd⟩
  | optional a iha =>
    intro p q hp
    simp only [matchFrom, denote, Lang, List.mem_cons, iha p q hp]
    constructor
    · rintro (rfl | ⟨hq, w, hw, hd⟩)
      · exact ⟨hp, [], .inl rfl, rfl⟩
      · exact ⟨hq, w, .inr hw, hd⟩
    · rintro ⟨hq, w, rfl | hw, hd⟩
      · left
        have := split_pos hp hq hd
        simpa using this
      · exact .inr ⟨hq, w, hw, hd⟩
  | oneOrMore a iha =>
    intro p q hp
    have hb : ∀ x ≤ hs.length, ∀ y ∈ matchFrom a hs x, y ≤ hs.length :=
      fun x hx y hy => ((iha x y hx).mp hy).1
    simp only [matchFrom, denote, Lang]
    rw [allNestedWith_iff _ _ hb p hp q, reach_iff_iter (Lang Sat (denote a)) _ hs iha p q hp]
    constructor
    · rintro ⟨hq, ws, hne, hws, hd⟩
      exact ⟨hq, ws.flatten, ⟨ws, hne, hws, rfl⟩, hd⟩
    · rintro ⟨hq, w, ⟨ws, hne, hws, rfl⟩, hd⟩
      exact ⟨hq, ws, hne, hws, hd⟩
  | zeroOrMore a iha =>
    intro p q hp
    have hb : ∀ x ≤ hs.length, ∀ y ∈ matchFrom a hs x, y ≤ hs.length :=
      fun x hx y hy => ((iha x y hx).mp hy).1
    simp only [matchFrom, denote, Lang, List.mem_cons]
    rw [allNestedWith_iff _ _ hb p hp q, reach_iff_iter (Lang Sat (denote a)) _ hs iha p q hp]
    constructor
    · rintro (rfl | ⟨hq, ws, hne, hws, hd⟩)
      · exact ⟨hp, [], ⟨[], by simp, rfl⟩, rfl⟩
      · exact ⟨hq, ws.flatten, ⟨ws, hws, rfl⟩, hd⟩
    · rintro ⟨hq, w, ⟨ws, hws, rfl⟩, hd⟩
      cases ws with
      | nil =>
        left
        have := split_pos hp hq hd
        simpa using this
      | cons w1 rest => exact .inr ⟨hq, w1 :: rest, by simp, hws, hd⟩

/-- the statement in "extract" form -/
theorem matchFrom_extract (e : Expr) (hs : List Hop) (p q : Nat) (hp : p ≤ hs.length) :
    q ∈ matchFrom e hs p ↔ p ≤ q ∧ q ≤ hs.length ∧ Lang Sat (denote e) ((hs.drop p).take (q - p)) := by
  rw [matchFrom_split e hs p q hp]
  constructor
  · rintro ⟨hq, w, hw, hd⟩
    have hqp := split_pos hp hq hd
    refine ⟨by omega, hq, ?_⟩
    have : q - p = w.length := by omega
    rw [this, hd, List.take_left]
    exact hw
  · rintro ⟨hpq, hq, hl⟩
    refine ⟨hq, _, hl, ?_⟩
    have : hs.drop q = ((hs.drop p).drop (q - p)) := by
      rw [List.drop_drop]; congr 1; omega
    rw [this, List.take_append_drop]

theorem matchSeq_iff (hs : List Hop) (es : List Expr) :
    ∀ positions : List Nat, (∀ p ∈ positions, p ≤ hs.length) →
      (matchSeq es hs positions = true ↔
        ∃ p ∈ positions, Lang Sat (Regex.seq (es.map denote)) (hs.drop p)) := by
  induction es with
  | nil =>
    intro positions hpos
    simp only [matchSeq, List.map_nil, Regex.seq, Lang, List.contains_iff_mem, List.drop_eq_nil_iff]
    constructor
    · intro h; exact ⟨_, h, Nat.le_refl _⟩
    · rintro ⟨p, hp, hle⟩
      have := hpos p hp
      have : p = hs.length := by omega
      exact this ▸ hp
  | cons e es ih =>
    intro positions hpos
    have hnext : ∀ q, q ∈ (positions.flatMap (matchFrom e hs)).eraseDups ↔
        ∃ p ∈ positions, q ∈ matchFrom e hs p := by
      intro q; simp [List.mem_flatMap]
    have hbound : ∀ q ∈ (positions.flatMap (matchFrom e hs)).eraseDups, q ≤ hs.length := by
      intro q hq
      obtain ⟨p, hp, hqp⟩ := (hnext q).mp hq
      exact ((matchFrom_split e hs p q (hpos p hp)).mp hqp).1
    have hrhs : (∃ p ∈ positions, Lang Sat (Regex.seq ((e :: es).map denote)) (hs.drop p)) ↔
        ∃ q ∈ (positions.flatMap (matchFrom e hs)).eraseDups, Lang Sat (Regex.seq (es.map denote)) (hs.drop q) := by
      simp only [List.map_cons, Regex.seq, Lang]
      constructor
      · rintro ⟨p, hp, u, v, hd, hu, hv⟩
        have hz := drop_split hd
        have hzle : p + u.length ≤ hs.length := by
          have := congrArg List.length hd
          simp only [List.length_drop, List.length_append] at this
          have := hpos p hp
          omega
        refine ⟨p + u.length, (hnext _).mpr ⟨p, hp, ?_⟩, hz ▸ hv⟩
        exact (matchFrom_split e hs p _ (hpos p hp)).mpr ⟨hzle, u, hu, by rw [hz]; exact hd⟩
      · rintro ⟨q, hq, hv⟩
        obtain ⟨p, hp, hqp⟩ := (hnext q).mp hq
        obtain ⟨_, u, hu, hd⟩ := (matchFrom_split e hs p q (hpos p hp)).mp hqp
        exact ⟨p, hp, u, _, hd, hu, hv⟩
    rw [hrhs]
    simp only [matchSeq]
    split
    · rename_i hempty
      have : (positions.flatMap (matchFrom e hs)).eraseDups = [] := by simpa using hempty
      simp [this]
    · exact ih _ hbound

/-- **a hop pattern allows a path exactly when the hop sequence belongs to the denoted regular language** -/
theorem matchPolicy_iff (es : List Expr) (hs : List Hop) :
    matchPolicy es hs = true ↔ Lang Sat (denotePolicy es) hs := by
  unfold matchPolicy denotePolicy
  rw [matchSeq_iff hs es [0] (by simp)]
  simp

/-! ## 4. parser -/

/-- a successful `parse_expr` consumes at least one token; the loop never gives tokens back -/
theorem parse_consumes : ∀ fuel : Nat,
    (∀ bp toks e rest, parseExprU fuel bp toks = .ok (e, rest) → rest.length < toks.length) ∧
    (∀ bp e toks e' rest, parseLoopU fuel bp e toks = .ok (e', rest) → rest.length ≤ toks.length) := by
  intro fuel
  induction fuel with
  | zero => constructor <;> intros <;> simp_all [parseExprU, parseLoopU]
  | succ fuel ih =>
    obtain ⟨ihE, ihL⟩ := ih
    constructor
    · intro bp toks e rest h
      cases toks with
      | nil => simp [parseExprU] at h
      | cons t ts =>
        cases t <;> simp only [parseExprU] at h <;> try (simp at h; done)
        · -- pred
          split at h
          · simp at h
          · have := ihL _ _ _ _ _ h; simp; omega
        · -- lparen
          split at h
          · simp at h
          · rename_i e1 r1 h1
            have h1' := ihE _ _ _ _ h1
            split at h
            · rename_i r2
              have := ihL _ _ _ _ _ h
              simp at h1' ⊢; omega
            · simp at h
            · simp at h
    · intro bp e toks e' rest h
      cases toks with
      | nil => simp [parseLoopU] at h; simp [h]
      | cons t ts =>
        cases t <;> simp only [parseLoopU] at h <;>
          try (first
            | (simp only [Except.ok.injEq, Prod.mk.injEq] at h; rw [← h.2]; exact Nat.le_refl _)
            | (have := ihL _ _ _ _ _ h; simp; omega)
            | (simp at h; done))
        · -- or
          split at h
          · simp only [Except.ok.injEq, Prod.mk.injEq] at h; rw [← h.2]; exact Nat.le_refl _
          · split at h
            · simp at h
            · rename_i r rest' h1
              have h1' := ihE _ _ _ _ h1
              have := ihL _ _ _ _ _ h
              simp; omega

/-- with more fuel than tokens the recursion never runs out of fuel -/
theorem parse_no_fuel_error : ∀ fuel : Nat,
    (∀ bp toks, toks.length < fuel → parseExprU fuel bp toks ≠ .error .fuel) ∧
    (∀ bp e toks, toks.length < fuel → parseLoopU fuel bp e toks ≠ .error .fuel) := by
  intro fuel
  induction fuel with
  | zero => constructor <;> intros <;> omega
  | succ fuel ih =>
    obtain ⟨ihE, ihL⟩ := ih
    constructor
    · intro bp toks hlen
      cases toks with
      | nil => simp [parseExprU]
      | cons t ts =>
        simp only [List.length_cons] at hlen
        cases t <;> simp only [parseExprU] <;> try (simp; done)
        · split
          · simp
          · exact ihL _ _ _ (by omega)
        · split
          · rename_i err h1
            intro h; injection h with h; subst h
            exact ihE _ _ (by omega) h1
          · rename_i e1 r1 h1
            have h1' := (parse_consumes fuel).1 _ _ _ _ h1
            split
            · rename_i r2
              exact ihL _ _ _ (by simp at h1'; omega)
            · simp
            · simp
    · intro bp e toks hlen
      cases toks with
      | nil => simp [parseLoopU]
      | cons t ts =>
        simp only [List.length_cons] at hlen
        cases t <;> simp only [parseLoopU] <;>
          try (first
            | (exact ihL _ _ _ (by omega))
            | (simp; done))
        · split
          · simp
          · split
            · rename_i err h1
              intro h; injection h with h; subst h
              exact ihE _ _ (by omega) h1
            · rename_i r rest' h1
              have h1' := (parse_consumes fuel).1 _ _ _ _ h1
              exact ihL _ _ _ (by omega)

theorem parseTopU_no_fuel_error : ∀ (fuel : Nat) (toks : List Tok) (acc : List Expr),
    toks.length < fuel → parseTopU fuel toks acc ≠ .error .fuel := by
  intro fuel
  induction fuel with
  | zero => intros; omega
  | succ fuel ih =>
    intro toks acc hlen
    have key : (match parseExprU (toks.length + 1) NO_BIND_POWER toks with
        | .error e => (.error e : Except PErr (List Expr))
        | .ok (e, rest) => parseTopU fuel rest (e :: acc)) ≠ .error .fuel := by
      split
      · rename_i err h1
        intro h; injection h with h; subst h
        exact (parse_no_fuel_error _).1 _ _ (Nat.lt_succ_self _) h1
      · rename_i e rest h1
        have := (parse_consumes _).1 _ _ _ _ h1
        exact ih _ _ (by omega)
    cases toks with
    | nil => simp [parseTopU, parseExprU]
    | cons t ts =>
      cases t <;> simp only [parseTopU] <;> try exact key
      split <;> simp

/-- a result other than "out of fuel" does not depend on the fuel -/
theorem parse_fuel_succ : ∀ f : Nat,
    (∀ bp toks, parseExprU f bp toks ≠ .error .fuel → parseExprU (f + 1) bp toks = parseExprU f bp toks) ∧
    (∀ bp e toks, parseLoopU f bp e toks ≠ .error .fuel → parseLoopU (f + 1) bp e toks = parseLoopU f bp e toks) := by
  intro f
  induction f with
  | zero => constructor <;> intros <;> simp_all [parseExprU, parseLoopU]
  | succ f ih =>
    obtain ⟨ihE, ihL⟩ := ih
    constructor
    · intro bp toks h
      cases toks with
      | nil => simp [parseExprU]
      | cons t ts =>
        cases t <;> try (simp [parseExprU]; done)
        · -- pred
          rename_i s
          simp only [parseExprU] at h ⊢
          cases hp : parsePred s with
          | none => rfl
          | some p => simp only [hp] at h ⊢; exact ihL _ _ _ h
        · -- lparen
          by_cases hI : parseExprU f NO_BIND_POWER ts = .error .fuel
          · simp [parseExprU, hI] at h
          · rw [parseExprU, ihE _ _ hI]
            conv => rhs; rw [parseExprU]
            simp only [parseExprU] at h
            cases hr : parseExprU f NO_BIND_POWER ts with
            | error e => rfl
            | ok v =>
              obtain ⟨e1, r1⟩ := v
              simp only [hr] at h ⊢
              cases r1 with
              | nil => rfl
              | cons t2 r2 =>
                cases t2 <;> try rfl
                exact ihL _ _ _ h
    · intro bp e toks h
      cases toks with
      | nil => simp [parseLoopU]
      | cons t ts =>
        cases t <;> try (simp [parseLoopU]; done)
        · -- or
          rw [parseLoopU] at h
          conv => lhs; rw [parseLoopU]
          conv => rhs; rw [parseLoopU]
          split
          · rfl
          · rename_i hbp
            simp only [hbp, if_false] at h
            generalize hbp' : (if OR_LEFT_TO_RIGHT then OR_BIND_POWER + 1 else OR_BIND_POWER) = bp' at h ⊢
            by_cases hI : parseExprU f bp' ts = .error .fuel
            · simp [hI] at h
            · rw [ihE _ _ hI]
              cases hr : parseExprU f bp' ts with
              | error e => rfl
              | ok v =>
                obtain ⟨e1, r1⟩ := v
                simp only [hr] at h ⊢
                exact ihL _ _ _ h
        all_goals
          rw [parseLoopU] at h
          conv => lhs; rw [parseLoopU]
          conv => rhs; rw [parseLoopU]
          exact ihL _ _ _ h

theorem parseExprU_mono {f f' bp : Nat} {toks : List Tok} {r : Except PErr (Expr × List Tok)}
    (h : parseExprU f bp toks = r) (hr : r ≠ .error .fuel) (hle : f ≤ f') : parseExprU f' bp toks = r := by
  obtain ⟨k, rfl⟩ := Nat.exists_eq_add_of_le hle
  induction k with
  | zero => exact h
  | succ k ih =>
    have := ih (Nat.le_add_right _ _)
    rw [← Nat.add_assoc, (parse_fuel_succ (f + k)).1 bp toks (this ▸ hr), this]

theorem parseLoopU_mono {f f' bp : Nat} {e : Expr} {toks : List Tok} {r : Except PErr (Expr × List Tok)}
    (h : parseLoopU f bp e toks = r) (hr : r ≠ .error .fuel) (hle : f ≤ f') : parseLoopU f' bp e toks = r := by
  obtain ⟨k, rfl⟩ := Nat.exists_eq_add_of_le hle
  induction k with
  | zero => exact h
  | succ k ih =>
    have := ih (Nat.le_add_right _ _)
    rw [← Nat.add_assoc, (parse_fuel_succ (f + k)).2 bp e toks (this ▸ hr), this]

/-- fuel-free reading of the parser: "`parse_expr(bp)` on `toks` returns `r`" -/
def ParsesTo (bp : Nat) (toks : List Tok) (r : Except PErr (Expr × List Tok)) : Prop :=
  ∃ f, parseExprU f bp toks = r ∧ r ≠ .error .fuel
/-- "the left-denotation loop of `parse_expr(bp)`, entered with `e`, returns `r` on `toks`" -/
def LoopsTo (bp : Nat) (e : Expr) (toks : List Tok) (r : Except PErr (Expr × List Tok)) : Prop :=
  ∃ f, parseLoopU f bp e toks = r ∧ r ≠ .error .fuel

theorem ParsesTo.run {bp : Nat} {toks : List Tok} {r} (h : ParsesTo bp toks r) :
    parseExprU (toks.length + 1) bp toks = r := by
  obtain ⟨f, hf, hr⟩ := h
  have hnf := (parse_no_fuel_error (toks.length + 1)).1 bp toks (Nat.lt_succ_self _)
  rcases Nat.le_total f (toks.length + 1) with hle | hle
  · exact parseExprU_mono hf hr hle
  · have := parseExprU_mono rfl hnf hle
    rw [← this, hf]

/-- **Renderings of an expression as tokens, with any amount of redundant parentheses.**
`top = true`: a rendering in which an `|` chain may appear unparenthesised (expression level);
`top = false`: an operand (an atom, a parenthesised rendering, or an operand followed by `? + *`). -/
inductive Renders : Bool → Expr → List Tok → Prop where
  | pred {s : List Char} {p : Pred} : parsePred s = some p → Renders false (.pred p) [.pred s]
  | paren {top : Bool} {e : Expr} {ts : List Tok} : Renders top e ts → Renders false e (.lparen :: ts ++ [.rparen])
  | optional {e : Expr} {ts : List Tok} : Renders false e ts → Renders false (.optional e) (ts ++ [.qmark])
  | oneOrMore {e : Expr} {ts : List Tok} : Renders false e ts → Renders false (.oneOrMore e) (ts ++ [.plus])
  | zeroOrMore {e : Expr} {ts : List Tok} : Renders false e ts → Renders false (.zeroOrMore e) (ts ++ [.star])
  | or {a b : Expr} {ta tb : List Tok} : Renders true a ta → Renders false b tb →
      Renders true (.or a b) (ta ++ .or :: tb)
  | operand {e : Expr} {ts : List Tok} : Renders false e ts → Renders true e ts

/-- the next token does not continue an operand (`? + *`) and is not the unsupported `&` -/
def NoPostfix : List Tok → Prop
  | .qmark :: _ | .plus :: _ | .star :: _ | .and :: _ => False
  | _ => True

theorem loop_stops {bp : Nat} {e : Expr} {rest : List Tok} (h : NoPostfix rest)
    (hor : OR_BIND_POWER < bp ∨ rest.head? ≠ some .or) :
    LoopsTo bp e rest (.ok (e, rest)) := by
  refine ⟨1, ?_, by simp⟩
  cases rest with
  | nil => simp [parseLoopU]
  | cons t ts =>
    cases t <;> simp_all [parseLoopU, NoPostfix]

/-- **Parsing a rendering = continuing with its expression** (continuation form). -/
theorem renders_parse {top : Bool} {e : Expr} {ts : List Tok} (h : Renders top e ts) :
    ∀ (bp : Nat) (rest : List Tok) (r : Except PErr (Expr × List Tok)),
      (top = true → bp ≤ OR_BIND_POWER ∧ NoPostfix rest) →
      LoopsTo bp e rest r → ParsesTo bp (ts ++ rest) r := by
  induction h with
  | pred hp =>
    rintro bp rest r - ⟨f, hf, hr⟩
    exact ⟨f + 1, by simp [parseExprU, hp, hf], hr⟩
  | @paren top e ts _ ih =>
    rintro bp rest r - ⟨f, hf, hr⟩
    have inner : ParsesTo NO_BIND_POWER (ts ++ .rparen :: rest) (.ok (e, .rparen :: rest)) :=
      ih NO_BIND_POWER (.rparen :: rest) _ (fun _ => ⟨by decide, trivial⟩)
        (loop_stops trivial (.inr (by simp)))
    obtain ⟨f1, hf1, hr1⟩ := inner
    refine ⟨max f f1 + 1, ?_, hr⟩
    simp only [List.cons_append, List.append_assoc, List.nil_append, parseExprU]
    rw [parseExprU_mono hf1 hr1 (Nat.le_max_right _ _)]
    exact parseLoopU_mono hf hr (Nat.le_max_left _ _)
  | optional _ ih =>
    rintro bp rest r - ⟨f, hf, hr⟩
    rw [List.append_assoc]
    exact ih bp _ r (by simp) ⟨f + 1, by simpa [parseLoopU] using hf, hr⟩
  | oneOrMore _ ih =>
    rintro bp rest r - ⟨f, hf, hr⟩
    rw [List.append_assoc]
    exact ih bp _ r (by simp) ⟨f + 1, by simpa [parseLoopU] using hf, hr⟩
  | zeroOrMore _ ih =>
    rintro bp rest r - ⟨f, hf, hr⟩
    rw [List.append_assoc]
    exact ih bp _ r (by simp) ⟨f + 1, by simpa [parseLoopU] using hf, hr⟩
  | @or a b ta tb _ _ iha ihb =>
    rintro bp rest r htop ⟨f, hf, hr⟩
    obtain ⟨hbp, hnp⟩ := htop rfl
    rw [List.append_assoc]
    refine iha bp _ r (fun _ => ⟨hbp, trivial⟩) ?_
    -- the right operand is parsed with binding power OR_BIND_POWER + 1 and stops in front of `rest`
    have hb : ParsesTo (OR_BIND_POWER + 1) (tb ++ rest) (.ok (b, rest)) :=
      ihb (OR_BIND_POWER + 1) rest _ (by simp) (loop_stops hnp (.inl (Nat.lt_succ_self _)))
    obtain ⟨f1, hf1, hr1⟩ := hb
    refine ⟨max f f1 + 1, ?_, hr⟩
    have hlr : OR_LEFT_TO_RIGHT = true := by decide
    simp only [List.cons_append, parseLoopU, Nat.not_lt.mpr hbp, if_false, hlr, if_true]
    rw [parseExprU_mono hf1 hr1 (Nat.le_max_right _ _)]
    exact parseLoopU_mono hf hr (Nat.le_max_left _ _)
  | operand _ ih =>
    rintro bp rest r - hl
    exact ih bp rest r (by simp) hl

/-- the first token of an operand: a hop predicate or `(` -/
def StartsOperand : List Tok → Prop
  | .pred _ :: _ | .lparen :: _ => True
  | _ => False

theorem StartsOperand.append {ts : List Tok} (h : StartsOperand ts) (x : List Tok) : StartsOperand (ts ++ x) := by
  cases ts with
  | nil => exact absurd h (by simp [StartsOperand])
  | cons t ts => cases t <;> simp_all [StartsOperand]

theorem Renders.starts {top : Bool} {e : Expr} {ts : List Tok} (h : Renders top e ts) : StartsOperand ts := by
  induction h with
  | pred _ => trivial
  | paren _ _ => trivial
  | optional _ ih => exact ih.append _
  | oneOrMore _ ih => exact ih.append _
  | zeroOrMore _ ih => exact ih.append _
  | or _ _ iha _ => exact iha.append _
  | operand _ ih => exact ih

/-- what may follow a complete expression at the top level or inside parentheses: another operand,
    `)`, or the end of input – in particular not `? + * & |` -/
def Follows : List Tok → Prop
  | .pred _ :: _ | .lparen :: _ | .rparen :: _ | .eoi :: _ | [] => True
  | _ => False

/-- **Every rendering of `e` – whatever redundant parentheses it contains – parses to `e`** and leaves exactly
    the tokens that follow it. -/
theorem renders_parseExpr {top : Bool} {e : Expr} {ts : List Tok} (h : Renders top e ts)
    (rest : List Tok) (hrest : Follows rest) :
    parseExprU ((ts ++ rest).length + 1) NO_BIND_POWER (ts ++ rest) = .ok (e, rest) := by
  apply ParsesTo.run
  apply renders_parse h
  · intro _
    refine ⟨by decide, ?_⟩
    cases rest with
    | nil => trivial
    | cons t _ => cases t <;> simp_all [Follows, NoPostfix]
  · apply loop_stops
    · cases rest with
      | nil => trivial
      | cons t _ => cases t <;> simp_all [Follows, NoPostfix]
    · right
      cases rest with
      | nil => simp
      | cons t _ => cases t <;> simp_all [Follows]

/-- renderings of a pattern: juxtaposed renderings of its expressions -/
inductive RendersSeq : List Expr → List Tok → Prop where
  | nil : RendersSeq [] []
  | cons {top : Bool} {e : Expr} {ts : List Tok} {es : List Expr} {tss : List Tok} :
      Renders top e ts → RendersSeq es tss → RendersSeq (e :: es) (ts ++ tss)

theorem StartsOperand.follows {l : List Tok} (h : StartsOperand l) : Follows l := by
  cases l with
  | nil => trivial
  | cons t _ => cases t <;> simp_all [StartsOperand, Follows]

theorem RendersSeq.follows {es : List Expr} {tss : List Tok} (h : RendersSeq es tss) :
    Follows (tss ++ [.eoi]) := by
  cases h with
  | nil => trivial
  | cons hr' _ => exact ((hr'.starts.append _).append _).follows

theorem parseTopU_step {f : Nat} {toks : List Tok} {acc : List Expr} (h : StartsOperand toks)
    {e : Expr} {rest : List Tok} (hp : parseExprU (toks.length + 1) NO_BIND_POWER toks = .ok (e, rest)) :
    parseTopU (f + 1) toks acc = parseTopU f rest (e :: acc) := by
  cases toks with
  | nil => exact absurd h (by simp [StartsOperand])
  | cons t ts =>
    cases t <;> simp only [StartsOperand] at h
    all_goals
      simp only [parseTopU, hp]

theorem rendersSeq_parseTop {es : List Expr} {ts : List Tok} (h : RendersSeq es ts) :
    ∀ (f : Nat) (acc : List Expr), ts.length + 1 < f →
      parseTopU f (ts ++ [.eoi]) acc = .ok (acc.reverse ++ es) := by
  induction h with
  | nil =>
    intro f acc hf
    cases f with
    | zero => omega
    | succ f => simp [parseTopU]
  | @cons top e ts es tss hr hs ih =>
    intro f acc hf
    cases f with
    | zero => omega
    | succ f =>
      have hfol := hs.follows
      rw [List.append_assoc, parseTopU_step (hr.starts.append _) (renders_parseExpr hr _ hfol)]
      have hlen : 0 < ts.length := by
        have := hr.starts
        cases ts with
        | nil => exact absurd this (by simp [StartsOperand])
        | cons _ _ => simp
      rw [ih f (e :: acc) (by simp only [List.length_append] at hf; omega)]
      simp

/-- **Redundant parentheses do not change what a pattern means (token level)**: every token sequence
    that renders the pattern `es` – with parentheses anywhere the grammar allows them – is parsed to
    exactly `es`; hence two renderings of the same pattern always parse to the same AST. -/
theorem rendersSeq_parseTokens {es : List Expr} {ts : List Tok} (h : RendersSeq es ts) :
    parseTokensU (ts ++ [.eoi]) = .ok es := by
  unfold parseTokensU
  rw [rendersSeq_parseTop h _ [] (by simp)]
  simp

/-! ### the depth-limited parser (`MAX_EXPRESSION_DEPTH`) against the grammar -/

/-- the limited parser's answer `r` agrees with the unlimited parser's answer `u`: either `r` is the depth
    error, or both are the same error, or both succeed with the same expression and unread tokens, the tracked
    depth being the depth of the expression and within the limit -/
def Agrees (r : Except PErr ((Expr × Nat) × List Tok)) (u : Except PErr (Expr × List Tok)) : Prop :=
  match r with
  | .error (.tooDeep _) => True
  | .error e => u = .error e
  | .ok ((e, d), rest) => u = .ok (e, rest) ∧ d = e.depth ∧ e.depth ≤ MAX_EXPRESSION_DEPTH

theorem depthExceeded_false {d : Nat} (h : depthExceeded d = false) : d ≤ MAX_EXPRESSION_DEPTH := by
  simp only [depthExceeded, decide_eq_false_iff_not, Nat.not_lt] at h
  exact h

theorem Agrees.tooDeep (k : Nat) (u) : Agrees (.error (.tooDeep k)) u := trivial

theorem pred_depth_ok : PRED_DEPTH = 1 ∧ 1 ≤ MAX_EXPRESSION_DEPTH := by decide

/-- **The depth limit only ever adds the depth error**: on every token list, at every nesting level, the
    limited parser either reports `tooDeep` or answers exactly as the parser without the limit. -/
theorem parse_agrees : ∀ f : Nat,
    (∀ n bp toks, Agrees (parseExpr f n bp toks) (parseExprU f bp toks)) ∧
    (∀ n bp e d toks, d = e.depth → e.depth ≤ MAX_EXPRESSION_DEPTH →
      Agrees (parseLoop f n bp e d toks) (parseLoopU f bp e toks)) := by
  intro f
  induction f with
  | zero => constructor <;> intros <;> simp [parseExpr, parseLoop, parseExprU, parseLoopU, Agrees]
  | succ f ih =>
    obtain ⟨ihE, ihL⟩ := ih
    constructor
    · intro n bp toks
      cases toks with
      | nil => simp [parseExpr, parseExprU, Agrees]
      | cons t ts =>
        cases t <;> try (simp [parseExpr, parseExprU, Agrees]; done)
        · -- pred
          rename_i s
          simp only [parseExpr, parseExprU]
          cases hp : parsePred s with
          | none => simp [Agrees]
          | some p => exact ihL n bp (.pred p) PRED_DEPTH ts (by simp [Expr.depth, pred_depth_ok.1]) (by simpa [Expr.depth] using pred_depth_ok.2)
        · -- lparen
          simp only [parseExpr, parseExprU]
          cases hx : depthExceeded (n + 1) with
          | true => simp [Agrees]
          | false =>
            simp only [Bool.false_eq_true, if_false]
            have h1 := ihE (n + 1) NO_BIND_POWER ts
            cases hr : parseExpr f (n + 1) NO_BIND_POWER ts with
            | error e =>
              rw [hr] at h1
              cases e <;> simp only [Agrees] at h1 ⊢ <;> simp [h1]
            | ok v =>
              obtain ⟨⟨e1, d1⟩, r1⟩ := v
              rw [hr] at h1
              simp only [Agrees] at h1
              obtain ⟨hu, hd, hle⟩ := h1
              simp only [hu]
              cases r1 with
              | nil => simp [Agrees]
              | cons t2 r2 =>
                cases t2 <;> try (simp [Agrees]; done)
                exact ihL n bp e1 d1 r2 hd hle
    · intro n bp e d toks hd hle
      have post : ∀ (mk : Expr → Expr) (rest : List Tok), (∀ x, (mk x).depth = x.depth + 1) →
          Agrees (if depthExceeded (d + 1) then .error (.tooDeep (rest.length + 1))
                  else parseLoop f n bp (mk e) (d + 1) rest) (parseLoopU f bp (mk e) rest) := by
        intro mk rest hmk
        cases hx : depthExceeded (d + 1) with
        | true => simp [Agrees]
        | false =>
          simp only [Bool.false_eq_true, if_false]
          have := depthExceeded_false hx
          exact ihL n bp (mk e) (d + 1) rest (by rw [hmk, hd]) (by rw [hmk, ← hd]; exact this)
      cases toks with
      | nil => simp [parseLoop, parseLoopU, Agrees, hd, hle]
      | cons t ts =>
        cases t <;> try (simp [parseLoop, parseLoopU, Agrees, hd, hle]; done)
        · -- or
          simp only [parseLoop, parseLoopU]
          split
          · simp [Agrees, hd, hle]
          · cases hx : depthExceeded (n + 1) with
            | true => simp [Agrees]
            | false =>
              simp only [Bool.false_eq_true, if_false]
              generalize (if OR_LEFT_TO_RIGHT then OR_BIND_POWER + 1 else OR_BIND_POWER) = bp'
              have h1 := ihE (n + 1) bp' ts
              cases hr : parseExpr f (n + 1) bp' ts with
              | error e' =>
                rw [hr] at h1
                cases e' <;> simp only [Agrees] at h1 ⊢ <;> simp [h1]
              | ok v =>
                obtain ⟨⟨e1, d1⟩, r1⟩ := v
                rw [hr] at h1
                simp only [Agrees] at h1
                obtain ⟨hu, hd1, hle1⟩ := h1
                simp only [hu]
                cases hx2 : depthExceeded (max d d1 + 1) with
                | true => simp [Agrees]
                | false =>
                  simp only [Bool.false_eq_true, if_false]
                  have := depthExceeded_false hx2
                  exact ihL n bp (.or e e1) (max d d1 + 1) r1 (by simp [Expr.depth, hd, hd1])
                    (by simpa [Expr.depth, hd, hd1] using this)
        · simp only [parseLoop, parseLoopU, List.length_cons]; exact post .optional ts (fun _ => rfl)
        · simp only [parseLoop, parseLoopU, List.length_cons]; exact post .oneOrMore ts (fun _ => rfl)
        · simp only [parseLoop, parseLoopU, List.length_cons]; exact post .zeroOrMore ts (fun _ => rfl)

/-- agreement of the top-level loops -/
def AgreesTop (r u : Except PErr (List Expr)) : Prop :=
  match r with
  | .error (.tooDeep _) => True
  | .error e => u = .error e
  | .ok es => u = .ok es ∧ ∀ e ∈ es, e.depth ≤ MAX_EXPRESSION_DEPTH

theorem parseTop_agrees : ∀ (f : Nat) (toks : List Tok) (acc : List Expr),
    (∀ e ∈ acc, e.depth ≤ MAX_EXPRESSION_DEPTH) → AgreesTop (parseTop f toks acc) (parseTopU f toks acc) := by
  intro f
  induction f with
  | zero => intros; simp [parseTop, parseTopU, AgreesTop]
  | succ f ih =>
    intro toks acc hacc
    have key : AgreesTop
        (match parseExpr (toks.length + 1) TOP_NESTING NO_BIND_POWER toks with
          | .error e => (.error e : Except PErr (List Expr))
          | .ok ((e, _), rest) => parseTop f rest (e :: acc))
        (match parseExprU (toks.length + 1) NO_BIND_POWER toks with
          | .error e => (.error e : Except PErr (List Expr))
          | .ok (e, rest) => parseTopU f rest (e :: acc)) := by
      have h1 := (parse_agrees (toks.length + 1)).1 TOP_NESTING NO_BIND_POWER toks
      cases hr : parseExpr (toks.length + 1) TOP_NESTING NO_BIND_POWER toks with
      | error e =>
        rw [hr] at h1
        cases e <;> simp only [Agrees] at h1 <;> simp [AgreesTop, h1]
      | ok v =>
        obtain ⟨⟨e1, d1⟩, r1⟩ := v
        rw [hr] at h1
        simp only [Agrees] at h1
        obtain ⟨hu, -, hle⟩ := h1
        simp only [hu]
        exact ih r1 (e1 :: acc) (by
          intro x hx
          rcases List.mem_cons.mp hx with rfl | hx
          · exact hle
          · exact hacc x hx)
    cases toks with
    | nil => simp [parseTop, parseTopU, parseExpr, parseExprU, AgreesTop]
    | cons t ts =>
      cases t <;> simp only [parseTop, parseTopU] <;> try exact key
      split
      · simp only [AgreesTop, true_and]
        intro e he
        exact hacc e (List.mem_reverse.mp he)
      · simp [AgreesTop]

theorem parseTokens_agrees (toks : List Tok) : AgreesTop (parseTokens toks) (parseTokensU toks) :=
  parseTop_agrees _ _ _ (by simp)

/-! ## 5. lexer: whitespace between tokens is irrelevant -/

/-- the text of a token -/
def Tok.text : Tok → List Char
  | .pred s => s
  | .bang => ['!'] | .and => ['&'] | .or => ['|'] | .lparen => ['('] | .rparen => [')']
  | .qmark => ['?'] | .plus => ['+'] | .star => ['*'] | .eoi => []

/-- a symbol token: one of the single-character tokens of the lexer table -/
def Tok.isSymbol (t : Tok) : Prop := ∃ c, t.text = [c] ∧ singleCharTok c = some t

/-- a predicate token whose text is non-empty and free of whitespace and reserved characters -/
def Tok.isPlainPred (t : Tok) : Prop := ∃ s, t = .pred s ∧ s ≠ [] ∧ ∀ c ∈ s, stopsPred c = false

/-- `s` is the token sequence `ts` written with arbitrary skipped whitespace (space, tab, newline) before,
    between and after the tokens; a hop predicate must be followed by whitespace, a symbol or the end. -/
inductive Spaced : List Tok → List Char → Prop where
  | nil {ws : List Char} : (∀ c ∈ ws, lexSkips c = true) → Spaced [] ws
  | sym {ws : List Char} {t : Tok} {ts : List Tok} {rest : List Char} :
      (∀ c ∈ ws, lexSkips c = true) → t.isSymbol → Spaced ts rest → Spaced (t :: ts) (ws ++ t.text ++ rest)
  | pred {ws : List Char} {t : Tok} {ts : List Tok} {rest : List Char} :
      (∀ c ∈ ws, lexSkips c = true) → t.isPlainPred → Spaced ts rest →
      (rest = [] ∨ ∃ c r, rest = c :: r ∧ stopsPred c = true) → Spaced (t :: ts) (ws ++ t.text ++ rest)

def kinds (l : List Token) : List Tok := l.map (·.kind)

theorem single_stops (c : Char) (t : Tok) (h : singleCharTok c = some t) : stopsPred c = true := by
  have hall : SINGLE_CHAR_TOKENS.all (fun p => RESERVED_CHARS.contains p.1) = true := by decide
  unfold singleCharTok at h
  cases hl : SINGLE_CHAR_TOKENS.lookup c with
  | none => simp [hl] at h
  | some n =>
    have : ∀ (l : List (Char × String)), l.lookup c = some n → l.all (fun p => RESERVED_CHARS.contains p.1) = true →
        RESERVED_CHARS.contains c = true := by
      intro l
      induction l with
      | nil => simp [List.lookup]
      | cons p l ih =>
        obtain ⟨a, b⟩ := p
        simp only [List.lookup, List.all_cons, Bool.and_eq_true]
        intro h1 h2
        by_cases hca : c = a
        · subst hca; exact h2.1
        · have : (c == a) = false := by simpa using hca
          simp only [this] at h1
          exact ih h1 h2.2
    have hr := this _ hl hall
    simp only [stopsPred, Bool.or_eq_true]
    exact .inr hr

theorem skip_stops (c : Char) (h : lexSkips c = true) : stopsPred c = true := by
  simp only [lexSkips, Bool.and_eq_true] at h
  simp [stopsPred, h.2]

theorem single_mem (c : Char) (t : Tok) (h : singleCharTok c = some t) : c ∈ SINGLE_CHAR_TOKENS.map (·.1) := by
  unfold singleCharTok at h
  cases hl : SINGLE_CHAR_TOKENS.lookup c with
  | none => simp [hl] at h
  | some n =>
    have : ∀ (l : List (Char × String)), l.lookup c = some n → c ∈ l.map (·.1) := by
      intro l
      induction l with
      | nil => simp [List.lookup]
      | cons p l ih =>
        obtain ⟨a, b⟩ := p
        simp only [List.lookup, List.map_cons, List.mem_cons]
        intro h1
        by_cases hca : c = a
        · exact .inl hca
        · have : (c == a) = false := by simpa using hca
          simp only [this] at h1
          exact .inr (ih h1)
    exact this _ hl

theorem skip_not_single (c : Char) (h : lexSkips c = true) : singleCharTok c = none := by
  have hall : ∀ x ∈ SINGLE_CHAR_TOKENS.map (·.1), lexSkips x = false := by decide
  cases hs : singleCharTok c with
  | none => rfl
  | some t => rw [hall c (single_mem c t hs)] at h; cases h

theorem lexGo_skip (ws : List Char) (hws : ∀ c ∈ ws, lexSkips c = true) (s : List Char) (idx : Nat) :
    ∃ idx', lexGo (ws ++ s) idx none = lexGo s idx' none := by
  induction ws generalizing idx with
  | nil => exact ⟨idx, rfl⟩
  | cons w ws ih =>
    have hw := hws w (by simp)
    obtain ⟨i, hi⟩ := ih (fun c hc => hws c (by simp [hc])) (idx + w.utf8Size)
    refine ⟨i, ?_⟩
    simp only [List.cons_append, lexGo, lexStart, skip_not_single w hw, hw, if_true, List.nil_append]
    exact hi

theorem lexGo_inpred (cs : List Char) (hcs : ∀ c ∈ cs, stopsPred c = false) (rest : List Char) (idx s0 : Nat)
    (acc : List Char) :
    ∃ idx', lexGo (cs ++ rest) idx (some (s0, acc)) = lexGo rest idx' (some (s0, cs.reverse ++ acc)) := by
  induction cs generalizing idx acc with
  | nil => exact ⟨idx, rfl⟩
  | cons c cs ih =>
    obtain ⟨i, hi⟩ := ih (fun x hx => hcs x (by simp [hx])) (idx + c.utf8Size) (c :: acc)
    refine ⟨i, ?_⟩
    simp only [List.cons_append, lexGo, hcs c (by simp), Bool.false_eq_true, if_false]
    rw [hi]; simp

theorem spaced_nil_inv {ts : List Tok} {s : List Char} (h : Spaced ts s) (hs : s = []) : ts = [] := by
  cases h with
  | nil _ => rfl
  | sym _ ht _ =>
    obtain ⟨c, htext, _⟩ := ht
    simp [htext] at hs
  | pred _ ht _ _ =>
    obtain ⟨p, rfl, hne, _⟩ := ht
    simp only [Tok.text, List.append_eq_nil_iff] at hs
    exact absurd hs.1.2 hne

theorem spaced_lex {ts : List Tok} {s : List Char} (h : Spaced ts s) :
    ∀ idx, kinds (lexGo s idx none) = ts ++ [.eoi] := by
  induction h with
  | nil hws =>
    intro idx
    obtain ⟨i, hi⟩ := lexGo_skip _ hws [] idx
    simp only [List.append_nil] at hi
    rw [hi]; rfl
  | @sym ws t ts rest hws ht _ ih =>
    intro idx
    obtain ⟨c, htext, hc⟩ := ht
    rw [List.append_assoc]
    obtain ⟨i, hi⟩ := lexGo_skip ws hws (t.text ++ rest) idx
    rw [hi, htext]
    simp only [lexGo, lexStart, hc, kinds, List.map_cons, List.cons_append, List.nil_append]
    have := ih (i + c.utf8Size)
    simp only [kinds] at this
    rw [this]
  | @pred ws t ts rest hws ht _ hrest ih =>
    intro idx
    obtain ⟨p, rfl, hne, hplain⟩ := ht
    rw [List.append_assoc]
    obtain ⟨i, hi⟩ := lexGo_skip ws hws (Tok.text (.pred p) ++ rest) idx
    rw [hi]
    cases p with
    | nil => exact absurd rfl hne
    | cons c0 cs =>
      have hc0 : stopsPred c0 = false := hplain c0 (by simp)
      have hns : singleCharTok c0 = none := by
        cases hs : singleCharTok c0 with
        | none => rfl
        | some t => rw [single_stops c0 t hs] at hc0; cases hc0
      have hnk : lexSkips c0 = false := by
        cases hk : lexSkips c0 with
        | false => rfl
        | true => rw [skip_stops c0 hk] at hc0; cases hc0
      simp only [Tok.text, List.cons_append, lexGo, lexStart, hns, hnk, Bool.false_eq_true, if_false,
        List.nil_append]
      obtain ⟨j, hj⟩ := lexGo_inpred cs (fun x hx => hplain x (by simp [hx])) rest (i + c0.utf8Size) i [c0]
      rw [hj]
      have hrev : (cs.reverse ++ [c0]).reverse = c0 :: cs := by simp
      rcases hrest with rfl | ⟨c, r, rfl, hstop⟩
      · have hts := spaced_nil_inv ‹Spaced ts []› rfl
        subst hts
        simp [lexGo, flushPred, kinds, hrev]
      · have := ih j
        simp only [lexGo] at this
        simp only [lexGo, hstop, if_true, kinds, List.map_append, flushPred, List.map_cons, hrev,
          List.cons_append, List.nil_append]
        simp only [kinds, List.map_append] at this
        rw [this]

/-! ## 6. hop predicate text: print then parse -/

theorem digitsVal_append (val : Char → Option Nat) (r : Nat) (a b : List Char) (acc : Nat) :
    digitsVal val r (a ++ b) acc = (digitsVal val r a acc).bind (digitsVal val r b) := by
  induction a generalizing acc with
  | nil => rfl
  | cons c cs ih =>
    simp only [List.cons_append, digitsVal]
    cases val c with
    | none => rfl
    | some d => exact ih _

/-- parsing the digits of `n` in base `b` gives `n` back -/
theorem digitsVal_toDigits (val : Char → Option Nat) (b : Nat) (hb : 1 < b)
    (hval : ∀ d, d < b → val (Nat.digitChar d) = some d) (n : Nat) :
    digitsVal val b (Nat.toDigits b n) 0 = some n := by
  induction n using Nat.base_induction b hb with
  | single m hm => simp [Nat.toDigits_of_lt_base hm, digitsVal, hval m hm]
  | digit m k hk hm ih =>
    rw [← Nat.toDigits_append_toDigits hb hm hk, digitsVal_append, ih, Nat.toDigits_of_lt_base hk]
    simp [digitsVal, hval k hk]

/-- every character printed for a number is a digit character of that base -/
theorem mem_toDigits (b : Nat) (hb : 1 < b) (n : Nat) :
    ∀ c ∈ Nat.toDigits b n, ∃ d, d < b ∧ c = Nat.digitChar d := by
  induction n using Nat.base_induction b hb with
  | single m hm => intro c hc; simp [Nat.toDigits_of_lt_base hm] at hc; exact ⟨m, hm, hc⟩
  | digit m k hk hm ih =>
    intro c hc
    rw [← Nat.toDigits_append_toDigits hb hm hk, Nat.toDigits_of_lt_base hk] at hc
    rcases List.mem_append.mp hc with h | h
    · exact ih c h
    · simp at h; exact ⟨k, hk, h⟩

theorem decVal_digitChar : ∀ d, d < 10 → decVal (Nat.digitChar d) = some d := by decide
theorem hexVal_digitChar : ∀ d, d < 16 → hexVal (Nat.digitChar d) = some d := by decide

/-- the characters that structure a hop predicate are not digits of any printed number -/
def isSep (c : Char) : Bool := c == '+' || c == SEP_ISD_ASN || c == SEP_ASN_IF || c == SEP_IF || c == ':'

theorem digitChar_not_sep : ∀ d, d < 16 → isSep (Nat.digitChar d) = false := by decide

theorem toDigits_no_sep (b : Nat) (hb : 1 < b) (hb16 : b ≤ 16) (n : Nat) :
    ∀ c ∈ Nat.toDigits b n, isSep c = false := by
  intro c hc
  obtain ⟨d, hd, rfl⟩ := mem_toDigits b hb n c hc
  exact digitChar_not_sep d (by omega)

theorem stripPlus_of_no_sep (s : List Char) (h : ∀ c ∈ s, isSep c = false) : stripPlus s = s := by
  cases s with
  | nil => rfl
  | cons c cs =>
    have hc := h c (by simp)
    unfold stripPlus
    split
    · rename_i r heq
      injection heq with h1 _
      subst h1
      simp [isSep] at hc
    · rfl

/-- a printed number parses back (any base ≤ 16 whose digit characters the digit function knows) -/
theorem parseUInt_toDigits (val : Char → Option Nat) (b : Nat) (hb : 1 < b) (hb16 : b ≤ 16)
    (hval : ∀ d, d < b → val (Nat.digitChar d) = some d) (n max : Nat) (hn : n ≤ max) :
    parseUInt val b max (Nat.toDigits b n) = some n := by
  unfold parseUInt
  rw [stripPlus_of_no_sep _ (toDigits_no_sep b hb hb16 n)]
  have hne : (Nat.toDigits b n).isEmpty = false := by
    cases h : Nat.toDigits b n with
    | nil => exact absurd h Nat.toDigits_ne_nil
    | cons _ _ => rfl
  simp [hne, digitsVal_toDigits val b hb hval n, hn]

theorem splitOnce_none (sep : Char) (a : List Char) (h : ∀ c ∈ a, c ≠ sep) : splitOnce sep a = (a, none) := by
  induction a with
  | nil => rfl
  | cons c cs ih =>
    simp only [splitOnce, h c (by simp), if_false, ih (fun x hx => h x (by simp [hx]))]

theorem splitOnce_some (sep : Char) (a b : List Char) (h : ∀ c ∈ a, c ≠ sep) :
    splitOnce sep (a ++ sep :: b) = (a, some b) := by
  induction a with
  | nil => simp [splitOnce]
  | cons c cs ih =>
    simp only [List.cons_append, splitOnce, h c (by simp), if_false, ih (fun x hx => h x (by simp [hx]))]

theorem no_sep_ne {s : List Char} (h : ∀ c ∈ s, isSep c = false) (sep : Char) (hsep : isSep sep = true) :
    ∀ c ∈ s, c ≠ sep := by
  intro c hc heq
  have := h c hc
  rw [heq, hsep] at this
  cases this

theorem showDec_no_sep (n : Nat) : ∀ c ∈ showDec n, isSep c = false := toDigits_no_sep 10 (by decide) (by decide) n
theorem showHex_no_sep (n : Nat) : ∀ c ∈ showHex n, isSep c = false := toDigits_no_sep 16 (by decide) (by decide) n

theorem parseU16_showDec (n : Nat) (h : n < 2 ^ 16) : parseU16 (showDec n) = some n :=
  parseUInt_toDigits decVal 10 (by decide) (by decide) decVal_digitChar n _ (by simp [U16_MAX]; omega)

theorem parseIsd_showDec (n : Nat) (h : n < 2 ^ ISD_BITS) : parseIsd (showDec n) = some n :=
  parseUInt_toDigits decVal 10 (by decide) (by decide) decVal_digitChar n _ (by omega)

/-- a string containing `:` is not a decimal number -/
theorem parseUInt_dec_colon (max : Nat) (a b : List Char) : parseUInt decVal 10 max (a ++ ':' :: b) = none := by
  have key : ∀ (s : List Char) (acc : Nat), ':' ∈ s → digitsVal decVal 10 s acc = none := by
    intro s
    induction s with
    | nil => intro _ h; simp at h
    | cons c cs ih =>
      intro acc h
      simp only [digitsVal]
      cases hv : decVal c with
      | none => rfl
      | some d =>
        simp only
        rcases List.mem_cons.mp h with h | h
        · subst h
          have hcol : decVal ':' = none := by decide
          rw [hcol] at hv; cases hv
        · exact ih _ h
  unfold parseUInt
  have hmem : ':' ∈ stripPlus (a ++ ':' :: b) := by
    unfold stripPlus
    split
    · rename_i r heq
      cases a with
      | nil => simp at heq
      | cons c cs =>
        simp only [List.cons_append, List.cons.injEq] at heq
        rw [← heq.2]; simp
    · simp
  simp only [key _ 0 hmem]
  split <;> rfl

theorem parseHex16_showHex (n : Nat) (h : n < 2 ^ 16) : parseUInt hexVal 16 U16_MAX (showHex n) = some n :=
  parseUInt_toDigits hexVal 16 (by decide) (by decide) hexVal_digitChar n _ (by simp [U16_MAX]; omega)

/-- `Asn`: print then parse -/
theorem parseAsn_showAsn (a : Nat) (h : a < 2 ^ ASN_BITS) : parseAsn (showAsn a) = some a := by
  unfold showAsn
  by_cases hd : a ≤ ASN_DECIMAL_MAX
  · simp only [hd, if_true, parseAsn]
    rw [show parseUInt decVal 10 U64_MAX (showDec a) = some a from
      parseUInt_toDigits decVal 10 (by decide) (by decide) decVal_digitChar a _
        (Nat.le_trans hd (by decide))]
    simp [hd]
  · simp only [hd, if_false, parseAsn]
    rw [parseUInt_dec_colon]
    have hc : isSep ':' = true := by decide
    have s1 := splitOnce_some ':' (showHex (a / 2 ^ (ASN_BITS_PER_PART * 2) % 2 ^ 16))
      (showHex (a / 2 ^ ASN_BITS_PER_PART % 2 ^ 16) ++ ':' :: showHex (a % 2 ^ 16))
      (no_sep_ne (showHex_no_sep _) ':' hc)
    have s2 := splitOnce_some ':' (showHex (a / 2 ^ ASN_BITS_PER_PART % 2 ^ 16)) (showHex (a % 2 ^ 16))
      (no_sep_ne (showHex_no_sep _) ':' hc)
    have hparts : splitN ':' ASN_NUMBER_PARTS
        (showHex (a / 2 ^ (ASN_BITS_PER_PART * 2) % 2 ^ 16) ++ ':' ::
          (showHex (a / 2 ^ ASN_BITS_PER_PART % 2 ^ 16) ++ ':' :: showHex (a % 2 ^ 16))) =
        [showHex (a / 2 ^ (ASN_BITS_PER_PART * 2) % 2 ^ 16), showHex (a / 2 ^ ASN_BITS_PER_PART % 2 ^ 16),
          showHex (a % 2 ^ 16)] := by
      show splitN ':' 3 _ = _
      simp only [splitN, s1, s2]
    simp only [List.append_assoc, List.cons_append]
    rw [hparts]
    simp only [foldAsnParts, parseHex16_showHex _ (Nat.mod_lt _ (by decide))]
    have hb : ASN_BITS = 48 := rfl
    have hp : ASN_BITS_PER_PART = 16 := rfl
    have hn : ASN_NUMBER_PARTS = 3 := rfl
    simp only [hb, hp, hn] at h ⊢
    have hval : ((0 * 2 ^ 16 + a / 2 ^ (16 * 2) % 2 ^ 16) * 2 ^ 16 + a / 2 ^ 16 % 2 ^ 16) * 2 ^ 16 + a % 2 ^ 16 = a := by
      omega
    simp only [hval]
    have : a ≤ 2 ^ 48 - 1 := by omega
    simp [this]

theorem showAsn_chars (a : Nat) : ∀ c ∈ showAsn a, isSep c = false ∨ c = ':' := by
  intro c hc
  unfold showAsn at hc
  split at hc
  · exact .inl (showDec_no_sep _ c hc)
  · simp only [List.mem_append, List.mem_cons] at hc
    rcases hc with (h | h | h) | h | h
    · exact .inl (showHex_no_sep _ c h)
    · exact .inr h
    · exact .inl (showHex_no_sep _ c h)
    · exact .inr h
    · exact .inl (showHex_no_sep _ c h)

theorem showAsn_ne (a : Nat) (sep : Char) (hsep : isSep sep = true) (hne : sep ≠ ':') :
    ∀ c ∈ showAsn a, c ≠ sep := by
  intro c hc heq
  rcases showAsn_chars a c hc with h | h
  · rw [heq, hsep] at h; cases h
  · exact hne (heq ▸ h)

theorem parseIfs_showIfs (f : Ifs) (hne : f ≠ .any)
    (hf : match f with | .any => True | .either a => a < 2 ^ 16 | .both a b => a < 2 ^ 16 ∧ b < 2 ^ 16) :
    parseIfs (showIfs f) = some f := by
  have hsep : isSep SEP_IF = true := by decide
  cases f with
  | any => exact absurd rfl hne
  | either a =>
    simp only [showIfs, parseIfs, splitOnce_none SEP_IF _ (no_sep_ne (showDec_no_sep a) _ hsep),
      parseU16_showDec a hf, Option.map_some]
  | both a b =>
    simp only [showIfs, parseIfs, splitOnce_some SEP_IF _ _ (no_sep_ne (showDec_no_sep a) _ hsep),
      parseU16_showDec a hf.1, parseU16_showDec b hf.2]

/-- the predicates whose numbers fit their Rust types (`u16`, 48-bit `Asn`, `u16`) -/
def Pred.InRange (p : Pred) : Prop :=
  p.isd < 2 ^ ISD_BITS ∧ (∀ a, p.asn = some a → a < 2 ^ ASN_BITS) ∧
    (match p.ifs with | .any => True | .either a => a < 2 ^ IF_BITS | .both a b => a < 2 ^ IF_BITS ∧ b < 2 ^ IF_BITS)

/-- **Print then parse**, for every predicate in the image of the parser (no AS part ⇒ no interface part). -/
theorem parsePred_showPred (p : Pred) (hr : p.InRange) (hshape : p.asn = none → p.ifs = .any) :
    parsePred (showPred p) = some p := by
  obtain ⟨isd, asn, ifs⟩ := p
  obtain ⟨hisd, hasn, hifs⟩ := hr
  simp only at hisd hasn hifs hshape
  have hs1 : isSep SEP_ISD_ASN = true := by decide
  have hs2 : isSep SEP_ASN_IF = true := by decide
  have hisd' := no_sep_ne (showDec_no_sep isd) _ hs1
  cases asn with
  | none =>
    rw [hshape rfl]
    simp only [showPred, List.append_nil, parsePred, splitOnce_none _ _ hisd', parseIsd_showDec isd hisd,
      Option.map_some]
  | some a =>
    have ha := hasn a rfl
    have hasn1 := showAsn_ne a SEP_ASN_IF hs2 (by decide)
    cases hifs' : ifs with
    | any =>
      simp only [showPred, List.append_nil, parsePred, splitOnce_some _ _ _ hisd', parseIsd_showDec isd hisd,
        splitOnce_none _ _ hasn1, parseAsn_showAsn a ha, Option.map_some]
    | either i =>
      subst hifs'
      have := parseIfs_showIfs (.either i) (by simp) hifs
      simp only [showPred, List.append_assoc, List.cons_append, parsePred, splitOnce_some _ _ _ hisd',
        parseIsd_showDec isd hisd, splitOnce_some _ _ _ hasn1, parseAsn_showAsn a ha, this, Option.map_some]
    | both i e =>
      subst hifs'
      have := parseIfs_showIfs (.both i e) (by simp) hifs
      simp only [showPred, List.append_assoc, List.cons_append, parsePred, splitOnce_some _ _ _ hisd',
        parseIsd_showDec isd hisd, splitOnce_some _ _ _ hasn1, parseAsn_showAsn a ha, this, Option.map_some]

theorem digitChar_plain : ∀ d, d < 16 → stopsPred (Nat.digitChar d) = false := by decide

theorem toDigits_plain (b : Nat) (hb : 1 < b) (hb16 : b ≤ 16) (n : Nat) :
    ∀ c ∈ Nat.toDigits b n, stopsPred c = false := by
  intro c hc
  obtain ⟨d, hd, rfl⟩ := mem_toDigits b hb n c hc
  exact digitChar_plain d (by omega)

/-- a printed predicate contains no whitespace and no reserved character: in a pattern it is one token -/
theorem showPred_plain (p : Pred) : ∀ c ∈ showPred p, stopsPred c = false := by
  have hdec : ∀ n, ∀ c ∈ showDec n, stopsPred c = false := toDigits_plain 10 (by decide) (by decide)
  have hhex : ∀ n, ∀ c ∈ showHex n, stopsPred c = false := toDigits_plain 16 (by decide) (by decide)
  have hcol : stopsPred ':' = false := by decide
  have h1 : stopsPred SEP_ISD_ASN = false := by decide
  have h2 : stopsPred SEP_ASN_IF = false := by decide
  have h3 : stopsPred SEP_IF = false := by decide
  have hasn : ∀ a, ∀ c ∈ showAsn a, stopsPred c = false := by
    intro a c hc
    unfold showAsn at hc
    split at hc
    · exact hdec _ c hc
    · simp only [List.mem_append, List.mem_cons] at hc
      rcases hc with (h | h | h) | h | h
      · exact hhex _ c h
      · exact h ▸ hcol
      · exact hhex _ c h
      · exact h ▸ hcol
      · exact hhex _ c h
  intro c hc
  obtain ⟨isd, asn, ifs⟩ := p
  simp only [showPred, List.mem_append] at hc
  rcases hc with (h | h) | h
  · exact hdec _ c h
  · cases asn with
    | none => simp at h
    | some a =>
      rcases List.mem_cons.mp h with h | h
      · exact h ▸ h1
      · exact hasn a c h
  · cases ifs with
    | any => simp at h
    | either i =>
      rcases List.mem_cons.mp h with h | h
      · exact h ▸ h2
      · exact hdec _ c h
    | both i e =>
      rcases List.mem_cons.mp h with h | h
      · exact h ▸ h2
      · simp only [showIfs, List.mem_append, List.mem_cons] at h
        rcases h with h | h | h
        · exact hdec _ c h
        · exact h ▸ h3
        · exact hdec _ c h

theorem showPred_ne_nil (p : Pred) : showPred p ≠ [] := by
  unfold showPred showDec
  intro h
  simp only [List.append_eq_nil_iff] at h
  exact Nat.toDigits_ne_nil h.1.1

/-! ## 7. hops_from_path -/

theorem middleHops_len : ∀ (l : List Iface) (hs : List Hop) (last : Iface),
    middleHops l = .ok (hs, last) → l.length = 2 * hs.length + 1
  | [], _, _, h => by simp [middleHops] at h
  | [x], hs, last, h => by
    simp only [middleHops, Except.ok.injEq, Prod.mk.injEq] at h
    simp [← h.1]
  | a :: b :: rest, hs, last, h => by
    simp only [middleHops] at h
    cases hr : middleHops rest with
    | error e => simp [hr] at h
    | ok v =>
      obtain ⟨hs', l'⟩ := v
      simp only [hr] at h
      split at h
      · simp at h
      · simp only [Except.ok.injEq, Prod.mk.injEq] at h
        have := middleHops_len rest hs' l' hr
        simp [← h.1]; omega

/-- the middle of `hops_from_path`: the interfaces after the first are consecutive (ingress, egress) pairs of one
    AS each, followed by one last interface; each pair gives one hop -/
theorem middleHops_pairs : ∀ (l : List Iface) (hs : List Hop) (last : Iface),
    middleHops l = .ok (hs, last) →
      ∃ pairs : List (Iface × Iface),
        l = pairs.flatMap (fun ab => [ab.1, ab.2]) ++ [last] ∧
        (∀ ab ∈ pairs, ab.1.isd = ab.2.isd ∧ ab.1.asn = ab.2.asn) ∧
        hs = pairs.map (fun ab => ⟨ab.1.isd, ab.1.asn, ab.1.id, ab.2.id⟩)
  | [], _, _, h => by simp [middleHops] at h
  | [x], hs, last, h => by
    simp only [middleHops, Except.ok.injEq, Prod.mk.injEq] at h
    exact ⟨[], by simp [h.2], by simp, by simp [← h.1]⟩
  | a :: b :: rest, hs, last, h => by
    simp only [middleHops] at h
    cases hr : middleHops rest with
    | error e => simp [hr] at h
    | ok v =>
      obtain ⟨hs', l'⟩ := v
      simp only [hr] at h
      split at h
      · simp at h
      · rename_i hsame
        simp only [Except.ok.injEq, Prod.mk.injEq] at h
        obtain ⟨pairs, hl, hp, hh⟩ := middleHops_pairs rest hs' l' hr
        refine ⟨(a, b) :: pairs, ?_, ?_, ?_⟩
        · rw [hl, ← h.2]; simp
        · intro ab hab
          rcases List.mem_cons.mp hab with rfl | hab
          · simp only [not_or, Decidable.not_not] at hsame
            exact hsame
          · exact hp ab hab
        · rw [← h.1, hh]; simp

end ScionVerif.Policy
