import ScionVerif.Model.Acl
import ScionVerif.Model.HopPattern
import ScionVerif.Spec.Regex
/-!
# Lemmas for C16 (path policy languages)

1. ACL: the two nested loops of `AclPolicy::matches` compute the first-match verdict per hop.
2. Matcher: `absorb` / `closure` (the position-set fixpoint of `all_nested_matches`) – soundness for every
   fuel, completeness for fuel `bound + 1` (pigeonhole on a duplicate-free set of positions `≤ bound`).
3. `matchFrom` vs. the denotational semantics `Spec.Lang`.
4. Parser: fuel, redundant parentheses.  5. Lexer: whitespace.  6. Predicate text round trip.
-/
namespace ScionVerif.Policy
open ScionVerif.Generated.Policy ScionVerif.Spec

deriving instance DecidableEq for Except

/-! ## 1. ACL -/

/-- the abstract rule list of an ACL: (is-allow, predicate) -/
def Acl.rules (acl : Acl) : List (Bool × Pred) := acl.entries.map fun e => (e.op == .allow, e.pred)

def Acl.defaultAllow (acl : Acl) : Bool := acl.default == .allow

theorem scanEntries_spec (es : List Entry) (h : Hop) :
    scanEntries es h =
      match (es.map fun e => ((e.op == Op.allow), e.pred)).find? (fun r => Pred.matches r.2 h) with
      | some r => if r.1 then some true else none
      | none => some false := by
  induction es with
  | nil => rfl
  | cons e es ih =>
    simp only [scanEntries, Entry.matches, List.map_cons, List.find?_cons]
    cases hm : e.pred.matches h
    · simpa using ih
    · cases hop : e.op <;> simp

theorem hopLoop_iff (acl : Acl) (hs : List Hop) :
    hopLoop acl hs = true ↔ aclAllows Pred.matches acl.rules acl.defaultAllow hs := by
  induction hs with
  | nil => simp [hopLoop, aclAllows]
  | cons h hs ih =>
    have hsplit : aclAllows Pred.matches acl.rules acl.defaultAllow (h :: hs) ↔
        firstMatch Pred.matches acl.rules acl.defaultAllow h = true ∧
          aclAllows Pred.matches acl.rules acl.defaultAllow hs := by
      simp [aclAllows]
    rw [hsplit, ← ih]
    simp only [hopLoop, scanEntries_spec, firstMatch, Acl.rules, Acl.defaultAllow]
    cases hf : (acl.entries.map fun e => ((e.op == Op.allow), e.pred)).find? (fun r => Pred.matches r.2 h) with
    | none =>
      cases hd : acl.default <;> simp
    | some r =>
      cases hr : r.1 <;> simp [hr]

/-! ## 2. the position-set fixpoint -/

theorem absorb_mem_all (c : List Nat) (A N : List Nat) (x : Nat) :
    x ∈ (absorb c (A, N)).1 ↔ x ∈ A ∨ x ∈ c := by
  induction c generalizing A N with
  | nil => simp [absorb]
  | cons n ns ih =>
    simp only [absorb]
    split
    · rename_i hn
      rw [ih]; simp only [List.mem_cons]
      constructor
      · rintro (h | h) <;> simp [h]
      · rintro (h | h | h)
        · exact .inl h
        · exact .inl (h ▸ hn)
        · exact .inr h
    · rw [ih]; simp only [List.mem_cons]
      constructor
      · rintro ((h | h) | h) <;> simp [h]
      · rintro (h | h | h) <;> simp [h]

theorem absorb_mem_next (c : List Nat) (A N : List Nat) (x : Nat) :
    x ∈ (absorb c (A, N)).2 ↔ x ∈ N ∨ (x ∈ c ∧ x ∉ A) := by
  induction c generalizing A N with
  | nil => simp [absorb]
  | cons n ns ih =>
    simp only [absorb]
    split
    · rename_i hn
      rw [ih]; simp only [List.mem_cons]
      constructor
      · rintro (h | ⟨h, h'⟩)
        · exact .inl h
        · exact .inr ⟨.inr h, h'⟩
      · rintro (h | ⟨h | h, h'⟩)
        · exact .inl h
        · exact absurd (h ▸ hn) h'
        · exact .inr ⟨h, h'⟩
    · rename_i hn
      rw [ih]; simp only [List.mem_cons]
      constructor
      · rintro ((h | h) | ⟨h, h'⟩)
        · exact .inr ⟨.inl h, h ▸ hn⟩
        · exact .inl h
        · exact .inr ⟨.inr h, fun h'' => h' (.inr h'')⟩
      · rintro (h | ⟨h | h, h'⟩)
        · exact .inl (.inr h)
        · exact .inl (.inl h)
        · by_cases hx : x = n
          · exact .inl (.inl hx)
          · exact .inr ⟨h, by rintro (h'' | h''); exact hx h''; exact h' h''⟩

theorem absorb_nodup (c : List Nat) (A N : List Nat) (hA : A.Nodup) : (absorb c (A, N)).1.Nodup := by
  induction c generalizing A N with
  | nil => simpa [absorb]
  | cons n ns ih =>
    simp only [absorb]
    split
    · exact ih A N hA
    · rename_i hn
      exact ih _ _ (List.nodup_cons.mpr ⟨hn, hA⟩)

theorem absorb_length (c : List Nat) (A N : List Nat) :
    (absorb c (A, N)).1.length + N.length = A.length + (absorb c (A, N)).2.length := by
  induction c generalizing A N with
  | nil => simp [absorb]
  | cons n ns ih =>
    simp only [absorb]
    split
    · exact ih A N
    · have := ih (n :: A) (n :: N)
      simp only [List.length_cons] at this
      omega

/-- reachable from a start set `S` by zero or more applications of `step` -/
inductive Reach (step : Nat → List Nat) (S : List Nat) : Nat → Prop where
  | base {x : Nat} : x ∈ S → Reach step S x
  | more {x y : Nat} : Reach step S x → y ∈ step x → Reach step S y

theorem Reach.trans_set {step : Nat → List Nat} {S S' : List Nat} (h : ∀ x ∈ S, Reach step S' x) {q : Nat}
    (hq : Reach step S q) : Reach step S' q := by
  induction hq with
  | base hx => exact h _ hx
  | more _ hy ih => exact .more ih hy

/-- soundness of the loop, for every fuel -/
theorem closure_sound (step : Nat → List Nat) (S : List Nat) :
    ∀ (fuel : Nat) (F A : List Nat), (∀ x ∈ F, Reach step S x) → (∀ x ∈ A, Reach step S x) →
      ∀ q ∈ closure step fuel F A, Reach step S q := by
  intro fuel
  induction fuel with
  | zero => intro F A _ hA q hq; exact hA q (by simpa [closure] using hq)
  | succ fuel ih =>
    intro F A hF hA q hq
    cases F with
    | nil => exact hA q (by simpa [closure] using hq)
    | cons f fs =>
      simp only [closure] at hq
      have hc : ∀ x ∈ (f :: fs).flatMap step, Reach step S x := by
        intro x hx
        obtain ⟨y, hy, hxy⟩ := List.mem_flatMap.mp hx
        exact .more (hF y hy) hxy
      refine ih _ _ ?_ ?_ q hq
      · intro x hx
        rcases (absorb_mem_next _ _ _ x).mp hx with h | ⟨h, _⟩
        · simp at h
        · exact hc x h
      · intro x hx
        rcases (absorb_mem_all _ _ _ x).mp hx with h | h
        · exact hA x h
        · exact hc x h

/-- completeness of the loop: with `fuel + |all| ≥ bound + 2` (initially `fuel = bound + 1`, `all` non-empty)
    the result contains `all` and is closed under `step`.  The measure is the number of positions `≤ bound`
    not yet in `all`; a round that finds nothing new empties the frontier. -/
theorem closure_closed (step : Nat → List Nat) (B : Nat) (hb : ∀ x ≤ B, ∀ y ∈ step x, y ≤ B) :
    ∀ (fuel : Nat) (F A : List Nat), (∀ x ∈ F, x ∈ A) → (∀ x ∈ A, x ≤ B) → A.Nodup →
      (∀ x ∈ A, x ∉ F → ∀ y ∈ step x, y ∈ A) → (F = [] ∨ B + 2 ≤ fuel + A.length) →
      (∀ x ∈ A, x ∈ closure step fuel F A) ∧
        (∀ x ∈ closure step fuel F A, ∀ y ∈ step x, y ∈ closure step fuel F A) := by
  intro fuel
  induction fuel with
  | zero =>
    intro F A _ hB hN hcl hm
    rcases hm with rfl | hm
    · simp only [closure]
      exact ⟨fun x hx => hx, fun x hx y hy => hcl x hx (by simp) y hy⟩
    · -- impossible: a duplicate-free list of numbers ≤ B has at most B + 1 elements
      have hsub : A ⊆ List.range (B + 1) := fun x hx => List.mem_range.mpr (Nat.lt_succ_of_le (hB x hx))
      have := List.Nodup.length_le_of_subset hN hsub
      simp at this; omega
  | succ fuel ih =>
    intro F A hFA hB hN hcl hm
    cases F with
    | nil =>
      simp only [closure]
      exact ⟨fun x hx => hx, fun x hx y hy => hcl x hx (by simp) y hy⟩
    | cons f fs =>
      simp only [closure]
      have hmem := absorb_mem_all ((f :: fs).flatMap step) A []
      have hnext := absorb_mem_next ((f :: fs).flatMap step) A []
      have hlen := absorb_length ((f :: fs).flatMap step) A []
      have hcB : ∀ x ∈ (f :: fs).flatMap step, x ≤ B := by
        intro x hx
        obtain ⟨y, hy, hxy⟩ := List.mem_flatMap.mp hx
        exact hb y (hB y (hFA y hy)) x hxy
      have := ih (absorb ((f :: fs).flatMap step) (A, [])).2 (absorb ((f :: fs).flatMap step) (A, [])).1
        (by
          intro x hx
          rcases (hnext x).mp hx with h | ⟨h, _⟩
          · simp at h
          · exact (hmem x).mpr (.inr h))
        (by
          intro x hx
          rcases (hmem x).mp hx with h | h
          · exact hB x h
          · exact hcB x h)
        (absorb_nodup _ _ _ hN)
        (by
          intro x hx hxn y hy
          by_cases hxA : x ∈ A
          · by_cases hxF : x ∈ f :: fs
            · exact (hmem y).mpr (.inr (List.mem_flatMap.mpr ⟨x, hxF, hy⟩))
            · exact (hmem y).mpr (.inl (hcl x hxA hxF y hy))
          · rcases (hmem x).mp hx with h | h
            · exact absurd h hxA
            · exact absurd ((hnext x).mpr (.inr ⟨h, hxA⟩)) hxn)
        (by
          cases hn : (absorb ((f :: fs).flatMap step) (A, [])).2 with
          | nil => exact .inl rfl
          | cons n ns =>
            right
            rcases hm with hm | hm
            · cases hm
            · rw [hn] at hlen; simp only [List.length_cons, List.length_nil] at hlen; omega)
      exact ⟨fun x hx => this.1 x ((hmem x).mpr (.inl hx)), this.2⟩

/-- `all_nested_matches` computes exactly the positions reachable by one or more applications of
    `inner.match_from`, provided `step` stays inside `[0, B]` and the loop may run `B + 1` rounds. -/
theorem allNestedWith_iff (step : Nat → List Nat) (B : Nat) (hb : ∀ x ≤ B, ∀ y ∈ step x, y ≤ B)
    (pos : Nat) (hpos : pos ≤ B) (q : Nat) :
    q ∈ allNestedWith step B pos ↔ Reach step (step pos) q := by
  have hmem := absorb_mem_all (step pos) [] []
  have hnext := absorb_mem_next (step pos) [] []
  have hlen := absorb_length (step pos) [] []
  constructor
  · intro hq
    refine closure_sound step (step pos) (B + 1) _ _ ?_ ?_ q hq
    · intro x hx
      rcases (hnext x).mp hx with h | ⟨h, _⟩
      · simp at h
      · exact .base h
    · intro x hx
      rcases (hmem x).mp hx with h | h
      · simp at h
      · exact .base h
  · intro hq
    have hcl := closure_closed step B hb (B + 1) (absorb (step pos) ([], [])).2 (absorb (step pos) ([], [])).1
      (by
        intro x hx
        rcases (hnext x).mp hx with h | ⟨h, _⟩
        · simp at h
        · exact (hmem x).mpr (.inr h))
      (by
        intro x hx
        rcases (hmem x).mp hx with h | h
        · simp at h
        · exact hb pos hpos x h)
      (absorb_nodup _ _ _ List.nodup_nil)
      (by
        intro x hx hxn
        rcases (hmem x).mp hx with h | h
        · simp at h
        · exact absurd ((hnext x).mpr (.inr ⟨h, by simp⟩)) hxn)
      (by
        cases hn : (absorb (step pos) ([], [])).2 with
        | nil => exact .inl rfl
        | cons n ns =>
          right
          rw [hn] at hlen; simp only [List.length_cons, List.length_nil] at hlen; omega)
    unfold allNestedWith
    induction hq with
    | base hx => exact hcl.1 _ ((hmem _).mpr (.inr hx))
    | more _ hy ih => exact hcl.2 _ ih _ hy

/-- fuel beyond `B + 1` changes nothing: the `while` loop has met its exit condition by then -/
theorem closure_fuel_irrelevant (step : Nat → List Nat) (B : Nat) (hb : ∀ x ≤ B, ∀ y ∈ step x, y ≤ B) :
    ∀ (fuel : Nat) (F A : List Nat), (∀ x ∈ F, x ∈ A) → (∀ x ∈ A, x ≤ B) → A.Nodup →
      (F = [] ∨ B + 2 ≤ fuel + A.length) → ∀ extra, closure step (fuel + extra) F A = closure step fuel F A := by
  intro fuel
  induction fuel with
  | zero =>
    intro F A _ hB hN hm extra
    rcases hm with rfl | hm
    · cases extra <;> simp [closure]
    · have hsub : A ⊆ List.range (B + 1) := fun x hx => List.mem_range.mpr (Nat.lt_succ_of_le (hB x hx))
      have := List.Nodup.length_le_of_subset hN hsub
      simp at this; omega
  | succ fuel ih =>
    intro F A hFA hB hN hm extra
    cases F with
    | nil => rw [Nat.add_right_comm]; simp [closure]
    | cons f fs =>
      rw [Nat.add_right_comm]
      simp only [closure]
      have hmem := absorb_mem_all ((f :: fs).flatMap step) A []
      have hnext := absorb_mem_next ((f :: fs).flatMap step) A []
      have hlen := absorb_length ((f :: fs).flatMap step) A []
      apply ih
      · intro x hx
        rcases (hnext x).mp hx with h | ⟨h, _⟩
        · simp at h
        · exact (hmem x).mpr (.inr h)
      · intro x hx
        rcases (hmem x).mp hx with h | h
        · exact hB x h
        · obtain ⟨y, hy, hxy⟩ := List.mem_flatMap.mp h
          exact hb y (hB y (hFA y hy)) x hxy
      · exact absorb_nodup _ _ _ hN
      · cases hn : (absorb ((f :: fs).flatMap step) (A, [])).2 with
        | nil => exact .inl rfl
        | cons n ns =>
          right
          rcases hm with hm | hm
          · cases hm
          · rw [hn] at hlen; simp only [List.length_cons, List.length_nil] at hlen; omega

/-! ## 3. the matcher and the denoted language -/

/-- "hop `h` satisfies predicate `p`" -/
def Sat (p : Pred) (h : Hop) : Prop := p.matches h = true

/-- the documented meaning of the operators: `|` union, `?` zero or one, `+` one or more, `*` zero or more -/
def denote : Expr → Regex Pred
  | .pred p => .atom p
  | .or a b => .alt (denote a) (denote b)
  | .optional a => .opt (denote a)
  | .oneOrMore a => .plus (denote a)
  | .zeroOrMore a => .star (denote a)

/-- a hop pattern is the juxtaposition (concatenation) of its expressions -/
def denotePolicy (es : List Expr) : Regex Pred := Regex.seq (es.map denote)

theorem drop_split {α : Type} {hs w t : List α} {p : Nat} (h : hs.drop p = w ++ t) :
    hs.drop (p + w.length) = t := by
  rw [← List.drop_drop, h, List.drop_left]

theorem split_pos {α : Type} {hs w : List α} {p q : Nat} (hp : p ≤ hs.length) (hq : q ≤ hs.length)
    (h : hs.drop p = w ++ hs.drop q) : q = p + w.length := by
  have := congrArg List.length h
  simp only [List.length_drop, List.length_append] at this
  omega

/-- positions reachable by ≥ 1 applications of a sound-and-complete `step` = non-empty iterations -/
theorem reach_iff_iter (L : List Hop → Prop) (step : Nat → List Nat) (hs : List Hop)
    (hstep : ∀ p q, p ≤ hs.length → (q ∈ step p ↔ q ≤ hs.length ∧ ∃ w, L w ∧ hs.drop p = w ++ hs.drop q))
    (p q : Nat) (hp : p ≤ hs.length) :
    Reach step (step p) q ↔
      q ≤ hs.length ∧ ∃ ws : List (List Hop), ws ≠ [] ∧ (∀ x ∈ ws, L x) ∧ hs.drop p = ws.flatten ++ hs.drop q := by
  constructor
  · intro h
    induction h with
    | base hx =>
      obtain ⟨hq, w, hw, hd⟩ := (hstep p _ hp).mp hx
      exact ⟨hq, [w], by simp, by simpa using hw, by simpa using hd⟩
    | more _ hy ih =>
      obtain ⟨hx, ws, hne, hws, hd⟩ := ih
      obtain ⟨hq, w, hw, hd'⟩ := (hstep _ _ hx).mp hy
      refine ⟨hq, ws ++ [w], by simp, ?_, ?_⟩
      · intro x hx
        rcases List.mem_append.mp hx with h | h
        · exact hws x h
        · simp at h; exact h ▸ hw
      · rw [hd, hd']; simp
  · rintro ⟨hq, ws, hne, hws, hd⟩
    induction ws generalizing p with
    | nil => exact absurd rfl hne
    | cons w rest ih =>
      cases rest with
      | nil =>
        exact .base ((hstep p q hp).mpr ⟨hq, w, hws w (by simp), by simpa using hd⟩)
      | cons w2 rest =>
        have hd1 : hs.drop p = w ++ ((w2 :: rest).flatten ++ hs.drop q) := by
          simpa [List.append_assoc] using hd
        have hz := drop_split hd1
        have hzle : p + w.length ≤ hs.length := by
          have := congrArg List.length hd1
          simp only [List.length_drop, List.length_append] at this
          omega
        have hzp : p + w.length ∈ step p :=
          (hstep p _ hp).mpr ⟨hzle, w, hws w (by simp), by rw [hz]; exact hd1⟩
        have := ih (p + w.length) hzle (by simp) (fun x hx => hws x (by simp [hx] )) hz
        refine Reach.trans_set ?_ this
        intro x hx
        exact .more (.base hzp) hx

/-- **matcher = language**, split form: from a start position inside the path, `match_from` returns exactly
    the end positions `q` such that the hops between `p` and `q` form a word of the denoted language. -/
theorem matchFrom_split (e : Expr) (hs : List Hop) :
    ∀ p q, p ≤ hs.length →
      (q ∈ matchFrom e hs p ↔ q ≤ hs.length ∧ ∃ w, Lang Sat (denote e) w ∧ hs.drop p = w ++ hs.drop q) := by
  induction e with
  | pred pr =>
    intro p q hp
    simp only [matchFrom, denote, Lang]
    constructor
    · intro h
      cases hget : hs[p]? with
      | none => simp [hget] at h
      | some x =>
        simp only [hget] at h
        by_cases hm : pr.matches x = true
        · simp only [hm, if_true, List.mem_singleton] at h
          obtain ⟨hlt, hx⟩ := List.getElem?_eq_some_iff.mp hget
          subst h
          exact ⟨hlt, [x], ⟨x, rfl, hm⟩, by rw [List.drop_eq_getElem_cons hlt, hx]; rfl⟩
        · simp [hm] at h
    · rintro ⟨hq, w, ⟨x, rfl, hm⟩, hd⟩
      have hq' := split_pos hp hq hd
      simp only [List.length_singleton] at hq'
      have hlt : p < hs.length := by omega
      rw [List.drop_eq_getElem_cons hlt] at hd
      simp only [List.singleton_append, List.cons.injEq] at hd
      have : hs[p]? = some x := by rw [List.getElem?_eq_getElem hlt, hd.1]
      simp only [this, hq']
      have hm' : pr.matches x = true := hm
      simp [hm']
  | or a b iha ihb =>
    intro p q hp
    simp only [matchFrom, denote, Lang, List.mem_append, iha p q hp, ihb p q hp]
    constructor
    · rintro (⟨hq, w, hw, hd⟩ | ⟨hq, w, hw, hd⟩)
      · exact ⟨hq, w, .inl hw, hd⟩
      · exact ⟨hq, w, .inr hw, hd⟩
    · rintro ⟨hq, w, hw | hw, hd⟩
      · exact .inl ⟨hq, w, hw, hd⟩
      · exact .inr ⟨hq, w, hw, hd⟩
  | optional a iha =>
    intro p q hp
    simp only [matchFrom, denote, Lang, List.mem_cons, iha p q hp]
    constructor
    · rintro (rfl | ⟨hq, w, hw, hd⟩)
      · exact ⟨hp, [], .inl rfl, rfl⟩
      · exact ⟨hq, w, .inr hw, hd⟩
    · rintro ⟨hq, w, rfl | hw, hd⟩
      · left
        have := split_pos hp hq hd
        simpa using this
      · exact .inr ⟨hq, w, hw, hd⟩
  | oneOrMore a iha =>
    intro p q hp
    have hb : ∀ x ≤ hs.length, ∀ y ∈ matchFrom a hs x, y ≤ hs.length :=
      fun x hx y hy => ((iha x y hx).mp hy).1
    simp only [matchFrom, denote, Lang]
    rw [allNestedWith_iff _ _ hb p hp q, reach_iff_iter (Lang Sat (denote a)) _ hs iha p q hp]
    constructor
    · rintro ⟨hq, ws, hne, hws, hd⟩
      exact ⟨hq, ws.flatten, ⟨ws, hne, hws, rfl⟩, hd⟩
    · rintro ⟨hq, w, ⟨ws, hne, hws, rfl⟩, hd⟩
      exact ⟨hq, ws, hne, hws, hd⟩
  | zeroOrMore a iha =>
    intro p q hp
    have hb : ∀ x ≤ hs.length, ∀ y ∈ matchFrom a hs x, y ≤ hs.length :=
      fun x hx y hy => ((iha x y hx).mp hy).1
    simp only [matchFrom, denote, Lang, List.mem_cons]
    rw [allNestedWith_iff _ _ hb p hp q, reach_iff_iter (Lang Sat (denote a)) _ hs iha p q hp]
    constructor
    · rintro (rfl | ⟨hq, ws, hne, hws, hd⟩)
      · exact ⟨hp, [], ⟨[], by simp, rfl⟩, rfl⟩
      · exact ⟨hq, ws.flatten, ⟨ws, hws, rfl⟩, hd⟩
    · rintro ⟨hq, w, ⟨ws, hws, rfl⟩, hd⟩
      cases ws with
      | nil =>
        left
        have := split_pos hp hq hd
        simpa using this
      | cons w1 rest => exact .inr ⟨hq, w1 :: rest, by simp, hws, hd⟩

/-- the statement in "extract" form -/
theorem matchFrom_extract (e : Expr) (hs : List Hop) (p q : Nat) (hp : p ≤ hs.length) :
    q ∈ matchFrom e hs p ↔ p ≤ q ∧ q ≤ hs.length ∧ Lang Sat (denote e) ((hs.drop p).take (q - p)) := by
  rw [matchFrom_split e hs p q hp]
  constructor
  · rintro ⟨hq, w, hw, hd⟩
    have hqp := split_pos hp hq hd
    refine ⟨by omega, hq, ?_⟩
    have : q - p = w.length := by omega
    rw [this, hd, List.take_left]
    exact hw
  · rintro ⟨hpq, hq, hl⟩
    refine ⟨hq, _, hl, ?_⟩
    have : hs.drop q = ((hs.drop p).drop (q - p)) := by
      rw [List.drop_drop]; congr 1; omega
    rw [this, List.take_append_drop]

theorem matchSeq_iff (hs : List Hop) (es : List Expr) :
    ∀ positions : List Nat, (∀ p ∈ positions, p ≤ hs.length) →
      (matchSeq es hs positions = true ↔
        ∃ p ∈ positions, Lang Sat (Regex.seq (es.map denote)) (hs.drop p)) := by
  induction es with
  | nil =>
    intro positions hpos
    simp only [matchSeq, List.map_nil, Regex.seq, Lang, List.contains_iff_mem, List.drop_eq_nil_iff]
    constructor
    · intro h; exact ⟨_, h, Nat.le_refl _⟩
    · rintro ⟨p, hp, hle⟩
      have := hpos p hp
      have : p = hs.length := by omega
      exact this ▸ hp
  | cons e es ih =>
    intro positions hpos
    have hnext : ∀ q, q ∈ (positions.flatMap (matchFrom e hs)).eraseDups ↔
        ∃ p ∈ positions, q ∈ matchFrom e hs p := by
      intro q; simp [List.mem_flatMap]
    have hbound : ∀ q ∈ (positions.flatMap (matchFrom e hs)).eraseDups, q ≤ hs.length := by
      intro q hq
      obtain ⟨p, hp, hqp⟩ := (hnext q).mp hq
      exact ((matchFrom_split e hs p q (hpos p hp)).mp hqp).1
    have hrhs : (∃ p ∈ positions, Lang Sat (Regex.seq ((e :: es).map denote)) (hs.drop p)) ↔
        ∃ q ∈ (positions.flatMap (matchFrom e hs)).eraseDups, Lang Sat (Regex.seq (es.map denote)) (hs.drop q) := by
      simp only [List.map_cons, Regex.seq, Lang]
      constructor
      · rintro ⟨p, hp, u, v, hd, hu, hv⟩
        have hz := drop_split hd
        have hzle : p + u.length ≤ hs.length := by
          have := congrArg List.length hd
          simp only [List.length_drop, List.length_append] at this
          have := hpos p hp
          omega
        refine ⟨p + u.length, (hnext _).mpr ⟨p, hp, ?_⟩, hz ▸ hv⟩
        exact (matchFrom_split e hs p _ (hpos p hp)).mpr ⟨hzle, u, hu, by rw [hz]; exact hd⟩
      · rintro ⟨q, hq, hv⟩
        obtain ⟨p, hp, hqp⟩ := (hnext q).mp hq
        obtain ⟨_, u, hu, hd⟩ := (matchFrom_split e hs p q (hpos p hp)).mp hqp
        exact ⟨p, hp, u, _, hd, hu, hv⟩
    rw [hrhs]
    simp only [matchSeq]
    split
    · rename_i hempty
      have : (positions.flatMap (matchFrom e hs)).eraseDups = [] := by simpa using hempty
      simp [this]
    · exact ih _ hbound

/-- **a hop pattern allows a path exactly when the hop sequence belongs to the denoted regular language** -/
theorem matchPolicy_iff (es : List Expr) (hs : List Hop) :
    matchPolicy es hs = true ↔ Lang Sat (denotePolicy es) hs := by
  unfold matchPolicy denotePolicy
  rw [matchSeq_iff hs es [0] (by simp)]
  simp

end ScionVerif.Policy
