import ScionVerif.Lemmas.Comb
/-!
Lemmas for C04 `order_independent` / `sorted_by_cost`: the candidate list is duplicate free, depends on
the *set* of given segments only up to permutation, and the sort key comparison is a total preorder.
-/
namespace ScionVerif.Comb
open ScionVerif.Generated.Comb

/-! ## 1. the comparison of `sort_by` is a total preorder on keys, antisymmetric on keys -/

theorem lexLe_refl : ∀ (a : List Int), lexLe a a = true := by
  intro a; induction a with
  | nil => rfl
  | cons x xs ih => simp [lexLe, ih]

theorem lexLe_total : ∀ (a b : List Int), (lexLe a b || lexLe b a) = true := by
  intro a
  induction a with
  | nil => intro b; simp [lexLe]
  | cons x xs ih =>
    intro b
    cases b with
    | nil => simp [lexLe]
    | cons y ys =>
      have := ih ys
      simp only [lexLe, Bool.or_eq_true, Bool.and_eq_true, decide_eq_true_eq] at this ⊢
      by_cases h1 : x < y
      · exact Or.inl (Or.inl h1)
      · by_cases h2 : y < x
        · exact Or.inr (Or.inl h2)
        · have : x = y := by omega
          rcases ‹lexLe xs ys = true ∨ lexLe ys xs = true› with h | h
          · exact Or.inl (Or.inr ⟨this, h⟩)
          · exact Or.inr (Or.inr ⟨this.symm, h⟩)

theorem lexLe_trans : ∀ (a b c : List Int), lexLe a b = true → lexLe b c = true → lexLe a c = true := by
  intro a
  induction a with
  | nil => intro b c _ _; simp [lexLe]
  | cons x xs ih =>
    intro b c h1 h2
    cases b with
    | nil => simp [lexLe] at h1
    | cons y ys =>
      cases c with
      | nil => simp [lexLe] at h2
      | cons z zs =>
        simp only [lexLe, Bool.or_eq_true, Bool.and_eq_true, decide_eq_true_eq] at h1 h2 ⊢
        rcases h1 with h1 | ⟨e1, h1⟩ <;> rcases h2 with h2 | ⟨e2, h2⟩
        · left; omega
        · left; omega
        · left; omega
        · right; exact ⟨by omega, ih ys zs h1 h2⟩

theorem lexLe_antisymm : ∀ (a b : List Int), lexLe a b = true → lexLe b a = true → a = b := by
  intro a
  induction a with
  | nil => intro b _ h2; cases b with
    | nil => rfl
    | cons y ys => simp [lexLe] at h2
  | cons x xs ih =>
    intro b h1 h2
    cases b with
    | nil => simp [lexLe] at h1
    | cons y ys =>
      simp only [lexLe, Bool.or_eq_true, Bool.and_eq_true, decide_eq_true_eq] at h1 h2
      rcases h1 with h1 | ⟨e1, h1⟩ <;> rcases h2 with h2 | ⟨e2, h2⟩
      · omega
      · omega
      · omega
      · rw [e1, ih ys h1 h2]

theorem sortSols_sorted (l : List Sol) : (sortSols l).Pairwise (fun a b => solLe a b = true) := by
  unfold sortSols
  exact List.pairwise_mergeSort (le := solLe) (fun a b c => lexLe_trans a.key b.key c.key)
    (fun a b => lexLe_total a.key b.key) l

/-- adjacent-pair check of sortedness (executable) -/
def sortedB : List Sol → Bool
  | a :: b :: rest => solLe a b && sortedB (b :: rest)
  | _ => true

theorem pairwise_of_sortedB : ∀ (l : List Sol), sortedB l = true → l.Pairwise (fun a b => solLe a b = true) := by
  intro l
  induction l with
  | nil => intro _; exact List.Pairwise.nil
  | cons a rest ih =>
    intro h
    cases rest with
    | nil => simp
    | cons b rest' =>
      simp only [sortedB, Bool.and_eq_true] at h
      have hp := ih h.2
      rw [List.pairwise_cons]
      refine ⟨?_, hp⟩
      intro c hc
      rcases List.mem_cons.mp hc with hc | hc
      · subst hc; exact h.1
      · exact lexLe_trans _ _ _ h.1 ((List.pairwise_cons.mp hp).1 c hc)

/-- an already sorted list is left alone by the (stable) sort -/
theorem sortSols_of_sortedB {l : List Sol} (h : sortedB l = true) : sortSols l = l := by
  unfold sortSols
  exact List.mergeSort_of_pairwise (pairwise_of_sortedB l h)

/-- two permutations of one list sort to the same list when equal keys imply equal elements -/
theorem sortSols_perm {l₁ l₂ : List Sol} (hp : l₁.Perm l₂)
    (hinj : ∀ a ∈ l₁, ∀ b ∈ l₁, a.key = b.key → a = b) : sortSols l₁ = sortSols l₂ := by
  apply List.Perm.eq_of_pairwise (le := fun a b => solLe a b = true) _ (sortSols_sorted l₁) (sortSols_sorted l₂)
  · exact ((List.mergeSort_perm l₁ solLe).trans hp).trans (List.mergeSort_perm l₂ solLe).symm
  · intro a b ha hb h1 h2
    have ha' : a ∈ l₁ := List.mem_mergeSort.mp ha
    have hb' : b ∈ l₁ := hp.mem_iff.mpr (List.mem_mergeSort.mp hb)
    exact hinj a ha' b hb' (lexLe_antisymm _ _ h1 h2)

/-! ## 2. the graph and the candidate list have no duplicates -/

theorem nodup_eraseDups : ∀ (n : Nat) (l : List InSeg), l.length ≤ n → l.eraseDups.Nodup := by
  intro n
  induction n with
  | zero => intro l h; have : l = [] := List.length_eq_zero_iff.mp (by omega); subst this; simp
  | succ n ih =>
    intro l h
    cases l with
    | nil => simp
    | cons a as =>
      rw [List.eraseDups_cons, List.nodup_cons]
      have hlen : (as.filter fun b => !b == a).length ≤ n := by
        have := List.length_filter_le (fun b => !b == a) as
        simp at h; omega
      refine ⟨?_, ih _ hlen⟩
      intro hmem
      have := List.mem_eraseDups.mp hmem
      simp at this

theorem lastWins_pairwise (l : List Ins) :
    (lastWins l).Pairwise (fun x y => ¬(y.1 = x.1 ∧ y.2.1 = x.2.1)) := by
  induction l with
  | nil => simp [lastWins]
  | cons x xs ih =>
    unfold lastWins
    split
    · exact ih
    · rename_i hany
      rw [List.pairwise_cons]
      refine ⟨?_, ih⟩
      intro y hy hk
      apply hany
      rw [List.any_eq_true]
      exact ⟨y, lastWins_subset _ _ hy, by simpa using hk⟩

theorem segEdges_nodup (s : InSeg) : (segEdges s).Nodup := by
  unfold segEdges
  rw [List.nodup_iff_pairwise_ne, List.pairwise_map]
  apply List.Pairwise.imp _ (lastWins_pairwise (inserts s))
  intro a b h heq
  apply h
  injection heq with h1 h2 _ _
  exact ⟨h1.symm, h2.symm⟩

theorem graphOf_nodup (segs : List InSeg) : (graphOf segs).Nodup := by
  unfold graphOf
  rw [List.nodup_iff_pairwise_ne, List.pairwise_flatMap]
  refine ⟨fun a _ => List.nodup_iff_pairwise_ne.mp (segEdges_nodup a), ?_⟩
  have := List.nodup_iff_pairwise_ne.mp (nodup_eraseDups _ segs (Nat.le_refl _))
  apply List.Pairwise.imp _ this
  intro a b hab x hx y hy hxy
  apply hab
  rw [← (mem_segEdges hx).1, ← (mem_segEdges hy).1, hxy]

theorem extend_nodup {g : List GEdge} (hg : g.Nodup) (s : Sol) : (extend g s).Nodup := by
  unfold extend
  rw [List.nodup_iff_pairwise_ne]
  apply List.Pairwise.filterMap _ _ (List.nodup_iff_pairwise_ne.mp hg)
  intro a a' hne b hb b' hb' hbb
  apply hne
  split at hb <;> split at hb'
  · injection hb with hb; injection hb' with hb'
    rw [← hb, ← hb'] at hbb
    injection hbb with h1 _ _
    have := List.append_cancel_left h1
    injection this
  · cases hb'
  · cases hb
  · cases hb

theorem flatMap_extend_nodup {g : List GEdge} (hg : g.Nodup) {fr : List Sol} (hfr : fr.Nodup) :
    (fr.flatMap (extend g)).Nodup := by
  rw [List.nodup_iff_pairwise_ne, List.pairwise_flatMap]
  refine ⟨fun a _ => List.nodup_iff_pairwise_ne.mp (extend_nodup hg a), ?_⟩
  apply List.Pairwise.imp _ (List.nodup_iff_pairwise_ne.mp hfr)
  intro a b hab x hx y hy hxy
  apply hab
  rcases mem_extend hx with ⟨e1, _, hs1, _, rfl⟩
  rcases mem_extend hy with ⟨e2, _, hs2, _, h2⟩
  rw [h2] at hxy
  injection hxy with h1 hd hc
  have hlen : a.edges.length = b.edges.length := by
    have := congrArg List.length h1
    simp at this; exact this
  have := List.append_inj h1 hlen
  have he : e1 = e2 := by injection this.2
  subst he
  cases a; cases b
  simp only at this hs1 hs2 hc ⊢
  simp only [Sol.mk.injEq]
  exact ⟨this.1, by rw [← hs1, ← hs2], by omega⟩

theorem nodup_filter {α : Type} (p : α → Bool) {l : List α} (h : l.Nodup) : (l.filter p).Nodup := by
  rw [List.nodup_iff_pairwise_ne] at h ⊢
  exact List.Pairwise.filter p h

theorem bfs_length_gt (g : List GEdge) (dst : Nat) : ∀ (fuel : Nat) (fr : List Sol) (d : Nat),
    (∀ s ∈ fr, s.edges.length = d) → ∀ t ∈ bfs g dst fuel fr, d < t.edges.length := by
  intro fuel
  induction fuel with
  | zero => intro fr d _ t ht; simp [bfs] at ht
  | succ n ih =>
    intro fr d hd t ht
    simp only [bfs] at ht
    have hnew : ∀ s ∈ fr.flatMap (extend g), s.edges.length = d + 1 := by
      intro s hs
      rcases List.mem_flatMap.mp hs with ⟨p, hp, hsp⟩
      rcases mem_extend hsp with ⟨e, _, _, _, rfl⟩
      simp [hd p hp]
    rcases List.mem_append.mp ht with h | h
    · have := hnew t (List.mem_filter.mp h).1; omega
    · have := ih _ (d + 1) (fun s hs => hnew s (List.mem_filter.mp hs).1) t h; omega

theorem bfs_nodup {g : List GEdge} (hg : g.Nodup) (dst : Nat) : ∀ (fuel : Nat) (fr : List Sol) (d : Nat),
    fr.Nodup → (∀ s ∈ fr, s.edges.length = d) → (bfs g dst fuel fr).Nodup := by
  intro fuel
  induction fuel with
  | zero => intro fr d _ _; simp [bfs]
  | succ n ih =>
    intro fr d hfr hd
    simp only [bfs]
    have hnewnd := flatMap_extend_nodup hg hfr
    have hnew : ∀ s ∈ fr.flatMap (extend g), s.edges.length = d + 1 := by
      intro s hs
      rcases List.mem_flatMap.mp hs with ⟨p, hp, hsp⟩
      rcases mem_extend hsp with ⟨e, _, _, _, rfl⟩
      simp [hd p hp]
    rw [List.nodup_append]
    refine ⟨nodup_filter _ hnewnd, ih _ (d + 1) (nodup_filter _ hnewnd)
      (fun s hs => hnew s (List.mem_filter.mp hs).1), ?_⟩
    intro a ha b hb hab
    have h1 := hnew a (List.mem_filter.mp ha).1
    have h2 := bfs_length_gt g dst n _ (d + 1) (fun s hs => hnew s (List.mem_filter.mp hs).1) b hb
    rw [hab] at h1; omega

theorem candidates_nodup (segs : List InSeg) (src dst : Nat) :
    (candidates (graphOf segs) src dst).Nodup := by
  unfold candidates
  exact bfs_nodup (graphOf_nodup segs) dst _ _ 0 (by simp) (by intro s hs; simp at hs; subst hs; rfl)

/-! ## 3. the candidate *set* depends only on the set of segments -/

theorem extend_mono {g g' : List GEdge} (hg : ∀ e ∈ g, e ∈ g') {s t : Sol} (h : t ∈ extend g s) :
    t ∈ extend g' s := by
  rcases mem_extend h with ⟨e, he, hsrc, hv, rfl⟩
  unfold extend
  rw [List.mem_filterMap]
  exact ⟨e, hg e he, by rw [if_pos ⟨hsrc, hv⟩]⟩

theorem bfs_mono {g g' : List GEdge} (hg : ∀ e ∈ g, e ∈ g') (dst : Nat) : ∀ (fuel : Nat) (fr fr' : List Sol),
    (∀ s ∈ fr, s ∈ fr') → ∀ t ∈ bfs g dst fuel fr, t ∈ bfs g' dst fuel fr' := by
  intro fuel
  induction fuel with
  | zero => intro fr fr' _ t ht; simp [bfs] at ht
  | succ n ih =>
    intro fr fr' hfr t ht
    simp only [bfs] at ht ⊢
    have hnew : ∀ s ∈ fr.flatMap (extend g), s ∈ fr'.flatMap (extend g') := by
      intro s hs
      rcases List.mem_flatMap.mp hs with ⟨p, hp, hsp⟩
      exact List.mem_flatMap.mpr ⟨p, hfr p hp, extend_mono hg hsp⟩
    rcases List.mem_append.mp ht with h | h
    · have := List.mem_filter.mp h
      exact List.mem_append_left _ (List.mem_filter.mpr ⟨hnew t this.1, this.2⟩)
    · apply List.mem_append_right
      apply ih _ _ _ t h
      intro s hs
      have := List.mem_filter.mp hs
      exact List.mem_filter.mpr ⟨hnew s this.1, this.2⟩

theorem graphOf_mono {segs segs' : List InSeg} (h : ∀ s ∈ segs, s ∈ segs') :
    ∀ e ∈ graphOf segs, e ∈ graphOf segs' := by
  intro e he
  have hm := mem_graphOf he
  unfold graphOf
  exact List.mem_flatMap.mpr ⟨e.seg, List.mem_eraseDups.mpr (h _ hm.1), hm.2⟩

/-- same set of segments (any order, any multiplicity) ⇒ the candidate lists are permutations -/
theorem candidates_perm {segs segs' : List InSeg} (h : ∀ s, s ∈ segs ↔ s ∈ segs') (src dst : Nat) :
    (candidates (graphOf segs) src dst).Perm (candidates (graphOf segs') src dst) := by
  rw [List.perm_ext_iff_of_nodup (candidates_nodup _ _ _) (candidates_nodup _ _ _)]
  intro t
  unfold candidates
  constructor
  · exact bfs_mono (graphOf_mono fun s hs => (h s).mp hs) dst _ _ _ (fun s hs => hs) t
  · exact bfs_mono (graphOf_mono fun s hs => (h s).mpr hs) dst _ _ _ (fun s hs => hs) t

/-! ## 4. the search finds every admissible chain of graph edges -/

/-- `try_add_edge` -/
def stepSol (s : Sol) (e : GEdge) : Sol := ⟨s.edges ++ [e], e.dst, s.cost + e.edge.weight⟩

/-- `e` can be appended to `s` -/
def canStep (g : List GEdge) (s : Sol) (e : GEdge) : Prop :=
  e ∈ g ∧ e.src = s.cur ∧ validNext s.edges e = true

theorem mem_extend_of_canStep {g : List GEdge} {s : Sol} {e : GEdge} (h : canStep g s e) :
    stepSol s e ∈ extend g s := by
  unfold extend
  rw [List.mem_filterMap]
  exact ⟨e, h.1, by rw [if_pos ⟨h.2.1, h.2.2⟩]; rfl⟩

/-- the edges `es` extend `s` step by step, reach `AS dst` with the last edge and not before -/
def Walk (g : List GEdge) (dst : Nat) : Sol → List GEdge → Prop
  | _, [] => False
  | s, [e] => canStep g s e ∧ e.dst = .as dst
  | s, e :: e' :: rest => canStep g s e ∧ e.dst ≠ .as dst ∧ Walk g dst (stepSol s e) (e' :: rest)

theorem bfs_complete (g : List GEdge) (dst : Nat) : ∀ (es : List GEdge) (fuel : Nat) (fr : List Sol) (s : Sol),
    s ∈ fr → es.length ≤ fuel → Walk g dst s es → es.foldl stepSol s ∈ bfs g dst fuel fr := by
  intro es
  induction es with
  | nil => intro fuel fr s _ _ h; exact absurd h (by simp [Walk])
  | cons e rest ih =>
    intro fuel fr s hs hlen hw
    cases fuel with
    | zero => simp at hlen
    | succ n =>
      simp only [bfs]
      cases rest with
      | nil =>
        simp only [Walk] at hw
        apply List.mem_append_left
        rw [List.mem_filter]
        refine ⟨List.mem_flatMap.mpr ⟨s, hs, mem_extend_of_canStep hw.1⟩, ?_⟩
        simp [stepSol, hw.2]
      | cons e' rest' =>
        simp only [Walk] at hw
        apply List.mem_append_right
        simp only [List.foldl_cons]
        have := ih n ((fr.flatMap (extend g)).filter fun s => !decide (s.cur = .as dst)) (stepSol s e) ?_ ?_ hw.2.2
        · simpa using this
        · rw [List.mem_filter]
          refine ⟨List.mem_flatMap.mpr ⟨s, hs, mem_extend_of_canStep hw.1⟩, ?_⟩
          simp [stepSol, hw.2.1]
        · simp at hlen ⊢; omega

theorem walk_length (g : List GEdge) (dst : Nat) : ∀ (es : List GEdge) (s : Sol), Walk g dst s es →
    s.edges.length + es.length ≤ 3 := by
  intro es
  induction es with
  | nil => intro s h; exact absurd h (by simp [Walk])
  | cons e rest ih =>
    intro s hw
    cases rest with
    | nil =>
      simp only [Walk] at hw
      have := validNext_len hw.1.2.2
      simp; omega
    | cons e' rest' =>
      simp only [Walk] at hw
      have := ih (stepSol s e) hw.2.2
      simp [stepSol] at this ⊢; omega

/-- every admissible chain of graph edges from `AS src` is a candidate solution -/
theorem candidates_complete (g : List GEdge) (src dst : Nat) (es : List GEdge)
    (h : Walk g dst (Sol.new (.as src)) es) :
    es.foldl stepSol (Sol.new (.as src)) ∈ candidates g src dst := by
  unfold candidates
  apply bfs_complete g dst es _ _ _ (by simp) _ h
  have := walk_length g dst es _ h
  simp [Sol.new, bfsRounds, MAX_SEGMENTS] at this ⊢; omega

/-! ## 5. which candidates `filter_duplicates` lets through, in which order -/

/-- interface list with which a solution enters `filter_duplicates` (none: no path or a loop) -/
def offeredIfs (s : Sol) : Option (List (Nat × Nat)) :=
  match solPath s with
  | .path p => if hasLoops p then none else some p.ifs
  | _ => none

/-- the solutions whose interface list is new when they are reached (first representatives) -/
def repsOf : List (List (Nat × Nat)) → List Sol → List Sol
  | _, [] => []
  | seen, s :: rest =>
    match offeredIfs s with
    | some k => if k ∈ seen then repsOf seen rest else s :: repsOf (seen ++ [k]) rest
    | none => repsOf seen rest

theorem repsOf_sublist : ∀ (l : List Sol) (seen : List (List (Nat × Nat))), (repsOf seen l).Sublist l := by
  intro l
  induction l with
  | nil => intro seen; simp [repsOf]
  | cons s rest ih =>
    intro seen
    unfold repsOf
    split
    · split
      · exact (ih seen).cons _
      · exact (ih _).cons_cons _
    · exact (ih seen).cons _

theorem repsOf_offered : ∀ (l : List Sol) (seen : List (List (Nat × Nat))),
    ∀ r ∈ repsOf seen l, (offeredIfs r).isSome = true := by
  intro l
  induction l with
  | nil => intro seen r hr; simp [repsOf] at hr
  | cons s rest ih =>
    intro seen r hr
    unfold repsOf at hr
    split at hr
    · rename_i k hk
      split at hr
      · exact ih seen r hr
      · rcases List.mem_cons.mp hr with hr | hr
        · subst hr; simp [hk]
        · exact ih _ r hr
    · exact ih seen r hr

theorem dedup_keys : ∀ (l : List Sol) (ps acc : List Path), pathsOf l = .ok ps →
    ((ps.filter fun p => !hasLoops p).foldl insertDedup acc).map Path.dedupKey
      = acc.map Path.dedupKey ++ (repsOf (acc.map Path.dedupKey) l).filterMap offeredIfs := by
  intro l
  induction l with
  | nil =>
    intro ps acc h
    simp [pathsOf] at h
    subst h
    simp [repsOf]
  | cons s rest ih =>
    intro ps acc h
    unfold pathsOf at h
    cases hs : solPath s with
    | panic st => simp [hs] at h
    | dropped =>
      simp only [hs] at h
      have hk : offeredIfs s = none := by simp [offeredIfs, hs]
      rw [ih ps acc h]
      conv => rhs; unfold repsOf
      simp only [hk]
    | path p =>
      simp only [hs] at h
      cases hr : pathsOf rest with
      | error st => simp [hr] at h
      | ok qs =>
        simp only [hr] at h
        injection h with h
        subst h
        by_cases hl : hasLoops p = true
        · have hk : offeredIfs s = none := by simp [offeredIfs, hs, hl]
          simp only [List.filter_cons, hl, Bool.not_true, Bool.false_eq_true, if_false]
          rw [ih qs acc hr]
          conv => rhs; unfold repsOf
          simp only [hk]
        · have hl' : hasLoops p = false := by simpa using hl
          have hk : offeredIfs s = some p.ifs := by simp [offeredIfs, hs, hl']
          simp only [List.filter_cons, hl', Bool.not_false, if_true, List.foldl_cons]
          rw [ih qs (insertDedup acc p) hr, insertDedup_keys]
          conv => rhs; unfold repsOf
          simp only [hk]
          by_cases hm : p.dedupKey ∈ acc.map Path.dedupKey
          · have hm' : p.ifs ∈ acc.map Path.dedupKey := hm
            rw [if_pos hm, if_pos hm']
          · have hm' : ¬ p.ifs ∈ acc.map Path.dedupKey := hm
            rw [if_neg hm, if_neg hm']
            simp [hk, Path.dedupKey]

/-! ## a stable sort commutes with filtering; solutions that yield nothing can be removed before `finish` -/

theorem prefix_unique {α : Type} (le : α → α → Bool) (a : α) : ∀ (P P' Q Q' : List α), P ++ Q = P' ++ Q' →
    (∀ b ∈ P, le a b = false) → (∀ b ∈ P', le a b = false) →
    (∀ b ∈ Q, le a b = true) → (∀ b ∈ Q', le a b = true) → P = P' := by
  intro P
  induction P with
  | nil =>
    intro P' Q Q' h _ hP' hQ _
    cases P' with
    | nil => rfl
    | cons y ys =>
      simp at h
      have h1 := hQ y (by rw [h]; simp)
      have h2 := hP' y (by simp)
      rw [h1] at h2; cases h2
  | cons x xs ih =>
    intro P' Q Q' h hP hP' hQ hQ'
    cases P' with
    | nil =>
      simp at h
      have h1 := hQ' x (by rw [← h]; simp)
      have h2 := hP x (by simp)
      rw [h1] at h2; cases h2
    | cons y ys =>
      simp only [List.cons_append, List.cons.injEq] at h
      rw [h.1, ih ys Q Q' h.2 (fun b hb => hP b (List.mem_cons_of_mem _ hb))
        (fun b hb => hP' b (List.mem_cons_of_mem _ hb)) hQ hQ']

theorem filter_mergeSort {α : Type} (le : α → α → Bool)
    (trans : ∀ (a b c : α), le a b → le b c → le a c) (total : ∀ (a b : α), le a b || le b a)
    (p : α → Bool) : ∀ (l : List α), (l.mergeSort le).filter p = (l.filter p).mergeSort le := by
  intro l
  induction l with
  | nil => simp
  | cons a l ih =>
    obtain ⟨l₁, l₂, h1, h2, h3⟩ := List.mergeSort_cons trans total a l
    by_cases hp : p a = true
    · obtain ⟨m₁, m₂, g1, g2, g3⟩ := List.mergeSort_cons trans total a (l.filter p)
      have hf : (a :: l).filter p = a :: l.filter p := by simp [List.filter_cons, hp]
      rw [hf, g1, h1, List.filter_append, List.filter_cons, if_pos hp]
      have heq : m₁ ++ m₂ = l₁.filter p ++ l₂.filter p := by
        rw [← g2, ← ih, h2, List.filter_append]
      have s1 := List.pairwise_mergeSort trans total (a :: l)
      rw [h1, List.pairwise_append] at s1
      have s2 := List.pairwise_mergeSort trans total (a :: l.filter p)
      rw [g1, List.pairwise_append] at s2
      have hm : m₁ = l₁.filter p := by
        apply prefix_unique le a m₁ (l₁.filter p) m₂ (l₂.filter p) heq
        · intro b hb; simpa using g3 b hb
        · intro b hb; simpa using h3 b (List.mem_filter.mp hb).1
        · intro b hb; exact (List.pairwise_cons.mp s2.2.1).1 b hb
        · intro b hb; exact (List.pairwise_cons.mp s1.2.1).1 b (List.mem_filter.mp hb).1
      rw [hm] at heq ⊢
      rw [List.append_cancel_left heq]
    · have hf : (a :: l).filter p = l.filter p := by simp [List.filter_cons, hp]
      rw [hf, h1, List.filter_append, List.filter_cons, if_neg hp, ← List.filter_append, ← h2, ih]

theorem sortSols_filter (p : Sol → Bool) (l : List Sol) : (sortSols l).filter p = sortSols (l.filter p) :=
  filter_mergeSort solLe (fun a b c => lexLe_trans a.key b.key c.key) (fun a b => lexLe_total a.key b.key) p l

/-- a solution contributes nothing to the result: `path()` drops it, or its path is loop-filtered -/
def Sol.yieldsNothing (s : Sol) : Prop :=
  solPath s = .dropped ∨ ∃ p, solPath s = .path p ∧ hasLoops p = true

theorem pathsOf_filter (Q : Sol → Bool) : ∀ (l : List Sol) (ps : List Path), pathsOf l = .ok ps →
    (∀ s ∈ l, Q s = false → s.yieldsNothing) →
    ∃ ps', pathsOf (l.filter Q) = .ok ps' ∧
      ps'.filter (fun p => !hasLoops p) = ps.filter (fun p => !hasLoops p) := by
  intro l
  induction l with
  | nil => intro ps h _; simp [pathsOf] at h; subst h; exact ⟨[], by simp [pathsOf], rfl⟩
  | cons s rest ih =>
    intro ps h hy
    unfold pathsOf at h
    cases hsp : solPath s with
    | panic st => rw [hsp] at h; simp at h
    | dropped =>
      rw [hsp] at h
      simp only at h
      rcases ih ps h (fun x hx => hy x (List.mem_cons_of_mem _ hx)) with ⟨ps', h1, h2⟩
      by_cases hq : Q s = true
      · refine ⟨ps', ?_, h2⟩
        rw [List.filter_cons, if_pos hq]
        unfold pathsOf
        rw [hsp]; exact h1
      · exact ⟨ps', by rw [List.filter_cons, if_neg hq]; exact h1, h2⟩
    | path p =>
      rw [hsp] at h
      simp only at h
      cases hr : pathsOf rest with
      | error st => rw [hr] at h; simp at h
      | ok ps0 =>
        rw [hr] at h
        simp only at h
        injection h with h
        subst h
        rcases ih ps0 hr (fun x hx => hy x (List.mem_cons_of_mem _ hx)) with ⟨ps', h1, h2⟩
        by_cases hq : Q s = true
        · refine ⟨p :: ps', ?_, ?_⟩
          · rw [List.filter_cons, if_pos hq]
            unfold pathsOf
            rw [hsp]; simp only [h1]
          · simp only [List.filter_cons, h2]
        · have hq' : Q s = false := by simpa using hq
          refine ⟨ps', by rw [List.filter_cons, if_neg hq]; exact h1, ?_⟩
          rcases hy s List.mem_cons_self hq' with hd | ⟨p', hp', hl⟩
          · rw [hsp] at hd; cases hd
          · rw [hsp] at hp'
            injection hp' with hp'
            subst hp'
            simp [List.filter_cons, hl, h2]

end ScionVerif.Comb
