import ScionVerif.Lemmas.Token
/-!
# C10 — a SNAP token is accepted exactly when authentic, for SNAP, and within lifetime

Property theorems over the model `Model/Token.lean` of `SnapTokenVerifier::verify` (+ jsonwebtoken's
`decode`/`validate`, `AnyClaims::deserialize`) and of the arithmetic by which
`register_snaptun_identity_handler` derives the registration lifetime (section 2: pinned by the translator,
compared with the real handler by the harness, not proved of the Rust code).  The verifier configuration is `generatedValidation`, i.e. what
`translator/domains_token.py` re-extracts from `build_validation()` and from the vendored jsonwebtoken
source on every run; the acceptance condition `Spec` (the property text written out, `Lemmas/Token.lean`
part A) mentions the literals `"EdDSA"` and `"snap"` and the generated `leeway`.

`accept_iff_spec` needs the configuration to be the SNAP profile (`snapProfile_generated`): if somebody
drops the audience, changes the algorithm, or stops checking `nbf` (the state of the code before commit
`fix: SNAP token verifier must enforce the not-before claim`), `snapProfile_generated` no longer
type-checks and the check reports the broken obligation.  `nbf_unchecked_witness` records what was wrong.

Quantification: all `ParsedToken` records - NOT all strings.  A `ParsedToken` is what a reader makes of a
token string whose header segment decodes (algorithm, kid, "signature segment is base64url", one Ed25519
verification bit per key, payload as a member list); the map string → `ParsedToken` (splitting at `.`,
base64url, JSON reading, `decode_header`'s schema) is the libraries' and, on the verification side, about
200 lines of harness Rust - no theorem mentions it.  All key configurations, all times `now` with
`leeway ≤ now` and `now + leeway < 2^64` (outside that range the library's `now - leeway` /
`now + leeway` overflow, `verify_no_panic`).  Ed25519, base64url and JSON reading are parameters of
`ParsedToken` (`sigOkUnder`, `sigB64`, `payload`), not axioms: "an altered payload or signature is refused"
is `bad_signature_rejected`, whose hypothesis is the bit `sigOkUnder k = false`.
-/
namespace ScionVerif.Token
open ScionVerif.Generated.Token

/-! ## 0. The extracted configuration is the SNAP profile -/

/-- `build_validation()` as it is in the source now: EdDSA only, `exp`/`nbf`/`aud` validated, audience
`snap`, no issuer/subject pinned, required spec claims ⊆ {exp} ∪ (names jsonwebtoken ignores). -/
theorem snapProfile_generated : SnapProfile generatedValidation := by
  constructor <;> try rfl
  intro c hc
  simp [generatedValidation, requiredSpecClaims] at hc
  rcases hc with rfl | rfl <;> simp

/-- the claim names jsonwebtoken's `validate` is able to require are the ones `specClaimPresent` knows -/
theorem checkable_claims_known : checkableSpecClaims = ["exp", "sub", "iss", "aud", "nbf"] := by decide

/-- each version's `required_claims()` are fields of its claims struct (so serde demands them) -/
theorem required_claims_are_fields :
    (∀ c ∈ v0Required, c ∈ v0Fields.map (·.1)) ∧ (∀ c ∈ v1Required, c ∈ v1Fields.map (·.1)) := by decide

/-! ## 1. Acceptance ⇔ the property's condition -/

/-- **accept ⇔ Spec, for every configuration with the SNAP profile.** -/
theorem accept_iff_spec_of_profile (cfg : Validation) (keys : Keys) (t : ParsedToken) (now : Nat)
    (hp : SnapProfile cfg) (hnow : cfg.leeway ≤ now) (hmax : now + cfg.leeway ≤ u64Max) :
    accept cfg keys t now = true ↔ Spec cfg.leeway keys t now := by
  have hacc : accept cfg keys t now = true ↔ ∃ c, verify cfg keys t now = .ok c := by
    unfold accept
    cases verify cfg keys t now <;> simp
  rw [hacc]
  constructor
  · rintro ⟨c, hc⟩
    obtain ⟨_, key, hk, hs, cs, hpay, hany, hread, hval⟩ := (verify_eq_ok cfg keys t now c).mp hc
    have hsv : SupportedVersion cs := (anyClaims_ok cs).mp ⟨c, hany⟩
    obtain ⟨haud, hnbf, hexp⟩ := (validate_ok cfg cs now hp hnow hmax hsv).mp hval
    obtain ⟨h1, h2, h3, h4⟩ := (checkSignature_ok cfg keys t key hp.algs).mp hs
    exact ⟨h1, ⟨key, (selectKey_ok keys t.kid key).mp hk, h2, h3, h4⟩,
      ⟨cs, hpay, (cfvReadable_iff cfg.leeway cs now (supported_exp cs hsv) hnbf).mp hread, hsv, haud, hnbf, hexp⟩⟩
  · rintro ⟨h1, ⟨key, hk, h2, h3, h4⟩, ⟨cs, hpay, hread, hsv, haud, hnbf, hexp⟩⟩
    obtain ⟨c, hany⟩ := (anyClaims_ok cs).mpr hsv
    refine ⟨c, (verify_eq_ok cfg keys t now c).mpr ⟨?_, key, (selectKey_ok keys t.kid key).mpr hk,
      (checkSignature_ok cfg keys t key hp.algs).mpr ⟨h1, h2, h3, h4⟩, cs, hpay, hany,
      (cfvReadable_iff cfg.leeway cs now (supported_exp cs hsv) hnbf).mpr hread,
      (validate_ok cfg cs now hp hnow hmax hsv).mpr ⟨haud, hnbf, hexp⟩⟩⟩
    rw [h1]; decide

/-- **The property, for the verifier as configured in the source.**  For every token whose header
decodes, every key configuration and every time: the control plane accepts the token if and only if it
is signed with EdDSA by the configured (or JWKS-resolved) Ed25519 key, its claims are a readable JSON
object of a supported version carrying every claim of that version with the right type, it names the
audience `snap` whenever it names an audience, `nbf ≤ now + leeway` whenever it has an `nbf`, and
`now ≤ exp + leeway`. -/
theorem accept_iff_spec (keys : Keys) (t : ParsedToken) (now : Nat)
    (hnow : leeway ≤ now) (hmax : now + leeway ≤ u64Max) :
    accept generatedValidation keys t now = true ↔ Spec leeway keys t now :=
  accept_iff_spec_of_profile generatedValidation keys t now snapProfile_generated hnow hmax

/-- `verify` does not reach the overflow sites of jsonwebtoken's `validate` for realistic clocks. -/
theorem verify_no_panic (keys : Keys) (t : ParsedToken) (now : Nat)
    (hnow : leeway ≤ now) (hmax : now + leeway ≤ u64Max) :
    verify generatedValidation keys t now ≠ .error .panic :=
  verify_no_panic_of generatedValidation keys t now hnow hmax

/-! ## 2. The granted lifetime

`lifetime` (Model/Token.lean) is the arithmetic of `register_snaptun_identity_handler`; the theorems of
this section are short consequences of that definition and of `verify_eq_ok` - what they add over the
definition is (a) that the `exp` the handler uses is the `exp` member of the payload the signature
covers, and (b) the bound against the verification instant.  That the real handler computes this
function is NOT proved: it is pinned by the translator (`handler_lifetime_generated`) and observed on
the real handler for every accepted token of the harness run. -/

/-- the statements of `register_snaptun_identity_handler` that compute the lifetime, as re-extracted
from crpc.rs / v0.rs / v1.rs on this run (a pin of generated constants, true by `decide`; if the
handler is edited to pass anything else the extraction fails before this is checked) -/
theorem handler_lifetime_generated :
    handlerLifetimeIsExpMinusNow = true ∧ handlerRefusesPastExpiryBeforeRegister = true ∧
      handlerRegisterCalls = 1 ∧ handlerRegisterKeyIsJti = true ∧ 0 < expUnitNs := by decide

/-- **The registration lifetime never exceeds the token's remaining lifetime** (model of the handler):
if the verifier accepted the token (claims `c`) and the handler, reading the clock at `nowNs`
(nanoseconds), hands a lifetime `d` to the registry, then `c.exp` *is* the `exp` member of the verified
payload and the registration ends exactly at it: `nowNs + d = exp · expUnitNs`. -/
theorem lifetime_le_remaining (keys : Keys) (t : ParsedToken) (now nowNs d : Nat) (c : Claims)
    (hv : verify generatedValidation keys t now = .ok c) (hg : lifetime c.exp nowNs = .granted d) :
    (∃ cs, t.payload = .obj cs ∧ lookup cs "exp" = some (.num (.u64 c.exp))) ∧
      nowNs + d = c.exp * expUnitNs ∧ d ≤ c.exp * expUnitNs - nowNs := by
  obtain ⟨_, key, _, _, cs, hpay, hany, _, _⟩ := (verify_eq_ok _ keys t now c).mp hv
  have hsv : SupportedVersion cs := (anyClaims_ok cs).mp ⟨c, hany⟩
  obtain ⟨n, hn⟩ := supported_exp cs hsv
  have he : c.exp = n := by rw [anyClaims_exp cs c hany]; simp [expOf, hn]
  refine ⟨⟨cs, hpay, by rw [he]; exact hn⟩, ?_⟩
  unfold lifetime at hg
  split at hg
  · simp at hg
  · split at hg
    · simp only [Grant.granted.injEq] at hg
      omega
    · simp at hg

/-- … and never more than what was left when the token was verified: if the handler's clock reading is
not before the second `now` at which `verify` ran (`now · expUnitNs ≤ nowNs`), the granted lifetime is
at most `(exp − now) · expUnitNs`, and nothing at all is granted to a token that `verify` let through
inside the leeway after its expiry (`exp < now`). -/
theorem lifetime_le_remaining_at_verification (exp now nowNs d : Nat)
    (hclock : now * expUnitNs ≤ nowNs) (hg : lifetime exp nowNs = .granted d) :
    d ≤ (exp - now) * expUnitNs ∧ now ≤ exp := by
  unfold lifetime at hg
  split at hg
  · simp at hg
  · split at hg
    · rename_i _ hle
      simp only [Grant.granted.injEq] at hg
      have hu : 0 < expUnitNs := by decide
      have hne : now ≤ exp := by
        rcases Nat.lt_or_ge exp now with h | h
        · exfalso
          have : (exp + 1) * expUnitNs ≤ now * expUnitNs := Nat.mul_le_mul_right _ h
          rw [Nat.add_mul] at this
          omega
        · exact h
      refine ⟨?_, hne⟩
      rw [Nat.sub_mul]
      omega
    · simp at hg

/-- The registry adds the lifetime to a second clock reading (`Instant::now()`, taken `gap` ns after the
handler's `SystemTime::now()`): on the time line of the first clock the registration ends at
`exp · expUnitNs + gap` - it outlives the token by exactly the delay between the handler's two clock
readings (a few statements; observed: well under a millisecond) and by nothing else. -/
theorem registration_end (exp nowNs d gap : Nat) (hg : lifetime exp nowNs = .granted d) :
    (nowNs + gap) + d = exp * expUnitNs + gap := by
  unfold lifetime at hg
  split at hg
  · simp at hg
  · split at hg
    · simp only [Grant.granted.injEq] at hg
      omega
    · simp at hg

/-- no registration at all once the token's expiry has passed -/
theorem lifetime_none_after_expiry (exp nowNs : Nat) (h : exp * expUnitNs < nowNs) :
    ∀ d, lifetime exp nowNs ≠ .granted d := by
  intro d hg
  unfold lifetime at hg
  split at hg
  · simp at hg
  · split at hg
    · omega
    · simp at hg

/-- the one panic site on the registration path: `Token::exp_time` (`UNIX_EPOCH + from_secs(exp)`)
overflows `SystemTime` exactly when `exp > i64::MAX`; a token can be *accepted* with such an `exp`
(an observation about the handler, outside the property text; unfolding of the model's first test). -/
theorem lifetime_panic_iff (exp nowNs : Nat) : lifetime exp nowNs = .panic ↔ i64Max < exp := by
  unfold lifetime
  split
  · simp [*]
  · split <;> simp [*]

/-- premises of the lifetime theorems are satisfiable: a token verified at second 1 700 000 000 and
registered half a second later, one hour before its expiry -/
example : lifetime 1700003600 1700000000500000000 = .granted 3599500000000 ∧
    1700000000 * expUnitNs ≤ 1700000000500000000 := by decide +kernel

/-! ## 2b. Which string reaches the verifier -/

/-- `extract_bearer_token` hands the verifier exactly the text after the literal prefix: a header value
yields token `t` iff it is `bearerPrefix ++ t` - nothing is trimmed, no other scheme spelling is accepted -/
theorem extractBearer_iff (v t : List Char) :
    extractBearer v = some t ↔ v = bearerPrefix.toList ++ t := by
  unfold extractBearer
  constructor
  · intro h
    split at h
    · rename_i hp
      obtain ⟨r, hr⟩ := List.isPrefixOf_iff_prefix.mp hp
      simp only [Option.some.injEq] at h
      rw [← hr, List.drop_left] at h
      rw [← hr, h]
    · simp at h
  · intro h
    have hp : bearerPrefix.toList.isPrefixOf v = true :=
      List.isPrefixOf_iff_prefix.mpr ⟨t, h.symm⟩
    rw [if_pos hp, h, List.drop_left]

/-- the extracted prefix is the RFC 6750 scheme followed by one space -/
theorem bearerPrefix_generated : bearerPrefix = "Bearer " ∧ middlewareVerifiesExtractedToken = true := by decide

example : extractBearer "Bearer a.b.c".toList = some "a.b.c".toList := by decide
example : extractBearer "bearer a.b.c".toList = none ∧ extractBearer "Bearer  a".toList = some " a".toList := by decide

/-- **Which JWKS entry is "the JWKS-resolved key"**: the last entry of the served document that
carries the token's `kid` (`JwksKeyStore::do_fetch` overwrites; entries without `kid` never resolve). -/
theorem jwks_last_entry_wins (doc : List (Option String × KeyId)) (kid : String) (key : KeyId)
    (rest : List (Option String × KeyId)) (hrest : ∀ e ∈ rest, e.1 ≠ some kid) (static : KeyId)
    (ed : KeyId → Bool) :
    trustedKey { static := static, jwks := some (storeOfDocument (doc ++ (some kid, key) :: rest)), edKey := ed }
      (some kid) = some key := by
  have hnone : ∀ (l : List (Option String × KeyId)), (∀ e ∈ l, e.1 ≠ some kid) →
      ∀ tl : List (String × KeyId),
      List.lookup kid ((l.filterMap docEntry).reverse ++ tl) = List.lookup kid tl := by
    intro l
    induction l with
    | nil => intro _ tl; simp
    | cons e l ih =>
      intro h tl
      have he := h e (by simp)
      have hl : ∀ e' ∈ l, e'.1 ≠ some kid := fun e' he' => h e' (by simp [he'])
      obtain ⟨k, v⟩ := e
      cases k with
      | none =>
        have hd : docEntry (none, v) = none := rfl
        rw [List.filterMap_cons_none hd]
        exact ih hl tl
      | some k' =>
        have hd : docEntry (some k', v) = some (k', v) := rfl
        have hk : (kid == k') = false := by
          simp only [beq_eq_false_iff_ne, ne_eq]
          intro hh; exact he (by simp [hh])
        rw [List.filterMap_cons_some hd, List.reverse_cons, List.append_assoc, List.singleton_append,
          ih hl, List.lookup_cons, hk]
  have hd : docEntry (some kid, key) = some (kid, key) := rfl
  show List.lookup kid (storeOfDocument (doc ++ (some kid, key) :: rest)) = some key
  unfold storeOfDocument
  rw [List.filterMap_append, List.filterMap_cons_some hd, List.reverse_append, List.reverse_cons,
    List.append_assoc, hnone rest hrest, List.singleton_append, List.lookup_cons]
  simp

example : storeOfDocument [(some "a", 1), (none, 5), (some "a", 2)] = [("a", 2), ("a", 1)] := by decide

/-! ## 3. Per-clause corollaries ("any other string … is refused") -/

section
variable (keys : Keys) (t : ParsedToken) (now : Nat) (hnow : leeway ≤ now) (hmax : now + leeway ≤ u64Max)
include hnow hmax

/-- another algorithm is refused -/
theorem wrong_alg_rejected (h : t.alg ≠ "EdDSA") : accept generatedValidation keys t now = false := by
  rw [Bool.eq_false_iff, ne_eq, accept_iff_spec keys t now hnow hmax]
  exact fun hs => h hs.eddsa

/-- `none` is refused (whatever the signature oracle says) -/
theorem alg_none_rejected (h : t.alg = "none") : accept generatedValidation keys t now = false :=
  wrong_alg_rejected keys t now hnow hmax (by rw [h]; decide)

/-- HS256 (e.g. HMAC keyed with the public key) is refused -/
theorem alg_hs256_rejected (h : t.alg = "HS256") : accept generatedValidation keys t now = false :=
  wrong_alg_rejected keys t now hnow hmax (by rw [h]; decide)

/-- a signature that does not verify under the trusted key (altered header, payload or signature;
signed by a key the verifier does not trust) is refused -/
theorem bad_signature_rejected (h : ∀ k, trustedKey keys t.kid = some k → t.sigOkUnder k = false) :
    accept generatedValidation keys t now = false := by
  rw [Bool.eq_false_iff, ne_eq, accept_iff_spec keys t now hnow hmax]
  rintro ⟨_, ⟨k, hk, _, _, hok⟩, _⟩
  rw [h k hk] at hok
  exact Bool.false_ne_true hok

/-- with a JWKS store configured, a `kid` the store does not know is refused – even if the token is
signed by the static key -/
theorem unknown_kid_rejected (kid : String) (store : List (String × KeyId))
    (hk : t.kid = some kid) (hs : keys.jwks = some store) (hu : store.lookup kid = none) :
    accept generatedValidation keys t now = false := by
  rw [Bool.eq_false_iff, ne_eq, accept_iff_spec keys t now hnow hmax]
  rintro ⟨_, ⟨k, hk', _⟩, _⟩
  simp [trustedKey, hk, hs, hu] at hk'

/-- a payload that is not a JSON object is refused -/
theorem non_object_payload_rejected (h : ∀ cs, t.payload ≠ .obj cs) :
    accept generatedValidation keys t now = false := by
  rw [Bool.eq_false_iff, ne_eq, accept_iff_spec keys t now hnow hmax]
  rintro ⟨_, _, ⟨cs, hp, _⟩⟩
  exact h cs hp

variable (cs : List (String × JVal)) (hpay : t.payload = .obj cs)
include hpay

/-- an unknown version (`ver` present and not the number 1) is refused -/
theorem unknown_version_rejected (v : JVal) (hv : lookup cs "ver" = some v) (h1 : v ≠ .num (.u64 v1Tag)) :
    accept generatedValidation keys t now = false := by
  rw [Bool.eq_false_iff, ne_eq, accept_iff_spec keys t now hnow hmax]
  rintro ⟨_, _, ⟨cs', hp, _, hsv, _⟩⟩
  rw [hpay] at hp
  cases hp
  rcases hsv with ⟨h, _⟩ | ⟨h, _⟩
  · rw [hv] at h; cases h
  · rw [hv] at h; cases h; exact h1 rfl

/-- a legacy (v0) token lacking one of its claims (`pssid`, `exp`, `jti`) is refused -/
theorem missing_claim_rejected_v0 (hver : lookup cs "ver" = none) (f : String × FieldTy)
    (hf : f ∈ v0Fields) (hmiss : lookup cs f.1 = none) :
    accept generatedValidation keys t now = false := by
  rw [Bool.eq_false_iff, ne_eq, accept_iff_spec keys t now hnow hmax]
  rintro ⟨_, _, ⟨cs', hp, _, hsv, _⟩⟩
  rw [hpay] at hp
  cases hp
  rcases hsv with ⟨_, h⟩ | ⟨h, _⟩
  · have := h f hf
    rw [hmiss] at this
    cases hty : f.2 <;> rw [hty] at this <;> simp [WellTyped] at this
  · rw [hver] at h; cases h

/-- a v1 token lacking one of its claims (`ver`, `iss`, `aud`, `exp`, `nbf`, `iat`, `jti`, `pssid`)
is refused -/
theorem missing_claim_rejected_v1 (hver : lookup cs "ver" = some (.num (.u64 v1Tag))) (f : String × FieldTy)
    (hf : f ∈ v1Fields) (hmiss : lookup cs f.1 = none) :
    accept generatedValidation keys t now = false := by
  rw [Bool.eq_false_iff, ne_eq, accept_iff_spec keys t now hnow hmax]
  rintro ⟨_, _, ⟨cs', hp, _, hsv, _⟩⟩
  rw [hpay] at hp
  cases hp
  rcases hsv with ⟨h, _⟩ | ⟨_, h⟩
  · rw [hver] at h; cases h
  · have := h f hf
    rw [hmiss] at this
    cases hty : f.2 <;> rw [hty] at this <;> simp [WellTyped] at this

/-- a window that has ended: `exp + leeway < now` is refused -/
theorem expired_rejected (n : Nat) (he : lookup cs "exp" = some (.num (.u64 n))) (h : n + leeway < now) :
    accept generatedValidation keys t now = false := by
  rw [Bool.eq_false_iff, ne_eq, accept_iff_spec keys t now hnow hmax]
  rintro ⟨_, _, ⟨cs', hp, _, _, _, _, ⟨m, hm, hle⟩⟩⟩
  rw [hpay] at hp
  cases hp
  rw [he] at hm
  cases hm
  omega

/-- a window that has not begun: `nbf > now + leeway` is refused (v0 and v1 alike) -/
theorem immature_rejected (v : JVal) (n : Nat) (hn : lookup cs "nbf" = some v) (ht : timeValue v = some n)
    (h : now + leeway < n) : accept generatedValidation keys t now = false := by
  rw [Bool.eq_false_iff, ne_eq, accept_iff_spec keys t now hnow hmax]
  rintro ⟨_, _, ⟨cs', hp, _, _, _, hnbf, _⟩⟩
  rw [hpay] at hp
  cases hp
  obtain ⟨m, hm, hle⟩ := hnbf v hn
  rw [ht] at hm
  cases hm
  omega

/-- an `nbf` that is not a time (string, `null`, boolean, negative, …) is refused -/
theorem malformed_nbf_rejected (v : JVal) (hn : lookup cs "nbf" = some v) (ht : timeValue v = none) :
    accept generatedValidation keys t now = false := by
  rw [Bool.eq_false_iff, ne_eq, accept_iff_spec keys t now hnow hmax]
  rintro ⟨_, _, ⟨cs', hp, _, _, _, hnbf, _⟩⟩
  rw [hpay] at hp
  cases hp
  obtain ⟨m, hm, _⟩ := hnbf v hn
  rw [ht] at hm
  cases hm

/-- a token for somebody else: `aud` a string other than `snap`, or a list of strings without `snap` -/
theorem wrong_audience_rejected (l : List String) (hl : "snap" ∉ l)
    (ha : lookup cs "aud" = some (.strs l) ∨ ∃ s, l = [s] ∧ lookup cs "aud" = some (.str s)) :
    accept generatedValidation keys t now = false := by
  rw [Bool.eq_false_iff, ne_eq, accept_iff_spec keys t now hnow hmax]
  rintro ⟨_, _, ⟨cs', hp, _, _, haud, _⟩⟩
  rw [hpay] at hp
  cases hp
  unfold AudienceOk at haud
  rcases ha with ha | ⟨s, rfl, ha⟩
  · rw [ha] at haud; exact hl haud
  · rw [ha] at haud; simp at hl; exact hl haud.symm

end

/-! ## 3b. The verdict does not depend on what the instance was shown before

The property makes acceptance a condition on the string and on the clock ("inside its validity window ... up to the
verifier's fixed clock leeway"); nothing in it mentions earlier presentations.  In the model an instance is its key
configuration and its `Validation` (`Instance`; the fields of `struct SnapTokenVerifier` and the `&self` receiver of
`verify` are re-extracted and pinned by `verifier_instance_generated`), and a call leaves it as it was.  The real
instances are exercised over real time by the harness stream `replay-over-time` (one long-lived instance per
construction and the running router; byte-identical strings presented while the clock passes `exp + leeway` /
`nbf - leeway`; oracle keys `C10:over-time:*`). -/

/-- the instance the model describes is the one in the source: three fields (static key, optional JWKS store,
`Validation`), `verify` takes `&self`.  A field added to carry something from one call to the next (a cache of
verdicts, a counter, a last-seen time) changes `verifierFields` and this no longer checks. -/
theorem verifier_instance_generated :
    verifierFields = [("static_key", "DecodingKey"), ("jwks_store", "Option<Arc<JwksKeyStore>>"),
      ("validation", "Validation")] ∧ verifyReceiver = "&self" := by decide

/-- a history of calls leaves the instance as it was -/
theorem run_instance (v : Instance) (hist : List (ParsedToken × Nat)) : (v.run hist).1 = v := by
  induction hist generalizing v with
  | nil => rfl
  | cons p rest ih =>
    obtain ⟨t, now⟩ := p
    simp only [Instance.run, Instance.present]
    exact ih v

/-- **History independence**: after ANY sequence of earlier `verify` calls on the same instance (the same token
among them or not, accepted or refused, at whatever clock values), the verdict of the next call is the pure
function of (token, clock). -/
theorem verdict_history_independent (v : Instance) (hist : List (ParsedToken × Nat)) (t : ParsedToken) (now : Nat) :
    ((v.run hist).1.present t now).2 = verify v.cfg v.keys t now := by
  rw [run_instance]
  rfl

/-- the verdicts of a whole history are the pure function applied to each presentation -/
theorem run_verdicts (v : Instance) (hist : List (ParsedToken × Nat)) :
    (v.run hist).2 = hist.map (fun p => verify v.cfg v.keys p.1 p.2) := by
  induction hist generalizing v with
  | nil => rfl
  | cons p rest ih =>
    obtain ⟨t, now⟩ := p
    simp only [Instance.run, Instance.present, List.map_cons]
    rw [ih v]

/-- **Accepted once is not accepted for ever**: whatever the instance was shown before - in particular the very
same token while it was still inside its window - once `exp + leeway < now` the instance refuses it. -/
theorem refused_after_expiry_whatever_was_seen (keys : Keys) (hist : List (ParsedToken × Nat)) (t : ParsedToken)
    (now : Nat) (hnow : leeway ≤ now) (hmax : now + leeway ≤ u64Max) (cs : List (String × JVal))
    (hpay : t.payload = .obj cs) (n : Nat) (he : lookup cs "exp" = some (.num (.u64 n))) (h : n + leeway < now) :
    ∃ e, (((⟨generatedValidation, keys⟩ : Instance).run hist).1.present t now).2 = .error e := by
  rw [verdict_history_independent]
  have hr := expired_rejected keys t now hnow hmax cs hpay n he h
  unfold accept at hr
  cases hv : verify generatedValidation keys t now with
  | ok c => simp [hv] at hr
  | error e => exact ⟨e, rfl⟩

/-- **Refused once is not refused for ever**: a token that satisfies the property's condition at `now` is accepted
at `now`, whatever the instance answered before (e.g. "not yet valid" while the clock was before `nbf - leeway`). -/
theorem accepted_when_valid_whatever_was_seen (keys : Keys) (hist : List (ParsedToken × Nat)) (t : ParsedToken)
    (now : Nat) (hnow : leeway ≤ now) (hmax : now + leeway ≤ u64Max) (hs : Spec leeway keys t now) :
    ∃ c, (((⟨generatedValidation, keys⟩ : Instance).run hist).1.present t now).2 = .ok c := by
  rw [verdict_history_independent]
  have ha := (accept_iff_spec keys t now hnow hmax).mpr hs
  unfold accept at ha
  cases hv : verify generatedValidation keys t now with
  | ok c => exact ⟨c, rfl⟩
  | error e => simp [hv] at ha

/-! ## 4. Non-vacuity, and the defect that was repaired -/

/-- a key configuration: static key 0, a JWKS store with one entry, all keys Ed25519 -/
def exKeys : Keys := { static := 0, jwks := some [("ssr-key-1", 2)], edKey := fun _ => true }

/-- a legacy (v0) token signed by the static key -/
def exV0 (exp : Nat) : ParsedToken where
  alg := "EdDSA"
  kid := none
  sigB64 := true
  sigOkUnder := fun k => k == 0
  payload := .obj [("pssid", .str "67e55044-10b1-426f-9247-bb680e5fe0c8"), ("exp", .num (.u64 exp)),
    ("jti", .str "j")]

/-- a v1 token with `kid`, signed by the JWKS key -/
def exV1 (exp nbf : Nat) : ParsedToken where
  alg := "EdDSA"
  kid := some "ssr-key-1"
  sigB64 := true
  sigOkUnder := fun k => k == 2
  payload := .obj [("ver", .num (.u64 1)), ("iss", .str "ssr"), ("aud", .str "snap"), ("exp", .num (.u64 exp)),
    ("nbf", .num (.u64 nbf)), ("iat", .num (.u64 nbf)), ("jti", .str "j"), ("pssid", .str "ABI-RWfomxLTpFZCZhQXQAA")]

/-- the hypotheses of `accept_iff_spec` are satisfiable and both sides can be true: valid tokens of both
versions are accepted, at the very edge of the window (`exp = now − leeway`, `nbf = now + leeway`) -/
example : accept generatedValidation exKeys (exV0 1700000000) (1700000000 + leeway) = true := by decide +kernel
example : accept generatedValidation exKeys (exV1 1700003600 (1700000000 + leeway)) 1700000000 = true := by
  decide +kernel
example : Spec leeway exKeys (exV1 1700003600 (1700000000 + leeway)) 1700000000 :=
  (accept_iff_spec exKeys _ 1700000000 (by decide) (by decide)).mp (by decide +kernel)
/-- … and one second outside the window they are refused -/
example : accept generatedValidation exKeys (exV0 1700000000) (1700000000 + leeway + 1) = false := by
  decide +kernel
example : accept generatedValidation exKeys (exV1 1700003600 (1700000000 + leeway + 1)) 1700000000 = false := by
  decide +kernel
/-- the granted lifetime of an accepted token: `exp − now` -/
example : lifetime 1700003600 1700000000500000000 = .granted 3599500000000 := by decide +kernel

/-- the over-time theorems are not vacuous: the same instance accepts a v0 token at the last second of its window
and, after that presentation, refuses the same token one second later; a v1 token refused one second before
`nbf - leeway` is accepted from `nbf - leeway` on -/
example :
    let v : Instance := ⟨generatedValidation, exKeys⟩
    let t := exV0 1700000000
    (v.run [(t, 1700000000 + leeway), (t, 1700000000 + leeway + 1)]).2.map
      (fun r => match r with | .ok _ => true | .error _ => false) = [true, false] := by decide +kernel
example :
    let v : Instance := ⟨generatedValidation, exKeys⟩
    let t := exV1 1700003600 (1700000000 + leeway)
    (v.run [(t, 1700000000 - 1), (t, 1700000000)]).2.map
      (fun r => match r with | .ok _ => true | .error _ => false) = [false, true] := by decide +kernel

/-- **What was wrong before the fix** (jsonwebtoken leaves `validate_nbf` off by default): with
`validateNbf := false` – the configuration `build_validation()` used to produce – a v1 token whose
not-before time lies beyond `now + leeway` (e.g. an hour in the future) is accepted, contradicting
`NotBeforeOk`.  Reproduced on the real code by `hx_token` (`probe nbf=now+3600`) before commit
`fix: SNAP token verifier must enforce the not-before claim`; on the fixed tree `immature_rejected`
holds instead. -/
theorem nbf_unchecked_witness :
    accept { generatedValidation with validateNbf := false } exKeys
        (exV1 (1700007200 + leeway) (1700000000 + leeway + 1)) 1700000000 = true ∧
    ¬ Spec leeway exKeys (exV1 (1700007200 + leeway) (1700000000 + leeway + 1)) 1700000000 := by
  refine ⟨by decide +kernel, ?_⟩
  rintro ⟨_, _, ⟨cs, hp, _, _, _, hnbf, _⟩⟩
  simp only [exV1, Payload.obj.injEq] at hp
  subst hp
  obtain ⟨n, hn, hle⟩ := hnbf (.num (.u64 (1700000000 + leeway + 1))) (by decide +kernel)
  simp only [timeValue, Option.some.injEq] at hn
  subst hn
  omega

end ScionVerif.Token
