import ScionVerif.Lemmas.Codec
/-!
# C02 — parsing untrusted bytes is total and memory-safe

Property theorems over `Model/Layout.lean` (size computation of every view, `View::has_required_size`)
and `Model/Access.lean` (byte intervals touched by every accessor / mutator), with all offsets, sizes and
tables taken from `Generated/Layout.lean` / `Generated/AddrType.lean` (re-extracted from the Rust source on
every run).  All statements quantify over **every** byte string of every length.

What is *not* proved here: that the Rust accessor touches exactly the modelled byte interval and that the
Rust size computation is the modelled one – both are validated by the correspondence harness
(`hx_codec --prop C02`: exhaustive size-field cross product × every truncation point, every accessor on a
view placed flush against the end of an exact-size allocation).
-/
namespace ScionVerif.Layout
open ScionVerif ScionVerif.Generated.Layout ScionVerif.Generated.AddrType

/-! ## 1. the reported size never exceeds the input -/

theorem packet_size_le (buf : Bytes) (l : HdrLayout) : min (l.headerLen + l.payloadLen) buf.length ≤ buf.length :=
  Nat.min_le_right _ _

/-- **size_le_input**: for every view kind and every byte string, an accepted view's size is at most the
input length (so `split_at_unchecked(size)` in `View::try_from_slice` is in bounds). -/
theorem size_le_input (k : ViewKind) (b : Bytes) (n : Nat) (h : requiredSize k b = .ok n) : n ≤ b.length := by
  cases k with
  | header =>
    simp only [requiredSize, Header.requiredSize] at h
    split at h
    · rename_i l hl; injection h with h; subst h; exact Header.layout_le b l hl
    · contradiction
  | stdPath => exact ((StdPath.requiredSize_ok_iff b n).1 h).2.2
  | oneHop => have := (fixed_ok_iff _ _ b n).1 h; omega
  | infoField => have := (fixed_ok_iff _ _ b n).1 h; omega
  | hopField => have := (fixed_ok_iff _ _ b n).1 h; omega
  | rawPacket =>
    simp only [requiredSize, RawPacket.requiredSize] at h
    split at h
    · injection h with h; subst h; exact Nat.min_le_right _ _
    · contradiction
  | udpPacket =>
    simp only [requiredSize, UdpPacket.requiredSize] at h
    split at h
    · split at h
      · injection h with h; subst h; exact Nat.min_le_right _ _
      · contradiction
    · contradiction
  | scmpPacket =>
    simp only [requiredSize, ScmpPacket.requiredSize] at h
    split at h
    · split at h
      · injection h with h; subst h; exact Nat.min_le_right _ _
      · contradiction
    · contradiction
  | udp => have := (Udp.requiredSize_ok_iff b n).1 h; omega
  | scmp =>
    have hm := Scmp.min_le b n h
    simp only [requiredSize] at h
    rw [Scmp.requiredSize_eq b hm] at h
    have := (ScmpMsg.requiredSize_ok_iff _ b n).1 h
    split at this <;> omega
  | scmpMsg i =>
    have := (ScmpMsg.requiredSize_ok_iff _ b n).1 h
    split at this <;> omega

example : (requiredSize .header
    [0,0,0,1, 17,9,0,0, 0,0,0,0,  0,1,0,0,0,0,0,1, 0,1,0,0,0,0,0,2, 10,0,0,1, 10,0,0,2, 0xff]).toOption = some 36 := by decide

/-! ## 2. totality: the size computation never panics / never reads outside the checked prefix -/

/-- **total / fields_before_check**: no view's size computation returns `.panic`.  In the model a field read
(`rd`) yields `.panic` exactly when its containing byte range leaves the slice the Rust code holds at that
point (`common_buf`, `path_meta_buf`, the UDP / SCMP header) – the `debug_assert!` of
`unchecked_bit_range_be_read`, UB in release.  Hence: every field read while computing a size lies inside
the prefix whose presence was checked before, for every input of every length.  Termination is by
construction (the functions are non-recursive total Lean definitions). -/
theorem total (k : ViewKind) (b : Bytes) : requiredSize k b ≠ .error .panic := by
  cases k with
  | header =>
    simp only [requiredSize, Header.requiredSize]
    have := Header.layout_no_panic b
    split
    · simp
    · rename_i e he; intro h; injection h with h; subst h; exact this he
  | stdPath => exact StdPath.no_panic b
  | oneHop => exact fixed_no_panic _ _ b
  | infoField => exact fixed_no_panic _ _ b
  | hopField => exact fixed_no_panic _ _ b
  | rawPacket =>
    simp only [requiredSize, RawPacket.requiredSize]
    have := Header.layout_no_panic b
    split
    · simp
    · rename_i e he; intro h; injection h with h; subst h; exact this he
  | udpPacket =>
    simp only [requiredSize, UdpPacket.requiredSize]
    have := Header.layout_no_panic b
    split
    · rename_i l hl
      have hu := Udp.no_panic (packetPayload b l)
      split
      · simp
      · rename_i e he; intro h; injection h with h; subst h; exact hu he
    · rename_i e he; intro h; injection h with h; subst h; exact this he
  | scmpPacket =>
    simp only [requiredSize, ScmpPacket.requiredSize]
    have := Header.layout_no_panic b
    split
    · rename_i l hl
      have hu := Scmp.no_panic (packetPayload b l)
      split
      · simp
      · rename_i e he; intro h; injection h with h; subst h; exact hu he
    · rename_i e he; intro h; injection h with h; subst h; exact this he
  | udp => exact Udp.no_panic b
  | scmp => exact Scmp.no_panic b
  | scmpMsg i => exact ScmpMsg.no_panic _ b

/-- alias of `total` (the name used in DESIGN.md); not a separate result -/
theorem fields_before_check (k : ViewKind) (b : Bytes) : requiredSize k b ≠ .error .panic := total k b

/-! ## 3. a view re-parses to itself -/

theorem packetPayload_take (b : Bytes) (l : HdrLayout) (h : l.headerLen ≤ b.length) :
    packetPayload (b.take (min (l.headerLen + l.payloadLen) b.length)) l = packetPayload b l := by
  unfold packetPayload payloadRange
  simp only [List.length_take]
  rw [List.drop_take, List.take_take]
  congr 1
  omega

theorem ScmpMsg.requiredSize_take (k : ScmpKindRow) (b : Bytes) (n : Nat) (h : ScmpMsg.requiredSize k b = .ok n) :
    ScmpMsg.requiredSize k (b.take n) = .ok n ∧ k.headerSize ≤ n ∧ n ≤ b.length := by
  obtain ⟨h1, h2⟩ := (ScmpMsg.requiredSize_ok_iff _ b n).1 h
  cases hv : k.varLen
  · simp only [hv] at h2
    have h2' : n = k.headerSize := by simpa using h2
    refine ⟨(ScmpMsg.requiredSize_ok_iff _ _ n).2 ⟨by simp; omega, by simp [hv]; omega⟩, by omega, by omega⟩
  · simp only [hv, if_true] at h2
    refine ⟨(ScmpMsg.requiredSize_ok_iff _ _ n).2 ⟨by simp; omega, by simp [hv]; omega⟩, by omega, by omega⟩

/-- **reparse_idem**: the first `n` bytes of an accepted input are accepted again with the same size – the
sub-view accessors (`header()`, `payload()`, `udp()`, `scmp()`, `path()`), which re-derive sizes from the
view's own bytes on every call, therefore see the sizes validated at construction. -/
theorem reparse_idem (k : ViewKind) (b : Bytes) (n : Nat) (h : requiredSize k b = .ok n) :
    requiredSize k (b.take n) = .ok n := by
  cases k with
  | header =>
    simp only [requiredSize, Header.requiredSize] at h ⊢
    split at h
    · rename_i l hl; injection h with h; subst h
      rw [Header.layout_take b l l.headerLen hl (Nat.le_refl _)]
    · contradiction
  | stdPath =>
    obtain ⟨h1, h2, h3⟩ := (StdPath.requiredSize_ok_iff b n).1 h
    refine (StdPath.requiredSize_ok_iff _ n).2 ⟨by simp; omega, ?_, by simp; omega⟩
    rw [segFields_take _ _ _ (by omega)]; exact h2
  | oneHop =>
    obtain ⟨h1, rfl⟩ := (fixed_ok_iff _ _ b n).1 h
    exact (fixed_ok_iff _ _ _ _).2 ⟨by simp; omega, rfl⟩
  | infoField =>
    obtain ⟨h1, rfl⟩ := (fixed_ok_iff _ _ b n).1 h
    exact (fixed_ok_iff _ _ _ _).2 ⟨by simp; omega, rfl⟩
  | hopField =>
    obtain ⟨h1, rfl⟩ := (fixed_ok_iff _ _ b n).1 h
    exact (fixed_ok_iff _ _ _ _).2 ⟨by simp; omega, rfl⟩
  | rawPacket =>
    simp only [requiredSize, RawPacket.requiredSize] at h ⊢
    split at h
    · rename_i l hl; injection h with h; subst h
      have hle := Header.layout_le b l hl
      rw [Header.layout_take b l _ hl (by omega)]
      simp only [List.length_take]
      congr 1; omega
    · contradiction
  | udpPacket =>
    simp only [requiredSize, UdpPacket.requiredSize] at h ⊢
    split at h
    · rename_i l hl
      split at h
      · rename_i m hm; injection h with h; subst h
        have hle := Header.layout_le b l hl
        rw [Header.layout_take b l _ hl (by omega)]
        simp only [packetPayload_take b l hle, hm, List.length_take]
        congr 1; omega
      · contradiction
    · contradiction
  | scmpPacket =>
    simp only [requiredSize, ScmpPacket.requiredSize] at h ⊢
    split at h
    · rename_i l hl
      split at h
      · rename_i m hm; injection h with h; subst h
        have hle := Header.layout_le b l hl
        rw [Header.layout_take b l _ hl (by omega)]
        simp only [packetPayload_take b l hle, hm, List.length_take]
        congr 1; omega
      · contradiction
    · contradiction
  | udp =>
    obtain ⟨h1, h2, h3⟩ := (Udp.requiredSize_ok_iff b n).1 h
    have hn : UdpDatagram.HEADER_SIZE_BYTES ≤ n := by omega
    have hr : readBits (b.take n) UdpDatagram.LENGTH_RNG = readBits b UdpDatagram.LENGTH_RNG :=
      readBits_take b _ n (by decide) (Nat.le_trans (by decide) hn)
    refine (Udp.requiredSize_ok_iff _ n).2 ⟨by simp; omega, by rw [hr]; exact h2, ?_⟩
    rw [hr]; simp; omega
  | scmp =>
    have hm := Scmp.min_le b n h
    simp only [requiredSize] at h ⊢
    rw [Scmp.requiredSize_eq b hm] at h
    have hwf := (scmpKinds_wf _ (scmpRow_mem (readBits (b.take scmpMinSize) ScmpMessage.TYPE_RNG))).1
    obtain ⟨h1, h2, h3⟩ := ScmpMsg.requiredSize_take _ b n h
    rw [Scmp.requiredSize_eq _ (by simp; omega), List.take_take, Nat.min_eq_left (by omega)]
    exact h1
  | scmpMsg i => exact (ScmpMsg.requiredSize_take _ b n h).1

/-! ## 4. payload truncation -/

/-- **payload_truncation**: on a packet view of `n` bytes whose header announces `headerLen` and `payloadLen`,
`payload()` is the interval `[headerLen, headerLen + min(payloadLen, n - headerLen))`; for a view accepted from
`b` it ends exactly at the end of the view (`= n ≤ b.length`) and is exactly the part of the announced payload
that is present in the input. -/
theorem payload_truncation (b : Bytes) (l : HdrLayout) (n : Nat)
    (hl : Header.layout b = .ok l) (hn : RawPacket.requiredSize b = .ok n) :
    payloadRange n l.headerLen l.payloadLen =
      (l.headerLen, l.headerLen + min l.payloadLen (n - l.headerLen)) ∧
    l.headerLen + min l.payloadLen (n - l.headerLen) = n ∧ n ≤ b.length ∧
    min l.payloadLen (n - l.headerLen) = min l.payloadLen (b.length - l.headerLen) := by
  have hle := Header.layout_le b l hl
  simp only [RawPacket.requiredSize, hl] at hn
  injection hn with hn
  subst hn
  refine ⟨rfl, ?_, ?_, ?_⟩ <;> omega

example : (RawPacket.requiredSize
    [0,0,0,1, 17,9,0,200, 0,0,0,0,  0,1,0,0,0,0,0,1, 0,1,0,0,0,0,0,2, 10,0,0,1, 10,0,0,2, 0xff, 0xee]).toOption = some 38 := by decide


/-! ## 5. every accessor and mutator touches only bytes of the view -/

open ScionVerif.Access in
/-- **access_in_bounds**: if a view of kind `k` is accepted from `b` with size `n`, then every byte interval
`[lo, hi)` read or written by any pub accessor / mutator of that view (`Model/Access.lean`: field getters and
setters, host addresses, `path()`, info/hop fields by index and as slices, `header()`, `payload()`, `udp()`,
`scmp()`, message data, …; sub-view accessors included, all evaluated on the view's own bytes `b.take n`) is
well-formed and ends inside the view: `lo ≤ hi ≤ n` (and `n ≤ b.length` by `size_le_input`). -/
theorem access_in_bounds (k : ViewKind) (b : Bytes) (n : Nat) (h : requiredSize k b = .ok n) :
    ∀ a ∈ accessors k (b.take n), ∀ r ∈ a.ranges, r.1 ≤ r.2 ∧ r.2 ≤ n := by
  have hle := size_le_input k b n h
  have hv := reparse_idem k b n h
  have hlen : (b.take n).length = n := by simp; omega
  have := access_in_bounds_view k (b.take n) (by rw [hlen]; exact hv)
  rw [hlen] at this
  exact this


/-! ## 6. safe mutators keep the size; mutator sequences of any length stay in bounds -/

open ScionVerif.Access in
/-- **mutator_preserves_size**: a write `r := x` on an accepted view that lies inside the view and shares no
bit with a size-determining field (`protectedRanges`: version, header length, payload length, path type,
address type nibbles, the three segment lengths, UDP length / SCMP type of a typed packet) leaves
`has_required_size` of the view unchanged – for every view kind, every accepted input, every value. -/
theorem mutator_preserves_size (k : ViewKind) (b : Bytes) (n : Nat) (h : requiredSize k b = .ok n)
    (r : BitRange) (x : Nat) (hn : sizeNeutral k (b.take n) r) :
    requiredSize k (writeBits (b.take n) r x) = .ok n := by
  have hle := size_le_input k b n h
  have hlen : (b.take n).length = n := by simp; omega
  have := write_preserves_size_view k (b.take n) r x (by rw [hlen]; exact reparse_idem k b n h) hn
  rwa [hlen] at this

open ScionVerif.Access in
/-- **safe_setters_preserve_size**: every *safe* setter of the crate keeps the size.  `safeSetterRanges k v` is
computed from `Generated/Setters.lean`, the table of **all** setters the translator finds in the view sources
(`gen_field_write!` / `gen_field_read_and_write!` / `pub fn set_*` = safe, `gen_unsafe_field_write!` /
`pub unsafe fn set_*` = unsafe): the safe setters of the view type itself and of every sub-view a safe `…_mut()`
accessor hands out over the same bytes (`path_mut`, `header_mut`, `message_mut`, info / hop fields), plus every
byte written through a mutable slice handed out by a safe accessor (`payload_mut`, `data_mut`,
`offending_packet_mut`, `message_specific_data_mut`, unsupported path bytes).  Two safe setters are *excluded*
(`Access.exemptSetters`: `ScionHeaderView::set_version`, `UdpDatagramView::set_length` – they do write a field
that `has_required_size` reads; harness probes only).  A setter that turns safe in the source enters
`safeSetterRanges` on the next run and this proof is re-checked against it. -/
theorem safe_setters_preserve_size (k : ViewKind) (b : Bytes) (n : Nat) (h : requiredSize k b = .ok n)
    (r : BitRange) (hr : r ∈ safeSetterRanges k (b.take n)) (r' : BitRange) (hsub : BitRange.sub r' r) (x : Nat) :
    requiredSize k (writeBits (b.take n) r' x) = .ok n := by
  have hle := size_le_input k b n h
  have hlen : (b.take n).length = n := by simp; omega
  have hv : requiredSize k (b.take n) = .ok (b.take n).length := by rw [hlen]; exact reparse_idem k b n h
  exact mutator_preserves_size k b n h r' x (safe_setters_neutral k (b.take n) hv r hr r' hsub)

/-- the hypotheses are satisfiable: `set_code` through the typed view of an accepted 8-byte unknown SCMP message -/
example : (requiredSize .scmp [200, 0, 0, 0, 0, 0, 0, 0]).toOption = some 8 ∧
    (⟨8, 16⟩ : BitRange) ∈ Access.safeSetterRanges .scmp ([200, 0, 0, 0, 0, 0, 0, 0].take 8) := by decide

/-! ### the extracted setter table: classification and completeness -/

/-- size-determining bit ranges per Rust view type, relative to the start of that view (the typed SCMP message
views are handed out over the bytes of a `ScmpPayloadView`, whose size depends on the type byte) -/
def staticProtected (view : String) : List BitRange :=
  if view == "ScionHeaderView" then
    [CommonHeader.VERSION_RNG, CommonHeader.HEADER_LEN_RNG, CommonHeader.PAYLOAD_LEN_RNG, CommonHeader.PATH_TYPE_RNG,
     CommonHeader.DST_ADDR_INFO_RNG, CommonHeader.SRC_ADDR_INFO_RNG]
  else if view == "StandardPathView" then [StdPathMeta.SEG0_LEN_RNG, StdPathMeta.SEG1_LEN_RNG, StdPathMeta.SEG2_LEN_RNG]
  else if view == "UdpDatagramView" then [UdpDatagram.LENGTH_RNG]
  else if ("ScmpPayloadView" :: scmpKinds.map Access.msgViewName).contains view then [ScmpMessage.TYPE_RNG]
  else []

open ScionVerif.Generated.Setters in
/-- **generated_setter_classification**: in the current source a setter writes a size-determining field **iff**
it is an `unsafe fn` or one of the two documented exemptions; every other setter shares no bit with any
size-determining field of its view.  Decided on the table extracted from the source on this run.
(Before the fix of `ScmpUnknownMessageView::set_message_type` – a safe fn writing the type byte – this was
false.) -/
theorem generated_setter_classification : ∀ s ∈ setters,
    ((s.safe = false ∨ (s.view, s.name) ∈ Access.exemptSetters) ↔ s.range ∈ staticProtected s.view) ∧
    (s.range ∉ staticProtected s.view → ∀ p ∈ staticProtected s.view, s.range.disjoint p) := by decide

open ScionVerif.Generated.Setters in
/-- **generated_mut_fns_modelled**: the view sources contain no *safe* `pub fn f(&mut self ..)` other than the
field setters above and the functions listed (with their treatment) in `Access.modelledMutFns`; a new safe
mutable accessor makes this fail until it is modelled. -/
theorem generated_mut_fns_modelled : ∀ f ∈ mutFns, f.safe = true → (f.view, f.name) ∈ Access.modelledMutFns := by
  decide

open ScionVerif.Access in
/-- **mutator_sequence_in_bounds**: after *any* finite sequence of size-neutral writes (each judged on the
bytes it is applied to) the view still has the size validated at construction and every accessor of the
mutated view is still inside the view.  Induction over the sequence – no bound on its length. -/
theorem mutator_sequence_in_bounds (k : ViewKind) (b : Bytes) (n : Nat) (h : requiredSize k b = .ok n)
    (ws : List (BitRange × Nat)) (hn : NeutralSeq k (b.take n) ws) :
    requiredSize k (applyWrites (b.take n) ws) = .ok n ∧
    ∀ a ∈ accessors k (applyWrites (b.take n) ws), ∀ r ∈ a.ranges, r.1 ≤ r.2 ∧ r.2 ≤ n := by
  have hle := size_le_input k b n h
  have hlen : (b.take n).length = n := by simp; omega
  have hv : requiredSize k (b.take n) = .ok (b.take n).length := by rw [hlen]; exact reparse_idem k b n h
  obtain ⟨h1, h2⟩ := writes_preserve_size_view k (b.take n) ws hv hn
  rw [hlen] at h1 h2
  refine ⟨h2, ?_⟩
  have := access_in_bounds_view k (applyWrites (b.take n) ws) (by rw [h1]; exact h2)
  rwa [h1] at this

/-- **reverse_preserves_size**: `StandardPathView::try_reverse` permutes the three segment lengths
(`(a,b,0) ↦ (b,a,0)`, `(a,b,c) ↦ (c,b,a)`) and rewrites bytes in place; any in-place rewrite whose segment
lengths are such a permutation of the accepted ones keeps the size.  (That `try_reverse` and `advance_*` are
in-place rewrites of that shape is their byte-level model in C11/C12 and is observed by the harness on
every mutator sequence.) -/
theorem reverse_preserves_size (v v' : Bytes) (h : StdPath.requiredSize v = .ok v.length)
    (hlen : v'.length = v.length)
    (hperm : segFields v' 0 = segFields v 0 ∨
             segFields v' 0 = ((segFields v 0).2.1, (segFields v 0).1, (segFields v 0).2.2) ∨
             segFields v' 0 = ((segFields v 0).2.2, (segFields v 0).2.1, (segFields v 0).1)) :
    StdPath.requiredSize v' = .ok v'.length := by
  obtain ⟨h1, h2, h3⟩ := (StdPath.requiredSize_ok_iff v _).1 h
  refine (StdPath.requiredSize_ok_iff v' _).2 ⟨by omega, ?_, Nat.le_refl _⟩
  rw [hlen]
  rcases hperm with e | e | e <;> rw [e]
  · exact h2
  · show v.length = _ + stdDataSize (segFields v 0).2.1 (segFields v 0).1 (segFields v 0).2.2
    rw [Access.stdDataSize_swap01]; exact h2
  · show v.length = _ + stdDataSize (segFields v 0).2.2 (segFields v 0).2.1 (segFields v 0).1
    rw [Access.stdDataSize_swap02]; exact h2

end ScionVerif.Layout
