import ScionVerif.Lemmas.StdPath
/-!
# C12 — views and models agree; a failed operation leaves its operand untouched

Property theorems over `Model/StdPath.lean` / `Model/OneHop.lean` (bit ranges, sizes, limits and flag bits
from `Generated/StdPath.lean`, i.e. from the Rust source as it is now).  Helper lemmas, in particular the
proof that the view constructor `ofBytes` and `toBytes` are mutually inverse on accepted buffers
(`ofBytes_toBytes`, `toBytes_ofBytes`), are in `Lemmas/StdPath.lean`.

* **Atomicity / totality** is stated for *every* structured state and, through the bijection, for every
  byte string the view constructor accepts – also the semantically invalid ones (zero-length middle
  segment, pointers out of range, single-hop segments, more than 64 hop fields).
* **Agreement** is stated for every model the encoder accepts (`wireValid`), at every position.

The model mirrors the code *after* the repairs `fix: StandardPathView::try_reverse must validate …`,
`fix: OneHopPathView::expiration must saturate …`, `fix: one-hop set_second_hop …` (see
`known_findings/C12.json`); the order of effects before the first repair is kept as `reverseViewPreFix`
with a witness theorem.
-/
namespace ScionVerif.StdPath
open ScionVerif.Generated.StdPath

/-! ## 1. A failed operation leaves its operand untouched -/

/-- **View, structured state.**  Whatever the state (any pointers, any segment table), an error from
`try_reverse` returns the state it was called on. -/
theorem fail_atomic_view (p p' : PathV) (e : RevErr) (h : reverseView p = (p', .error e)) : p' = p := by
  unfold reverseView at h
  repeat' split at h
  all_goals simp only [Prod.mk.injEq, reduceCtorEq, and_false] at h
  all_goals exact h.1.symm

/-- **View, bytes.**  For every buffer `b` the view constructor accepts (with any trailing bytes): if
`try_reverse` reports an error, the buffer is byte-for-byte what it was. -/
theorem fail_atomic_view_bytes (b b' : Bytes) (e : RevErr) (h : onBytes reverseView b = some (b', .error e)) :
    b' = b := by
  unfold onBytes at h
  split at h
  · simp at h
  · rename_i p rest hp
    simp only [Option.some.injEq, Prod.mk.injEq] at h
    obtain ⟨hb, he⟩ := h
    have : reverseView p = ((reverseView p).1, .error e) := by rw [← he]
    rw [fail_atomic_view p _ e this] at hb
    rw [← hb]; exact (toBytes_ofBytes b p rest hp).1

/-- **Model.**  `StandardPath::try_reverse` returning an error leaves the model as it was. -/
theorem fail_atomic_model (m m' : PathM) (e : RevErr) (h : reverseModel m = (m', .error e)) : m' = m := by
  unfold reverseModel at h
  repeat' split at h
  all_goals simp only [Prod.mk.injEq, reduceCtorEq, and_false] at h
  all_goals exact h.1.symm

/-- The repaired defect (DESIGN §9 row 3), as a theorem about the order of effects *before* the fix:
with `CurrINF = 0, CurrHF = 63`, segments `(1, 2, 0)` the old code returned an error **and** a state
whose segment lengths were swapped (meta header `3f001080 → 3f002040`).  Replayed on the real code by
`corpus/C12/010-*.case`. -/
theorem fail_atomic_view_prefix_witness :
    ∃ p p' e, reverseViewPreFix p = (p', .error e) ∧ p' ≠ p ∧ p.seg0 = 1 ∧ p.seg1 = 2 ∧ p'.seg0 = 2 ∧ p'.seg1 = 1 :=
  ⟨⟨0, 63, 0, 1, 2, 0, [], []⟩, ⟨0, 63, 0, 2, 1, 0, [], []⟩, .hopOob, rfl, by decide, rfl, rfl, rfl, rfl⟩

/-- **`ScionPath::try_reverse`.**  The data-plane path is reversed first; if that fails nothing else
(endpoints, next hop, metadata, fingerprints) has been touched, so with the atomic view reversal the whole
`ScionPath` is unchanged.  Metadata reversal and the fingerprints are arbitrary functions. -/
theorem fail_atomic_scionpath {Meta FP : Type} (revMeta : Meta → Meta) (fpOf : PathV → Nat → Nat → FP)
    (s s' : ScionPathS Meta FP) (e : RevErr) (h : scionPathTryReverse revMeta fpOf s = (s', .error e)) : s' = s := by
  unfold scionPathTryReverse at h
  split at h
  · rename_i dp' e' hr
    simp only [Prod.mk.injEq, Except.error.injEq] at h
    rw [← h.1, fail_atomic_view s.dp dp' e' hr]
  · simp at h

/-- **Atomicity of the statement sequences.**  `reverseViewImp` / `reverseModelImp` run the Rust statements of
`StandardPathView::try_reverse` / `StandardPath::try_reverse` in source order with the receiver threaded through
(an exit returns the receiver as written so far – *not* the input by construction); they compute the summaries
(`reverseViewImp_eq`, `reverseModelImp_eq`), hence an `Err` hands back the receiver the call started from. -/
theorem fail_atomic_imp (p p' : PathV) (m m' : PathM) (e : RevErr) :
    (reverseViewImp.run p = (p', .error e) → p' = p) ∧ (reverseModelImp.run m = (m', .error e) → m' = m) :=
  ⟨fun h => fail_atomic_view p p' e (by rw [← reverseViewImp_eq]; exact h),
   fun h => fail_atomic_model m m' e (by rw [← reverseModelImp_eq]; exact h)⟩

/-- the statement order before the repair, as a statement sequence: the segment lengths are written first -/
def reverseViewPreFixImp : Imp PathV (Except RevErr Unit) (Except RevErr Unit) := do
  let s ← Imp.get
  if s.seg0 = 0 then Imp.exit (.error .noSegments) else do
  Imp.write fun t => { t with seg0 := (reversedState s).seg0, seg1 := (reversedState s).seg1, seg2 := (reversedState s).seg2 }
  if s.seg0 + s.seg1 + s.seg2 ≤ s.currHf then Imp.exit (.error .hopOob) else
  if segCountNZ s.seg1 s.seg2 ≤ s.currInf then Imp.exit (.error .infoOob) else do
  Imp.write fun _ => reversedState s
  pure (.ok ())

/-- …and the statement-sequence form is *not* atomic for that order: the write in front of the exits shows in the
receiver that comes back with the `Err` -/
theorem fail_atomic_prefix_imp_witness :
    ∃ p p' e, reverseViewPreFixImp.run p = (p', .error e) ∧ p' ≠ p :=
  ⟨⟨0, 63, 0, 1, 2, 0, [], []⟩, ⟨0, 63, 0, 2, 1, 0, [], []⟩, .hopOob, rfl, by decide⟩

/-- **The order of effects is the one in the Rust source as it is now.**  The translator re-extracts, on every run,
the source order of early exits, panic sites and receiver writes of `StandardPathView::try_reverse`,
`StandardPath::try_reverse` and `ScionPath::try_reverse`; it equals the order mirrored by the statement sequences,
and in it every exit precedes every write (a write moved in front of a `?` / `return Err` changes the generated
list and breaks this theorem). -/
theorem effects_tie :
    reverseViewImp.effects = EFFECTS_VIEW_TRY_REVERSE ∧ reverseModelImp.effects = EFFECTS_MODEL_TRY_REVERSE ∧
    scionPathTryReverse.effects = EFFECTS_SCIONPATH_TRY_REVERSE ∧
    exitsBeforeWrites EFFECTS_VIEW_TRY_REVERSE = true ∧ exitsBeforeWrites EFFECTS_MODEL_TRY_REVERSE = true ∧
    exitsBeforeWrites EFFECTS_SCIONPATH_TRY_REVERSE = true := by
  decide

/-! ## 2. Reversal is its own inverse and preserves the logical position -/

theorem reverseView_ok (p p' : PathV) (h : reverseView p = (p', .ok ())) :
    p' = reversedState p ∧ p.seg0 ≠ 0 ∧ p.currHf < p.seg0 + p.seg1 + p.seg2 ∧ p.currInf < segCountNZ p.seg1 p.seg2 := by
  unfold reverseView at h
  repeat' split at h
  all_goals simp only [Prod.mk.injEq, reduceCtorEq, and_false, and_true] at h
  exact ⟨h.symm, by assumption, by omega, by omega⟩

/-- **Involution (structured state).**  On every state the view constructor can produce – malformed
segment tables and more than 64 hop fields included – a successful reversal followed by another one
succeeds and restores the state exactly. -/
theorem reverse_involutive (p p' : PathV) (hv : p.Valid) (h : reverseView p = (p', .ok ())) :
    reverseView p' = (p, .ok ()) := by
  obtain ⟨h1, h2, -⟩ := hv
  obtain ⟨rfl, z0, hh, hi⟩ := reverseView_ok p p' h
  simp only [META_CURR_INFO_FIELD_WIDTH, META_CURR_HOP_FIELD_WIDTH] at h1 h2
  cases p with | mk ci ch rsv s0 s1 s2 is hs =>
  simp only at h1 h2 z0 hh hi
  unfold reverseView reversedState segCountNZ
  unfold segCountNZ at hi
  simp only [META_CURR_INFO_FIELD_WIDTH, META_CURR_HOP_FIELD_WIDTH, map_toggle_reverse_twice, List.reverse_reverse]
  by_cases z1 : s1 = 0 <;> by_cases z2 : s2 = 0 <;> simp only [z0, z1, z2, if_true, if_false] at hi ⊢
  all_goals (repeat' split)
  all_goals first
    | (exfalso; omega)
    | (simp only [Prod.mk.injEq, and_true, PathV.mk.injEq]; omega)

theorem toggleCons_lt (f : Nat) (h : f < 2 ^ INFO_FLAGS_WIDTH) : toggleCons f < 2 ^ INFO_FLAGS_WIDTH := by
  unfold toggleCons
  exact Nat.xor_lt_two_pow h (by decide)

/-- a successful reversal keeps the state inside what the view constructor guarantees -/
theorem reversedState_valid (p : PathV) (hv : p.Valid) : (reversedState p).Valid := by
  obtain ⟨h1, h2, h3, h4, h5, h6, hi, hh, hiv, hhv⟩ := hv
  unfold reversedState
  refine ⟨Nat.mod_lt _ (Nat.pow_pos (by decide)), Nat.mod_lt _ (Nat.pow_pos (by decide)), h3, ?_, ?_, ?_, ?_, ?_, ?_, ?_⟩
  · simp only [META_SEG0_LEN_WIDTH, META_SEG1_LEN_WIDTH, META_SEG2_LEN_WIDTH] at *; (repeat' split) <;> omega
  · simp only [META_SEG0_LEN_WIDTH, META_SEG1_LEN_WIDTH, META_SEG2_LEN_WIDTH] at *; (repeat' split) <;> omega
  · simp only [META_SEG0_LEN_WIDTH, META_SEG1_LEN_WIDTH, META_SEG2_LEN_WIDTH] at *; (repeat' split) <;> omega
  · simp only [List.length_reverse, List.length_map, hi, PathV.infoCount, infoCount, b2n, decide_eq_true_eq]
    (repeat' split) <;> omega
  · simp only [List.length_reverse, hh, PathV.hopCount]
    (repeat' split) <;> omega
  · intro i hi'
    simp only [List.mem_reverse, List.mem_map] at hi'
    obtain ⟨j, hj, rfl⟩ := hi'
    obtain ⟨a, b, c, d⟩ := hiv j hj
    exact ⟨toggleCons_lt _ a, b, c, d⟩
  · intro h hh'
    exact hhv h (List.mem_reverse.1 hh')

/-- **Involution (bytes).**  For every accepted buffer: reverse, reverse again ⇒ the original bytes. -/
theorem reverse_involutive_bytes (b b' : Bytes) (h : onBytes reverseView b = some (b', .ok ())) :
    onBytes reverseView b' = some (b, .ok ()) := by
  unfold onBytes at h
  split at h
  · simp at h
  · rename_i p rest hp
    simp only [Option.some.injEq, Prod.mk.injEq] at h
    obtain ⟨hb, he⟩ := h
    obtain ⟨hbytes, hv⟩ := toBytes_ofBytes b p rest hp
    have hr : reverseView p = ((reverseView p).1, .ok ()) := by rw [← he]
    obtain ⟨e1, -, -, -⟩ := reverseView_ok p _ hr
    have hv' : (reverseView p).1.Valid := e1 ▸ reversedState_valid p hv
    have hinv := reverse_involutive p _ hv hr
    unfold onBytes
    rw [← hb, ofBytes_toBytes _ hv' rest]
    simp only [hinv, hbytes]

/-- **Position (hop field).**  When the pointer is representable (at most 64 hop fields) the new CurrHF
is the mirror image and designates the *same* hop field as before. -/
theorem reverse_preserves_position (p p' : PathV) (hv : p.Valid) (h64 : p.hopCount ≤ 2 ^ META_CURR_HOP_FIELD_WIDTH)
    (h : reverseView p = (p', .ok ())) :
    p'.currHf = p.hopCount - 1 - p.currHf ∧ p'.hops[p'.currHf]? = p.hops[p.currHf]? ∧ p'.hopCount = p.hopCount := by
  obtain ⟨rfl, -, hh, -⟩ := reverseView_ok p p' h
  obtain ⟨-, -, -, -, -, -, -, hlen, -⟩ := hv
  unfold PathV.hopCount at *
  have e : (reversedState p).currHf = p.seg0 + p.seg1 + p.seg2 - 1 - p.currHf := by
    simp only [reversedState, META_CURR_HOP_FIELD_WIDTH] at *; omega
  refine ⟨e, ?_, ?_⟩
  · rw [e]
    simp only [reversedState]
    rw [List.getElem?_reverse (by omega), hlen]
    congr 1; omega
  · simp only [reversedState]; (repeat' split) <;> omega

/-- **Position (info field).**  On a gap-free segment table the new CurrINF designates the same info
field (with CONS_DIR toggled). -/
theorem reverse_preserves_info (p p' : PathV) (hv : p.Valid) (hgap : p.seg1 = 0 → p.seg2 = 0)
    (h : reverseView p = (p', .ok ())) :
    p'.infos[p'.currInf]? = (p.infos[p.currInf]?).map InfoF.toggle := by
  obtain ⟨rfl, z0, -, hi⟩ := reverseView_ok p p' h
  obtain ⟨-, -, -, -, -, -, hlen, -⟩ := hv
  have hl : p.infos.length = segCountNZ p.seg1 p.seg2 := by
    rw [hlen]; unfold PathV.infoCount infoCount b2n segCountNZ
    simp only [decide_eq_true_eq]
    (repeat' split) <;> omega
  have hb : segCountNZ p.seg1 p.seg2 ≤ 3 := by unfold segCountNZ; (repeat' split) <;> omega
  simp only [reversedState, META_CURR_INFO_FIELD_WIDTH]
  rw [List.getElem?_reverse (by simp only [List.length_map]; omega), List.length_map, List.getElem?_map, hl]
  congr 2; omega

/-! ## 3. View and model agree on every model the encoder accepts -/

/-- `wire_valid` bounds the number of hop fields by what the 6-bit CurrHF field can address (/repo b07ca50) -/
theorem wireValid_hopCount (m : PathM) (hw : m.wireValid = true) : m.hopCount ≤ MAX_TOTAL_HOPS + 1 :=
  ((wireValid_iff m).1 hw).2.2.2.2.2.2.2

/-- **Reversal.**  For every wire-valid model `m`, at every position: both reversals succeed and
`encode (reverse m) = reverse (encode m)`. -/
theorem reverse_agree (m : PathM) (hw : m.wireValid = true) :
    ∃ m' v, reverseModel m = (m', .ok ()) ∧ m.encode = some v ∧
      reverseView v = (reversedState v, .ok ()) ∧ m'.encode = some (reversedState v) := by
  have h64 := wireValid_hopCount m hw
  refine ⟨mRev m, m.encodeUnchecked, reverseModel_of_wireValid m hw, by simp [PathM.encode, hw],
    reverseView_encode_ok m hw, ?_⟩
  cases m with | mk ci ch segs =>
  rcases wireValid_cases _ hw with ⟨a, h⟩ | ⟨a, b, h⟩ | ⟨a, b, c, h⟩
  · simp only at h; subst h; exact agree_one ci ch a hw h64
  · simp only at h; subst h; exact agree_two ci ch a b hw h64
  · simp only at h; subst h; exact agree_three ci ch a b c hw h64

/-- The repaired defect `C12:agree:reverse:over-64-hops` (fixed by /repo b07ca50): a model with 33 + 32 hop
fields at `current_hop_field = 0` used to be accepted by the encoder although its reversal
(`current_hop_field = 64`) cannot be encoded while the view over its encoding reverses; `wire_valid` now
rejects it (and its reversal).  Replayed on the real code by `corpus/C12/050-*.case`. -/
theorem reverse_agree_fixed_witness :
    let h : HopF := ⟨0, 0, 0, 0, 0⟩
    let i : InfoM := ⟨0, 0, 0⟩
    let m : PathM := ⟨0, 0, [⟨i, List.replicate 33 h⟩, ⟨i, List.replicate 32 h⟩]⟩
    m.wireValid = false ∧ (reverseModel m).2 = .ok () ∧ (reverseModel m).1.currHf = 64 ∧
      (reverseModel m).1.encode = none := by
  exact ⟨by decide, rfl, by decide, by decide⟩

/-- the segment iterator of the view over `encode m` yields the model's segments -/
theorem enc_segments (m : PathM) (hw : m.wireValid = true) :
    m.encodeUnchecked.segments = m.segs.map (fun s => (s.info.toV, s.hops)) := by
  obtain ⟨extra, -, h2, -⟩ := enc_segs m hw
  unfold PathV.segments
  rw [h2]
  have := iterSegs_encode m.segs [] []
  simp only [List.append_nil] at this ⊢
  have e : m.encodeUnchecked.infos = m.segs.map (·.info.toV) := by
    simp [PathM.encodeUnchecked, PathM.iterInfos, List.map_map]
  have e2 : m.encodeUnchecked.hops = (m.segs.map (·.hops)).flatten := rfl
  rw [e, e2]; exact this

/-- **Expiry.**  `StandardPathView::expiration` over the encoding never reaches its `expect` and returns
what `StandardPath::expiration` returns. -/
theorem expiry_agree (m : PathM) (hw : m.wireValid = true) :
    m.encodeUnchecked.expiration = some m.expiration := by
  obtain ⟨-, -, h3⟩ := (enc_segs m hw).choose_spec
  obtain ⟨-, -, hn0, -, -, hseg, -⟩ := (wireValid_iff m).1 hw
  unfold PathV.expiration PathM.expiration
  rw [h3, if_neg hn0, enc_segments m hw]
  exact expiryLoop_agree m.segs U32_MAX (fun s hs => (hseg s hs).2)

/-- **Queries.**  Hop-field count, info-field count, the three segment lengths, the hop-field and
info-field sequences and the segment iterator of the view over `encode m` are those of the model. -/
theorem queries_agree (m : PathM) (hw : m.wireValid = true) :
    m.encodeUnchecked.hopCount = m.hopCount ∧ m.encodeUnchecked.infoCount = m.infoCount ∧
    (m.encodeUnchecked.seg0, m.encodeUnchecked.seg1, m.encodeUnchecked.seg2) = (m.segLen 0, m.segLen 1, m.segLen 2) ∧
    m.encodeUnchecked.hops = m.iterHops ∧ m.encodeUnchecked.infos.map InfoF.toM = m.iterInfos ∧
    m.encodeUnchecked.segments.map (fun s => (s.1.toM, s.2)) = m.segs.map (fun s => (s.info, s.hops)) := by
  obtain ⟨-, -, -, -, -, hseg, -⟩ := (wireValid_iff _).1 hw
  have hsegs := enc_segments m hw
  cases m with | mk ci ch segs =>
  rcases wireValid_cases _ hw with ⟨a, h⟩ | ⟨a, b, h⟩ | ⟨a, b, c, h⟩
  all_goals
    simp only at h
    subst h
    simp only [MAX_SEGMENT_HOPS, List.mem_cons, List.not_mem_nil, or_false, forall_eq_or_imp, forall_eq] at hseg
    rw [hsegs]
    simp [PathM.encodeUnchecked, PathV.hopCount, PathV.infoCount, infoCount, b2n, PathM.hopCount, PathM.infoCount,
      PathM.segLen, PathM.iterInfos, PathM.iterHops, META_SEG0_LEN_WIDTH, META_SEG1_LEN_WIDTH, META_SEG2_LEN_WIDTH,
      InfoM.toV, InfoF.toM]
    first | omega | ((repeat' split) <;> omega)

/-- **Conversion, model → view → model.**  `from_view (encode m) = m` for every wire-valid model (since
/repo 6beb049 `wire_valid` rejects a current hop index that does not fit the 6-bit CurrHF field). -/
theorem convert_roundtrip (m : PathM) (hw : m.wireValid = true) : fromView m.encodeUnchecked = m := by
  obtain ⟨extra, h1, -, -⟩ := enc_segs m hw
  obtain ⟨-, hn3, -, -, hci, -, h64, -⟩ := (wireValid_iff m).1 hw
  unfold fromView
  rw [h1]
  have := fromViewSegs_encode m.segs extra []
  simp only [List.append_nil] at this
  have e : m.encodeUnchecked.infos = m.segs.map (·.info.toV) := by
    simp [PathM.encodeUnchecked, PathM.iterInfos, List.map_map]
  have e2 : m.encodeUnchecked.hops = (m.segs.map (·.hops)).flatten := rfl
  rw [e, e2, this]
  cases m with | mk ci ch segs =>
  simp only [PathM.encodeUnchecked, MAX_SEGMENTS, MAX_TOTAL_HOPS, META_CURR_INFO_FIELD_WIDTH, META_CURR_HOP_FIELD_WIDTH] at *
  congr 1 <;> omega

/-- `v` with the reserved bits of the meta header and of every info field cleared -/
def clearRsv (v : PathV) : PathV := { v with rsv := 0, infos := v.infos.map (fun i => { i with rsv := 0 }) }

theorem toV_toM (i : InfoF) : i.toM.toV = { i with rsv := 0 } := rfl

theorem take_drop_three (hs : List HopF) (a b c : Nat) (h : hs.length = a + b + c) :
    hs.take a ++ ((hs.drop a).take b ++ ((hs.drop a).drop b).take c) = hs := by
  have h3 : ((hs.drop a).drop b).take c = (hs.drop a).drop b := by
    apply List.take_of_length_le; simp only [List.length_drop]; omega
  rw [h3, List.take_append_drop, List.take_append_drop]

/-- **Conversion, view → model → view.**  If the model read from a view is accepted by the encoder, encoding
it reproduces the view up to the reserved bits (which the model does not carry). -/
theorem convert_roundtrip_view (v : PathV) (hv : v.Valid) (hw : (fromView v).wireValid = true) :
    (fromView v).encodeUnchecked = clearRsv v := by
  obtain ⟨h1, h2, h3, h4, h5, h6, hi, hh, -, -⟩ := hv
  obtain ⟨-, -, hn0, hch, hci, hseg, -⟩ := (wireValid_iff _).1 hw
  cases v with | mk ci ch rsv s0 s1 s2 is hs =>
  simp only [PathV.infoCount, infoCount, b2n, PathV.hopCount, decide_eq_true_eq,
    META_CURR_INFO_FIELD_WIDTH, META_CURR_HOP_FIELD_WIDTH, META_SEG0_LEN_WIDTH, META_SEG1_LEN_WIDTH, META_SEG2_LEN_WIDTH] at *
  simp only [fromView, MAX_SEGMENT_HOPS] at hn0 hch hci hseg ⊢
  match is, hi with
  | [], _ => simp [fromViewSegs] at hn0
  | [i0], hi =>
    simp only [fromViewSegs, List.mem_cons, List.not_mem_nil, or_false, forall_eq, List.length_take] at hseg
    simp only [List.length_cons, List.length_nil] at hi
    have z : s0 ≠ 0 ∧ s1 = 0 ∧ s2 = 0 := by
      refine ⟨?_, ?_, ?_⟩ <;> (repeat' split at hi) <;> omega
    obtain ⟨z0, rfl, rfl⟩ := z
    simp [fromViewSegs, PathM.encodeUnchecked, PathM.segLen, PathM.iterInfos, PathM.iterHops, clearRsv, toV_toM,
      META_CURR_INFO_FIELD_WIDTH, META_CURR_HOP_FIELD_WIDTH, META_SEG0_LEN_WIDTH, META_SEG1_LEN_WIDTH, META_SEG2_LEN_WIDTH]
    exact ⟨by omega, by omega, by omega, List.take_of_length_le (by omega)⟩
  | [i0, i1], hi =>
    simp only [fromViewSegs, List.mem_cons, List.not_mem_nil, or_false, forall_eq_or_imp, forall_eq, List.length_take,
      List.length_drop] at hseg
    simp only [List.length_cons, List.length_nil] at hi
    have z : s0 ≠ 0 ∧ s1 ≠ 0 ∧ s2 = 0 := by
      refine ⟨?_, ?_, ?_⟩ <;> (repeat' split at hi) <;> omega
    obtain ⟨z0, z1, rfl⟩ := z
    simp [fromViewSegs, PathM.encodeUnchecked, PathM.segLen, PathM.iterInfos, PathM.iterHops, clearRsv, toV_toM,
      META_CURR_INFO_FIELD_WIDTH, META_CURR_HOP_FIELD_WIDTH, META_SEG0_LEN_WIDTH, META_SEG1_LEN_WIDTH, META_SEG2_LEN_WIDTH]
    refine ⟨by omega, by omega, by omega, by omega, ?_⟩
    have := take_drop_three hs s0 s1 0 (by omega)
    simpa using this
  | [i0, i1, i2], hi =>
    simp only [fromViewSegs, List.mem_cons, List.not_mem_nil, or_false, forall_eq_or_imp, forall_eq, List.length_take,
      List.length_drop] at hseg
    simp [fromViewSegs, PathM.encodeUnchecked, PathM.segLen, PathM.iterInfos, PathM.iterHops, clearRsv, toV_toM,
      META_CURR_INFO_FIELD_WIDTH, META_CURR_HOP_FIELD_WIDTH, META_SEG0_LEN_WIDTH, META_SEG1_LEN_WIDTH, META_SEG2_LEN_WIDTH]
    refine ⟨by omega, by omega, by omega, by omega, by omega, ?_⟩
    have := take_drop_three hs s0 s1 s2 (by omega)
    simpa using this
  | _ :: _ :: _ :: _ :: _, hi => simp only [List.length_cons] at hi; (repeat' split at hi) <;> omega

/-- the same as a statement about `try_encode_to_vec`: it succeeds and returns the view with the reserved bits cleared -/
theorem convert_roundtrip_view_encode (v : PathV) (hv : v.Valid) (hw : (fromView v).wireValid = true) :
    (fromView v).encode = some (clearRsv v) := by
  unfold PathM.encode; rw [if_pos hw, convert_roundtrip_view v hv hw]

theorem minList_spec (l : List Nat) : (l = [] ∧ minList l = none) ∨ (∃ m, minList l = some m ∧ m ∈ l ∧ ∀ x ∈ l, m ≤ x) := by
  induction l with
  | nil => exact .inl ⟨rfl, rfl⟩
  | cons a as ih =>
    right
    rcases ih with ⟨rfl, -⟩ | ⟨m, hm, hmem, hle⟩
    · exact ⟨a, by simp [minList], by simp, by simp⟩
    · simp only [minList, hm]
      by_cases h : a ≤ m
      · refine ⟨a, by simp [h], by simp, ?_⟩
        intro x hx; rcases List.mem_cons.1 hx with rfl | hx
        · exact Nat.le_refl _
        · exact Nat.le_trans h (hle x hx)
      · refine ⟨m, by simp [h], by simp [hmem], ?_⟩
        intro x hx; rcases List.mem_cons.1 hx with rfl | hx
        · omega
        · exact hle x hx

theorem minList_reverse (l : List Nat) : minList l.reverse = minList l := by
  rcases minList_spec l with ⟨rfl, -⟩ | ⟨m, hm, hmem, hle⟩
  · rfl
  · rcases minList_spec l.reverse with ⟨he, -⟩ | ⟨m', hm', hmem', hle'⟩
    · simp at he; subst he; simp at hmem
    · rw [hm, hm']
      have a := hle' m (List.mem_reverse.2 hmem)
      have b := hle m' (List.mem_reverse.1 hmem')
      congr 1; omega

/-- the expiry contribution of one segment is unchanged by reversing it -/
theorem segExp_rev (s : SegM) :
    minList (({ s with info := s.info.toggle, hops := s.hops.reverse } : SegM).hops.map (·.exp)) = minList (s.hops.map (·.exp)) := by
  simp only [List.map_reverse, minList_reverse]

/-- **Expiry is invariant under reversal** (`ScionPath` caches the expiry across `try_reverse`): for every
wire-valid model, and hence – by `reverse_agree` and `expiry_agree` – for its encoding. -/
theorem reverse_preserves_expiry (m : PathM) (hw : m.wireValid = true) :
    (mRev m).expiration = m.expiration ∧
    (reversedState m.encodeUnchecked).expiration = m.encodeUnchecked.expiration := by
  have hm : (mRev m).expiration = m.expiration := by
    obtain ⟨-, -, -, -, -, hseg, -⟩ := (wireValid_iff _).1 hw
    cases m with | mk ci ch segs =>
    rcases wireValid_cases _ hw with ⟨a, h⟩ | ⟨a, b, h⟩ | ⟨a, b, c, h⟩
    all_goals
      simp only at h
      subst h
      simp only [PathM.expiration, mRev, reversedSegs, List.map_cons, List.map_nil, List.reverse_cons, List.reverse_nil,
        List.nil_append, List.cons_append, expiryLoopM, List.map_reverse, minList_reverse, InfoM.toggle]
      first
        | done
        | ((repeat' split) <;> (try simp only [Nat.min_def]) <;> (repeat' split) <;> omega)
  refine ⟨hm, ?_⟩
  obtain ⟨m', v, h1, h2, h3, h4⟩ := reverse_agree m hw
  have e1 : m' = mRev m := by rw [reverseModel_of_wireValid m hw] at h1; exact (Prod.mk.inj h1).1.symm
  have e2 : v = m.encodeUnchecked := by simp [PathM.encode, hw] at h2; exact h2.symm
  subst e1 e2
  have hw' : (mRev m).wireValid = true := by
    unfold PathM.encode at h4; split at h4 <;> simp_all
  have e3 : (mRev m).encodeUnchecked = reversedState m.encodeUnchecked := by
    unfold PathM.encode at h4; rw [if_pos hw'] at h4; exact Option.some.inj h4
  rw [← e3, expiry_agree _ hw', expiry_agree _ hw, hm]

/-! ## 4. Totality: no panic site is reachable -/

/-- `StandardPathView::expiration` never reaches `expect("segment iterator ensures at least one hop
field per segment")`, on any state the view constructor can produce, and the result fits `u32`. -/
theorem expiration_total (p : PathV) (hv : p.Valid) : ∃ e, p.expiration = some e := by
  obtain ⟨-, -, -, -, -, -, hi, hh, -⟩ := hv
  unfold PathV.expiration
  split
  · exact ⟨0, rfl⟩
  · rename_i hl
    unfold PathV.segments
    cases p with | mk ci ch rsv s0 s1 s2 is hs =>
    simp only [PathV.infoCount, infoCount, b2n, PathV.hopCount] at hi hh hl ⊢
    -- every segment handed out by the iterator is one of the leading non-empty ones
    have key : ∀ (is : List InfoF) (ls : List Nat) (hs : List HopF) (acc : Nat),
        (∀ l ∈ ls, l ≠ 0) → ls.sum ≤ hs.length → ∃ e, expiryLoopV (iterSegs is ls hs) acc = some e := by
      intro is ls
      induction is generalizing ls with
      | nil => intro hs acc _ _; cases ls <;> exact ⟨acc, by simp [iterSegs, expiryLoopV]⟩
      | cons i is ih =>
        intro hs acc hne hsum
        cases ls with
        | nil => exact ⟨acc, by simp [iterSegs, expiryLoopV]⟩
        | cons l ls =>
          simp only [iterSegs, expiryLoopV]
          simp only [List.sum_cons] at hsum
          have hl0 := hne l List.mem_cons_self
          have : (hs.take l).length = l := by rw [List.length_take]; omega
          cases hm : minList ((hs.take l).map (·.exp)) with
          | none =>
            exfalso
            cases ht : hs.take l with
            | nil => rw [ht] at this; simp at this; omega
            | cons x xs => rw [ht] at hm; simp only [List.map_cons, minList] at hm; split at hm <;> simp at hm
          | some e =>
            simp only []
            exact ih ls (hs.drop l) _ (fun x hx => hne x (List.mem_cons_of_mem _ hx)) (by rw [List.length_drop]; omega)
    apply key
    · intro l hl'
      unfold leadingSegs at hl' hl
      (repeat' split at hl') <;> simp at hl' <;> omega
    · unfold leadingSegs
      (repeat' split) <;> simp <;> omega

/-- the subtractions `(total_hops - curr_hop_idx) - 1`, `(seg_count - curr_info_idx) - 1` and the two
`debug_assert!`s of `try_reverse` are safe on the success path (no underflow, no assertion failure) -/
theorem reverse_arith_safe (p p' : PathV) (h : reverseView p = (p', .ok ())) :
    p.currHf + 1 ≤ p.seg0 + p.seg1 + p.seg2 ∧ p.currInf + 1 ≤ segCountNZ p.seg1 p.seg2 ∧
    0 < p.seg0 + p.seg1 + p.seg2 ∧ 0 < segCountNZ p.seg1 p.seg2 := by
  obtain ⟨-, -, a, b⟩ := reverseView_ok p p' h; omega

/-- `StandardPath::from_view` pushes at most three segments into the `ArrayVec<[Segment; 3]>` -/
theorem fromView_capacity (p : PathV) : (fromView p).segs.length ≤ MAX_SEGMENTS := by
  unfold fromView
  have key : ∀ (is : List InfoF) (ls : List Nat) (hs : List HopF), (fromViewSegs is ls hs).length ≤ ls.length := by
    intro is ls
    induction is generalizing ls with
    | nil => intro hs; cases ls <;> simp [fromViewSegs]
    | cons i is ih =>
      intro hs
      cases ls with
      | nil => simp [fromViewSegs]
      | cons l ls => simp only [fromViewSegs, List.length_cons]; exact Nat.succ_le_succ (ih ls _)
  exact key _ _ _

end ScionVerif.StdPath

/-! ## 5. One-hop paths -/
namespace ScionVerif.OneHop
open ScionVerif.StdPath ScionVerif.Generated.StdPath

theorem fail_atomic_view (v v' : OneHopV) (e : RevErr) (h : reverseView v = (v', .error e)) : v' = v := by
  unfold reverseView at h
  split at h <;> simp only [Prod.mk.injEq, reduceCtorEq, and_false] at h
  exact h.1.symm

theorem fail_atomic_model (m m' : OneHopM) (e : RevErr) (h : reverseModel m = (m', .error e)) : m' = m := by
  unfold reverseModel at h
  split at h <;> simp only [Prod.mk.injEq, reduceCtorEq, and_false] at h
  exact h.1.symm

/-- **Atomicity of the statement sequences** (`OneHopPathView::try_reverse`, `OneHopPath::try_reverse` in the
order of the Rust statements, the receiver threaded through): an `Err` hands back the receiver it started from. -/
theorem fail_atomic_imp (v v' : OneHopV) (m m' : OneHopM) (e : RevErr) :
    (reverseViewImp.run v = (v', .error e) → v' = v) ∧ (reverseModelImp.run m = (m', .error e) → m' = m) :=
  ⟨fun h => fail_atomic_view v v' e (by rw [← reverseViewImp_eq]; exact h),
   fun h => fail_atomic_model m m' e (by rw [← reverseModelImp_eq]; exact h)⟩

/-- the order of exits and writes mirrored by the two statement sequences is the order in the Rust source as it is
now (re-extracted by the translator on every run), and there every exit precedes every write -/
theorem effects_tie :
    reverseViewImp.effects = EFFECTS_ONEHOP_VIEW_TRY_REVERSE ∧ reverseModelImp.effects = EFFECTS_ONEHOP_MODEL_TRY_REVERSE ∧
    exitsBeforeWrites EFFECTS_ONEHOP_VIEW_TRY_REVERSE = true ∧ exitsBeforeWrites EFFECTS_ONEHOP_MODEL_TRY_REVERSE = true := by
  decide

/-- view and model reverse alike: same verdict, `encode (reverse m) = reverse (encode m)` -/
theorem reverse_agree (m : OneHopM) :
    (reverseView m.encode).2 = (reverseModel m).2 ∧ (reverseView m.encode).1 = (reverseModel m).1.encode := by
  unfold reverseView reverseModel OneHopM.encode
  by_cases h : secondHopUnset m.info.flags m.hop1 m.hop2 = true <;> simp [h, InfoM.toV, InfoF.toggle, InfoM.toggle]

theorem consDir_eq_testBit (f : Nat) : consDir f = f.testBit 0 := by
  unfold consDir
  rw [show INFO_FLAG_CONS_DIR = 2 ^ 0 from by decide, Nat.testBit_eq_decide_div_mod_eq]
  cases h : decide (f / 2 ^ 0 % 2 = 1) <;> simp_all

theorem consDir_toggle (f : Nat) : consDir (toggleCons f) = !consDir f := by
  rw [consDir_eq_testBit, consDir_eq_testBit]
  unfold toggleCons
  rw [show INFO_FLAG_CONS_DIR = 2 ^ 0 from by decide, Nat.testBit_xor, Nat.testBit_two_pow_self]
  simp

/-- **Reversal is its own inverse** for every one-hop path that can be reversed (since `/repo` 9957320; before, a
path built by `OneHopPath::new` + `set_second_hop` – first hop field without construction ingress – reversed once
and then refused: `reverse_involutive_prefix_witness`). -/
theorem reverse_involutive (v v' : OneHopV) (h : reverseView v = (v', .ok ())) : reverseView v' = (v, .ok ()) := by
  unfold reverseView at h
  split at h
  · simp at h
  · rename_i hu
    simp only [Prod.mk.injEq, and_true] at h
    subst h
    unfold reverseView
    have : secondHopUnset v.info.toggle.flags v.hop2 v.hop1 = secondHopUnset v.info.flags v.hop1 v.hop2 := by
      unfold secondHopUnset InfoF.toggle
      simp only [consDir_toggle]
      cases consDir v.info.flags <;> simp
    simp only [this, hu, Bool.false_eq_true, if_false, InfoF.toggle_toggle]

/-- the same on the owned model -/
theorem reverse_involutive_model (m m' : OneHopM) (h : reverseModel m = (m', .ok ())) : reverseModel m' = (m, .ok ()) := by
  unfold reverseModel at h
  split at h
  · simp at h
  · rename_i hu
    simp only [Prod.mk.injEq, and_true] at h
    subst h
    unfold reverseModel
    have : secondHopUnset m.info.toggle.flags m.hop2 m.hop1 = secondHopUnset m.info.flags m.hop1 m.hop2 := by
      unfold secondHopUnset InfoM.toggle
      simp only [consDir_toggle]
      cases consDir m.info.flags <;> simp
    have tt : m.info.toggle.toggle = m.info := by
      unfold InfoM.toggle; simp [toggleCons, Nat.xor_assoc]
    simp only [this, hu, Bool.false_eq_true, if_false, tt]

/-- the repaired defect: with the direction-blind check a path as built by `OneHopPath::new` + `set_second_hop`
reverses once and then refuses (replayed on the real code by `corpus/C12/060-onehop-reverse-twice.case`) -/
theorem reverse_involutive_prefix_witness :
    ∃ v v', reverseViewPreFix v = (v', .ok ()) ∧ (reverseViewPreFix v').2 = .error .secondHopNotSet ∧
      reverseView v = (v', .ok ()) ∧ reverseView v' = (v, .ok ()) := by
  refine ⟨⟨⟨1, 0, 0xaaaa, 7⟩, ⟨0, 255, 0, 1, 0x111111111111⟩, ⟨0, 0, 2, 0, 0x222222222222⟩⟩, _, rfl, rfl, rfl, rfl⟩

/-- `DpPath::try_reverse` of a one-hop *model* (`try_into_reversed_standard_path`) succeeds exactly when the one-hop
reversal does and carries the same info field and the same two hop fields in the same order – as a two-hop
standard path with both pointers 0, whereas view and one-hop model stay one-hop paths
(open finding `C12:agree:dppath-reverse:onehop-becomes-standard`). -/
theorem dppath_reverse_content (m : OneHopM) :
    (∀ e, toReversedStandard m = .error e ↔ (reverseModel m).2 = .error e) ∧
    (∀ sp, toReversedStandard m = .ok sp →
      sp = { currInf := 0, currHf := 0, segs := [{ info := (reverseModel m).1.info, hops := [(reverseModel m).1.hop1, (reverseModel m).1.hop2] }] }) := by
  unfold toReversedStandard reverseModel
  by_cases h : secondHopUnset m.info.flags m.hop1 m.hop2 = true
  · simp only [h, if_true]
    refine ⟨fun e => by cases e; simp, fun sp hsp => by cases hsp⟩
  · simp only [h, Bool.false_eq_true, if_false]
    refine ⟨fun e => by simp, fun sp hsp => by cases hsp; rfl⟩

/-- `set_second_hop` builds the same second hop field on view and model, for every MAC function -/
theorem set_second_hop_agree {K : Type} (mac : ScionVerif.Mac.MacFn K) (m : OneHopM) (ingress : Nat) (key : K) (adv : Bool) :
    setSecondHopView mac m.encode ingress key adv = (setSecondHopModel mac m ingress key adv).encode := by
  simp [setSecondHopView, setSecondHopModel, OneHopM.encode, InfoM.toV]

/-- `OneHopPathView::expiration` stays within `u32` (no overflow, after the fix) -/
theorem expiration_le (v : OneHopV) : v.expiration ≤ U32_MAX := by
  unfold OneHopV.expiration satAdd32; split <;> omega

end ScionVerif.OneHop

/-! ## 6. Non-vacuity -/
namespace ScionVerif.StdPath
open ScionVerif.Generated.StdPath

def exHop (n : Nat) : HopF := ⟨n % 4, n, n, n + 1, 0x111111111111 * n⟩
def exModel : PathM :=
  ⟨1, 2, [⟨⟨1, 0xaaaa, 1000⟩, [exHop 1, exHop 2]⟩, ⟨⟨0, 0xbbbb, 2000⟩, [exHop 3, exHop 4, exHop 5]⟩]⟩

example : exModel.wireValid = true := by decide
example : ∃ p', reverseView exModel.encodeUnchecked = (p', .ok ()) := ⟨_, reverseView_encode_ok exModel (by decide)⟩
example : ∃ p e, reverseView p = (p, .error e) := ⟨⟨0, 63, 0, 1, 2, 0, [], []⟩, .hopOob, rfl⟩
example : ∃ m e, reverseModel m = (m, .error e) := ⟨⟨0, 9, [⟨⟨0, 0, 0⟩, [exHop 1]⟩]⟩, .hopOob, rfl⟩
example : (ofBytes exModel.encodeUnchecked.toBytes).isSome = true := by decide

end ScionVerif.StdPath
