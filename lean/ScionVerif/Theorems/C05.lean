import ScionVerif.Lemmas.PathMgr
/-!
# C05 — a socket's path policy is honoured by every path handed to a sender

Model: `Model/PathSet.lean` (one per-pair path set of the `MultiPathManager`, driven by the operations
`maintain now <fetcher answer>`, `report <issue>`, `deliver now`, `send now`).  The policy is an arbitrary
predicate `env.allowed` (for several attached policies: their conjunction `allowedAll pols`, see
`handout_every_policy`); f32 scores, the hash-map iteration order and the backoff duration are arbitrary
arguments of the operations, so every statement below holds for all of them.

All theorems quantify over every start time `t0`, every configuration, every policy and every finite
history `ops : List Op` (no bound on its length).
-/
namespace ScionVerif.PathMgr
open ScionVerif.Generated.PathMgr

/-- every path any fetcher answer in the history contains -/
def offered : List Op → List Path
  | [] => []
  | .maintain _ resp _ _ _ _ :: ops => resp.paths ++ offered ops
  | _ :: ops => offered ops

theorem mem_offered {ops : List Op} {now : Nat} {resp : Resp} {sc0 sc1 : Nat → Int} {ord : List Nat}
    {b : Nat} (h : Op.maintain now resp sc0 sc1 ord b ∈ ops) {p : Path} (hp : p ∈ resp.paths) :
    p ∈ offered ops := by
  induction ops with
  | nil => cases h
  | cons o os ih =>
    cases h with
    | head => simp [offered, hp]
    | tail _ h' =>
      cases o <;> simp [offered, ih h']

/-- **inv_policy.** After any history, every cached entry and the active slot satisfy the policy and
    are paths that a fetch of this history returned (provenance): the filter on every fetch, the refresh
    merge, the retention of the active path, issue-driven switches and cache eviction never admit an
    unfiltered or foreign path. -/
theorem inv_policy (env : Env) (t0 : Nat) (ops : List Op) :
    Inv (fun p => env.allowed p = true ∧ p ∈ offered ops) (run env t0 ops) := by
  apply run_P
  intro op hop
  cases op with
  | maintain now resp sc0 sc1 ord b =>
    exact Op.fetchOK_of_allowed (fun p hp ha => ⟨ha, mem_offered hop hp⟩)
  | report k id ts => trivial
  | deliver now sc => trivial
  | send now => trivial

/-- the active slot is always one of the cached entries' paths or empty … in particular: -/
theorem sendCached_active {s : St} {now : Nat} {p : Path} (h : sendCached s now = some p) :
    s.active = some p := by
  unfold sendCached at h
  split at h
  · cases h
  · split at h
    · cases h
    · exact h ▸ (by assumption)

theorem sendPath_active {s : St} {now : Nat} {p : Path} (h : sendPath s now = .ok p) :
    s.active = some p := by
  unfold sendPath at h
  split at h
  · next a ha =>
    split at h
    · unfold St.lastErr at h; split at h <;> cases h
    · cases h; exact ha
  · split at h
    · cases h
    · unfold St.lastErr at h; split at h <;> cases h

/-- **handout_allowed.** Whatever `cached_path` (immediately) or `path` (after waiting) hands to a
    sender at any time after any history satisfies the policy and stems from a fetch of the history. -/
theorem handout_allowed (env : Env) (t0 : Nat) (ops : List Op) (now : Nat) (p : Path)
    (h : sendCached (run env t0 ops) now = some p ∨ sendPath (run env t0 ops) now = .ok p) :
    env.allowed p = true ∧ p ∈ offered ops := by
  have hi := (inv_policy env t0 ops).2
  rcases h with h | h
  · exact hi p (sendCached_active h)
  · exact hi p (sendPath_active h)

/-- **no_metadata_rejected.** For the hop-based policies (ACL, hop pattern: the blanket
    `path_allowed(..).unwrap_or(false)`), a path whose hops cannot be read – no metadata, no interface
    list, malformed interface list – is rejected … -/
theorem no_metadata_rejected (pol : List Hop → Bool) (p : Path) (h : p.hops = none) :
    allowedByHops pol p = false := by
  unfold allowedByHops; rw [h]

theorem hops_none_of_no_ifaces (p : Path) (h : p.ifaces = none) : p.hops = none := by
  unfold Path.hops; rw [h]

/-- … and therefore never handed out, in any history. -/
theorem no_metadata_never_handed_out (pol : List Hop → Bool) (env : Env)
    (henv : env.allowed = allowedByHops pol) (t0 : Nat) (ops : List Op) (now : Nat) (p : Path)
    (h : sendCached (run env t0 ops) now = some p ∨ sendPath (run env t0 ops) now = .ok p) :
    p.ifaces ≠ none ∧ p.hops ≠ none := by
  have ha := (handout_allowed env t0 ops now p h).1
  rw [henv] at ha
  have hh : p.hops ≠ none := by
    intro hn; rw [no_metadata_rejected pol p hn] at ha; cases ha
  exact ⟨fun hn => hh (hops_none_of_no_ifaces p hn), hh⟩

/-- **error_not_unfiltered.** If no path any fetch returned satisfies the policy, the cache stays
    empty, no path is ever handed out, and `path` answers with an error (or keeps the caller waiting
    for the first fetch) – never with an unfiltered path. -/
theorem error_not_unfiltered (env : Env) (t0 : Nat) (ops : List Op)
    (hnone : ∀ p ∈ offered ops, env.allowed p = false) (now : Nat) :
    (run env t0 ops).cached = [] ∧ (run env t0 ops).active = none ∧
    sendCached (run env t0 ops) now = none ∧
    (sendPath (run env t0 ops) now = .wait ∨ ∃ e, sendPath (run env t0 ops) now = .err e) := by
  have hi := inv_policy env t0 ops
  have hc : (run env t0 ops).cached = [] := by
    cases hcs : (run env t0 ops).cached with
    | nil => rfl
    | cons a l =>
      have h' : env.allowed a = true ∧ a ∈ offered ops := hi.1 a (by rw [hcs]; exact List.mem_cons_self)
      have h1 := h'.1
      rw [hnone a h'.2] at h1; cases h1
  have ha : (run env t0 ops).active = none := by
    cases has : (run env t0 ops).active with
    | none => rfl
    | some a =>
      have h' : env.allowed a = true ∧ a ∈ offered ops := hi.2 a has
      have h1 := h'.1
      rw [hnone a h'.2] at h1; cases h1
  refine ⟨hc, ha, ?_, ?_⟩
  · unfold sendCached; rw [ha]
  · unfold sendPath; rw [ha]
    simp only
    split
    · exact Or.inl rfl
    · unfold St.lastErr; split
      · exact Or.inr ⟨_, rfl⟩
      · exact Or.inr ⟨_, rfl⟩

/-- `allowedAll` is the conjunction of the attached policies (and accepts everything when none is attached) -/
theorem allowedAll_iff (pols : List (Path → Bool)) (p : Path) :
    allowedAll pols p = true ↔ ∀ pol ∈ pols, pol p = true := by
  unfold allowedAll
  exact List.all_eq_true

/-- **handout_every_policy.** With any number of attached policies (`PathStrategy::add_policy` called
    0, 1, 2, … times; the strategy predicate is their conjunction `allowedAll pols`), whatever
    `cached_path` / `path` hand to a sender after any history satisfies EVERY attached policy - the
    first as much as the last - and so do every cached entry and the active slot. -/
theorem handout_every_policy (pols : List (Path → Bool)) (env : Env) (henv : env.allowed = allowedAll pols)
    (t0 : Nat) (ops : List Op) (now : Nat) (p : Path)
    (h : sendCached (run env t0 ops) now = some p ∨ sendPath (run env t0 ops) now = .ok p) :
    ∀ pol ∈ pols, pol p = true := by
  have ha := (handout_allowed env t0 ops now p h).1
  rw [henv] at ha
  exact (allowedAll_iff pols p).1 ha

theorem inv_every_policy (pols : List (Path → Bool)) (env : Env) (henv : env.allowed = allowedAll pols)
    (t0 : Nat) (ops : List Op) :
    Inv (fun p => (∀ pol ∈ pols, pol p = true) ∧ p ∈ offered ops) (run env t0 ops) := by
  have hi := inv_policy env t0 ops
  rw [henv] at hi
  exact ⟨fun p hp => ⟨(allowedAll_iff pols p).1 (hi.1 p hp).1, (hi.1 p hp).2⟩,
         fun p hp => ⟨(allowedAll_iff pols p).1 (hi.2 p hp).1, (hi.2 p hp).2⟩⟩

/-- one rejecting policy among the attached ones suffices: if every offered path is rejected by SOME attached
    policy (not necessarily the last one), nothing is ever handed out -/
theorem error_not_unfiltered_any_policy (pols : List (Path → Bool)) (env : Env)
    (henv : env.allowed = allowedAll pols) (t0 : Nat) (ops : List Op)
    (hnone : ∀ p ∈ offered ops, ∃ pol ∈ pols, pol p = false) (now : Nat) :
    sendCached (run env t0 ops) now = none ∧
    (sendPath (run env t0 ops) now = .wait ∨ ∃ e, sendPath (run env t0 ops) now = .err e) := by
  have h := error_not_unfiltered env t0 ops (fun p hp => by
    rcases hnone p hp with ⟨pol, hm, hf⟩
    rw [henv]
    cases hall : allowedAll pols p with
    | false => rfl
    | true => have := (allowedAll_iff pols p).1 hall pol hm; rw [hf] at this; cases this) now
  exact ⟨h.2.2.1, h.2.2.2⟩

/-- fetcher contract: every returned path connects the requested pair -/
def FetcherContract (env : Env) (ops : List Op) : Prop :=
  ∀ p ∈ offered ops, p.src = env.src ∧ p.dst = env.dst

/-- **handout_endpoints.** Under the fetcher contract every handed-out path connects the requested
    source and destination AS. -/
theorem handout_endpoints (env : Env) (t0 : Nat) (ops : List Op) (hc : FetcherContract env ops)
    (now : Nat) (p : Path)
    (h : sendCached (run env t0 ops) now = some p ∨ sendPath (run env t0 ops) now = .ok p) :
    p.src = env.src ∧ p.dst = env.dst :=
  hc p (handout_allowed env t0 ops now p h).2

/-! ## non-vacuity: a history in which a path *is* handed out, under a policy that rejects another -/

private def pA : Path := ⟨1, some 2000, 10, 20, some [⟨10, 1⟩, ⟨20, 2⟩], some 1, some 2⟩
private def pB : Path := ⟨2, some 2000, 10, 20, none, some 3, some 4⟩
private def envEx : Env := { cfg := defaultCfg, src := 10, dst := 20, allowed := allowedByHops (fun _ => true) }
private def opsEx : List Op := [.maintain 0 (.ok [pB, pA]) (fun _ => 0) (fun _ => 0) [] 0, .send 1]

example : sendCached (run envEx 0 opsEx) 1 = some pA := by decide
example : sendPath (run envEx 0 opsEx) 1 = .ok pA := by decide
example : envEx.allowed pB = false := by decide
example : FetcherContract envEx opsEx := by
  intro p hp
  simp [offered, opsEx, Resp.paths] at hp
  rcases hp with h | h <;> subst h <;> decide
example : ∀ p ∈ offered [Op.maintain 0 (.ok [pB]) (fun _ => 0) (fun _ => 0) [] 0], envEx.allowed p = false := by
  intro p hp
  simp [offered, Resp.paths] at hp
  subst hp; decide

/-! two attached policies: the first rejects `pA`, the last accepts everything - `pA` is never handed out -/
private def polsEx : List (Path → Bool) := [fun p => p.fp != 1, fun _ => true]
private def pC : Path := ⟨3, some 2000, 10, 20, some [⟨10, 1⟩, ⟨20, 2⟩], some 1, some 2⟩
private def envEx2 : Env := { cfg := defaultCfg, src := 10, dst := 20, allowed := allowedAll polsEx }
example : envEx2.allowed = allowedAll polsEx := rfl
example : envEx2.allowed pA = false := by decide
example : sendCached (run envEx2 0 [.maintain 0 (.ok [pA, pC]) (fun _ => 0) (fun _ => 0) [] 0, .send 1]) 1 = some pC := by decide
example : sendCached (run envEx2 0 [.maintain 0 (.ok [pA]) (fun _ => 0) (fun _ => 0) [] 0, .send 1]) 1 = none := by decide
example : allowedAll [] pA = true := by decide

end ScionVerif.PathMgr
