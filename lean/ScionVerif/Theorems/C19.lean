import ScionVerif.Lemmas.Comb
/-!
# C19 — path combination tolerates arbitrary segment sets from the control plane

Property theorems over the model `Model/Combinator.lean` (limits and decision tables from
`Generated/Comb.lean`, i.e. from the Rust source as it is now).  "Arbitrary" is literal: the theorems
quantify over *all* values of `Seg` — empty and single-entry segments, repeated ASes, zero / duplicate
interface ids, peer entries pointing anywhere, any MTU / timestamp / expiry value, any number of hops,
any number of segments, the same segment given as core and as non-core.
-/
namespace ScionVerif.Comb
open ScionVerif.Generated.Comb

/-! ## 1. never panics -/

/-- **Totality, all inputs.**  `combine` reaches none of the panic sites of combinator.rs / graph.rs
(`expect`, `unwrap`, slice, unsigned subtraction, `try_push` + `panic!`) — whatever the segments are. -/
theorem total (src dst : Nat) (cores nonCores : List Seg) :
    ∃ ps, combine src dst cores nonCores = .ok ps := by
  by_cases h : src = dst
  · exact ⟨[], by simp [combine, h]⟩
  · rcases combine_eq src dst cores nonCores h with ⟨ps, _, hc⟩
    exact ⟨_, hc⟩

/-- the same, phrased per panic site -/
theorem no_panic (src dst : Nat) (cores nonCores : List Seg) (site : Site) :
    combine src dst cores nonCores ≠ .error site := by
  rcases total src dst cores nonCores with ⟨ps, h⟩
  simp [h]

/-- non-vacuity: a two-entry segment with all-zero interface ids (the input on which the original code
panicked at `interfaces.first().expect(..)`) is in the domain of `total`, produces one candidate
solution, and the (fixed) code offers no path for it -/
def zeroIfSeg : Seg :=
  ⟨0, 42, [⟨1, 2000, 0, ⟨63, 0, 0, 0⟩, []⟩, ⟨2, 2000, 1280, ⟨63, 0, 0, 0⟩, []⟩], 7⟩

example : combine 2 1 [] [zeroIfSeg] = .ok [] := by decide +kernel
example : (sortedCandidates 2 1 (inputSegs [] [zeroIfSeg])).length = 1 := by decide +kernel

end ScionVerif.Comb
