import ScionVerif.Lemmas.Comb
import ScionVerif.Lemmas.CombOrder
/-!
# C19 — path combination tolerates arbitrary segment sets from the control plane

Property theorems over the model `Model/Combinator.lean` (limits and decision tables from
`Generated/Comb.lean`, i.e. from the Rust source as it is now).  "Arbitrary" is literal: the theorems
quantify over *all* values of `Seg` — empty and single-entry segments, repeated ASes, zero / duplicate
interface ids, peer entries pointing anywhere, any MTU / timestamp / expiry value, any number of hops,
any number of segments, the same segment given as core and as non-core.
-/
namespace ScionVerif.Comb
open ScionVerif.Generated.Comb

/-! ## 1. never panics -/

/-- **Totality, all inputs.**  `combine` reaches none of the 8 *modelled* panic sites (`Site`: weight
subtraction, `with_capacity` subtraction, peer-index `expect`, `last_ia().expect`, slice range,
`try_push` + `panic!`, expiry conversion `expect`, view `expect`) — whatever the segments are.
Not `Site`s, hence not covered by this theorem: the two `unwrap()`s of `has_loops` and the two
`expect`s of `StandardPathView::expiration` behind `ScionPath::new` (see the header of
`Model/Combinator.lean` for why they cannot fire; the harness oracle `C19:panic` covers them). -/
theorem total (src dst : Nat) (cores nonCores : List Seg) :
    ∃ ps, combine src dst cores nonCores = .ok ps := by
  by_cases h : src = dst
  · exact ⟨[], by simp [combine, h]⟩
  · rcases combine_eq src dst cores nonCores h with ⟨ps, _, hc⟩
    exact ⟨_, hc⟩

/-- the same, phrased per panic site -/
theorem no_panic (src dst : Nat) (cores nonCores : List Seg) (site : Site) :
    combine src dst cores nonCores ≠ .error site := by
  rcases total src dst cores nonCores with ⟨ps, h⟩
  simp [h]

/-- non-vacuity: a two-entry segment with all-zero interface ids (the input on which the original code
panicked at `interfaces.first().expect(..)`) is in the domain of `total`, produces one candidate
solution, and the (fixed) code offers no path for it -/
def zeroIfSeg : Seg :=
  ⟨0, 42, [⟨1, 2000, 0, ⟨63, 0, 0, 0⟩, []⟩, ⟨2, 2000, 1280, ⟨63, 0, 0, 0⟩, []⟩], 7⟩

example : combine 2 1 [] [zeroIfSeg] = .ok [] := by decide +kernel
example : (sortedCandidates 2 1 (inputSegs [] [zeroIfSeg])).length = 1 := by decide +kernel

/-! ## 2. terminates within a polynomial bound -/

/-- input size: Σ over all given segments of 2·(AS entries + peer entries) -/
def inputSize (cores nonCores : List Seg) : Nat :=
  ((inputSegs cores nonCores).map fun s => s.seg.size).sum

/-- **Polynomial bound, all inputs.**  The search of `get_paths` queues / returns at most `(E+1)³`
candidate solutions, `E` = number of edges of the multigraph, and `E ≤ inputSize` (linear in the
input).  `path()` is then called once per candidate.  The model's search is the `bfsRounds = 4` rounds
after which the queue of the real `while let Some(..) = queue.pop_front()` loop is empty
(`search_terminates`). -/
theorem poly_bound (src dst : Nat) (cores nonCores : List Seg) :
    (sortedCandidates src dst (inputSegs cores nonCores)).length ≤ (inputSize cores nonCores + 1) ^ 3 := by
  unfold sortedCandidates sortSols
  rw [List.length_mergeSort]
  refine Nat.le_trans (candidates_length _ _ _) ?_
  apply Nat.pow_le_pow_left
  have := graphOf_length (inputSegs cores nonCores)
  unfold inputSize
  omega

/-- the queue is empty after `MAX_SEGMENTS + 1` rounds: more rounds add nothing, for any graph -/
theorem search_terminates (g : List GEdge) (src dst k : Nat) :
    bfs g dst (bfsRounds + k) [Sol.new (.as src)] = candidates g src dst := by
  unfold candidates bfsRounds MAX_SEGMENTS
  have hnil : ∀ (fr : List Sol), (∀ s ∈ fr, 3 ≤ s.edges.length) → ∀ n, bfs g dst n fr = [] := by
    intro fr h n
    cases n with
    | zero => rfl
    | succ n =>
      have : fr.flatMap (extend g) = [] := by
        rw [List.flatMap_eq_nil_iff]; intro s hs; exact extend_nil_of_three (h s hs)
      simp [bfs, this, bfs_nil]
  have hstep : ∀ (fr : List Sol) (d : Nat), (∀ s ∈ fr, s.edges.length = d) →
      ∀ s ∈ (fr.flatMap (extend g)).filter (fun s => !decide (s.cur = .as dst)), s.edges.length = d + 1 := by
    intro fr d h s hs
    rcases List.mem_flatMap.mp (List.mem_filter.mp hs).1 with ⟨p, hp, hsp⟩
    rcases mem_extend hsp with ⟨e, _, _, _, rfl⟩
    simp [h p hp]
  have hadd : ∀ (n : Nat) (fr : List Sol) (d : Nat), (∀ s ∈ fr, s.edges.length = d) → 3 ≤ d + n →
      bfs g dst (n + k) fr = bfs g dst n fr := by
    intro n
    induction n with
    | zero =>
      intro fr d hd h3
      rw [hnil fr (fun s hs => by have := hd s hs; omega), hnil fr (fun s hs => by have := hd s hs; omega)]
    | succ n ih =>
      intro fr d hd h3
      have e1 : n + 1 + k = (n + k) + 1 := by omega
      rw [e1]
      simp only [bfs]
      rw [ih _ (d + 1) (hstep fr d hd) (by omega)]
  exact hadd 4 _ 0 (by intro s hs; simp at hs; subst hs; rfl) (by omega)

/-! ## 3. offered paths encode, parse back and are consistent with their own metadata -/

/-- **Self-consistency of every offered path, all inputs.**  For every path `p` that `combine` returns:
* it encodes (`encodeOk` = the extracted rejection tests of `StandardPath::wire_valid`: 1..3 segments,
  1..`MAX_SEGMENT_HOPS` hop fields each, at most `TOTAL_HOPS_LIMIT` = `MAX_TOTAL_HOPS + 1` hop fields in
  total, size ≤ the SCION header limit); `viewOk` (the length fields fit their 6-bit fields) is a
  consequence of `encodeOk` (`viewOk_of_encodeOk`) and adds nothing — that the *bytes* parse back is
  checked by the harness on every offered path, not proved;
* `src_ia` / `dst_ia` are the ASes of the first / last metadata interface;
* every metadata interface has a non-zero id that is the ingress or egress id of a hop field of the path;
* the expiry (`metadata.expiration` = `ScionPath::expiration()`) is the earliest expiry of its hop
  fields (info-field timestamp + ExpTime, saturated at `u32::MAX` like the data plane does);
* the MTU never exceeds `u16::MAX` (the initial value). -/
theorem outputs_self_consistent {src dst : Nat} {cores nonCores : List Seg} {out : List Path}
    (h : combine src dst cores nonCores = .ok out) {p : Path} (hp : p ∈ out) :
    encodeOk p.segs = true ∧ viewOk p.segs = true ∧
    1 ≤ p.segs.length ∧ p.segs.length ≤ MAX_SEGMENTS ∧
    (∀ s ∈ p.segs, 1 ≤ s.hops.length ∧ s.hops.length ≤ MAX_SEGMENT_HOPS) ∧
    requiredSize p.segs ≤ PATH_MAX_SIZE ∧ hopFieldCount p.segs ≤ TOTAL_HOPS_LIMIT ∧
    p.ifs.head?.map (·.1) = some p.src ∧ p.ifs.getLast?.map (·.1) = some p.dst ∧
    (∀ i ∈ p.ifs, i.2 ≠ 0 ∧ ∃ s ∈ p.segs, ∃ hf ∈ s.hops, hf.ingress = i.2 ∨ hf.egress = i.2) ∧
    (∀ s ∈ p.segs, ∀ hf ∈ s.hops, p.expiry ≤ hopExpiry s hf) ∧
    (p.expiry = u32Max ∨ ∃ s ∈ p.segs, ∃ hf ∈ s.hops, p.expiry = hopExpiry s hf) := by
  rcases offered_from_candidate h hp with ⟨_, _, s, hs, hsp⟩
  rcases solPath_path hsp with ⟨mtu, ifs, segs, expiry, f, l, hne, hep, hex, henc, hview, hf, hl, rfl⟩
  have hlen := edgeParts_length _ _ _ _ _ _ hep
  have hsol := candidates_solOk _ _ _ s hs
  have hexp := pathExpiry_spec hex (encodeOk_hops_ne henc)
  refine ⟨henc, hview, ?_, ?_, ?_, ?_, ?_, by simp [hf], by simp [hl], ?_, hexp.1, hexp.2⟩
  · simp only; rw [hlen]; cases hE : s.edges with
    | nil => exact absurd hE hne
    | cons a as => simp
  · simp only; rw [hlen]; exact hsol.len_le
  · intro sg hsg
    have h1 := encodeOk_hops_ne henc sg hsg
    have h2 := encodeOk_hops_le henc sg hsg
    refine ⟨?_, h2⟩
    cases hh : sg.hops with
    | nil => exact absurd hh h1
    | cons a as => simp
  · unfold encodeOk at henc
    simp only [Bool.and_eq_true, decide_eq_true_eq] at henc
    exact henc.1.1.1.1.1.1
  · unfold encodeOk at henc
    simp only [Bool.and_eq_true, decide_eq_true_eq] at henc
    exact henc.1.2
  · exact edgeParts_ifs _ _ _ _ _ _ hep

/-- non-vacuity: the single up-segment `3 → 2 → 1` read from its leaf offers one path with these
properties -/
def upSeg : Seg :=
  ⟨100, 7, [⟨3, 1500, 0, ⟨63, 0, 31, 1⟩, []⟩, ⟨2, 1400, 1472, ⟨63, 21, 22, 2⟩, []⟩,
            ⟨1, 9000, 1300, ⟨10, 11, 0, 3⟩, []⟩], 5⟩

example : (combine 1 3 [] [upSeg]).toOption.map (List.map Path.ifs)
    = some [[(1, 11), (2, 22), (2, 21), (3, 31)]] := by decide +kernel
example : (combine 1 3 [] [upSeg]).toOption.map (List.map fun p => [p.src, p.dst, p.mtu, p.expiry])
    = some [[1, 3, 1300, 3812]] := by decide +kernel

/-! ## 4. segments that cannot contribute are ignored -/

/-- **Garbage independence, all inputs — for segments that form no candidate chain.**  Add any segments
`badCores`, `badNonCores` (not already present) to a segment set.  If no complete candidate solution of
the enlarged search uses an edge of an added segment — they "contribute no edge chain" from `src` to
`dst` — then the result (paths, their order, their bytes and metadata) is exactly the result without
them.  Special case of `garbage_independent_strong` below, which also covers segments that *do* form
candidates whose path is then dropped (more than 63 hop fields, no interface id) or loop-filtered. -/
theorem garbage_independent (src dst : Nat) (cores nonCores badCores badNonCores : List Seg)
    (hbc : ∀ b ∈ badCores, (⟨true, b⟩ : InSeg) ∉ inputSegs cores nonCores)
    (hbn : ∀ b ∈ badNonCores, (⟨false, b⟩ : InSeg) ∉ inputSegs cores nonCores)
    (hunused : ∀ s ∈ candidates (graphOf (inputSegs (cores ++ badCores) (nonCores ++ badNonCores))) src dst,
      ∀ e ∈ s.edges, e.seg ∈ inputSegs cores nonCores) :
    combine src dst (cores ++ badCores) (nonCores ++ badNonCores) = combine src dst cores nonCores := by
  by_cases hne : src = dst
  · simp [combine, hne]
  · have h1 : (inputSegs (cores ++ badCores) (nonCores ++ badNonCores)).filter
        (fun s => decide (s ∈ inputSegs cores nonCores)) = inputSegs cores nonCores := by
      have e1 : inputSegs (cores ++ badCores) (nonCores ++ badNonCores)
          = cores.map (⟨true, ·⟩) ++ (badCores.map (⟨true, ·⟩) ++ (nonCores.map (⟨false, ·⟩) ++ badNonCores.map (⟨false, ·⟩))) := by
        simp [inputSegs, List.map_append, List.append_assoc]
      rw [e1]
      simp only [List.filter_append]
      have f1 : (cores.map (⟨true, ·⟩ : Seg → InSeg)).filter (fun s => decide (s ∈ inputSegs cores nonCores))
          = cores.map (⟨true, ·⟩) := by
        rw [List.filter_eq_self]; intro a ha; simp [inputSegs]; left; simpa using ha
      have f2 : (nonCores.map (⟨false, ·⟩ : Seg → InSeg)).filter (fun s => decide (s ∈ inputSegs cores nonCores))
          = nonCores.map (⟨false, ·⟩) := by
        rw [List.filter_eq_self]; intro a ha; simp [inputSegs]; right; simpa using ha
      have f3 : (badCores.map (⟨true, ·⟩ : Seg → InSeg)).filter (fun s => decide (s ∈ inputSegs cores nonCores)) = [] := by
        rw [List.filter_eq_nil_iff]; intro a ha
        rcases List.mem_map.mp ha with ⟨b, hb, rfl⟩
        simpa using hbc b hb
      have f4 : (badNonCores.map (⟨false, ·⟩ : Seg → InSeg)).filter (fun s => decide (s ∈ inputSegs cores nonCores)) = [] := by
        rw [List.filter_eq_nil_iff]; intro a ha
        rcases List.mem_map.mp ha with ⟨b, hb, rfl⟩
        simpa using hbn b hb
      rw [f1, f2, f3, f4]
      simp [inputSegs]
    have hs := sortedCandidates_garbage src dst _ _ h1 hunused
    rcases combine_eq src dst (cores ++ badCores) (nonCores ++ badNonCores) hne with ⟨ps', hps', hc'⟩
    rcases combine_eq src dst cores nonCores hne with ⟨ps, hps, hc⟩
    rw [hs, hps] at hps'
    injection hps' with hpe
    rw [hc', hc, hpe]

/-- the given segments are what is left of the enlarged set when the added ones are filtered out -/
theorem inputSegs_garbage_filter (cores nonCores badCores badNonCores : List Seg)
    (hbc : ∀ b ∈ badCores, (⟨true, b⟩ : InSeg) ∉ inputSegs cores nonCores)
    (hbn : ∀ b ∈ badNonCores, (⟨false, b⟩ : InSeg) ∉ inputSegs cores nonCores) :
    (inputSegs (cores ++ badCores) (nonCores ++ badNonCores)).filter
        (fun s => decide (s ∈ inputSegs cores nonCores)) = inputSegs cores nonCores := by
  have e1 : inputSegs (cores ++ badCores) (nonCores ++ badNonCores)
      = cores.map (⟨true, ·⟩) ++ (badCores.map (⟨true, ·⟩) ++ (nonCores.map (⟨false, ·⟩) ++ badNonCores.map (⟨false, ·⟩))) := by
    simp [inputSegs, List.map_append, List.append_assoc]
  rw [e1]
  simp only [List.filter_append]
  have f1 : (cores.map (⟨true, ·⟩ : Seg → InSeg)).filter (fun s => decide (s ∈ inputSegs cores nonCores))
      = cores.map (⟨true, ·⟩) := by
    rw [List.filter_eq_self]; intro a ha; simp [inputSegs]; left; simpa using ha
  have f2 : (nonCores.map (⟨false, ·⟩ : Seg → InSeg)).filter (fun s => decide (s ∈ inputSegs cores nonCores))
      = nonCores.map (⟨false, ·⟩) := by
    rw [List.filter_eq_self]; intro a ha; simp [inputSegs]; right; simpa using ha
  have f3 : (badCores.map (⟨true, ·⟩ : Seg → InSeg)).filter (fun s => decide (s ∈ inputSegs cores nonCores)) = [] := by
    rw [List.filter_eq_nil_iff]; intro a ha
    rcases List.mem_map.mp ha with ⟨b, hb, rfl⟩
    simpa using hbc b hb
  have f4 : (badNonCores.map (⟨false, ·⟩ : Seg → InSeg)).filter (fun s => decide (s ∈ inputSegs cores nonCores)) = [] := by
    rw [List.filter_eq_nil_iff]; intro a ha
    rcases List.mem_map.mp ha with ⟨b, hb, rfl⟩
    simpa using hbn b hb
  rw [f1, f2, f3, f4]
  simp [inputSegs]

/-- **Garbage independence, all inputs — full clause.**  Add any segments `badCores`, `badNonCores` (not
already present) to a segment set.  If every complete candidate solution of the enlarged search that
uses an added segment *contributes no path* — `path()` drops it (does not encode: more than 63 hop
fields in a segment / 64 in total, or no interface id at all) or its path is removed by the loop filter
(`Sol.yieldsNothing`) — then the result (paths, their order, their bytes and metadata) is exactly the
result without the added segments.  The added segments may take part in the search in any way; the
sort is stable, so dropping their candidates does not reorder the others (`sortSols_filter`). -/
theorem garbage_independent_strong (src dst : Nat) (cores nonCores badCores badNonCores : List Seg)
    (hbc : ∀ b ∈ badCores, (⟨true, b⟩ : InSeg) ∉ inputSegs cores nonCores)
    (hbn : ∀ b ∈ badNonCores, (⟨false, b⟩ : InSeg) ∉ inputSegs cores nonCores)
    (hnothing : ∀ s ∈ candidates (graphOf (inputSegs (cores ++ badCores) (nonCores ++ badNonCores))) src dst,
      (∃ e ∈ s.edges, e.seg ∉ inputSegs cores nonCores) → s.yieldsNothing) :
    combine src dst (cores ++ badCores) (nonCores ++ badNonCores) = combine src dst cores nonCores := by
  by_cases hne : src = dst
  · simp [combine, hne]
  · have h1 := inputSegs_garbage_filter cores nonCores badCores badNonCores hbc hbn
    let Q : GEdge → Bool := fun e => decide (e.seg ∈ inputSegs cores nonCores)
    have hcand : (candidates (graphOf (inputSegs (cores ++ badCores) (nonCores ++ badNonCores))) src dst).filter
        (Sol.allEdges Q) = candidates (graphOf (inputSegs cores nonCores)) src dst := by
      have hb := bfs_filter (graphOf (inputSegs (cores ++ badCores) (nonCores ++ badNonCores))) Q dst bfsRounds
        [Sol.new (.as src)]
      have hnew : [Sol.new (Vertex.as src)].filter (Sol.allEdges Q) = [Sol.new (Vertex.as src)] := by
        simp [Sol.allEdges, Sol.new]
      unfold candidates
      rw [hb, hnew, graphOf_filter, h1]
    have hsort : (sortedCandidates src dst (inputSegs (cores ++ badCores) (nonCores ++ badNonCores))).filter
        (Sol.allEdges Q) = sortedCandidates src dst (inputSegs cores nonCores) := by
      unfold sortedCandidates
      rw [sortSols_filter, hcand]
    rcases combine_eq src dst (cores ++ badCores) (nonCores ++ badNonCores) hne with ⟨ps', hps', hc'⟩
    rcases combine_eq src dst cores nonCores hne with ⟨ps, hps, hc⟩
    rcases pathsOf_filter (Sol.allEdges Q) _ ps' hps' (by
      intro s hs hq
      apply hnothing s (mem_sortedCandidates.mp hs)
      simp only [Sol.allEdges, List.all_eq_false] at hq
      rcases hq with ⟨e, he, hqe⟩
      exact ⟨e, he, by simpa [Q] using hqe⟩) with ⟨ps'', h2, h3⟩
    rw [hsort, hps] at h2
    injection h2 with h2
    rw [hc', hc, ← h3, h2]

/-- non-vacuity of `garbage_independent_strong` with segments that DO form candidates: the all-zero-interface
segment between the requested ASes (its only candidate has no interface: dropped) -/
example : ∀ s ∈ candidates (graphOf (inputSegs ([] ++ []) ([upSeg] ++ [{ zeroIfSeg with entries :=
      [⟨3, 2000, 0, ⟨63, 0, 0, 0⟩, []⟩, ⟨1, 2000, 1280, ⟨63, 0, 0, 0⟩, []⟩] }]))) 1 3,
    (∃ e ∈ s.edges, e.seg ∉ inputSegs [] [upSeg]) → solPath s = .dropped := by
  decide +kernel

/-- in particular segments without AS entries are ignored (the documented behaviour of `add_segment`) -/
theorem empty_segments_ignored (src dst : Nat) (cores nonCores badCores badNonCores : List Seg)
    (hc : ∀ b ∈ badCores, b.entries = []) (hn : ∀ b ∈ badNonCores, b.entries = [])
    (hbc : ∀ b ∈ badCores, (⟨true, b⟩ : InSeg) ∉ inputSegs cores nonCores)
    (hbn : ∀ b ∈ badNonCores, (⟨false, b⟩ : InSeg) ∉ inputSegs cores nonCores) :
    combine src dst (cores ++ badCores) (nonCores ++ badNonCores) = combine src dst cores nonCores := by
  apply garbage_independent src dst cores nonCores badCores badNonCores hbc hbn
  intro s hs e he
  have hg := (candidates_solOk _ _ _ s hs).edges_mem e he
  have hpos := (graphOf_edgeOk hg).sc_lt
  have hmem := (mem_graphOf hg).1
  simp only [inputSegs, List.map_append, List.mem_append, List.mem_map] at hmem ⊢
  rcases hmem with (⟨a, ha, hae⟩ | ⟨a, ha, hae⟩) | (⟨a, ha, hae⟩ | ⟨a, ha, hae⟩)
  · exact Or.inl ⟨a, ha, hae⟩
  · exfalso; rw [← hae] at hpos; simp [Seg.len, hc a ha] at hpos
  · exact Or.inr ⟨a, ha, hae⟩
  · exfalso; rw [← hae] at hpos; simp [Seg.len, hn a ha] at hpos

/-- non-vacuity of `garbage_independent`: the all-zero-interface segment and an empty segment added to
`upSeg` leave the result untouched -/
example : combine 1 3 [⟨0, 0, [], 9⟩] [upSeg, zeroIfSeg] = combine 1 3 [] [upSeg] := by decide +kernel

end ScionVerif.Comb
