import ScionVerif.Lemmas.SnapTun
import ScionVerif.Lemmas.SnapTunConc
import ScionVerif.Lemmas.SnapTunEntry
/-!
# C09 — the SNAP tunnel carries traffic only for identities authorised at that moment

Property theorems over `Model/Registry.lean` (`identity_registry.rs`) and `Model/TunServer.lean`
(`snap-tun/src/server.rs`), for **every** operation history
`register(key,id,lifetime) | advance δ | purge | incoming(addr,pkt) | outgoing(addr,payload) | tick`
of any length, any number of keys / identities / addresses, any packet (handshake, data, garbage, replay).
The comparison `expires_at > now` is `Generated.SnapTun.authorizedAt`, regenerated from the Rust source.

WireGuard/Noise is the abstract machine `Wg`; only `attribution`, `tunnel_authenticated` and their corollaries need
a hypothesis about it (`Wg.Sound`: "a `Tunn` created for `peer_static` accepts only traffic authenticated by that
key") and take it as an explicit argument.  Everything else holds for *any* `Wg` – i.e. even for a broken WireGuard the server never lets anything
through for a tunnel whose `peer_static` is not authorised at that instant.

Defect found while building this (reproduced on the real code by `hx_snaptun`, fixed in /repo 9197560, the model
mirrors the fixed code): the server kept a tunnel entry for the static key *claimed* by a handshake initiation even
when the new tunnel rejected the handshake; `tunnel_authenticated` is the statement that was false.

Not covered by a theorem (see checks/C09.json `level_note`): `update_timers` is not gated by authorisation (gotatun
emits only keep-alives / handshake initiations there); the rate limiter's cookie reply; the real clock
(`Instant::now()` inside the handlers); liveness (an authorised client *can* get traffic through).
-/
namespace ScionVerif.SnapTun
open ScionVerif.Generated.SnapTun

section
variable {σ Pkt Net : Type}

/-! ## "At most one identity is registered per token key and one key per identity" -/

/-- The registry invariant holds after every history (from the empty registry). -/
theorem registry_invariant (w : Wg σ Pkt Net) (ops : List (Op Pkt)) : (run w {} ops).reg.Inv :=
  run_reg_inv Registry.inv_empty ops

/-- … and is preserved by every history from any state that satisfies it. -/
theorem registry_invariant_from (w : Wg σ Pkt Net) (s : Sys σ) (h : s.reg.Inv) (ops : List (Op Pkt)) :
    (run w s ops).reg.Inv :=
  run_reg_inv h ops

/-- At most one identity per token key, after every history. -/
theorem one_id_per_key (w : Wg σ Pkt Net) (ops : List (Op Pkt)) (k : Key) (i₁ i₂ : Id)
    (h₁ : (k, i₁) ∈ (run w {} ops).reg.assoc) (h₂ : (k, i₂) ∈ (run w {} ops).reg.assoc) : i₁ = i₂ :=
  AMap.val_unique_of_keys_nodup (registry_invariant w ops).keys_nodup h₁ h₂

/-- At most one token key per identity, after every history. -/
theorem one_key_per_id (w : Wg σ Pkt Net) (ops : List (Op Pkt)) (i : Id) (k₁ k₂ : Key)
    (h₁ : (k₁, i) ∈ (run w {} ops).reg.assoc) (h₂ : (k₂, i) ∈ (run w {} ops).reg.assoc) : k₁ = k₂ :=
  AMap.key_unique_of_vals_nodup (registry_invariant w ops).vals_nodup h₁ h₂

/-- What the code really maintains between the two maps: the identities bound to some key are exactly the
identities that have a registration record (no dangling association, no orphan record), and there is one
record per identity. -/
theorem associations_range_eq_sessions (w : Wg σ Pkt Net) (ops : List (Op Pkt)) (id : Id) :
    (id ∈ (run w {} ops).reg.assoc.vals ↔ id ∈ (run w {} ops).reg.sess.keys) ∧
      (run w {} ops).reg.sess.keys.Nodup :=
  ⟨(registry_invariant w ops).range_eq id, (registry_invariant w ops).sess_nodup⟩

/-- Consequently an identity is authorised only while some token key is bound to it. -/
theorem authorized_has_key (w : Wg σ Pkt Net) (ops : List (Op Pkt)) (t : Time) (id : Id)
    (h : (run w {} ops).reg.isAuthorized t id = some ()) : ∃ k, (k, id) ∈ (run w {} ops).reg.assoc := by
  obtain ⟨e, he, _⟩ := (Registry.isAuthorized_eq_some _ _ _).mp h
  exact AMap.exists_of_mem_vals
    (((registry_invariant w ops).range_eq id).mpr (AMap.mem_keys_of_mem (AMap.mem_of_get? he)))

/-! ## "expiry strictly after now" -/

/-- An identity is authorised at `now` iff it has a registration record whose expiry is *strictly* later. -/
theorem expiry_strict (r : Registry) (now : Time) (id : Id) :
    r.isAuthorized now id = some () ↔ ∃ e, r.sess.get? id = some e ∧ now < e :=
  Registry.isAuthorized_eq_some r now id

/-- `register(now, key, id, lifetime)` authorises `id` exactly on the half-open window `[.., now + lifetime)`:
at the expiry instant itself the identity is no longer authorised, and a zero lifetime authorises nothing. -/
theorem register_window (r : Registry) (now : Time) (key : Key) (id : Id) (life : Nat) (t : Time) :
    (r.register now key id life).1.isAuthorized t id = some () ↔ t < now + life := by
  rw [expiry_strict]
  unfold Registry.register
  rw [Registry.addIdentity_sess_get?]
  simp

/-- `remove_expired(now)` does not change any verdict at `now` (it only removes what is already refused). -/
theorem purge_keeps_verdicts (r : Registry) (h : r.Inv) (now : Time) (id : Id) :
    (r.cleanExpired now).isAuthorized now id = r.isAuthorized now id := by
  unfold Registry.isAuthorized
  rw [Registry.cleanExpired_sess_get? h.sess_nodup]
  cases r.sess.get? id with
  | none => rfl
  | some e =>
    by_cases ha : authorizedAt e now = true
    · simp [Option.filter, ha]
    · simp [Option.filter, ha]

/-! ## "delivered / encrypted only if the identity holds an unexpired registration at that time" -/

/-- For every state (hence after every history) and every operation: if a decrypted payload is handed to the SCION
side (`Forwarded`) or an outbound payload is accepted into the tunnel (`Some`), then the tunnel's peer static
identity has a registration record whose expiry is strictly after the current instant. -/
theorem forward_only_if_authorized (w : Wg σ Pkt Net) (s : Sys σ) (op : Op Pkt) (peer : Option Id)
    (h : (step w s op).2.flow = some peer) :
    ∃ id e, peer = some id ∧ s.reg.sess.get? id = some e ∧ s.now < e := by
  obtain ⟨id, hp, ha⟩ := step_flow h
  obtain ⟨e, he, hl⟩ := (expiry_strict _ _ _).mp ha
  exact ⟨id, e, hp, he, hl⟩

/-- The same for what a tunnel puts on the wire while an incoming datagram is handled (handshake response,
flushing of previously queued outbound payloads): only under a current authorisation. -/
theorem network_output_only_if_authorized (w : Wg σ Pkt Net) (s : Sys σ) (frm : Addr) (pkt : Pkt) (id : Id)
    (h : (step w s (.incoming frm pkt)).2.tunnelNet = some (some id)) :
    ∃ e, s.reg.sess.get? id = some e ∧ s.now < e := by
  simp only [step] at h
  generalize ho : handleIncoming w (s.reg.isAuthorized s.now) s.srv pkt frm = o at h
  have key : ∀ (n : List Net) (p : Option Id), o.net = n → o.peer = p →
      (Out.incoming n o.res p).tunnelNet = some (some id) → p = some id ∧ n ≠ [] := by
    intro n p _ _ hh
    cases n with
    | nil => simp [Out.tunnelNet] at hh
    | cons x xs =>
      cases p with
      | none => simp [Out.tunnelNet] at hh
      | some q =>
        simp only [Out.tunnelNet, Option.some.injEq] at hh
        exact ⟨by rw [hh], by simp⟩
  obtain ⟨hp, hn⟩ := key o.net o.peer rfl rfl h
  subst ho
  have := handleIncoming_net hp hn
  cases ha : s.reg.isAuthorized s.now id with
  | none => simp [ha] at this
  | some u => exact (expiry_strict _ _ _).mp ha

/-! ## "after a registration lapses or is superseded … nothing more flows … until the identity registers again" -/

/-- Lapse: at and after the expiry instant the identity is not authorised. -/
theorem expired_unauthorized (r : Registry) (now : Time) (id : Id) (e : Time)
    (h : r.sess.get? id = some e) (hexp : e ≤ now) : r.isAuthorized now id = none := by
  cases ha : r.isAuthorized now id with
  | none => rfl
  | some u =>
    obtain ⟨e', he', hl⟩ := (expiry_strict _ _ _).mp ha
    rw [h] at he'; cases he'; exact absurd hl (Nat.not_lt.mpr hexp)

/-- Supersession: registering a *different* identity under a token key that is bound to `old` removes `old`'s
registration; `old` is then authorised at no instant. -/
theorem superseded_unauthorized (r : Registry) (now : Time) (key : Key) (old id : Id) (life : Nat) (t : Time)
    (hk : r.assoc.get? key = some old) (hne : old ≠ id) :
    (r.register now key id life).1.isAuthorized t old = none := by
  rw [Registry.isAuthorized_eq_none]
  intro e he
  unfold Registry.register at he
  rw [Registry.addIdentity_sess_get?] at he
  simp [hk, hne, Ne.symm hne] at he

/-- **Lapse blocks.**  From any state in which `id` is not authorised (never registered, expired, purged, or
superseded), along *every* continuation that does not contain a `register _ id _`, no operation forwards a payload
from, or accepts an outbound payload for, a tunnel whose peer static identity is `id` – whatever WireGuard session
state persists, whatever packets arrive, however time advances. -/
theorem lapse_blocks (w : Wg σ Pkt Net) (s : Sys σ) (id : Id)
    (h : s.reg.isAuthorized s.now id = none)
    (ops : List (Op Pkt)) (hno : ∀ op ∈ ops, ∀ k l, op ≠ .register k id l)
    (pre : List (Op Pkt)) (op : Op Pkt) (post : List (Op Pkt)) (hsplit : ops = pre ++ op :: post) :
    (step w (run w s pre) op).2.flow ≠ some (some id) := by
  subst hsplit
  have hpre : (run w s pre).reg.isAuthorized (run w s pre).now id = none := by
    have hno' : ∀ op' ∈ pre, ∀ k l, op' ≠ .register k id l :=
      fun op' hm => hno op' (List.mem_append_left _ hm)
    clear hno
    induction pre generalizing s with
    | nil => exact h
    | cons o pre ih =>
      exact ih (step w s o).1 (step_unauth h o (hno' o (by simp)))
        (fun op' hm => hno' op' (List.mem_cons_of_mem _ hm))
  intro hf
  obtain ⟨id', hp, ha⟩ := step_flow hf
  cases hp
  rw [hpre] at ha
  cases ha

/-- The identity stays unauthorised along such a continuation (so `has_authorization` also answers `false`). -/
theorem lapse_persists (w : Wg σ Pkt Net) (s : Sys σ) (id : Id)
    (h : s.reg.isAuthorized s.now id = none)
    (ops : List (Op Pkt)) (hno : ∀ op ∈ ops, ∀ k l, op ≠ .register k id l) :
    (run w s ops).reg.isAuthorized (run w s ops).now id = none := by
  induction ops generalizing s with
  | nil => exact h
  | cons o ops ih =>
    exact ih (step w s o).1 (step_unauth h o (hno o (by simp)))
      (fun op' hm => hno op' (List.mem_cons_of_mem _ hm))

/-! ## "payloads are attributed to the session of the identity that cryptographically authenticated them" -/

/-- After every history: a forwarded payload was authenticated by the static key `id` that the tunnel at that
address was created for, the authorisation that let it through is `id`'s, and the session data handed to the caller
is the one the registry returns for `id` at that instant.  Uses the WireGuard hypothesis `hs`. -/
theorem attribution (w : Wg σ Pkt Net) (hs : w.Sound) (ops : List (Op Pkt)) (frm : Addr) (pkt : Pkt)
    (net : List Net) (pl : Payload) (sd : Unit) (peer : Option Id)
    (h : (step w (run w {} ops) (.incoming frm pkt)).2 = .incoming net (.forwarded pl sd) peer) :
    ∃ id, peer = some id ∧ w.signer pkt = some id ∧
      (run w {} ops).reg.isAuthorized (run w {} ops).now id = some sd ∧
      (∀ t, (run w {} ops).srv.tunnels.get? frm = some t → t.peerStatic = id) ∧
      ((step w (run w {} ops) (.incoming frm pkt)).1.srv.tunnels.get? frm).map (·.peerStatic) = some id := by
  have ho : (run w ({} : Sys σ) ops).srv.Owned hs := run_owned hs (fun _ _ hm => by cases hm) ops
  generalize run w ({} : Sys σ) ops = s at h ho ⊢
  simp only [step, Out.incoming.injEq] at h
  obtain ⟨hnet, hres, hpeer⟩ := h
  obtain ⟨id, hp, ha, hcase⟩ := handleIncoming_forwarded hres
  refine ⟨id, by rw [← hpeer, hp], ?_, ha, ?_, ?_⟩
  · rcases hcase with ⟨t, ht, hpe, hr⟩ | ⟨_, _, hr⟩
    · exact hs.decrypt _ _ _ _ (hpe ▸ ho frm t (AMap.mem_of_get? ht)) hr
    · exact hs.decrypt _ _ _ _ (hs.new id frm) hr
  · rcases hcase with ⟨t, ht, hpe, _⟩ | ⟨hnone, _, _⟩
    · intro t' ht'; rw [ht] at ht'; cases ht'; exact hpe
    · intro t' ht'; rw [hnone] at ht'; cases ht'
  · simp only [step, handleIncoming]
    rcases hcase with ⟨t, ht, hpe, _⟩ | ⟨hnone, hc, _⟩
    · cases hv : w.verify pkt with
      | cookie c => simp [handleIncoming, hv] at hres
      | err e => simp [handleIncoming, hv] at hres
      | ok =>
        subst hpe
        simp [ht, ha, AMap.get?_insert]
    · cases hv : w.verify pkt with
      | cookie c => simp [handleIncoming, hv] at hres
      | err e => simp [handleIncoming, hv] at hres
      | ok =>
        simp only [handleIncoming, hv, hnone, hc, ha] at hres
        obtain ⟨h1, _⟩ := acceptNew_forwarded hres
        simp [hnone, hc, ha, acceptNew, h1, AMap.get?_insert]

/-- Outbound: the session data returned with an accepted outbound payload is the one of the peer static identity
of the tunnel at that address, evaluated at that instant (any `Wg`, any state). -/
theorem attribution_outgoing (w : Wg σ Pkt Net) (s : Sys σ) (to : Addr) (payload : Payload)
    (n : Option Net) (sd : Unit) (peer : Option Id)
    (h : (step w s (.outgoing to payload)).2 = .outgoing (some (n, sd)) peer) :
    ∃ t, s.srv.tunnels.get? to = some t ∧ peer = some t.peerStatic ∧
      s.reg.isAuthorized s.now t.peerStatic = some sd := by
  simp only [step, Out.outgoing.injEq] at h
  obtain ⟨t, ht, hp, ha, _⟩ := handleOutgoing_some h.1
  exact ⟨t, ht, by rw [← h.2, hp], ha⟩

/-- The server is generic in its authorisation layer (`SnapTunAuthorization`); for *any* layer `authz` the session
data handed out with a forwarded packet is `authz`'s answer for the tunnel's peer static identity. -/
theorem attribution_generic {SD : Type} (w : Wg σ Pkt Net) (authz : Id → Option SD) (s : Server σ) (pkt : Pkt)
    (frm : Addr) (pl : Payload) (sd : SD) (h : (handleIncoming w authz s pkt frm).res = .forwarded pl sd) :
    ∃ id, (handleIncoming w authz s pkt frm).peer = some id ∧ authz id = some sd ∧
      (∀ t, s.tunnels.get? frm = some t → t.peerStatic = id) := by
  obtain ⟨id, hp, ha, hcase⟩ := handleIncoming_forwarded h
  refine ⟨id, hp, ha, ?_⟩
  rcases hcase with ⟨t, ht, hpe, _⟩ | ⟨hnone, _, _⟩
  · intro t' ht'; rw [ht] at ht'; cases ht'; exact hpe
  · intro t' ht'; rw [hnone] at ht'; cases ht'

end

/-- The tunnel table has one entry per remote address, after every history. -/
theorem one_tunnel_per_address (w : Wg σ Pkt Net) (ops : List (Op Pkt)) :
    (run w {} ops).srv.tunnels.keys.Nodup :=
  run_tunnels_nodup (by simp [AMap.keys]) ops

/-- As long as the entry for an address exists it keeps its peer static identity: no operation – in particular no
handshake of a second client (another identity, authorised or not) arriving from the same address – re-binds an
existing tunnel to another identity. -/
theorem peer_static_stable (w : Wg σ Pkt Net) (ops : List (Op Pkt)) (op : Op Pkt) (a : Addr) (t t' : Tunnel σ)
    (h : (run w {} ops).srv.tunnels.get? a = some t)
    (h' : (step w (run w {} ops) op).1.srv.tunnels.get? a = some t') : t'.peerStatic = t.peerStatic :=
  step_peer_stable (one_tunnel_per_address w ops) op a t t' h h'

/-- **Every tunnel entry is authenticated.**  After every history, the tunnel entry at address `a` (which attributes
all traffic at `a`, inbound and outbound, to `t.peerStatic`) was created by a datagram that arrived from `a` earlier
in the history and was cryptographically authenticated by `t.peerStatic` (`hs.accept`).  False before fix 9197560:
`parse_handshake_anon` only decrypts the *claimed* static key and the entry was inserted even when the new tunnel
rejected the handshake (corpus/C09/030-forged-handshake.case). -/
theorem tunnel_authenticated (w : Wg σ Pkt Net) (hs : w.Sound) (ops : List (Op Pkt)) (a : Addr) (t : Tunnel σ)
    (h : (run w {} ops).srv.tunnels.get? a = some t) :
    ∃ pre pkt post, ops = pre ++ .incoming a pkt :: post ∧ w.signer pkt = some t.peerStatic := by
  rcases run_tunnel_origin hs ops (fun _ _ => False) {} (by simp [AMap.keys])
    (fun a t h => by cases h) a t h with h | h
  · exact h.elim
  · exact h

/-- Hence an accepted outbound payload is attributed to an identity that authenticated itself from that address. -/
theorem attribution_outgoing_authenticated (w : Wg σ Pkt Net) (hs : w.Sound) (ops : List (Op Pkt)) (to : Addr)
    (payload : Payload) (n : Option Net) (sd : Unit) (peer : Option Id)
    (h : (step w (run w {} ops) (.outgoing to payload)).2 = .outgoing (some (n, sd)) peer) :
    ∃ id, peer = some id ∧ (run w {} ops).reg.isAuthorized (run w {} ops).now id = some sd ∧
      ∃ pre pkt post, ops = pre ++ .incoming to pkt :: post ∧ w.signer pkt = some id := by
  obtain ⟨t, ht, hp, ha⟩ := attribution_outgoing w _ to payload n sd peer h
  exact ⟨t.peerStatic, hp, ha, tunnel_authenticated w hs ops to t ht⟩

/-- The WireGuard hypothesis is satisfiable: the executable `Tunn` stand-in that the correspondence driver runs
against the real gotatun `Tunn` (timestamp replay check, session ring, replay filter, queue) satisfies it, so
`attribution` applies to the very model that is diffed against the implementation. -/
theorem attribution_driver_model (ops : List (Op GoWg.Pkt)) (frm : Addr) (pkt : GoWg.Pkt)
    (net : List GoWg.Net) (pl : Payload) (sd : Unit) (peer : Option Id)
    (h : (step GoWg.wg (run GoWg.wg {} ops) (.incoming frm pkt)).2 = .incoming net (.forwarded pl sd) peer) :
    ∃ id, peer = some id ∧ GoWg.wg.signer pkt = some id ∧
      (run GoWg.wg {} ops).reg.isAuthorized (run GoWg.wg {} ops).now id = some sd := by
  obtain ⟨id, h1, h2, h3, _⟩ := attribution GoWg.wg GoWg.sound ops frm pkt net pl sd peer h
  exact ⟨id, h1, h2, h3⟩

/-! ## every public entry point of `SnapTunServer`

`impl SnapTunServer` offers each packet-moving operation twice: `handle_incoming_packet_with_session` /
`handle_outgoing_packet_with_session` (the theorems above) and the compatibility wrappers `handle_incoming_packet` /
`handle_outgoing_packet` (`Model/TunServerEntry.lean`: `handleIncomingPlain`, `handleOutgoingPlain`, `stepVia`).
The property speaks about payloads, not about one Rust function: the statements below extend "only if authorised at
that instant" and "nothing flows after a lapse" to histories in which every operation goes through either entry
point, and `entry_points_pinned` stops checking when `impl SnapTunServer` gets a public function that the model does
not mirror (and the harness does not drive), or when a wrapper stops being the delegation that is modelled. -/

/-- Tie to the source: the `pub fn`s of all `impl .. SnapTunServer<..>` blocks (regenerated from server.rs on every
run) are exactly the entry points the model has a function for; the two compatibility wrappers are
`_with_session` followed by the projection `into_result` / `into_packet`. -/
theorem entry_points_pinned :
    SERVER_PUB_FNS = entryPoints.map (·.1) ∧ PLAIN_INCOMING_DELEGATES = true ∧ PLAIN_OUTGOING_DELEGATES = true := by
  decide

section
variable {σ Pkt Net : Type}

/-- The choice of the entry point does not change what happens to the system state … -/
theorem entry_same_state (w : Wg σ Pkt Net) (s : Sys σ) (v : Via) (op : Op Pkt) :
    (stepVia w s v op).1 = (step w s op).1 := by
  cases v <;> cases op <;> rfl

/-- … so a history with arbitrary entry points reaches the state of the history of the same operations through the
`_with_session` functions: every theorem above about `run w {} ops` speaks about mixed histories too. -/
theorem entry_same_run (w : Wg σ Pkt Net) (s : Sys σ) (ops : List (Via × Op Pkt)) :
    runVia w s ops = run w s (ops.map (·.2)) := by
  induction ops generalizing s with
  | nil => rfl
  | cons o ops ih =>
    show runVia w (stepVia w s o.1 o.2).1 ops = run w (step w s o.2).1 (ops.map (·.2))
    rw [entry_same_state]; exact ih _

/-- whatever the caller of *any* entry point gets through is a flow of the `_with_session` function underneath -/
theorem entry_flows {w : Wg σ Pkt Net} {s : Sys σ} {v : Via} {op : Op Pkt}
    (h : (stepVia w s v op).2.flows = true) : ∃ peer, (step w s op).2.flow = some peer := by
  have hs : ∀ o : Out Net, (VOut.session o).flows = true → ∃ peer, o.flow = some peer := by
    intro o ho
    simp only [VOut.flows] at ho
    cases hf : o.flow with
    | none => simp [hf] at ho
    | some p => exact ⟨p, rfl⟩
  cases v with
  | session => cases op <;> exact hs _ h
  | plain =>
    cases op with
    | incoming frm pkt =>
      simp only [stepVia, handleIncomingPlain] at h
      simp only [step]
      cases hr : (handleIncoming w (s.reg.isAuthorized s.now) s.srv pkt frm).res with
      | forwarded pl sd => exact ⟨_, rfl⟩
      | result r =>
        rw [hr] at h
        -- `Result { result }` never carries `WriteToTunnel` (incoming_packet_result turns it into `Forwarded`)
        exfalso
        cases r with
        | writeToTunnel pl =>
          have := handleIncoming_result_not_wtt (w := w) (authz := s.reg.isAuthorized s.now) (s := s.srv)
            (pkt := pkt) (frm := frm) pl
          exact this hr
        | done => simp [InRes.intoResult, VOut.flows] at h
        | err e => simp [InRes.intoResult, VOut.flows] at h
        | writeToNetwork n => simp [InRes.intoResult, VOut.flows] at h
    | outgoing to pl =>
      simp only [stepVia, handleOutgoingPlain] at h
      simp only [step]
      cases hr : (handleOutgoing w (s.reg.isAuthorized s.now) s.srv pl to).res with
      | none => rw [hr] at h; simp [VOut.flows] at h
      | some x => exact ⟨_, rfl⟩
    | register k i l => exact hs _ h
    | advance d => exact hs _ h
    | purge => exact hs _ h
    | tick => exact hs _ h

/-- **Every entry point is gated.**  For every state and every operation through either public function: if the
caller gets a decrypted payload (`Forwarded`, or `TunnResult::WriteToTunnel` from `handle_incoming_packet`), or an
outbound payload is accepted (`Some` from `handle_outgoing_packet_with_session`), or `handle_outgoing_packet` returns
a packet to send to the client, then the identity `id` whose authorisation was consulted – the peer static identity
of the tunnel at that address (`attribution`, `attribution_outgoing`) – has a registration record whose expiry is
strictly after the current instant. -/
theorem every_entry_only_if_authorized (w : Wg σ Pkt Net) (s : Sys σ) (v : Via) (op : Op Pkt)
    (h : (stepVia w s v op).2.flows = true) :
    ∃ id e, (step w s op).2.flow = some (some id) ∧ s.reg.sess.get? id = some e ∧ s.now < e := by
  obtain ⟨peer, hp⟩ := entry_flows h
  obtain ⟨id, e, hid, he, hl⟩ := forward_only_if_authorized w s op peer hp
  exact ⟨id, e, by rw [hp, hid], he, hl⟩

/-- **Lapse blocks every entry point.**  From any state in which `id` is not authorised, along every continuation –
each operation through either entry point – that does not register `id` again: whatever gets through, through
whichever public function, gets through for the tunnel of another identity. -/
theorem lapse_blocks_every_entry (w : Wg σ Pkt Net) (s : Sys σ) (id : Id)
    (h : s.reg.isAuthorized s.now id = none)
    (ops : List (Via × Op Pkt)) (hno : ∀ o ∈ ops, ∀ k l, o.2 ≠ .register k id l)
    (pre : List (Via × Op Pkt)) (v : Via) (op : Op Pkt) (post : List (Via × Op Pkt))
    (hsplit : ops = pre ++ (v, op) :: post)
    (hf : (stepVia w (runVia w s pre) v op).2.flows = true) :
    ∃ id', id' ≠ id ∧ (step w (runVia w s pre) op).2.flow = some (some id') := by
  obtain ⟨id', e, hfl, _, _⟩ := every_entry_only_if_authorized w _ v op hf
  refine ⟨id', ?_, hfl⟩
  rintro rfl
  rw [entry_same_run] at hfl
  refine lapse_blocks w s id' h (ops.map (·.2)) ?_ (pre.map (·.2)) op (post.map (·.2)) ?_ hfl
  · intro op' hm k l
    obtain ⟨o, ho, rfl⟩ := List.mem_map.mp hm
    exact hno o ho k l
  · rw [hsplit]; simp

end

-- non-vacuity (toy WireGuard of `Example` below is defined later; the executable stand-in is available here):
-- identity 0 registered for 2 ticks, genuine handshake + first data from address 0, then the registration lapses
namespace EntryExample
def hist : List (Via × Op GoWg.Pkt) :=
  [(.session, .register 0 0 2), (.plain, .incoming 0 (.init (some 0) 0 1 1)),
   (.plain, .incoming 0 (.data (some 0) 1 0 1 0 [7]))]
-- while authorised, both wrappers let traffic through …
example : (stepVia GoWg.wg (runVia GoWg.wg {} (hist.take 2)) .plain (.incoming 0 (.data (some 0) 1 0 1 0 [7]))).2
    = .incomingPlain [] (.writeToTunnel [7]) := by decide
example : (stepVia GoWg.wg (runVia GoWg.wg {} hist) .plain (.outgoing 0 [9])).2.flows = true := by decide
-- … after the lapse neither does, although the WireGuard session is still there
example : (stepVia GoWg.wg (runVia GoWg.wg {} (hist ++ [(.session, .advance 2)])) .plain (.outgoing 0 [9])).2
    = .outgoingPlain none := by decide
example : (stepVia GoWg.wg (runVia GoWg.wg {} (hist ++ [(.session, .advance 2)])) .plain
    (.incoming 0 (.data (some 0) 1 0 1 1 [8]))).2 = .incomingPlain [] (.err .unexpectedPacket) := by decide
-- accepted but only queued (no session yet): `_with_session` says `Some`, the wrapper has nothing to send
example : (stepVia GoWg.wg (runVia GoWg.wg {} (hist.take 2)) .plain (.outgoing 0 [9])).2 = .outgoingPlain (some .init) := by
  decide
end EntryExample

/-! ## "schedules": concurrent `register` / `remove_expired` calls are equivalent to a sequential history

`IdentityRegistry::update_state` is lock – load+clone – modify – store – unlock; the translator classifies its
statements into `Generated.SnapTun.UPDATE_STEPS` and `Conc.program` is computed from that list.  The machine of
`Model/RegistryConc.lean` runs `n` threads, thread `j` with an arbitrary modifier `fs j`, under an arbitrary
schedule (a blocked `acquire` stutters).  Assumed about the libraries: `Mutex` is a mutex, `ArcSwap::load/store`
are atomic. -/
namespace Conc

/-- Tie to the source: the code as it is now takes the write lock first and holds it to the end.  Stops checking
when the `let _guard = self.write_lock.lock()…` statement disappears (seeded change C09-update-without-lock). -/
theorem program_is_locked : UPDATE_UNDER_WRITE_LOCK = true ∧ program = lockedProgram := by decide

/-- **Serialisability** (any number of threads, any modifiers, any schedule).  In every reachable configuration the
threads that acquired the lock so far did so at most once each; and when all `n` calls have returned, every thread
acquired it exactly once (`order` is a permutation of `0..n-1`), the lock is free and the shared state is the result
of applying the modifiers **sequentially in acquisition order** to the initial state. -/
theorem update_state_serializable {S : Type} (fs : Nat → S → S) (n : Nat) (σ0 : S) (sched : List Nat) :
    let c := run fs n (init program σ0) sched
    c.order.Nodup ∧ (∀ j ∈ c.order, j < n) ∧
      (c.allDone n → c.lock = none ∧ c.order.Perm (List.range n) ∧ c.shared = seq fs σ0 c.order) := by
  intro c
  have h : Inv fs σ0 n c := by
    show Inv fs σ0 n (run fs n (init program σ0) sched)
    rw [program_is_locked.2]
    exact inv_run (inv_init fs σ0 n) sched
  exact ⟨h.nodup, h.mem, inv_allDone h⟩

/-- **Readers see a prefix of that sequential history.**  At every moment of every execution the shared state (what
`has_authorization` / `is_authorized` get from their single `load`) is the sequential result of a prefix `pre` of the
acquisition order – all of it or all but the thread that currently holds the lock – and the acquisition order of
any continuation `more` of the schedule extends the current one, so `pre` is a prefix of the final history too. -/
theorem update_state_reads_prefix {S : Type} (fs : Nat → S → S) (n : Nat) (σ0 : S) (sched more : List Nat) :
    let c := run fs n (init program σ0) sched
    ∃ pre, pre <+: c.order ∧ c.order.length ≤ pre.length + 1 ∧ c.shared = seq fs σ0 pre ∧
      pre <+: (run fs n (init program σ0) (sched ++ more)).order := by
  intro c
  have h : Inv fs σ0 n c := by
    show Inv fs σ0 n (run fs n (init program σ0) sched)
    rw [program_is_locked.2]
    exact inv_run (inv_init fs σ0 n) sched
  obtain ⟨pre, hp, hl, hs⟩ := inv_shared_prefix h
  refine ⟨pre, hp, hl, hs, ?_⟩
  rw [run_append]
  exact List.IsPrefix.trans hp (order_prefix_run fs n c more)

/-- **Connection to the sequential model.**  `n = calls.length` concurrent calls of `register` / `remove_expired`
(each with its own `now`), any schedule: when all have returned, the registry is the result of applying the same
calls one after the other in some order `perm` (a permutation of `calls`) – a sequential history, to which every
sequential theorem above applies. -/
theorem concurrent_updates_sequential (calls : List Call) (r0 : Registry) (sched : List Nat)
    (hd : (run (callFs calls) calls.length (init program r0) sched).allDone calls.length) :
    ∃ perm, perm.Perm calls ∧
      (run (callFs calls) calls.length (init program r0) sched).shared = Call.runSeq r0 perm := by
  obtain ⟨_, hmem, hfin⟩ := update_state_serializable (callFs calls) calls.length r0 sched
  obtain ⟨_, hperm, hsh⟩ := hfin hd
  refine ⟨_, ?_, hsh.trans (seq_callFs_eq_runSeq calls r0 _ hmem)⟩
  have := hperm.filterMap (calls[·]?)
  rwa [filterMap_getElem?_range] at this

/-- Hence the registry invariant (one identity per key, one key per identity, associations = registrations) holds of
the shared registry at **every** moment of every concurrent execution – whatever a reader loads satisfies it. -/
theorem concurrent_registry_invariant (calls : List Call) (r0 : Registry) (h0 : r0.Inv) (sched : List Nat) :
    (run (callFs calls) calls.length (init program r0) sched).shared.Inv := by
  obtain ⟨pre, _, _, hs, _⟩ := update_state_reads_prefix (callFs calls) calls.length r0 sched []
  rw [hs]
  exact seq_callFs_inv calls h0 pre

/-- **Supersession under concurrency** (the scenario of review finding 7, for any number of concurrent calls and any
schedule).  Token key `k` is bound to identity `A`.  Among the concurrent calls there is a registration of another
identity `B` under `k`, and none of them registers `A` (so `B ≠ A`).  When all calls have returned, `A` is authorised at no
instant – no update is lost, whatever the interleaving. -/
theorem concurrent_supersede_unauthorized (calls : List Call) (r0 : Registry) (h0 : r0.Inv) (k : Key) (A B : Id)
    (hk : r0.assoc.get? k = some A) (now0 : Time) (life0 : Nat)
    (hin : Call.register now0 k B life0 ∈ calls) (hno : ∀ c ∈ calls, ¬ c.registers A) (sched : List Nat)
    (hd : (run (callFs calls) calls.length (init program r0) sched).allDone calls.length) (t : Time) :
    (run (callFs calls) calls.length (init program r0) sched).shared.isAuthorized t A = none := by
  obtain ⟨perm, hperm, hsh⟩ := concurrent_updates_sequential calls r0 sched hd
  rw [hsh]
  exact Call.runSeq_superseded perm (fun c hc => hno c (hperm.mem_iff.mp hc)) _ (hperm.mem_iff.mpr hin)
    ⟨now0, B, life0, rfl⟩ h0 (Or.inr (AMap.mem_of_get? hk))

/-! ### the lock is needed: the same machine without `acquire`/`release` loses an update

`programOf [1, 2, 3]` is what the translator emits when the lock statement is missing (or bound to `_`).  Registry:
token key 1 → identity 10.  Thread 0 registers identity 11 under key 1 (supersedes 10), thread 1 registers identity 12
under key 2.  Schedule: both load, both modify, thread 0 stores, thread 1 stores.  Thread 0's update is lost: the
result is that of NO sequential order, and the superseded identity 10 is still authorised. -/
namespace Witness
def r0 : Registry := (({} : Registry).register 0 1 10 100).1
def calls : List Call := [.register 0 1 11 100, .register 0 2 12 100]
def sched : List Nat := [0, 1, 0, 1, 0, 1]
def unlocked : Config Registry := run (callFs calls) 2 (init (programOf [1, 2, 3]) r0) sched
end Witness

theorem lost_update_without_lock_witness :
    programOf [1, 2, 3] = [.load, .modify, .store] ∧
    Witness.unlocked.allDone 2 ∧
    Witness.unlocked.shared.isAuthorized 50 10 = some () ∧
    Witness.unlocked.shared.isAuthorized 50 11 = none ∧
    (∀ perm, perm ∈ [Witness.calls, Witness.calls.reverse] → Witness.unlocked.shared ≠ Call.runSeq Witness.r0 perm) := by
  decide

-- non-vacuity: the same calls under the same (and under a blocked-thread) schedule WITH the lock all return, and the
-- superseded identity is not authorised; `allDone` is reachable
example : (run (callFs Witness.calls) 2 (init program Witness.r0) [0, 1, 0, 1, 0, 1, 0, 0, 1, 1, 1, 1, 1]).allDone 2 := by
  decide
example : (run (callFs Witness.calls) 2 (init program Witness.r0) [0, 1, 0, 1, 0, 1, 0, 0, 1, 1, 1, 1, 1]).shared.isAuthorized
    50 10 = none := by decide
example : (run (callFs Witness.calls) 2 (init program Witness.r0) [0, 1, 0, 1, 0, 1, 0, 0, 1, 1, 1, 1, 1]).order = [0, 1] := by
  decide
-- hypotheses of `concurrent_supersede_unauthorized` are satisfiable (key 1 bound to 10, call 0 registers 11 under key 1)
example : Witness.r0.Inv ∧ Witness.r0.assoc.get? 1 = some 10 ∧ Call.register 0 1 11 100 ∈ Witness.calls ∧
    (∀ c ∈ Witness.calls, ¬ c.registers 10) :=
  ⟨Registry.addIdentity_inv Registry.inv_empty _ _ _, by decide, by decide, by
    intro c hc; simp only [Witness.calls, List.mem_cons, List.mem_nil_iff, or_false] at hc
    rcases hc with rfl | rfl <;> simp [Call.registers]⟩
-- thread 1 first: the other sequential history, same verdict for the superseded identity
example : (run (callFs Witness.calls) 2 (init program Witness.r0) [1, 0, 1, 1, 0, 1, 1, 0, 0, 0, 0, 0]).order = [1, 0] := by
  decide
-- a reader in the middle (thread 0 holds the lock and has not stored) sees the pre-state: identity 10 still authorised
example : (run (callFs Witness.calls) 2 (init program Witness.r0) [0, 0, 0]).shared = Witness.r0 := by decide

end Conc

/-! ## non-vacuity: a concrete WireGuard stand-in and concrete histories -/

namespace Example
/-- packets: `(isInit, signer)`; a tunnel state is its owner; data from the owner decrypts to payload `[7]` -/
def toy : Wg Id (Bool × Id) Nat where
  verify _ := .ok
  initClaim p := if p.1 then some (.ok p.2) else none
  new id _ := id
  recv s p := if p.1 then (s, if p.2 = s then .writeToNetwork 0 else .err (.tunn 1))
              else (s, if p.2 = s then .writeToTunnel [7] else .err (.tunn 2))
  queued s := (s, [])
  send s _ := (s, some 1)
  tick s := (s, none)
  expired _ := false
  signer p := some p.2

def toySound : toy.Sound where
  owns s id := s = id
  new _ _ := rfl
  recv s id p h := by simp only [toy]; split <;> exact h
  queued _ _ h := h
  send _ _ _ h := h
  tick _ _ h := h
  decrypt s id p pl h hr := by
    simp only [toy] at hr
    split at hr
    · split at hr <;> cases hr
    · split at hr
      · rename_i he; simp only [toy]; rw [he, h]
      · cases hr
  accept id a p h := by
    simp only [toy] at h ⊢
    by_cases hp : p.2 = id
    · rw [hp]
    · exfalso
      by_cases h1 : p.1 = true
      · exact h (.tunn 1) (by simp [h1, hp])
      · exact h (.tunn 2) (by simp [h1, hp])

/-- register id 5 under key 1 for 10 ticks, handshake from address 3, data from address 3: forwarded -/
def hist : List (Op (Bool × Id)) := [.register 1 5 10, .incoming 3 (true, 5), .incoming 3 (false, 5)]

example : (step toy (run toy {} (hist.take 2)) (.incoming 3 (false, 5))).2.flow = some (some 5) := by decide
example : (step toy (run toy {} (hist.take 2)) (.outgoing 3 [1])).2.flow = some (some 5) := by decide
-- after the lifetime has passed (hypothesis of `lapse_blocks` satisfiable, conclusion non-trivial):
example : (run toy {} (hist ++ [.advance 10])).reg.isAuthorized (run toy {} (hist ++ [.advance 10])).now 5 = none := by
  decide
example : (step toy (run toy {} (hist ++ [.advance 10])) (.incoming 3 (false, 5))).2.flow = none := by decide
-- one tick earlier it still flows (strictness of the bound):
example : (step toy (run toy {} (hist ++ [.advance 9])) (.incoming 3 (false, 5))).2.flow = some (some 5) := by decide
-- supersession under the same key: identity 6 replaces 5, the established tunnel of 5 is dead at once
example : (step toy (run toy {} (hist ++ [.register 1 6 10])) (.incoming 3 (false, 5))).2.flow = none := by decide
example : (run toy {} (hist ++ [.register 1 6 10])).reg.assoc = [(1, 6)] := by decide
-- identity moved to another key: the old key loses it (one key per identity)
example : (run toy {} (hist ++ [.register 2 5 10])).reg.assoc = [(2, 5)] := by decide
-- a second client (identity 6, authorised) on the same address cannot take over 5's tunnel entry
example : ((run toy {} (hist ++ [.register 2 6 10, .incoming 3 (true, 6)])).srv.tunnels.get? 3).map (·.peerStatic)
    = some 5 := by decide
example : (step toy (run toy {} hist) (.incoming 3 (false, 5))).2
    = .incoming [] (.forwarded [7] ()) (some 5) := by decide
end Example

namespace ForgedExample
/-- forged handshake initiation (claims identity 0, produced by nobody who holds that key) from address 0 while
identity 0 is registered: refused, and – since fix 9197560 – no tunnel entry, so a following outbound payload for
address 0 is not accepted -/
def hist : List (Op GoWg.Pkt) := [.register 0 0 8, .incoming 0 (.init none 0 1 1)]
example : (run GoWg.wg {} hist).srv.tunnels = [] := by decide
example : (step GoWg.wg (run GoWg.wg {} hist) (.outgoing 0 [1])).2.flow = none := by decide
-- the genuine one creates the entry
example : ((run GoWg.wg {} [.register 0 0 8, .incoming 0 (.init (some 0) 0 1 1)]).srv.tunnels.get? 0).map
    (·.peerStatic) = some 0 := by decide
end ForgedExample

end ScionVerif.SnapTun
