import ScionVerif.Lemmas.Policy
/-!
# C16 — path policy languages mean what their specification says

Property theorems over the models `Model/{HopPred,Acl,HopPattern}.lean` (constants from
`Generated/Policy.lean`) against the declarative specifications of `Spec/Regex.lean`
(`Lang`: textbook denotation of regular expressions; `aclAllows`: first-match-per-item).
All statements are for every ACL, every expression / pattern (any nesting depth), every hop sequence
(any length) – no bound.  Helper lemmas: `Lemmas/Policy.lean`.
-/
namespace ScionVerif.Policy
open ScionVerif.Generated.Policy ScionVerif.Spec

/-! ## 1. ACL = first-match semantics -/

/- Full statement (FALSE on the current code for the empty path, see `acl_eq_spec_witness`):
   theorem acl_eq_spec (acl : Acl) (hs : List Hop) :
     acl.matches hs = true ↔ aclAllows Pred.matches acl.rules acl.defaultAllow hs -/

/-- **ACL, every non-empty path.**  `AclPolicy::matches` allows the path iff for every hop the first entry
whose predicate matches the hop is an allow entry, the default deciding when none matches. -/
theorem acl_eq_spec_partial (acl : Acl) (hs : List Hop) (hne : hs ≠ []) :
    acl.matches hs = true ↔ aclAllows Pred.matches acl.rules acl.defaultAllow hs := by
  unfold Acl.matches
  cases hs with
  | nil => exact absurd rfl hne
  | cons h hs =>
    cases he : acl.entries with
    | nil =>
      simp only [List.isEmpty_cons, List.isEmpty_nil, Bool.false_or, if_true, aclAllows, firstMatch,
        Acl.rules, he, List.map_nil, List.find?_nil, Acl.defaultAllow]
      simp only [beq_iff_eq, List.mem_cons, forall_eq_or_imp]
      exact ⟨fun h => ⟨h, fun _ _ => h⟩, fun h => h.1⟩
    | cons e es =>
      simp only [List.isEmpty_cons, Bool.or_self, Bool.false_eq_true, if_false]
      exact hopLoop_iff acl (h :: hs)

/-- the same statement for every path under an allow default (the two coincide there) -/
theorem acl_eq_spec_default_allow (acl : Acl) (hs : List Hop) (hd : acl.default = .allow) :
    acl.matches hs = true ↔ aclAllows Pred.matches acl.rules acl.defaultAllow hs := by
  cases hs with
  | nil => simp [Acl.matches, aclAllows, hd]
  | cons h hs => exact acl_eq_spec_partial acl (h :: hs) (by simp)

/-- **What the code does on the empty path**: the default decides, although no hop is denied. -/
theorem acl_empty_path (acl : Acl) : acl.matches [] = (acl.default == .allow) := by
  simp [Acl.matches]

/-- **Witness** (DESIGN §9 row 13, replayed on the real code by `hx_policy` on every run):
`AclPolicy::parse("+ 1-ff00:0:110 -").matches(&[])` is `false` although the first-match specification
(vacuously) allows the empty path. -/
theorem acl_eq_spec_witness :
    ∃ acl : Acl, parseAcl "+ 1-ff00:0:110 -".toList = .ok acl ∧
      ¬ (acl.matches [] = true ↔ aclAllows Pred.matches acl.rules acl.defaultAllow []) := by
  refine ⟨⟨[⟨.allow, ⟨1, some 0xff0000000110, .any⟩⟩], .deny⟩, by decide +kernel, ?_⟩
  simp [Acl.matches, aclAllows]

example : ∃ (acl : Acl) (hs : List Hop), hs ≠ [] ∧ acl.matches hs = true ∧ acl.entries ≠ [] :=
  ⟨⟨[⟨.allow, ⟨1, none, .any⟩⟩], .deny⟩, [⟨1, 5, 0, 1⟩], by simp, by decide, by simp⟩

/-! ## 2. hop pattern = regular language -/

/-- **Matcher = language** (`match_from`): from any start position `p` inside the path, the returned
position set consists exactly of the `q` with `p ≤ q ≤ hs.length` such that the hops `hs[p..q]` form a word
of the language denoted by the expression – for every expression (nullable bodies under `+` / `*`, nested
repetition, alternation with quantified arms included) and every hop sequence. -/
theorem matchFrom_iff (e : Expr) (hs : List Hop) (p q : Nat) (hp : p ≤ hs.length) :
    q ∈ matchFrom e hs p ↔ p ≤ q ∧ q ≤ hs.length ∧ Lang Sat (denote e) ((hs.drop p).take (q - p)) :=
  matchFrom_extract e hs p q hp

/-- soundness alone needs no assumption on `p` -/
theorem matchFrom_sound (e : Expr) (hs : List Hop) (p q : Nat) (hp : p ≤ hs.length)
    (h : q ∈ matchFrom e hs p) : ∃ w, Lang Sat (denote e) w ∧ hs.drop p = w ++ hs.drop q :=
  ((matchFrom_split e hs p q hp).mp h).2

/-- **A hop pattern allows a path exactly when the hop sequence belongs to the regular language denoted by
the pattern** (juxtaposition = concatenation, `|` = union, `?` `+` `*` = zero-or-one / one-or-more /
zero-or-more). -/
theorem policy_iff_lang (es : List Expr) (hs : List Hop) :
    matchPolicy es hs = true ↔ Lang Sat (denotePolicy es) hs :=
  matchPolicy_iff es hs

/-- **The `while !frontier.is_empty()` loop of `all_nested_matches` terminates**: after at most
`hops.len() + 1` rounds the frontier is empty – giving the loop any number of additional rounds does not
change its result.  (Stated for the loop started as the code starts it, for every inner expression.) -/
theorem closure_fuel_sufficient (a : Expr) (hs : List Hop) (pos : Nat) (hpos : pos ≤ hs.length) (extra : Nat) :
    closure (matchFrom a hs) (hs.length + 1 + extra) (absorb (matchFrom a hs pos) ([], [])).2
        (absorb (matchFrom a hs pos) ([], [])).1
      = allNestedWith (matchFrom a hs) hs.length pos := by
  have hb : ∀ x ≤ hs.length, ∀ y ∈ matchFrom a hs x, y ≤ hs.length :=
    fun x hx y hy => ((matchFrom_split a hs x y hx).mp hy).1
  have hmem := absorb_mem_all (matchFrom a hs pos) [] []
  have hnext := absorb_mem_next (matchFrom a hs pos) [] []
  have hlen := absorb_length (matchFrom a hs pos) [] []
  unfold allNestedWith
  apply closure_fuel_irrelevant _ _ hb
  · intro x hx
    rcases (hnext x).mp hx with h | ⟨h, _⟩
    · simp at h
    · exact (hmem x).mpr (.inr h)
  · intro x hx
    rcases (hmem x).mp hx with h | h
    · simp at h
    · exact hb pos hpos x h
  · exact absorb_nodup _ _ _ List.nodup_nil
  · cases hn : (absorb (matchFrom a hs pos) ([], [])).2 with
    | nil => exact .inl rfl
    | cons n ns =>
      right
      rw [hn] at hlen; simp only [List.length_cons, List.length_nil] at hlen; omega

/-- **Matching never indexes out of range and never leaves the path**: every position handed from one
expression to the next is `≤ hops.len()` (`hops[pos]` is only evaluated under `pos < hops.len()`; the model's
`hs[pos]?` makes the guard explicit).  Termination of `matchFrom` / `matchPolicy` themselves is Lean's
termination check of the (structurally recursive) model. -/
theorem match_total (e : Expr) (hs : List Hop) (p q : Nat) (hp : p ≤ hs.length) (h : q ∈ matchFrom e hs p) :
    p ≤ q ∧ q ≤ hs.length :=
  let h' := (matchFrom_extract e hs p q hp).mp h
  ⟨h'.1, h'.2.1⟩

-- non-vacuity: a nullable body under `+` (`(1?)+`) on a two-hop path, both directions of the equivalence used
example : matchPolicy [.oneOrMore (.optional (.pred ⟨1, none, .any⟩))] [⟨1, 5, 0, 1⟩, ⟨1, 6, 1, 0⟩] = true := by
  decide +kernel
example : Lang Sat (denotePolicy [.oneOrMore (.optional (.pred ⟨1, none, .any⟩))]) [⟨1, 5, 0, 1⟩, ⟨1, 6, 1, 0⟩] :=
  (policy_iff_lang _ _).mp (by decide +kernel)
example : ¬ Lang Sat (denotePolicy [.zeroOrMore (.pred ⟨1, none, .any⟩), .pred ⟨2, none, .any⟩]) [⟨1, 5, 0, 1⟩] :=
  fun h => absurd ((policy_iff_lang _ _).mpr h) (by decide +kernel)

end ScionVerif.Policy
