import ScionVerif.Lemmas.Policy
/-!
# C16 — path policy languages mean what their specification says

Property theorems over the models `Model/{HopPred,Acl,HopPattern}.lean` (constants from
`Generated/Policy.lean`) against the declarative specifications of `Spec/Regex.lean`
(`Lang`: textbook denotation of regular expressions; `aclAllows`: first-match-per-item) and of
`Spec/HopPred.lean` (`predMatches`: when a hop predicate matches a hop).  The atom relation of `Lang` and the
`holds` test of `aclAllows` are instantiated with that specification (`Sat p h := Spec.predMatches p.toSpec
h.toSpec`, `satB := decide ∘ Sat`; `toSpec` copies the fields), not with the model's matcher.
All statements are for every ACL, every expression / pattern (any nesting depth), every hop sequence
(any length) – no bound.  Helper lemmas: `Lemmas/Policy.lean`.
-/
namespace ScionVerif.Policy
open ScionVerif.Generated.Policy ScionVerif.Spec

/-! ## 0. hop predicate matching = its specification -/

/-- **`HopPredicate::matches` = the specification**, for every predicate and every hop: ISD and AS number match
when equal or when either side is the wildcard 0, a missing AS part constrains nothing, only the predicate's
interface 0 is a wildcard (a hop's ingress / egress 0 at the first / last hop is an ordinary value), `Either`
asks one of the two interfaces, `Both` asks each. -/
theorem pred_matches_spec (p : Pred) (h : Hop) :
    p.matches h = true ↔ Spec.predMatches p.toSpec h.toSpec :=
  pred_matches_iff p h

-- what the specification says at the first hop of a path (ingress 0, egress 4):
-- "1-5#3,4" does not match, "1-5#0,4" and "1-5#4" do, "1-5#3" does not; a hop in ISD 0 / AS 0 satisfies every ISD / AS part
example : ¬ Spec.predMatches ⟨1, some 5, .both 3 4⟩ ⟨1, 5, 0, 4⟩ :=
  fun h => absurd ((pred_matches_iff ⟨1, some 5, .both 3 4⟩ ⟨1, 5, 0, 4⟩).mpr h) (by decide)
example : Spec.predMatches ⟨1, some 5, .both 0 4⟩ ⟨1, 5, 0, 4⟩ :=
  (pred_matches_iff ⟨1, some 5, .both 0 4⟩ ⟨1, 5, 0, 4⟩).mp (by decide)
example : Spec.predMatches ⟨1, some 5, .either 4⟩ ⟨1, 5, 0, 4⟩ :=
  (pred_matches_iff ⟨1, some 5, .either 4⟩ ⟨1, 5, 0, 4⟩).mp (by decide)
example : ¬ Spec.predMatches ⟨1, some 5, .either 3⟩ ⟨1, 5, 0, 4⟩ :=
  fun h => absurd ((pred_matches_iff ⟨1, some 5, .either 3⟩ ⟨1, 5, 0, 4⟩).mpr h) (by decide)
example : Spec.predMatches ⟨1, some 5, .any⟩ ⟨0, 0, 7, 8⟩ :=
  (pred_matches_iff ⟨1, some 5, .any⟩ ⟨0, 0, 7, 8⟩).mp (by decide)

/-! ## 1. ACL = first-match semantics -/

/- Full statement (FALSE on the current code for the empty path, see `acl_eq_spec_witness`):
   theorem acl_eq_spec (acl : Acl) (hs : List Hop) :
     acl.matches hs = true ↔ aclAllows satB acl.rules acl.defaultAllow hs -/

/-- **ACL, every non-empty path.**  `AclPolicy::matches` allows the path iff for every hop the first entry
whose predicate matches the hop (in the sense of `Spec.predMatches`) is an allow entry, the default deciding
when none matches. -/
theorem acl_eq_spec_partial (acl : Acl) (hs : List Hop) (hne : hs ≠ []) :
    acl.matches hs = true ↔ aclAllows satB acl.rules acl.defaultAllow hs := by
  rw [satB_eq]
  unfold Acl.matches
  cases hs with
  | nil => exact absurd rfl hne
  | cons h hs =>
    cases he : acl.entries with
    | nil =>
      simp only [List.isEmpty_cons, List.isEmpty_nil, Bool.false_or, if_true, aclAllows, firstMatch,
        Acl.rules, he, List.map_nil, List.find?_nil, Acl.defaultAllow]
      simp only [beq_iff_eq, List.mem_cons, forall_eq_or_imp]
      exact ⟨fun h => ⟨h, fun _ _ => h⟩, fun h => h.1⟩
    | cons e es =>
      simp only [List.isEmpty_cons, Bool.or_self, Bool.false_eq_true, if_false]
      exact hopLoop_iff acl (h :: hs)

/-- the same statement for every path under an allow default (the two coincide there) -/
theorem acl_eq_spec_default_allow (acl : Acl) (hs : List Hop) (hd : acl.default = .allow) :
    acl.matches hs = true ↔ aclAllows satB acl.rules acl.defaultAllow hs := by
  cases hs with
  | nil => simp [Acl.matches, aclAllows, hd]
  | cons h hs => exact acl_eq_spec_partial acl (h :: hs) (by simp)

/-- **What the code does on the empty path** (definitional unfolding): the default decides, although no hop is
denied. -/
theorem acl_empty_path (acl : Acl) : acl.matches [] = (acl.default == .allow) := by
  simp [Acl.matches]

/-- **Witness** (DESIGN §9 row 13, replayed on the real code by `hx_policy` on every run):
`AclPolicy::parse("+ 1-ff00:0:110 -").matches(&[])` is `false` although the first-match specification
(vacuously) allows the empty path. -/
theorem acl_eq_spec_witness :
    ∃ acl : Acl, parseAcl "+ 1-ff00:0:110 -".toList = .ok acl ∧
      ¬ (acl.matches [] = true ↔ aclAllows satB acl.rules acl.defaultAllow []) := by
  refine ⟨⟨[⟨.allow, ⟨1, some 0xff0000000110, .any⟩⟩], .deny⟩, by decide +kernel, ?_⟩
  simp [Acl.matches, aclAllows]

example : ∃ (acl : Acl) (hs : List Hop), hs ≠ [] ∧ acl.matches hs = true ∧ acl.entries ≠ [] :=
  ⟨⟨[⟨.allow, ⟨1, none, .any⟩⟩], .deny⟩, [⟨1, 5, 0, 1⟩], by simp, by decide, by simp⟩

/-! ## 2. hop pattern = regular language -/

/-- **Matcher = language** (`match_from`): from any start position `p` inside the path, the returned
position set consists exactly of the `q` with `p ≤ q ≤ hs.length` such that the hops `hs[p..q]` form a word
of the language denoted by the expression – for every expression (nullable bodies under `+` / `*`, nested
repetition, alternation with quantified arms included) and every hop sequence. -/
theorem matchFrom_iff (e : Expr) (hs : List Hop) (p q : Nat) (hp : p ≤ hs.length) :
    q ∈ matchFrom e hs p ↔ p ≤ q ∧ q ≤ hs.length ∧ Lang Sat (denote e) ((hs.drop p).take (q - p)) :=
  matchFrom_extract e hs p q hp

/-- soundness alone needs no assumption on `p` -/
theorem matchFrom_sound (e : Expr) (hs : List Hop) (p q : Nat) (hp : p ≤ hs.length)
    (h : q ∈ matchFrom e hs p) : ∃ w, Lang Sat (denote e) w ∧ hs.drop p = w ++ hs.drop q :=
  ((matchFrom_split e hs p q hp).mp h).2

/-- **A hop pattern allows a path exactly when the hop sequence belongs to the regular language denoted by
the pattern** (juxtaposition = concatenation, `|` = union, `?` `+` `*` = zero-or-one / one-or-more /
zero-or-more). -/
theorem policy_iff_lang (es : List Expr) (hs : List Hop) :
    matchPolicy es hs = true ↔ Lang Sat (denotePolicy es) hs :=
  matchPolicy_iff es hs

/-- **The `while !frontier.is_empty()` loop of `all_nested_matches` terminates**: after at most
`hops.len() + 1` rounds the frontier is empty – giving the loop any number of additional rounds does not
change its result.  (Stated for the loop started as the code starts it, for every inner expression.) -/
theorem closure_fuel_sufficient (a : Expr) (hs : List Hop) (pos : Nat) (hpos : pos ≤ hs.length) (extra : Nat) :
    closure (matchFrom a hs) (hs.length + 1 + extra) (absorb (matchFrom a hs pos) ([], [])).2
        (absorb (matchFrom a hs pos) ([], [])).1
      = allNestedWith (matchFrom a hs) hs.length pos := by
  have hb : ∀ x ≤ hs.length, ∀ y ∈ matchFrom a hs x, y ≤ hs.length :=
    fun x hx y hy => ((matchFrom_split a hs x y hx).mp hy).1
  have hmem := absorb_mem_all (matchFrom a hs pos) [] []
  have hnext := absorb_mem_next (matchFrom a hs pos) [] []
  have hlen := absorb_length (matchFrom a hs pos) [] []
  unfold allNestedWith
  apply closure_fuel_irrelevant _ _ hb
  · intro x hx
    rcases (hnext x).mp hx with h | ⟨h, _⟩
    · simp at h
    · exact (hmem x).mpr (.inr h)
  · intro x hx
    rcases (hmem x).mp hx with h | h
    · simp at h
    · exact hb pos hpos x h
  · exact absorb_nodup _ _ _ List.nodup_nil
  · cases hn : (absorb (matchFrom a hs pos) ([], [])).2 with
    | nil => exact .inl rfl
    | cons n ns =>
      right
      rw [hn] at hlen; simp only [List.length_cons, List.length_nil] at hlen; omega

/-- **Matching never indexes out of range and never leaves the path**: every position handed from one
expression to the next is `≤ hops.len()` (`hops[pos]` is only evaluated under `pos < hops.len()`; the model's
`hs[pos]?` makes the guard explicit).  Termination of `matchFrom` / `matchPolicy` themselves is Lean's
termination check of the (structurally recursive) model. -/
theorem match_total (e : Expr) (hs : List Hop) (p q : Nat) (hp : p ≤ hs.length) (h : q ∈ matchFrom e hs p) :
    p ≤ q ∧ q ≤ hs.length :=
  let h' := (matchFrom_extract e hs p q hp).mp h
  ⟨h'.1, h'.2.1⟩

-- non-vacuity: a nullable body under `+` (`(1?)+`) on a two-hop path, both directions of the equivalence used
example : matchPolicy [.oneOrMore (.optional (.pred ⟨1, none, .any⟩))] [⟨1, 5, 0, 1⟩, ⟨1, 6, 1, 0⟩] = true := by
  decide +kernel
example : Lang Sat (denotePolicy [.oneOrMore (.optional (.pred ⟨1, none, .any⟩))]) [⟨1, 5, 0, 1⟩, ⟨1, 6, 1, 0⟩] :=
  (policy_iff_lang _ _).mp (by decide +kernel)
example : ¬ Lang Sat (denotePolicy [.zeroOrMore (.pred ⟨1, none, .any⟩), .pred ⟨2, none, .any⟩]) [⟨1, 5, 0, 1⟩] :=
  fun h => absurd ((policy_iff_lang _ _).mpr h) (by decide +kernel)

/-! ## 3. parsing: total, depth-bounded, and insensitive to redundant parentheses and whitespace -/

/-- **The parser terminates on every token sequence**: the explicit recursion budget of the model
(`tokens + 1`, one unit per consumed token) is never exhausted, for any token list – including ones without
EOI, with EOI in the middle, unbalanced parentheses, dangling operators.  Every other outcome of the model is
`Ok` or one of the `ParseError`s of the code; the model has no panic outcome because the code has no panic
site on this path (`tokens[pos]` is read only under `peek_kind() == Some(_)`, `tokens.len() - 1` only after an
EOI was seen).  NB: this is about the model's fuel (number of steps); the bound on the *native* recursion depth
of the code is `parse_nesting_limit` / `parse_depth_bounded` below. -/
theorem parse_total (toks : List Tok) : parseTokens toks ≠ .error .fuel := by
  intro h
  have hag := parseTokens_agrees toks
  rw [h] at hag
  exact parseTopU_no_fuel_error _ _ _ (Nat.lt_succ_self _) hag

/-- the same for strings -/
theorem parsePolicy_total (s : List Char) : parsePolicy s ≠ .error .fuel := parse_total _

/-- **The depth limit only ever adds the depth error** (`MAX_EXPRESSION_DEPTH`, /repo 3a8cb8a): on every token
list the parser either reports "nested deeper than MAX_EXPRESSION_DEPTH levels" or answers exactly as the same
parser with every `check_depth` removed (`parseTokensU`, the grammar). -/
theorem depth_limit_conservative (toks : List Tok) :
    (∃ k, parseTokens toks = .error (.tooDeep k)) ∨ parseTokens toks = parseTokensU toks := by
  have hag := parseTokens_agrees toks
  cases hr : parseTokens toks with
  | error e =>
    rw [hr] at hag
    cases e <;> first | exact .inl ⟨_, rfl⟩ | exact .inr hag.symm
  | ok es =>
    rw [hr] at hag
    exact .inr hag.1.symm

/-- **Every expression the parser returns is at most `MAX_EXPRESSION_DEPTH` levels deep** – whatever the
pattern text (parentheses, `a|b|c|…` chains, `a???…` chains).  `match_from`, `Clone`, `PartialEq`, `Hash`,
`Debug` and `Drop` of `HopPatternExpression` recurse exactly once per level of the syntax tree (`matchFrom` is
structurally recursive on the expression), and `HopPatternExpression` values are only built by the parser (the
enum is private), so their native recursion depth is bounded by the same constant. -/
theorem parse_depth_bounded (toks : List Tok) (es : List Expr) (h : parseTokens toks = .ok es) :
    ∀ e ∈ es, e.depth ≤ MAX_EXPRESSION_DEPTH := by
  have hag := parseTokens_agrees toks
  rw [h] at hag
  exact hag.2

/-- **The parser does not recurse beyond `MAX_EXPRESSION_DEPTH` nested calls** (definitional unfolding of the
model): a `parse_expr` call running at nesting level `n ≥ MAX_EXPRESSION_DEPTH` answers both places that would
recurse – `(` and the right-hand side of `|` – with the depth error instead of calling itself.  Every recursive
call passes `nesting + 1` and the top-level call starts at `TOP_NESTING = 1`, so at most `MAX_EXPRESSION_DEPTH`
calls are ever on the stack. -/
theorem parse_nesting_limit (f n bp : Nat) (rest : List Tok) (hn : MAX_EXPRESSION_DEPTH ≤ n) :
    parseExpr (f + 1) n bp (.lparen :: rest) = .error (.tooDeep (rest.length + 1)) ∧
    ∀ e d, bp ≤ OR_BIND_POWER → parseLoop (f + 1) n bp e d (.or :: rest) = .error (.tooDeep (rest.length + 1)) := by
  have hx : depthExceeded (n + 1) = true := by
    simp only [depthExceeded, decide_eq_true_eq]; omega
  refine ⟨by simp [parseExpr, hx], fun e d hbp => ?_⟩
  simp [parseLoop, hx, Nat.not_lt.mpr hbp]

-- non-vacuity: the limit is reached by real inputs, in each of the three ways a pattern can get deep
example : parseTokens (List.replicate 256 .lparen ++ [.pred ['1']] ++ List.replicate 256 .rparen ++ [.eoi])
    = .error (.tooDeep 259) := by decide +kernel
example : parseTokens (.pred ['1'] :: List.replicate 256 .qmark ++ [.eoi]) = .error (.tooDeep 2) := by decide +kernel
example : (parseTokens (.pred ['1'] :: List.replicate 255 .qmark ++ [.eoi])).isOk = true := by decide +kernel
example : (parseTokens (List.replicate 255 .lparen ++ [.pred ['1']] ++ List.replicate 255 .rparen ++ [.eoi])).isOk = true := by
  decide +kernel

/-- **Redundant parentheses (token level).**  `RendersSeq es ts`: the token sequence `ts` writes the pattern
`es` with parentheses anywhere the grammar allows them (around any operand, any expression, nested any number
of times).  Every such sequence that the parser does not refuse for its depth parses to exactly `es`.
Consequently two renderings of one pattern that are both within the depth limit parse to the same AST and (by
`policy_iff_lang`) allow the same paths.  The hypothesis is decidable (run the parser); it holds e.g. for every
rendering with fewer than `MAX_EXPRESSION_DEPTH` tokens – that sufficient condition is checked by the harness
(`C16:parse:depth-limit`), not proved. -/
theorem parens_invariant {es : List Expr} {ts : List Tok} (h : RendersSeq es ts)
    (hd : ∀ k, parseTokens (ts ++ [.eoi]) ≠ .error (.tooDeep k)) :
    parseTokens (ts ++ [.eoi]) = .ok es := by
  rcases depth_limit_conservative (ts ++ [.eoi]) with ⟨k, hk⟩ | heq
  · exact absurd hk (hd k)
  · rw [heq]; exact rendersSeq_parseTokens h

/-- … without the hypothesis: a rendering parses to the pattern or is refused for its depth – never to
anything else. -/
theorem parens_invariant_or_too_deep {es : List Expr} {ts : List Tok} (h : RendersSeq es ts) :
    parseTokens (ts ++ [.eoi]) = .ok es ∨ ∃ k, parseTokens (ts ++ [.eoi]) = .error (.tooDeep k) := by
  rcases depth_limit_conservative (ts ++ [.eoi]) with hk | heq
  · exact .inr hk
  · exact .inl (by rw [heq]; exact rendersSeq_parseTokens h)

/-- **Whitespace (character level).**  `Spaced ts s`: the string `s` writes the tokens `ts` with any amount
of whitespace (every `char::is_whitespace` character: space, tab, newline, carriage return, NBSP, …) before,
between and after them (two hop predicates need at
least one).  The lexer returns exactly `ts` followed by EOI. -/
theorem ws_invariant {ts : List Tok} {s : List Char} (h : Spaced ts s) : lexKinds s = ts ++ [.eoi] :=
  spaced_lex h 0

/-- **Redundant parentheses and whitespace do not change a pattern's meaning**: any string that writes the
pattern `es` with redundant parentheses and arbitrary whitespace, and is not refused for its depth, parses to
`es`. -/
theorem parens_ws_invariant {es : List Expr} {ts : List Tok} {s : List Char}
    (hr : RendersSeq es ts) (hs : Spaced ts s) (hd : ∀ k, parsePolicy s ≠ .error (.tooDeep k)) :
    parsePolicy s = .ok es := by
  unfold parsePolicy at hd ⊢
  rw [ws_invariant hs] at hd ⊢
  exact parens_invariant hr hd

/-- … hence two such strings for the same pattern allow exactly the same paths, namely the language of `es`. -/
theorem parens_ws_same_language {es : List Expr} {ts₁ ts₂ : List Tok} {s₁ s₂ : List Char}
    (h₁ : RendersSeq es ts₁) (k₁ : Spaced ts₁ s₁) (h₂ : RendersSeq es ts₂) (k₂ : Spaced ts₂ s₂)
    (d₁ : ∀ k, parsePolicy s₁ ≠ .error (.tooDeep k)) (d₂ : ∀ k, parsePolicy s₂ ≠ .error (.tooDeep k)) :
    parsePolicy s₁ = parsePolicy s₂ ∧
      ∀ hs, (∃ p, parsePolicy s₁ = .ok p ∧ matchPolicy p hs = true) ↔ Lang Sat (denotePolicy es) hs := by
  rw [parens_ws_invariant h₁ k₁ d₁, parens_ws_invariant h₂ k₂ d₂]
  refine ⟨rfl, fun hs => ?_⟩
  constructor
  · rintro ⟨p, hp, hm⟩
    injection hp with hp; subst hp
    exact (policy_iff_lang _ _).mp hm
  · intro h
    exact ⟨es, rfl, (policy_iff_lang _ _).mpr h⟩

-- non-vacuity: "((1)|2)+" and " ( 1 | (2) ) +" are renderings of (1|2)+, and the depth hypothesis holds for them
example : parsePolicy "((1)|2)+ 3".toList = parsePolicy " ( 1\t| (2) )\r\n+ ((3))".toList := by decide +kernel
example : ∀ k, parsePolicy " ( 1\t| (2) )\r\n+ ((3))".toList ≠ .error (.tooDeep k) := by
  intro k h
  have : parsePolicy " ( 1\t| (2) )\r\n+ ((3))".toList =
      .ok [.oneOrMore (.or (.pred ⟨1, none, .any⟩) (.pred ⟨2, none, .any⟩)), .pred ⟨3, none, .any⟩] := by decide +kernel
  rw [this] at h; cases h
example : RendersSeq [.oneOrMore (.or (.pred ⟨1, none, .any⟩) (.pred ⟨2, none, .any⟩))]
    [.lparen, .lparen, .pred ['1'], .rparen, .or, .pred ['2'], .rparen, .plus] :=
  .cons (top := false) (tss := [])
    (.oneOrMore (.paren (.or (.operand (.paren (.pred (by decide)))) (.pred (by decide))))) .nil

/-! ## 4. hop predicates survive printing and re-parsing -/

/- Full statement (FALSE on the current code, see `pred_print_parse_witness`):
   theorem pred_print_parse (p : Pred) (hr : p.InRange) : parsePred (showPred p) = some p -/

/-- **Print then parse, every predicate the parser can produce** (every ISD, every 48-bit AS number in decimal
or `x:x:x` form, every interface pair; wildcards included): `from_str(to_string(p)) = Ok(p)`.
The excluded shape – no AS part but an interface part – is only constructible through
`HopPredicate::new`; see the witness below. -/
theorem pred_print_parse_partial (p : Pred) (hr : p.InRange) (hshape : p.asn = none → p.ifs = .any) :
    parsePred (showPred p) = some p :=
  parsePred_showPred p hr hshape

/-- **Witness** (replayed on the real code by `hx_policy`): `HopPredicate::new(1, None, Either(3))` prints as
`"1#3"`, which `from_str` rejects. -/
theorem pred_print_parse_witness :
    (⟨1, none, .either 3⟩ : Pred).InRange ∧ showPred ⟨1, none, .either 3⟩ = "1#3".toList ∧
      parsePred (showPred ⟨1, none, .either 3⟩) = none := by
  refine ⟨⟨by decide, by simp, by decide⟩, by decide +kernel, by decide +kernel⟩

/-- … and inside a hop pattern the printed predicate is a single token that parses back to the predicate. -/
theorem pred_print_parse_in_pattern (p : Pred) (hr : p.InRange) (hshape : p.asn = none → p.ifs = .any) :
    parsePolicy (showPred p) = .ok [.pred p] := by
  have hspaced : Spaced [.pred (showPred p)] ([] ++ Tok.text (.pred (showPred p)) ++ []) :=
    .pred (by simp) ⟨_, rfl, showPred_ne_nil p, showPred_plain p⟩ (.nil (by simp)) (.inl rfl)
  have hrend : RendersSeq [.pred p] ([.pred (showPred p)] ++ []) :=
    .cons (top := false) (.pred (parsePred_showPred p hr hshape)) .nil
  have hlex : lexKinds (showPred p) = [.pred (showPred p), .eoi] := by
    simpa [Tok.text] using ws_invariant hspaced
  have hparse : parseTokens [.pred (showPred p), .eoi] = .ok [.pred p] := by
    simp [parseTokens, parseTop, parseExpr, parseLoop, parsePred_showPred p hr hshape]
  have := parens_ws_invariant (s := showPred p) hrend (by simpa [Tok.text] using hspaced)
    (by intro k hk; simp only [parsePolicy, hlex, hparse] at hk; cases hk)
  simpa using this

example : ∃ p : Pred, p.InRange ∧ (p.asn = none → p.ifs = .any) ∧ p.asn = some 0xff0000000110 ∧ p.ifs = .both 0 2 :=
  ⟨⟨1, some 0xff0000000110, .both 0 2⟩, ⟨by decide, by simp; decide, by decide⟩, by simp, rfl, rfl⟩

/-! ## 5. hop extraction from path metadata -/

/-- **`hops_from_path`, every successful call**: the interface list is a first interface `f`, then consecutive
(ingress, egress) pairs each inside one ISD-AS, then a last interface `l`; the hops are: the first hop in `f`'s
ISD-AS with ingress 0 and egress `f.id`, one hop per pair in the pair's ISD-AS with the pair's two interface
ids, and the last hop in `l`'s ISD-AS with ingress `l.id` and egress 0. -/
theorem hopsFromPath_hops (ifs : List Iface) (hs : List Hop) (h : hopsFromPath (some (some ifs)) = .ok hs) :
    ∃ (f : Iface) (pairs : List (Iface × Iface)) (l : Iface),
      ifs = f :: pairs.flatMap (fun ab => [ab.1, ab.2]) ++ [l] ∧
      (∀ ab ∈ pairs, ab.1.isd = ab.2.isd ∧ ab.1.asn = ab.2.asn) ∧
      hs = ⟨f.isd, f.asn, 0, f.id⟩ :: pairs.map (fun ab => ⟨ab.1.isd, ab.1.asn, ab.1.id, ab.2.id⟩)
            ++ [⟨l.isd, l.asn, l.id, 0⟩] := by
  cases ifs with
  | nil => simp [hopsFromPath] at h
  | cons f rest =>
    simp only [hopsFromPath] at h
    cases hr : middleHops rest with
    | error e => simp [hr] at h
    | ok v =>
      obtain ⟨mid, l⟩ := v
      simp only [hr, Except.ok.injEq] at h
      obtain ⟨pairs, hl, hp, hh⟩ := middleHops_pairs rest mid l hr
      exact ⟨f, pairs, l, by rw [hl]; simp, hp, by rw [← h, hh]⟩

/-- **Shape of `hops_from_path`** (corollary): `n` interfaces (necessarily even, ≥ 2) give `n/2 + 1` hops; the
first hop has ingress 0 and the first interface as egress, the last hop has the last interface as ingress and
egress 0. -/
theorem hopsFromPath_shape (ifs : List Iface) (hs : List Hop) (h : hopsFromPath (some (some ifs)) = .ok hs) :
    ifs.length = 2 * (hs.length - 1) ∧ 2 ≤ hs.length ∧
      (∀ f, ifs.head? = some f → ∃ h0, hs.head? = some h0 ∧ h0.ingress = 0 ∧ h0.egress = f.id ∧ h0.isd = f.isd ∧ h0.asn = f.asn) ∧
      (∃ hl, hs.getLast? = some hl ∧ hl.egress = 0) := by
  cases ifs with
  | nil => simp [hopsFromPath] at h
  | cons f rest =>
    simp only [hopsFromPath] at h
    cases hr : middleHops rest with
    | error e => simp [hr] at h
    | ok v =>
      obtain ⟨mid, l⟩ := v
      simp only [hr, Except.ok.injEq] at h
      have hl := middleHops_len rest mid l hr
      subst h
      refine ⟨by simp; omega, by simp, ?_, ?_⟩
      · intro f' hf'
        simp at hf'; subst hf'
        exact ⟨_, rfl, rfl, rfl, rfl, rfl⟩
      · refine ⟨⟨l.isd, l.asn, l.id, 0⟩, ?_, rfl⟩
        rw [List.getLast?_append]; simp

-- non-vacuity: a three-AS path 1-10#1 > 1-11#2,3 > 2-12#4
example : hopsFromPath (some (some [⟨1, 10, 1⟩, ⟨1, 11, 2⟩, ⟨1, 11, 3⟩, ⟨2, 12, 4⟩])) =
    .ok [⟨1, 10, 0, 1⟩, ⟨1, 11, 2, 3⟩, ⟨2, 12, 4, 0⟩] := by decide

end ScionVerif.Policy
