import ScionVerif.Lemmas.PathMgr
/-!
# C07 — reported link failures steer traffic away at once; paths recover later

What is *proved* here (over the model of `handle_issue_rx` / `ingest_path_issue` /
`IssueMarkerTarget::matches_path`, for every state, every score assignment and every clock value):
a report that matches no cached path changes neither the cache order nor the active path
(`unrelated_report_noop`); interface targets never match a path without interface metadata
(`interface_needs_metadata`); the unrestricted steer-away statement is false (`steer_away_witness`:
when the only alternative carries its own fresh penalty the score gap stays below the swap threshold
and traffic stays on the failed interface – known finding `C07:steer-away:alternative-penalised`).

`steer_away_partial` proves steer-away under the hypothesis "every valid cached path avoiding the interface
outscores every cached path crossing it by more than the threshold (f32-rounded difference)".

What is only *exercised* by the harness on the real code (oracles in `hx_pathmgr --prop C07`):
steer-away when one valid cached alternative outscores every affected path (`C07:steer-away`), the swap rule that gives no-return-while-fresh (`C07:swap-rule`),
recovery after 20 half-lives (`C07:not-recovered`), `matches_path` against an independent hop-level
spec (`C07:matches-path`), and the failover probes at 0, ½, 1, 2, 10, 26 half-lives.
-/
namespace ScionVerif.PathMgr
open ScionVerif.Generated.PathMgr

/-- **interface_needs_metadata.** "If the path does not contain metadata, hop based targets cannot be
    matched." -/
theorem interface_needs_metadata (ia : Nat) (ing : Option Nat) (eg : Nat) (p : Path)
    (h : p.ifaces = none) : (Target.interface ia ing eg).matchesPath p = false := by
  unfold Target.matchesPath
  simp only [h]

theorem affectsActive_false_of_no_match (s : St) (m : Marker)
    (h : ∀ e ∈ s.cached, m.target.matchesPath e = false) : affectsActive s m = false := by
  unfold affectsActive
  split
  · rfl
  · split
    · rw [List.any_eq_false]
      intro e he
      simp [h e he]
    · split
      · next e hf =>
        have := List.find?_some hf
        rw [h e (List.mem_of_find?_eq_some hf)] at this
        cases this
      · rfl

/-- **unrelated_report_noop.** Delivering issue notifications none of which matches a cached path
    changes neither the cache (content and order) nor the active path; it only empties the queue. -/
theorem unrelated_report_noop (env : Env) (s : St) (now : Nat) (sc : Nat → Int)
    (h : ∀ m ∈ s.pending, ∀ e ∈ s.cached, m.target.matchesPath e = false) :
    (deliver env s now sc).cached = s.cached ∧ (deliver env s now sc).active = s.active := by
  unfold deliver
  split
  · exact ⟨rfl, rfl⟩
  · next m rest hp =>
    split
    · exact ⟨rfl, rfl⟩
    · simp only
      have hna : ((m :: rest).filter (·.target.appliesTo env.src env.dst)).any (affectsActive s) = false := by
        rw [List.any_eq_false]
        intro x hx
        have hx' : x ∈ s.pending := by rw [hp]; exact (List.mem_filter.mp hx).1
        simp [affectsActive_false_of_no_match s x (h x hx')]
      rw [hna]
      exact ⟨rfl, rfl⟩

/-! ## The penalty model, over the constants extracted from issues.rs / scoring.rs / manager.rs

Ideal (exact rational) arithmetic of the default scorers: total score =
`DEFAULT_RELIABILITY_IMPACT · reliability + DEFAULT_LENGTH_IMPACT · (LENGTH_MAX − hops · (MAX − MIN)/HOP_COUNT)`.
A path that carried no penalty and is hit by one issue has reliability `−penalty` (`ReliabilityScore::update`:
decayed old score 0 plus the penalty; `|penalty| ≤ 1`, so the clamp is the identity).  The statements are about
the *extracted* constants, so a retuned penalty / threshold / weight re-checks them.  The f32 rounding of the
real scorer (relative error < 2^-22 per operation) is far inside the margins (0.876 vs 0.5; 0.4 vs 0.5). -/

/-- fractions `n/d` with `d > 0`, compared by cross-multiplication -/
structure Fr where
  n : Int
  d : Nat
def Fr.lt (a b : Fr) : Prop := a.n * b.d < b.n * a.d
instance (a b : Fr) : Decidable (Fr.lt a b) := by unfold Fr.lt; exact inferInstance
def Fr.add (a b : Fr) : Fr := ⟨a.n * b.d + b.n * a.d, a.d * b.d⟩
def Fr.sub (a b : Fr) : Fr := ⟨a.n * b.d - b.n * a.d, a.d * b.d⟩
def Fr.mul (a b : Fr) : Fr := ⟨a.n * b.n, a.d * b.d⟩
def Fr.neg (a : Fr) : Fr := ⟨-a.n, a.d⟩
/-- `a / (n/d)` for a positive `n/d` -/
def Fr.divPos (a : Fr) (bn bd : Nat) : Fr := ⟨a.n * bd, a.d * bn⟩
def fr (n d : Nat) : Fr := ⟨n, d⟩

def penaltyLinkDown : Fr := fr PENALTY_LINK_DOWN_NUM PENALTY_LINK_DOWN_DEN
def penaltyFirstHop : Fr := fr PENALTY_FIRST_HOP_NUM PENALTY_FIRST_HOP_DEN
def defaultThreshold : Fr := fr DEFAULT_PATH_SWAP_SCORE_THRESHOLD_NUM DEFAULT_PATH_SWAP_SCORE_THRESHOLD_DEN
/-- `PathLengthScorer::score` for `hops` hop fields (below `HOP_COUNT_FOR_MIN_SCORE` the clamp is the identity) -/
def lengthScore (hops : Nat) : Fr :=
  (fr LENGTH_MAX_SCORE_NUM LENGTH_MAX_SCORE_DEN).sub
    ((fr hops 1).mul (((fr LENGTH_MAX_SCORE_NUM LENGTH_MAX_SCORE_DEN).sub (fr LENGTH_MIN_SCORE_NUM LENGTH_MIN_SCORE_DEN)).divPos
      LENGTH_HOP_COUNT_FOR_MIN_SCORE_NUM LENGTH_HOP_COUNT_FOR_MIN_SCORE_DEN))
/-- `PathScorer::score` with the default scorers -/
def totalScore (reliability : Fr) (hops : Nat) : Fr :=
  ((fr DEFAULT_RELIABILITY_IMPACT_NUM DEFAULT_RELIABILITY_IMPACT_DEN).mul reliability).add
    ((fr DEFAULT_LENGTH_IMPACT_NUM DEFAULT_LENGTH_IMPACT_DEN).mul (lengthScore hops))
/-- score gap between an unpenalised alternative (`hq` hop fields) and the active path (`ha` hop fields)
    right after one issue with penalty `pen` hit the so far unpenalised active path -/
def freshGap (pen : Fr) (ha hq : Nat) : Fr := (totalScore ⟨0, 1⟩ hq).sub (totalScore pen.neg ha)

/-- **link_down_opens_gap_default.** Default configuration, default scorers: one SCMP interface-down /
    connectivity-down report on the (unpenalised) active path opens a score gap to every unpenalised
    alternative that exceeds the default swap threshold, whatever the two path lengths (up to the 50 hop
    fields of the length scorer's range).  Together with the swap rule of `decide_active_path_update`
    (model: `swapCheck`; code: oracle `C07:steer-away`) this is the steer-away clause for link failures. -/
theorem link_down_opens_gap_default :
    ∀ ha ≤ 50, ∀ hq ≤ 50, Fr.lt defaultThreshold (freshGap penaltyLinkDown ha hq) := by
  decide +kernel

/- **first_hop_opens_gap_default** (the same statement for a local first-hop send failure, FALSE on the
   current constants – known finding `C07:steer-away:first-hop-penalty-below-threshold`):
     ∀ ha ≤ 50, ∀ hq ≤ 50, Fr.lt defaultThreshold (freshGap penaltyFirstHop ha hq) -/

/-- **first_hop_default_no_steer_witness.** The negation: a first-hop send failure on the active path
    does not open a gap above the default threshold (e.g. two paths of 3 hop fields: gap 0.4 ≤ 0.5). -/
theorem first_hop_default_no_steer_witness :
    ¬ (∀ ha ≤ 50, ∀ hq ≤ 50, Fr.lt defaultThreshold (freshGap penaltyFirstHop ha hq)) := by
  decide +kernel

/-- **first_hop_default_never_steers.** Stronger: for *no* pair of path lengths in the length scorer's
    range does a single first-hop failure on an unpenalised active path open a gap above the default
    threshold – with the default configuration one first-hop send failure never switches paths. -/
theorem first_hop_default_never_steers :
    ∀ ha ≤ 50, ∀ hq ≤ 50, ¬ Fr.lt defaultThreshold (freshGap penaltyFirstHop ha hq) := by
  decide +kernel

/-- the default threshold in the unit of the model (`defaultCfg.swapThreshold`, 2^-149) is the extracted
    fraction: ties the `Fr` statements to the configuration the model runs with -/
theorem defaultThreshold_units :
    defaultCfg.swapThreshold * DEFAULT_PATH_SWAP_SCORE_THRESHOLD_DEN =
      DEFAULT_PATH_SWAP_SCORE_THRESHOLD_NUM * 2 ^ SCORE_UNIT_LOG2 := by
  decide +kernel

example : Fr.lt defaultThreshold (freshGap penaltyLinkDown 3 3) := by decide
example : ¬ Fr.lt defaultThreshold (freshGap penaltyFirstHop 3 3) := by decide

/-! ## Steer-away under an explicit score hypothesis (proved) -/

/-- ranked order: an earlier entry never scores lower than a later one -/
def Desc (sc : Nat → Int) (l : List Path) : Prop := l.Pairwise (fun y x => sc x.fp ≤ sc y.fp)

theorem insertBy_desc (sc : Nat → Int) (x : Path) (l : List Path) (h : Desc sc l) :
    Desc sc (insertBy (fun y x => decide (sc x.fp < sc y.fp)) x l) := by
  induction l with
  | nil => simp [insertBy, Desc]
  | cons y ys ih =>
    unfold Desc at h
    rw [List.pairwise_cons] at h
    unfold insertBy
    split
    · next hlt =>
      have hlt' : sc x.fp < sc y.fp := by simpa using hlt
      unfold Desc
      rw [List.pairwise_cons]
      refine ⟨?_, ih h.2⟩
      intro z hz
      rcases (mem_insertBy _ x z ys).mp hz with hzx | hzy
      · subst hzx; omega
      · exact h.1 z hzy
    · next hlt =>
      have hge : sc y.fp ≤ sc x.fp := by
        have : ¬ sc x.fp < sc y.fp := by simpa using hlt
        omega
      unfold Desc
      rw [List.pairwise_cons, List.pairwise_cons]
      refine ⟨?_, h.1, h.2⟩
      intro z hz
      rcases List.mem_cons.mp hz with hzy | hzy
      · subst hzy; exact hge
      · have := h.1 z hzy; omega

theorem rank_desc (sc : Nat → Int) (l : List Path) : Desc sc (rank sc l) := by
  unfold rank
  induction l with
  | nil => simp [sortBy, Desc]
  | cons y ys ih =>
    have : sortBy (fun y x => decide (sc x.fp < sc y.fp)) (y :: ys) =
        insertBy (fun y x => decide (sc x.fp < sc y.fp)) y (sortBy (fun y x => decide (sc x.fp < sc y.fp)) ys) := rfl
    rw [this]
    exact insertBy_desc sc y _ ih

/-- the first entry satisfying `p` of a ranked list scores at least as high as every entry satisfying `p` -/
theorem find_desc_max (sc : Nat → Int) (p : Path → Bool) :
    ∀ (l : List Path), Desc sc l → ∀ q ∈ l, p q = true →
      ∃ b, l.find? p = some b ∧ b ∈ l ∧ p b = true ∧ sc q.fp ≤ sc b.fp := by
  intro l
  induction l with
  | nil => intro _ q hq; cases hq
  | cons y ys ih =>
    intro h q hq hp
    unfold Desc at h
    rw [List.pairwise_cons] at h
    by_cases hy : p y = true
    · refine ⟨y, by simp [hy], List.mem_cons_self, hy, ?_⟩
      rcases List.mem_cons.mp hq with hqy | hqy
      · subst hqy; exact Int.le_refl _
      · exact h.1 q hqy
    · rcases List.mem_cons.mp hq with hqy | hqy
      · subst hqy; exact absurd hp hy
      · obtain ⟨b, hb, hbm, hpb, hle⟩ := ih h.2 q hqy hp
        refine ⟨b, ?_, List.mem_cons_of_mem _ hbm, hpb, hle⟩
        simp only [List.find?_cons]
        have : p y = false := by simpa using hy
        rw [this]
        exact hb

theorem f32Round_nonpos {x : Int} (h : x ≤ 0) : f32Round x ≤ 0 := by
  unfold f32Round
  simp only
  split
  · omega
  · next hx =>
    have : x = 0 := by omega
    subst this
    decide
theorem find_fp_eq {l : List Path} (hn : (fps l).Nodup) {a : Path} (ha : a ∈ l) :
    l.find? (·.fp == a.fp) = some a := by
  cases hf : l.find? (·.fp == a.fp) with
  | none =>
    have := List.find?_eq_none.mp hf a ha
    simp at this
  | some e =>
    have he := List.mem_of_find?_eq_some hf
    have hfp := List.find?_some hf
    have : e.fp = a.fp := by simpa using hfp
    rw [eq_of_fp_eq hn he ha this]

theorem decideActive_swaps (env : Env) (s : St) (now : Nat) (sc : Nat → Int) (a b : Path)
    (hact : s.active = some a) (hbest : bestPath s.cached now env.cfg.minExpiryThreshold = some b)
    (hae : activeEntry s = some a)
    (hsw : env.cfg.swapThreshold < f32Round (sc b.fp - sc a.fp)) :
    (decideActive env s now sc).1 ≠ .noChange ∧ (decideActive env s now sc).2.1 = some b := by
  refine ⟨?_, by rw [decideActive_best, hbest]⟩
  unfold decideActive
  simp only [hbest, hact, baseDecision, swapCheck, hae]
  by_cases h1 : checkExpiry a now env.cfg.minExpiryThreshold = .valid
  · simp [h1, hsw]
  · by_cases h2 : checkExpiry a now env.cfg.minExpiryThreshold = .near
    · simp [h2]
    · simp [h1, h2]

theorem reevaluate_steers (env : Env) (s : St) (now : Nat) (sc : Nat → Int) (M : Path → Bool)
    (hw : WF s) (hthr : 0 ≤ env.cfg.swapThreshold)
    (a : Path) (hact : s.active = some a) (hma : M a = true)
    (q : Path) (hq : q ∈ s.cached) (hqv : checkExpiry q now env.cfg.minExpiryThreshold = .valid)
    (hqm : M q = false)
    (hgap : ∀ b ∈ s.cached, checkExpiry b now env.cfg.minExpiryThreshold = .valid → M b = false →
      ∀ e ∈ s.cached, M e = true → env.cfg.swapThreshold < f32Round (sc b.fp - sc e.fp)) :
    ∃ b, (reevaluate env s now sc).active = some b ∧ M b = false := by
  -- the best path of the re-ranked cache
  obtain ⟨b, hbf, hbm, hbv, hle⟩ := find_desc_max sc
    (fun p => checkExpiry p now env.cfg.minExpiryThreshold == .valid) (rank sc s.cached)
    (rank_desc sc s.cached) q ((mem_rank sc q s.cached).mpr hq) (by simp [hqv])
  have hbc : b ∈ s.cached := (mem_rank sc b s.cached).mp hbm
  have hbv' : checkExpiry b now env.cfg.minExpiryThreshold = .valid := by simpa using hbv
  have hac : a ∈ s.cached := hw.active_mem a hact
  -- it does not match: otherwise q would have to outscore it
  have hbM : M b = false := by
    cases hmb : M b with
    | false => rfl
    | true =>
      have h1 := hgap q hq hqv hqm b hbc hmb
      have h2 : f32Round (sc q.fp - sc b.fp) ≤ 0 := f32Round_nonpos (by omega)
      omega
  have hfp : (a.fp == b.fp) = false := by
    cases h : a.fp == b.fp with
    | false => rfl
    | true =>
      have : a = b := eq_of_fp_eq hw.nodup hac hbc (by simpa using h)
      rw [this, hbM] at hma
      cases hma
  refine ⟨b, ?_, hbM⟩
  have hnd : (fps (rank sc s.cached)).Nodup := (nodup_fps_perm (rank_perm sc s.cached)).mpr hw.nodup
  have hae : (rank sc s.cached).find? (·.fp == a.fp) = some a :=
    find_fp_eq hnd ((mem_rank sc a s.cached).mpr hac)
  have hsw := hgap b hbc hbv' hbM a hac hma
  have hd := decideActive_swaps env { s with cached := rank sc s.cached } now sc a b hact hbf
    (by unfold activeEntry; simp only [hact]; exact hae) hsw
  have hre : (reevaluate env s now sc).active =
      (applyDecision { { s with cached := rank sc s.cached } with
          bad := s.bad || (decideActive env { s with cached := rank sc s.cached } now sc).2.2 }
        (decideActive env { s with cached := rank sc s.cached } now sc).1
        (decideActive env { s with cached := rank sc s.cached } now sc).2.1).active := rfl
  obtain ⟨hd1, hd2⟩ := hd
  rw [hre, applyDecision_active, hd2]
  generalize (decideActive env { s with cached := rank sc s.cached } now sc).1 = d at hd1 ⊢
  have hne : ((some a).map (·.fp) == (some b).map (·.fp)) = false := by simpa using hfp
  simp only [hact, hne]
  simp [hd1]

/-- **steer_away_partial.** Steer-away under an explicit score hypothesis, for every state satisfying the
    structural invariant (`WF`: every reachable state, `run_wf`), every clock value and score assignment:
    the queued report `m` (a target that can hit several paths: interface / first hop) matches the active
    path `a`; some cached path `q` is valid and avoids the interface; and every valid cached path avoiding
    it outscores every cached path crossing it by more than the (non-negative) swap threshold, the
    difference rounded as the f32 subtraction of the code rounds it.  Then the delivery of the report
    re-ranks, and the active path afterwards avoids the reported interface. -/
theorem steer_away_partial (env : Env) (s : St) (now : Nat) (sc : Nat → Int) (m : Marker) (a q : Path)
    (hw : WF s) (hthr : 0 ≤ env.cfg.swapThreshold)
    (hp : s.pending = [m]) (happ : m.target.appliesTo env.src env.dst = true)
    (hmulti : m.target.multi = true)
    (hact : s.active = some a) (hma : m.target.matchesPath a = true)
    (hq : q ∈ s.cached) (hqv : checkExpiry q now env.cfg.minExpiryThreshold = .valid)
    (hqm : m.target.matchesPath q = false)
    (hgap : ∀ b ∈ s.cached, checkExpiry b now env.cfg.minExpiryThreshold = .valid →
      m.target.matchesPath b = false →
      ∀ e ∈ s.cached, m.target.matchesPath e = true →
        env.cfg.swapThreshold < f32Round (sc b.fp - sc e.fp)) :
    ∃ b, (deliver env s now sc).active = some b ∧ m.target.matchesPath b = false := by
  have hac : a ∈ s.cached := hw.active_mem a hact
  have haff : affectsActive s m = true := by
    unfold affectsActive
    simp only [hact, hmulti, if_true]
    rw [List.any_eq_true]
    exact ⟨a, hac, by simp [hma]⟩
  have hw1 : WF { s with pending := [] } := ⟨hw.active_mem, hw.nodup⟩
  have := reevaluate_steers env { s with pending := [] } now sc (fun p => m.target.matchesPath p)
    hw1 hthr a hact hma q hq hqv hqm hgap
  unfold deliver
  simp only [hp, happ, Bool.not_true, Bool.false_eq_true, if_false, List.filter_cons, List.filter_nil,
    if_true, List.any_cons, List.any_nil, Bool.or_false, haff]
  exact this

/- **steer_away** (full statement, FALSE – see the witness below):
     the active path `a` matches the reported target, a valid cached path `q` does not
     ⟹ after delivery the active path does not match the target.
   `steer_away_partial` above is the version with a score hypothesis; the harness oracle `C07:steer-away`
   checks a slightly weaker-hypothesis variant (one alternative outscoring all affected paths) on the real code. -/

private def pa : Path := ⟨1, some 9000, 1, 2, some [⟨1, 1⟩, ⟨7, 1⟩, ⟨7, 4⟩, ⟨2, 1⟩], some 1, some 1⟩
private def pq : Path := ⟨2, some 9000, 1, 2, some [⟨1, 2⟩, ⟨8, 2⟩, ⟨8, 5⟩, ⟨2, 2⟩], some 2, some 2⟩
private def envS : Env := { cfg := defaultCfg, src := 1, dst := 2, allowed := fun _ => true }

/-- a score of the ideal penalty model in the unit of the model (2^-149), rounded towards −∞ -/
def Fr.units (x : Fr) : Int := x.n * 2 ^ SCORE_UNIT_LOG2 / x.d
/-- both paths (3 hop fields each) unpenalised -/
private def scNone : Nat → Int := fun _ => (totalScore ⟨0, 1⟩ 3).units
/-- only `pq` carries a fresh link-down penalty -/
private def scQ : Nat → Int := fun fp =>
  if fp = 2 then (totalScore penaltyLinkDown.neg 3).units else (totalScore ⟨0, 1⟩ 3).units
/-- both carry a fresh link-down penalty (the two reports are one second apart; the decay of one second,
    factor 2^(-1/90), is ignored – it changes the gap by less than 0.01) -/
private def scBoth : Nat → Int := fun _ => (totalScore penaltyLinkDown.neg 3).units
/-- only the active path is penalised -/
private def scOne : Nat → Int := fun fp =>
  if fp = 1 then (totalScore penaltyLinkDown.neg 3).units else (totalScore ⟨0, 1⟩ 3).units

/-- a history of the model: fetch `pa`, `pq` (`pa` becomes active); "8#5 down" (on `pq`) is reported and
    delivered at 2 s; "7#4 down" (on the active `pa`) is reported at 3 s and queued -/
private def opsS : List Op :=
  [.maintain 0 (.ok [pa, pq]) scNone scNone [1, 2] 0,
   .report (.extIfDown 8 5) 11 (2 * NS), .deliver (2 * NS) scQ,
   .report (.extIfDown 7 4) 12 (3 * NS)]
private def sS : St := run envS 0 opsS

/-- **steer_away_witness.** The property's first clause, read literally (no hypothesis about scores), is
    false on a *reachable* state of the default configuration with the scores of the extracted penalty
    model: the active path crosses the failed interface, a valid cached path avoids it, but that
    alternative carries its own fresh link-down penalty – the gap stays below the swap threshold and the
    active path is kept (known finding `C07:steer-away:alternative-penalised`; the same history is replayed
    on the real code by `probe-alternative-penalised`). -/
theorem steer_away_witness :
    ¬ (∀ (env : Env) (t0 : Nat) (ops : List Op) (now : Nat) (sc : Nat → Int) (m : Marker) (a q : Path),
        (run env t0 ops).pending = [m] → (run env t0 ops).active = some a →
        m.target.matchesPath a = true →
        q ∈ (run env t0 ops).cached → checkExpiry q now env.cfg.minExpiryThreshold = .valid →
        m.target.matchesPath q = false →
        ∀ a', (deliver env (run env t0 ops) now sc).active = some a' → m.target.matchesPath a' = false) := by
  intro h
  have := h envS 0 opsS (3 * NS) scBoth ⟨.interface 7 none 4, 3 * NS⟩ pa pq (by decide) (by decide)
    (by decide) (by decide) (by decide) (by decide) pa (by decide)
  revert this
  decide

/-- non-vacuity / the intended behaviour: when the alternative is unpenalised the very next
    re-evaluation switches to it -/
example : sS.active = some pa ∧ sS.cached = [pa, pq] := by decide
example : (deliver envS sS (3 * NS) scOne).active = some pq := by decide
example : (Target.interface 7 none 4).matchesPath pq = false := by decide
/-- the premises of `steer_away_partial` are satisfiable: the reachable state `sS` with only the active
    path penalised -/
example : ∃ b, (deliver envS sS (3 * NS) scOne).active = some b ∧
    (Target.interface 7 none 4).matchesPath b = false :=
  steer_away_partial envS sS (3 * NS) scOne ⟨.interface 7 none 4, 3 * NS⟩ pa pq
    (run_wf envS 0 opsS (by decide)).1 (by decide) (by decide) (by decide) (by decide) (by decide)
    (by decide) (by decide) (by decide) (by decide) (by decide)

end ScionVerif.PathMgr
