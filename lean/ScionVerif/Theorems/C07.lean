import ScionVerif.Lemmas.PathMgr
/-!
# C07 — reported link failures steer traffic away at once; paths recover later

What is *proved* here (over the model of `handle_issue_rx` / `ingest_path_issue` /
`IssueMarkerTarget::matches_path`, for every state, every score assignment and every clock value):
a report that matches no cached path changes neither the cache order nor the active path
(`unrelated_report_noop`); interface targets never match a path without interface metadata
(`interface_needs_metadata`); the unrestricted steer-away statement is false (`steer_away_witness`:
when the only alternative carries its own fresh penalty the score gap stays below the swap threshold
and traffic stays on the failed interface – known finding `C07:steer-away:alternative-penalised`).

What is only *exercised* by the harness on the real code (oracles in `hx_pathmgr --prop C07`):
steer-away under the hypothesis "a valid cached alternative outscores every affected path by more than
the threshold" (`C07:steer-away`), the swap rule that gives no-return-while-fresh (`C07:swap-rule`),
recovery after 20 half-lives (`C07:not-recovered`), `matches_path` against an independent hop-level
spec (`C07:matches-path`), and the failover probes at 0, ½, 1, 2, 10, 26 half-lives.
-/
namespace ScionVerif.PathMgr
open ScionVerif.Generated.PathMgr

/-- **interface_needs_metadata.** "If the path does not contain metadata, hop based targets cannot be
    matched." -/
theorem interface_needs_metadata (ia : Nat) (ing : Option Nat) (eg : Nat) (p : Path)
    (h : p.ifaces = none) : (Target.interface ia ing eg).matchesPath p = false := by
  unfold Target.matchesPath
  simp only [h]

theorem affectsActive_false_of_no_match (s : St) (m : Marker)
    (h : ∀ e ∈ s.cached, m.target.matchesPath e = false) : affectsActive s m = false := by
  unfold affectsActive
  split
  · rfl
  · split
    · rw [List.any_eq_false]
      intro e he
      simp [h e he]
    · split
      · next e hf =>
        have := List.find?_some hf
        rw [h e (List.mem_of_find?_eq_some hf)] at this
        cases this
      · rfl

/-- **unrelated_report_noop.** Delivering issue notifications none of which matches a cached path
    changes neither the cache (content and order) nor the active path; it only empties the queue. -/
theorem unrelated_report_noop (env : Env) (s : St) (now : Nat) (sc : Nat → Int)
    (h : ∀ m ∈ s.pending, ∀ e ∈ s.cached, m.target.matchesPath e = false) :
    (deliver env s now sc).cached = s.cached ∧ (deliver env s now sc).active = s.active := by
  unfold deliver
  split
  · exact ⟨rfl, rfl⟩
  · next m rest hp =>
    split
    · exact ⟨rfl, rfl⟩
    · simp only
      have hna : ((m :: rest).filter (·.target.appliesTo env.src env.dst)).any (affectsActive s) = false := by
        rw [List.any_eq_false]
        intro x hx
        have hx' : x ∈ s.pending := by rw [hp]; exact (List.mem_filter.mp hx).1
        simp [affectsActive_false_of_no_match s x (h x hx')]
      rw [hna]
      exact ⟨rfl, rfl⟩

/- **steer_away** (full statement, FALSE – see the witness below):
     the active path `a` matches the reported target, a valid cached path `q` does not
     ⟹ after delivery the active path does not match the target.
   The version with the hypothesis "`q` outscores every matching cached path by more than the swap
   threshold" is exercised on the real code by the harness, not proved. -/

private def pa : Path := ⟨1, some 9000, 1, 2, some [⟨1, 1⟩, ⟨7, 1⟩, ⟨7, 4⟩, ⟨2, 1⟩], some 1, some 1⟩
private def pq : Path := ⟨2, some 9000, 1, 2, some [⟨1, 2⟩, ⟨8, 2⟩, ⟨8, 5⟩, ⟨2, 2⟩], some 2, some 2⟩
private def envS : Env := { cfg := defaultCfg, src := 1, dst := 2, allowed := fun _ => true }
/-- active `pa`, alternative `pq` cached; the issue "interface 7#4 down" is queued -/
private def sS : St :=
  { cached := [pa, pq], active := some pa, nextRefetch := 0, nextIdle := 0, initialized := true,
    pending := [⟨.interface 7 none 4, 0⟩] }
/-- scores after ingestion in units of 1/1000: both paths carry a fresh −1 penalty -/
private def scBoth : Nat → Int := fun _ => -906 * 2 ^ 139
/-- only the active path is penalised -/
private def scOne : Nat → Int := fun fp => if fp = 1 then -906 * 2 ^ 139 else 94 * 2 ^ 139

/-- **steer_away_witness.** With the default configuration: the active path crosses the failed
    interface, a valid cached path avoids it, but that alternative carries its own fresh penalty – the
    active path is kept. -/
theorem steer_away_witness :
    ¬ (∀ (env : Env) (s : St) (now : Nat) (sc : Nat → Int) (m : Marker) (a q : Path),
        s.pending = [m] → s.active = some a → m.target.matchesPath a = true →
        q ∈ s.cached → checkExpiry q now env.cfg.minExpiryThreshold = .valid →
        m.target.matchesPath q = false →
        ∀ a', (deliver env s now sc).active = some a' → m.target.matchesPath a' = false) := by
  intro h
  have := h envS sS 1000000000 scBoth ⟨.interface 7 none 4, 0⟩ pa pq rfl rfl (by decide) (by decide)
    (by decide) (by decide) pa (by decide)
  revert this
  decide

/-- non-vacuity / the intended behaviour: when the alternative is unpenalised the very next
    re-evaluation switches to it -/
example : (deliver envS sS 1000000000 scOne).active = some pq := by decide
example : (Target.interface 7 none 4).matchesPath pq = false := by decide

end ScionVerif.PathMgr
