import ScionVerif.Lemmas.Sched
import ScionVerif.Generated.Sched
/-!
# C20 — waiting senders always wake; dropping the manager stops its workers

Property theorems over the transition system `Model/Sched.lean` (atomic actions = the lock-protected
regions and lock-free stores of `path/manager.rs` + `path/manager/pathset.rs`; tokio `Notify`,
`scc::HashIndex` entry API, `Arc`/`Weak` and the cancel token modelled by their documented guarantees).
All statements quantify over **every** schedule (`List Action`) – any number of callers, workers, keys,
any interleaving; nothing is bounded.  Invariants and the ranking argument are in `Lemmas/Sched.lean`.

What is *not* proved here: that the Rust code performs exactly these atomic actions in this order
(tied by the trace-inclusion harness `hx_sched` on forced and randomised schedules), and the behaviour of
tokio / scc / std::sync themselves.
-/
namespace ScionVerif.Sched

/-! ## 0. Tie to the source: the regions between the yield points of the code

`Generated/Sched.lean` is written by the translator on every run: for every function of the protocol the
sequence of shared-state effects in source order, cut at the `verif-hooks` yield points (the same points at
which the harness `hx_sched` parks and releases the real tasks).  The statements below are what the model
*assumes* about that code, proved over the generated names – they are ties (`decide` / unfolding), not
properties: if an effect moves into another region, a region is split into two lock regions, the `Notified`
is created after the unlock, or the worker is spawned outside the entry API, they stop checking. -/

open Generated.Sched in
/-- effect of one scanned token on the handshake state (`e` = the value stored by an `errSome`) -/
def applyTok (e : Option Err) (sh : Shared) : Tok → Shared
  | .ongoingSome => { sh with ongoing := true }
  | .ongoingNone => { sh with ongoing := false }
  | .initTrue => { sh with initialized := true }
  | .notify => { sh with gen := sh.gen + 1 }
  | .errNone => { sh with error := none }
  | .errSome => { sh with error := e }
  | .storeNone => { sh with active := none }
  | _ => sh

/-- the lock region after `w:before-set-ongoing` is the model action `setOngoing` -/
theorem region_setOngoing (x : Worker) (al : Bool) (h : x.pc = .setOngoing) :
    (wNext x al .setOngoing).map (·.sh) =
      some (Generated.Sched.setOngoingRegion.foldl (applyTok none) x.sh) := by
  simp [wNext, h, Generated.Sched.setOngoingRegion, applyTok]

/-- the lock region after `w:before-set-err` (Ok arm / Err arm of `match result`) is the model action `setErr` -/
theorem region_setErr (x : Worker) (al : Bool) (r : FetchRes) (h : x.pc = .setErr r) :
    (wNext x al .setErr).map (·.sh) =
      some ((if r = .ok then Generated.Sched.setErrOkRegion else Generated.Sched.setErrErrRegion).foldl
        (applyTok (errOf r)) x.sh) := by
  cases r <;> simp [wNext, h, Generated.Sched.setErrOkRegion, Generated.Sched.setErrErrRegion, applyTok, errOf]

/-- the lock region after `w:before-clear` is the model action `clearAndNotify`: flags cleared and
`notify_waiters()` in ONE region -/
theorem region_clearAndNotify (x : Worker) (al : Bool) (h : x.pc = .clear) :
    (wNext x al .clearAndNotify).map (·.sh) =
      some (Generated.Sched.clearRegion.foldl (applyTok none) x.sh) := by
  simp [wNext, h, Generated.Sched.clearRegion, applyTok]

/-- the region after `w:before-exit-notify` (one lock region that also covers the lock-free `store(None)`) is
the model's `exitNotify` followed by `storeNone` -/
theorem region_exit (x : Worker) (al : Bool) (r : Reason) (h : x.pc = .exitNotify r) :
    ((wNext x al .exitNotify).bind (fun y => wNext y al .storeNone)).map (·.sh) =
      some (Generated.Sched.exitNotifyRegion.foldl (applyTok (some (.exited r))) x.sh) := by
  simp [wNext, h, Generated.Sched.exitNotifyRegion, applyTok]

/-- **the `Notified` is created under the state lock**, after the two flag reads and before the yield point
`h:registered`; what follows that yield point is only the await -/
theorem register_under_lock :
    Generated.Sched.lockCheckRegion = [.lock, .readOngoing, .readInit, .register] ∧
    Generated.Sched.registeredRegion = [.awaitNotified] := by decide

/-- no region between two yield points takes the state lock twice (a region of the code is at most one lock
region of the model), and no shared-state effect precedes the first yield point of a function -/
theorem one_lock_per_region :
    (∀ r ∈ Generated.Sched.allRegions, (r.filter (· = .lock)).length ≤ 1) ∧
    Generated.Sched.beforeFirstSite = [] := by decide

/-- the worker is spawned inside the entry API; removal and cancellation are single calls; `select!` is biased
with the cancellation first -/
theorem entry_api_shape :
    Generated.Sched.ensureFn = [.entrySync, .insertEntry, .spawn] ∧
    Generated.Sched.fastEnsureFn = [.containsKey, .ensure] ∧
    Generated.Sched.stopFn = [.removeSync] ∧ Generated.Sched.taskDrop = [.cancel] ∧
    Generated.Sched.manageLoop.filter (fun t => t = .biased ∨ t = .armCancelled ∨ t = .armSleep ∨ t = .armIssue)
      = [.biased, .armCancelled, .armSleep, .armIssue] := by decide

/-- the remaining (lock-free) regions are the calls the model's actions stand for -/
theorem lockfree_regions_shape :
    Generated.Sched.startRegion = [.upgrade, .fetchAndUpdate] ∧
    Generated.Sched.cacheOkRegion = [.cache] ∧ Generated.Sched.cacheErrRegion = [.cache] ∧
    Generated.Sched.publishRegion = [.publish] ∧ Generated.Sched.afterClearRegion = [] ∧
    Generated.Sched.cancelledRegion = [] ∧ Generated.Sched.tickRegion = [.upgrade, .maintain] ∧
    Generated.Sched.maintain = [.idleCheck, .fetchAndUpdate] ∧ Generated.Sched.idleCheck = [.readUsed, .usedFalse] ∧
    Generated.Sched.issueRegion = [.upgrade, .handleIssue] ∧ Generated.Sched.exitRemoveRegion = [.upgrade, .remove] ∧
    Generated.Sched.tryActivePath = [.usedTrue, .load] ∧
    Generated.Sched.loadRegion = [.usedTrue, .load, .awaitOngoing] ∧ Generated.Sched.reloadRegion = [.load] ∧
    Generated.Sched.peekRegion = [.peekWith, .tryActive, .expiryCheck] ∧
    Generated.Sched.ensureRegion = [.ensure, .activePath, .expiryCheck] ∧
    Generated.Sched.readErrRegion = [.readErr] ∧ Generated.Sched.currentError = [.lock, .readErrField] ∧
    Generated.Sched.cachedPath = [.peekWith, .tryActive, .expiryCheck, .fastEnsure] := by decide

/-! ## 1. No lost wake-up -/

/-- **No lost wake-up (invariant over all interleavings).**  In every reachable state, a caller that has
registered a `Notified` (created at counter value `g`, under the state lock) on the path set of worker `i`
and has not been woken yet (`g` is still the current counter) sees the handshake flags of that worker
pending (`ongoing ∨ ¬initialized`), and the worker is at a program point from which a
`notify_waiters()` is still ahead (`notifyRank > 0`): it cannot have passed its last notification. -/
theorem no_lost_wakeup {s : State} (hr : Reachable s) (j g : Nat) (hw : (s.t j).pc = .waiting g) :
    ∃ i, (s.t j).h = some i ∧ i < s.nW ∧ g ≤ (s.w i).sh.gen ∧
      (g = (s.w i).sh.gen → (s.w i).pending = true ∧ 0 < (s.w i).pc.notifyRank) := by
  have hinv := hr.inv
  obtain ⟨i, h1, h2⟩ := hinv.wait j g hw
  exact ⟨i, h1, hinv.hlt j i h1, h2.1, fun e => ⟨h2.2 e, hinv.p1 i (h2.2 e)⟩⟩

/-- **Every way out of the pending state notifies, under the lock.**  Whatever enabled action takes worker
`i`'s flags from pending to not-pending (normal completion `clearAndNotify`, or the exit sequence
`exitNotify` after idle timeout / cancellation / manager drop) bumps the `notify_waiters` counter in the same
atomic step. -/
theorem flags_cleared_only_with_notify {s s' : State} {a : Action} (h : step? s a = some s') (i : Nat)
    (hp : (s.w i).pending = true) (hq : (s'.w i).pending = false) :
    (s'.w i).sh.gen = (s.w i).sh.gen + 1 := by
  rcases (step?_frame h i).1 with hh | ⟨b, y, _, _, h3, h4⟩ | ⟨_, _, k, _, h4⟩
  · simp [Worker.pending, hh.2.1] at hp hq; simp_all
  · have hq' : y.pending = false := by simpa [Worker.pending, h4.2.1] using hq
    rw [h4.2.1]; exact wNext_clear h3 hp hq'
  · simp [Worker.pending, h4.2.1] at hq

/-- **Waiters are released (weak fairness of the worker).**  From any reachable state in which caller `j`
waits on worker `i`: along *every* schedule in which worker `i` gets at least `notifyRank ≤ 7` effective
steps (the pending lookup finishes – `fetchDone` is one of them – and the worker is scheduled), the
`Notified` of `j` is complete (the counter has moved past `g`), however the other callers, workers, idle
timeouts, `stop_managing_paths` and the drop of the manager interleave. -/
theorem waiter_released {s : State} (hr : Reachable s) (j g i : Nat)
    (hw : (s.t j).pc = .waiting g) (hh : (s.t j).h = some i) (acts : List Action)
    (hfair : (s.w i).pc.notifyRank ≤ effW i s acts) :
    g < ((run s acts).w i).sh.gen := by
  have hinv := hr.inv
  obtain ⟨i', h1, h2⟩ := hinv.wait j g hw
  rw [hh] at h1; injection h1 with h1; subst h1
  exact progress acts hinv (hinv.hlt j i hh) h2 hfair

theorem notifyRank_le (pc : WPc) : pc.notifyRank ≤ 7 := by cases pc <;> simp [WPc.notifyRank]

/-- while flags are pending the worker always has an enabled action (it is never blocked by anybody else:
the only thing it waits for is the lookup itself, `fetchDone`) -/
theorem pending_worker_enabled {s : State} (hr : Reachable s) (i : Nat) (hi : i < s.nW)
    (hp : (s.w i).pending = true) : ∃ b, (step? s (.w i b)).isSome = true := by
  obtain ⟨b, hb⟩ := wNext_enabled_pending (s.w i) s.alive (hr.inv.p1 i hp)
  refine ⟨b, ?_⟩
  simp only [step?, stepRaw, stepW, hi, if_true, Option.isSome_map]
  cases hx : wNext (s.w i) s.alive b with
  | none => simp [hx] at hb
  | some x => simp only; split <;> rfl

/-! ## 2. Released with a path or an error -/

/-- **A finished call returned a path or an error** (`cached_path`: a path or `None`) – in every reachable
state, for every caller. -/
theorem released_with_path_or_error {s : State} (hr : Reachable s) (j : Nat) (hd : (s.t j).pc = .done) :
    (∃ p, (s.t j).res = some (.path p)) ∨
    ((s.t j).kind = .cached ∧ (s.t j).res = some .nothing) ∨
    ((s.t j).kind ≠ .cached ∧ ∃ e, (s.t j).res = some (.err e)) :=
  hr.inv.shape j hd

/-! ### composition: a registered caller returns once the lookup finishes

`waiter_released` (worker fairness ⇒ the `Notified` is complete) and `waiter_finishes` (caller fairness ⇒ done)
compose: after the worker's `notifyRank` steps the caller is *permanently enabled* until it is done
(`released_caller_stays_enabled` – so giving it steps is purely a matter of scheduling it), and three of its
own steps later it has returned with a path or an error (`waiting_caller_returns`). -/

theorem run_append (s : State) (a b : List Action) : run s (a ++ b) = run (run s a) b := by
  simp [run, List.foldl_append]

theorem reachable_run {s : State} (hr : Reachable s) (acts : List Action) : Reachable (run s acts) := by
  obtain ⟨a0, rfl⟩ := hr
  exact ⟨a0 ++ acts, (run_append _ _ _).symm⟩

theorem nT_mono_run (acts : List Action) {s : State} {j : Nat} (hj : j < s.nT) : j < (run s acts).nT := by
  induction acts generalizing s with
  | nil => exact hj
  | cons a as ih =>
    simp only [run, List.foldl_cons]
    refine ih ?_
    unfold step
    cases hs : step? s a with
    | none => simpa using hj
    | some s' => simpa using Nat.lt_of_lt_of_le hj (step?_frameT hs j).2

theorem nW_mono_run (acts : List Action) {s : State} {i : Nat} (hi : i < s.nW) : i < (run s acts).nW := by
  induction acts generalizing s with
  | nil => exact hi
  | cons a as ih =>
    simp only [run, List.foldl_cons]
    exact ih (gen_mono_step s a hi).2

theorem kind_step (s : State) (a : Action) {j : Nat} (hj : j < s.nT) :
    ((step s a).t j).kind = (s.t j).kind ∧ j < (step s a).nT := by
  unfold step
  cases hs : step? s a with
  | none => simp [hj]
  | some s' =>
    simp only [Option.getD_some]
    refine ⟨?_, Nat.lt_of_lt_of_le hj (step?_frameT hs j).2⟩
    rcases (step?_frameT hs j).1 with e | ⟨b, _, ht⟩ | ⟨e, _⟩
    · rw [e]
    · exact ht.kind
    · omega

theorem kind_run (acts : List Action) {s : State} {j : Nat} (hj : j < s.nT) :
    ((run s acts).t j).kind = (s.t j).kind := by
  induction acts generalizing s with
  | nil => rfl
  | cons a as ih =>
    simp only [run, List.foldl_cons]
    obtain ⟨h1, h2⟩ := kind_step s a hj
    exact (ih h2).trans h1

/-- along any schedule a caller is either untouched or strictly further in its program -/
theorem caller_same_or_further (acts : List Action) {s : State} {j : Nat} (hj : j < s.nT) :
    (run s acts).t j = s.t j ∨ ((run s acts).t j).pc.rank < (s.t j).pc.rank := by
  induction acts generalizing s with
  | nil => exact Or.inl rfl
  | cons a as ih =>
    simp only [run, List.foldl_cons]
    cases hs : step? s a with
    | none =>
      have hst : step s a = s := by simp [step, hs]
      rw [hst]; exact ih hj
    | some s' =>
      have hst : step s a = s' := by simp [step, hs]
      rw [hst]
      have hj' : j < s'.nT := Nat.lt_of_lt_of_le hj (step?_frameT hs j).2
      by_cases hself : ∃ b, a = .t j b
      · obtain ⟨b, rfl⟩ := hself
        have hrank := step?_selfT hs
        rcases ih hj' with h | h
        · right; rw [show (List.foldl step s' as) = run s' as from rfl, h]; exact hrank
        · right; exact Nat.lt_trans h hrank
      · have hsame := step?_notselfT hs hj (fun b e => hself ⟨b, e⟩)
        rcases ih hj' with h | h
        · left; rw [show (List.foldl step s' as) = run s' as from rfl, h, hsame]
        · right; rw [← hsame]; exact h

/-- **Once released, always enabled.**  Caller `j` waits on worker `i`; after any schedule `acts1` in which the
worker got its `notifyRank` effective steps and any continuation `acts2`, caller `j` – unless it has returned –
has an enabled step: nothing can block it any more. -/
theorem released_caller_stays_enabled {s : State} (hr : Reachable s) (j g i : Nat)
    (hw : (s.t j).pc = .waiting g) (hh : (s.t j).h = some i) (acts1 acts2 : List Action)
    (hfairW : (s.w i).pc.notifyRank ≤ effW i s acts1)
    (hnd : ((run (run s acts1) acts2).t j).pc ≠ .done) :
    ∃ b, (step? (run (run s acts1) acts2) (.t j b)).isSome = true := by
  have hinv := hr.inv
  have hjlt : j < s.nT := by
    refine Nat.lt_of_not_le (fun hge => ?_)
    have := hinv.tailT j hge
    simp [hw] at this
  have hilt : i < s.nW := hinv.hlt j i hh
  have hrel := waiter_released hr j g i hw hh acts1 hfairW
  have hr2 : Reachable (run (run s acts1) acts2) := reachable_run (reachable_run hr acts1) acts2
  have hi1 : i < (run s acts1).nW := nW_mono_run acts1 hilt
  have hmono := gen_mono_run acts2 hi1
  refine caller_enabled hr2.inv (nT_mono_run acts2 (nT_mono_run acts1 hjlt)) hnd ?_
  intro g' i' hpc' hh'
  -- the caller is still where it was in `s` (it cannot come back to `waiting`)
  have h12 : run (run s acts1) acts2 = run s (acts1 ++ acts2) := (run_append _ _ _).symm
  rw [h12] at hpc' hh' hmono ⊢
  rcases caller_same_or_further (acts1 ++ acts2) hjlt with hsame | hlow
  · rw [hsame] at hpc' hh'
    rw [hw] at hpc'; injection hpc' with hg; subst hg
    rw [hh] at hh'; injection hh' with hi'; subst hi'
    rw [← h12] at hmono ⊢
    omega
  · rw [hpc', hw] at hlow
    simp [TPc.rank] at hlow

/-- **A registered caller returns once the lookup finishes.**  Caller `j` waits on worker `i`.  Along every
schedule `acts1 ++ acts2` such that worker `i` gets its `notifyRank ≤ 7` effective steps in `acts1` (the lookup
finishes, the worker is scheduled) and caller `j` gets 3 steps in `acts2` (it is enabled throughout, see
`released_caller_stays_enabled`): the call has returned, with a path or with an error. -/
theorem waiting_caller_returns {s : State} (hr : Reachable s) (j g i : Nat)
    (hw : (s.t j).pc = .waiting g) (_hh : (s.t j).h = some i) (acts1 acts2 : List Action)
    (_hfairW : (s.w i).pc.notifyRank ≤ effW i s acts1)
    (hfairT : 3 ≤ effT j (run s acts1) acts2) :
    ((run s (acts1 ++ acts2)).t j).pc = .done ∧
    ((∃ p, ((run s (acts1 ++ acts2)).t j).res = some (.path p)) ∨
     (∃ e, ((run s (acts1 ++ acts2)).t j).res = some (.err e))) := by
  have hinv := hr.inv
  have hjlt : j < s.nT := by
    refine Nat.lt_of_not_le (fun hge => ?_)
    have := hinv.tailT j hge
    simp [hw] at this
  have hj1 := nT_mono_run acts1 hjlt
  have hrank : ((run s acts1).t j).pc.rank ≤ 3 := by
    rcases caller_same_or_further acts1 hjlt with h | h
    · rw [h, hw]; simp [TPc.rank]
    · rw [hw] at h
      have h3 : (TPc.waiting g).rank = 3 := rfl
      omega
  have hdone := caller_progress acts2 hj1 (Nat.le_trans hrank hfairT)
  rw [← run_append] at hdone
  refine ⟨hdone, ?_⟩
  have hkind : ((run s (acts1 ++ acts2)).t j).kind ≠ .cached := by
    have hk0 : (s.t j).kind ≠ .cached := (hinv.needs j (by simp [hw, TPc.needsH])).2
    have := kind_run (acts1 ++ acts2) hjlt
    rw [this]; exact hk0
  rcases released_with_path_or_error (reachable_run hr _) j hdone with h | h | h
  · exact Or.inl h
  · exact absurd h.1 hkind
  · exact Or.inr h.2

/-! ## 3. One worker per pair -/

/-- **Single worker per pair.**  In every reachable state: (a) the number of `insert_entry` for a key
exceeds the number of removals of that key by exactly one if the key is managed and by zero otherwise – so
between two spawns for a pair there is a removal, and concurrent first requests (no removal yet) spawn
exactly one worker; (b) the map entry of a key is an allocated, un-cancelled worker of that key. -/
theorem single_worker_per_pair {s : State} (hr : Reachable s) :
    (∀ k, s.spawned k = s.removed k + (if (s.map k).isSome then 1 else 0)) ∧
    (∀ k i, s.map k = some i → i < s.nW ∧ (s.w i).key = k ∧ (s.w i).cancelled = false) :=
  ⟨hr.inv.mp.count, hr.inv.mp.mapOK⟩

/-- concurrent first requests: as long as the pair was never removed, at most one worker was ever spawned
for it -/
theorem first_requests_one_worker {s : State} (hr : Reachable s) (k : Key) (h0 : s.removed k = 0) :
    s.spawned k ≤ 1 := by
  have := hr.inv.mp.count k
  split at this <;> omega

/-- **… and at least one.**  The `ensure_managed_paths` step of a `path()` caller leaves its pair managed: the
handle it holds is the registered worker's, and a worker has been spawned for the pair
(`spawned = removed + 1`; with `first_requests_one_worker`: exactly one while the pair was never removed). -/
theorem first_request_starts_worker {s s' : State} (hr : Reachable s) {j : Nat} (hj : j < s.nT)
    (hpc : (s.t j).pc = .ensure) (hk : (s.t j).kind = .path)
    (h : step? s (.t j .ensure) = some s') :
    ∃ i, s'.map (s.t j).key = some i ∧ (s'.t j).h = some i ∧
      s'.spawned (s.t j).key = s'.removed (s.t j).key + 1 := by
  have hr' : Reachable s' := by
    have h1 : run s [.t j .ensure] = s' := by simp [run, step, h]
    rw [← h1]; exact reachable_run hr _
  have hs1 : ∀ s1 : State, s1.alive = true → s1.settle = s1 := by
    intro s1 h; simp [State.settle, h]
  have hcount := (single_worker_per_pair hr').1 (s.t j).key
  have key : ∃ i, s'.map (s.t j).key = some i ∧ (s'.t j).h = some i := by
    simp only [step?, stepRaw, stepT, hj, if_true, hpc, Option.map_eq_some_iff] at h
    have hae : ∀ i, afterEnsure (s.t j) i = { s.t j with h := some i, pc := .loadActive } := by
      intro i; simp [afterEnsure, hk]
    have halive : ∀ s1 : State, j < s1.nT → (s1.t j).kind = .path → (s1.t j).pc = .loadActive →
        s1.alive = true := by
      intro s1 h1 h2 h3
      simp only [State.alive, Bool.or_eq_true, List.any_eq_true, List.mem_range]
      exact Or.inr ⟨j, h1, by simp [Waiter.holds, h2, h3]⟩
    cases hm : s.map (s.t j).key with
    | some i =>
      simp only [hm] at h
      obtain ⟨s1, h1, rfl⟩ := h
      injection h1 with h1; subst h1
      have hal := halive (s.setT j (afterEnsure (s.t j) i)) (by simpa [State.setT] using hj)
        (by simp [State.setT, hae, hk]) (by simp [State.setT, hae])
      rw [hs1 _ hal]
      refine ⟨i, ?_, ?_⟩ <;> simp [State.setT, hae, hm]
    | none =>
      simp only [hm] at h
      obtain ⟨s1, h1, rfl⟩ := h
      injection h1 with h1; subst h1
      have hal := halive ((s.insert (s.t j).key).setT j (afterEnsure (s.t j) s.nW))
        (by simpa [State.setT, State.insert] using hj)
        (by simp [State.setT, hae, hk]) (by simp [State.setT, hae])
      rw [hs1 _ hal]
      refine ⟨s.nW, ?_, ?_⟩ <;> simp [State.setT, State.insert, hae]
  obtain ⟨i, h1, h2⟩ := key
  refine ⟨i, h1, h2, ?_⟩
  rw [h1] at hcount
  simpa using hcount

/-
The stronger statement "two distinct workers of the same pair are never both live (un-cancelled)" is FALSE
for the code as it is: `scc::HashIndex::remove_sync` only marks the entry unreachable, the `PathSetTask` is not
dropped, so `stop_managing_paths` does not cancel the worker; a new request then spawns a second worker while
the first one keeps running (until it idles out – and then its exit removes the *successor's* map entry by
key).  Witness below; replayed on the real code by `hx_sched` (probe `stop-does-not-cancel`).

theorem single_live_worker (hr : Reachable s) (i i') : (s.w i).key = (s.w i').key →
    (s.w i).cancelled = false → (s.w i').cancelled = false → i = i'
-/
def twoLive : List Action :=
  [.m (.spawnPath 5), .t 0 (.peek false), .t 0 .ensure, .m (.stop 5), .m (.spawnPath 5), .t 1 (.peek false), .t 1 .ensure]

theorem single_live_worker_witness :
    ¬ (∀ s, Reachable s → ∀ i i', i < s.nW → i' < s.nW → (s.w i).key = (s.w i').key →
        (s.w i).cancelled = false → (s.w i').cancelled = false → i = i') := by
  intro h
  have := h (run State.init twoLive) ⟨twoLive, rfl⟩ 0 1 (by decide +kernel) (by decide +kernel)
    (by decide +kernel) (by decide +kernel) (by decide +kernel)
  exact absurd this (by decide)

/-! ## 4. A woken caller finishes; 5. dropping the manager stops its workers -/

/-- **A caller's own program is short.**  Whatever the others do, `rank ≤ 8` effective steps of caller `j`
take it to `done` (it then holds a path or an error by `released_with_path_or_error`). -/
theorem waiter_finishes {s : State} (j : Nat) (hj : j < s.nT) (acts : List Action)
    (hfair : (s.t j).pc.rank ≤ effT j s acts) : ((run s acts).t j).pc = .done :=
  caller_progress acts hj hfair

/-- … and its next step is always enabled, except while it waits for a notification that has not come: the
only thing a caller ever blocks on is the worker's `notify_waiters` (which `waiter_released` delivers). -/
theorem waiter_enabled_unless_unwoken {s : State} (hr : Reachable s) (j : Nat) (hj : j < s.nT)
    (hnd : (s.t j).pc ≠ .done)
    (hwoken : ∀ g i, (s.t j).pc = .waiting g → (s.t j).h = some i → (s.w i).sh.gen ≠ g) :
    ∃ b, (step? s (.t j b)).isSome = true :=
  caller_enabled hr.inv hj hnd hwoken

/-- `alive = false` is exactly: the user dropped the manager, no caller of the public API is still in flight
and no worker holds an upgraded reference – i.e. `MultiPathManagerInner` has been dropped. -/
theorem manager_gone_iff (s : State) :
    s.alive = false ↔ s.userDropped = true ∧ (∀ i, i < s.nW → (s.w i).pc.holds = false) ∧
      (∀ j, j < s.nT → (s.t j).holds = false) :=
  alive_false_iff s

/-- once gone, always gone (nobody can obtain a reference to the manager any more) -/
theorem manager_gone_stable {s : State} (hr : Reachable s) (hd : s.alive = false) (acts : List Action) :
    (run s acts).alive = false := by
  have hinv := hr.inv
  clear hr
  induction acts generalizing s with
  | nil => exact hd
  | cons a as ih =>
    simp only [run, List.foldl_cons]
    cases hs : step? s a with
    | none =>
      have hst : step s a = s := by simp [step, hs]
      rw [hst]; exact ih hd hinv
    | some s' =>
      have hst : step s a = s' := by simp [step, hs]
      rw [hst]
      exact ih (dead_step hs hinv hd) (Inv_step hs hinv)

/-- **Dropping the manager stops its workers.**  Once the manager value is gone (the user dropped it and the
last in-flight caller / lookup released its reference), every worker reaches the end of its task within
`k = 4` of its own steps – whatever the other workers and the remaining handle holders do – and there
the handshake flags are clear, `current_error` is the exit error and the active slot is empty: a handle
reports an error instead of a path. -/
theorem drop_stops_workers {s : State} (hr : Reachable s) (hd : s.alive = false) (i : Nat) (hi : i < s.nW)
    (acts : List Action) (hfair : 4 ≤ effW i s acts) :
    ((run s acts).w i).pc = .done ∧ (∃ r, ((run s acts).w i).sh.error = some (.exited r)) ∧
    ((run s acts).w i).sh.active = none ∧ ((run s acts).w i).pending = false := by
  have hinv := hr.inv
  have hnh := ((alive_false_iff s).1 hd).2.1 i hi
  have hdone := exit_progress acts hinv hd hi (Nat.le_trans (exitRank_le_of_not_holds hnh) hfair)
  have hD := (Inv_run acts hinv).dinv i
  exact ⟨hdone, (hD.1 (Or.inr hdone)).1, hD.2 hdone, (hD.1 (Or.inr hdone)).2⟩

/-- a worker that has not finished always has an enabled step once the manager is gone (it cannot be
stuck: the closed issue channel / the fired cancel token wake it, `upgrade()` fails, it leaves) -/
theorem dead_worker_enabled {s : State} (hd : s.alive = false) (i : Nat) (hi : i < s.nW)
    (hnd : (s.w i).pc ≠ .done) : ∃ b, (step? s (.w i b)).isSome = true := by
  obtain ⟨b, hb⟩ := wNext_enabled_dead (s.w i) hnd
  refine ⟨b, ?_⟩
  simp only [step?, stepRaw, stepW, hi, if_true, Option.isSome_map, hd]
  cases hx : wNext (s.w i) false b with
  | none => simp [hx] at hb
  | some x => simp only; split <;> rfl

/-- **A handle used after its worker finished reports the exit error, never a path.**  If worker `i` is done
and caller `j` starts `handle.active_path()` / `current_error()` on its handle (program point `loadActive`),
then along every schedule, when `j` has returned, it returned `Err(exited …)`. -/
theorem handle_reports_error_after_exit {s : State} (hr : Reachable s) (i j : Nat) (hi : i < s.nW)
    (hdone : (s.w i).pc = .done) (hh : (s.t j).h = some i) (hpc : (s.t j).pc = .loadActive)
    (acts : List Action) (hfin : ((run s acts).t j).pc = .done) :
    ∃ r, ((run s acts).t j).res = some (.err (.exited r)) := by
  have hinv := hr.inv
  obtain ⟨⟨r, her⟩, hpend⟩ := (hinv.dinv i).1 (Or.inr hdone)
  have hact := (hinv.dinv i).2 hdone
  -- invariant along the run: the worker is frozen, the caller walks loadActive → lockCheck → reload → readErr → done
  have hjlt : j < s.nT := by
    refine Nat.lt_of_not_le (fun hge => ?_)
    have := hinv.tailT j hge
    simp [hpc] at this
  have key : ∀ (acts : List Action) (s : State), Inv s → j < s.nT → i < s.nW → (s.w i).pc = .done →
      (s.w i).sh.error = some (.exited r) → (s.w i).pending = false → (s.w i).sh.active = none →
      (s.t j).h = some i →
      (((s.t j).pc = .loadActive ∨ (s.t j).pc = .lockCheck ∨ (s.t j).pc = .reload ∨ (s.t j).pc = .readErr) ∨
        ((s.t j).pc = .done ∧ (s.t j).res = some (.err (.exited r)))) →
      ((run s acts).t j).pc = .done → ((run s acts).t j).res = some (.err (.exited r)) := by
    intro acts
    induction acts with
    | nil =>
      intro s _ _ _ _ _ _ _ _ hcase hf
      rcases hcase with h | h
      · simp only [run, List.foldl_nil] at hf
        rcases h with h | h | h | h <;> simp [h] at hf
      · exact h.2
    | cons a as ih =>
      intro s hinv hjlt hi hdone her hpend hact hh hcase hf
      simp only [run, List.foldl_cons] at hf ⊢
      obtain ⟨hd1, hd2⟩ := done_step a hi hdone
      have hinv' := Inv_stepTotal a hinv
      have hi' := (gen_mono_step s a hi).2
      have hjlt' : j < (step s a).nT := by
        unfold step
        cases hs : step? s a with
        | none => simpa using hjlt
        | some s' => simpa using Nat.lt_of_lt_of_le hjlt (step?_frameT hs j).2
      refine ih (step s a) hinv' hjlt' hi' hd1 (by rw [hd2]; exact her)
        (by simpa [Worker.pending, hd2] using hpend) (by rw [hd2]; exact hact) ?_ ?_ hf
      all_goals
        unfold step
        cases hs : step? s a with
        | none => simp only [Option.getD_none]; first | exact hh | exact hcase
        | some s' =>
          simp only [Option.getD_some]
          rcases (step?_frameT hs j).1 with e | ⟨b, rfl, _⟩ | ⟨e, _⟩
          · rw [e]; first | exact hh | exact hcase
          · -- caller j's own step
            simp only [step?, Option.map_eq_some_iff, stepRaw] at hs
            obtain ⟨s1, h1, rfl⟩ := hs
            simp only [settle_t]
            rcases hcase with hc | hc
            · have hn : (s.t j).pc.needsH = true := by rcases hc with h | h | h | h <;> simp [h]
              obtain ⟨k1, k2⟩ := stepT_read h1 hh hn hact hpend her
              first
                | exact k1
                | (rcases k2 with k | k | k | k | ⟨g, k⟩
                   · exact Or.inl (Or.inr (Or.inl k.2))
                   · exact Or.inl (Or.inr (Or.inr (Or.inl k.2)))
                   · exact Or.inl (Or.inr (Or.inr (Or.inr k.2)))
                   · exact Or.inr k.2
                   · rcases hc with h | h | h | h <;> simp [h] at k)
            · exact absurd hc.1 (stepT_self h1).notdone
          · omega
  exact ⟨r, key acts s hinv hjlt hi hdone her hpend hact hh (Or.inl (Or.inl hpc)) hfin⟩

/-! ## non-vacuity -/

/-- two concurrent first requests for pair 5: caller 0 inserts, caller 1 finds the entry; both register while
the single worker is fetching -/
def demo : List Action :=
  [.m (.spawnPath 5), .m (.spawnPath 5), .t 0 (.peek false), .t 1 (.peek false), .t 0 .ensure, .t 1 .ensure,
   .w 0 .upgradeStart, .t 0 (.loadActive false), .t 0 .lockCheck, .w 0 .setOngoing, .t 1 (.loadActive false), .t 1 .lockCheck]

example : ((run State.init demo).t 0).pc = .waiting 0 ∧ ((run State.init demo).t 1).pc = .waiting 0 ∧
    (run State.init demo).nW = 1 ∧ ((run State.init demo).w 0).pc = .fetching := by decide +kernel

/-- … and after the lookup fails and the worker has run, both are released with the error -/
def demo2 : List Action :=
  demo ++ [.w 0 (.fetchDone .err), .w 0 (.cacheStore .keep), .w 0 .setErr, .w 0 (.publishActive .keep),
           .w 0 .clearAndNotify, .t 0 .awake, .t 0 (.reload false), .t 0 .readErr, .t 1 .awake, .t 1 (.reload false), .t 1 .readErr]

example : ((run State.init demo2).t 0).res = some (.err .fetchFailed) ∧
    ((run State.init demo2).t 1).res = some (.err .fetchFailed) := by decide +kernel

/-- premises of `waiting_caller_returns` / `released_caller_stays_enabled` are satisfiable: in `demo` caller 0 waits
(counter 0) on worker 0, which is fetching (`notifyRank = 5`); five worker steps, then three caller steps -/
def demoW : List Action :=
  [.w 0 (.fetchDone .err), .w 0 (.cacheStore .keep), .w 0 .setErr, .w 0 (.publishActive .keep), .w 0 .clearAndNotify]
def demoT : List Action := [.t 0 .awake, .t 0 (.reload false), .t 0 .readErr]

example : ((run State.init demo).t 0).pc = .waiting 0 ∧ ((run State.init demo).t 0).h = some 0 ∧
    ((run State.init demo).w 0).pc.notifyRank ≤ effW 0 (run State.init demo) demoW ∧
    3 ≤ effT 0 (run (run State.init demo) demoW) demoT := by decide +kernel

/-- premises of `first_request_starts_worker`: a first `path()` request about to call `ensure_managed_paths` -/
example : let s := run State.init [.m (.spawnPath 5), .t 0 (.peek false)]
    0 < s.nT ∧ (s.t 0).pc = .ensure ∧ (s.t 0).kind = .path ∧ (step? s (.t 0 .ensure)).isSome = true := by
  decide +kernel

/-- the user drops the manager while the worker still holds its upgraded reference; when the worker releases
it the manager value is gone (hypothesis of `drop_stops_workers`) with the worker in its `select!` loop -/
def demo3 : List Action := demo2 ++ [.m .drop, .w 0 .releaseMgr]

example : (run State.init demo3).alive = false ∧ ((run State.init demo3).w 0).pc = .loop ∧
    ((run State.init demo3).w 0).cancelled = true ∧ (run State.init demo3).map 5 = none := by decide +kernel

/-- … four own steps later it is done, and a handle used afterwards reports the exit error
(hypotheses of `handle_reports_error_after_exit`) -/
def demo4 : List Action :=
  demo3 ++ [.w 0 .cancelSeen, .w 0 .exitRemove, .w 0 .exitNotify, .w 0 .storeNone, .m (.spawnHandle 0)]

example : ((run State.init demo4).w 0).pc = .done ∧ ((run State.init demo4).t 2).pc = .loadActive ∧
    ((run State.init demo4).t 2).h = some 0 := by decide +kernel

example : ((run State.init (demo4 ++ [.t 2 (.loadActive false), .t 2 .lockCheck, .t 2 (.reload false), .t 2 .readErr])).t 2).res
    = some (.err (.exited .cancelled)) := by decide +kernel

/-- an active path that has outlived its expiry is treated as absent by `path()`: the caller does not wait (the
flags are clear) and returns the recorded error – here none, i.e. `NoPathsFound` -/
def demoExp : List Action :=
  [.m (.spawnPath 5), .t 0 (.peek false), .t 0 .ensure, .w 0 .upgradeStart, .w 0 .setOngoing, .w 0 (.fetchDone .ok),
   .w 0 (.cacheStore .keep), .w 0 .setErr, .w 0 (.publishActive (.set 7)), .w 0 .clearAndNotify,
   .m (.spawnPath 5), .t 1 (.peek true), .t 1 .ensure, .t 1 (.loadActive true), .t 1 .readErr]

example : ((run State.init demoExp).t 1).res = some (.err .noPaths) := by decide +kernel

end ScionVerif.Sched
