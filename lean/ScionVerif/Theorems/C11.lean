import ScionVerif.Lemmas.StdPath
/-!
# C11 — hop-field authentication and per-AS advance are a correct monotone state machine

Property theorems over the routing part of `Model/StdPath.lean` (`advanceIngress`, `advanceEgress`:
statement-by-statement mirrors of `advance_{ingress,egress}_with_validator` in `standard/routing.rs`,
after `fix: advancing a standard path must not wrap the 6-bit CurrHF pointer`).

Part 1 (state machine) holds for **every** structured state – any pointers, any segment table, any field
contents – and every validator; through `ofBytes_toBytes`/`toBytes_ofBytes` (Lemmas) that is every byte
string the view constructor accepts.  Part 2 (authentication) is parametric in the MAC function
`mac : K → MacInput → Nat`: AES-CMAC is not modelled, nothing about it is assumed.
-/
namespace ScionVerif.StdPath
open ScionVerif.Generated.StdPath
open ScionVerif.Mac (betaStep MacInput MacFn)

/-! ## 1. Failure leaves the path untouched; nothing panics -/

/-- **`fail_atomic` (ingress).**  An `AdvanceError` returns the state the call started from. -/
theorem fail_atomic_ingress (val : Validator) (fi : Bool) (p p' : PathV) (e : AdvErr)
    (h : advanceIngress val fi p = (p', .err e)) : p' = p := by
  unfold advanceIngress finishIngress at h
  simp only [] at h
  repeat' split at h
  all_goals simp only [Prod.mk.injEq, reduceCtorEq, and_false] at h
  all_goals first | exact h.1.symm | skip

/-- **`fail_atomic` (egress).** -/
theorem fail_atomic_egress (val : Validator) (p p' : PathV) (e : AdvErr)
    (h : advanceEgress val p = (p', .err e)) : p' = p := by
  unfold advanceEgress at h
  simp only [] at h
  repeat' split at h
  all_goals simp only [Prod.mk.injEq, reduceCtorEq, and_false] at h
  all_goals first | exact h.1.symm | skip

/-- **`fail_atomic`, bytes.**  For every accepted buffer (with any tail): an error from either advance
function leaves the buffer byte-for-byte unchanged. -/
theorem fail_atomic (val : Validator) (b b' : Bytes) (e : AdvErr) :
    (∀ fi, onBytes (advanceIngress val fi) b = some (b', .err e) → b' = b) ∧
    (onBytes (advanceEgress val) b = some (b', .err e) → b' = b) := by
  constructor
  · intro fi h
    unfold onBytes at h
    split at h
    · simp at h
    · rename_i p rest hp
      simp only [Option.some.injEq, Prod.mk.injEq] at h
      have : advanceIngress val fi p = ((advanceIngress val fi p).1, .err e) := by rw [← h.2]
      rw [fail_atomic_ingress val fi p _ e this] at h
      rw [← h.1]; exact (toBytes_ofBytes b p rest hp).1
  · intro h
    unfold onBytes at h
    split at h
    · simp at h
    · rename_i p rest hp
      simp only [Option.some.injEq, Prod.mk.injEq] at h
      have : advanceEgress val p = ((advanceEgress val p).1, .err e) := by rw [← h.2]
      rw [fail_atomic_egress val p _ e this] at h
      rw [← h.1]; exact (toBytes_ofBytes b p rest hp).1

/-- **Atomicity of the statement sequences.**  `ingressImp` / `egressImp` run the statements of
`advance_{ingress,egress}_with_validator` in source order with the receiver threaded through – an exit returns the
receiver *as written so far*, not the input by construction.  They compute the summaries (`ingressImp_eq`,
`egressImp_eq`: on every exit path no write has happened), hence an `AdvanceError` hands back the receiver the call
started from.  The driver runs these forms, so this is what the harness compares with the code after every call. -/
theorem fail_atomic_imp (val : Validator) (fi : Bool) (p p' : PathV) (e : AdvErr) :
    ((ingressImp val fi).run p = (p', .err e) → p' = p) ∧ ((egressImp val).run p = (p', .err e) → p' = p) :=
  ⟨fun h => fail_atomic_ingress val fi p p' e (by rw [← ingressImp_eq]; exact h),
   fun h => fail_atomic_egress val p p' e (by rw [← egressImp_eq]; exact h)⟩

/-- **The order of effects is the one in `routing.rs` as it is now.**  The translator re-extracts, on every run, the
source order of early exits (`?`, `return Err`), panic sites and receiver writes of both advance functions; it equals
the order mirrored by `ingressImp` / `egressImp`, and in it every exit precedes every write.  (Moving the commit block
or a `set_curr_*` call in front of a `?` changes the generated list and breaks this theorem; the bodies contain no
loop in front of the last exit – the translator refuses otherwise – so source order is execution order.) -/
theorem effects_tie_advance :
    ingressImp.effects = EFFECTS_INGRESS ∧ egressImp.effects = EFFECTS_EGRESS ∧
    exitsBeforeWrites EFFECTS_INGRESS = true ∧ exitsBeforeWrites EFFECTS_EGRESS = true := by
  decide

theorem segIndex_some (s0 s1 s2 hop seg : Nat) (sos eos : Bool) (h : segIndex s0 s1 s2 hop = some (seg, sos, eos)) :
    hop < s0 + s1 + s2 ∧ seg ≤ 2 ∧ (eos = false → hop + 1 < s0 + s1 + s2) ∧
    (seg = 0 → 0 < s0) ∧ (seg = 1 → 0 < s1) ∧ (seg = 2 → 0 < s2) := by
  unfold segIndex at h
  repeat' split at h
  all_goals simp only [Option.some.injEq, Prod.mk.injEq, reduceCtorEq] at h
  all_goals obtain ⟨rfl, rfl, rfl⟩ := h
  all_goals simp only [beq_eq_false_iff_ne, ne_eq]
  all_goals omega

theorem hopAt_some (p : PathV) (i : Nat) (h : HopF) (e : p.hopAt i = some h) :
    i < p.hopCount ∧ i < p.hops.length ∧ p.hops[i]? = some h := by
  unfold PathV.hopAt at e
  split at e
  · exact ⟨by assumption, (List.getElem?_eq_some_iff.1 e).1, e⟩
  · simp at e

theorem infoAt_some (p : PathV) (i : Nat) (x : InfoF) (e : p.infoAt i = some x) :
    i < p.infoCount ∧ i < p.infos.length ∧ p.infos[i]? = some x := by
  unfold PathV.infoAt at e
  split at e
  · exact ⟨by assumption, (List.getElem?_eq_some_iff.1 e).1, e⟩
  · simp at e

theorem commit_some (p : PathV) (hop hop1 : HopF) (info info1 : InfoF)
    (hh : p.hopAt p.currHf = some hop) (hi : p.infoAt p.currInf = some info) :
    p.commit p.currInf info1 p.currHf hop1 =
      some { p with infos := p.infos.set p.currInf info1, hops := p.hops.set p.currHf hop1 } := by
  obtain ⟨a1, a2, -⟩ := hopAt_some p _ _ hh
  obtain ⟨b1, b2, -⟩ := infoAt_some p _ _ hi
  unfold PathV.commit
  rw [if_pos ⟨b1, b2, a1, a2⟩]

/-- the commit phase succeeds whenever the two fields could be read -/
theorem finishIngress_ok (p q : PathV) (hop hop1 : HopF) (info info1 : InfoF) (out : IngOut)
    (hq : q.seg0 = p.seg0 ∧ q.seg1 = p.seg1 ∧ q.seg2 = p.seg2 ∧ q.infos = p.infos ∧ q.hops = p.hops)
    (hh : p.hopAt p.currHf = some hop) (hi : p.infoAt p.currInf = some info) :
    finishIngress p q info1 hop1 out =
      ({ q with infos := p.infos.set p.currInf info1, hops := p.hops.set p.currHf hop1 }, .ok out) := by
  obtain ⟨a1, a2, -⟩ := hopAt_some p _ _ hh
  obtain ⟨b1, b2, -⟩ := infoAt_some p _ _ hi
  obtain ⟨q0, q1, q2, q3, q4⟩ := hq
  unfold finishIngress PathV.commit
  unfold PathV.infoCount PathV.hopCount at *
  rw [q0, q1, q2, q3, q4, if_pos ⟨b1, b2, a1, a2⟩]

/-- what a successful egress step did -/
theorem egress_ok_inv (val : Validator) (p p' : PathV) (o : EgrOut) (h : advanceEgress val p = (p', .ok o)) :
    ∃ sos hop info, p.segIndex p.currHf = some (p.currInf, sos, false) ∧
      p.hopAt p.currHf = some hop ∧ p.infoAt p.currInf = some info ∧
      p.currHf + 1 < p.hopCount ∧ p.currHf + 1 ≤ MAX_TOTAL_HOPS ∧
      p' = { p with infos := p.infos.set p.currInf (egrInfo hop info), hops := p.hops.set p.currHf (egrHop hop info)
                    currHf := (p.currHf + 1) % 2 ^ META_CURR_HOP_FIELD_WIDTH } ∧
      o = { alert := egressAlert hop.flags (consDir info.flags), egressIf := (egrHop hop info).egressIf (egrInfo hop info)
            valid := val.hop p.currHf hop info sos false } := by
  unfold advanceEgress at h
  cases hs : p.segIndex p.currHf with
  | none => simp [hs] at h
  | some t =>
    obtain ⟨seg, sos, eos⟩ := t
    simp only [hs] at h
    split at h
    · simp at h
    rename_i hseg
    simp only [ne_eq, Decidable.not_not] at hseg
    subst hseg
    cases hh : p.hopAt p.currHf with
    | none => simp [hh] at h
    | some hop =>
      cases hi : p.infoAt p.currInf with
      | none => simp [hh, hi] at h
      | some info =>
        simp only [hh, hi] at h
        split at h
        · simp at h
        split at h
        · simp at h
        split at h
        · simp at h
        rename_i c1 c2 c3
        rw [commit_some p hop _ info _ hh hi] at h
        simp only [Prod.mk.injEq, AdvRes.ok.injEq] at h
        have : eos = false := by simpa using c3
        subst this
        exact ⟨sos, hop, info, rfl, rfl, rfl, by omega, by omega, h.1.symm, h.2.symm⟩

/-- what a successful ingress step did: either the pointers stay (`ForwardLocal` at the last hop field /
`ContinueEgress` inside a segment) or both move by one (segment change) -/
theorem ingress_ok_inv (val : Validator) (fi : Bool) (p p' : PathV) (o : IngOut)
    (h : advanceIngress val fi p = (p', .ok o)) :
    ∃ sos eos hop info, p.segIndex p.currHf = some (p.currInf, sos, eos) ∧ (sos && eos) = false ∧
      p.hopAt p.currHf = some hop ∧ p.infoAt p.currInf = some info ∧
      let info1 := ingInfo fi hop info
      let hop1 := ingHop fi hop info
      let infos' := p.infos.set p.currInf info1
      let hops' := p.hops.set p.currHf hop1
      ((eos = true ∧ p.hopCount ≤ p.currHf + 1 ∧ p' = { p with infos := infos', hops := hops' } ∧
          o.action = .forwardLocal ∧ o.valid = val.hop p.currHf hop info1 sos eos) ∨
       (eos = false ∧ p.currHf + 1 < p.hopCount ∧ p' = { p with infos := infos', hops := hops' } ∧
          o.action = .continueEgress (hop1.egressIf info1) ∧ o.valid = val.hop p.currHf hop info1 sos eos) ∨
       (eos = true ∧ p.currHf + 1 < p.hopCount ∧ p.currHf + 1 ≤ MAX_TOTAL_HOPS ∧
          ∃ nh ni, p.hopAt (p.currHf + 1) = some nh ∧ p.infoAt (p.currInf + 1) = some ni ∧
            p' = { p with infos := infos', hops := hops'
                          currHf := (p.currHf + 1) % 2 ^ META_CURR_HOP_FIELD_WIDTH
                          currInf := (p.currInf + 1) % 2 ^ META_CURR_INFO_FIELD_WIDTH } ∧
            o.action = .continueEgress (nh.egressIf ni) ∧
            o.valid = (val.hop p.currHf hop info1 sos eos && val.segChange p.currHf hop1 info1 nh ni &&
              val.hop (p.currHf + 1) nh ni true false))) := by
  unfold advanceIngress at h
  cases hs : p.segIndex p.currHf with
  | none => simp [hs] at h
  | some t =>
    obtain ⟨seg, sos, eos⟩ := t
    simp only [hs] at h
    split at h
    · simp at h
    rename_i hse
    split at h
    · simp at h
    rename_i hseg
    simp only [ne_eq, Decidable.not_not] at hseg
    subst hseg
    cases hh : p.hopAt p.currHf with
    | none => simp [hh] at h
    | some hop =>
      cases hi : p.infoAt p.currInf with
      | none => simp [hh, hi] at h
      | some info =>
        simp only [hh, hi] at h
        refine ⟨sos, eos, hop, info, rfl, by simpa using hse, rfl, rfl, ?_⟩
        split at h
        · rename_i c1
          rw [finishIngress_ok p p hop _ info _ _ ⟨rfl, rfl, rfl, rfl, rfl⟩ hh hi] at h
          simp only [Prod.mk.injEq, AdvRes.ok.injEq] at h
          simp only [decide_eq_true_eq] at c1
          exact .inl ⟨rfl, by omega, h.1.symm, by rw [← h.2], by rw [← h.2]⟩
        · rename_i c1
          rw [finishIngress_ok p p hop _ info _ _ ⟨rfl, rfl, rfl, rfl, rfl⟩ hh hi] at h
          simp only [Prod.mk.injEq, AdvRes.ok.injEq] at h
          simp only [decide_eq_false_iff_not] at c1
          exact .inr (.inl ⟨rfl, by omega, h.1.symm, by rw [← h.2], by rw [← h.2]⟩)
        · rename_i c1
          simp only [decide_eq_false_iff_not] at c1
          split at h
          · simp at h
          rename_i c3
          cases hn : p.hopAt (p.currHf + 1) with
          | none => simp [hn] at h
          | some nh =>
            cases hni : p.infoAt (p.currInf + 1) with
            | none => simp [hn, hni] at h
            | some ni =>
              simp only [hn, hni] at h
              rw [finishIngress_ok p { p with currHf := (p.currHf + 1) % 2 ^ META_CURR_HOP_FIELD_WIDTH
                                              currInf := (p.currInf + 1) % 2 ^ META_CURR_INFO_FIELD_WIDTH }
                hop _ info _ _ ⟨rfl, rfl, rfl, rfl, rfl⟩ hh hi] at h
              simp only [Prod.mk.injEq, AdvRes.ok.injEq] at h
              exact .inr (.inr ⟨rfl, by omega, by omega, nh, ni, rfl, rfl, h.1.symm, by rw [← h.2], by rw [← h.2]⟩)
        · simp at h

/-- **No panic.**  For every structured state (valid or not), every validator and both entry sides: the
`unreachable!` arm and the two `expect`s of the commit phase are never reached. -/
theorem no_panic (val : Validator) (p : PathV) :
    (∀ fi, (advanceIngress val fi p).2 ≠ .panic) ∧ (advanceEgress val p).2 ≠ .panic := by
  constructor
  · intro fi
    unfold advanceIngress
    cases hs : p.segIndex p.currHf with
    | none => simp
    | some t =>
      obtain ⟨seg, sos, eos⟩ := t
      simp only []
      split
      · simp
      split
      · simp
      cases hh : p.hopAt p.currHf with
      | none => simp
      | some hop =>
        cases hi : p.infoAt p.currInf with
        | none => simp
        | some info =>
          simp only []
          split
          · rw [finishIngress_ok p p hop _ info _ _ ⟨rfl, rfl, rfl, rfl, rfl⟩ hh hi]; simp
          · rw [finishIngress_ok p p hop _ info _ _ ⟨rfl, rfl, rfl, rfl, rfl⟩ hh hi]; simp
          · split
            · simp
            cases hn : p.hopAt (p.currHf + 1) with
            | none => simp
            | some nh =>
              cases hni : p.infoAt (seg + 1) with
              | none => simp
              | some ni =>
                simp only []
                rw [finishIngress_ok p { p with currHf := (p.currHf + 1) % 2 ^ META_CURR_HOP_FIELD_WIDTH
                                                currInf := (seg + 1) % 2 ^ META_CURR_INFO_FIELD_WIDTH }
                  hop _ info _ _ ⟨rfl, rfl, rfl, rfl, rfl⟩ hh hi]; simp
          · -- the `unreachable!` arm: final hop but not a segment end
            exfalso
            have := (segIndex_some _ _ _ _ _ _ _ hs).2.2.1 rfl
            simp only [decide_eq_true_eq] at *
            unfold PathV.hopCount at *
            omega
  · unfold advanceEgress
    cases hs : p.segIndex p.currHf with
    | none => simp
    | some t =>
      obtain ⟨seg, sos, eos⟩ := t
      simp only []
      split
      · simp
      cases hh : p.hopAt p.currHf with
      | none => simp
      | some hop =>
        cases hi : p.infoAt p.currInf with
        | none => simp
        | some info =>
          simp only [commit_some p hop _ info _ hh hi]
          (repeat' split) <;> simp

/-! ## 2. Success moves the pointers forward, and only forward -/

theorem max_hops_fits : MAX_TOTAL_HOPS < 2 ^ META_CURR_HOP_FIELD_WIDTH := by decide

/-- **`egress_strict`.**  A successful egress step moves CurrHF forward by exactly one, keeps CurrINF and
the segment table, and the new CurrHF is still a hop field of the path. -/
theorem egress_strict (val : Validator) (p p' : PathV) (o : EgrOut) (h : advanceEgress val p = (p', .ok o)) :
    p'.currHf = p.currHf + 1 ∧ p'.currInf = p.currInf ∧ p'.currHf < p'.hopCount ∧
    p'.seg0 = p.seg0 ∧ p'.seg1 = p.seg1 ∧ p'.seg2 = p.seg2 := by
  obtain ⟨sos, hop, info, -, -, -, h1, h2, rfl, -⟩ := egress_ok_inv val p p' o h
  have := max_hops_fits
  refine ⟨Nat.mod_eq_of_lt (by omega), rfl, ?_, rfl, rfl, rfl⟩
  show (p.currHf + 1) % 2 ^ META_CURR_HOP_FIELD_WIDTH < p.seg0 + p.seg1 + p.seg2
  rw [Nat.mod_eq_of_lt (by omega)]; exact h1

/-- **`ingress_nondecreasing`.**  A successful ingress step either keeps both pointers or – at a segment
change – moves both forward by exactly one; the segment table is untouched. -/
theorem ingress_nondecreasing (val : Validator) (fi : Bool) (p p' : PathV) (o : IngOut)
    (h : advanceIngress val fi p = (p', .ok o)) :
    ((p'.currHf = p.currHf ∧ p'.currInf = p.currInf) ∨
     (p'.currHf = p.currHf + 1 ∧ p'.currInf = p.currInf + 1 ∧ p'.currHf < p'.hopCount)) ∧
    p'.seg0 = p.seg0 ∧ p'.seg1 = p.seg1 ∧ p'.seg2 = p.seg2 := by
  obtain ⟨sos, eos, hop, info, hs, -, -, -, hc⟩ := ingress_ok_inv val fi p p' o h
  have hm := max_hops_fits
  rcases hc with ⟨-, -, rfl, -⟩ | ⟨-, -, rfl, -⟩ | ⟨-, h1, h2, nh, ni, -, hni, rfl, -⟩
  · exact ⟨.inl ⟨rfl, rfl⟩, rfl, rfl, rfl⟩
  · exact ⟨.inl ⟨rfl, rfl⟩, rfl, rfl, rfl⟩
  · have hs2 := (segIndex_some _ _ _ _ _ _ _ hs).2.1
    have e1 : (p.currHf + 1) % 2 ^ META_CURR_HOP_FIELD_WIDTH = p.currHf + 1 := Nat.mod_eq_of_lt (by omega)
    have e2 : (p.currInf + 1) % 2 ^ META_CURR_INFO_FIELD_WIDTH = p.currInf + 1 :=
      Nat.mod_eq_of_lt (by simp only [META_CURR_INFO_FIELD_WIDTH]; omega)
    refine ⟨.inr ⟨e1, e2, ?_⟩, rfl, rfl, rfl⟩
    show (p.currHf + 1) % 2 ^ META_CURR_HOP_FIELD_WIDTH < p.seg0 + p.seg1 + p.seg2
    rw [e1]; exact h1

/-- **`as_step_progress`.**  Processing at one AS = ingress then egress.  If the ingress step succeeds it
either ends the journey (`ForwardLocal`, after which no egress step can succeed) or announces an egress
step; and whenever that egress step succeeds, CurrHF is strictly larger than before the AS. -/
theorem as_step_progress (val val' : Validator) (fi : Bool) (p p1 : PathV) (o : IngOut)
    (h : advanceIngress val fi p = (p1, .ok o)) :
    (o.action = .forwardLocal → ∀ p2 o2, advanceEgress val' p1 ≠ (p2, .ok o2)) ∧
    (∀ p2 o2, advanceEgress val' p1 = (p2, .ok o2) → p.currHf < p2.currHf ∧ p.currInf ≤ p2.currInf) := by
  obtain ⟨mono, s0, s1, s2⟩ := ingress_nondecreasing val fi p p1 o h
  constructor
  · intro hl p2 o2 he
    obtain ⟨sos, eos, hop, info, hs, -, -, -, hc⟩ := ingress_ok_inv val fi p p1 o h
    obtain ⟨_, _, _, -, -, -, h1, -⟩ := egress_ok_inv val' p1 p2 o2 he
    rcases hc with ⟨-, hfin, rfl, -⟩ | ⟨-, -, -, ha, -⟩ | ⟨-, -, -, _, _, -, -, -, ha, -⟩
    · unfold PathV.hopCount at *; simp only at h1; omega
    · rw [hl] at ha; cases ha
    · rw [hl] at ha; cases ha
  · intro p2 o2 he
    obtain ⟨e1, e2, -⟩ := egress_strict val' p1 p2 o2 he
    rcases mono with ⟨a, b⟩ | ⟨a, b, -⟩ <;> omega

/-- one processing step of a packet, in any order a (possibly confused) router might apply them -/
inductive Step
  | ingress (val : Validator) (fromInternal : Bool)
  | egress (val : Validator)

/-- apply a step; `true` = it returned `Ok` -/
def Step.apply : Step → PathV → PathV × Bool
  | .ingress val fi, p => match advanceIngress val fi p with
    | (q, .ok _) => (q, true)
    | (q, _) => (q, false)
  | .egress val, p => match advanceEgress val p with
    | (q, .ok _) => (q, true)
    | (q, _) => (q, false)

/-- run a sequence of steps; returns the final state and the number of *successful egress steps* -/
def runSteps : List Step → PathV → PathV × Nat
  | [], p => (p, 0)
  | s :: ss, p =>
    let r := s.apply p
    let rest := runSteps ss r.1
    (rest.1, rest.2 + (match s, r.2 with | .egress _, true => 1 | _, _ => 0))

theorem step_measure (s : Step) (p : PathV) :
    (s.apply p).1.hopCount = p.hopCount ∧
    (s.apply p).1.hopCount - (s.apply p).1.currHf + (match s, (s.apply p).2 with | .egress _, true => 1 | _, _ => 0)
      ≤ p.hopCount - p.currHf := by
  cases s with
  | ingress val fi =>
    simp only [Step.apply]
    cases hr : advanceIngress val fi p with
    | mk q r =>
      cases r with
      | ok o =>
        obtain ⟨mono, s0, s1, s2⟩ := ingress_nondecreasing val fi p q o hr
        have hc : q.hopCount = p.hopCount := by simp only [PathV.hopCount, s0, s1, s2]
        refine ⟨hc, ?_⟩
        show q.hopCount - q.currHf + 0 ≤ p.hopCount - p.currHf
        rcases mono with ⟨a, -⟩ | ⟨a, -, -⟩ <;> omega
      | err e => rw [fail_atomic_ingress val fi p q e hr]; exact ⟨rfl, Nat.le_refl _⟩
      | panic => exact absurd (by rw [hr]) ((no_panic val p).1 fi)
  | egress val =>
    simp only [Step.apply]
    cases hr : advanceEgress val p with
    | mk q r =>
      cases r with
      | ok o =>
        obtain ⟨a, -, b, s0, s1, s2⟩ := egress_strict val p q o hr
        have hc : q.hopCount = p.hopCount := by simp only [PathV.hopCount, s0, s1, s2]
        refine ⟨hc, ?_⟩
        show q.hopCount - q.currHf + 1 ≤ p.hopCount - p.currHf
        omega
      | err e => rw [fail_atomic_egress val p q e hr]; exact ⟨rfl, Nat.le_refl _⟩
      | panic => exact absurd (by rw [hr]) (no_panic val p).2

/-- **`bounded_processing`.**  For *any* sequence of ingress/egress steps with any validators, in any order,
on any structured state (malformed pointers and segment tables included), the number of successful egress
steps is at most `hop_count − CurrHF`, hence at most the number of hop fields: a packet cannot be made
to circulate.  (Measure: `hop_count − CurrHF`; an error changes nothing, a successful ingress step never
increases it, a successful egress step decreases it by one.) -/
theorem bounded_processing (steps : List Step) (p : PathV) :
    (runSteps steps p).2 ≤ p.hopCount - p.currHf ∧ (runSteps steps p).2 ≤ p.hopCount := by
  have key : ∀ (steps : List Step) (p : PathV), (runSteps steps p).2 ≤ p.hopCount - p.currHf := by
    intro steps
    induction steps with
    | nil => intro p; simp [runSteps]
    | cons s ss ih =>
      intro p
      simp only [runSteps]
      have h1 := ih (s.apply p).1
      obtain ⟨-, h2⟩ := step_measure s p
      omega
  exact ⟨key steps p, Nat.le_trans (key steps p) (Nat.sub_le _ _)⟩

/-! ### processing at an AS (ingress, then egress when told to continue)

The statement's "moves the current-hop pointer strictly forward" is about *processing at an AS*: a successful
ingress step alone keeps both pointers (or moves both at a segment change); the pointer is moved by the egress step
the ingress step announces.  `ForwardLocal` ends the journey: the packet is delivered, no pointer moves. -/

/-- processing at one AS with arbitrary validators, validation verdicts ignored (worst case for boundedness):
`some true` = delivered locally, `some false` = forwarded (both calls `Ok`), `none` = one of the calls failed -/
def asProc (vi ve : Validator) (fi : Bool) (p : PathV) : PathV × Option Bool :=
  match advanceIngress vi fi p with
  | (p1, .ok o) =>
    match o.action with
    | .forwardLocal => (p1, some true)
    | .continueEgress _ =>
      match advanceEgress ve p1 with
      | (p2, .ok _) => (p2, some false)
      | (p2, _) => (p2, none)
  | (p1, _) => (p1, none)

theorem asProc_measure (vi ve : Validator) (fi : Bool) (p : PathV) :
    (asProc vi ve fi p).1.hopCount = p.hopCount ∧
    (asProc vi ve fi p).1.hopCount - (asProc vi ve fi p).1.currHf + (if (asProc vi ve fi p).2 = some false then 1 else 0)
      ≤ p.hopCount - p.currHf ∧
    ((asProc vi ve fi p).2 = some false → p.currHf < (asProc vi ve fi p).1.currHf) := by
  unfold asProc
  cases hr : advanceIngress vi fi p with
  | mk p1 r =>
    cases r with
    | ok o =>
      obtain ⟨mono, s0, s1, s2⟩ := ingress_nondecreasing vi fi p p1 o hr
      have hc : p1.hopCount = p.hopCount := by simp only [PathV.hopCount, s0, s1, s2]
      have hm : p1.hopCount - p1.currHf ≤ p.hopCount - p.currHf ∧ p.currHf ≤ p1.currHf := by
        rcases mono with ⟨a, -⟩ | ⟨a, -, -⟩ <;> omega
      cases ha : o.action with
      | forwardLocal =>
        simp only [ha]
        exact ⟨hc, by simpa using hm.1, by simp⟩
      | continueEgress eg =>
        simp only [ha]
        cases hr2 : advanceEgress ve p1 with
        | mk p2 r2 =>
          cases r2 with
          | ok o2 =>
            obtain ⟨a, -, b, t0, t1, t2⟩ := egress_strict ve p1 p2 o2 hr2
            have hc2 : p2.hopCount = p1.hopCount := by simp only [PathV.hopCount, t0, t1, t2]
            refine ⟨by rw [hc2, hc], ?_, fun _ => by show p.currHf < p2.currHf; omega⟩
            show p2.hopCount - p2.currHf + (if (some false : Option Bool) = some false then 1 else 0) ≤ _
            simp only [if_true]
            omega
          | err e2 =>
            rw [fail_atomic_egress ve p1 p2 e2 hr2]
            exact ⟨hc, by simpa using hm.1, by simp⟩
          | panic => exact absurd (by rw [hr2]) (no_panic ve p1).2
    | err e => rw [fail_atomic_ingress vi fi p p1 e hr]; exact ⟨rfl, by simp, by simp⟩
    | panic => exact absurd (by rw [hr]) ((no_panic vi p).1 fi)

/-- run a sequence of AS processings (any validators, any entry side, also after failures or deliveries); returns
the final state and the number of processings that *forwarded* the packet -/
def runProc : List (Validator × Validator × Bool) → PathV → PathV × Nat
  | [], p => (p, 0)
  | (vi, ve, fi) :: rest, p =>
    let r := asProc vi ve fi p
    let t := runProc rest r.1
    (t.1, t.2 + (if r.2 = some false then 1 else 0))

/-- **`as_processing_bounded`.**  Processing at an AS that forwards the packet moves CurrHF strictly forward, and in
*any* sequence of AS processings on any structured state the number of forwarding ones is at most
`hop_count − CurrHF` ≤ the number of hop fields.  (Ingress steps alone are **not** bounded and do not move the
pointer: `ingress_alone_not_strict_witness`; neither is delivery, which leaves the packet where it is.) -/
theorem as_processing_bounded (l : List (Validator × Validator × Bool)) (p : PathV) :
    (runProc l p).2 ≤ p.hopCount - p.currHf ∧ (runProc l p).2 ≤ p.hopCount ∧
    (∀ vi ve fi, (asProc vi ve fi p).2 = some false → p.currHf < (asProc vi ve fi p).1.currHf) := by
  have key : ∀ (l : List (Validator × Validator × Bool)) (p : PathV), (runProc l p).2 ≤ p.hopCount - p.currHf := by
    intro l
    induction l with
    | nil => intro p; simp [runProc]
    | cons x rest ih =>
      obtain ⟨vi, ve, fi⟩ := x
      intro p
      simp only [runProc]
      have h1 := ih (asProc vi ve fi p).1
      obtain ⟨-, h2, -⟩ := asProc_measure vi ve fi p
      omega
  exact ⟨key l p, Nat.le_trans (key l p) (Nat.sub_le _ _), fun vi ve fi => (asProc_measure vi ve fi p).2.2⟩

/-- A successful ingress step alone does not move the pointer and can be repeated without bound: entering a segment
against construction direction from outside, two ingress steps in a row both succeed, leave CurrHF/CurrINF where they
were and fold the MAC into SegID twice (the second undoes the first).  "Strictly forward" in the property is a
statement about ingress *followed by* egress (`as_step_progress`, `as_processing_bounded`). -/
theorem ingress_alone_not_strict_witness :
    ∃ p p1 p2 o1 o2, advanceIngress noValidation false p = (p1, .ok o1) ∧ advanceIngress noValidation false p1 = (p2, .ok o2) ∧
      p1.currHf = p.currHf ∧ p1 ≠ p ∧ p2 = p := by
  let i : InfoF := ⟨0, 0, 0x1234, 1000⟩
  let h (n : Nat) : HopF := ⟨0, 5, n, n + 1, 0xabcdef000000 + n⟩
  exact ⟨⟨0, 1, 0, 3, 0, 0, [i], [h 0, h 1, h 2]⟩, _, _, _, _, rfl, rfl, rfl, by decide, by decide⟩

/-- **`info_follows_hop`.**  On a gap-free segment table (no empty segment before a non-empty one) every
successful step leaves CurrINF equal to the segment that contains CurrHF. -/
theorem info_follows_hop (p p' : PathV) (hgap : p.seg1 = 0 → p.seg2 = 0) :
    (∀ val o, advanceEgress val p = (p', .ok o) → ∃ a b, p'.segIndex p'.currHf = some (p'.currInf, a, b)) ∧
    (∀ val fi o, advanceIngress val fi p = (p', .ok o) → ∃ a b, p'.segIndex p'.currHf = some (p'.currInf, a, b)) := by
  constructor
  · intro val o h
    obtain ⟨e1, e2, -, s0, s1, s2⟩ := egress_strict val p p' o h
    obtain ⟨sos, hop, info, hs, -, -, h1, -⟩ := egress_ok_inv val p p' o h
    unfold PathV.segIndex segIndex at hs ⊢
    rw [e1, e2, s0, s1, s2]
    unfold PathV.hopCount at h1
    repeat' split at hs
    all_goals simp only [Option.some.injEq, Prod.mk.injEq, reduceCtorEq, beq_eq_false_iff_ne, ne_eq] at hs
    all_goals obtain ⟨hci, -, hne⟩ := hs
    all_goals rw [← hci]
    all_goals (repeat' split)
    all_goals first | exact ⟨_, _, rfl⟩ | (exfalso; omega)
  · intro val fi o h
    obtain ⟨sos, eos, hop, info, hs, -, -, -, hc⟩ := ingress_ok_inv val fi p p' o h
    rcases hc with ⟨-, -, rfl, -⟩ | ⟨-, -, rfl, -⟩ | ⟨rfl, h1, h2, nh, ni, -, hni, rfl, -⟩
    · exact ⟨sos, eos, hs⟩
    · exact ⟨sos, eos, hs⟩
    · have hm := max_hops_fits
      have hs2 := (segIndex_some _ _ _ _ _ _ _ hs).2.1
      have e1 : (p.currHf + 1) % 2 ^ META_CURR_HOP_FIELD_WIDTH = p.currHf + 1 := Nat.mod_eq_of_lt (by omega)
      have e2 : (p.currInf + 1) % 2 ^ META_CURR_INFO_FIELD_WIDTH = p.currInf + 1 :=
        Nat.mod_eq_of_lt (by simp only [META_CURR_INFO_FIELD_WIDTH]; omega)
      show ∃ a b, segIndex p.seg0 p.seg1 p.seg2 ((p.currHf + 1) % 2 ^ META_CURR_HOP_FIELD_WIDTH) =
        some ((p.currInf + 1) % 2 ^ META_CURR_INFO_FIELD_WIDTH, a, b)
      rw [e1, e2]
      unfold PathV.segIndex segIndex at hs
      unfold segIndex
      unfold PathV.hopCount at h1
      repeat' split at hs
      all_goals simp only [Option.some.injEq, Prod.mk.injEq, reduceCtorEq, beq_iff_eq] at hs
      all_goals obtain ⟨hci, -, hend⟩ := hs
      all_goals rw [← hci]
      all_goals (repeat' split)
      all_goals first | exact ⟨_, _, rfl⟩ | (exfalso; omega)

/-- The gap-freeness hypothesis of `info_follows_hop` is needed: with segments `(2, 0, 2)` at the end of the
first segment a successful ingress step (segment change) sets CurrINF = 1 although hop field 2 belongs to
segment index 2 (the next step then fails with `InvalidSegmentIndex`; replayed on the real code by
`corpus/C11/020-gap-segment-table.case`). -/
theorem info_follows_hop_gap_witness :
    ∃ p p' o, advanceIngress noValidation false p = (p', .ok o) ∧ p.seg1 = 0 ∧ p.seg2 ≠ 0 ∧
      p'.currInf = 1 ∧ p'.segIndex p'.currHf = some (2, true, false) := by
  let i : InfoF := ⟨1, 0, 0, 0⟩
  let h : HopF := ⟨0, 0, 1, 2, 0⟩
  refine ⟨⟨0, 1, 0, 2, 0, 2, [i, i], [h, h, h, h]⟩, _, _, rfl, rfl, by decide, rfl, rfl⟩

/-! ## 3. Authentication (parametric in the MAC function; non-peering segments)

`mac : MacFn K` is an arbitrary function – nothing about AES-CMAC is assumed.  The router recomputes
`mac key (macInput hop info)` where `info` carries the current chaining value (SegID) and the segment
timestamp, and compares with the six MAC bytes of the hop field. -/

section Auth
variable {K : Type} (mac : MacFn K)

/-- the verdict of `HopMacValidator { key }` on a hop field under an info field -/
def macOk (key : K) (h : HopF) (i : InfoF) : Bool := h.mac == mac key (macInput h i)

theorem hopMacValidator_hop (key : K) (n : Nat) (h : HopF) (i : InfoF) (a b : Bool) :
    (hopMacValidator mac key).hop n h i a b = macOk mac key h i := rfl

/-- **What an AS verifies at ingress.**  With `HopMacValidator`, a successful ingress step reports `valid`
exactly when the current hop field carries the MAC of (SegID *after* the ingress update, timestamp, exp,
ingress, egress) – and, at a segment change, the first hop field of the next segment carries the MAC of
that segment's untouched SegID. -/
theorem ingress_valid_iff (key : K) (fi : Bool) (p p' : PathV) (o : IngOut)
    (h : advanceIngress (hopMacValidator mac key) fi p = (p', .ok o)) :
    ∃ hop info, p.hopAt p.currHf = some hop ∧ p.infoAt p.currInf = some info ∧
      p'.infos[p.currInf]? = some (ingInfo fi hop info) ∧
      ((p'.currHf = p.currHf ∧ o.valid = macOk mac key hop (ingInfo fi hop info)) ∨
       (p'.currHf = p.currHf + 1 ∧ ∃ nh ni, p.hopAt (p.currHf + 1) = some nh ∧ p.infoAt (p.currInf + 1) = some ni ∧
          p'.infoAt p'.currInf = some ni ∧ p'.hopAt p'.currHf = some nh ∧
          o.valid = (macOk mac key hop (ingInfo fi hop info) && macOk mac key nh ni))) := by
  obtain ⟨sos, eos, hop, info, hs, -, hh, hi, hc⟩ := ingress_ok_inv _ fi p p' o h
  obtain ⟨b1, b2, -⟩ := infoAt_some p _ _ hi
  obtain ⟨a1, a2, -⟩ := hopAt_some p _ _ hh
  refine ⟨hop, info, hh, hi, ?_, ?_⟩
  · rcases hc with ⟨-, -, rfl, -⟩ | ⟨-, -, rfl, -⟩ | ⟨-, -, -, _, _, -, -, rfl, -⟩ <;>
      simp only [List.getElem?_set_self b2]
  · have hm := max_hops_fits
    rcases hc with ⟨-, -, rfl, -, hv⟩ | ⟨-, -, rfl, -, hv⟩ | ⟨-, h1, h2, nh, ni, hn, hni, rfl, -, hv⟩
    · exact .inl ⟨rfl, hv⟩
    · exact .inl ⟨rfl, hv⟩
    · have hs2 := (segIndex_some _ _ _ _ _ _ _ hs).2.1
      have e1 : (p.currHf + 1) % 2 ^ META_CURR_HOP_FIELD_WIDTH = p.currHf + 1 := Nat.mod_eq_of_lt (by omega)
      have e2 : (p.currInf + 1) % 2 ^ META_CURR_INFO_FIELD_WIDTH = p.currInf + 1 :=
        Nat.mod_eq_of_lt (by simp only [META_CURR_INFO_FIELD_WIDTH]; omega)
      obtain ⟨c1, c2, c3⟩ := infoAt_some p _ _ hni
      obtain ⟨d1, d2, d3⟩ := hopAt_some p _ _ hn
      refine .inr ⟨e1, nh, ni, hn, hni, ?_, ?_, ?_⟩
      · simp only [PathV.infoAt, PathV.infoCount, e2]
        unfold PathV.infoCount at c1
        rw [if_pos c1, List.getElem?_set_ne (by omega)]; exact c3
      · simp only [PathV.hopAt, PathV.hopCount, e1]
        unfold PathV.hopCount at d1
        rw [if_pos d1, List.getElem?_set_ne (by omega)]; exact d3
      · rw [hv]; simp [hopMacValidator, macOk]

/-- **What an AS verifies at egress**, and how the chaining value moves: `valid` exactly when the current
hop field carries the MAC of the SegID *before* the egress update; afterwards the current info field holds
`egrInfo` (SegID ⊕ MAC[0..2] in construction direction) and CurrHF points at the next, untouched, hop field. -/
theorem egress_valid_iff (key : K) (p p' : PathV) (o : EgrOut)
    (h : advanceEgress (hopMacValidator mac key) p = (p', .ok o)) :
    ∃ hop info, p.hopAt p.currHf = some hop ∧ p.infoAt p.currInf = some info ∧
      o.valid = macOk mac key hop info ∧ p'.infoAt p'.currInf = some (egrInfo hop info) ∧
      p'.hopAt p'.currHf = p.hopAt (p.currHf + 1) := by
  obtain ⟨sos, hop, info, -, hh, hi, h1, h2, rfl, ho⟩ := egress_ok_inv _ p p' o h
  obtain ⟨b1, b2, -⟩ := infoAt_some p _ _ hi
  have hm := max_hops_fits
  have e1 : (p.currHf + 1) % 2 ^ META_CURR_HOP_FIELD_WIDTH = p.currHf + 1 := Nat.mod_eq_of_lt (by omega)
  refine ⟨hop, info, hh, hi, by rw [ho]; rfl, ?_, ?_⟩
  · simp only [PathV.infoAt, PathV.infoCount]
    unfold PathV.infoCount at b1
    simp only [b1, if_true, List.getElem?_set_self b2]
  · simp only [PathV.hopAt, PathV.hopCount, e1]
    rw [List.getElem?_set_ne (by omega)]
    rfl

/-! ### β-chaining and the chaining values seen in both travel directions -/

theorem betaStep_betaStep (b m : Nat) : betaStep (betaStep b m) m = b := by
  unfold betaStep; rw [Nat.xor_assoc, Nat.xor_self, Nat.xor_zero]

/-- **β-chaining** as done by beaconing: hop fields in construction order, each with the key of its AS;
every MAC is computed over the accumulator, which then absorbs the first two MAC bytes. -/
def Chained (ts : Nat) : Nat → List (K × HopF) → Prop
  | _, [] => True
  | β, (k, h) :: rest =>
    h.mac = mac k { beta := β, ts := ts, exp := h.exp, consIn := h.consIn, consEg := h.consEg } ∧
    Chained ts (betaStep β h.mac) rest

/-- the accumulator after the first `j` hop fields (`mac_chaining_beta`) -/
def betaAt (β0 : Nat) (hs : List (K × HopF)) (j : Nat) : Nat := (hs.take j).foldl (fun b kh => betaStep b kh.2.mac) β0

theorem betaAt_succ (β0 : Nat) (hs : List (K × HopF)) (j : Nat) (hj : j < hs.length) :
    betaAt β0 hs (j + 1) = betaStep (betaAt β0 hs j) (hs[j]).2.mac := by
  unfold betaAt
  rw [List.take_succ_eq_append_getElem hj, List.foldl_append]; rfl

/-- in a β-chained segment every hop field carries the MAC of its own accumulator value -/
theorem chained_macOk (ts β0 : Nat) (hs : List (K × HopF)) (hc : Chained mac ts β0 hs) (flags rsv : Nat)
    (j : Nat) (hj : j < hs.length) :
    macOk mac (hs[j]).1 (hs[j]).2 { flags := flags, rsv := rsv, segId := betaAt β0 hs j, ts := ts } = true := by
  induction hs generalizing β0 j with
  | nil => simp at hj
  | cons kh rest ih =>
    obtain ⟨k, h⟩ := kh
    obtain ⟨h1, h2⟩ := hc
    cases j with
    | zero => simp only [List.getElem_cons_zero, macOk, macInput, betaAt, List.take_zero, List.foldl_nil, beq_iff_eq]; exact h1
    | succ j =>
      have := ih (betaStep β0 h.mac) h2 j (by simpa using hj)
      simpa [betaAt, List.take_succ_cons, List.foldl_cons] using this

/-- **`authentic_verifies_fwd` (segment level).**  Travelling a β-chained segment in construction direction:
the SegID the router holds when it verifies hop field `j` is `betaAt j` (it starts as `β0` and every egress
step applies `egrInfo`, i.e. one `betaStep`), and under that SegID hop field `j` verifies; the egress update
produces exactly the SegID hop field `j+1` was built with. -/
theorem authentic_verifies_fwd (ts β0 : Nat) (hs : List (K × HopF)) (hc : Chained mac ts β0 hs) (flags rsv : Nat)
    (hcons : consDir flags = true) (j : Nat) (hj : j < hs.length) :
    let info : InfoF := { flags := flags, rsv := rsv, segId := betaAt β0 hs j, ts := ts }
    macOk mac (hs[j]).1 (hs[j]).2 info = true ∧
    (egrInfo (hs[j]).2 info).segId = betaAt β0 hs (j + 1) ∧
    ingInfo false (hs[j]).2 info = info := by
  refine ⟨chained_macOk mac ts β0 hs hc flags rsv j hj, ?_, ?_⟩
  · simp only [egrInfo, hcons, if_true]; exact (betaAt_succ β0 hs j hj).symm
  · simp [ingInfo, hcons]

/-- **`authentic_verifies_rev` (segment level).**  Travelling the same segment *against* construction
direction: arriving from outside at hop field `j` with SegID `betaAt (j+1)` (what the previous AS left),
the ingress update folds hop field `j`'s own MAC back in, which yields `betaAt j` – the value it was built
with – so it verifies; egress leaves the SegID alone.  The first hop field of the journey / of the segment
(entered from inside or by a segment change) is verified under `betaAt j` directly. -/
theorem authentic_verifies_rev (ts β0 : Nat) (hs : List (K × HopF)) (hc : Chained mac ts β0 hs) (flags rsv : Nat)
    (hcons : consDir flags = false) (j : Nat) (hj : j < hs.length) :
    let arriving : InfoF := { flags := flags, rsv := rsv, segId := betaAt β0 hs (j + 1), ts := ts }
    let own : InfoF := { flags := flags, rsv := rsv, segId := betaAt β0 hs j, ts := ts }
    ingInfo false (hs[j]).2 arriving = own ∧ ingInfo true (hs[j]).2 own = own ∧
    macOk mac (hs[j]).1 (hs[j]).2 own = true ∧ egrInfo (hs[j]).2 own = own := by
  refine ⟨?_, ?_, chained_macOk mac ts β0 hs hc flags rsv j hj, ?_⟩
  · simp only [ingInfo, hcons, Bool.not_false, Bool.and_self, if_true]
    rw [betaAt_succ β0 hs j hj, betaStep_betaStep]
  · simp [ingInfo]
  · simp [egrInfo, hcons]

/-- the six authenticated quantities of a hop field under an info field -/
def authBits (h : HopF) (i : InfoF) : Nat × Nat × Nat × Nat × Nat × Nat := (i.segId, i.ts, h.exp, h.consIn, h.consEg, h.mac)

/-- **`tamper_detected`.**  Let `(h0, i0)` be authentic for `key`.  If any authenticated bit is changed –
exp, ingress, egress, a MAC byte of the hop field, the segment's timestamp or the chaining value – and the
result `(h, i)` still passes at the AS owning the hop field, then the MAC *input* differs and the attacker's
tag is valid for it; in particular with an unchanged tag (bit flips outside the MAC bytes) a MAC collision
`mac key x = mac key x0` with `x ≠ x0` is exhibited.  Flips confined to the MAC bytes never pass. -/
theorem tamper_detected (key : K) (h0 h : HopF) (i0 i : InfoF)
    (auth : macOk mac key h0 i0 = true) (pass : macOk mac key h i = true) (diff : authBits h i ≠ authBits h0 i0) :
    macInput h i ≠ macInput h0 i0 ∧ mac key (macInput h i) = h.mac ∧
    (h.mac = h0.mac → mac key (macInput h i) = mac key (macInput h0 i0)) := by
  simp only [macOk, beq_iff_eq] at auth pass
  refine ⟨?_, pass.symm, fun e => by rw [← pass, ← auth, e]⟩
  intro e
  apply diff
  have hm : h.mac = h0.mac := by rw [pass, auth, e]
  simp only [macInput, MacInput.mk.injEq] at e
  obtain ⟨e1, e2, e3, e4, e5⟩ := e
  simp only [authBits, e1, e2, e3, e4, e5, hm]

/-- corollary: a corruption confined to the MAC bytes is always detected -/
theorem tamper_mac_bytes_detected (key : K) (h0 h : HopF) (i : InfoF) (auth : macOk mac key h0 i = true)
    (same : h.exp = h0.exp ∧ h.consIn = h0.consIn ∧ h.consEg = h0.consEg) (hm : h.mac ≠ h0.mac) :
    macOk mac key h i = false := by
  cases hp : macOk mac key h i with
  | false => rfl
  | true =>
    exfalso
    have := (tamper_detected mac key h0 h i i auth hp (by simp [authBits, hm])).1
    apply this
    simp [macInput, same.1, same.2.1, same.2.2]

end Auth

/-! ## 4. Runs of consecutive ASes inside a segment verify (composition of the step theorems) -/

/-- forward evaluation of an ingress step at a hop field that is not the last of its segment -/
theorem ingress_interior (val : Validator) (fi : Bool) (p : PathV) (sos : Bool) (hop : HopF) (info : InfoF)
    (hs : p.segIndex p.currHf = some (p.currInf, sos, false)) (hh : p.hopAt p.currHf = some hop)
    (hi : p.infoAt p.currInf = some info) :
    advanceIngress val fi p =
      ({ p with infos := p.infos.set p.currInf (ingInfo fi hop info), hops := p.hops.set p.currHf (ingHop fi hop info) },
       .ok { alert := ingressAlert hop.flags (consDir info.flags), ingressIf := hop.ingressIf info,
             action := .continueEgress ((ingHop fi hop info).egressIf (ingInfo fi hop info)),
             valid := val.hop p.currHf hop (ingInfo fi hop info) sos false }) := by
  have h1 := (segIndex_some _ _ _ _ _ _ _ hs).2.2.1 rfl
  have hd : decide (p.currHf + 1 ≥ p.hopCount) = false :=
    decide_eq_false (by unfold PathV.hopCount; omega)
  unfold advanceIngress
  simp only [hs, hh, hi, Bool.and_false, Bool.false_eq_true, if_false, ne_eq, not_true_eq_false, hd]
  exact finishIngress_ok p p hop _ info _ _ ⟨rfl, rfl, rfl, rfl, rfl⟩ hh hi

/-- forward evaluation of an egress step at a hop field that is not the last of its segment -/
theorem egress_interior (val : Validator) (p : PathV) (sos : Bool) (hop : HopF) (info : InfoF)
    (hs : p.segIndex p.currHf = some (p.currInf, sos, false)) (hh : p.hopAt p.currHf = some hop)
    (hi : p.infoAt p.currInf = some info) (h63 : p.currHf + 1 ≤ MAX_TOTAL_HOPS) :
    advanceEgress val p =
      ({ p with infos := p.infos.set p.currInf (egrInfo hop info), hops := p.hops.set p.currHf (egrHop hop info)
                currHf := p.currHf + 1 },
       .ok { alert := egressAlert hop.flags (consDir info.flags), egressIf := (egrHop hop info).egressIf (egrInfo hop info)
             valid := val.hop p.currHf hop info sos false }) := by
  have h1 := (segIndex_some _ _ _ _ _ _ _ hs).2.2.1 rfl
  have hm := max_hops_fits
  have e1 : (p.currHf + 1) % 2 ^ META_CURR_HOP_FIELD_WIDTH = p.currHf + 1 := Nat.mod_eq_of_lt (by omega)
  unfold advanceEgress
  simp only [hs, hh, hi, ne_eq, not_true_eq_false, if_false, commit_some p hop _ info _ hh hi, e1]
  rw [if_neg (by unfold PathV.hopCount; omega), if_neg (by omega)]
  simp

section Run
variable {K : Type} (mac : MacFn K)

/-- processing at one AS (forwarding key `k`): ingress, then – when told to continue – egress.
`some (p', delivered)` iff every call returned `Ok` and every MAC validation passed. -/
def asStep (k : K) (fi : Bool) (p : PathV) : Option (PathV × Bool) :=
  match advanceIngress (hopMacValidator mac k) fi p with
  | (p1, .ok o) =>
    if o.valid then
      match o.action with
      | .forwardLocal => some (p1, true)
      | .continueEgress _ =>
        match advanceEgress (hopMacValidator mac k) p1 with
        | (p2, .ok o2) => if o2.valid then some (p2, false) else none
        | _ => none
    else none
  | _ => none

/-- a run of consecutive ASes, the first entered from inside iff `fi`, none of them delivering -/
def runAS : List K → Bool → PathV → Option PathV
  | [], _, p => some p
  | k :: ks, fi, p => match asStep mac k fi p with
    | some (p', false) => runAS ks false p'
    | _ => none

theorem macOk_flags (k : K) (h h' : HopF) (i : InfoF)
    (e : h'.exp = h.exp ∧ h'.consIn = h.consIn ∧ h'.consEg = h.consEg ∧ h'.mac = h.mac) :
    macOk mac k h' i = macOk mac k h i := by
  simp [macOk, macInput, e.1, e.2.1, e.2.2.1, e.2.2.2]

theorem ingHop_auth (fi : Bool) (h : HopF) (i : InfoF) :
    (ingHop fi h i).exp = h.exp ∧ (ingHop fi h i).consIn = h.consIn ∧ (ingHop fi h i).consEg = h.consEg ∧
    (ingHop fi h i).mac = h.mac := by
  unfold ingHop; simp only []; split <;> exact ⟨rfl, rfl, rfl, rfl⟩

theorem ingInfo_flags (fi : Bool) (h : HopF) (i : InfoF) : (ingInfo fi h i).flags = i.flags := by
  unfold ingInfo; split <;> rfl

/-- the info field after a complete interior AS step -/
def stepInfo (fi : Bool) (h : HopF) (i : InfoF) : InfoF := egrInfo (ingHop fi h (i)) (ingInfo fi h i)

/-- **One interior AS.**  If the current hop field is not the last of its segment and carries the MAC of
the SegID after the ingress update, processing at the AS verifies at ingress *and* egress and moves to the
next hop field, leaving every other hop field, every other info field and the segment table untouched. -/
theorem asStep_interior (k : K) (fi : Bool) (p : PathV) (sos : Bool) (hop : HopF) (info : InfoF)
    (hs : p.segIndex p.currHf = some (p.currInf, sos, false)) (hh : p.hopAt p.currHf = some hop)
    (hi : p.infoAt p.currInf = some info) (h63 : p.currHf + 1 ≤ MAX_TOTAL_HOPS)
    (hm : macOk mac k hop (ingInfo fi hop info) = true) :
    asStep mac k fi p = some
      ({ p with infos := p.infos.set p.currInf (stepInfo fi hop info)
                hops := p.hops.set p.currHf (egrHop (ingHop fi hop info) (ingInfo fi hop info))
                currHf := p.currHf + 1 }, false) := by
  obtain ⟨a1, a2, -⟩ := hopAt_some p _ _ hh
  obtain ⟨b1, b2, -⟩ := infoAt_some p _ _ hi
  unfold asStep
  rw [ingress_interior _ fi p sos hop info hs hh hi]
  simp only [hopMacValidator_hop, hm, if_true]
  let p1 : PathV := { p with infos := p.infos.set p.currInf (ingInfo fi hop info), hops := p.hops.set p.currHf (ingHop fi hop info) }
  have hs1 : p1.segIndex p1.currHf = some (p1.currInf, sos, false) := hs
  have hh1 : p1.hopAt p1.currHf = some (ingHop fi hop info) := by
    show (if p.currHf < p.hopCount then (p.hops.set p.currHf (ingHop fi hop info))[p.currHf]? else none) = _
    rw [if_pos a1, List.getElem?_set_self a2]
  have hi1 : p1.infoAt p1.currInf = some (ingInfo fi hop info) := by
    show (if p.currInf < p.infoCount then (p.infos.set p.currInf (ingInfo fi hop info))[p.currInf]? else none) = _
    rw [if_pos b1, List.getElem?_set_self b2]
  have he := egress_interior (hopMacValidator mac k) p1 sos _ _ hs1 hh1 hi1 h63
  show (match advanceEgress (hopMacValidator mac k) p1 with
        | (p2, .ok o2) => if o2.valid then some (p2, false) else none
        | _ => none) = _
  rw [he]
  simp only [hopMacValidator_hop, macOk_flags mac k hop _ _ (ingHop_auth fi hop info), hm, if_true]
  simp only [p1, List.set_set, stepInfo]

/-- whatever the position (interior hop field, segment change, last hop field): if processing at the AS holding key
`k` goes through – every call `Ok`, every validation passed – then the current hop field carried the MAC of the SegID
after the ingress update -/
theorem asStep_some_macOk (k : K) (fi : Bool) (p : PathV) (r : PathV × Bool) (hop : HopF) (info : InfoF)
    (hh : p.hopAt p.currHf = some hop) (hi : p.infoAt p.currInf = some info) (h : asStep mac k fi p = some r) :
    macOk mac k hop (ingInfo fi hop info) = true := by
  unfold asStep at h
  cases hr : advanceIngress (hopMacValidator mac k) fi p with
  | mk p1 res =>
    cases res with
    | ok o =>
      simp only [hr] at h
      by_cases hv : o.valid = true
      · obtain ⟨hop', info', hh', hi', -, hc⟩ := ingress_valid_iff mac k fi p p1 o hr
        rw [hh] at hh'; rw [hi] at hi'
        cases hh'; cases hi'
        rcases hc with ⟨-, e⟩ | ⟨-, nh, ni, -, -, -, -, e⟩
        · rw [← e]; exact hv
        · rw [e] at hv
          simp only [Bool.and_eq_true] at hv
          exact hv.1
      · simp [hv] at h
    | err e => simp [hr] at h
    | panic => simp [hr] at h

/-- **Tampering is caught at the owning AS, by the real step functions.**  Let `(h0, i0)` be the authentic hop field
and the info field (chaining value after the ingress update, timestamp) the AS holding key `k` would see.  If the
packet that arrives has *any* authenticated bit changed at this hop – exp, ingress, egress, MAC bytes, timestamp or
the chaining value as it reaches this AS (so also every change made to an earlier MAC of the segment) – and processing
at this AS (`asStep`: `advance_ingress_with_validator` then `advance_egress_with_validator` with `HopMacValidator`)
nevertheless goes through, then the packet carries a valid tag for a MAC input different from the authentic one; with
an unchanged tag that is a collision of `mac k`.  Contrapositive: absent such a forgery/collision `asStep` returns
`none` at the AS owning the hop field – not later.  (Peering segments excluded: the router has no peering rule.) -/
theorem tamper_caught_at_owner (k : K) (fi : Bool) (p : PathV) (r : PathV × Bool) (hop h0 : HopF) (info i0 : InfoF)
    (hh : p.hopAt p.currHf = some hop) (hi : p.infoAt p.currInf = some info)
    (auth : macOk mac k h0 i0 = true) (diff : authBits hop (ingInfo fi hop info) ≠ authBits h0 i0)
    (pass : asStep mac k fi p = some r) :
    macInput hop (ingInfo fi hop info) ≠ macInput h0 i0 ∧ mac k (macInput hop (ingInfo fi hop info)) = hop.mac ∧
    (hop.mac = h0.mac → mac k (macInput hop (ingInfo fi hop info)) = mac k (macInput h0 i0)) :=
  tamper_detected mac k h0 hop i0 (ingInfo fi hop info) auth (asStep_some_macOk mac k fi p r hop info hh hi pass) diff

/-- **Delivery.**  At the last hop field of the path (entered from outside or inside) the AS verifies the hop field
under the SegID after the ingress update and hands the packet to the local destination; only the current info field
(SegID) and hop field (alert bit) are written. -/
theorem asStep_deliver (k : K) (fi : Bool) (p : PathV) (sos : Bool) (hop : HopF) (info : InfoF)
    (hs : p.segIndex p.currHf = some (p.currInf, sos, true)) (hsos : sos = false) (hlast : p.hopCount ≤ p.currHf + 1)
    (hh : p.hopAt p.currHf = some hop) (hi : p.infoAt p.currInf = some info)
    (hm : macOk mac k hop (ingInfo fi hop info) = true) :
    asStep mac k fi p = some
      ({ p with infos := p.infos.set p.currInf (ingInfo fi hop info), hops := p.hops.set p.currHf (ingHop fi hop info) }, true) := by
  subst hsos
  have hd : decide (p.currHf + 1 ≥ p.hopCount) = true := decide_eq_true hlast
  unfold asStep advanceIngress
  simp only [hs, hh, hi, Bool.false_and, Bool.false_eq_true, if_false, ne_eq, not_true_eq_false, hd]
  rw [finishIngress_ok p p hop _ info _ _ ⟨rfl, rfl, rfl, rfl, rfl⟩ hh hi]
  simp only [hopMacValidator_hop, hm, if_true]

/-- **Segment change.**  At the last hop field of a segment that is not the last of the path, the AS (one key for both
hop fields) verifies the current hop field under the SegID after the ingress update *and* the first hop field of the
next segment under that segment's untouched SegID, moves both pointers, and its egress step verifies that hop field
again and folds its MAC in (construction direction): afterwards CurrHF is two further, CurrINF one further, and only
those two hop fields and two info fields have been written. -/
theorem asStep_change (k : K) (fi : Bool) (p : PathV) (sos : Bool) (hop nh : HopF) (info ni : InfoF)
    (hs : p.segIndex p.currHf = some (p.currInf, sos, true)) (hsos : sos = false)
    (hs' : p.segIndex (p.currHf + 1) = some (p.currInf + 1, true, false))
    (hh : p.hopAt p.currHf = some hop) (hi : p.infoAt p.currInf = some info)
    (hn : p.hopAt (p.currHf + 1) = some nh) (hni : p.infoAt (p.currInf + 1) = some ni)
    (h63 : p.currHf + 2 ≤ MAX_TOTAL_HOPS)
    (hm : macOk mac k hop (ingInfo fi hop info) = true) (hm' : macOk mac k nh ni = true) :
    asStep mac k fi p = some
      ({ p with infos := (p.infos.set p.currInf (ingInfo fi hop info)).set (p.currInf + 1) (egrInfo nh ni)
                hops := (p.hops.set p.currHf (ingHop fi hop info)).set (p.currHf + 1) (egrHop nh ni)
                currHf := p.currHf + 2, currInf := p.currInf + 1 }, false) := by
  subst hsos
  obtain ⟨a1, a2, -⟩ := hopAt_some p _ _ hh
  obtain ⟨b1, b2, -⟩ := infoAt_some p _ _ hi
  obtain ⟨c1, c2, c3⟩ := hopAt_some p _ _ hn
  obtain ⟨d1, d2, d3⟩ := infoAt_some p _ _ hni
  have hmx := max_hops_fits
  have hseg2 := (segIndex_some _ _ _ _ _ _ _ hs').2.1
  have e1 : (p.currHf + 1) % 2 ^ META_CURR_HOP_FIELD_WIDTH = p.currHf + 1 := Nat.mod_eq_of_lt (by omega)
  have e2 : (p.currInf + 1) % 2 ^ META_CURR_INFO_FIELD_WIDTH = p.currInf + 1 :=
    Nat.mod_eq_of_lt (by simp only [META_CURR_INFO_FIELD_WIDTH]; omega)
  have hd : decide (p.currHf + 1 ≥ p.hopCount) = false := decide_eq_false (by omega)
  unfold asStep
  have hing : advanceIngress (hopMacValidator mac k) fi p =
      ({ p with infos := p.infos.set p.currInf (ingInfo fi hop info), hops := p.hops.set p.currHf (ingHop fi hop info)
                currHf := p.currHf + 1, currInf := p.currInf + 1 },
       .ok { alert := ingressAlert hop.flags (consDir info.flags), ingressIf := hop.ingressIf info,
             action := .continueEgress (nh.egressIf ni), valid := true }) := by
    unfold advanceIngress
    simp only [hs, hh, hi, hn, hni, Bool.false_and, Bool.false_eq_true, if_false, ne_eq, not_true_eq_false, hd]
    rw [if_neg (by omega)]
    rw [finishIngress_ok p { p with currHf := (p.currHf + 1) % 2 ^ META_CURR_HOP_FIELD_WIDTH
                                    currInf := (p.currInf + 1) % 2 ^ META_CURR_INFO_FIELD_WIDTH }
      hop _ info _ _ ⟨rfl, rfl, rfl, rfl, rfl⟩ hh hi]
    have hm1 : (hop.mac == mac k (macInput hop (ingInfo fi hop info))) = true := hm
    have hm2 : (nh.mac == mac k (macInput nh ni)) = true := hm'
    simp only [e1, e2, hopMacValidator, hm1, hm2, Bool.and_self]
  rw [hing]
  simp only [if_true]
  let p1 : PathV := { p with infos := p.infos.set p.currInf (ingInfo fi hop info), hops := p.hops.set p.currHf (ingHop fi hop info)
                             currHf := p.currHf + 1, currInf := p.currInf + 1 }
  have hs1 : p1.segIndex p1.currHf = some (p1.currInf, true, false) := hs'
  have hh1 : p1.hopAt p1.currHf = some nh := by
    show (if p.currHf + 1 < p.hopCount then (p.hops.set p.currHf (ingHop fi hop info))[p.currHf + 1]? else none) = _
    rw [if_pos c1, List.getElem?_set_ne (by omega)]; exact c3
  have hi1 : p1.infoAt p1.currInf = some ni := by
    show (if p.currInf + 1 < p.infoCount then (p.infos.set p.currInf (ingInfo fi hop info))[p.currInf + 1]? else none) = _
    rw [if_pos d1, List.getElem?_set_ne (by omega)]; exact d3
  have he := egress_interior (hopMacValidator mac k) p1 true nh ni hs1 hh1 hi1 (by show p.currHf + 1 + 1 ≤ MAX_TOTAL_HOPS; omega)
  show (match advanceEgress (hopMacValidator mac k) p1 with
        | (p2, .ok o2) => if o2.valid then some (p2, false) else none
        | _ => none) = _
  rw [he]
  simp only [hopMacValidator_hop, hm', if_true]
  rfl

/-- the MAC conditions of a run of interior hop fields, unfolded along the SegID evolution -/
def RunOk : Bool → InfoF → List (K × HopF) → Prop
  | _, _, [] => True
  | fi, info, (k, h) :: rest => macOk mac k h (ingInfo fi h info) = true ∧ RunOk false (stepInfo fi h info) rest

/-- the info field after the run -/
def runInfo : Bool → InfoF → List (K × HopF) → InfoF
  | _, info, [] => info
  | fi, info, (_, h) :: rest => runInfo false (stepInfo fi h info) rest

/-- **A run of interior ASes verifies.**  Any number of consecutive hop fields of one segment, none of them
the segment's last, whose MACs fit the evolving SegID (`RunOk`): processing at their ASes one after the other
passes every ingress and egress validation and arrives at the hop field after the run with the SegID
`runInfo`; the hop fields from there on, the other info fields and the segment table are untouched. -/
theorem interior_run (hs : List (K × HopF)) : ∀ (fi : Bool) (p : PathV) (info : InfoF),
    (∀ i (hi : i < hs.length), p.hopAt (p.currHf + i) = some (hs[i]).2) →
    (∀ i, i < hs.length → ∃ sos, p.segIndex (p.currHf + i) = some (p.currInf, sos, false)) →
    p.currHf + hs.length ≤ MAX_TOTAL_HOPS → p.infoAt p.currInf = some info → RunOk mac fi info hs →
    ∃ p', runAS mac (hs.map (·.1)) fi p = some p' ∧ p'.currHf = p.currHf + hs.length ∧ p'.currInf = p.currInf ∧
      p'.infoAt p'.currInf = some (runInfo fi info hs) ∧
      p'.seg0 = p.seg0 ∧ p'.seg1 = p.seg1 ∧ p'.seg2 = p.seg2 ∧
      (∀ j, p'.currHf ≤ j → p'.hopAt j = p.hopAt j) ∧ (∀ s, s ≠ p.currInf → p'.infoAt s = p.infoAt s) := by
  induction hs with
  | nil => intro fi p info _ _ _ hi _; exact ⟨p, rfl, rfl, rfl, hi, rfl, rfl, rfl, fun _ _ => rfl, fun _ _ => rfl⟩
  | cons kh rest ih =>
    obtain ⟨k, h⟩ := kh
    intro fi p info H1 H2 H3 H4 H5
    obtain ⟨hm, hrest⟩ := H5
    have hh : p.hopAt p.currHf = some h := by
      have := H1 0 (Nat.zero_lt_succ _)
      simp only [Nat.add_zero, List.getElem_cons_zero] at this
      exact this
    obtain ⟨sos, hs0⟩ := H2 0 (by simp)
    simp only [Nat.add_zero] at hs0
    simp only [List.length_cons] at H3
    have hstep := asStep_interior mac k fi p sos h info hs0 hh H4 (by omega) hm
    obtain ⟨a1, a2, -⟩ := hopAt_some p _ _ hh
    obtain ⟨b1, b2, -⟩ := infoAt_some p _ _ H4
    let p2 : PathV := { p with infos := p.infos.set p.currInf (stepInfo fi h info)
                               hops := p.hops.set p.currHf (egrHop (ingHop fi h info) (ingInfo fi h info))
                               currHf := p.currHf + 1 }
    have frameH : ∀ j, p.currHf + 1 ≤ j → p2.hopAt j = p.hopAt j := by
      intro j hj
      show (if j < p.hopCount then (p.hops.set p.currHf _)[j]? else none) = if j < p.hopCount then p.hops[j]? else none
      rw [List.getElem?_set_ne (by omega)]
    have frameI : ∀ s, s ≠ p.currInf → p2.infoAt s = p.infoAt s := by
      intro s hs'
      show (if s < p.infoCount then (p.infos.set p.currInf _)[s]? else none) = if s < p.infoCount then p.infos[s]? else none
      rw [List.getElem?_set_ne (fun e => hs' e.symm)]
    have hi2 : p2.infoAt p2.currInf = some (stepInfo fi h info) := by
      show (if p.currInf < p.infoCount then (p.infos.set p.currInf _)[p.currInf]? else none) = _
      rw [if_pos b1, List.getElem?_set_self b2]
    obtain ⟨p', hrun, e1, e2, e3, s0, s1, s2, fH, fI⟩ := ih false p2 (stepInfo fi h info)
      (by
        intro i hi
        have := H1 (i + 1) (by simp; omega)
        simp only [List.getElem_cons_succ] at this
        show p2.hopAt (p.currHf + 1 + i) = _
        rw [frameH _ (by omega), show p.currHf + 1 + i = p.currHf + (i + 1) by omega]
        exact this)
      (by
        intro i hi
        obtain ⟨sos', h'⟩ := H2 (i + 1) (by simp; omega)
        refine ⟨sos', ?_⟩
        show segIndex p.seg0 p.seg1 p.seg2 (p.currHf + 1 + i) = some (p.currInf, sos', false)
        rw [show p.currHf + 1 + i = p.currHf + (i + 1) by omega]
        exact h')
      (by show p.currHf + 1 + rest.length ≤ MAX_TOTAL_HOPS; omega) hi2 hrest
    refine ⟨p', ?_, ?_, e2, ?_, s0, s1, s2, ?_, ?_⟩
    · simp only [List.map_cons, runAS, hstep]; exact hrun
    · rw [e1]; show p.currHf + 1 + rest.length = p.currHf + (rest.length + 1); omega
    · simpa [runInfo] using e3
    · intro j hj
      rw [fH j hj]
      exact frameH j (by rw [e1] at hj; show p.currHf + 1 ≤ j; have : p2.currHf = p.currHf + 1 := rfl; omega)
    · intro s hs'; rw [fI s hs']; exact frameI s hs'


theorem stepInfo_cons (fi : Bool) (h : HopF) (i : InfoF) (hc : consDir i.flags = true) :
    stepInfo fi h i = { i with segId := betaStep i.segId h.mac } := by
  have e : ingInfo fi h i = i := by unfold ingInfo; simp [hc]
  unfold stepInfo
  rw [e]
  unfold egrInfo
  simp only [hc, if_true]
  rw [(ingHop_auth fi h i).2.2.2]

theorem stepInfo_rev (fi : Bool) (h : HopF) (i : InfoF) (hc : consDir i.flags = false) :
    stepInfo fi h i = ingInfo fi h i := by
  unfold stepInfo egrInfo
  rw [ingInfo_flags, hc]; simp

/-- **β-chained segment, construction direction: the run conditions hold.**  Starting with `SegID = β`
(the accumulator the first of these hop fields was built with), entered from inside or outside. -/
theorem chained_runOk_cons (ts flags rsv : Nat) (hc : consDir flags = true) (ch : List (K × HopF)) :
    ∀ (β : Nat) (fi : Bool), Chained mac ts β ch → RunOk mac fi { flags := flags, rsv := rsv, segId := β, ts := ts } ch := by
  induction ch with
  | nil => intro _ _ _; trivial
  | cons kh rest ih =>
    obtain ⟨k, h⟩ := kh
    intro β fi hch
    obtain ⟨h1, h2⟩ := hch
    have e : ingInfo fi h { flags := flags, rsv := rsv, segId := β, ts := ts } = { flags := flags, rsv := rsv, segId := β, ts := ts } := by
      unfold ingInfo; simp [hc]
    refine ⟨?_, ?_⟩
    · rw [e]; simp only [macOk, macInput, beq_iff_eq]; exact h1
    · rw [stepInfo_cons fi h _ hc]; exact ih _ false h2

/-- against construction direction, arriving from outside with the accumulator of the *next* hop field in
construction order: the hop fields `j-1, …, 0` verify one after the other -/
theorem chained_runOk_rev_tail (ts β0 flags rsv : Nat) (hc : consDir flags = false) (ch : List (K × HopF))
    (hch : Chained mac ts β0 ch) : ∀ j, j ≤ ch.length →
      RunOk mac false { flags := flags, rsv := rsv, segId := betaAt β0 ch j, ts := ts } ((ch.take j).reverse) := by
  intro j
  induction j with
  | zero => intro _; simp [RunOk]
  | succ j ih =>
    intro hj
    have hj' : j < ch.length := by omega
    rw [List.take_succ_eq_append_getElem hj', List.reverse_append]
    simp only [List.reverse_cons, List.reverse_nil, List.nil_append, List.cons_append]
    have e : ingInfo false (ch[j]).2 { flags := flags, rsv := rsv, segId := betaAt β0 ch (j + 1), ts := ts } =
        { flags := flags, rsv := rsv, segId := betaAt β0 ch j, ts := ts } := by
      unfold ingInfo
      simp only [hc, Bool.not_false, Bool.and_self, if_true]
      rw [betaAt_succ β0 ch j hj', betaStep_betaStep]
    show macOk mac (ch[j]).1 (ch[j]).2 (ingInfo false (ch[j]).2 _) = true ∧ RunOk mac false (stepInfo false (ch[j]).2 _) _
    rw [stepInfo_rev false _ _ hc, e]
    exact ⟨chained_macOk mac ts β0 ch hch flags rsv j hj', ih (by omega)⟩

theorem ingInfo_true (h : HopF) (i : InfoF) : ingInfo true h i = i := by unfold ingInfo; simp

/-- **β-chained segment, against construction direction: the run conditions hold.**  Entered from inside
(source AS) at construction index `j` with `SegID = betaAt j` – for the whole reversed segment take
`j = n-1`, where `ch[n-1] :: (ch.take (n-1)).reverse = ch.reverse` – the hop fields `j, j-1, …, 0` verify
one after the other. -/
theorem chained_runOk_rev (ts β0 flags rsv : Nat) (hc : consDir flags = false) (ch : List (K × HopF))
    (hch : Chained mac ts β0 ch) (j : Nat) (hj : j < ch.length) :
    RunOk mac true { flags := flags, rsv := rsv, segId := betaAt β0 ch j, ts := ts } (ch[j] :: (ch.take j).reverse) := by
  show macOk mac _ _ (ingInfo true _ _) = true ∧ RunOk mac false (stepInfo true _ _) _
  rw [stepInfo_rev true _ _ hc, ingInfo_true]
  exact ⟨chained_macOk mac ts β0 ch hch flags rsv j hj, chained_runOk_rev_tail mac ts β0 flags rsv hc ch hch j (by omega)⟩

end Run

/-! ## 5. Non-vacuity -/

def exInfo : InfoF := ⟨1, 0, 0x1234, 1000⟩
def exHopF (n : Nat) : HopF := ⟨0, 5, n, n + 1, 0xabcdef000000 + n⟩
def exPath : PathV := ⟨0, 0, 0, 3, 0, 0, [exInfo], [exHopF 0, exHopF 1, exHopF 2]⟩

example : ∃ p' o, advanceEgress noValidation exPath = (p', .ok o) ∧ p'.currHf = 1 := ⟨_, _, rfl, rfl⟩
example : ∃ p' o, advanceIngress noValidation true exPath = (p', .ok o) := ⟨_, _, rfl⟩
example : ∃ e, advanceEgress noValidation { exPath with currHf := 2 } = ({ exPath with currHf := 2 }, .err e) := ⟨_, rfl⟩
example : (runSteps [.ingress noValidation true, .egress noValidation, .ingress noValidation false, .egress noValidation,
    .egress noValidation] exPath).2 = 2 := rfl
/-- a β-chained segment exists for every MAC function -/
example (mac : MacFn Nat) : ∃ hs, hs.length = 2 ∧ Chained mac 7 9 hs :=
  ⟨[(1, { exHopF 0 with mac := mac 1 ⟨9, 7, 5, 0, 1⟩ }),
    (2, { exHopF 1 with mac := mac 2 ⟨betaStep 9 (mac 1 ⟨9, 7, 5, 0, 1⟩), 7, 5, 1, 2⟩ })], rfl, ⟨rfl, rfl, trivial⟩⟩

/-- the run conditions are satisfiable for every MAC function (a β-chained two-hop run) -/
example (mac : MacFn Nat) :
    RunOk mac true ⟨1, 0, 9, 7⟩
      [(1, { exHopF 0 with mac := mac 1 ⟨9, 7, 5, 0, 1⟩ }),
       (2, { exHopF 1 with mac := mac 2 ⟨betaStep 9 (mac 1 ⟨9, 7, 5, 0, 1⟩), 7, 5, 1, 2⟩ })] :=
  chained_runOk_cons mac 7 1 0 (by decide) _ 9 true ⟨rfl, rfl, trivial⟩


/-- the premises of `asStep_deliver` / `asStep_change` / `tamper_caught_at_owner` are satisfiable (constant MAC function;
two segments of two hop fields, pointer on the last hop field of the first segment resp. of the path) -/
def exMac0 : MacFn Nat := fun _ _ => 0
def exHop0 (n : Nat) : HopF := ⟨0, 5, n, n + 1, 0⟩
def exPath2 (ci ch : Nat) : PathV := ⟨ci, ch, 0, 2, 2, 0, [⟨1, 0, 7, 1000⟩, ⟨0, 0, 9, 2000⟩], [exHop0 0, exHop0 1, exHop0 2, exHop0 3]⟩
example : ∃ q, asStep exMac0 1 false (exPath2 0 1) = some (q, false) ∧ q.currHf = 3 ∧ q.currInf = 1 :=
  ⟨_, asStep_change exMac0 1 false (exPath2 0 1) false (exHop0 1) (exHop0 2) ⟨1, 0, 7, 1000⟩ ⟨0, 0, 9, 2000⟩
      rfl rfl rfl rfl rfl rfl rfl (by decide) rfl rfl, rfl, rfl⟩
example : ∃ q, asStep exMac0 1 false (exPath2 1 3) = some (q, true) :=
  ⟨_, asStep_deliver exMac0 1 false (exPath2 1 3) false (exHop0 3) ⟨0, 0, 9, 2000⟩ rfl rfl (by decide) rfl rfl rfl⟩
example : ∃ r, asStep exMac0 1 false (exPath2 1 3) = some r ∧
    authBits (exHop0 3) (ingInfo false (exHop0 3) ⟨0, 0, 9, 2000⟩) ≠ authBits (exHop0 3) ⟨0, 0, 8, 2000⟩ ∧
    macOk exMac0 1 (exHop0 3) ⟨0, 0, 8, 2000⟩ = true :=
  ⟨_, asStep_deliver exMac0 1 false (exPath2 1 3) false (exHop0 3) ⟨0, 0, 9, 2000⟩ rfl rfl (by decide) rfl rfl rfl, by decide, rfl⟩
example : (runProc [(noValidation, noValidation, true), (noValidation, noValidation, false)] exPath).2 = 2 := rfl
example : ingressImp.effects = EFFECTS_INGRESS := rfl

end ScionVerif.StdPath
