import ScionVerif.Lemmas.SnapScmp
import ScionVerif.Lemmas.ScmpSubscribers
/-!
# C14 — SCMP handling: bounded quoting, valid checksums, faithful echo, no error loops

Models: `Model/Scmp.lean` (construction: `encodeError`, `errorPacket`, `echoMsg`, `checksum`) and `Model/ScmpHandler.lean`
(handling: `echoHandle`, `errorHandle`, the socket loop `recvOne`/`recvAll`, pocketscion's `simMaybeReply`/`simHandleScmp`),
`Model/ScmpSubscribers.lean` (the weakly held receiver list `Subscribers` that `ScmpErrorHandler` notifies).
Every statement is for **all** offending packets / header sizes / kinds / received packets / packet sequences; path reversal
(`DpPath::try_reverse`, property C12) is the parameter `rev`.  Sizes, types and the switches that say whether the code verifies
checksums on receive and refuses to answer unknown error types are generated from the Rust sources.
-/
namespace ScionVerif.Scmp
open ScionVerif.Generated.Scmp

/-! ## every SCMP error packet is at most 1232 bytes -/

/-- the model's field layout of each kind has the size the layout table says (`HEADER_SIZE_BYTES`) -/
theorem kind_fixed (k : ErrKind) : 4 + k.rest.length = k.fixed ∧ (k.ty, k.fixed) ∈ ERROR_KINDS := by
  cases k
  · exact ⟨rfl, (by decide : (TYPE_DestinationUnreachable, 8) ∈ ERROR_KINDS)⟩
  · exact ⟨rfl, (by decide : (TYPE_PacketTooBig, 8) ∈ ERROR_KINDS)⟩
  · exact ⟨rfl, (by decide : (TYPE_ParameterProblem, 8) ∈ ERROR_KINDS)⟩
  · exact ⟨rfl, (by decide : (TYPE_ExternalInterfaceDown, 20) ∈ ERROR_KINDS)⟩
  · exact ⟨rfl, (by decide : (TYPE_InternalConnectivityDown, 28) ∈ ERROR_KINDS)⟩

/-- for every entry of the generated kind table the largest encodable header plus the fixed part fits -/
theorem table_fits : ∀ e ∈ ERROR_KINDS, e.1 < 128 ∧ MAX_HEADER_SIZE + e.2 ≤ SCMP_ERROR_MAX_PACKET_SIZE := by decide

/-- **error_len_le_1232**: for every error kind, every offending-packet length and every SCION header the packet
    models accept (`wire_valid`: ≤ 1020 bytes), header + SCMP message ≤ `SCMP_ERROR_MAX_PACKET_SIZE` -/
theorem error_len_le_1232 (k : ErrKind) (off : Bytes) (a : AddrHdr) (hdr : Nat) (h : hdr ≤ MAX_HEADER_SIZE) :
    hdr + (encodeError k off a hdr).length ≤ SCMP_ERROR_MAX_PACKET_SIZE := by
  have := kind_fixed_le k
  exact errorMsg_fits k.ty k.code k.rest off a hdr (by rw [kind_fixed_eq]; omega)

/-- the complete packet (`ScionScmpPacket::try_encode`) -/
theorem errorPacket_len_le_1232 (k : ErrKind) (off : Bytes) (a : AddrHdr) (pt : Nat) (path b : Bytes)
    (h : errorPacket k off a pt path = some b) : b.length ≤ SCMP_ERROR_MAX_PACKET_SIZE ∧ SCMP_ERROR_MAX_PACKET_SIZE ≤ JUMBO_BUF_SIZE := by
  unfold errorPacket at h
  simp only [] at h
  split at h
  · cases h
  · rename_i hv
    have hh : headerSize a path ≤ MAX_HEADER_SIZE := by omega
    cases h
    rw [List.length_append, encodeHeader_length]
    exact ⟨error_len_le_1232 k off a _ hh, by decide⟩

/-- **quotes_prefix**: what follows the kind's fixed header is a prefix of the offending packet – the longest one the
    budget allows: `min(len, 1232 − header − fixed)` bytes -/
theorem quotes_prefix (k : ErrKind) (off : Bytes) (a : AddrHdr) (hdr : Nat) :
    (encodeError k off a hdr).drop k.fixed = off.take (min off.length (SCMP_ERROR_MAX_PACKET_SIZE - hdr - k.fixed)) ∧
    (encodeError k off a hdr).drop k.fixed <+: off := by
  have h := errorMsg_quote k.ty k.code k.rest off a hdr
  rw [kind_fixed_eq] at h
  exact ⟨h, by rw [show (encodeError k off a hdr).drop k.fixed = _ from h]; exact List.take_prefix _ _⟩

/-- nothing is cut off while there is room: an offending packet that fits is quoted completely -/
theorem quotes_all_if_room (k : ErrKind) (off : Bytes) (a : AddrHdr) (hdr : Nat)
    (h : hdr + k.fixed + off.length ≤ SCMP_ERROR_MAX_PACKET_SIZE) : (encodeError k off a hdr).drop k.fixed = off := by
  rw [(quotes_prefix k off a hdr).1, Nat.min_eq_left (by omega), List.take_length]

/-! ## checksums -/

theorem covers : CHECKSUM_COVERS_MESSAGE = true := by decide

/-- **checksum_valid** (errors): the checksum every error encoder writes verifies at a receiver that sums
    pseudo-header ++ message (RFC 1071 / SCION SCMP specification) -/
theorem error_checksum_valid (k : ErrKind) (off : Bytes) (a : AddrHdr) (hdr : Nat) (ha : a.hostsOk) (h : hdr ≤ MAX_HEADER_SIZE) :
    checksumVerifies a PROTO_SCMP (encodeError k off a hdr) = true := by
  have hl := error_len_le_1232 k off a hdr h
  have hlen := errorMsg_length k.ty k.code k.rest off a hdr
  unfold encodeError at hl ⊢
  rw [hlen] at hl
  rw [errorMsg_shape]
  exact checksum_verifies_core a _ _ _ _ PROTO_SCMP rfl covers ha.1 ha.2.1 ha.2.2.1 ha.2.2.2
    (by simp [SCMP_ERROR_MAX_PACKET_SIZE, List.length_take] at hl ⊢; unfold quoteLen at hl ⊢; omega) (by decide)

/-- **checksum_valid** (echo request / reply) -/
theorem echo_checksum_valid (ty ident seq : Nat) (data : Bytes) (a : AddrHdr) (ha : a.hostsOk) (h : data.length + 8 ≤ 65535) :
    checksumVerifies a PROTO_SCMP (echoMsg ty ident seq data a) = true := by
  rw [echoMsg_shape]
  exact checksum_verifies_core a _ _ _ _ PROTO_SCMP rfl covers ha.1 ha.2.1 ha.2.2.1 ha.2.2.2
    (by simp [be16_length]; omega) (by decide)

/-! ## echo -/

theorem verifies_on_receive : VERIFY_CHECKSUM_ON_RECEIVE = true := by decide

/-- **echo_exactly_one_same_id_seq_data** + **echo_reversed_path_swapped_addrs**: a well-formed echo request (SCMP next
    header, echo-request layout, verifying checksum) whose path reverses and whose host addresses are of a known kind is
    answered by the handler with a packet that parses as an echo **reply** with the same identifier, sequence number and
    data, source and destination swapped, over the reversed path; the loop of a socket **on which `DefaultEchoHandler` is
    installed** next to the error handler (no `ScionStack` constructor does that, see `stack_socket_sends_nothing`) sends
    exactly this one packet (and nothing else, and reports nothing) provided the reply header is encodable. -/
theorem echo_exactly_one_same_id_seq_data (rev : Rev) (n : Nat) (p : Pkt) (code c1 c2 : UInt8) (ident seq : Nat) (data : Bytes)
    (pt : Nat) (path : Bytes)
    (hnh : p.nextHdr = PROTO_SCMP) (hpl : p.payload = echoWire TYPE_EchoRequest code c1 c2 ident seq data)
    (hi : ident < 65536) (hs : seq < 65536) (hck : scmpChecksumOk p = true)
    (hrev : rev p.pathType p.path = some (pt, path))
    (hsrc : knownHost p.addr.srcNib = true) (hdst : knownHost p.addr.dstNib = true) :
    ∃ r, echoHandle rev p = some r ∧
      parseMsg r.payload = some (.echoReply ident seq data) ∧
      r.nextHdr = PROTO_SCMP ∧ r.addr = p.addr.swap ∧ r.pathType = pt ∧ r.path = path ∧
      (recvOne rev n [.error, .echo] p).reports = [] ∧
      (∀ b, r.encode = some b → (recvOne rev n [.error, .echo] p).sent = [b]) ∧
      (recvOne rev n [.error, .echo] p).sent.length ≤ 1 := by
  have he := echoHandle_request rev p code c1 c2 ident seq data pt path hnh hpl hi hs (fun _ => hck) hrev hsrc hdst
  have ha := asScmp_echoRequest p code c1 c2 ident seq data hnh hpl hi hs
  refine ⟨_, he, ?_, rfl, rfl, rfl, rfl, ?_, ?_, ?_⟩
  · obtain ⟨x, y, hw⟩ := echoMsg_eq_wire TYPE_EchoReply ident seq data p.addr.swap
    simp only []
    rw [hw, parse_echo _ _ _ _ _ _ _ hi hs (Or.inr rfl)]
    simp [TYPE_EchoReply, TYPE_EchoRequest]
  · have hne : PROTO_SCMP ≠ PROTO_UDP := by decide
    simp [recvOne, hnh, hne, runHandler, errorHandle, ha, he]
    split <;> rfl
  · intro b hb
    have hne : PROTO_SCMP ≠ PROTO_UDP := by decide
    simp [recvOne, hnh, hne, runHandler, errorHandle, ha, he, hb]
  · have hne : PROTO_SCMP ≠ PROTO_UDP := by decide
    simp [recvOne, hnh, hne, runHandler, errorHandle, ha, he]
    split <;> simp

/-- the reply's own checksum verifies -/
theorem echo_reply_checksum_valid (ident seq : Nat) (data : Bytes) (a : AddrHdr) (ha : a.hostsOk) (h : data.length + 8 ≤ 65535) :
    checksumVerifies a.swap PROTO_SCMP (echoMsg TYPE_EchoReply ident seq data a.swap) = true :=
  echo_checksum_valid _ _ _ _ _ ⟨ha.2.1, ha.1, ha.2.2.2, ha.2.2.1⟩ h

/-! ## no error loops -/

/-- a socket that carries any list of the two handlers the crate ships (`hb`; a user implementation of the public trait
    `ScmpHandler` is a different matter, see `custom_handler_may_reply_witness`) sends an SCMP message only in answer to
    an echo request whose checksum verifies -/
theorem reply_only_to_valid_echo_request (rev : Rev) (n : Nat) (hs : List Handler) (p : Pkt) (hb : ∀ x ∈ hs, x.builtin = true)
    (h : (recvOne rev n hs p).sent ≠ []) :
    p.nextHdr = PROTO_SCMP ∧ scmpChecksumOk p = true ∧ ∃ i s d, asScmp p = some (.echoRequest i s d) := by
  obtain ⟨h1, i, s, d, h2, h3⟩ := recvOne_sent rev n hs p hb h
  exact ⟨h1, h3 verifies_on_receive, i, s, d, h2⟩

/-- **no_reply_to_error**: an SCMP message of type < 128 (known kind or not, well-formed or not) never triggers a reply,
    whichever of the crate's own handlers are installed, in any number and order -/
theorem no_reply_to_error (rev : Rev) (n : Nat) (hs : List Handler) (p : Pkt) (hb : ∀ x ∈ hs, x.builtin = true)
    (hty : byteAt p.payload 0 < 128) :
    (recvOne rev n hs p).sent = [] := by
  cases hsent : (recvOne rev n hs p).sent with
  | nil => rfl
  | cons x t =>
    obtain ⟨h1, _, i, s, d, h2⟩ := reply_only_to_valid_echo_request rev n hs p hb (by rw [hsent]; simp)
    unfold asScmp at h2
    rw [if_neg (by simp [h1])] at h2
    have := parseMsg_ty _ _ h2
    simp [Msg.ty, TYPE_EchoRequest] at this
    omega

/-- **no_reply_to_malformed**: a packet that is not a well-sized SCMP message (too short for its kind, or not SCMP at all)
    or whose SCMP checksum does not verify never triggers a reply -/
theorem no_reply_to_malformed (rev : Rev) (n : Nat) (hs : List Handler) (p : Pkt) (hb : ∀ x ∈ hs, x.builtin = true)
    (h : asScmp p = none ∨ scmpChecksumOk p = false) : (recvOne rev n hs p).sent = [] := by
  cases hsent : (recvOne rev n hs p).sent with
  | nil => rfl
  | cons x t =>
    obtain ⟨_, hc, i, s, d, h2⟩ := reply_only_to_valid_echo_request rev n hs p hb (by rw [hsent]; simp)
    rcases h with h | h
    · rw [h] at h2; cases h2
    · rw [h] at hc; cases hc

/-- the hypothesis `hb` is needed: the handler list is `Vec<Box<dyn ScmpHandler>>` over a public trait, and a handler
    that answers everything makes the loop send a reply to an SCMP error (the loop itself checks nothing) -/
theorem custom_handler_may_reply_witness :
    ∃ (f : Pkt → Option RawPkt) (p : Pkt), byteAt p.payload 0 < 128 ∧ p.nextHdr = PROTO_SCMP ∧
      (recvOne (fun _ _ => none) 0 [.custom f] p).sent ≠ [] := by
  refine ⟨fun p => some { nextHdr := PROTO_SCMP, addr := p.addr.swap, pathType := 0, path := [], payload := [] },
    { tc := 0, flow := 0, nextHdr := PROTO_SCMP,
      addr := { dstIa := 1, srcIa := 2, dstNib := 0, srcNib := 0, dstHost := [10, 0, 0, 1], srcHost := [10, 0, 0, 2] },
      pathType := 0, path := [], payload := [1, 0, 0, 0, 0, 0, 0, 0] }, by decide, rfl, by decide⟩

/-! ### the sockets `ScionStack` builds (handler lists read off stack.rs: `STACK_SOCKET_HANDLERS`) -/

/-- every production constructor installs handlers of the crate only, so the three theorems above apply to every
    socket a `ScionStack` hands out (generic in the table: holds for any wiring made of the two known handler types) -/
theorem stack_sockets_builtin (f : String) (hs : List Handler) (h : stackHandlers f = some hs) : ∀ x ∈ hs, x.builtin = true := by
  unfold stackHandlers at h
  split at h
  · exact handlersOfCodes_builtin _ _ h
  · cases h

theorem stack_socket_no_reply_to_error (rev : Rev) (n : Nat) (f : String) (hs : List Handler) (h : stackHandlers f = some hs)
    (p : Pkt) (hbad : byteAt p.payload 0 < 128 ∨ asScmp p = none ∨ scmpChecksumOk p = false) :
    (recvOne rev n hs p).sent = [] := by
  rcases hbad with hty | hm
  · exact no_reply_to_error rev n hs p (stack_sockets_builtin f hs h) hty
  · exact no_reply_to_malformed rev n hs p (stack_sockets_builtin f hs h) hm

/-- with the wiring stack.rs has **today** (only `ScmpErrorHandler`s, checked on the generated table by `decide`) a
    socket handed out by `ScionStack` never sends an SCMP packet at all – in particular it does **not** answer echo
    requests: `DefaultEchoHandler` is exported but installed by no constructor (its documentation reserves it for a
    socket bound to the end-host SCMP port 30041).  The echo clause of the property is therefore a statement about the
    handler (`echo_exactly_one_same_id_seq_data`, a socket assembled with it) and about pocketscion (`sim_echo_reply`),
    not about the sockets the SDK builds. -/
theorem stack_socket_sends_nothing (rev : Rev) (n : Nat) (f : String) (hs : List Handler) (h : stackHandlers f = some hs) (p : Pkt) :
    (recvOne rev n hs p).sent = [] := by
  have hall : ∀ e ∈ STACK_SOCKET_HANDLERS, ∀ c ∈ e.2, c = 0 := by decide
  unfold stackHandlers at h
  split at h
  · rename_i cs hl
    exact recvOne_all_error_sent rev n hs p (handlersOfCodes_all_error cs hs (hall (f, cs) (lookup_mem _ _ _ hl)) h)
  · cases h

theorem stack_bind_handlers : stackHandlers "bind_with_config" = some [.error] := by rfl
theorem stack_path_unaware_handlers : stackHandlers "bind_path_unaware" = some [] := by rfl

/-- **errors reach the receivers** on the sockets of `bind` / `bind_with_config` / `connect*`: stated for whatever list the
    generated table gives, discharged through `stack_bind_handlers` -/
theorem stack_bind_errors_reach_receivers (rev : Rev) (n : Nat) (hs : List Handler) (hw : stackHandlers "bind_with_config" = some hs)
    (p : Pkt) (k : ErrKind) (q : Bytes) (h : asScmp p = some (.error k q)) :
    (recvOne rev n hs p).reports = (List.range n).map (fun i => (i, ({ kind := k, quote := q, pathType := p.pathType, path := p.path } : Report))) := by
  rw [stack_bind_handlers] at hw
  cases hw
  have hn : p.nextHdr = PROTO_SCMP := by
    unfold asScmp at h
    by_cases hh : p.nextHdr = PROTO_SCMP
    · exact hh
    · simp [hh] at h
  have hne : PROTO_SCMP ≠ PROTO_UDP := by decide
  simp [recvOne, hn, hne, runHandler, errorHandle, h]

/-- a socket of `bind_path_unaware` has no handler: an SCMP error arriving on it is reported to **no** receiver (and
    nothing is sent).  Not a violation of the property as read here (no receiver is associated with such a socket – the
    stack's receiver list holds the path managers of the managed sockets), but it means an application using explicit
    paths never learns of SCMP errors. -/
theorem stack_path_unaware_reports_nothing (rev : Rev) (n : Nat) (hs : List Handler) (hw : stackHandlers "bind_path_unaware" = some hs)
    (p : Pkt) : (recvOne rev n hs p).reports = [] ∧ (recvOne rev n hs p).sent = [] := by
  rw [stack_path_unaware_handlers] at hw
  cases hw
  unfold recvOne
  by_cases h1 : p.nextHdr = PROTO_UDP
  · simp [h1]
  · have hne : PROTO_SCMP ≠ PROTO_UDP := by decide
    by_cases h2 : p.nextHdr = PROTO_SCMP <;> simp [h1, h2, hne]

theorem no_reply_unknown : NO_REPLY_TO_UNKNOWN_ERROR = true := by decide

/-- pocketscion: no SCMP message (error or informational reply) is ever created in response to an SCMP message of
    type < 128 or to a malformed SCMP packet -/
theorem sim_no_reply_to_error (rev : Rev) (localIa rn : Nat) (rh : Bytes) (msg : AddrHdr → Nat → Bytes) (p : Pkt) (r : RawPkt)
    (h : simMaybeReply rev localIa rn rh msg p = .reply r) :
    ¬ (p.nextHdr = PROTO_SCMP ∧ (byteAt p.payload 0 < 128 ∨ parseMsg p.payload = none)) := by
  rintro ⟨hn, hbad⟩
  unfold simMaybeReply at h
  by_cases hc : classifyOk p = true
  · simp only [hc, Bool.not_true, Bool.false_eq_true, if_false] at h
    have hne : PROTO_SCMP ≠ PROTO_UDP := by decide
    have hp : (parseMsg p.payload).isSome = true := by simpa [classifyOk, hn, hne] using hc
    obtain ⟨m, hm⟩ := Option.isSome_iff_exists.mp hp
    rcases hbad with hlt | hnone
    · have hty := parseMsg_ty _ _ hm
      have : simIsError p = true := by
        simp [simIsError, hn, hm, no_reply_unknown, hty, hlt]
      simp [this] at h
    · rw [hnone] at hm; cases hm
  · simp [hc] at h

/-- pocketscion's error packets are bounded like everyone else's -/
theorem sim_error_len_le_1232 (rev : Rev) (localIa rn : Nat) (rh : Bytes) (k : ErrKind) (raw : Bytes) (p : Pkt) (r : RawPkt) (b : Bytes)
    (h : simErrorReply rev localIa rn rh k raw p = .reply r) (he : r.encode = some b) :
    b.length ≤ SCMP_ERROR_MAX_PACKET_SIZE ∧ r.payload.drop k.fixed <+: raw := by
  unfold simErrorReply simMaybeReply at h
  repeat' split at h
  all_goals first | (simp at h; done) | skip
  rename_i pt path _
  simp only [SimOut.reply.injEq] at h
  subst h
  unfold RawPkt.encode at he
  simp only [] at he
  split at he
  · cases he
  · rename_i hv
    cases he
    refine ⟨?_, (quotes_prefix k raw _ _).2⟩
    rw [List.length_append, encodeHeader_length]
    exact error_len_le_1232 k raw _ _ (by omega)

/-- pocketscion's router answers a well-formed echo request addressed to it with exactly the echo reply: same identifier,
    sequence number and data, sent from the router to the requester over the reversed path (unless the requester's
    address is multicast, in which case nothing is sent) -/
theorem sim_echo_reply (rev : Rev) (localIa localIf rn : Nat) (rh : Bytes) (p : Pkt) (code c1 c2 : UInt8) (ident seq : Nat)
    (data : Bytes) (pt : Nat) (path : Bytes)
    (hnh : p.nextHdr = PROTO_SCMP) (hpl : p.payload = echoWire TYPE_EchoRequest code c1 c2 ident seq data)
    (hi : ident < 65536) (hs : seq < 65536) (hck : scmpChecksumOk p = true)
    (hrev : rev p.pathType p.path = some (pt, path)) (hsrc : knownHost p.addr.srcNib = true)
    (hmc : srcMulticast p.addr = false) :
    ∃ r, simHandleScmp rev localIa localIf rn rh p = .reply r ∧
      parseMsg r.payload = some (.echoReply ident seq data) ∧
      r.addr.dstIa = p.addr.srcIa ∧ r.addr.dstNib = p.addr.srcNib ∧ r.addr.dstHost = p.addr.srcHost ∧
      r.addr.srcIa = localIa ∧ r.addr.srcHost = rh ∧ r.pathType = pt ∧ r.path = path := by
  have ha := asScmp_echoRequest p code c1 c2 ident seq data hnh hpl hi hs
  have hparse : parseMsg p.payload = some (.echoRequest ident seq data) := by
    unfold asScmp at ha; rw [if_neg (by simp [hnh])] at ha; exact ha
  have hne : PROTO_SCMP ≠ PROTO_UDP := by decide
  have hcl : classifyOk p = true := by simp [classifyOk, hnh, hne, hparse]
  have hnoerr : simIsError p = false := by
    simp [simIsError, hnh, hparse, Msg.isKnownError, Msg.ty, TYPE_EchoRequest]
  refine ⟨{ nextHdr := PROTO_SCMP,
            addr := { dstIa := p.addr.srcIa, srcIa := localIa, dstNib := p.addr.srcNib, srcNib := rn, dstHost := p.addr.srcHost, srcHost := rh },
            pathType := pt, path := path,
            payload := echoMsg TYPE_EchoReply ident seq data
              { dstIa := p.addr.srcIa, srcIa := localIa, dstNib := p.addr.srcNib, srcNib := rn, dstHost := p.addr.srcHost, srcHost := rh } },
    ?_, ?_, rfl, rfl, rfl, rfl, rfl, rfl, rfl⟩
  · simp [simHandleScmp, ha, hck, simMaybeReply, hcl, hnoerr, hsrc, hmc, hrev]
  · obtain ⟨x, y, hw⟩ := echoMsg_eq_wire TYPE_EchoReply ident seq data
      { dstIa := p.addr.srcIa, srcIa := localIa, dstNib := p.addr.srcNib, srcNib := rn, dstHost := p.addr.srcHost, srcHost := rh }
    simp only []
    rw [hw, parse_echo _ _ _ _ _ _ _ hi hs (Or.inr rfl)]
    simp [TYPE_EchoReply, TYPE_EchoRequest]

/-! ## errors reach the receivers; datagram delivery is unaffected -/

/-- **errors_reach_receivers** (known kinds): a well-sized SCMP message of one of the five known error kinds is passed to
    every one of the `n` receivers exactly once (in registration order), with its fields, its quoted packet and the path
    of the packet it arrived in; the handler never answers it -/
theorem errors_reach_receivers_partial (rev : Rev) (n : Nat) (p : Pkt) (k : ErrKind) (q : Bytes)
    (h : asScmp p = some (.error k q)) :
    (recvOne rev n [.error] p).reports = (List.range n).map (fun i => (i, ({ kind := k, quote := q, pathType := p.pathType, path := p.path } : Report))) ∧
    (recvOne rev n [.error] p).sent = [] ∧
    (recvOne rev n [.error, .echo] p).reports = (recvOne rev n [.error] p).reports := by
  have hn : p.nextHdr = PROTO_SCMP := by
    unfold asScmp at h
    by_cases hh : p.nextHdr = PROTO_SCMP
    · exact hh
    · simp [hh] at h
  have hne : PROTO_SCMP ≠ PROTO_UDP := by decide
  have hecho : echoHandle rev p = none := by simp [echoHandle, h]
  simp [recvOne, hn, hne, runHandler, errorHandle, h, hecho]

/-- the full statement "every well-formed SCMP **error** (type < 128) reaches the receivers" is false of the code:
    `is_error()` / `ScmpErrorMessage` only know five kinds, an error of any other type is dropped.  Witness: a 12-byte
    message of type 3 in a packet with a valid checksum. -/
def unknownErrorPkt : Pkt :=
  { tc := 0, flow := 0, nextHdr := PROTO_SCMP,
    addr := { dstIa := 1, srcIa := 2, dstNib := 0, srcNib := 0, dstHost := [10, 0, 0, 1], srcHost := [10, 0, 0, 2] },
    pathType := 0, path := [], payload := [3, 0, 0xe4, 0x1d, 0, 0, 0, 0, 1, 2, 3, 4] }

theorem errors_reach_receivers_witness :
    byteAt unknownErrorPkt.payload 0 < 128 ∧ scmpChecksumOk unknownErrorPkt = true ∧
    (asScmp unknownErrorPkt).isSome = true ∧ (recvOne (fun _ _ => none) 1 [.error] unknownErrorPkt).reports = [] := by
  decide

/-- **udp_delivery_unaffected**: the datagrams a socket hands to the application are exactly the deliverable UDP packets
    of the input, in order – SCMP packets (and packets of other protocols) interleaved anywhere neither add, remove nor
    reorder deliveries -/
theorem udp_delivery_unaffected (rev : Rev) (n : Nat) (hs : List Handler) (ps : List Pkt) :
    (recvAll rev n hs ps).delivered = (ps.filter (fun p => p.nextHdr == PROTO_UDP)).filterMap deliverUdp ∧
    (recvAll rev n hs ps).delivered = (recvAll rev n hs (ps.filter (fun p => p.nextHdr != PROTO_SCMP))).delivered := by
  have key : ∀ qs : List Pkt, (recvAll rev n hs qs).delivered = (qs.filter (fun p => p.nextHdr == PROTO_UDP)).filterMap deliverUdp := by
    intro qs
    induction qs with
    | nil => rfl
    | cons p t ih =>
      simp only [recvAll, List.map_cons, List.filterMap_cons, recvOne_delivered] at ih ⊢
      by_cases hu : p.nextHdr = PROTO_UDP
      · simp only [hu, if_true, List.filter_cons, beq_self_eq_true, List.filterMap_cons]
        cases deliverUdp p <;> simp [ih]
      · have : (p.nextHdr == PROTO_UDP) = false := by simpa using hu
        simp only [hu, if_false, List.filter_cons, this, Bool.false_eq_true]
        exact ih
  refine ⟨key ps, ?_⟩
  rw [key, key, List.filter_filter]
  congr 1
  apply List.filter_congr
  intro p _
  by_cases hu : p.nextHdr = PROTO_UDP
  · have hne : PROTO_UDP ≠ PROTO_SCMP := by decide
    simp [hu, hne]
  · simp [hu]

/-- an SCMP packet is never handed to the application as a datagram -/
theorem scmp_delivers_nothing (rev : Rev) (n : Nat) (hs : List Handler) (p : Pkt) (h : p.nextHdr = PROTO_SCMP) :
    (recvOne rev n hs p).delivered = none := by
  rw [recvOne_delivered, h]; rfl

/-! ## the receiver list (`Subscribers`): every arriving SCMP error is reported exactly once to every receiver that is
registered and alive at that moment, and to no dropped one – for every history of registrations, drops and errors -/

/-- **receivers_notified_exactly_once**: after *any* history `pre` of {register a receiver (explicitly or by binding a
    socket), drop receiver `k`, SCMP error arrives}, the error arriving next calls every receiver that is alive then
    exactly once and no other receiver (count 0 for dropped and for never registered identities) -/
theorem receivers_notified_exactly_once (pre : List SubsOp) (id : Nat) :
    (subsReach {} pre).notified.count id = if id ∈ (subsReach {} pre).alive then 1 else 0 :=
  notified_count _ (subsInv_reach _ _ subsInv_init) id

/-- the notification lists a whole history produces are exactly those: the error following the prefix `pre` is
    reported to `(subsReach {} pre).notified`, whatever follows -/
theorem receivers_run_error (pre post : List SubsOp) :
    subsRun {} (pre ++ .error :: post)
      = subsRun {} pre ++ (subsReach {} pre).notified :: subsRun (subsReach {} pre) post := by
  suffices h : ∀ w : SubsState, subsRun w (pre ++ .error :: post)
      = subsRun w pre ++ (subsReach w pre).notified :: subsRun (subsReach w pre) post from h {}
  induction pre with
  | nil => intro w; rfl
  | cons op pre ih =>
    intro w
    cases op <;> simp [subsRun, subsReach, subsStep, ih]

/-- who is "registered and alive": the receiver registered after `pre` (it gets the identity `next`) is alive for as
    long as its owner does not drop it … -/
theorem receiver_alive_until_dropped (pre post : List SubsOp) (h : SubsOp.drop (subsReach {} pre).next ∉ post) :
    (subsReach {} pre).next ∈ (subsReach {} (pre ++ .register :: post)).alive := by
  rw [subsReach_append]
  exact stays_alive _ post _ (by simp [subsStep]) h

/-- … and once dropped it is never alive again (identities are not reused), hence never notified again -/
theorem dropped_receiver_never_notified (pre post : List SubsOp) (id : Nat) (h : id < (subsReach {} pre).next) :
    id ∉ (subsReach {} (pre ++ .drop id :: post)).alive ∧ id ∉ (subsReach {} (pre ++ .drop id :: post)).notified := by
  have hd : id ∉ (subsReach {} (pre ++ .drop id :: post)).alive := by
    rw [subsReach_append]
    exact stays_dead _ post id (by simp [subsStep]) (by simpa [subsStep] using h)
  refine ⟨hd, ?_⟩
  have := receivers_notified_exactly_once (pre ++ .drop id :: post) id
  rw [if_neg hd] at this
  exact List.count_eq_zero.mp this

/-! ## non-vacuity -/

/-- an echo request from 10.0.0.2 to 10.0.0.1 (id 7, seq 9, data "hi"), empty path, valid checksum -/
def echoReqPkt : Pkt :=
  { tc := 0, flow := 0, nextHdr := PROTO_SCMP,
    addr := { dstIa := 1, srcIa := 2, dstNib := 0, srcNib := 0, dstHost := [10, 0, 0, 1], srcHost := [10, 0, 0, 2] },
    pathType := 0, path := [],
    payload := echoMsg TYPE_EchoRequest 7 9 [104, 105] { dstIa := 1, srcIa := 2, dstNib := 0, srcNib := 0, dstHost := [10, 0, 0, 1], srcHost := [10, 0, 0, 2] } }

example : scmpChecksumOk echoReqPkt = true := by decide
example : asScmp echoReqPkt = some (.echoRequest 7 9 [104, 105]) := by decide
example : ((recvOne (fun t p => some (t, p)) 2 [.error, .echo] echoReqPkt).sent).length = 1 := by decide
/-- at the largest header the quote of a 300-byte offending packet is cut to 184 bytes: 1020 + 28 + 184 = 1232 -/
example (off : Bytes) (h : off.length = 300) : 1020 + (encodeError (.intConnDown 5 1 2) off echoReqPkt.addr 1020).length = 1232 := by
  simp [encodeError, errorMsg_length, quoteLen, ErrKind.rest, be64_length, SCMP_ERROR_MAX_PACKET_SIZE, h]
example : ∃ hs, stackHandlers "bind_with_config" = some hs ∧ hs ≠ [] := ⟨_, stack_bind_handlers, by simp⟩
example : ∀ x ∈ [Handler.error, Handler.echo, Handler.echo], x.builtin = true := by simp [Handler.builtin]
example : AddrHdr.hostsOk echoReqPkt.addr := ⟨by decide, by decide, by decide, by decide⟩
example : (asScmp { echoReqPkt with payload := encodeError (.destUnreachable 4) [1, 2, 3] echoReqPkt.addr 36 }).map Msg.isKnownError = some true := by
  decide

/-- three receivers, the first is dropped, an error arrives: the other two are told (the history the seeded
    `swap_remove` change gets wrong), and after a fourth registration the dead entry is gone -/
example : subsRun {} [.register, .register, .register, .error, .drop 0, .error, .register, .error] = [[0, 1, 2], [1, 2], [1, 2, 3]] := by decide
example : (subsReach {} [.register, .register, .register, .drop 0, .register]).slots = [1, 2, 3] := by decide
example : SubsOp.drop (subsReach {} [.register]).next ∉ [SubsOp.error, .drop 0] := by decide
example : (0 : Nat) < (subsReach {} [.register]).next := by decide

end ScionVerif.Scmp
