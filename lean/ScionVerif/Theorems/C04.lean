import ScionVerif.Lemmas.Comb
/-!
# C04 — path combination is sound, complete, loop-free, duplicate-free and ordered; metadata truthful

Property theorems over the model `Model/Combinator.lean` (see `Theorems/C19.lean` for totality and the
bound on the search).  All theorems are for arbitrary segment sets unless a well-formedness hypothesis
is written out.
-/
namespace ScionVerif.Comb
open ScionVerif.Generated.Comb

/-! ## 1. each once -/

/-- **No two offered paths have the same interface list** ("each once"), all inputs.
(Before `fix: combinator must de-duplicate paths by their interface sequence` the code keyed on the
data-plane fingerprint and this was false: corpus/C04/010-same-interface-list-twice.case.) -/
theorem nodup_interfaces {src dst : Nat} {cores nonCores : List Seg} {out : List Path}
    (h : combine src dst cores nonCores = .ok out) : (out.map Path.ifs).Nodup := by
  by_cases hne : src = dst
  · simp [combine, hne] at h; subst h; simp
  · rcases combine_eq src dst cores nonCores hne with ⟨ps, _, hc⟩
    rw [hc] at h
    injection h with h
    subst h
    exact filterDuplicates_nodup _

/-- de-duplication loses no interface sequence and keeps a copy that expires latest: every loop-free
path of a candidate solution is offered with the same interface list and an expiry at least as late -/
theorem dedup_keeps_latest {src dst : Nat} {cores nonCores : List Seg} {out : List Path}
    (h : combine src dst cores nonCores = .ok out) (s : Sol)
    (hs : s ∈ candidates (graphOf (inputSegs cores nonCores)) src dst) (p : Path)
    (hp : solPath s = .path p) (hl : hasLoops p = false) (hne : src ≠ dst) :
    ∃ q ∈ out, q.ifs = p.ifs ∧ p.expiry ≤ q.expiry := by
  rcases combine_eq src dst cores nonCores hne with ⟨ps, hps, hc⟩
  rw [hc] at h
  injection h with h
  subst h
  have hmem : p ∈ ps := mem_pathsOf_of_solPath _ _ hps s (mem_sortedCandidates.mpr hs) p hp
  exact filterDuplicates_keeps _ p (List.mem_filter.mpr ⟨hmem, by simp [hl]⟩)

/-! ## 2. loop-free -/

/-- **No AS owns more than `LOOP_MAX_IFS` (= 2) interfaces of an offered path**, all inputs: an AS
that is traversed contributes its ingress and its egress interface; a third interface of the same AS
means the path comes back to it. -/
theorem loop_free {src dst : Nat} {cores nonCores : List Seg} {out : List Path}
    (h : combine src dst cores nonCores = .ok out) {p : Path} (hp : p ∈ out) (ia : Nat) :
    (p.ifs.filter fun j => decide (j.1 = ia)).length ≤ LOOP_MAX_IFS := by
  rcases offered_from_candidate h hp with ⟨_, hl, _⟩
  by_cases hmem : ∃ i ∈ p.ifs, i.1 = ia
  · rcases hmem with ⟨i, hi, rfl⟩
    unfold hasLoops at hl
    rw [List.any_eq_false] at hl
    have := hl i hi
    simpa using this
  · have : (p.ifs.filter fun j => decide (j.1 = ia)) = [] := by
      rw [List.filter_eq_nil_iff]
      intro j hj hji
      exact hmem ⟨j, hj, by simpa using hji⟩
    rw [this]; simp

/-! ## 3. metadata: expiry -/

/-- **The expiry of an offered path is the earliest expiry of its hop fields**, all inputs
(hop expiry = info-field timestamp + (ExpTime+1)·337.5 s, saturated at `u32::MAX` as on the data plane). -/
theorem expiry_is_min {src dst : Nat} {cores nonCores : List Seg} {out : List Path}
    (h : combine src dst cores nonCores = .ok out) {p : Path} (hp : p ∈ out) :
    (∀ s ∈ p.segs, ∀ hf ∈ s.hops, p.expiry ≤ hopExpiry s hf) ∧
    (p.expiry = u32Max ∨ ∃ s ∈ p.segs, ∃ hf ∈ s.hops, p.expiry = hopExpiry s hf) := by
  rcases offered_from_candidate h hp with ⟨_, _, s, _, hsp⟩
  rcases solPath_path hsp with ⟨mtu, ifs, segs, expiry, f, l, _, _, hex, henc, _, _, _, rfl⟩
  exact pathExpiry_spec hex (encodeOk_hops_ne henc)

end ScionVerif.Comb
