import ScionVerif.Lemmas.CombSpec
import ScionVerif.Lemmas.CombOrder
import ScionVerif.Lemmas.CombComplete
/-!
# C04 — path combination is sound, complete, loop-free, duplicate-free and ordered; metadata truthful

Property theorems over the model `Model/Combinator.lean` (see `Theorems/C19.lean` for totality and the
bound on the search).  All theorems are for arbitrary segment sets unless a well-formedness hypothesis
is written out.
-/
namespace ScionVerif.Comb
open ScionVerif.Generated.Comb

/-! ## 1. each once -/

/-- **No two offered paths have the same interface list** ("each once"), all inputs.
(Before `fix: combinator must de-duplicate paths by their interface sequence` the code keyed on the
data-plane fingerprint and this was false: corpus/C04/010-same-interface-list-twice.case.) -/
theorem nodup_interfaces {src dst : Nat} {cores nonCores : List Seg} {out : List Path}
    (h : combine src dst cores nonCores = .ok out) : (out.map Path.ifs).Nodup := by
  by_cases hne : src = dst
  · simp [combine, hne] at h; subst h; simp
  · rcases combine_eq src dst cores nonCores hne with ⟨ps, _, hc⟩
    rw [hc] at h
    injection h with h
    subst h
    exact filterDuplicates_nodup _

/-- de-duplication loses no interface sequence and keeps a copy that expires latest: every loop-free
path of a candidate solution is offered with the same interface list and an expiry at least as late -/
theorem dedup_keeps_latest {src dst : Nat} {cores nonCores : List Seg} {out : List Path}
    (h : combine src dst cores nonCores = .ok out) (s : Sol)
    (hs : s ∈ candidates (graphOf (inputSegs cores nonCores)) src dst) (p : Path)
    (hp : solPath s = .path p) (hl : hasLoops p = false) (hne : src ≠ dst) :
    ∃ q ∈ out, q.ifs = p.ifs ∧ p.expiry ≤ q.expiry := by
  rcases combine_eq src dst cores nonCores hne with ⟨ps, hps, hc⟩
  rw [hc] at h
  injection h with h
  subst h
  have hmem : p ∈ ps := mem_pathsOf_of_solPath _ _ hps s (mem_sortedCandidates.mpr hs) p hp
  exact filterDuplicates_keeps _ p (List.mem_filter.mpr ⟨hmem, by simp [hl]⟩)

/-! ## 2. loop-free -/

/-- **No AS owns more than `LOOP_MAX_IFS` (= 2) interfaces of an offered path**, all inputs: an AS
that is traversed contributes its ingress and its egress interface; a third interface of the same AS
means the path comes back to it.  This is the filter `has_loops` restated (true by construction of
`finish`); it is the interface-count predicate the code implements, not "no AS twice in the AS
sequence" — the latter is checked by the harness on well-formed sets only. -/
theorem loop_free {src dst : Nat} {cores nonCores : List Seg} {out : List Path}
    (h : combine src dst cores nonCores = .ok out) {p : Path} (hp : p ∈ out) (ia : Nat) :
    (p.ifs.filter fun j => decide (j.1 = ia)).length ≤ LOOP_MAX_IFS := by
  rcases offered_from_candidate h hp with ⟨_, hl, _⟩
  by_cases hmem : ∃ i ∈ p.ifs, i.1 = ia
  · rcases hmem with ⟨i, hi, rfl⟩
    unfold hasLoops at hl
    rw [List.any_eq_false] at hl
    have := hl i hi
    simpa using this
  · have : (p.ifs.filter fun j => decide (j.1 = ia)) = [] := by
      rw [List.filter_eq_nil_iff]
      intro j hj hji
      exact hmem ⟨j, hj, by simpa using hji⟩
    rw [this]; simp

/-! ## 3. metadata: expiry -/

/-- **The expiry of an offered path is the earliest expiry of its hop fields**, all inputs
(hop expiry = info-field timestamp + (ExpTime+1)·337.5 s, saturated at `u32::MAX` as on the data plane). -/
theorem expiry_is_min {src dst : Nat} {cores nonCores : List Seg} {out : List Path}
    (h : combine src dst cores nonCores = .ok out) {p : Path} (hp : p ∈ out) :
    (∀ s ∈ p.segs, ∀ hf ∈ s.hops, p.expiry ≤ hopExpiry s hf) ∧
    (p.expiry = u32Max ∨ ∃ s ∈ p.segs, ∃ hf ∈ s.hops, p.expiry = hopExpiry s hf) := by
  rcases offered_from_candidate h hp with ⟨_, _, s, _, hsp⟩
  rcases solPath_path hsp with ⟨mtu, ifs, segs, expiry, f, l, _, _, hex, henc, _, _, _, rfl⟩
  exact pathExpiry_spec hex (encodeOk_hops_ne henc)

/-! ## 4. sound: every offered path is a combination allowed by the SCION rules -/

/-- **Soundness, all inputs.**  Every offered path is realised by a combination that the declarative
rules of `Spec/Combine.lean` allow for the given segments, source and destination: one to three valid
pieces of given segments, uses `up?·core?·down?` (`Spec.usesOk`: a non-core segment travelled from
its leaf is an up use, towards its leaf a down use; strictly ordered up < core < down, so no valley —
false for the code before `fix: combinator must not offer valley paths`), consecutive pieces meeting at one AS or across a
peering link recorded on both sides, starting at `src` and ending at `dst`; the data-plane segments
(direction and peering flags, initial SegID, timestamp, hop fields in travel order) and the interface
list are exactly those the specification assigns to that combination; `src_ia` / `dst_ia` are the ASes
of its first / last interface. -/
theorem sound {src dst : Nat} {cores nonCores : List Seg} {out : List Path}
    (h : combine src dst cores nonCores = .ok out) {p : Path} (hp : p ∈ out) :
    ∃ c : List Spec.Piece, Spec.Valid (inputSegs cores nonCores) src dst c ∧
      Spec.realises c = (p.segs, p.ifs) ∧
      p.ifs.head?.map (·.1) = some p.src ∧ p.ifs.getLast?.map (·.1) = some p.dst := by
  rcases offered_from_candidate h hp with ⟨_, _, s, hs, hsp⟩
  have hr := solPath_realises hsp
  exact ⟨s.edges.map pieceOf, candidate_valid hs, hr.1, hr.2.2.1, hr.2.2.2⟩

/-! ## 5. metadata: MTU -/

theorem natFoldlMin_le (l : List Nat) : ∀ (a : Nat), l.foldl min a ≤ a ∧ ∀ t ∈ l, l.foldl min a ≤ t := by
  induction l with
  | nil => intro a; simp
  | cons b bs ih =>
    intro a
    simp only [List.foldl_cons]
    have h1 := (ih (min a b)).1
    have h2 := (ih (min a b)).2
    refine ⟨by omega, ?_⟩
    intro t ht
    rcases List.mem_cons.mp ht with ht | ht
    · subst ht; omega
    · exact h2 t ht

theorem natFoldlMin_mem (l : List Nat) : ∀ (a : Nat), l.foldl min a = a ∨ l.foldl min a ∈ l := by
  induction l with
  | nil => intro a; simp
  | cons b bs ih =>
    intro a
    simp only [List.foldl_cons]
    rcases ih (min a b) with h | h
    · by_cases hm : a ≤ b
      · left; rw [h]; omega
      · right; rw [h]; simp; left; omega
    · right; exact List.mem_cons_of_mem _ h

/-- **The MTU of an offered path is the minimum over the traversed ASes and links**, all inputs.
There is a candidate solution `s` realising `p` such that `p.mtu` is the minimum of `u16::MAX` and the
values `solMtuTerms s`: for every AS entry the solution traverses its AS-internal MTU (the `u32` value
capped at `u16::MAX`, which is also the initial value — so the cap never changes the minimum; before
`fix: combinator must not truncate an AS MTU above u16::MAX` the code truncated and this was false:
corpus/C04/030-as-mtu-above-u16.case), the MTU of its ingress link unless that link is not traversed (shortcut
cut) or absent (`0`), and the MTU of the peering link at a peering cut (`linkTerm`, `mtuTerms`).
So no traversed AS or link has a smaller MTU than announced, and the announced value is attained. -/
theorem mtu_is_min {src dst : Nat} {cores nonCores : List Seg} {out : List Path}
    (h : combine src dst cores nonCores = .ok out) {p : Path} (hp : p ∈ out) :
    ∃ s ∈ candidates (graphOf (inputSegs cores nonCores)) src dst, solPath s = .path p ∧
      p.mtu = (solMtuTerms s).foldl min MTU_INIT ∧
      p.mtu ≤ MTU_INIT ∧ (∀ t ∈ solMtuTerms s, p.mtu ≤ t) ∧
      (p.mtu = MTU_INIT ∨ p.mtu ∈ solMtuTerms s) := by
  rcases offered_from_candidate h hp with ⟨_, _, s, hs, hsp⟩
  have hr := (solPath_realises hsp).2.1
  refine ⟨s, hs, hsp, hr, ?_, ?_, ?_⟩
  · rw [hr]; exact (natFoldlMin_le _ _).1
  · rw [hr]; exact (natFoldlMin_le _ _).2
  · rw [hr]; exact natFoldlMin_mem _ _

/-- what `solMtuTerms` contains: the AS MTU of every traversed AS entry and every `linkTerm` -/
theorem mem_solMtuTerms {s : Sol} {t : Nat} :
    t ∈ solMtuTerms s ↔ ∃ e ∈ s.edges, ∃ x ∈ e.seg.seg.entries.zipIdx, e.edge.shortcut ≤ x.2 ∧
      (t = min x.1.mtu AS_MTU_SAT ∨ linkTerm e.edge.shortcut e.edge.peer x = some t) := by
  unfold solMtuTerms edgeMtuTerms mtuTerms
  simp only [List.mem_flatMap, List.mem_reverse, List.mem_append, List.mem_singleton, Option.mem_toList]
  constructor
  · rintro ⟨e, he, x, hx, ht⟩
    refine ⟨e, he, x, List.mem_of_mem_drop hx, (used_entry hx).2, ?_⟩
    rcases ht with ht | ht
    · exact Or.inr ht
    · exact Or.inl ht
  · rintro ⟨e, he, x, hx, hle, ht⟩
    refine ⟨e, he, x, ?_, ?_⟩
    · rcases List.getElem_of_mem hx with ⟨i, hi, hxi⟩
      have hi2 : x.2 = i := by rw [← hxi]; simp
      rw [List.mem_iff_getElem]
      refine ⟨i - e.edge.shortcut, by simp at hi ⊢; omega, ?_⟩
      rw [List.getElem_drop]
      have : e.edge.shortcut + (i - e.edge.shortcut) = i := by omega
      simp only [this]
      exact hxi
    · rcases ht with ht | ht
      · exact Or.inr ht
      · exact Or.inl ht

/-- the announced MTU never exceeds the (untruncated) MTU of a traversed AS -/
theorem mtu_le_as_mtu {src dst : Nat} {cores nonCores : List Seg} {out : List Path}
    (h : combine src dst cores nonCores = .ok out) {p : Path} (hp : p ∈ out) :
    ∃ s ∈ candidates (graphOf (inputSegs cores nonCores)) src dst, solPath s = .path p ∧
      ∀ e ∈ s.edges, ∀ x ∈ e.seg.seg.entries.zipIdx, e.edge.shortcut ≤ x.2 → p.mtu ≤ x.1.mtu := by
  rcases mtu_is_min h hp with ⟨s, hs, hsp, _, _, hle, _⟩
  refine ⟨s, hs, hsp, ?_⟩
  intro e he x hx hsc
  have := hle (min x.1.mtu AS_MTU_SAT) (mem_solMtuTerms.mpr ⟨e, he, x, hx, hsc, Or.inl rfl⟩)
  omega

/-- example of a well-formed segment `3 → 2 → 1` -/
def segWfEx : Seg :=
  ⟨100, 7, [⟨3, 1500, 0, ⟨63, 0, 31, 1⟩, []⟩, ⟨2, 1400, 1472, ⟨63, 21, 22, 2⟩, []⟩,
            ⟨1, 9000, 1300, ⟨10, 11, 0, 3⟩, []⟩], 5⟩

/-! ## 5b. metadata: interfaces and endpoints -/

/-- **The interface list names the links encoded in the hop fields, in travel order.**  If the first
AS entry of every given segment has no ingress interface (it originated the beacon), then for every
offered path the ids of `metadata.interfaces` are exactly what one reads off its data-plane segments
(`Spec.segIds`): per segment, in travel order, the non-zero ConsIngress / ConsEgress of every hop field
(swapped when travelling against construction direction), except the ConsIngress of the hop field at
the construction-start of a non-peering segment — that is where the path enters or leaves the segment
(source, destination, segment change, shortcut).  (That the AS of each listed interface is the AS the
hop field belongs to is part of `sound`: `Spec.Piece.consIfs` pairs every id with its AS entry.) -/
theorem interfaces_match_hops {src dst : Nat} {cores nonCores : List Seg} {out : List Path}
    (h : combine src dst cores nonCores = .ok out) {p : Path} (hp : p ∈ out)
    (hz : ∀ s ∈ inputSegs cores nonCores, FirstIngressZero s.seg) :
    p.ifs.map (·.2) = p.segs.flatMap Spec.segIds := by
  rcases sound h hp with ⟨c, hv, hr, _, _⟩
  unfold Spec.realises at hr
  injection hr with h1 h2
  rw [← h1, ← h2, List.map_flatMap, List.flatMap_map]
  apply flatMap_congr'
  intro pc hpc
  have := hv.pieces pc hpc
  exact piece_ifs_ids pc this.1.cut_lt (hz _ this.2)

/-- **Source and destination match the request** for well-formed segments (`SegWf`: at least two AS
entries, egress interface on all but the last, ingress interface on all but the first, peering hop
fields name their peering interface). -/
theorem endpoints {src dst : Nat} {cores nonCores : List Seg} {out : List Path}
    (h : combine src dst cores nonCores = .ok out) {p : Path} (hp : p ∈ out)
    (hwf : ∀ s ∈ inputSegs cores nonCores, SegWf s.seg) :
    p.src = src ∧ p.dst = dst := by
  rcases sound h hp with ⟨c, hv, hr, hs, hd⟩
  unfold Spec.realises at hr
  injection hr with h1 h2
  constructor
  · cases hc : c.head? with
    | none => have := hv.start; rw [hc] at this; cases this
    | some pc =>
      have hmem : pc ∈ c := List.mem_of_head? hc
      have hpv := hv.pieces pc hmem
      have hst := hv.start
      rw [hc] at hst
      rcases piece_ifs_head (hwf _ hpv.2) hpv.1 hst with ⟨i, hi, hia⟩
      have hne : pc.ifs ≠ [] := by intro e; rw [e] at hi; cases hi
      have := head?_flatMap_of_head Spec.Piece.ifs c pc hc hne
      rw [h2, hi] at this
      rw [this] at hs
      simp at hs
      rw [← hs, hia]
  · cases hc : c.getLast? with
    | none => have := hv.finish; rw [hc] at this; cases this
    | some pc =>
      have hmem : pc ∈ c := List.mem_of_getLast? hc
      have hpv := hv.pieces pc hmem
      have hfi := hv.finish
      rw [hc] at hfi
      rcases piece_ifs_last (hwf _ hpv.2) hpv.1 hfi with ⟨i, hi, hia⟩
      have hne : pc.ifs ≠ [] := by intro e; rw [e] at hi; cases hi
      have := getLast?_flatMap_of_last Spec.Piece.ifs c pc hc hne
      rw [h2, hi] at this
      rw [this] at hd
      simp at hd
      rw [← hd, hia]

/-- non-vacuity: `upSeg`-like segments satisfy the well-formedness hypotheses -/
example : SegWf segWfEx ∧ FirstIngressZero segWfEx := by
  refine ⟨⟨by decide, ?_, ?_, ?_⟩, ?_⟩
  · intro x hx; revert x; decide
  · intro x hx; revert x; decide
  · intro a ha q hq
    simp [segWfEx] at ha
    rcases ha with rfl | rfl | rfl <;> simp at hq
  · intro a ha; simp [segWfEx] at ha; subst ha; rfl

/-! ## 6. the result does not depend on the order or multiplicity of the given segments -/

/-- the sort key of `get_paths` separates the candidate solutions (no two different candidates compare
`Equal`).  This holds when different given segments have different `PathSegment::id()`s; it fails for a
segment given together with a re-beaconed copy (same hop interfaces, other timestamp / MACs), see
`order_dependent_with_equal_ids`. -/
def KeyInj (segs : List InSeg) (src dst : Nat) : Prop :=
  ∀ a ∈ candidates (graphOf segs) src dst, ∀ b ∈ candidates (graphOf segs) src dst, a.key = b.key → a = b

theorem mem_inputSegs {cores nonCores cores' nonCores' : List Seg}
    (hc : ∀ s, s ∈ cores ↔ s ∈ cores') (hn : ∀ s, s ∈ nonCores ↔ s ∈ nonCores') (x : InSeg) :
    x ∈ inputSegs cores nonCores ↔ x ∈ inputSegs cores' nonCores' := by
  simp only [inputSegs, List.mem_append, List.mem_map]
  constructor
  · rintro (⟨a, ha, rfl⟩ | ⟨a, ha, rfl⟩)
    · exact Or.inl ⟨a, (hc a).mp ha, rfl⟩
    · exact Or.inr ⟨a, (hn a).mp ha, rfl⟩
  · rintro (⟨a, ha, rfl⟩ | ⟨a, ha, rfl⟩)
    · exact Or.inl ⟨a, (hc a).mpr ha, rfl⟩
    · exact Or.inr ⟨a, (hn a).mpr ha, rfl⟩

/-- **Order independence.**  Two calls whose core lists contain the same segments and whose non-core
lists contain the same segments — in any order, with any duplications — return the same list of paths
(same order, same bytes, same metadata), provided the sort key separates the candidates. -/
theorem order_independent (src dst : Nat) (cores nonCores cores' nonCores' : List Seg)
    (hc : ∀ s, s ∈ cores ↔ s ∈ cores') (hn : ∀ s, s ∈ nonCores ↔ s ∈ nonCores')
    (hk : KeyInj (inputSegs cores nonCores) src dst) :
    combine src dst cores' nonCores' = combine src dst cores nonCores := by
  by_cases hne : src = dst
  · simp [combine, hne]
  · have hperm := candidates_perm (mem_inputSegs hc hn) src dst
    have hs : sortedCandidates src dst (inputSegs cores nonCores)
        = sortedCandidates src dst (inputSegs cores' nonCores') := sortSols_perm hperm hk
    rcases combine_eq src dst cores' nonCores' hne with ⟨ps', hps', hc'⟩
    rcases combine_eq src dst cores nonCores hne with ⟨ps, hps, hcc⟩
    rw [← hs, hps] at hps'
    injection hps' with hpe
    rw [hc', hcc, hpe]

/-- the hypothesis of `order_independent` cannot be dropped: a segment and a copy of it with the same
hop interfaces (hence the same segment id) but other MACs, given in the two possible orders -/
def segA : Seg :=
  ⟨100, 7, [⟨3, 1500, 0, ⟨63, 0, 31, 1⟩, []⟩, ⟨1, 9000, 1300, ⟨63, 11, 0, 3⟩, []⟩], 5⟩
def segA' : Seg :=
  ⟨100, 8, [⟨3, 1500, 0, ⟨63, 0, 31, 4294967296⟩, []⟩, ⟨1, 9000, 1300, ⟨63, 11, 0, 8589934592⟩, []⟩], 5⟩

theorem order_dependent_with_equal_ids :
    combine 1 3 [] [segA, segA'] ≠ combine 1 3 [] [segA', segA] := by
  have h1 : sortedCandidates 1 3 (inputSegs [] [segA, segA']) = candidates (graphOf (inputSegs [] [segA, segA'])) 1 3 :=
    sortSols_of_sortedB (by decide +kernel)
  have h2 : sortedCandidates 1 3 (inputSegs [] [segA', segA]) = candidates (graphOf (inputSegs [] [segA', segA])) 1 3 :=
    sortSols_of_sortedB (by decide +kernel)
  rw [combine_unfold _ _ _ _ (by decide), combine_unfold _ _ _ _ (by decide), h1, h2]
  decide +kernel

/-- non-vacuity of `order_independent`: distinct ids -/
example : KeyInj (inputSegs [] [segA, { segA' with id := 6 }]) 1 3 := by
  intro a ha b hb
  revert a b
  decide +kernel

/-! ## 7. cheapest first -/

/-- cost of a solution = number of inter-AS links it traverses (a peering link counts as one) -/
theorem candidates_sorted (src dst : Nat) (segs : List InSeg) :
    (sortedCandidates src dst segs).Pairwise (fun a b => a.cost ≤ b.cost) := by
  apply List.Pairwise.imp _ (sortSols_sorted _)
  intro a b h
  unfold solLe Sol.key lexLe at h
  simp only [Bool.or_eq_true, Bool.and_eq_true, decide_eq_true_eq] at h
  rcases h with h | ⟨h, _⟩ <;> omega

/-- **Cheapest first, all inputs.**  The offered list is ordered by the cost of the cheapest
combination that yields each interface sequence: there are candidate solutions `reps` (the first
representative of every offered interface sequence), in non-decreasing cost order (cost = number of
traversed inter-AS links, a peering link counting as one), loop-free, such that the i-th offered path
has the interface list of the i-th representative. -/
theorem sorted_by_cost {src dst : Nat} {cores nonCores : List Seg} {out : List Path}
    (h : combine src dst cores nonCores = .ok out) :
    ∃ reps : List Sol,
      reps.Sublist (sortedCandidates src dst (inputSegs cores nonCores)) ∧
      reps.Pairwise (fun a b => a.cost ≤ b.cost) ∧
      (∀ r ∈ reps, r ∈ candidates (graphOf (inputSegs cores nonCores)) src dst ∧ (offeredIfs r).isSome = true) ∧
      out.map Path.ifs = reps.filterMap offeredIfs := by
  by_cases hne : src = dst
  · simp [combine, hne] at h; subst h
    exact ⟨[], by simp, by simp, by simp, by simp⟩
  · rcases combine_eq src dst cores nonCores hne with ⟨ps, hps, hc⟩
    rw [hc] at h
    injection h with h
    subst h
    refine ⟨repsOf [] (sortedCandidates src dst (inputSegs cores nonCores)), repsOf_sublist _ _, ?_, ?_, ?_⟩
    · exact List.Pairwise.sublist (repsOf_sublist _ _) (candidates_sorted _ _ _)
    · intro r hr
      exact ⟨mem_sortedCandidates.mp ((repsOf_sublist _ _).subset hr), repsOf_offered _ _ r hr⟩
    · have := dedup_keys _ ps [] hps
      simp only [List.map_nil, List.nil_append] at this
      exact this

/-- when the cost of every candidate is the number of links of its path (`hlinks`; expected for
well-formed segments, where every traversed link contributes one egress and one ingress interface —
NOT derived from `SegWf` here, the example after the theorem shows it is satisfiable), the offered
paths are in non-decreasing order of hop count -/
theorem sorted_by_hop_count {src dst : Nat} {cores nonCores : List Seg} {out : List Path}
    (h : combine src dst cores nonCores = .ok out)
    (hlinks : ∀ s ∈ candidates (graphOf (inputSegs cores nonCores)) src dst, ∀ p, solPath s = .path p →
      p.ifs.length = 2 * s.cost) :
    (out.map fun p => p.ifs.length).Pairwise (· ≤ ·) := by
  rcases sorted_by_cost h with ⟨reps, hsub, hpw, hreps, hout⟩
  clear hsub
  have : out.map (fun p => p.ifs.length) = (reps.filterMap offeredIfs).map List.length := by
    rw [← hout, List.map_map]; rfl
  rw [this]
  clear this hout
  induction reps with
  | nil => simp
  | cons r rest ih =>
    have hr := hreps r List.mem_cons_self
    rw [List.pairwise_cons] at hpw
    have ih' := ih hpw.2 (fun x hx => hreps x (List.mem_cons_of_mem _ hx))
    cases hk : offeredIfs r with
    | none => simp [hk] at hr
    | some k =>
      simp only [List.filterMap_cons, hk, List.map_cons, List.pairwise_cons]
      refine ⟨?_, ih'⟩
      intro n hn
      rcases List.mem_map.mp hn with ⟨k', hk', rfl⟩
      rcases List.mem_filterMap.mp hk' with ⟨r', hr', hk''⟩
      have hcost := hpw.1 r' hr'
      have h1 : k.length = 2 * r.cost := by
        unfold offeredIfs at hk
        split at hk
        · rename_i p hp
          split at hk
          · cases hk
          · injection hk with hk; rw [← hk]; exact hlinks r hr.1 p hp
        · cases hk
      have h2 : k'.length = 2 * r'.cost := by
        unfold offeredIfs at hk''
        split at hk''
        · rename_i p hp
          split at hk''
          · cases hk''
          · injection hk'' with hk''; rw [← hk'']; exact hlinks r' (hreps r' (List.mem_cons_of_mem _ hr')).1 p hp
        · cases hk''
      omega

/-- non-vacuity of `hlinks`: it holds for the candidates of the well-formed segment `segWfEx` -/
example : ∀ s ∈ candidates (graphOf (inputSegs [] [segWfEx])) 1 3, ∀ p, solPath s = .path p →
    p.ifs.length = 2 * s.cost := by
  have h : ∀ s ∈ candidates (graphOf (inputSegs [] [segWfEx])) 1 3,
      (match solPath s with | .path p => decide (p.ifs.length = 2 * s.cost) | _ => true) = true := by
    decide +kernel
  intro s hs p hp
  have := h s hs
  rw [hp] at this
  simpa using this

/-! ## 8. complete (with respect to the multigraph) -/

/-- **Completeness of search, filter and de-duplication, all inputs.**  Take any chain `es` of edges of
the multigraph that starts at `AS src`, obeys the segment-kind rule at every step (`canStep`), reaches
`AS dst` with its last edge and not before (`Walk`).  Then it is a candidate solution, and if its path
exists (encodes) and is loop-free, a path with exactly its interface list is offered, expiring no
earlier.  No hypothesis on the segments; `complete` below lifts this to the declarative rules. -/
theorem complete_wrt_graph {src dst : Nat} {cores nonCores : List Seg} {out : List Path}
    (h : combine src dst cores nonCores = .ok out) (hne : src ≠ dst) (es : List GEdge)
    (hw : Walk (graphOf (inputSegs cores nonCores)) dst (Sol.new (.as src)) es) :
    es.foldl stepSol (Sol.new (.as src)) ∈ candidates (graphOf (inputSegs cores nonCores)) src dst ∧
    ∀ p, solPath (es.foldl stepSol (Sol.new (.as src))) = .path p → hasLoops p = false →
      ∃ q ∈ out, q.ifs = p.ifs ∧ p.expiry ≤ q.expiry := by
  have hc := candidates_complete _ src dst es hw
  exact ⟨hc, fun p hp hl => dedup_keeps_latest h _ hc p hp hl hne⟩

/-! ## 9. complete -/

/-- **Completeness.**  Let the given segments be such that the multigraph is faithful
(`GraphFaithful`: no `HashMap::insert` of the graph construction overwrites an edge — no AS and no
peering link twice in a segment —, the leaf AS of a segment occurs nowhere else in it, every segment
has at least two AS entries).  Then every combination `c` that the declarative rules allow
(`Spec.Valid`), whose intermediate joints are not the destination AS (the search stops at the first
arrival at `dst`; a combination passing through `dst` would visit it twice), is found: it is the piece
list of a candidate solution `t`; and if the model's `path()` returns a path `p` for it
(`solPath t = .path p`) that passes the loop filter, then a path with exactly the interface list of `c`
is offered, expiring no earlier than `p`.  This statement is conditional on the model's own `solPath`
and `hasLoops`; `complete_encodable` below replaces them by conditions on the combination
(`solPath_of_encodable`: `path()` returns a path iff the combination's segments pass `wire_valid` and
it names an interface).

Together with `sound`: for faithful segment sets the offered interface lists are exactly those of the
valid (valley-free) combinations that encode and pass the interface-count loop filter. -/
theorem complete {src dst : Nat} {cores nonCores : List Seg} {out : List Path}
    (h : combine src dst cores nonCores = .ok out) (hne : src ≠ dst)
    (hg : GraphFaithful (inputSegs cores nonCores))
    (c : List Spec.Piece) (hv : Spec.Valid (inputSegs cores nonCores) src dst c)
    (hmid : ∀ p ∈ c.dropLast, p.to? ≠ some (.as dst)) :
    ∃ t ∈ candidates (graphOf (inputSegs cores nonCores)) src dst, t.edges.map pieceOf = c ∧
      ∀ p, solPath t = .path p → hasLoops p = false →
        Spec.realises c = (p.segs, p.ifs) ∧ ∃ q ∈ out, q.ifs = (Spec.realises c).2 ∧ p.expiry ≤ q.expiry := by
  rcases combo_candidate hg hv hmid with ⟨t, ht, hc⟩
  refine ⟨t, ht, hc, ?_⟩
  intro p hp hl
  have hr := (solPath_realises hp).1
  rw [hc] at hr
  refine ⟨hr, ?_⟩
  rcases dedup_keeps_latest h t ht p hp hl hne with ⟨q, hq, hqi, hqe⟩
  exact ⟨q, hq, by rw [hr]; exact hqi, hqe⟩

/-- the loop filter `has_loops` as a predicate on an interface list -/
def IfsLoopFree (ifs : List (Nat × Nat)) : Prop :=
  ∀ i ∈ ifs, (ifs.filter fun j => decide (j.1 = i.1)).length ≤ LOOP_MAX_IFS

/-- **Completeness with an explicit sufficient condition.**  As `complete`, but the condition "its
path encodes and is loop-free" is stated on the combination itself, with decidable hypotheses that do
not mention the model's `solPath` / `hasLoops`: the data-plane segments the specification assigns to
`c` pass the rejection tests of `wire_valid` (`encodeOk`: every piece has 1..`MAX_SEGMENT_HOPS` hop
fields, at most `TOTAL_HOPS_LIMIT` in total, size within the header), `c` names at least one interface,
and no AS owns more than `LOOP_MAX_IFS` interfaces of its interface list.  Then a path with exactly the
interface list of `c` is offered.  (`IfsLoopFree` is still the interface-count predicate of the code,
not "no AS twice in the AS sequence".) -/
theorem complete_encodable {src dst : Nat} {cores nonCores : List Seg} {out : List Path}
    (h : combine src dst cores nonCores = .ok out) (hne : src ≠ dst)
    (hg : GraphFaithful (inputSegs cores nonCores))
    (c : List Spec.Piece) (hv : Spec.Valid (inputSegs cores nonCores) src dst c)
    (hmid : ∀ p ∈ c.dropLast, p.to? ≠ some (.as dst))
    (henc : encodeOk (c.map Spec.Piece.pseg) = true)
    (hifs : c.flatMap Spec.Piece.ifs ≠ [])
    (hloop : IfsLoopFree (c.flatMap Spec.Piece.ifs)) :
    ∃ q ∈ out, q.ifs = c.flatMap Spec.Piece.ifs := by
  rcases combo_candidate hg hv hmid with ⟨t, ht, hc⟩
  have hsol := candidates_solOk _ _ _ t ht
  have hne' : t.edges ≠ [] := by
    intro he
    rw [he] at hc
    simp at hc
    rw [hc] at hifs
    simp at hifs
  rw [← hc] at henc hifs
  rcases solPath_of_encodable hsol (fun e he => graphOf_edgeOk he) hne' henc hifs with ⟨p, hp, _, hpi⟩
  have hl : hasLoops p = false := by
    unfold hasLoops
    rw [List.any_eq_false]
    intro i hi
    rw [hpi, hc] at hi ⊢
    have := hloop i hi
    simp only [decide_eq_true_eq]
    omega
  rcases dedup_keeps_latest h t ht p hp hl hne with ⟨q, hq, hqi, _⟩
  exact ⟨q, hq, by rw [hqi, hpi, hc]⟩

/-- non-vacuity of the hypotheses of `complete_encodable`: the whole up use of `segWfEx` -/
example : encodeOk ([(⟨⟨false, segWfEx⟩, 0, false, none⟩ : Spec.Piece)].map Spec.Piece.pseg) = true ∧
    [(⟨⟨false, segWfEx⟩, 0, false, none⟩ : Spec.Piece)].flatMap Spec.Piece.ifs ≠ [] := by
  constructor <;> decide

example : IfsLoopFree ([(⟨⟨false, segWfEx⟩, 0, false, none⟩ : Spec.Piece)].flatMap Spec.Piece.ifs) := by
  unfold IfsLoopFree; decide

/-- non-vacuity: the segment set `[segWfEx]` is faithful -/
example : GraphFaithful (inputSegs [] [segWfEx]) := by
  refine ⟨?_, ?_, ?_⟩
  · intro s hs; simp [inputSegs] at hs; subst hs; unfold NoOverwrite; decide +kernel
  · intro s hs; simp [inputSegs] at hs; subst hs
    intro x hx hlt leaf hl
    simp [Seg.lastIa, segWfEx] at hl
    subst hl
    revert x; decide
  · intro s hs; simp [inputSegs] at hs; subst hs; decide

end ScionVerif.Comb
