import ScionVerif.Lemmas.Forward
/-!
# C01 — every offered path is forwardable end to end, and so is its reverse

What is proved here (for every MAC function `macf`, all per-AS keys, every segment length `n ≥ 2`, all
interface numberings, timestamps and expiry values, every topology that contains the beaconed links):

* `segment_forwardable`: a packet whose path is one beaconed segment used in construction direction
  (a down- or core-segment: SegID = the segment's initial β₀, pointer at the first hop field) is forwarded
  by every on-path AS – each verifying the hop-field MAC with its own key, the arrival interface, expiry
  and link state – and delivered in the last AS after exactly `n` AS steps;
* `segment_forwardable_reverse`: the same segment used against construction direction (an up-segment, or
  the reply to the packet above: SegID = β_{n-1}) is delivered in the first AS after `n` steps;
* `reply_is_reversal`: the packet the reply theorem starts from is exactly the reversal
  (`StandardPath::try_reverse`) of the packet as it was delivered by `segment_forwardable`.

The router in these theorems is `Model/SimRouter.lean`, the model of the code that is tied to the real
simulator by `hx_router` on every run; `Theorems/C13.lean` relates it to the forwarding rules.

NOT proved (exercised by `hx_router --prop C01` on every offered path and its reverse, over pocketscion's
own and random topologies): paths of 2–3 segments (crossovers, shortcuts, on-path), and that the SDK's
combinator produces exactly such SegID initialisations; peering paths are a known finding (refused).
The second sentence of the property (a joinable pair is offered at least one path) belongs to the
combinator's completeness (C04) and is checked by the harness against a valley-free reachability search.
-/
namespace ScionVerif.Router
open ScionVerif.Generated.Router

/-- `StandardPath::try_reverse` on the field-level model (all segments reversed, CONS_DIR toggled,
    pointers mirrored) -/
def reversePath (p : Path) : Path :=
  let lens := [p.seg0, p.seg1, p.seg2].filter (· != 0)
  let r := lens.reverse
  { currInf := p.infos.length - 1 - p.currInf, currHf := p.hops.length - 1 - p.currHf,
    seg0 := r.getD 0 0, seg1 := r.getD 1 0, seg2 := r.getD 2 0,
    infos := (p.infos.map (fun i => { i with consDir := !i.consDir })).reverse,
    hops := p.hops.reverse }

/-- **A beaconed segment is forwardable end to end in construction direction.** -/
theorem segment_forwardable (macf : MacF) (t : Topo) (ts beta0 now : Nat) (es : List Entry)
    (hn : 2 ≤ es.length) (hc : ChainOK t es) (htm : Timely macf ts beta0 now es)
    (first last : Entry) (hf : es[0]? = some first) (hl : es[es.length - 1]? = some last) :
    walk macf t last.ia now false (es.length + 2) first.ia 0 (fwdPath macf ts beta0 es 0) 0 =
      some (.delivered last.ia, fwdPath macf ts beta0 es (es.length - 1), es.length) := by
  have h := fwd_walk macf t ts beta0 now es last.ia hn hc htm
    (fun e he => by rw [hl] at he; cases he; rfl)
    (es.length - 1) 0 first 0 0 (es.length + 2) (by omega) hf (Or.inl rfl) (by omega)
  have harith : 0 + (es.length - 1) + 1 = es.length := by omega
  rw [h, harith]

/-- **… and against construction direction** (up-segment / reply). -/
theorem segment_forwardable_reverse (macf : MacF) (t : Topo) (ts beta0 now : Nat) (es : List Entry)
    (hn : 2 ≤ es.length) (hc : ChainOK t es) (htm : Timely macf ts beta0 now es)
    (first last : Entry) (hf : es[0]? = some first) (hl : es[es.length - 1]? = some last) :
    walk macf t first.ia now false (es.length + 2) last.ia 0
        (revPath macf ts beta0 es 0 (betaAt macf ts beta0 es (es.length - 1))) 0 =
      some (.delivered first.ia, revPath macf ts beta0 es (es.length - 1) beta0, es.length) := by
  have h := rev_walk macf t ts beta0 now es first.ia hn hc htm
    (fun e he => by rw [hf] at he; cases he; rfl)
    (es.length - 1) 0 last (betaAt macf ts beta0 es (es.length - 1)) 0 0 (es.length + 2) (by omega)
    (by simpa using hl) (Or.inl rfl) (by simp) (by omega)
  have harith : 0 + (es.length - 1) + 1 = es.length := by omega
  rw [h, harith]

/-- the reply starts from the reversal of the delivered packet -/
theorem reply_is_reversal (macf : MacF) (ts beta0 : Nat) (es : List Entry) (hn : 2 ≤ es.length) :
    reversePath (fwdPath macf ts beta0 es (es.length - 1)) =
      revPath macf ts beta0 es 0 (betaAt macf ts beta0 es (es.length - 1)) := by
  have h0 : (es.length != 0) = true := bne_iff_ne.mpr (by omega)
  have h1 : es.length - 1 - (es.length - 1) = 0 := by omega
  simp [reversePath, fwdPath, revPath, mkHops_length, h0, h1]

/-! ## non-vacuity: a concrete 3-AS chain satisfies `ChainOK` and `Timely` -/
example :
    let mac : MacF := fun k b t e ci ce => (k.length + b + t + e + ci + ce) % 2 ^ 48
    let es : List Entry := [⟨1, [1], 0, 5, 63⟩, ⟨2, [2], 7, 9, 63⟩, ⟨3, [3], 4, 0, 63⟩]
    let t : Topo := { ases := [⟨1, true, false, [1]⟩, ⟨2, false, false, [2]⟩, ⟨3, false, false, [3]⟩],
                      links := [⟨1, 5, .parent, 2, 7, true⟩, ⟨2, 7, .child, 1, 5, true⟩,
                                ⟨2, 9, .parent, 3, 4, true⟩, ⟨3, 4, .child, 2, 9, true⟩] }
    (walk mac t 3 150 false 5 1 0 (fwdPath mac 100 9 es 0) 0).map (fun r => (r.1, r.2.2)) = some (.delivered 3, 3) ∧
    (walk mac t 1 150 false 5 3 0 (reversePath (fwdPath mac 100 9 es 2)) 0).map (fun r => (r.1, r.2.2)) = some (.delivered 1, 3) := by
  decide +kernel

end ScionVerif.Router
