import ScionVerif.Lemmas.ForwardMulti
/-!
# C01 — every offered path is forwardable end to end, and so is its reverse

What is proved here (for every MAC function `macf`, all per-AS keys, every segment length `n ≥ 2`, all
interface numberings, timestamps and expiry values, every topology that contains the beaconed links):

* `segment_forwardable`: a packet whose path is one beaconed segment used in construction direction
  (a down- or core-segment: SegID = the segment's initial β₀, pointer at the first hop field) is forwarded
  by every on-path AS – each verifying the hop-field MAC with its own key, the arrival interface, expiry
  and link state – and delivered in the last AS after exactly `n` AS steps;
* `segment_forwardable_reverse`: the same segment used against construction direction (an up-segment, or
  the reply to the packet above: SegID = β_{n-1}) is delivered in the first AS after `n` steps;
* `reply_is_reversal`: the packet the reply theorem starts from is exactly the reversal
  (`StandardPath::try_reverse`) of the packet as it was delivered by `segment_forwardable`.

The router in these theorems is `Model/SimRouter.lean`, the model of the code that is tied to the real
simulator by `hx_router` on every run; `Theorems/C13.lean` relates it to the forwarding rules.

* `path2_walk`, `path3_walk`: a path made of two / three beaconed segments – each used in either direction,
  each of any length ≥ 2, SegIDs initialised to the β of the first hop field in travel order – joined at
  crossover ASes that own both adjacent hop fields (same AS, same key) and for which the pair of link types
  is a legal segment change (`segChangeValid`, the table extracted from the Rust source), is forwarded by
  every on-path AS and delivered in the last AS after exactly (number of hop fields − number of crossovers)
  AS steps.  This covers up–core–down, up–down shortcuts and common-parent paths, on-path destinations,
  up–core and core–down, and – since a reversed path is again of this shape – their replies.

NOT proved (exercised by `hx_router --prop C01` on every offered path and its reverse, over pocketscion's
own and random topologies): that the SDK's combinator (`combine`) produces exactly paths of this shape with
these SegID initialisations (that is C04's subject; checked end to end here); peering paths are a known
finding (refused).
The second sentence of the property (a joinable pair is offered at least one path) belongs to the
combinator's completeness (C04) and is checked by the harness against a valley-free reachability search.
-/
namespace ScionVerif.Router
open ScionVerif.Generated.Router

/-- `StandardPath::try_reverse` on the field-level model (all segments reversed, CONS_DIR toggled,
    pointers mirrored) -/
def reversePath (p : Path) : Path :=
  let lens := [p.seg0, p.seg1, p.seg2].filter (· != 0)
  let r := lens.reverse
  { currInf := p.infos.length - 1 - p.currInf, currHf := p.hops.length - 1 - p.currHf,
    seg0 := r.getD 0 0, seg1 := r.getD 1 0, seg2 := r.getD 2 0,
    infos := (p.infos.map (fun i => { i with consDir := !i.consDir })).reverse,
    hops := p.hops.reverse }

/-- **A beaconed segment is forwardable end to end in construction direction.** -/
theorem segment_forwardable (macf : MacF) (t : Topo) (ts beta0 now : Nat) (es : List Entry)
    (hn : 2 ≤ es.length) (hmax : es.length ≤ MAX_TOTAL_HOPS + 1) (hc : ChainOK t es) (htm : Timely macf ts beta0 now es)
    (first last : Entry) (hf : es[0]? = some first) (hl : es[es.length - 1]? = some last) :
    walk macf t last.ia now false (es.length + 2) first.ia 0 (fwdPath macf ts beta0 es 0) 0 =
      some (.delivered last.ia, fwdPath macf ts beta0 es (es.length - 1), es.length) := by
  have h := fwd_walk macf t ts beta0 now es last.ia hn hmax hc htm
    (fun e he => by rw [hl] at he; cases he; rfl)
    (es.length - 1) 0 first 0 0 (es.length + 2) (by omega) hf (Or.inl rfl) (by omega)
  have harith : 0 + (es.length - 1) + 1 = es.length := by omega
  rw [h, harith]

/-- **… and against construction direction** (up-segment / reply). -/
theorem segment_forwardable_reverse (macf : MacF) (t : Topo) (ts beta0 now : Nat) (es : List Entry)
    (hn : 2 ≤ es.length) (hmax : es.length ≤ MAX_TOTAL_HOPS + 1) (hc : ChainOK t es) (htm : Timely macf ts beta0 now es)
    (first last : Entry) (hf : es[0]? = some first) (hl : es[es.length - 1]? = some last) :
    walk macf t first.ia now false (es.length + 2) last.ia 0
        (revPath macf ts beta0 es 0 (betaAt macf ts beta0 es (es.length - 1))) 0 =
      some (.delivered first.ia, revPath macf ts beta0 es (es.length - 1) beta0, es.length) := by
  have h := rev_walk macf t ts beta0 now es first.ia hn hmax hc htm
    (fun e he => by rw [hf] at he; cases he; rfl)
    (es.length - 1) 0 last (betaAt macf ts beta0 es (es.length - 1)) 0 0 (es.length + 2) (by omega)
    (by simpa using hl) (Or.inl rfl) (by simp) (by omega)
  have harith : 0 + (es.length - 1) + 1 = es.length := by omega
  rw [h, harith]

/-- the reply starts from the reversal of the delivered packet -/
theorem reply_is_reversal (macf : MacF) (ts beta0 : Nat) (es : List Entry) (hn : 2 ≤ es.length) :
    reversePath (fwdPath macf ts beta0 es (es.length - 1)) =
      revPath macf ts beta0 es 0 (betaAt macf ts beta0 es (es.length - 1)) := by
  have h0 : (es.length != 0) = true := bne_iff_ne.mpr (by omega)
  have h1 : es.length - 1 - (es.length - 1) = 0 := by omega
  simp [reversePath, fwdPath, revPath, mkHops_length, h0, h1]

/-! ## paths of two and three segments (crossovers at any AS whose link types allow the segment change) -/

/-- **A path of two beaconed segments joined at one crossover AS is forwarded end to end**
    (up – down incl. shortcuts and on-path destinations, up – core, core – down). -/
theorem path2_walk (macf : MacF) (t : Topo) (now : Nat) (a b : Seg)
    (ha : 2 ≤ a.es.length) (hb : 2 ≤ b.es.length)
    (hmax : a.es.length + b.es.length ≤ MAX_TOTAL_HOPS + 1)
    (ta : TravelOK t a) (tb : TravelOK t b) (ma : a.Timely macf now) (mb : b.Timely macf now)
    (jab : Junction t a b)
    (src dst : Entry) (hsrc : a.entry 0 = some src) (hdst : b.entry (b.es.length - 1) = some dst) :
    ∃ q, walk macf t dst.ia now false (a.es.length + b.es.length + 2) src.ia 0
        ((frame2 macf a b).pkt (infos2 macf a b) 0 0) 0 =
      some (.delivered dst.ia, q, a.es.length + b.es.length - 1) := by
  have hfuel : a.es.length + b.es.length + 2 = (1 + (b.es.length - 2) + (1 + 3)) + (a.es.length - 1) := by omega
  have hsteps : a.es.length + b.es.length - 1 = 0 + (a.es.length - 1) + 1 + (b.es.length - 2) + 1 := by omega
  let F := frame2 macf a b
  have hmF : F.L0 + F.L1 + F.L2 ≤ MAX_TOTAL_HOPS + 1 := by simpa [F, frame2] using hmax
  have oa := occ2_a macf a b ha
  have ob := occ2_b macf a b hb
  obtain ⟨ea, e0b, la, lb, hea, he0b, hia, hk, hla, hlb, hok⟩ := jab
  obtain ⟨e1, I1, if1, h1e, h1a, h1I, h1o, h1w⟩ :=
    seg_travel macf t now dst.ia F a 0 0 hmF oa ta ma (a.es.length - 1) 0 src (infos2 macf a b) 0 0
      (1 + (b.es.length - 2) + (1 + 3)) (by omega) hsrc ⟨fun _ => rfl, fun h => by omega⟩
      (by simp [infos2, Seg.arrSid])
  rw [hea] at h1e; cases h1e
  obtain ⟨e2, I2, if2, h2e, h2a, h2I, h2o, h2w⟩ :=
    seg_cross macf t now dst.ia F a b 0 0 hmF oa ob ta tb ma mb ea e0b I1 if1 (0 + (a.es.length - 1))
      ((b.es.length - 2) + (1 + 3)) la lb hea he0b hia hk hla hlb hok h1a h1I
      (by rw [h1o 1 (by omega)]; simp [infos2])
  obtain ⟨e3, I3, if3, h3e, h3a, h3I, h3o, h3w⟩ :=
    seg_travel macf t now dst.ia F b (0 + 1) (0 + a.es.length) hmF ob tb mb (b.es.length - 2) 1 e2 I2 if2
      (0 + (a.es.length - 1) + 1) (1 + 3) (by omega) h2e h2a h2I
  rw [hdst] at h3e; cases h3e
  obtain ⟨q, h6w⟩ := seg_deliver macf t now F b (0 + 1) (0 + a.es.length) ob tb mb
    (by simp [F, frame2]) dst I3 if3 (0 + (a.es.length - 1) + 1 + (b.es.length - 2)) 3 hdst h3a h3I
  refine ⟨q, ?_⟩
  have e12 : 1 + (b.es.length - 2) + (1 + 3) = (b.es.length - 2) + (1 + 3) + 1 := by omega
  have e23 : (b.es.length - 2) + (1 + 3) = (1 + 3) + (b.es.length - 2) := by omega
  have e56 : 1 + 3 = 3 + 1 := rfl
  rw [hfuel, hsteps, show (F.pkt (infos2 macf a b) 0 0) = F.pkt (infos2 macf a b) 0 (0 + 0) from rfl, h1w, e12, h2w,
    e23, h3w, e56, h6w]


/-- **A path of three beaconed segments joined at two crossover ASes is forwarded end to end.**
    (`a`, `b`, `c` in travel order, each in either direction; e.g. up – core – down.) -/
theorem path3_walk (macf : MacF) (t : Topo) (now : Nat) (a b c : Seg)
    (ha : 2 ≤ a.es.length) (hb : 2 ≤ b.es.length) (hc : 2 ≤ c.es.length)
    (hmax : a.es.length + b.es.length + c.es.length ≤ MAX_TOTAL_HOPS + 1)
    (ta : TravelOK t a) (tb : TravelOK t b) (tc : TravelOK t c)
    (ma : a.Timely macf now) (mb : b.Timely macf now) (mc : c.Timely macf now)
    (jab : Junction t a b) (jbc : Junction t b c)
    (src dst : Entry) (hsrc : a.entry 0 = some src) (hdst : c.entry (c.es.length - 1) = some dst) :
    ∃ q, walk macf t dst.ia now false (a.es.length + b.es.length + c.es.length + 2) src.ia 0
        ((frame3 macf a b c).pkt (infos3 macf a b c) 0 0) 0 =
      some (.delivered dst.ia, q, a.es.length + b.es.length + c.es.length - 2) := by
  let F := frame3 macf a b c
  have hmF : F.L0 + F.L1 + F.L2 ≤ MAX_TOTAL_HOPS + 1 := by simpa [F, frame3] using hmax
  have oa := occ3_a macf a b c ha
  have ob := occ3_b macf a b c hb
  have oc := occ3_c macf a b c hc
  obtain ⟨ea, e0b, la, lb, hea, he0b, hia, hk, hla, hlb, hok⟩ := jab
  obtain ⟨eb, e0c, la', lb', heb, he0c, hia', hk', hla', hlb', hok'⟩ := jbc
  -- 1. along segment a
  obtain ⟨e1, I1, if1, h1e, h1a, h1I, h1o, h1w⟩ :=
    seg_travel macf t now dst.ia F a 0 0 hmF oa ta ma (a.es.length - 1) 0 src (infos3 macf a b c) 0 0
      (1 + (b.es.length - 2) + (1 + (c.es.length - 2) + (1 + 4))) (by omega) hsrc ⟨fun _ => rfl, fun h => by omega⟩
      (by simp [infos3, Seg.arrSid])
  rw [hea] at h1e; cases h1e
  -- 2. crossover a -> b
  obtain ⟨e2, I2, if2, h2e, h2a, h2I, h2o, h2w⟩ :=
    seg_cross macf t now dst.ia F a b 0 0 hmF oa ob ta tb ma mb ea e0b I1 if1 (0 + (a.es.length - 1))
      ((b.es.length - 2) + (1 + (c.es.length - 2) + (1 + 4))) la lb hea he0b hia hk hla hlb hok h1a h1I
      (by rw [h1o 1 (by omega)]; simp [infos3])
  -- 3. along segment b
  obtain ⟨e3, I3, if3, h3e, h3a, h3I, h3o, h3w⟩ :=
    seg_travel macf t now dst.ia F b (0 + 1) (0 + a.es.length) hmF ob tb mb (b.es.length - 2) 1 e2 I2 if2
      (0 + (a.es.length - 1) + 1) (1 + (c.es.length - 2) + (1 + 4)) (by omega) h2e h2a h2I
  rw [heb] at h3e; cases h3e
  -- 4. crossover b -> c
  have hI3c : I3[0 + 1 + 1]? = some (c.info (c.beta macf 0)) := by
    rw [h3o 2 (by omega), h2o 2 (by omega) (by omega), h1o 2 (by omega)]; simp [infos3]
  obtain ⟨e4, I4, if4, h4e, h4a, h4I, h4o, h4w⟩ :=
    seg_cross macf t now dst.ia F b c (0 + 1) (0 + a.es.length) hmF ob oc tb tc mb mc eb e0c I3 if3
      (0 + (a.es.length - 1) + 1 + (b.es.length - 2)) ((c.es.length - 2) + (1 + 4)) la' lb' heb he0c hia' hk' hla' hlb' hok'
      h3a h3I hI3c
  -- 5. along segment c
  obtain ⟨e5, I5, if5, h5e, h5a, h5I, h5o, h5w⟩ :=
    seg_travel macf t now dst.ia F c (0 + 1 + 1) (0 + a.es.length + b.es.length) hmF oc tc mc (c.es.length - 2) 1 e4 I4 if4
      (0 + (a.es.length - 1) + 1 + (b.es.length - 2) + 1) (1 + 4) (by omega) h4e h4a h4I
  rw [hdst] at h5e; cases h5e
  -- 6. delivery
  obtain ⟨q, h6w⟩ := seg_deliver macf t now F c (0 + 1 + 1) (0 + a.es.length + b.es.length) oc tc mc
    (by simp [F, frame3]) dst I5 if5 (0 + (a.es.length - 1) + 1 + (b.es.length - 2) + 1 + (c.es.length - 2)) 4 hdst h5a h5I
  refine ⟨q, ?_⟩
  have hfuel : a.es.length + b.es.length + c.es.length + 2 =
      (1 + (b.es.length - 2) + (1 + (c.es.length - 2) + (1 + 4))) + (a.es.length - 1) := by omega
  have hsteps : a.es.length + b.es.length + c.es.length - 2 =
      0 + (a.es.length - 1) + 1 + (b.es.length - 2) + 1 + (c.es.length - 2) + 1 := by omega
  rw [hfuel, hsteps]
  have e12 : 1 + (b.es.length - 2) + (1 + (c.es.length - 2) + (1 + 4)) = (b.es.length - 2) + (1 + (c.es.length - 2) + (1 + 4)) + 1 := by omega
  have e34 : 1 + (c.es.length - 2) + (1 + 4) = (c.es.length - 2) + (1 + 4) + 1 := by omega
  have e56 : 1 + 4 = 4 + 1 := rfl
  have o1 : 0 + 0 = 0 := rfl
  rw [show (F.pkt (infos3 macf a b c) 0 0) = F.pkt (infos3 macf a b c) 0 (0 + 0) from rfl, h1w, e12, h2w]
  have e23 : (b.es.length - 2) + (1 + (c.es.length - 2) + (1 + 4)) = (1 + (c.es.length - 2) + (1 + 4)) + (b.es.length - 2) := by omega
  rw [e23, h3w, e34, h4w]
  have e45 : (c.es.length - 2) + (1 + 4) = (1 + 4) + (c.es.length - 2) := by omega
  rw [e45, h5w, e56, h6w]


/-! ## non-vacuity: a concrete 3-AS chain satisfies `ChainOK` and `Timely` -/
example :
    let mac : MacF := fun k b t e ci ce => (k.length + b + t + e + ci + ce) % 2 ^ 48
    let es : List Entry := [⟨1, [1], 0, 5, 63⟩, ⟨2, [2], 7, 9, 63⟩, ⟨3, [3], 4, 0, 63⟩]
    let t : Topo := { ases := [⟨1, true, false, [1]⟩, ⟨2, false, false, [2]⟩, ⟨3, false, false, [3]⟩],
                      links := [⟨1, 5, .parent, 2, 7, true⟩, ⟨2, 7, .child, 1, 5, true⟩,
                                ⟨2, 9, .parent, 3, 4, true⟩, ⟨3, 4, .child, 2, 9, true⟩] }
    (walk mac t 3 150 false 5 1 0 (fwdPath mac 100 9 es 0) 0).map (fun r => (r.1, r.2.2)) = some (.delivered 3, 3) ∧
    (walk mac t 1 150 false 5 3 0 (reversePath (fwdPath mac 100 9 es 2)) 0).map (fun r => (r.1, r.2.2)) = some (.delivered 1, 3) := by
  decide +kernel

/-! ## non-vacuity of `path2_walk`: up segment 2 → 1 (against construction direction) joined at the core AS 1
   with the down segment 1 → 3; the packet built by `frame2`/`infos2` is delivered in AS 3 after 3 AS steps -/
example :
    let mac : MacF := fun k b t e ci ce => (k.length + b + t + e + ci + ce) % 2 ^ 48
    let a : Seg := ⟨[⟨1, [1], 0, 5, 63⟩, ⟨2, [2], 7, 0, 63⟩], 100, 9, false⟩
    let b : Seg := ⟨[⟨1, [1], 0, 6, 63⟩, ⟨3, [3], 8, 0, 63⟩], 120, 4, true⟩
    let t : Topo := { ases := [⟨1, true, false, [1]⟩, ⟨2, false, false, [2]⟩, ⟨3, false, false, [3]⟩],
                      links := [⟨1, 5, .parent, 2, 7, true⟩, ⟨2, 7, .child, 1, 5, true⟩,
                                ⟨1, 6, .parent, 3, 8, true⟩, ⟨3, 8, .child, 1, 6, true⟩] }
    (walk mac t 3 150 false 6 2 0 ((frame2 mac a b).pkt (infos2 mac a b) 0 0) 0).map (fun r => (r.1, r.2.2)) =
      some (.delivered 3, 3) := by
  decide +kernel

end ScionVerif.Router
