import ScionVerif.Lemmas.ForwardMulti
/-!
# C01 — every offered path is forwardable end to end, and so is its reverse

What is proved here (for every MAC function `macf`, all per-AS keys, every segment length `n ≥ 2`, all
interface numberings, timestamps and expiry values, every topology that contains the beaconed links):

* `segment_forwardable`: a packet whose path is one beaconed segment used in construction direction
  (a down- or core-segment: SegID = the segment's initial β₀, pointer at the first hop field) is forwarded
  by every on-path AS – each verifying the hop-field MAC with its own key, the arrival interface, expiry
  and link state – and delivered in the last AS after exactly `n` AS steps;
* `segment_forwardable_reverse`: the same segment used against construction direction (an up-segment, or
  the reply to the packet above: SegID = β_{n-1}) is delivered in the first AS after `n` steps;
* `reply_is_reversal`: the packet the reply theorem starts from is exactly the reversal
  (`StandardPath::try_reverse`) of the packet as it was delivered by `segment_forwardable`.

The router in these theorems is `Model/SimRouter.lean`, the model of the code that is tied to the real
simulator by `hx_router` on every run; `Theorems/C13.lean` relates it to the forwarding rules.

* `path2_walk`, `path3_walk`: a path made of two / three beaconed segments – each used in either direction,
  each of any length ≥ 2, SegIDs initialised to the β of the first hop field in travel order – joined at
  crossover ASes that own both adjacent hop fields (same AS, same key) and for which the pair of link types
  is a legal segment change (`segChangeValid`, the table extracted from the Rust source), is forwarded by
  every on-path AS and delivered in the last AS after exactly (number of hop fields − number of crossovers)
  AS steps.  This covers up–core–down, up–down shortcuts and common-parent paths, on-path destinations,
  up–core and core–down, and – since a reversed path is again of this shape – their replies.

NOT proved (exercised by `hx_router --prop C01` on every offered path and its reverse, over pocketscion's
own and random topologies): that the SDK's combinator (`combine`) produces exactly paths of this shape with
these SegID initialisations (that is C04's subject; checked end to end here); peering paths are a known
finding (refused).
The second sentence of the property (a joinable pair is offered at least one path) belongs to the
combinator's completeness (C04) and is checked by the harness against a valley-free reachability search.
-/
namespace ScionVerif.Router
open ScionVerif.Generated.Router

/-- **A beaconed segment is forwardable end to end in construction direction.** -/
theorem segment_forwardable (macf : MacF) (t : Topo) (ts beta0 now : Nat) (es : List Entry)
    (hn : 2 ≤ es.length) (hmax : es.length ≤ MAX_TOTAL_HOPS + 1) (hc : ChainOK t es) (htm : Timely macf ts beta0 now es)
    (first last : Entry) (hf : es[0]? = some first) (hl : es[es.length - 1]? = some last) :
    walk macf t last.ia now false (es.length + 2) first.ia 0 (fwdPath macf ts beta0 es 0) 0 =
      some (.delivered last.ia, fwdPath macf ts beta0 es (es.length - 1), es.length) := by
  have h := fwd_walk macf t ts beta0 now es last.ia hn hmax hc htm
    (fun e he => by rw [hl] at he; cases he; rfl)
    (es.length - 1) 0 first 0 0 (es.length + 2) (by omega) hf (Or.inl rfl) (by omega)
  have harith : 0 + (es.length - 1) + 1 = es.length := by omega
  rw [h, harith]

/-- **… and against construction direction** (up-segment / reply). -/
theorem segment_forwardable_reverse (macf : MacF) (t : Topo) (ts beta0 now : Nat) (es : List Entry)
    (hn : 2 ≤ es.length) (hmax : es.length ≤ MAX_TOTAL_HOPS + 1) (hc : ChainOK t es) (htm : Timely macf ts beta0 now es)
    (first last : Entry) (hf : es[0]? = some first) (hl : es[es.length - 1]? = some last) :
    walk macf t first.ia now false (es.length + 2) last.ia 0
        (revPath macf ts beta0 es 0 (betaAt macf ts beta0 es (es.length - 1))) 0 =
      some (.delivered first.ia, revPath macf ts beta0 es (es.length - 1) beta0, es.length) := by
  have h := rev_walk macf t ts beta0 now es first.ia hn hmax hc htm
    (fun e he => by rw [hf] at he; cases he; rfl)
    (es.length - 1) 0 last (betaAt macf ts beta0 es (es.length - 1)) 0 0 (es.length + 2) (by omega)
    (by simpa using hl) (Or.inl rfl) (by simp) (by omega)
  have harith : 0 + (es.length - 1) + 1 = es.length := by omega
  rw [h, harith]

/-- the reply starts from the reversal of the delivered packet -/
theorem reply_is_reversal (macf : MacF) (ts beta0 : Nat) (es : List Entry) (hn : 2 ≤ es.length) :
    reversePath (fwdPath macf ts beta0 es (es.length - 1)) =
      revPath macf ts beta0 es 0 (betaAt macf ts beta0 es (es.length - 1)) := by
  have h0 : (es.length != 0) = true := bne_iff_ne.mpr (by omega)
  have h1 : es.length - 1 - (es.length - 1) = 0 := by omega
  simp [reversePath, fwdPath, revPath, mkHops_length, h0, h1]

/-! ## paths of two and three segments (crossovers at any AS whose link types allow the segment change) -/

theorem list2_eq {α} (l : List α) (x y : α) (hl : l.length = 2) (h0 : l[0]? = some x) (h1 : l[1]? = some y) :
    l = [x, y] := by
  match l, hl with
  | [a, b], _ => simp at h0 h1; rw [h0, h1]

theorem list3_eq {α} (l : List α) (x y z : α) (hl : l.length = 3) (h0 : l[0]? = some x) (h1 : l[1]? = some y)
    (h2 : l[2]? = some z) : l = [x, y, z] := by
  match l, hl with
  | [a, b, c], _ => simp at h0 h1 h2; rw [h0, h1, h2]

/-- the info fields of the packet as delivered: every segment's SegID stands at the β of its last hop field in
    travel order -/
def infosEnd2 (macf : MacF) (a b : Seg) : List Info :=
  [a.info (a.beta macf (a.es.length - 1)), b.info (b.beta macf (b.es.length - 1))]
def infosEnd3 (macf : MacF) (a b c : Seg) : List Info :=
  [a.info (a.beta macf (a.es.length - 1)), b.info (b.beta macf (b.es.length - 1)), c.info (c.beta macf (c.es.length - 1))]

/-- **A path of two beaconed segments joined at one crossover AS is forwarded end to end**
    (up – down incl. shortcuts and on-path destinations, up – core, core – down), and the packet arrives with the
    pointers on the last hop field and every SegID at the β of its segment's last hop field (`infosEnd2`). -/
theorem path2_walk (macf : MacF) (t : Topo) (now : Nat) (a b : Seg)
    (ha : 2 ≤ a.es.length) (hb : 2 ≤ b.es.length)
    (hmax : a.es.length + b.es.length ≤ MAX_TOTAL_HOPS + 1)
    (ta : TravelOK t a) (tb : TravelOK t b) (ma : a.Timely macf now) (mb : b.Timely macf now)
    (jab : Junction t a b)
    (src dst : Entry) (hsrc : a.entry 0 = some src) (hdst : b.entry (b.es.length - 1) = some dst) :
    walk macf t dst.ia now false (a.es.length + b.es.length + 2) src.ia 0
        ((frame2 macf a b).pkt (infos2 macf a b) 0 0) 0 =
      some (.delivered dst.ia, (frame2 macf a b).pkt (infosEnd2 macf a b) 1 (a.es.length + b.es.length - 1),
            a.es.length + b.es.length - 1) := by
  have hfuel : a.es.length + b.es.length + 2 = (1 + (b.es.length - 2) + (1 + 3)) + (a.es.length - 1) := by omega
  have hsteps : a.es.length + b.es.length - 1 = 0 + (a.es.length - 1) + 1 + (b.es.length - 2) + 1 := by omega
  let F := frame2 macf a b
  have hmF : F.L0 + F.L1 + F.L2 ≤ MAX_TOTAL_HOPS + 1 := by simpa [F, frame2] using hmax
  have oa := occ2_a macf a b ha
  have ob := occ2_b macf a b hb
  obtain ⟨ea, e0b, la, lb, hea, he0b, hia, hk, hla, hlb, hok⟩ := jab
  have hst1 :=
    seg_travel macf t now dst.ia F a 0 0 hmF oa ta ma (a.es.length - 1) 0 src (infos2 macf a b) 0 0
      (1 + (b.es.length - 2) + (1 + 3)) (by omega) hsrc ⟨fun _ => rfl, fun h => by omega⟩
      (by simp [infos2, Seg.arrSid])
  obtain ⟨e1, I1, if1, h1e, h1a, h1I, h1o, h1l, h1w⟩ := hst1
  rw [hea] at h1e; cases h1e
  obtain ⟨e2, I2, if2, h2e, h2a, h2I, h2o, h2s, h2l, h2w⟩ :=
    seg_cross macf t now dst.ia F a b 0 0 hmF oa ob ta tb ma mb ea e0b I1 if1 (0 + (a.es.length - 1))
      ((b.es.length - 2) + (1 + 3)) la lb hea he0b hia hk hla hlb hok h1a h1I
      (by rw [h1o 1 (by omega)]; simp [infos2])
  obtain ⟨e3, I3, if3, h3e, h3a, h3I, h3o, h3l, h3w⟩ :=
    seg_travel macf t now dst.ia F b (0 + 1) (0 + a.es.length) hmF ob tb mb (b.es.length - 2) 1 e2 I2 if2
      (0 + (a.es.length - 1) + 1) (1 + 3) (by omega) h2e h2a h2I
  rw [hdst] at h3e; cases h3e
  have h6w := seg_deliver macf t now F b (0 + 1) (0 + a.es.length) ob tb mb
    (by simp [F, frame2]) dst I3 if3 (0 + (a.es.length - 1) + 1 + (b.es.length - 2)) 3 hdst h3a h3I
  -- the info fields at delivery
  have hfin : setAt I3 (0 + 1) (b.info (b.beta macf (b.es.length - 1))) = infosEnd2 macf a b := by
    apply list2_eq
    · simp [setAt, h3l, h2l, h1l, infos2]
    · rw [setAt_get_ne _ _ _ _ (by omega), h3o 0 (by omega)]; exact h2s
    · exact setAt_get_self _ _ _ _ h3I
  rw [hfin] at h6w
  have e12 : 1 + (b.es.length - 2) + (1 + 3) = (b.es.length - 2) + (1 + 3) + 1 := by omega
  have e23 : (b.es.length - 2) + (1 + 3) = (1 + 3) + (b.es.length - 2) := by omega
  have e56 : 1 + 3 = 3 + 1 := rfl
  have hidx : 0 + a.es.length + (b.es.length - 1) = a.es.length + b.es.length - 1 := by omega
  rw [hfuel, show (F.pkt (infos2 macf a b) 0 0) = F.pkt (infos2 macf a b) 0 (0 + 0) from rfl, h1w, e12, h2w,
    e23, h3w, e56, h6w, hidx, ← hsteps]


/-- **A path of three beaconed segments joined at two crossover ASes is forwarded end to end.**
    (`a`, `b`, `c` in travel order, each in either direction; e.g. up – core – down.)  The packet arrives with the
    pointers on the last hop field and every SegID at the β of its segment's last hop field (`infosEnd3`). -/
theorem path3_walk (macf : MacF) (t : Topo) (now : Nat) (a b c : Seg)
    (ha : 2 ≤ a.es.length) (hb : 2 ≤ b.es.length) (hc : 2 ≤ c.es.length)
    (hmax : a.es.length + b.es.length + c.es.length ≤ MAX_TOTAL_HOPS + 1)
    (ta : TravelOK t a) (tb : TravelOK t b) (tc : TravelOK t c)
    (ma : a.Timely macf now) (mb : b.Timely macf now) (mc : c.Timely macf now)
    (jab : Junction t a b) (jbc : Junction t b c)
    (src dst : Entry) (hsrc : a.entry 0 = some src) (hdst : c.entry (c.es.length - 1) = some dst) :
    walk macf t dst.ia now false (a.es.length + b.es.length + c.es.length + 2) src.ia 0
        ((frame3 macf a b c).pkt (infos3 macf a b c) 0 0) 0 =
      some (.delivered dst.ia,
            (frame3 macf a b c).pkt (infosEnd3 macf a b c) 2 (a.es.length + b.es.length + c.es.length - 1),
            a.es.length + b.es.length + c.es.length - 2) := by
  let F := frame3 macf a b c
  have hmF : F.L0 + F.L1 + F.L2 ≤ MAX_TOTAL_HOPS + 1 := by simpa [F, frame3] using hmax
  have oa := occ3_a macf a b c ha
  have ob := occ3_b macf a b c hb
  have oc := occ3_c macf a b c hc
  obtain ⟨ea, e0b, la, lb, hea, he0b, hia, hk, hla, hlb, hok⟩ := jab
  obtain ⟨eb, e0c, la', lb', heb, he0c, hia', hk', hla', hlb', hok'⟩ := jbc
  -- 1. along segment a
  obtain ⟨e1, I1, if1, h1e, h1a, h1I, h1o, h1l, h1w⟩ :=
    seg_travel macf t now dst.ia F a 0 0 hmF oa ta ma (a.es.length - 1) 0 src (infos3 macf a b c) 0 0
      (1 + (b.es.length - 2) + (1 + (c.es.length - 2) + (1 + 4))) (by omega) hsrc ⟨fun _ => rfl, fun h => by omega⟩
      (by simp [infos3, Seg.arrSid])
  rw [hea] at h1e; cases h1e
  -- 2. crossover a -> b
  obtain ⟨e2, I2, if2, h2e, h2a, h2I, h2o, h2s, h2l, h2w⟩ :=
    seg_cross macf t now dst.ia F a b 0 0 hmF oa ob ta tb ma mb ea e0b I1 if1 (0 + (a.es.length - 1))
      ((b.es.length - 2) + (1 + (c.es.length - 2) + (1 + 4))) la lb hea he0b hia hk hla hlb hok h1a h1I
      (by rw [h1o 1 (by omega)]; simp [infos3])
  -- 3. along segment b
  obtain ⟨e3, I3, if3, h3e, h3a, h3I, h3o, h3l, h3w⟩ :=
    seg_travel macf t now dst.ia F b (0 + 1) (0 + a.es.length) hmF ob tb mb (b.es.length - 2) 1 e2 I2 if2
      (0 + (a.es.length - 1) + 1) (1 + (c.es.length - 2) + (1 + 4)) (by omega) h2e h2a h2I
  rw [heb] at h3e; cases h3e
  -- 4. crossover b -> c
  have hI3c : I3[0 + 1 + 1]? = some (c.info (c.beta macf 0)) := by
    rw [h3o 2 (by omega), h2o 2 (by omega) (by omega), h1o 2 (by omega)]; simp [infos3]
  obtain ⟨e4, I4, if4, h4e, h4a, h4I, h4o, h4s, h4l, h4w⟩ :=
    seg_cross macf t now dst.ia F b c (0 + 1) (0 + a.es.length) hmF ob oc tb tc mb mc eb e0c I3 if3
      (0 + (a.es.length - 1) + 1 + (b.es.length - 2)) ((c.es.length - 2) + (1 + 4)) la' lb' heb he0c hia' hk' hla' hlb' hok'
      h3a h3I hI3c
  -- 5. along segment c
  obtain ⟨e5, I5, if5, h5e, h5a, h5I, h5o, h5l, h5w⟩ :=
    seg_travel macf t now dst.ia F c (0 + 1 + 1) (0 + a.es.length + b.es.length) hmF oc tc mc (c.es.length - 2) 1 e4 I4 if4
      (0 + (a.es.length - 1) + 1 + (b.es.length - 2) + 1) (1 + 4) (by omega) h4e h4a h4I
  rw [hdst] at h5e; cases h5e
  -- 6. delivery
  have h6w := seg_deliver macf t now F c (0 + 1 + 1) (0 + a.es.length + b.es.length) oc tc mc
    (by simp [F, frame3]) dst I5 if5 (0 + (a.es.length - 1) + 1 + (b.es.length - 2) + 1 + (c.es.length - 2)) 4 hdst h5a h5I
  -- the info fields at delivery
  have hfin : setAt I5 (0 + 1 + 1) (c.info (c.beta macf (c.es.length - 1))) = infosEnd3 macf a b c := by
    apply list3_eq
    · simp [setAt, h5l, h4l, h3l, h2l, h1l, infos3]
    · rw [setAt_get_ne _ _ _ _ (by omega), h5o 0 (by omega), h4o 0 (by omega) (by omega), h3o 0 (by omega)]; exact h2s
    · rw [setAt_get_ne _ _ _ _ (by omega), h5o 1 (by omega)]; exact h4s
    · exact setAt_get_self _ _ _ _ h5I
  rw [hfin] at h6w
  have hfuel : a.es.length + b.es.length + c.es.length + 2 =
      (1 + (b.es.length - 2) + (1 + (c.es.length - 2) + (1 + 4))) + (a.es.length - 1) := by omega
  have hsteps : a.es.length + b.es.length + c.es.length - 2 =
      0 + (a.es.length - 1) + 1 + (b.es.length - 2) + 1 + (c.es.length - 2) + 1 := by omega
  rw [hfuel]
  have e12 : 1 + (b.es.length - 2) + (1 + (c.es.length - 2) + (1 + 4)) = (b.es.length - 2) + (1 + (c.es.length - 2) + (1 + 4)) + 1 := by omega
  have e34 : 1 + (c.es.length - 2) + (1 + 4) = (c.es.length - 2) + (1 + 4) + 1 := by omega
  have e56 : 1 + 4 = 4 + 1 := rfl
  rw [show (F.pkt (infos3 macf a b c) 0 0) = F.pkt (infos3 macf a b c) 0 (0 + 0) from rfl, h1w, e12, h2w]
  have e23 : (b.es.length - 2) + (1 + (c.es.length - 2) + (1 + 4)) = (1 + (c.es.length - 2) + (1 + 4)) + (b.es.length - 2) := by omega
  rw [e23, h3w, e34, h4w]
  have e45 : (c.es.length - 2) + (1 + 4) = (1 + 4) + (c.es.length - 2) := by omega
  have hidx : 0 + a.es.length + b.es.length + (c.es.length - 1) = a.es.length + b.es.length + c.es.length - 1 := by omega
  rw [e45, h5w, e56, h6w, hidx, ← hsteps]


/-! ## the reply: the reversal of the packet as delivered is again a path of this shape, hence forwardable -/

/-- the same beaconed segment, travelled the other way -/
def Seg.flip (g : Seg) : Seg := { g with cons := !g.cons }

theorem Seg.flip_len (g : Seg) : g.flip.es.length = g.es.length := rfl

theorem Seg.flip_entry (g : Seg) (k : Nat) (hk : k < g.es.length) : g.flip.entry k = g.entry (g.es.length - 1 - k) := by
  unfold Seg.entry Seg.idx Seg.flip
  cases hc : g.cons <;> simp
  congr 1; omega

theorem Seg.flip_beta (macf : MacF) (g : Seg) (k : Nat) (hk : k < g.es.length) :
    g.flip.beta macf k = g.beta macf (g.es.length - 1 - k) := by
  unfold Seg.beta Seg.idx Seg.flip
  cases hc : g.cons <;> simp
  congr 1; omega

theorem Seg.flip_hops (macf : MacF) (g : Seg) : g.flip.hops macf = (g.hops macf).reverse := by
  unfold Seg.hops Seg.flip
  cases hc : g.cons <;> simp

theorem Seg.flip_timely (macf : MacF) (g : Seg) (now : Nat) (h : g.Timely macf now) : g.flip.Timely macf now := h

theorem segChangeValid_symm (x y : LinkType) : segChangeValid x y = segChangeValid y x := by
  cases x <;> cases y <;> rfl

/-- a legal crossover is legal in the other direction too (the AS, its two links and its key are the same;
    the generated link-type table is symmetric) -/
theorem Junction.flip {t : Topo} {a b : Seg} (ha : 2 ≤ a.es.length) (hb : 2 ≤ b.es.length) (j : Junction t a b) :
    Junction t b.flip a.flip := by
  obtain ⟨e, e0, la, lb, he, he0, hia, hk, hla, hlb, hok⟩ := j
  refine ⟨e0, e, lb, la, ?_, ?_, hia.symm, hk.symm, ?_, ?_, ?_⟩
  · rw [Seg.flip_entry b _ (by rw [Seg.flip_len]; omega), Seg.flip_len]
    have : b.es.length - 1 - (b.es.length - 1) = 0 := by omega
    rw [this]; exact he0
  · rw [Seg.flip_entry a 0 (by omega)]; simpa using he
  · rw [hia]
    have : tIn b.flip.cons e0 = tEg b.cons e0 := by cases hc : b.cons <;> simp [Seg.flip, tIn, tEg, hc]
    rw [this]; exact hlb
  · rw [hia]
    have : tEg a.flip.cons e = tIn a.cons e := by cases hc : a.cons <;> simp [Seg.flip, tIn, tEg, hc]
    rw [this]; exact hla
  · rw [segChangeValid_symm]; exact hok

/-- **The reversal (`try_reverse`) of a delivered two-segment packet is the two-segment packet over the same
    segments travelled the other way, in the opposite order, with freshly initialised SegIDs and pointers.** -/
theorem path2_reply (macf : MacF) (a b : Seg) (ha : 2 ≤ a.es.length) (hb : 2 ≤ b.es.length) :
    reversePath ((frame2 macf a b).pkt (infosEnd2 macf a b) 1 (a.es.length + b.es.length - 1)) =
      (frame2 macf b.flip a.flip).pkt (infos2 macf b.flip a.flip) 0 0 := by
  have h0a : (a.es.length != 0) = true := bne_iff_ne.mpr (by omega)
  have h0b : (b.es.length != 0) = true := bne_iff_ne.mpr (by omega)
  have hba : b.flip.beta macf 0 = b.beta macf (b.es.length - 1) := by
    rw [Seg.flip_beta macf b 0 (by omega)]; simp
  have haa : a.flip.beta macf 0 = a.beta macf (a.es.length - 1) := by
    rw [Seg.flip_beta macf a 0 (by omega)]; simp
  simp only [reversePath, frame2, Frame.pkt, infosEnd2, infos2, Seg.flip_hops, hba, haa, Seg.flip_len]
  simp [h0a, h0b, Seg.info, Seg.flip, Seg.hops_length]

/-- **The reply to a delivered two-segment packet is forwarded back to the source and delivered there**: reverse
    the packet exactly as it arrived (`path2_walk`) and send it from the destination AS. -/
theorem path2_reply_walk (macf : MacF) (t : Topo) (now : Nat) (a b : Seg)
    (ha : 2 ≤ a.es.length) (hb : 2 ≤ b.es.length)
    (hmax : a.es.length + b.es.length ≤ MAX_TOTAL_HOPS + 1)
    (ca : ChainOK t a.es) (cb : ChainOK t b.es) (ma : a.Timely macf now) (mb : b.Timely macf now)
    (jab : Junction t a b)
    (src dst : Entry) (hsrc : a.entry 0 = some src) (hdst : b.entry (b.es.length - 1) = some dst) :
    ∃ q, walk macf t dst.ia now false (a.es.length + b.es.length + 2) src.ia 0
           ((frame2 macf a b).pkt (infos2 macf a b) 0 0) 0 = some (.delivered dst.ia, q, a.es.length + b.es.length - 1) ∧
         ∃ q', walk macf t src.ia now false (a.es.length + b.es.length + 2) dst.ia 0 (reversePath q) 0 =
           some (.delivered src.ia, q', a.es.length + b.es.length - 1) := by
  refine ⟨_, path2_walk macf t now a b ha hb hmax (travelOK_of_chain t a ca) (travelOK_of_chain t b cb) ma mb jab
    src dst hsrc hdst, ?_⟩
  rw [path2_reply macf a b ha hb]
  have hsrc' : a.flip.entry (a.flip.es.length - 1) = some src := by
    rw [Seg.flip_entry a _ (by rw [Seg.flip_len]; omega), Seg.flip_len]
    have : a.es.length - 1 - (a.es.length - 1) = 0 := by omega
    rw [this]; exact hsrc
  have hdst' : b.flip.entry 0 = some dst := by
    rw [Seg.flip_entry b 0 (by omega)]; simpa using hdst
  have h := path2_walk macf t now b.flip a.flip hb ha (by simp only [Seg.flip_len]; omega)
    (travelOK_of_chain t b.flip cb) (travelOK_of_chain t a.flip ca) (Seg.flip_timely macf b now mb)
    (Seg.flip_timely macf a now ma) (Junction.flip ha hb jab) dst src hdst' hsrc'
  simp only [Seg.flip_len] at h
  have e1 : b.es.length + a.es.length = a.es.length + b.es.length := by omega
  rw [e1] at h
  exact ⟨_, h⟩

/-- the three-segment version of `path2_reply` -/
theorem path3_reply (macf : MacF) (a b c : Seg) (ha : 2 ≤ a.es.length) (hb : 2 ≤ b.es.length) (hc : 2 ≤ c.es.length) :
    reversePath ((frame3 macf a b c).pkt (infosEnd3 macf a b c) 2 (a.es.length + b.es.length + c.es.length - 1)) =
      (frame3 macf c.flip b.flip a.flip).pkt (infos3 macf c.flip b.flip a.flip) 0 0 := by
  have h0a : (a.es.length != 0) = true := bne_iff_ne.mpr (by omega)
  have h0b : (b.es.length != 0) = true := bne_iff_ne.mpr (by omega)
  have h0c : (c.es.length != 0) = true := bne_iff_ne.mpr (by omega)
  have hca : c.flip.beta macf 0 = c.beta macf (c.es.length - 1) := by
    rw [Seg.flip_beta macf c 0 (by omega)]; simp
  have hba : b.flip.beta macf 0 = b.beta macf (b.es.length - 1) := by
    rw [Seg.flip_beta macf b 0 (by omega)]; simp
  have haa : a.flip.beta macf 0 = a.beta macf (a.es.length - 1) := by
    rw [Seg.flip_beta macf a 0 (by omega)]; simp
  simp only [reversePath, frame3, Frame.pkt, infosEnd3, infos3, Seg.flip_hops, hca, hba, haa, Seg.flip_len]
  simp [h0a, h0b, h0c, Seg.info, Seg.flip, Seg.hops_length]
  omega

/-- **The reply to a delivered three-segment packet (e.g. up – core – down) is forwarded back and delivered in
    the source AS.** -/
theorem path3_reply_walk (macf : MacF) (t : Topo) (now : Nat) (a b c : Seg)
    (ha : 2 ≤ a.es.length) (hb : 2 ≤ b.es.length) (hc : 2 ≤ c.es.length)
    (hmax : a.es.length + b.es.length + c.es.length ≤ MAX_TOTAL_HOPS + 1)
    (ca : ChainOK t a.es) (cb : ChainOK t b.es) (cc : ChainOK t c.es)
    (ma : a.Timely macf now) (mb : b.Timely macf now) (mc : c.Timely macf now)
    (jab : Junction t a b) (jbc : Junction t b c)
    (src dst : Entry) (hsrc : a.entry 0 = some src) (hdst : c.entry (c.es.length - 1) = some dst) :
    ∃ q, walk macf t dst.ia now false (a.es.length + b.es.length + c.es.length + 2) src.ia 0
           ((frame3 macf a b c).pkt (infos3 macf a b c) 0 0) 0 =
             some (.delivered dst.ia, q, a.es.length + b.es.length + c.es.length - 2) ∧
         ∃ q', walk macf t src.ia now false (a.es.length + b.es.length + c.es.length + 2) dst.ia 0 (reversePath q) 0 =
           some (.delivered src.ia, q', a.es.length + b.es.length + c.es.length - 2) := by
  refine ⟨_, path3_walk macf t now a b c ha hb hc hmax (travelOK_of_chain t a ca) (travelOK_of_chain t b cb)
    (travelOK_of_chain t c cc) ma mb mc jab jbc src dst hsrc hdst, ?_⟩
  rw [path3_reply macf a b c ha hb hc]
  have hsrc' : a.flip.entry (a.flip.es.length - 1) = some src := by
    rw [Seg.flip_entry a _ (by rw [Seg.flip_len]; omega), Seg.flip_len]
    have : a.es.length - 1 - (a.es.length - 1) = 0 := by omega
    rw [this]; exact hsrc
  have hdst' : c.flip.entry 0 = some dst := by
    rw [Seg.flip_entry c 0 (by omega)]; simpa using hdst
  have h := path3_walk macf t now c.flip b.flip a.flip hc hb ha (by simp only [Seg.flip_len]; omega)
    (travelOK_of_chain t c.flip cc) (travelOK_of_chain t b.flip cb) (travelOK_of_chain t a.flip ca)
    (Seg.flip_timely macf c now mc) (Seg.flip_timely macf b now mb) (Seg.flip_timely macf a now ma)
    (Junction.flip hb hc jbc) (Junction.flip ha hb jab) dst src hdst' hsrc'
  simp only [Seg.flip_len] at h
  have e1 : c.es.length + b.es.length + a.es.length = a.es.length + b.es.length + c.es.length := by omega
  rw [e1] at h
  exact ⟨_, h⟩

/-! ## non-vacuity: a concrete 3-AS chain satisfies `ChainOK` and `Timely` -/
example :
    let mac : MacF := fun k b t e ci ce => (k.length + b + t + e + ci + ce) % 2 ^ 48
    let es : List Entry := [⟨1, [1], 0, 5, 63⟩, ⟨2, [2], 7, 9, 63⟩, ⟨3, [3], 4, 0, 63⟩]
    let t : Topo := { ases := [⟨1, true, false, [1]⟩, ⟨2, false, false, [2]⟩, ⟨3, false, false, [3]⟩],
                      links := [⟨1, 5, .parent, 2, 7, true⟩, ⟨2, 7, .child, 1, 5, true⟩,
                                ⟨2, 9, .parent, 3, 4, true⟩, ⟨3, 4, .child, 2, 9, true⟩] }
    (walk mac t 3 150 false 5 1 0 (fwdPath mac 100 9 es 0) 0).map (fun r => (r.1, r.2.2)) = some (.delivered 3, 3) ∧
    (walk mac t 1 150 false 5 3 0 (reversePath (fwdPath mac 100 9 es 2)) 0).map (fun r => (r.1, r.2.2)) = some (.delivered 1, 3) := by
  decide +kernel

/-! ## non-vacuity of `path2_walk`: up segment 2 → 1 (against construction direction) joined at the core AS 1
   with the down segment 1 → 3; the packet built by `frame2`/`infos2` is delivered in AS 3 after 3 AS steps -/
example :
    let mac : MacF := fun k b t e ci ce => (k.length + b + t + e + ci + ce) % 2 ^ 48
    let a : Seg := ⟨[⟨1, [1], 0, 5, 63⟩, ⟨2, [2], 7, 0, 63⟩], 100, 9, false⟩
    let b : Seg := ⟨[⟨1, [1], 0, 6, 63⟩, ⟨3, [3], 8, 0, 63⟩], 120, 4, true⟩
    let t : Topo := { ases := [⟨1, true, false, [1]⟩, ⟨2, false, false, [2]⟩, ⟨3, false, false, [3]⟩],
                      links := [⟨1, 5, .parent, 2, 7, true⟩, ⟨2, 7, .child, 1, 5, true⟩,
                                ⟨1, 6, .parent, 3, 8, true⟩, ⟨3, 8, .child, 1, 6, true⟩] }
    (walk mac t 3 150 false 6 2 0 ((frame2 mac a b).pkt (infos2 mac a b) 0 0) 0).map (fun r => (r.1, r.2.2)) =
      some (.delivered 3, 3) := by
  decide +kernel

end ScionVerif.Router
