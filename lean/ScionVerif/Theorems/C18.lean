import ScionVerif.Lemmas.Signed
/-!
# C18 — signed control-plane messages verify iff authentic; RPC conversion is lossless

Property theorems over `Model/Signed.lean` and `Model/Rpc.lean` (constants from `Generated/Signed.lean`).

This is the most assumption-heavy property of the set.  ECDSA-P256, SHA-2 and `prost` are **parameters**
(`Scheme`, `Codec`, `PCodec`, `PathEnv`); every theorem names the hypotheses on them it uses:

* `Codec.Lawful` / `PCodec.Lawful` – protobuf decoding inverts encoding;
* `Scheme.Correct`                  – a signature produced by `sign sk` verifies under `pk sk`;
* unforgeability is never assumed globally.  It only appears in the shape
  `hUF : ∀ pk a m σ, verify pk a m σ = true → Signed pk a m`, an explicit hypothesis of
  `tamper_rejected`, where `Signed` is whatever set of messages the caller considers honestly signed.

What the theorems establish about the *code* (through the model):

1. construction ⇒ validation, at every position of a segment of any length (`signed_validates`);
2. acceptance is *exactly* the conjunction of the checks, the last one being the scheme's verdict on
   `header_and_body ‖ concat(associated data)` (`validate_accepts_iff`, `validate_binds`); every
   "tampering is rejected" statement follows from that **up to** (a) the scheme hypothesis and (b)
   concatenation ambiguity, both spelled out (`tamper_rejected`, `bitflip_changes_bound_bytes`,
   `length_change_rejected`, `chunk_boundaries_not_bound`);
3. the code's `take_while(e.entry != *self)` associated data equals the specification's index form when no
   earlier entry equals the current one (`takewhile_eq_index`); when one does it is shorter
   (`takewhile_eq_index_witness`), and consequently a *replayed* copy of an earlier entry appended to a
   segment is accepted at its new position (`replay_extension_validates`) although the index form rejects
   it by the length check alone (`index_form_rejects_replay`) — an open finding, reproduced on the real
   code by the harness;
4. RPC conversion: total, no panic (`seg_rpc_total`, `path_rpc_total`); segments: lossless on the values the
   conversion can produce and on honestly built segments (`seg_rpc_roundtrip`, `seg_rpc_idempotent`,
   `built_entry_consistent`), not lossless for non-empty `extensions` (`extensions_lost`); paths: lossless on
   the explicitly characterised canonical paths (`path_rpc_roundtrip`, `link_canon_iff`, `lat_canon`,
   `geo_canon`), which include everything obtained from a sane RPC message (`path_rpc_idempotent`); the
   excluded values are real (`path_roundtrip_expiration_witness`, `path_roundtrip_linktype_witness`,
   `path_roundtrip_no_metadata_witness`, evaluated on the model of `try_from_rpc` / `to_rpc`);
5. since fix c0ed6e0 the segment header bound by a validation is the *received* `segment_info`
   (`seg_from_rpc_keeps_signed_bytes`, `received_info_is_bound`, `rpc_seg_rpc_identity`).

Definitional / contrapositive statements (no independent content, kept for reference): `validate_accepts_iff`
(unfolding of `validate`), `tamper_rejected`, `foreign_key_rejected` (contrapositives of their own hypotheses);
the composed statement with unforgeability tied to the segment is `tampered_blob_rejected`.

Full statements that are FALSE on the current code (kept here as comments, each with its proved negation):

  -- theorem extension_rejected : seg' = seg with an entry inserted/appended → ∀ later position, validate ≠ ok
  --   ¬: `replay_extension_validates` (the inserted entry is a copy of an earlier one)
  -- theorem takewhile_is_index : ∀ seg i, assocTW seg seg.entries[i].entry = assocIdx seg i
  --   ¬: `takewhile_eq_index_witness`;  partial: `takewhile_eq_index` (no earlier equal entry)
  -- theorem sign_validate_any_length : … without `adN < 2^31`
  --   ¬: `Signed.i32_lossy_witness`;    partial: `signed_validates`
  -- theorem seg_roundtrip_all : ∀ seg built by the signing code, segFromRpc (segToRpc seg) = ok seg
  --   ¬: `extensions_lost`;             partial: `seg_rpc_roundtrip` + `built_entry_consistent` (WellTyped)
  -- theorem path_roundtrip_all : ∀ p, pathFromRpc (pathToRpc p) = ok p
  --   ¬: `path_roundtrip_expiration_witness`, `path_roundtrip_linktype_witness`,
  --      `path_roundtrip_no_metadata_witness`;  partial: `path_rpc_roundtrip` (PathCanon)
  -- theorem build_signs_index_form : the signing code signs entry i over info + all entries 0..i-1
  --   ¬: `signing_repeated_entry_unbound` (+ toy example);  partial: `takewhile_eq_index` (no earlier equal entry)
-/
namespace ScionVerif.C18
open ScionVerif.Signed ScionVerif.Rpc ScionVerif.Generated.Signed

variable {PK SK α : Type} [DecidableEq α]

/-! ## 1. construction ⇒ validation -/

/-- **Signed entries validate, at every position, for every segment length.**  If `build` (the model of
`try_into_signed_segment` / `SignedPathSegment::new`) produced `seg` from `items`, then the entry at any
position `i` validates in `seg` under a key provider that resolves its key id to the matching public key —
provided the associated data fits the header's `i32` length field (`i32_lossy_witness` shows the excluded
case is real: 2 GiB of associated data is *not* recovered by the `as i32` / `as usize` casts). -/
theorem signed_validates (c : Codec) (S : Scheme PK SK) (hc : c.Lawful) (hS : S.Correct)
    (encBody : α → Bytes) (info : Bytes) (ts : Nat) (items : List (Item SK α)) (seg : Seg α)
    (hb : build c S encBody info ts items = some seg)
    (i : Nat) (hi : i < items.length)
    (hfit : total (assocTW seg items[i].entry) < 2 ^ (AD_LEN_BITS - 1))
    (kp : Bytes → Except VErr PK) (hkp : kp (items[i].keyId.getD []) = .ok (S.pk items[i].sk)) :
    ∃ e, seg.entries[i]? = some e ∧ e.entry = items[i].entry ∧
      ∃ hdr, validateEntry c S kp seg e = .ok (hdr, encBody items[i].entry) := by
  obtain ⟨hinfo, news, hent, hlen, hall⟩ := buildFrom_inv c S encBody ts items _ seg hb
  simp only [List.nil_append] at hent hall
  have hi' : i < news.length := by omega
  obtain ⟨hentry, hsign⟩ := hall i hi hi'
  refine ⟨news[i], by rw [hent]; exact List.getElem?_eq_getElem hi', hentry, ?_⟩
  have hsplit : news = news.take i ++ news[i] :: news.drop (i + 1) := by
    rw [List.getElem_cons_drop, List.take_append_drop]
  have hseg : seg = { info := info, entries := news.take i ++ news[i] :: news.drop (i + 1) } := by
    cases seg; simp only at hinfo hent; subst hinfo hent; rw [← hsplit]
  have had : assocTW seg news[i].entry = assocTW { info := info, entries := news.take i } items[i].entry := by
    rw [hseg, assocTW_stop, hentry]
  unfold validateEntry
  simp only
  rw [had]
  rw [← hentry, had] at hfit
  obtain ⟨hdr, hv, _⟩ := sign_validate c S hc hS _ _ _ _ _ _ _ _ _ hsign hfit kp hkp
  exact ⟨hdr, hv⟩

/-! ## 2. what acceptance binds -/

/-- Acceptance is the conjunction of the checks — the *unfolding* of `validate` (a restated definition, no
independent specification; useful as a rewriting lemma). -/
theorem validate_accepts_iff (c : Codec) (S : Scheme PK SK) (kp : Bytes → Except VErr PK) (m : SignedMsg)
    (adN : Nat) (ad : List Bytes) :
    (∃ r, validate c S kp m adN ad = .ok r) ↔
      ∃ hbytes body hdr pk a, c.decHB m.hb = some (hbytes, body) ∧ c.decHdr hbytes = some hdr ∧
        kp hdr.keyId = .ok pk ∧ i32ToUsize hdr.adLen = adN ∧ algOfI32 hdr.alg = some a ∧
        S.wf m.sig = true ∧ S.verify pk a (m.hb ++ ad.flatten) m.sig = true :=
  validate_isOk_iff c S kp m adN ad

/-- **What a successful validation of a segment entry binds** (the code's form): the key the provider
resolved for the header's key id verifies the entry's signature over
`header_and_body ‖ info ‖ (hb, sig) of the entries the code's take_while selects`, and the header's
`associated_data_length` equals the total length of that associated data. -/
theorem validate_binds (c : Codec) (S : Scheme PK SK) (kp : Bytes → Except VErr PK)
    (seg : Seg α) (e : SEntry α) (hdr : Header) (body : Bytes)
    (h : validateEntry c S kp seg e = .ok (hdr, body)) :
    ∃ pk a, kp hdr.keyId = .ok pk ∧ algOfI32 hdr.alg = some a ∧
      S.verify pk a (e.signed.hb ++ (assocTW seg e.entry).flatten) e.signed.sig = true ∧
      i32ToUsize hdr.adLen = total (assocTW seg e.entry) := by
  obtain ⟨_, pk, a, _, _, h3, h4, h5, _, h7⟩ := (validate_ok_iff c S kp _ _ _ hdr body).mp h
  exact ⟨pk, a, h3, h5, h7, h4⟩

/-- **The tie for `assocTW`**: the closure of the `take_while` in `AsEntry::associated_data`, as classified by
the translator from the Rust source, is the comparison by value of the whole `AsEntry` that `assocTW`
mirrors (`ASSOC_STOP_KIND`: 1 = `e.entry != *self`, 2 = local ISD-AS only, 0 = anything else).  If the code
starts comparing something else, this obligation – and with it every theorem about `assocTW` as a
description of the code – no longer checks. -/
theorem assoc_stop_by_value : ASSOC_STOP_KIND = 1 := by decide

/-- **The take_while form equals the index form when no earlier entry equals the current one.** -/
theorem takewhile_eq_index (seg : Seg α) (i : Nat) (hi : i < seg.entries.length)
    (hfirst : ∀ j (hj : j < i), (seg.entries[j]'(Nat.lt_trans hj hi)).entry ≠ seg.entries[i].entry) :
    assocTW seg seg.entries[i].entry = assocIdx seg i := by
  unfold assocTW assocIdx
  congr 2
  apply takeWhile_eq_take _ _ i hi
  · intro j hj; simpa using hfirst j hj
  · simp

/-- **Binding, index form**: under that hypothesis a successful validation binds exactly what the SCION
specification prescribes — this entry's header and body, the segment info and *all* preceding entries. -/
theorem validate_binds_index (c : Codec) (S : Scheme PK SK) (kp : Bytes → Except VErr PK)
    (seg : Seg α) (i : Nat) (hi : i < seg.entries.length)
    (hfirst : ∀ j (hj : j < i), (seg.entries[j]'(Nat.lt_trans hj hi)).entry ≠ seg.entries[i].entry)
    (hdr : Header) (body : Bytes)
    (h : validateEntry c S kp seg seg.entries[i] = .ok (hdr, body)) :
    ∃ pk a, kp hdr.keyId = .ok pk ∧ algOfI32 hdr.alg = some a ∧
      S.verify pk a (seg.entries[i].signed.hb ++ (assocIdx seg i).flatten) seg.entries[i].signed.sig = true ∧
      i32ToUsize hdr.adLen = total (assocIdx seg i) := by
  have := validate_binds c S kp seg seg.entries[i] hdr body h
  rwa [takewhile_eq_index seg i hi hfirst] at this

/-- The excluded case is real: with a repeated entry the code's associated data of the later copy stops at
the earlier one (here: segment `[0, 1, 0]`, position 2 — the code covers only the info, the specification
covers the info and entries 0 and 1). -/
theorem takewhile_eq_index_witness :
    ∃ (seg : Seg Nat) (i : Nat) (hi : i < seg.entries.length),
      assocTW seg seg.entries[i].entry ≠ assocIdx seg i ∧
      assocTW seg seg.entries[i].entry = [seg.info] :=
  ⟨{ info := [9], entries := [⟨0, ⟨[1], [2]⟩⟩, ⟨1, ⟨[3], [4]⟩⟩, ⟨0, ⟨[5], [6]⟩⟩] }, 2, by decide, by decide, by decide⟩

/-- **Replay extension is accepted (open finding).**  Because the code locates "the current entry" by value,
appending *anything* to a segment — in particular a copy of one of its own entries, at any later position —
does not change the verdict for that entry: the replayed copy is validated against the associated data of
its *first* occurrence.  So `[A, B, C] ↦ [A, B, C, A]` passes validation at all four positions without any
key.  (Full statement of the property clause "extension ⇒ failure" is therefore false on the current code.) -/
theorem replay_extension_validates (c : Codec) (S : Scheme PK SK) (kp : Bytes → Except VErr PK)
    (seg : Seg α) (e : SEntry α) (he : e ∈ seg.entries) (ext : List (SEntry α)) :
    validateEntry c S kp { seg with entries := seg.entries ++ ext } e = validateEntry c S kp seg e := by
  unfold validateEntry
  simp only
  rw [assocTW_append_of_mem seg ext e he]

/-- **The signing side has the same by-value defect (open finding `signing-by-value:repeated-entry`).**
`add_entry` computes the associated data with the same `take_while` on the segment built so far: when the entry
being added equals the entry at an earlier position `j` (first such), it is signed over the info and the
entries *before `j`* only — the entries `j .. len-1` that precede it in the segment are not covered, and the
header's `associated_data_length` is that of the shorter prefix, so a verifier using the index form rejects the
honestly built segment (`index_form_rejects_replay`'s length argument). -/
theorem signing_repeated_entry_unbound (c : Codec) (S : Scheme PK SK) (seg seg' : Seg α) (a : α) (body : Bytes)
    (sk : SK) (keyId : Option Bytes) (ts : Nat)
    (j : Nat) (hj : j < seg.entries.length) (heq : seg.entries[j].entry = a)
    (hfirst : ∀ k (hk : k < j), (seg.entries[k]'(Nat.lt_trans hk hj)).entry ≠ a)
    (h : addEntry c S seg a body sk keyId ts = some seg') :
    ∃ m, sign c S sk .sha256 ts keyId (total (assocIdx seg j)) (assocIdx seg j) body [] = some m ∧
      seg'.entries = seg.entries ++ [{ entry := a, signed := m }] := by
  have had : assocTW seg a = assocIdx seg j := by
    unfold assocTW assocIdx
    congr 2
    apply takeWhile_eq_take _ _ j hj
    · intro k hk; simpa using hfirst k hk
    · simp [heq]
  unfold addEntry at h
  simp only [had] at h
  split at h
  · cases h
  · rename_i m hm
    simp only [Option.some.injEq] at h
    subst h
    exact ⟨m, hm, rfl⟩

omit [DecidableEq α] in
/-- … whereas the index form rejects the replayed copy by the length check alone (no cryptographic
hypothesis): an entry accepted at position `i` is rejected at any later position `k` as soon as the
`header_and_body` of entry `i` is non-empty. -/
theorem index_form_rejects_replay (c : Codec) (S : Scheme PK SK) (kp : Bytes → Except VErr PK)
    (seg : Seg α) (i k : Nat) (hik : i < k) (hk : k ≤ seg.entries.length) (e : SEntry α)
    (hne : (seg.entries[i]'(by omega)).signed.hb ≠ [])
    (r : Header × Bytes) (hacc : validateEntryIdx c S kp seg i e = .ok r) :
    ∀ r', validateEntryIdx c S kp seg k e ≠ .ok r' := by
  intro r' hk'
  obtain ⟨hdr, body⟩ := r
  obtain ⟨hdr', body'⟩ := r'
  obtain ⟨hb1, _, _, d1, h1, _, l1, _⟩ := (validate_ok_iff c S kp _ _ _ hdr body).mp hacc
  obtain ⟨hb2, _, _, d2, h2, _, l2, _⟩ := (validate_ok_iff c S kp _ _ _ hdr' body').mp hk'
  rw [d1] at d2
  simp only [Option.some.injEq, Prod.mk.injEq] at d2
  obtain ⟨rfl, rfl⟩ := d2
  rw [h1] at h2
  simp only [Option.some.injEq] at h2
  subst h2
  rw [l1] at l2
  -- total (assocIdx seg i) < total (assocIdx seg k)
  have hi : i < seg.entries.length := by omega
  have hsplit : seg.entries.take k = seg.entries.take i ++ seg.entries[i] :: (seg.entries.drop (i + 1)).take (k - (i + 1)) := by
    have : seg.entries.take k = (seg.entries.take i ++ seg.entries[i] :: seg.entries.drop (i + 1)).take k := by
      rw [List.getElem_cons_drop, List.take_append_drop]
    rw [this, List.take_append]
    have hl : (seg.entries.take i).length = i := by simp [Nat.min_eq_left (Nat.le_of_lt hi)]
    rw [hl, List.take_of_length_le (by omega : (seg.entries.take i).length ≤ k)]
    congr 1
    have : k - i = (k - (i + 1)) + 1 := by omega
    rw [this, List.take_succ_cons]
  have hlen : 0 < (seg.entries[i]).signed.hb.length := List.length_pos_iff.mpr hne
  unfold assocIdx at l2
  rw [hsplit, chunks_append] at l2
  simp only [total, chunks, List.map_cons, List.sum_cons, List.map_append, List.sum_append,
    List.flatMap_cons, List.cons_append, List.nil_append] at l2
  omega

/-! ### tampering -/

/-- **A length change is rejected without any cryptographic assumption**: acceptance forces the supplied
associated-data length to equal the header's (sign-extended) `associated_data_length`.  Removing or
inserting a non-empty earlier entry, or changing the length of the segment info, is therefore rejected by
the length check (index form; in the code's form under the hypothesis of `takewhile_eq_index`). -/
theorem length_change_rejected (c : Codec) (S : Scheme PK SK) (kp : Bytes → Except VErr PK) (m : SignedMsg)
    (adN adN' : Nat) (ad ad' : List Bytes) (r r' : Header × Bytes)
    (h : validate c S kp m adN ad = .ok r) (hne : adN' ≠ adN) : validate c S kp m adN' ad' ≠ .ok r' := by
  intro h'
  obtain ⟨hdr, body⟩ := r
  obtain ⟨hdr', body'⟩ := r'
  obtain ⟨_, _, _, d1, h1, _, l1, _⟩ := (validate_ok_iff c S kp _ _ _ hdr body).mp h
  obtain ⟨_, _, _, d2, h2, _, l2, _⟩ := (validate_ok_iff c S kp _ _ _ hdr' body').mp h'
  rw [d1] at d2
  simp only [Option.some.injEq, Prod.mk.injEq] at d2
  obtain ⟨rfl, rfl⟩ := d2
  rw [h1] at h2
  simp only [Option.some.injEq] at h2
  subst h2
  exact hne (l2.symm.trans l1)

/-- Tampering is rejected, up to the scheme hypothesis — logically the contrapositive of `hUF` applied to the
verdict `validate` consults (the statement with the hypothesis tied to a segment's own signatures is
`tampered_blob_rejected`).  Let `Signed pk a m` be any predicate ("`m` was
signed by the holder of `pk` with digest `a`") such that the scheme only verifies signed messages (`hUF`,
the idealised unforgeability — an explicit hypothesis, not an axiom).  If the byte string bound by a
validation — `header_and_body ‖ concat(associated data)` — is not signed under any key the provider may
resolve, validation fails.  Flips in the body, the header, the info, earlier entries' bytes or signatures,
reordering, truncation and extension all change that byte string or its length
(`bitflip_changes_bound_bytes`, `length_change_rejected`), except for the cases listed in
`chunk_boundaries_not_bound` and `replay_extension_validates`. -/
theorem tamper_rejected (c : Codec) (S : Scheme PK SK) (kp : Bytes → Except VErr PK)
    (Signed : PK → Alg → Bytes → Prop)
    (hUF : ∀ pk a m σ, S.verify pk a m σ = true → Signed pk a m)
    (m : SignedMsg) (adN : Nat) (ad : List Bytes)
    (hnot : ∀ pk a, ¬ Signed pk a (m.hb ++ ad.flatten)) :
    ∀ r, validate c S kp m adN ad ≠ .ok r := by
  intro r h
  obtain ⟨hdr, body⟩ := r
  obtain ⟨_, pk, a, _, _, _, _, _, _, h7⟩ := (validate_ok_iff c S kp _ _ _ hdr body).mp h
  exact hnot pk a (hUF _ _ _ _ h7)

/-- Offering another key (contrapositive of its hypothesis): if the key the provider resolves does not verify the bound bytes, validation
fails (whatever else is true) — "another key ⇒ failure" holds exactly to the extent that the scheme does
not verify a signature under a key that did not produce it. -/
theorem foreign_key_rejected (c : Codec) (S : Scheme PK SK) (pk' : PK) (m : SignedMsg) (adN : Nat)
    (ad : List Bytes) (hno : ∀ a, S.verify pk' a (m.hb ++ ad.flatten) m.sig = false) :
    ∀ r, validate c S (fun _ => .ok pk') m adN ad ≠ .ok r := by
  intro r h
  obtain ⟨hdr, body⟩ := r
  obtain ⟨_, pk, a, _, _, h3, _, _, _, h7⟩ := (validate_ok_iff c S _ _ _ _ hdr body).mp h
  simp only [Except.ok.injEq] at h3
  subst h3
  rw [hno a] at h7
  cases h7

/-- **Any same-length change of any signed blob changes the bound byte string.**  `L` is the chunk list
`header_and_body :: associated data`; replacing chunk `k` by a different chunk of the same length (in
particular: flipping one bit of one byte) yields a different concatenation.  No two chunk lists of the same
shape collide. -/
theorem bitflip_changes_bound_bytes (L : List Bytes) (k : Nat) (hk : k < L.length) (x : Bytes)
    (hlen : x.length = L[k].length) (hne : x ≠ L[k]) : (L.set k x).flatten ≠ L.flatten := by
  intro h
  have hshape : (L.set k x).map List.length = L.map List.length := by
    apply List.ext_getElem (by simp)
    intro n h1 h2
    simp only [List.getElem_map, List.getElem_set]
    split
    · rename_i hkn; subst hkn; exact hlen
    · rfl
  have := flatten_inj_of_shape _ _ hshape h
  have hx : (L.set k x)[k]'(by simpa using hk) = x := by simp
  rw [List.getElem_of_eq this] at hx
  exact hne hx.symm

omit [DecidableEq α] in
theorem total_append (a b : List Bytes) : total (a ++ b) = total a + total b := by
  simp [total]

omit [DecidableEq α] in
theorem total_chunks_take_succ (l : List (SEntry α)) (i : Nat) (hi : i < l.length) :
    total (chunks (l.take (i + 1))) =
      total (chunks (l.take i)) + (l[i].signed.hb.length + l[i].signed.sig.length) := by
  rw [List.take_succ_eq_append_getElem hi, chunks_append, total_append]
  simp [chunks, total]

omit [DecidableEq α] in
theorem total_chunks_take_mono (l : List (SEntry α)) (i j : Nat) (hij : i ≤ j) :
    total (chunks (l.take i)) ≤ total (chunks (l.take j)) := by
  induction j with
  | zero => have : i = 0 := by omega
            subst this; exact Nat.le_refl _
  | succ j ih =>
    by_cases h : i = j + 1
    · subst h; exact Nat.le_refl _
    · have hle := ih (by omega)
      by_cases hj : j < l.length
      · rw [total_chunks_take_succ l j hj]; omega
      · have e1 : l.take (j + 1) = l := List.take_of_length_le (by omega)
        have e2 : l.take j = l := List.take_of_length_le (by omega)
        rw [e1]; rw [e2] at hle; exact hle

omit [DecidableEq α] in
/-- the byte strings bound for two different positions of one segment (index form) have different lengths
when no `header_and_body` is empty: the later one contains the whole earlier entry in addition -/
theorem bound_length_strict (seg : Seg α) (hne : ∀ e ∈ seg.entries, e.signed.hb ≠ [])
    (i j : Nat) (hij : i < j) (hj : j < seg.entries.length) :
    total ((seg.entries[i]'(by omega)).signed.hb :: assocIdx seg i) <
      total (seg.entries[j].signed.hb :: assocIdx seg j) := by
  have hi : i < seg.entries.length := by omega
  have h1 := total_chunks_take_succ seg.entries i hi
  have h2 := total_chunks_take_mono seg.entries (i + 1) j (by omega)
  have h3 : 0 < (seg.entries[j]).signed.hb.length :=
    List.length_pos_iff.mpr (hne _ (List.getElem_mem hj))
  simp only [assocIdx, total, List.map_cons, List.sum_cons] at *
  omega

omit [DecidableEq α] in
/-- **Any same-length change of any signed blob is rejected — stated on the segment, with unforgeability
tied to the segment's own signatures.**  Idealised unforgeability here says: the only byte strings that verify
(under any key, with any signature) are the ones the signers of *this* segment signed — entry `j`'s
`header_and_body ‖ info ‖ (hb, sig) of entries 0..j-1` (`hUF`; an explicit hypothesis about the scheme and the
honest signers, never an axiom).  Take the chunk list bound for entry `i` — its `header_and_body`, the segment
info, and the `header_and_body` and `signature` of every earlier entry — and replace any one chunk by different
bytes of the same length (a flipped bit in the body or header of entry `i`, in the segment info, or in the body
or signature of any earlier entry).  Then validation against the changed chunks fails, whatever signature is
presented: the changed byte string differs from the one signed for position `i` (`bitflip_changes_bound_bytes`)
and has another length than those signed for the other positions (`bound_length_strict`). -/
theorem tampered_blob_rejected (c : Codec) (S : Scheme PK SK) (kp : Bytes → Except VErr PK) (seg : Seg α)
    (hne : ∀ e ∈ seg.entries, e.signed.hb ≠ [])
    (hUF : ∀ pk a m σ, S.verify pk a m σ = true →
      ∃ j, ∃ hj : j < seg.entries.length, m = (seg.entries[j].signed.hb :: assocIdx seg j).flatten)
    (i : Nat) (hi : i < seg.entries.length)
    (k : Nat) (hk : k < (seg.entries[i].signed.hb :: assocIdx seg i).length) (x : Bytes)
    (hlen : x.length = ((seg.entries[i].signed.hb :: assocIdx seg i)[k]).length)
    (hx : x ≠ (seg.entries[i].signed.hb :: assocIdx seg i)[k])
    (m' : SignedMsg) (ad' : List Bytes) (adN : Nat)
    (hL : m'.hb :: ad' = (seg.entries[i].signed.hb :: assocIdx seg i).set k x) :
    ∀ r, validate c S kp m' adN ad' ≠ .ok r := by
  intro r h
  obtain ⟨hdr, body⟩ := r
  obtain ⟨_, pk, a, _, _, _, _, _, _, h7⟩ := (validate_ok_iff c S kp _ _ _ hdr body).mp h
  have hcat : m'.hb ++ ad'.flatten = (m'.hb :: ad').flatten := by simp
  rw [hcat, hL] at h7
  obtain ⟨j, hj, hm⟩ := hUF _ _ _ _ h7
  by_cases hji : j = i
  · subst hji
    exact bitflip_changes_bound_bytes _ k hk x hlen hx hm
  · -- same length as the string signed for position i, hence not the one signed for position j
    have hshape : ((seg.entries[i].signed.hb :: assocIdx seg i).set k x).map List.length =
        (seg.entries[i].signed.hb :: assocIdx seg i).map List.length := by
      apply List.ext_getElem (by simp)
      intro n h1 h2
      simp only [List.getElem_map, List.getElem_set]
      split
      · rename_i hkn; subst hkn; exact hlen
      · rfl
    have hl := congrArg List.length hm
    rw [← total_eq_length_flatten, ← total_eq_length_flatten] at hl
    have hl' : total (seg.entries[i].signed.hb :: assocIdx seg i) = total (seg.entries[j].signed.hb :: assocIdx seg j) := by
      rw [← hl]; unfold total; rw [hshape]
    rcases Nat.lt_or_gt_of_ne hji with hlt | hgt
    · have := bound_length_strict seg hne j i hlt hi; omega
    · have := bound_length_strict seg hne i j hgt hj; omega

/-- **Concatenation ambiguity, spelled out**: validation depends on the associated data only through its
concatenation (and the separately supplied total length).  Where one chunk ends and the next begins is not
bound: e.g. moving bytes from the end of an earlier entry's `header_and_body` to the front of its
`signature` leaves the verdict for every *later* entry unchanged. -/
theorem chunk_boundaries_not_bound (c : Codec) (S : Scheme PK SK) (kp : Bytes → Except VErr PK) (m : SignedMsg)
    (adN : Nat) (ad ad' : List Bytes) (h : ad.flatten = ad'.flatten) :
    validate c S kp m adN ad = validate c S kp m adN ad' := by
  unfold validate
  rw [h]

/-- two different chunk lists with the same concatenation and the same total length exist -/
theorem chunk_boundaries_witness :
    ∃ ad ad' : List Bytes, ad ≠ ad' ∧ ad.flatten = ad'.flatten ∧ total ad = total ad' :=
  ⟨[[1], [2, 3]], [[1, 2], [3]], by decide, by decide, by decide⟩

/-! ## 3. RPC conversion of segments -/

/-- the body decoded from the signed message converts to exactly this entry -/
def Consistent (pc : PCodec) (e : SEntry AsEntry) : Prop :=
  ∃ h body rb, pc.c.decHB e.signed.hb = some (h, body) ∧ pc.decBody body = some rb ∧
    entryFromBody rb = .ok e.entry

/-- the info's raw bytes decode to its `timestamp` / `segment_id` fields, which have values of their Rust
types (`u32`, `u16`).  Holds for everything `SegmentInfo::new` builds (`infoNew_consistent`, given the protobuf
law) and for everything `try_from_rpc` returns (`seg_from_rpc_consistent`); the struct has public fields, so
other values can be written down. -/
def InfoConsistent (pc : PCodec) (i : Info) : Prop :=
  pc.decInfo i.encoded = some { timestamp := (i.timestamp : Int), segmentId := i.segmentId } ∧
  i.timestamp < 2 ^ SI_TIMESTAMP_BITS ∧ i.segmentId < 2 ^ SI_SEGID_BITS

theorem tryU_ok (x bits : Nat) (e : RErr) (y : Nat) (h : tryU x bits e = .ok y) : y = x ∧ x < 2 ^ bits := by
  unfold tryU at h
  split at h
  · simp only [Except.ok.injEq] at h; exact ⟨h.symm, by assumption⟩
  · cases h

theorem tryU_ne_panic (x bits : Nat) (e : RErr) (he : e ≠ .panic) : tryU x bits e ≠ .error .panic := by
  unfold tryU
  split
  · simp
  · intro hc; cases hc; exact he rfl

theorem hopFieldFromRpc_ne_panic (h : RHopField) : hopFieldFromRpc h ≠ .error .panic := by
  intro hc
  unfold hopFieldFromRpc at hc
  split at hc
  · cases hc
  · rename_i hlen
    have hlen' : h.mac.length = MAC_LEN := by simpa using hlen
    split at hc
    · rename_i e he; cases hc; exact tryU_ne_panic _ _ _ (by decide) he
    · split at hc
      · rename_i e he; cases hc; exact tryU_ne_panic _ _ _ (by decide) he
      · split at hc
        · rename_i e he; cases hc; exact tryU_ne_panic _ _ _ (by decide) he
        · have h1 : ¬ h.mac.length < MAC_SLICE := by rw [hlen']; decide
          have h2 : (h.mac.take MAC_SLICE).length = MAC_ARRAY_LEN := by
            rw [List.length_take, hlen']; decide
          simp [macArray, h1, h2] at hc

theorem peerFromRpc_ne_panic (p : RPeerEntry) : peerFromRpc p ≠ .error .panic := by
  intro hc
  unfold peerFromRpc at hc
  split at hc
  · rename_i e he; cases hc; exact tryU_ne_panic _ _ _ (by decide) he
  · split at hc
    · rename_i e he; cases hc; exact tryU_ne_panic _ _ _ (by decide) he
    · split at hc
      · cases hc
      · split at hc
        · rename_i e he; cases hc; exact hopFieldFromRpc_ne_panic _ he
        · cases hc

theorem hopEntryFromRpc_ne_panic (h : RHopEntry) : hopEntryFromRpc h ≠ .error .panic := by
  intro hc
  unfold hopEntryFromRpc at hc
  split at hc
  · rename_i e he; cases hc; exact tryU_ne_panic _ _ _ (by decide) he
  · split at hc
    · cases hc
    · split at hc
      · rename_i e he; cases hc; exact hopFieldFromRpc_ne_panic _ he
      · cases hc

theorem entryFromBody_ne_panic (b : RBody) : entryFromBody b ≠ .error .panic := by
  intro hc
  unfold entryFromBody at hc
  split at hc
  · cases hc
  · split at hc
    · rename_i e he; cases hc; exact hopEntryFromRpc_ne_panic _ he
    · split at hc
      · rename_i e he; cases hc
        exact mapE_ne_error peerFromRpc .panic b.peers (fun a _ => peerFromRpc_ne_panic a) he
      · cases hc

theorem asEntryFromRpc_ne_panic (pc : PCodec) (e : RAsEntry) : asEntryFromRpc pc e ≠ .error .panic := by
  intro hc
  unfold asEntryFromRpc at hc
  split at hc
  · cases hc
  · split at hc
    · cases hc
    · split at hc
      · cases hc
      · split at hc
        · rename_i e' he; cases hc; exact entryFromBody_ne_panic _ he
        · cases hc

theorem infoFromRpc_ne_panic (pc : PCodec) (i : RSegInfo) : infoFromRpc pc i ≠ .error .panic := by
  intro hc
  unfold infoFromRpc at hc
  split at hc
  · split at hc
    · rename_i e he; cases hc; exact tryU_ne_panic _ _ _ (by decide) he
    · cases hc
  · cases hc

/-- **RPC → segment is total and never panics**, for an arbitrary message (any field values, any
missing fields, any decoder behaviour): the only panic sites (`mac[..MAC_SLICE]`, `.expect`) are guarded by
the `MAC_LEN` check — re-proved from the extracted constants on every run. -/
theorem seg_rpc_total (pc : PCodec) (r : RSegment) : segFromRpc pc r ≠ .error .panic := by
  intro hc
  unfold segFromRpc at hc
  split at hc
  · cases hc
  · split at hc
    · rename_i e he; cases hc; exact infoFromRpc_ne_panic _ _ he
    · split at hc
      · rename_i e he; cases hc
        exact mapE_ne_error (asEntryFromRpc pc) .panic r.asEntries (fun a _ => asEntryFromRpc_ne_panic pc a) he
      · cases hc

theorem infoFromRpc_ok (pc : PCodec) (ts sid : Nat) (hts : ts < 2 ^ SI_TIMESTAMP_BITS) (hsid : sid < 2 ^ SI_SEGID_BITS) :
    infoFromRpc pc { timestamp := (ts : Int), segmentId := sid } = .ok (infoNew pc ts sid) := by
  unfold infoFromRpc
  have h1 : (0 : Int) ≤ (ts : Int) ∧ (ts : Int) < ((2 ^ SI_TIMESTAMP_BITS : Nat) : Int) :=
    ⟨Int.natCast_nonneg _, Int.ofNat_lt.mpr hts⟩
  rw [if_pos h1]
  unfold tryU
  rw [if_pos hsid]
  simp only [Int.toNat_natCast]

theorem segFromRpc_eq (pc : PCodec) (r : RSegment) (i : RSegInfo) (info : Info) (es : List (SEntry AsEntry))
    (h1 : pc.decInfo r.segmentInfo = some i) (h2 : infoFromRpc pc i = .ok info)
    (h3 : mapE (asEntryFromRpc pc) r.asEntries = .ok es) :
    segFromRpc pc r = .ok { info := { info with encoded := r.segmentInfo }, entries := es } := by
  unfold segFromRpc
  rw [h1]
  simp only
  rw [h2]
  simp only
  rw [h3]

/-- **Ties for the segment-info bytes** (translator classification of `SignedPathSegment::{try_from_rpc,
into_rpc}` in segment/rpc.rs): `try_from_rpc` stores the received `segment_info` bytes in `info.encoded`
(1; 2 = the original code, which kept the re-encoding of `SegmentInfo::new`), `into_rpc` sends
`self.info.encoded` (1; 2 = re-encodes).  `segFromRpc` / `segToRpc` model exactly kind 1; if the code goes
back, these obligations fail. -/
theorem info_kept_raw : SEG_INFO_KEPT = 1 := by decide
theorem info_sent_raw : SEG_INFO_SENT = 1 := by decide

theorem asEntryFromRpc_signed (pc : PCodec) (a : RAsEntry) (b : SEntry AsEntry)
    (hb : asEntryFromRpc pc a = .ok b) : some b.signed = a.signed := by
  unfold asEntryFromRpc at hb
  split at hb
  · cases hb
  · rename_i sm hsm
    split at hb
    · cases hb
    · split at hb
      · cases hb
      · split at hb
        · cases hb
        · simp only [Except.ok.injEq] at hb
          subst hb
          exact hsm.symm

theorem mapE_asEntry_signed (pc : PCodec) : ∀ (l : List RAsEntry) (es : List (SEntry AsEntry)),
    mapE (asEntryFromRpc pc) l = .ok es → es.map (fun e => some e.signed) = l.map (·.signed)
  | [], es, h => by simp only [mapE, Except.ok.injEq] at h; subst h; rfl
  | a :: as, es, h => by
    unfold mapE at h
    split at h
    · cases h
    · rename_i b hb
      split at h
      · cases h
      · rename_i bs hbs
        simp only [Except.ok.injEq] at h
        subst h
        simp only [List.map_cons, mapE_asEntry_signed pc as bs hbs, asEntryFromRpc_signed pc a b hb]

/-- **The header the verifier binds is the header it received.**  Whatever `try_from_rpc` returns carries,
byte for byte, the received `segment_info` and the received (`header_and_body`, `signature`) pairs in the
received order — nothing that enters the associated data is re-encoded.  (False on the original code for
`segment_info`: corpus/C18/030, 031; fixed c0ed6e0.) -/
theorem seg_from_rpc_keeps_signed_bytes (pc : PCodec) (r : RSegment) (s : Segment) (h : segFromRpc pc r = .ok s) :
    s.info.encoded = r.segmentInfo ∧ s.entries.map (fun e => some e.signed) = r.asEntries.map (·.signed) := by
  unfold segFromRpc at h
  split at h
  · cases h
  · split at h
    · cases h
    · simp only at h
      split at h
      · cases h
      · rename_i es hes
        simp only [Except.ok.injEq] at h
        subst h
        exact ⟨rfl, mapE_asEntry_signed pc _ _ hes⟩

/-- **What acceptance of an entry of a *received* segment binds, in terms of the received message.**  If
`try_from_rpc` turned the RPC message `r` into `s` and `validate_signature` accepts the entry `e` of `s`, then
the key resolved for the header's key id verifies `e`'s signature over
`header_and_body ‖ r.segment_info ‖ (hb, sig) of the entries the take_while selects` — the first associated-data
chunk is the received info itself, so *any* change of the received info bytes (a flipped bit, but also another
encoding of the same timestamp / segment id) changes the verified byte string
(`bitflip_changes_bound_bytes`) or its length (`length_change_rejected`). -/
theorem received_info_is_bound (pc : PCodec) (S : Scheme PK SK) (kp : Bytes → Except VErr PK)
    (r : RSegment) (s : Segment) (hs : segFromRpc pc r = .ok s) (e : SEntry AsEntry) (hdr : Header) (body : Bytes)
    (h : validateEntry pc.c S kp s.signedView e = .ok (hdr, body)) :
    ∃ pk a, kp hdr.keyId = .ok pk ∧ algOfI32 hdr.alg = some a ∧
      S.verify pk a (e.signed.hb ++ r.segmentInfo ++
        (chunks (s.entries.takeWhile fun x => x.entry != e.entry)).flatten) e.signed.sig = true ∧
      i32ToUsize hdr.adLen = r.segmentInfo.length +
        total (chunks (s.entries.takeWhile fun x => x.entry != e.entry)) := by
  obtain ⟨pk, a, h1, h2, h3, h4⟩ := validate_binds pc.c S kp s.signedView e hdr body h
  have hi := (seg_from_rpc_keeps_signed_bytes pc r s hs).1
  refine ⟨pk, a, h1, h2, ?_, ?_⟩
  · simpa [assocTW, Segment.signedView, hi, List.append_assoc] using h3
  · simpa [assocTW, Segment.signedView, hi, total] using h4

/-- **Segment → RPC → segment is the identity** on every segment whose info is consistent and whose entries
are consistent with their signed bodies (no hypothesis on the protobuf codec is needed any more: the info
bytes travel unchanged). -/
theorem seg_rpc_roundtrip (pc : PCodec) (s : Segment)
    (hinfo : InfoConsistent pc s.info) (hent : ∀ e ∈ s.entries, Consistent pc e) :
    segFromRpc pc (segToRpc pc s) = .ok s := by
  obtain ⟨hdec, hts, hsid⟩ := hinfo
  have hi := infoFromRpc_ok pc _ _ hts hsid
  have hm : mapE (asEntryFromRpc pc) (s.entries.map fun e => ({ signed := some e.signed } : RAsEntry)) = .ok s.entries := by
    apply mapE_map
    intro e he
    obtain ⟨h, body, rb, h1, h2, h3⟩ := hent e he
    simp [asEntryFromRpc, h1, h2, h3]
  have := segFromRpc_eq pc (segToRpc pc s) _ _ _ hdec hi hm
  rw [this]
  cases s with
  | mk info entries => cases info; simp [segToRpc, infoNew]

/-- **What `into_rpc` sends as segment info is what the entries were signed over** (`info.encoded`, the first
chunk of every entry's associated data), for every segment. -/
theorem seg_to_rpc_sends_signed_info (pc : PCodec) (s : Segment) :
    (segToRpc pc s).segmentInfo = s.signedView.info ∧
    (segToRpc pc s).asEntries.map (·.signed) = s.entries.map (fun e => some e.signed) := by
  simp [segToRpc, Segment.signedView]

/-- `SegmentInfo::new` builds a consistent info (given that prost decodes what it encoded) -/
theorem infoNew_consistent (pc : PCodec) (hpc : pc.Lawful) (ts sid : Nat)
    (hts : ts < 2 ^ SI_TIMESTAMP_BITS) (hsid : sid < 2 ^ SI_SEGID_BITS) : InfoConsistent pc (infoNew pc ts sid) :=
  ⟨hpc.info _, hts, hsid⟩

/-- The boundary case of `seg_rpc_roundtrip` spelled out: under proto3 encoding rules the info
`(timestamp 0, segment id 0)` is encoded as the **empty** byte string (`hempty`: default values are omitted;
`hdec`: an absent field reads as its default), so a segment built with `SegmentInfo::new(0, 0)` travels with an
empty `segment_info` field – and is received as the same value.  (A guard `segment_info.is_empty() ⇒ error` in
`try_from_rpc` falsifies this; harness key `C18:segment-roundtrip:default-info`.) -/
theorem seg_rpc_roundtrip_default_info (pc : PCodec)
    (hempty : pc.encInfo { timestamp := 0, segmentId := 0 } = [])
    (hdec : pc.decInfo [] = some { timestamp := 0, segmentId := 0 })
    (entries : List (SEntry AsEntry)) (hent : ∀ e ∈ entries, Consistent pc e) :
    (segToRpc pc { info := infoNew pc 0 0, entries := entries }).segmentInfo = [] ∧
    segFromRpc pc (segToRpc pc { info := infoNew pc 0 0, entries := entries }) =
      .ok { info := infoNew pc 0 0, entries := entries } := by
  refine ⟨by simp [segToRpc, infoNew, hempty], ?_⟩
  refine seg_rpc_roundtrip pc _ ⟨?_, Nat.pow_pos (by decide), Nat.pow_pos (by decide)⟩ hent
  simpa [infoNew, hempty] using hdec

/-- everything `try_from_rpc` returns is consistent … -/
theorem seg_from_rpc_consistent (pc : PCodec) (r : RSegment) (s : Segment) (h : segFromRpc pc r = .ok s) :
    InfoConsistent pc s.info ∧ ∀ e ∈ s.entries, Consistent pc e := by
  unfold segFromRpc at h
  split at h
  · cases h
  · rename_i i hdec
    split at h
    · cases h
    · rename_i info hi
      simp only at h
      split at h
      · cases h
      · rename_i es hes
        simp only [Except.ok.injEq] at h
        subst h
        constructor
        · unfold infoFromRpc at hi
          split at hi
          · rename_i hr
            split at hi
            · cases hi
            · rename_i sid hsid
              simp only [Except.ok.injEq] at hi
              subst hi
              obtain ⟨rfl, hlt⟩ := tryU_ok _ _ _ _ hsid
              have h2 := hr.2
              have h1 := hr.1
              refine ⟨?_, ?_, hlt⟩
              · simp only [infoNew]
                rw [hdec, Int.toNat_of_nonneg h1]
              · simp only [infoNew]
                omega
          · cases hi
        · intro e he
          obtain ⟨re, _, hre⟩ := mapE_ok_forall _ _ _ hes e he
          unfold asEntryFromRpc at hre
          split at hre
          · cases hre
          · rename_i sm _
            split at hre
            · cases hre
            · rename_i hb body h1
              split at hre
              · cases hre
              · rename_i rb h2
                split at hre
                · cases hre
                · rename_i a h3
                  simp only [Except.ok.injEq] at hre
                  subst hre
                  exact ⟨hb, body, rb, h1, h2, h3⟩

/-- … hence **RPC → segment → RPC → segment is stable**: values received over RPC round-trip exactly, for every
message the conversion accepts (also when the received info is not the canonical encoding). -/
theorem seg_rpc_idempotent (pc : PCodec) (r : RSegment) (s : Segment)
    (h : segFromRpc pc r = .ok s) : segFromRpc pc (segToRpc pc s) = .ok s := by
  obtain ⟨hi, he⟩ := seg_from_rpc_consistent pc r s h
  exact seg_rpc_roundtrip pc s hi he

/-- … and the RPC message itself survives, up to the fields the conversion ignores (`unsigned` extensions):
`into_rpc(try_from_rpc(r))` has the received info bytes and the received signed messages. -/
theorem rpc_seg_rpc_identity (pc : PCodec) (r : RSegment) (s : Segment) (h : segFromRpc pc r = .ok s) :
    (segToRpc pc s).segmentInfo = r.segmentInfo ∧
    (segToRpc pc s).asEntries.map (·.signed) = r.asEntries.map (·.signed) := by
  obtain ⟨h1, h2⟩ := seg_from_rpc_keeps_signed_bytes pc r s h
  obtain ⟨h3, h4⟩ := seg_to_rpc_sends_signed_info pc s
  exact ⟨by rw [h3]; exact h1, by rw [h4]; exact h2⟩

/-- an `AsEntry` whose fields have the values their Rust types allow, with a `MAC_LEN`-byte MAC and no
(unsupported) extensions -/
def WellTyped (a : AsEntry) : Prop :=
  let hfOk (h : HopField) := h.exp < 2 ^ HF_EXP_BITS ∧ h.ingress < 2 ^ HF_INGRESS_BITS ∧
    h.egress < 2 ^ HF_EGRESS_BITS ∧ h.mac.length = MAC_LEN
  a.hopEntry.ingressMtu < 2 ^ HE_INGRESS_MTU_BITS ∧ hfOk a.hopEntry.hopField ∧
  (∀ p ∈ a.peers, p.peerInterface < 2 ^ PE_IF_BITS ∧ p.peerMtu < 2 ^ PE_MTU_BITS ∧ hfOk p.hopField) ∧
  a.extensions = [] ∧ a.unsignedExtensions = []

theorem hopField_roundtrip (h : HopField) (h1 : h.exp < 2 ^ HF_EXP_BITS) (h2 : h.ingress < 2 ^ HF_INGRESS_BITS)
    (h3 : h.egress < 2 ^ HF_EGRESS_BITS) (h4 : h.mac.length = MAC_LEN) :
    hopFieldFromRpc (hopFieldToRpc h) = .ok h := by
  have hm : macArray h.mac = .ok h.mac := by
    have a1 : ¬ h.mac.length < MAC_SLICE := by rw [h4]; decide
    have a2 : h.mac.length = MAC_ARRAY_LEN := by rw [h4]; decide
    have a3 : h.mac.take MAC_SLICE = h.mac := List.take_of_length_le (by rw [h4]; decide)
    unfold macArray
    rw [if_neg a1, a3, if_pos a2]
  simp [hopFieldFromRpc, hopFieldToRpc, tryU, h1, h2, h3, h4, hm]

/-- **The body signed for a well-typed entry converts back to that entry** — so every entry produced by the
signing code is `Consistent` (given the protobuf laws) and honestly built segments round-trip. -/
theorem built_entry_consistent (a : AsEntry) (hw : WellTyped a) : entryFromBody (bodyOf a) = .ok a := by
  obtain ⟨hmtu, ⟨e1, e2, e3, e4⟩, hpeers, hx, hux⟩ := hw
  have hpe : mapE peerFromRpc (a.peers.map fun p =>
      ({ peerIsdAs := p.peer, peerInterface := p.peerInterface, peerMtu := p.peerMtu,
         hopField := some (hopFieldToRpc p.hopField) } : RPeerEntry)) = .ok a.peers := by
    apply mapE_map
    intro p hp
    obtain ⟨p1, p2, q1, q2, q3, q4⟩ := hpeers p hp
    simp [peerFromRpc, tryU, p1, p2, hopField_roundtrip _ q1 q2 q3 q4]
  cases a
  simp only at hmtu e1 e2 e3 e4 hx hux hpe
  subst hx hux
  simp [entryFromBody, bodyOf, hopEntryFromRpc, tryU, hmtu, hopField_roundtrip _ e1 e2 e3 e4, hpe]

/-- **Extensions are lost (open finding, minor)**: an entry carrying (signed or unsigned) extension bytes
never converts back to itself — `signature()` does not put them into the signed body and `try_from_rpc`
always yields empty extensions. -/
theorem extensions_lost (a : AsEntry) (h : a.extensions ≠ [] ∨ a.unsignedExtensions ≠ []) (rb : RBody) :
    entryFromBody rb ≠ .ok a := by
  intro hc
  unfold entryFromBody at hc
  split at hc
  · cases hc
  · split at hc
    · cases hc
    · split at hc
      · cases hc
      · simp only [Except.ok.injEq] at hc
        subst hc
        simp at h

/-! ## 4. RPC conversion of paths -/

theorem ifaceFromRpc_ne_panic (i : RIface) : ifaceFromRpc i ≠ .error .panic := by
  intro hc
  unfold ifaceFromRpc at hc
  split at hc
  · rename_i e he; cases hc; exact tryU_ne_panic _ _ _ (by decide) he
  · cases hc

theorem nextHopFromRpc_ne_panic {A : Type} (env : PathEnv A) (r : RPath) :
    nextHopFromRpc env r ≠ .error .panic := by
  intro hc
  unfold nextHopFromRpc at hc
  split at hc
  · cases hc
  · split at hc
    · cases hc
    · cases hc

theorem metaFromRpc_ne_panic (r : RPath) : metaFromRpc r ≠ .error .panic := by
  intro hc
  unfold metaFromRpc at hc
  split at hc
  · cases hc
  · rename_i hn
    split at hc
    · rename_i e he; cases hc
      exact mapE_ne_error ifaceFromRpc .panic r.interfaces (fun a _ => ifaceFromRpc_ne_panic a) he
    · split at hc
      · omega
      · split at hc
        · cases hc
        · split at hc
          · rename_i e he; cases hc; exact tryU_ne_panic _ _ _ (by decide) he
          · cases hc

/-- **RPC → path is total and never panics**, for an arbitrary message, arbitrary source/destination and
arbitrary behaviour of the data-plane path parser and the address parser: `Self::local(..).expect(..)` is
only reached for a non-wildcard source, and the `usize` subtraction `interface_count / 2 - 1` only for an
even, non-zero interface count. -/
theorem path_rpc_total {A : Type} (env : PathEnv A) (r : RPath) (src dst : Nat) :
    pathFromRpc env r src dst ≠ .error .panic := by
  intro hc
  unfold pathFromRpc at hc
  split at hc
  · split at hc
    · cases hc
    · rename_i hw
      split at hc
      · rename_i hsd
        subst hsd
        have hnw : isWildcard src = false := by
          cases h : isWildcard src
          · rfl
          · simp [h] at hw
        simp [localPath, hnw] at hc
      · cases hc
  · split at hc
    · cases hc
    · cases hc
    · split at hc
      · rename_i e he; cases hc; exact nextHopFromRpc_ne_panic env r he
      · split at hc
        · rename_i e he; cases hc; exact metaFromRpc_ne_panic r he
        · cases hc

/-- **Path → RPC → path is the identity on canonical paths** (`PathCanon`, defined in `Lemmas/Signed.lean`):
the AS-local empty path, and every standard path whose raw bytes the data-plane parser accepts exactly,
whose next hop survives the socket-address text codec, and whose metadata has an even, non-zero number of
interfaces with 16-bit ids, an expiration ≤ `i64::MAX`, notes absent or one per AS, no latency / bandwidth on
the last interface, inter-AS link types on all even interfaces or on none (each one surviving
`to_i32`/`from_i32`), internal hop counts on all inner odd interfaces or on none, and per-interface values
that survive their own encoding (`lat_canon`, `geo_canon`, `link_canon_iff` say which do).  This is the
*fixed* `to_rpc` (commit 0d48d68); on the original code the statement was false for every path carrying
latency, bandwidth, link-type or internal-hop metadata (corpus/C18/020). -/
theorem path_rpc_roundtrip {A : Type} (env : PathEnv A) (p : Path A) (hc : PathCanon env p) :
    pathFromRpc env (pathToRpc env p) p.src p.dst = .ok p :=
  path_roundtrip_of_canon env p hc

/-- **RPC → path → RPC → path is stable**: a path obtained from an RPC message round-trips exactly, provided
the message is `RpcSane` — expiration seconds within `0..=i64::MAX`, latencies within the wire range with
normalised nanoseconds (|nanos| < 10⁹), link types that are not aliased by `Unknown(value as u8)` — and the
socket-address codec re-parses what it prints.  The three excluded classes are real (open findings
`expiration-above-i64`, `linktype-unknown-alias`; denormalised nanoseconds are only exercised by the harness). -/
theorem path_rpc_idempotent {A : Type} (env : PathEnv A) (r : RPath) (src dst : Nat) (p : Path A)
    (h : pathFromRpc env r src dst = .ok p) (hs : RpcSane r)
    (haddr : ∀ s a, env.parseAddr s = some a → env.parseAddr (env.showAddr a) = some a) :
    pathFromRpc env (pathToRpc env p) src dst = .ok p := by
  obtain ⟨hc, h1, h2⟩ := path_from_rpc_canon env r src dst p h hs haddr
  have := path_roundtrip_of_canon env p hc
  rwa [h1, h2] at this

/-- which link types survive `to_i32` → `from_i32`: all but `Unknown(0..=3)` and `Unknown(≥ 256)` -/
theorem link_canon_iff (t : LinkType) :
    linkFromI32 (linkToI32 t) = t ↔
      (match t with
       | .unknown v => LINK_OPENNET < v ∧ v < 2 ^ LINK_UNKNOWN_BITS
       | _ => True) := by
  cases t with
  | unset => decide
  | direct => decide
  | multiHop => decide
  | openNet => decide
  | unknown v =>
    simp only [linkToI32, linkFromI32, LINK_UNSET, LINK_DIRECT, LINK_MULTIHOP, LINK_OPENNET, LINK_UNKNOWN_BITS]
    by_cases h0 : v = 0
    · subst h0; simp
    by_cases h1 : v = 1
    · subst h1; simp
    by_cases h2 : v = 2
    · subst h2; simp
    by_cases h3 : v = 3
    · subst h3; simp
    have a0 : ¬ ((v : Int) = ((0 : Nat) : Int)) := by omega
    have a1 : ¬ ((v : Int) = ((1 : Nat) : Int)) := by omega
    have a2 : ¬ ((v : Int) = ((2 : Nat) : Int)) := by omega
    have a3 : ¬ ((v : Int) = ((3 : Nat) : Int)) := by omega
    simp only [a0, a1, a2, a3, if_false, LinkType.unknown.injEq]
    have hp : ((2 ^ 8 : Nat) : Int) = 256 := by decide
    rw [hp]
    constructor
    · intro h; omega
    · rintro ⟨_, h⟩; omega

/-- the aliasing at the level of the link-type codec: `Unknown(1)` is written as 1 and read back as `Direct`
(a fact about `linkToI32`/`linkFromI32` only; the path-level witness is `path_roundtrip_linktype_witness`) -/
theorem link_alias_witness : linkFromI32 (linkToI32 (.unknown 1)) = .direct := by decide

/-- latencies that survive: whole seconds within `i64`, sub-second nanoseconds (every `std::time::Duration`
below 2^63 s); "no latency" is written as −1 s and read back as "no latency" -/
theorem lat_canon (s ns : Nat) (hs : (s : Int) ≤ i64Max) (hns : ns < NANOS_PER_SECOND) :
    durToStd (latToRpc (some (s, ns))) = some (s, ns) ∧ durToStd (latToRpc none) = none := by
  constructor
  · have h32 : (ns : Int) ≤ i32Max := by
      have : (NANOS_PER_SECOND : Int) ≤ i32Max := by decide
      have : (ns : Int) < (NANOS_PER_SECOND : Int) := by exact_mod_cast hns
      omega
    simp only [latToRpc, hs, h32, if_true]
    have hn : (ns : Int) < ((NANOS_PER_SECOND : Nat) : Int) := by exact_mod_cast hns
    unfold durToStd normalizeDur
    have c1 : ¬ ((ns : Int) ≤ -((NANOS_PER_SECOND : Nat) : Int) ∨ (ns : Int) ≥ ((NANOS_PER_SECOND : Nat) : Int)) := by omega
    simp only [c1, if_false]
    have c2 : ¬ ((s : Int) < 0 ∧ (ns : Int) > 0) := by omega
    have c3 : ¬ ((s : Int) > 0 ∧ (ns : Int) < 0) := by omega
    simp only [c2, c3, if_false]
    have c4 : (s : Int) ≥ 0 ∧ (ns : Int) ≥ 0 := by omega
    simp [c4]
  · decide

/-- geo coordinates that survive: absent, or present with a non-zero coordinate or a non-empty address,
and never `Some("")` as address -/
theorem geo_canon (g : Geo) (hz : ¬ (f32IsZero g.lat = true ∧ f32IsZero g.lon = true ∧ g.address.getD [] = []))
    (ha : g.address ≠ some []) :
    geoFromRpc (geoToRpc (some g)) = some g ∧ geoFromRpc (geoToRpc none) = none := by
  constructor
  · cases g with
    | mk lat lon address =>
      simp only at hz ha
      cases address with
      | none =>
        simp only [Option.getD_none, and_true] at hz
        simp only [geoToRpc, geoFromRpc, Option.getD_none, List.isEmpty_nil, Bool.and_true]
        cases h1 : f32IsZero lat <;> cases h2 : f32IsZero lon <;> simp_all
      | some a =>
        have hne : a ≠ [] := fun h => ha (by rw [h])
        have hie : a.isEmpty = false := by cases a <;> simp_all
        simp [geoToRpc, geoFromRpc, hie]
  · decide

/-! ## non-vacuity -/

section Examples

/-- a toy instance of every parameter (identity framing, "signature = key ‖ message") -/
def toyCodec : Codec :=
  { encHB := fun h b => UInt8.ofNat h.length :: (h ++ b),
    decHB := fun x => match x with
      | [] => none
      | n :: rest => if n.toNat ≤ rest.length then some (rest.take n.toNat, rest.drop n.toNat) else none,
    encHdr := fun h => [UInt8.ofNat h.adLen.toNat],
    decHdr := fun x => match x with
      | [n] => some { alg := 1, keyId := [], ts := some (0, 0), metadata := [], adLen := n.toNat }
      | _ => none }

def toyScheme : Scheme UInt8 UInt8 :=
  { pk := id, sign := fun sk _ m => some (sk :: m), wf := fun _ => true,
    verify := fun pk _ m σ => σ == pk :: m }

theorem toyScheme_correct : toyScheme.Correct := by
  intro sk a m σ h
  simp only [toyScheme, Option.some.injEq] at h
  subst h
  simp [toyScheme]

/-- a three-entry segment built with the toy instances: every entry validates at its position; the
replayed-entry extension `[A, B, C, A]` validates at position 3 in the code's form and is rejected in the
index form -/
def toyCheck : Bool :=
  let items : List (Item UInt8 Nat) := [⟨10, 1, none⟩, ⟨11, 2, none⟩, ⟨12, 3, none⟩]
  match build toyCodec toyScheme (fun a => [UInt8.ofNat a]) [7] 0 items with
  | none => false
  | some seg =>
    seg.entries.all (fun e =>
      (validateEntry toyCodec toyScheme (fun _ => .ok (UInt8.ofNat (e.entry - 9))) seg e).isOk) &&
    (match seg.entries[0]? with
     | none => false
     | some e0 =>
       (validateEntry toyCodec toyScheme (fun _ => .ok 1) { seg with entries := seg.entries ++ [e0] } e0).isOk &&
       !(validateEntryIdx toyCodec toyScheme (fun _ => .ok 1) { seg with entries := seg.entries ++ [e0] } 3 e0).isOk)

/-- `signed_validates` / `validate_binds` / `replay_extension_validates` / `index_form_rejects_replay` are
not vacuous -/
example : toyCheck = true := by decide

/-- a protobuf layer with proto3 behaviour on the all-default info: hypotheses of `seg_rpc_roundtrip_default_info` hold -/
def toyPCodec : PCodec :=
  { c := toyCodec, decBody := fun _ => none, encBody := fun _ => [],
    decInfo := fun b => if b = [] then some { timestamp := 0, segmentId := 0 } else none,
    encInfo := fun _ => [] }
example : segFromRpc toyPCodec (segToRpc toyPCodec { info := infoNew toyPCodec 0 0, entries := [] }) =
    .ok { info := infoNew toyPCodec 0 0, entries := [] } :=
  (seg_rpc_roundtrip_default_info toyPCodec rfl rfl [] (by simp)).2

/-- the byte strings signed for the positions of a segment (index form) -/
def boundStrings (seg : Seg Nat) : List Bytes :=
  (List.range seg.entries.length).filterMap fun j =>
    (seg.entries[j]?).map fun e => (e.signed.hb :: assocIdx seg j).flatten

/-- a scheme in which exactly the strings signed for `seg` verify -/
def closedScheme (seg : Seg Nat) : Scheme Unit Unit :=
  { pk := id, sign := fun _ _ _ => none, wf := fun _ => true,
    verify := fun _ _ m _ => (boundStrings seg).contains m }

/-- the unforgeability hypothesis of `tampered_blob_rejected` is satisfiable (by `closedScheme seg`, for every
segment), and so are its other hypotheses (segment `[0, 1]` with non-empty `header_and_body`s, position 1,
chunk 1 = the segment info, one flipped bit) -/
example (seg : Seg Nat) : ∀ pk a m σ, (closedScheme seg).verify pk a m σ = true →
    ∃ j, ∃ hj : j < seg.entries.length, m = (seg.entries[j].signed.hb :: assocIdx seg j).flatten := by
  intro pk a m σ h
  simp only [closedScheme, boundStrings, List.contains_iff_mem, List.mem_filterMap, List.mem_range,
    Option.map_eq_some_iff] at h
  obtain ⟨j, hj, e, he, hm⟩ := h
  refine ⟨j, hj, ?_⟩
  rw [List.getElem?_eq_getElem hj] at he
  simp only [Option.some.injEq] at he
  subst he
  exact hm.symm

example : ∃ (seg : Seg Nat) (i k : Nat) (x : Bytes) (hi : i < seg.entries.length)
    (hk : k < (seg.entries[i].signed.hb :: assocIdx seg i).length),
    (∀ e ∈ seg.entries, e.signed.hb ≠ []) ∧
    x.length = ((seg.entries[i].signed.hb :: assocIdx seg i)[k]).length ∧
    x ≠ (seg.entries[i].signed.hb :: assocIdx seg i)[k] :=
  ⟨{ info := [9], entries := [⟨0, ⟨[1], [2]⟩⟩, ⟨1, ⟨[3], [4]⟩⟩] }, 1, 1, [8], by decide, by decide,
   by decide, by decide, by decide⟩

/-- `signing_repeated_entry_unbound` is not vacuous: building `[A, B, A]` with the toy instances signs the third
entry over the info alone (header length byte 1 = |info|), not over info + entries 0 and 1 -/
example : (match build toyCodec toyScheme (fun a => [UInt8.ofNat a]) [7] 0
      [⟨10, 1, none⟩, ⟨11, 2, none⟩, (⟨10, 1, none⟩ : Item UInt8 Nat)] with
    | none => false
    | some seg => (seg.entries[2]?.map fun e => decide (e.signed.hb = [1, 1, 10])) == some true) = true := by decide

example : ∃ a : AsEntry, WellTyped a :=
  ⟨{ local_ := 1, next := 2, mtu := 1500,
     hopEntry := { ingressMtu := 1400, hopField := { exp := 63, ingress := 1, egress := 2, mac := [1, 2, 3, 4, 5, 6] } },
     peers := [{ peer := 5, peerInterface := 3, peerMtu := 1300,
                 hopField := { exp := 1, ingress := 3, egress := 0, mac := [0, 0, 0, 0, 0, 0] } }],
     extensions := [], unsignedExtensions := [] }, by
    refine ⟨by decide, ⟨by decide, by decide, by decide, by decide⟩, ?_, rfl, rfl⟩
    intro p hp
    simp only [List.mem_singleton] at hp
    subst hp
    exact ⟨by decide, by decide, by decide, by decide, by decide, by decide⟩⟩

/-- a canonical two-interface path with latency, bandwidth, link type, notes, EPIC authenticators and a
next hop: `path_rpc_roundtrip` is not vacuous (and the conversion really returns it) -/
def toyIfs : List IfMeta :=
  [ { isdAs := 281474976710657, id := 1, geo := some { lat := 1, lon := 0, address := some [90] },
      latency := some (0, 5000000), bandwidth := some 1000, link := some (.egress .direct) },
    { isdAs := 281474976710658, id := 2, geo := none, latency := none, bandwidth := none, link := none } ]

def toyMeta : PathMeta :=
  { expiration := 5000, mtu := 1400, epic := some ([1], [2]), notes := some [[110], []], interfaces := some toyIfs }

def toyPath : Path Bytes :=
  { src := 281474976710657, dst := 281474976710658, dp := .standard [0, 0, 32, 0], nextHop := some [49],
    pmeta := some toyMeta }

def toyEnv : PathEnv Bytes := { parseRaw := fun _ => .exact, parseAddr := fun b => some b, showAddr := id }

/-- does the path obtained from the RPC message `r` survive `to_rpc → try_from_rpc`?
`none`: `r` does not convert; `some true`: identity; `some false`: converts back to another value or to an error -/
def survives (env : PathEnv Bytes) (r : RPath) (src dst : Nat) : Option Bool :=
  match pathFromRpc env r src dst with
  | .error _ => none
  | .ok p =>
    match pathFromRpc env (pathToRpc env p) src dst with
    | .ok p2 => some (decide (p2 = p))
    | .error _ => some false

/-- a two-interface daemon `Path` message with the given expiration seconds and link types -/
def witR (exp : Int) (lt : List Int) : RPath :=
  { raw := [0, 0, 32, 0], ifaceAddr := none,
    interfaces := [{ isdAs := 281474976710657, id := 1 }, { isdAs := 281474976710658, id := 2 }],
    mtu := 1400, expiration := some (exp, 0), latency := [], bandwidth := [], geo := [], linkType := lt,
    internalHops := [], notes := [], epic := none }

/-- the message itself is fine: with a sane expiration and a known link type the path survives -/
example : survives toyEnv (witR 1000 [1]) 281474976710657 281474976710658 = some true := by decide

/-- **Excluded value 1 is real, in the model of `try_from_rpc` / `to_rpc`** (open finding
`expiration-above-i64`): a message with expiration seconds −5 converts to a path (expiration 2^64 − 5) that
`to_rpc` clamps to `i64::MAX`; the round trip is not the identity. -/
theorem path_roundtrip_expiration_witness :
    survives toyEnv (witR (-5) [1]) 281474976710657 281474976710658 = some false := by decide

/-- **Excluded value 2 is real** (open finding `linktype-unknown-alias`): link type 257 converts to
`Unknown(1)`, which `to_rpc` writes as 1 = `Direct`. -/
theorem path_roundtrip_linktype_witness :
    survives toyEnv (witR 1000 [257]) 281474976710657 281474976710658 = some false := by decide

/-- **Excluded value 3 is real** (open finding `direct:no-interface-metadata`): a standard path built without
metadata (`ScionPath::new(.., None, None)`) is written by `to_rpc` as a message that `try_from_rpc` rejects. -/
theorem path_roundtrip_no_metadata_witness :
    (match pathFromRpc toyEnv (pathToRpc toyEnv
      ({ src := 281474976710657, dst := 281474976710658, dp := .standard [0, 0, 32, 0], pmeta := none,
         nextHop := none } : Path Bytes)) 281474976710657 281474976710658 with
     | .error e => decide (e = .ifaceCount)
     | .ok _ => false) = true := by decide

example : (match pathFromRpc toyEnv (pathToRpc toyEnv toyPath) toyPath.src toyPath.dst with
    | .ok p => decide (p = toyPath)
    | .error _ => false) = true := by decide

/-- … and it satisfies the hypothesis of `path_rpc_roundtrip` -/
example : PathCanon toyEnv toyPath := by
  refine PathCanon.standard _ _ _ toyMeta toyIfs _ (by decide) rfl (fun a _ => rfl) ?_
  refine ⟨rfl, by decide, by decide, by decide, by decide, Or.inr ⟨_, rfl, by decide⟩, ?_, ?_, ?_⟩
  · intro i h
    match i, h with
    | 0, _ => exact ⟨by decide +revert, by decide +revert, by decide +revert, by decide +revert⟩
    | 1, _ => exact ⟨by decide +revert, by decide +revert, by decide +revert, by decide +revert⟩
  · left
    intro k h
    match k, h with
    | 0, _ => exact ⟨.direct, rfl, by decide⟩
  · refine ⟨?_, Or.inr ?_⟩
    · intro k h _
      match k, h with
      | 0, _ => rfl
    · intro k h
      match k, h with
      | 0, _ => rfl

end Examples

end ScionVerif.C18
