import ScionVerif.Lemmas.SnapScmp
/-!
# C08 — SNAP ingress filter: no spoofed source and no unsupported path type enters SCION

All theorems quantify over **every** byte string `d` (no length bound; the 9216-byte jumbo buffer is a special case)
and every peer address.  `inboundCheck` / `gatewayStep` are the statement-by-statement models of
`inbound_datagram_check` and of the gateway's `Forwarded` arm (`Model/SnapFilter.lean`); `classify`, `wellFormed`,
`sourceMatches` are the independent decision procedure with literal offsets (`Spec/SnapFilter.lean`).
The numeric data (bit ranges, nibble table, accepted path types, parameter-problem codes, 1232, 9216) are the
generated constants, so a changed constant re-checks these proofs.
-/
namespace ScionVerif.SnapFilter
open ScionVerif.Generated.SnapFilter
open ScionVerif.Scmp (Bytes byteAt)
open ScionVerif.Spec.SnapFilter (B hostLen srcOff pathOff wellFormed sourceMatches classify Class packetLen)

/-- **filter = independent specification** on all byte strings and all peers: same class (accept / malformed /
    bad source / bad path type), and whenever a verdict carries a packet view it is the specification's packet
    (`HdrLen*4 + PayloadLen` bytes, cut at the datagram end). -/
theorem filter_eq_spec (d : Bytes) (ip : Ip) :
    (inboundCheck d ip).cls = some (classify d (toPeer ip)) ∧
    ∀ v, (inboundCheck d ip).view = some v → v = d.take (packetLen d) :=
  inboundCheck_char d ip

/-- **totality**: no datagram makes the policy check reach an out-of-bounds unchecked read/slice or a panic
    (`panic` is the model's result for every such access). -/
theorem no_panic (d : Bytes) (ip : Ip) : inboundCheck d ip ≠ .panic := by
  intro h
  have := (filter_eq_spec d ip).1
  rw [h] at this
  simp [Verdict.cls] at this

/-- **dispatch soundness**: a datagram is handed to the dispatcher only if it parses as a SCION packet, its source
    host address is an IP address equal to the tunnel peer's, and its path type is empty (0) or SCION (1); what is
    dispatched is a prefix of the datagram (the packet proper). -/
theorem dispatch_sound (d : Bytes) (ip : Ip) (v : Bytes) (h : inboundCheck d ip = .dispatch v) :
    wellFormed d = true ∧ sourceMatches d (toPeer ip) = true ∧ (B d 8 = PT_EMPTY ∨ B d 8 = PT_SCION) ∧
    v = d.take (packetLen d) := by
  have ⟨hc, hv⟩ := filter_eq_spec d ip
  rw [h] at hc hv
  have hc' : classify d (toPeer ip) = .accept := by simpa [Verdict.cls] using hc.symm
  refine ⟨?_, ?_, ?_, hv v rfl⟩
  all_goals
    unfold classify at hc'
    by_cases h1 : wellFormed d = true <;> by_cases h2 : sourceMatches d (toPeer ip) = true <;>
      by_cases h3 : (B d 8 == 0 || B d 8 == 1) = true <;> simp_all [PT_EMPTY, PT_SCION]

/-- what "source matches" means, byte for byte: the ST/SL nibble is the IPv4 (resp. IPv6) one and the 4 (16) bytes
    after DstISD-AS, SrcISD-AS and the destination host address are the peer's octets -/
theorem sourceMatches_v4 (d : Bytes) (o : Bytes) (h : sourceMatches d (.v4 o) = true) :
    B d 9 % 16 = NIBBLE_IPV4 ∧ (d.drop (28 + hostLen (B d 9 / 16))).take 4 = o := by
  unfold sourceMatches at h
  split at h <;> simp_all [NIBBLE_IPV4, srcOff]
theorem sourceMatches_v6 (d : Bytes) (o : Bytes) (h : sourceMatches d (.v6 o) = true) :
    B d 9 % 16 = NIBBLE_IPV6 ∧ (d.drop (28 + hostLen (B d 9 / 16))).take 16 = o := by
  unfold sourceMatches at h
  split at h <;> simp_all [NIBBLE_IPV6, srcOff]

/-- **no aliasing** (1): among all 16 type/length nibbles only IPv4 (`0b0000`) and IPv6 (`0b0011`) ever yield an IP
    address, of the matching family and with exactly the raw bytes -/
theorem no_alias_nibble (nib : Nat) (raw : Bytes) (ip : Ip) (hn : nib < 16) (h : hostIp nib raw = some ip) :
    (nib = NIBBLE_IPV4 ∧ ip = .v4 raw ∧ raw.length = 4) ∨ (nib = NIBBLE_IPV6 ∧ ip = .v6 raw ∧ raw.length = 16) := by
  unfold hostIp at h
  simp only [] at h
  by_cases k0 : addrKind nib = 0
  · rw [if_pos k0] at h
    by_cases hl : raw.length = EXPECTED_ADDR_LEN.getD 0 0
    · rw [if_pos hl] at h
      exact Or.inl ⟨(addrKind_v4 nib hn).mp k0, (Option.some.inj h).symm, hl⟩
    · rw [if_neg hl] at h; cases h
  · rw [if_neg k0] at h
    by_cases k1 : addrKind nib = 1
    · rw [if_pos k1] at h
      by_cases hl : raw.length = EXPECTED_ADDR_LEN.getD 1 0
      · rw [if_pos hl] at h
        exact Or.inr ⟨(addrKind_v6 nib hn).mp k1, (Option.some.inj h).symm, hl⟩
      · rw [if_neg hl] at h; cases h
    · rw [if_neg k1] at h; cases h

/-- **no aliasing** (2): a dispatched datagram's source nibble is the one of the peer's address family; in
    particular an IPv4 source is never accepted for an IPv6 peer (v4-mapped or not) and vice versa -/
theorem no_alias (d : Bytes) (ip : Ip) (v : Bytes) (h : inboundCheck d ip = .dispatch v) :
    match ip with
    | .v4 o => B d 9 % 16 = NIBBLE_IPV4 ∧ (d.drop (28 + hostLen (B d 9 / 16))).take 4 = o
    | .v6 o => B d 9 % 16 = NIBBLE_IPV6 ∧ (d.drop (28 + hostLen (B d 9 / 16))).take 16 = o := by
  have hs := (dispatch_sound d ip v h).2.1
  cases ip with
  | v4 o => exact sourceMatches_v4 d o hs
  | v6 o => exact sourceMatches_v6 d o hs

/-- **no aliasing** (3): an IPv4-typed source is rejected for every IPv6 peer, whatever the 16 octets (v4-mapped
    included); an IPv6-typed source is rejected for every IPv4 peer -/
theorem v4_source_never_matches_v6_peer (d : Bytes) (o : Bytes) (h : B d 9 % 16 ≠ NIBBLE_IPV6) :
    ∀ v, inboundCheck d (.v6 o) ≠ .dispatch v := by
  intro v hv
  exact h (no_alias d (.v6 o) v hv).1
theorem v6_source_never_matches_v4_peer (d : Bytes) (o : Bytes) (h : B d 9 % 16 ≠ NIBBLE_IPV4) :
    ∀ v, inboundCheck d (.v4 o) ≠ .dispatch v := by
  intro v hv
  exact h (no_alias d (.v4 o) v hv).1

/-- **at most one**: a datagram causes at most one action – either one dispatch or at most one SCMP reply, never
    both; it is dispatched iff the policy accepted it; the gateway step never panics -/
theorem reply_at_most_one (d : Bytes) (ip loc : Ip) :
    let o := gatewayStep d ip loc
    o.dispatched.length + o.replies.length ≤ 1 ∧ o.panicked = false ∧
    (o.dispatched ≠ [] ↔ classify d (toPeer ip) = .accept) := by
  have hc := (filter_eq_spec d ip).1
  unfold gatewayStep
  cases hv : inboundCheck d ip with
  | dispatch v => rw [hv] at hc; simp [Verdict.cls] at hc; simp [← hc]
  | panic => rw [hv] at hc; simp [Verdict.cls] at hc
  | malformed e =>
    rw [hv] at hc; simp [Verdict.cls] at hc
    simp only [rejection]
    cases encodeReply CODE_MALFORMED 0 d loc ip <;> simp [← hc]
  | badSource v off =>
    rw [hv] at hc; simp [Verdict.cls] at hc
    simp only [rejection]
    cases encodeReply CODE_BAD_SOURCE (off % 65536) v loc ip <;> simp [← hc]
  | badPathType v pt =>
    rw [hv] at hc; simp [Verdict.cls] at hc
    simp only [rejection]
    cases encodeReply CODE_BAD_PATH_TYPE (PATH_TYPE_RNG.1 / 8 % 65536) v loc ip <;> simp [← hc]

/-- what the gateway quotes: the whole datagram for a malformed one, otherwise the packet view – in both cases a
    prefix of the datagram -/
theorem rejection_prefix (d : Bytes) (ip : Ip) (c p : Nat) (off : Bytes)
    (h : rejection (inboundCheck d ip) d = some (c, p, off)) : off <+: d := by
  have hv := (filter_eq_spec d ip).2
  cases hi : inboundCheck d ip with
  | dispatch v => rw [hi] at h; simp [rejection] at h
  | panic => rw [hi] at h; simp [rejection] at h
  | malformed e => rw [hi] at h; simp [rejection] at h; rw [← h.2.2]; exact List.prefix_refl d
  | badSource v o =>
    rw [hi] at h hv; simp [rejection] at h
    rw [← h.2.2, hv v rfl]; exact List.take_prefix _ _
  | badPathType v pt =>
    rw [hi] at h hv; simp [rejection] at h
    rw [← h.2.2, hv v rfl]; exact List.take_prefix _ _

/-- **the reply fits and quotes a prefix**: for well-formed peer / gateway addresses the reply is always encodable,
    is at most `SCMP_ERROR_MAX_PACKET_SIZE` (1232) ≤ `PACKET_BUF_SIZE` (9216) bytes long, and everything after its
    SCION header and the 8-byte parameter-problem header is a prefix of the offending datagram -/
theorem reply_fits (d : Bytes) (ip loc : Ip) (hip : ip.wf) (hloc : loc.wf) :
    let o := gatewayStep d ip loc
    o.encodeFailed = false ∧
    ∀ r ∈ o.replies, r.length ≤ Generated.Scmp.SCMP_ERROR_MAX_PACKET_SIZE ∧
      Generated.Scmp.SCMP_ERROR_MAX_PACKET_SIZE ≤ PACKET_BUF_SIZE ∧
      r.drop (Scmp.headerSize (replyAddr loc ip) [] + 8) <+: d := by
  unfold gatewayStep
  cases hv : inboundCheck d ip with
  | dispatch v => simp
  | panic => simp
  | malformed e =>
    simp only []
    have hr : rejection (inboundCheck d ip) d = some (CODE_MALFORMED, 0, d) := by rw [hv]; rfl
    obtain ⟨r, hok, h1, _, h3⟩ := encodeReply_char CODE_MALFORMED 0 d loc ip hloc hip
    simp only [rejection, hok]
    refine ⟨by first | trivial | rfl, ?_⟩
    intro r' hr'
    simp at hr'; subst hr'
    exact ⟨h1, by decide, by rw [h3]; exact List.take_prefix _ _⟩
  | badSource v off =>
    simp only []
    have hr : rejection (inboundCheck d ip) d = some (CODE_BAD_SOURCE, off % 65536, v) := by rw [hv]; rfl
    have hp := rejection_prefix d ip _ _ _ hr
    obtain ⟨r, hok, h1, _, h3⟩ := encodeReply_char CODE_BAD_SOURCE (off % 65536) v loc ip hloc hip
    simp only [rejection, hok]
    refine ⟨by first | trivial | rfl, ?_⟩
    intro r' hr'
    simp at hr'; subst hr'
    exact ⟨h1, by decide, by rw [h3]; exact List.IsPrefix.trans (List.take_prefix _ _) hp⟩
  | badPathType v pt =>
    simp only []
    have hr : rejection (inboundCheck d ip) d = some (CODE_BAD_PATH_TYPE, PATH_TYPE_RNG.1 / 8 % 65536, v) := by rw [hv]; rfl
    have hp := rejection_prefix d ip _ _ _ hr
    obtain ⟨r, hok, h1, _, h3⟩ := encodeReply_char CODE_BAD_PATH_TYPE (PATH_TYPE_RNG.1 / 8 % 65536) v loc ip hloc hip
    simp only [rejection, hok]
    refine ⟨by first | trivial | rfl, ?_⟩
    intro r' hr'
    simp at hr'; subst hr'
    exact ⟨h1, by decide, by rw [h3]; exact List.IsPrefix.trans (List.take_prefix _ _) hp⟩

/-- `reply_quotes_prefix`, stated on its own: the quoted bytes are `min(len, 1232 - header - 8)` bytes of the
    offending packet, i.e. as much as the budget allows and never more than there is -/
theorem reply_quotes_prefix (code ptr : Nat) (off : Bytes) (ip loc : Ip) (hip : ip.wf) (hloc : loc.wf) :
    ∃ r, encodeReply code ptr off loc ip = .ok r ∧
      r.drop (Scmp.headerSize (replyAddr loc ip) [] + 8) = off.take (min off.length (1232 - Scmp.headerSize (replyAddr loc ip) [] - 8)) := by
  obtain ⟨r, hok, _, _, h3⟩ := encodeReply_char code ptr off loc ip hloc hip
  exact ⟨r, hok, h3⟩

/-! ## non-vacuity: the hypotheses above are satisfiable, and each class is inhabited -/

/-- a 40-byte SCION/UDP packet with empty path, IPv4 source 127.0.0.1 -/
def sampleV4 : Bytes :=
  [0,0,0,0, 17,9,0,4, 0,0x00,0,0,  0,1,0xff,0,0,0,1,0x10,  0,1,0xff,0,0,0,1,0x11,  127,0,0,2,  127,0,0,1,  1,2,3,4]

example : (inboundCheck sampleV4 (.v4 [127,0,0,1])).cls = some .accept := by decide
example : (inboundCheck sampleV4 (.v4 [127,0,0,1])).view = some sampleV4 := by decide
example : (inboundCheck sampleV4 (.v4 [127,0,0,2])).cls = some .badSource := by decide
/-- the v4-mapped IPv6 form of the same address does not match -/
example : (inboundCheck sampleV4 (.v6 [0,0,0,0,0,0,0,0,0,0,0xff,0xff,127,0,0,1])).cls = some .badSource := by decide
/-- same bytes under the service nibble (T=01,L=00): not an IP, rejected -/
example : (inboundCheck (sampleV4.set 9 0x04) (.v4 [127,0,0,1])).cls = some .badSource := by decide
/-- one-hop path type with a consistent header: rejected as unsupported path type -/
example : (inboundCheck
    ([0,0,0,0, 17,17,0,0, 2,0x00,0,0,  0,1,0xff,0,0,0,1,0x10,  0,1,0xff,0,0,0,1,0x11,  127,0,0,2,  127,0,0,1] ++ List.replicate 32 0)
    (.v4 [127,0,0,1])).cls = some .badPathType := by decide
example : (inboundCheck [1,2,3,4] (.v4 [127,0,0,1])).cls = some .malformed := by decide
example : (gatewayStep [1,2,3,4] (.v4 [127,0,0,1]) (.v4 [10,0,0,1])).replies.length = 1 := by decide
example : Ip.wf (.v4 [127,0,0,1]) := rfl

/-! ## the gateway glue (`Forwarded` arm of the receive closure of `TunnelGateway::start_server`)

`gatewayStep d peer local` stands for gateway.rs `match inbound_datagram_check(&packet[..], from.ip()) { Ok(view) =>
{ observe; self.dispatcher.try_dispatch(view) } Err(e) => { create_scmp_error(e, local_addr, (WILDCARD, from.ip()), buf);
encapsulate; queue to `from` } }` with `d = packet`, `peer = from.ip()`, `local = socket.local_addr().ip()` (fallback
`0.0.0.0`).  Two ties to the real closure: (T) the translator reads the arm's text and emits the facts below - a changed
argument (`from.ip().to_canonical()`), a dispatch of something other than the bound `view`, a dispatch in the `Err` arm,
a further arm, a second `try_dispatch` site turn a fact `false` and this theorem stops checking; (X) the harness stream
"gateway" runs the real `start_server` on loop-back sockets with a real WireGuard client and compares what the recording
dispatcher and the client receive with `gatewayStep`, for IPv4, IPv6 and v4-mapped peers. -/

/-- the source text of the `Forwarded` arm has the shape `gatewayStep` models (facts regenerated from gateway.rs) -/
theorem gateway_glue_generated :
    GATEWAY_FORWARDED_BINDS_PACKET = true ∧ GATEWAY_CHECK_ARG_IS_WHOLE_PAYLOAD = true ∧ GATEWAY_CHECK_ARG_IS_FROM_IP = true ∧
    GATEWAY_CHECK_ARMS_ARE_OK_VIEW_AND_ERR = true ∧ GATEWAY_CHECK_ARMS = 2 ∧
    GATEWAY_DISPATCHES_VIEW = true ∧ GATEWAY_OK_ARM_SENDS_NOTHING = true ∧
    GATEWAY_ERR_ARM_NEVER_DISPATCHES = true ∧ GATEWAY_TRY_DISPATCH_SITES = 1 ∧
    GATEWAY_REPLY_BUILT_ONCE = true ∧ GATEWAY_REPLY_SRC_IS_LOCAL_ADDR = true ∧ GATEWAY_REPLY_DST_IS_FROM_IP = true ∧
    GATEWAY_REPLY_SENT_TO_FROM = true ∧ LOCAL_ADDR_IS_SOCKET_LOCAL_IP = true ∧ LOCAL_ADDR_FALLBACK_UNSPECIFIED = true := by
  decide

/-- what the glue hands to the dispatcher is exactly the view the policy check returned, and it does so for no other
    verdict; what it sends back is built from the rejection alone (`gatewayStep` unfolded - the statement the gateway
    stream tests on the real closure) -/
theorem gateway_dispatches_exactly_the_view (d : Bytes) (peer loc : Ip) :
    (∀ v, inboundCheck d peer = .dispatch v →
        (gatewayStep d peer loc).dispatched = [v] ∧ (gatewayStep d peer loc).replies = []) ∧
    ((∀ v, inboundCheck d peer ≠ .dispatch v) → (gatewayStep d peer loc).dispatched = []) := by
  constructor
  · intro v h
    simp [gatewayStep, h]
  · intro h
    unfold gatewayStep
    split
    · rename_i v hv
      exact absurd hv (h v)
    · rfl
    · split
      · rfl
      · split <;> rfl

/-- family of an address: 4 = `IpAddr::V4`, 6 = `IpAddr::V6` -/
def Ip.family : Ip → Nat
  | .v4 _ => 4
  | .v6 _ => 6

/-- `hostIp` (which hard-codes kind 0 → `Ip.v4`, kind 1 → `Ip.v6`) agrees with the generated description of
    `WireHostAddr::ip()`: an address is produced only for the kinds in `IP_KINDS`, and of the family `IP_KIND_FAMILY`
    lists for that kind -/
theorem hostIp_kinds_generated (nib : Nat) (raw : Bytes) (ip : Ip) (h : hostIp nib raw = some ip) :
    addrKind nib ∈ IP_KINDS ∧ (addrKind nib, ip.family) ∈ IP_KIND_FAMILY := by
  simp only [hostIp] at h
  generalize addrKind nib = k at h ⊢
  by_cases h0 : k = 0
  · subst h0
    simp at h
    obtain ⟨_, rfl⟩ := h
    exact ⟨by decide, by simp [Ip.family, IP_KIND_FAMILY]⟩
  · by_cases h1 : k = 1
    · subst h1
      simp at h
      obtain ⟨_, rfl⟩ := h
      exact ⟨by decide, by simp [Ip.family, IP_KIND_FAMILY]⟩
    · simp [h0, h1] at h

/-- every kind the generated table says yields an IP does so in the model (given the demanded length) -/
theorem hostIp_some_of_ip_kind (nib : Nat) (raw : Bytes) (hk : addrKind nib ∈ IP_KINDS)
    (hl : raw.length = EXPECTED_ADDR_LEN.getD (addrKind nib) 0) : (hostIp nib raw).isSome = true := by
  unfold hostIp
  simp only [IP_KINDS, List.mem_cons, List.mem_nil_iff, or_false] at hk
  rcases hk with h | h <;> simp [h] at hl ⊢ <;> simp [hl]

/-- `PathType::from(u8)` is injective as far as the filter needs it: the literal arms map distinct bytes to distinct
    variants (every other byte `b` becomes `Other(b)`), and every accepted path type is one of the literal arms - so
    "`path_type()` is `Scion` or `Empty`" is the same as "the path-type byte is `PT_SCION` or `PT_EMPTY`", which is how
    `inboundCheck` tests it -/
theorem pathType_from_u8_injective_generated :
    (PATH_TYPE_FROM_U8_ARMS.map Prod.fst).Nodup ∧ (PATH_TYPE_FROM_U8_ARMS.map Prod.snd).Nodup ∧
    (∀ a ∈ ACCEPTED_PATH_TYPES, a ∈ PATH_TYPE_FROM_U8_ARMS.map Prod.fst) ∧
    (PT_EMPTY, 0) ∈ PATH_TYPE_FROM_U8_ARMS ∧ PT_EMPTY ∈ ACCEPTED_PATH_TYPES ∧ PT_SCION ∈ ACCEPTED_PATH_TYPES ∧
    PT_ONEHOP ∈ PATH_TYPE_FROM_U8_ARMS.map Prod.fst ∧ PT_ONEHOP ∉ ACCEPTED_PATH_TYPES := by
  decide

-- the gateway glue on the v4-mapped peer of a dual-stack socket (what the harness' third pair exercises):
-- source host = IPv4 127.0.0.1 is refused, source host = IPv6 ::ffff:127.0.0.1 is dispatched
example : (gatewayStep sampleV4 (.v6 [0,0,0,0,0,0,0,0,0,0,0xff,0xff,127,0,0,1]) (.v6 (List.replicate 16 0))).dispatched = [] := by decide

end ScionVerif.SnapFilter
