import ScionVerif.Lemmas.RouterTie
import ScionVerif.Model.SimPacket
/-!
# C13 — the simulated data plane enforces the SCION forwarding rules

Theorems about `Model/SimRouter.lean`, the statement-by-statement model of pocketscion's per-AS router
(`SpecRoutingLogic` / `StdRoutingLogic` / `StandardValidator` on top of sciparse's `advance_*`) and of the
inter-AS walk (`ScionNetworkSimIter`).  They hold for *every* MAC function `macf`, every topology, every
packet (well-formed or not), every entry point, every clock value and every link state.
The link-type table `segChangeValid`, the role→link-type mapping and the expiry unit are generated from
the Rust source, so a changed table cell re-checks (and may break) `segChange_no_valley_no_core_loop` and
`segChange_eq_ref`.

Tie to the code: `hx_router` replays every AS step and every walk of the real simulator against this model
and against the independently written reference router `Spec/RefRouter.lean` (verdict equality is
*checked on every explored packet*, not proved — see DESIGN.md C13).
-/
namespace ScionVerif.Router
open ScionVerif.Generated.Router

/-- the `unreachable!()` arm of `advance_ingress_with_validator` ("final hop that is not a segment end")
    really is unreachable: the last hop field is always the end of its segment -/
theorem final_hop_is_segment_end (p : Path) (h : Nat) (s : Nat) (st en : Bool)
    (hs : p.segIndex h = some (s, st, en)) (hf : h + 1 ≥ p.hopCount) : en = true :=
  segIndex_final_is_end p h s st en hs hf

/-- **Forwarding only over an existing, up link named by an authentic, unexpired hop field of the received
    packet; strictly forward; arrival interface as the current hop field names it.**
    If the AS step forwards the packet `p` out of interface `eg`, then
    * `eg` exists and is up;
    * `eg` is the egress interface (in travel direction) of hop field number `p2.currHf - 1` **of `p` as received**
      (`hopE`, under info field `p2.currInf` of `p`), and that hop field – with the SegID of the received info field,
      possibly advanced by one `mac_beta_step` with that very hop field's MAC, nothing else changed – passed the
      validator's timestamp, expiry and MAC check under this AS's key (`Authentic`);
    * the hop field the packet pointed at on arrival (`hopA`) passed the same checks, and unless the packet came
      from inside the AS (`ing = 0`) and unless that hop field is only the first half of a crossover, `ing` is the
      ingress interface `hopA` names;
    * the pointer moved strictly forward and stays inside the path. -/
theorem routeStd_forwardNext {macf : MacF} {localAs dstAs : Nat} {p p2 : Path} {ing now : Nat} {key : List UInt8}
    {lookup : Nat → Option IfState} {ign : Bool} {eg : Nat}
    (h : routeStd macf localAs dstAs p ing now key lookup ign = (p2, .forwardNext eg)) :
    p2.hopCount = p.hopCount ∧ p.currHf < p2.currHf ∧ p2.currHf < p.hopCount ∧
    (∃ st hop info hopE infoE, lookup eg = some st ∧ st.up = true ∧ hop.egressIf info = eg ∧
      Authentic macf key now ign hop info ∧
      p.hops[p2.currHf - 1]? = some hopE ∧ p.infos[p2.currInf]? = some infoE ∧
      hop.SameAuth hopE ∧ info.SameSeg infoE hopE.mac ∧ hopE.egressIf infoE = eg) ∧
    (∃ hopA infoA infoA', p.hops[p.currHf]? = some hopA ∧ p.infos[p.currInf]? = some infoA ∧
      infoA'.SameSeg infoA hopA.mac ∧ Authentic macf key now ign hopA infoA' ∧
      (ing ≠ 0 → hopA.ingressIf infoA = ing)) := by
  unfold routeStd at h
  simp only [] at h
  split at h
  · simp at h
  · simp at h
  · rename_i p1 out hin
    obtain ⟨i0, i1, i2, ile, _, _, _⟩ := advanceIngress_ok hin
    obtain ⟨hopA, infoA, infoA', hA, hiA, hsA, hvA, _, hopE, infoE, hop1, info1, hE, hiE, h1E, h1i, hsa, hss, _⟩ :=
      advanceIngress_tie hin
    split at h
    · simp at h
    · split at h
      · split at h <;> simp at h
      · rename_i egressId _
        split at h
        · simp at h
        · split at h
          · simp at h
          · rename_i st hst
            split at h
            · simp at h
            · rename_i hup
              split at h
              · simp at h
              · simp at h
              · rename_i p2' eo heg
                obtain ⟨e0, e1, e2, ehf, _, elt, _⟩ := advanceEgress_ok heg
                obtain ⟨_, ecur, hop, info, hh, hi, hv, hegr⟩ := advanceEgress_tie heg
                split at h
                · simp at h
                · simp only [Prod.mk.injEq, Action.forwardNext.injEq] at h
                  obtain ⟨rfl, rfl⟩ := h
                  obtain ⟨hauth, hnamed, _⟩ := validateHop_none hv
                  obtain ⟨hauthA, _, hing⟩ := validateHop_none hvA
                  have hc1 : p1.hopCount = p.hopCount := hopCount_eq i0 i1 i2
                  have hnm := hnamed rfl
                  simp only [] at hnm
                  -- the hop/info fields the egress step read are the ones the ingress step left under the pointer
                  rw [h1E] at hh; rw [h1i] at hi
                  simp only [Option.some.injEq] at hh hi
                  subst hh hi
                  refine ⟨by rw [hopCount_eq e0 e1 e2, hc1], by omega, by omega,
                    ⟨st, _, _, hopE, infoE, ?_, ?_, hegr.symm, hauth, ?_, ?_, hsa, hss, ?_⟩,
                    ⟨hopA, infoA, infoA', hA, hiA, hsA, hauthA, ?_⟩⟩
                  · rw [hegr, hnm]; exact hst
                  · simpa using hup
                  · rw [ehf]; simpa using hE
                  · rw [ecur]; exact hiE
                  · rw [hegr, hsa.egressIf hss.2.1]
                  · intro hne
                    have hthis : hopA.ingressIf infoA' = ing := hing rfl rfl hne
                    rw [← hthis]
                    exact (Hop.SameAuth.refl hopA).ingressIf hsA.2.1.symm

/-- **Local delivery only in the destination AS.** -/
theorem routeStd_forwardLocal {macf : MacF} {localAs dstAs : Nat} {p p2 : Path} {ing now : Nat} {key : List UInt8}
    {lookup : Nat → Option IfState} {ign : Bool}
    (h : routeStd macf localAs dstAs p ing now key lookup ign = (p2, .forwardLocal)) : localAs = dstAs := by
  unfold routeStd at h
  simp only [] at h
  repeat' split at h
  all_goals first
    | (simp at h; done)
    | (rename_i hne; simpa using hne)


/-- **Bounded processing.** From any packet (well-formed or not), any topology and any entry point the walk
    reaches a verdict within `hopCount - currHf + 1` AS steps (so `fuel` larger than that never runs out). -/
theorem walk_bounded (macf : MacF) (t : Topo) (dstAs now : Nat) (ign : Bool) :
    ∀ (fuel curAs curIf : Nat) (p : Path) (steps : Nat), p.hopCount - p.currHf < fuel →
      ∃ v q n, walk macf t dstAs now ign fuel curAs curIf p steps = some (v, q, n) ∧
        n ≤ steps + (p.hopCount - p.currHf) + 1 := by
  intro fuel
  induction fuel with
  | zero => intro _ _ p _ h; omega
  | succ fuel ih =>
    intro curAs curIf p steps hf
    unfold walk
    split
    · exact ⟨_, _, _, rfl, by omega⟩
    · rename_i a _
      simp only []
      generalize hr : routeStd macf curAs dstAs p curIf now a.key (t.lookup curAs) ign = r
      obtain ⟨p1, act⟩ := r
      cases act with
      | forwardNext eg =>
        obtain ⟨hc, hlt, hlt2, _⟩ := routeStd_forwardNext hr
        simp only []
        split
        · exact ⟨_, _, _, rfl, by omega⟩
        · split
          · exact ⟨_, _, _, rfl, by omega⟩
          · split
            · exact ⟨_, _, _, rfl, by omega⟩
            · obtain ⟨v, q, n, hw, hn⟩ := ih _ _ p1 (steps + 1) (by omega)
              exact ⟨v, q, n, hw, by omega⟩
      | forwardLocal => exact ⟨_, _, _, rfl, by omega⟩
      | ingressScmp i => exact ⟨_, _, _, rfl, by omega⟩
      | egressScmp i => exact ⟨_, _, _, rfl, by omega⟩
      | scmpError e => exact ⟨_, _, _, rfl, by omega⟩
      | drop => exact ⟨_, _, _, rfl, by omega⟩

/-- **Delivered only in the destination AS**, wherever the packet was injected and whatever it contains. -/
theorem walk_delivered_at_dst (macf : MacF) (t : Topo) (dstAs now : Nat) (ign : Bool) :
    ∀ (fuel curAs curIf : Nat) (p : Path) (steps : Nat) (a : Nat) (q : Path) (n : Nat),
      walk macf t dstAs now ign fuel curAs curIf p steps = some (.delivered a, q, n) → a = dstAs := by
  intro fuel
  induction fuel with
  | zero => intro _ _ _ _ _ _ _ h; simp [walk] at h
  | succ fuel ih =>
    intro curAs curIf p steps a q n h
    unfold walk at h
    split at h
    · simp at h
    · rename_i ai _
      simp only [] at h
      generalize hr : routeStd macf curAs dstAs p curIf now ai.key (t.lookup curAs) ign = r at h
      obtain ⟨p1, act⟩ := r
      cases act with
      | forwardNext eg =>
        simp only [] at h
        split at h
        · simp at h
        · split at h
          · simp at h
          · split at h
            · simp at h
            · exact ih _ _ _ _ _ _ _ h
      | forwardLocal =>
        simp only [Option.some.injEq, Prod.mk.injEq, Verdict.delivered.injEq] at h
        rw [← h.1]; exact routeStd_forwardLocal hr
      | ingressScmp i => simp at h
      | egressScmp i => simp at h
      | scmpError e => simp at h
      | drop => simp at h


/-- **Segment changes obey the link-type table – applied to the link the packet arrived over and the link it
    leaves by – and authenticate the second hop field** (no valley, no core loop, no splicing of a segment whose
    first hop field is not this AS's).  If the AS step forwards `p` out of `eg` and moved the info-field pointer,
    then it moved to the next segment exactly, and with `hopA`/`infoA` the hop/info field `p` pointed at on arrival
    and `nh`/`ni` the first hop field and the info field of the next segment of `p`:
    * `a` is the state of the interface `hopA` names as ingress – which is the arrival interface `ing` whenever the
      packet came over a link – and `b` the state of `eg`, the interface `nh` names as egress;
    * the pair of their link types is allowed by the (generated) segment-change table;
    * `nh` passed the timestamp/expiry/MAC check under this AS's key with the SegID `p` carries for that segment. -/
theorem routeStd_segment_change {macf : MacF} {localAs dstAs : Nat} {p p2 : Path} {ing now : Nat} {key : List UInt8}
    {lookup : Nat → Option IfState} {ign : Bool} {eg : Nat}
    (h : routeStd macf localAs dstAs p ing now key lookup ign = (p2, .forwardNext eg))
    (hne : p2.currInf ≠ p.currInf) :
    p2.currInf = p.currInf + 1 ∧ p2.currHf = p.currHf + 2 ∧
    ∃ (a b : IfState) (hopA nh : Hop) (infoA ni : Info),
      p.hops[p.currHf]? = some hopA ∧ p.infos[p.currInf]? = some infoA ∧
      p.hops[p.currHf + 1]? = some nh ∧ p.infos[p.currInf + 1]? = some ni ∧
      lookup (hopA.ingressIf infoA) = some a ∧ (ing ≠ 0 → hopA.ingressIf infoA = ing) ∧
      lookup eg = some b ∧ nh.egressIf ni = eg ∧
      segChangeValid a.linkType b.linkType = true ∧ Authentic macf key now ign nh ni := by
  unfold routeStd at h
  simp only [] at h
  split at h
  · simp at h
  · simp at h
  · rename_i p1 out hin
    obtain ⟨hopA, infoA, infoA', hA, hiA, hsA, hvA, _, hopE, infoE, hop1, info1, hE, hiE, h1E, h1i, hsa, hss, hchg⟩ :=
      advanceIngress_tie hin
    split at h
    · simp at h
    · split at h
      · split at h <;> simp at h
      · split at h
        · simp at h
        · split at h
          · simp at h
          · split at h
            · simp at h
            · split at h
              · simp at h
              · simp at h
              · rename_i p2' eo heg
                obtain ⟨ehf, ecur, hop, info, hh, hi, hv, hegr⟩ := advanceEgress_tie heg
                split at h
                · simp at h
                · simp only [Prod.mk.injEq, Action.forwardNext.injEq] at h
                  obtain ⟨h1, h2⟩ := h
                  subst h1 h2
                  rw [ecur] at hne
                  obtain ⟨c1, c2, hopA', hsA', hsc, hvh, e1, e2⟩ := hchg hne
                  subst e1 e2
                  rw [h1E] at hh; rw [h1i] at hi
                  simp only [Option.some.injEq] at hh hi
                  subst hh hi
                  obtain ⟨a, b, ha, hb, hok⟩ := validateSegChange_none hsc
                  obtain ⟨_, _, hing⟩ := validateHop_none hvA
                  have hinA : hopA'.ingressIf infoA' = hopA.ingressIf infoA := hsA'.ingressIf hsA.2.1
                  rw [c2] at hiE
                  rw [c1] at hE
                  refine ⟨by rw [ecur, c2], by rw [ehf, c1], a, b, hopA, hop1, infoA, info1, hA, hiA, hE, hiE, ?_, ?_, ?_,
                    hegr.symm, hok, (validateHop_none hvh).1⟩
                  · rw [← hinA]; exact ha
                  · intro hne0
                    have hthis : hopA.ingressIf infoA' = ing := hing rfl rfl hne0
                    rw [← hthis]
                    exact (Hop.SameAuth.refl hopA).ingressIf hsA.2.1.symm
                  · rw [hegr]; exact hb

/-- the generated segment-change table forbids valleys (no change of segment after travelling down, none
    into an up-bound segment), core loops and peer-to-peer transit -/
theorem segChange_no_valley_no_core_loop (a b : LinkType) (h : segChangeValid a b = true) :
    a ≠ .toParent ∧ b ≠ .toParent ∧ ¬(a = .toCore ∧ b = .toCore) ∧ ¬(a = .toPeer ∧ b = .toPeer) ∧
    ¬(a = .toCore ∧ b = .toPeer) ∧ ¬(a = .toPeer ∧ b = .toCore) := by
  cases a <;> cases b <;> simp_all [segChangeValid]

/-- the table extracted from the Rust source equals the literal table of the reference router -/
theorem segChange_eq_ref (a b : LinkType) : segChangeValid a b = Ref.xoverAllowed a b := by
  cases a <;> cases b <;> rfl


/-! ## every path kind: standard, one-hop, empty, unsupported (`SpecRoutingLogic::route` dispatch) -/

/-- **Local delivery only in the destination AS – for every path kind** (standard, one-hop, empty, unsupported). -/
theorem routePkt_forwardLocal {macf : MacF} {localAs dstAs : Nat} {k k' : Pkt} {ing now : Nat} {key : List UInt8}
    {lookup : Nat → Option IfState} {ign : Bool}
    (h : routePkt macf localAs dstAs k ing now key lookup ign = (k', .forwardLocal)) : localAs = dstAs := by
  unfold routePkt at h
  cases k with
  | std p =>
    simp only [Prod.mk.injEq] at h
    exact routeStd_forwardLocal (p2 := (routeStd macf localAs dstAs p ing now key lookup ign).1)
      (Prod.ext rfl h.2)
  | oneHop o =>
    simp only [] at h
    split at h
    · split at h
      · simp at h
      · rename_i hne; simpa using hne
    · rename_i a hna
      simp only [Prod.mk.injEq] at h
      exact absurd h.2 (by intro hc; exact hna hc)
  | empty =>
    simp only [] at h
    split at h
    · simp at h
    · rename_i hne; simpa using hne
  | unsupported => simp at h

/-- how far a packet still is from its verdict: hop fields left (standard), one more AS if a one-hop packet
    is still inside its source AS -/
def Pkt.dist (k : Pkt) (curIf : Nat) : Nat :=
  match k with
  | .std p => p.hopCount - p.currHf
  | .oneHop _ => if curIf = 0 then 1 else 0
  | _ => 0

theorem routePkt_forwardNext {macf : MacF} {localAs dstAs : Nat} {k k' : Pkt} {ing now : Nat} {key : List UInt8}
    {lookup : Nat → Option IfState} {ign : Bool} {eg : Nat}
    (h : routePkt macf localAs dstAs k ing now key lookup ign = (k', .forwardNext eg)) (nextIf : Nat) (hnz : nextIf ≠ 0) :
    k'.dist nextIf < k.dist ing := by
  unfold routePkt at h
  cases k with
  | std p =>
    simp only [Prod.mk.injEq] at h
    obtain ⟨rfl, h2⟩ := h
    obtain ⟨hc, hlt, hlt2, _⟩ := routeStd_forwardNext (p2 := (routeStd macf localAs dstAs p ing now key lookup ign).1)
      (Prod.ext rfl h2)
    simp only [Pkt.dist]; omega
  | oneHop o =>
    simp only [] at h
    split at h
    · split at h <;> simp at h
    · rename_i a hna
      simp only [Prod.mk.injEq] at h
      obtain ⟨rfl, h2⟩ := h
      unfold routeOneHop at h2
      split at h2
      · rename_i hi
        have : ing = 0 := by simpa using hi
        simp [Pkt.dist, this, hnz]
      · repeat' split at h2
        all_goals simp at h2
  | empty =>
    simp only [] at h
    split at h <;> simp at h
  | unsupported => simp at h

/-- **Bounded processing for every path kind**, in every topology whose links have non-zero interface ids
    (as `ScionTopologyBuilder::add_link` enforces). -/
theorem walkP_bounded (macf : MacF) (t : Topo) (dstAs now : Nat) (ign : Bool)
    (hif : ∀ l ∈ t.links, l.peerIf ≠ 0) :
    ∀ (fuel curAs curIf : Nat) (k : Pkt) (steps : Nat), k.dist curIf < fuel →
      ∃ v q n, walkP macf t dstAs now ign fuel curAs curIf k steps = some (v, q, n) ∧
        n ≤ steps + k.dist curIf + 1 := by
  intro fuel
  induction fuel with
  | zero => intro _ _ k _ h; omega
  | succ fuel ih =>
    intro curAs curIf k steps hf
    unfold walkP
    split
    · exact ⟨_, _, _, rfl, by omega⟩
    · rename_i a _
      simp only []
      generalize hr : routePkt macf curAs dstAs k curIf now a.key (t.lookup curAs) ign = r
      obtain ⟨k1, act⟩ := r
      cases act with
      | forwardNext eg =>
        simp only []
        split
        · exact ⟨_, _, _, rfl, by omega⟩
        · rename_i l hl
          have hlm : l ∈ t.links := by
            unfold Topo.link at hl; exact List.mem_of_find?_eq_some hl
          have hd := routePkt_forwardNext hr l.peerIf (hif l hlm)
          split
          · exact ⟨_, _, _, rfl, by omega⟩
          · split
            · exact ⟨_, _, _, rfl, by omega⟩
            · obtain ⟨v, q, n, hw, hn⟩ := ih l.peerAs l.peerIf k1 (steps + 1) (by omega)
              exact ⟨v, q, n, hw, by omega⟩
      | forwardLocal => exact ⟨_, _, _, rfl, by omega⟩
      | ingressScmp i => exact ⟨_, _, _, rfl, by omega⟩
      | egressScmp i => exact ⟨_, _, _, rfl, by omega⟩
      | scmpError e => exact ⟨_, _, _, rfl, by omega⟩
      | drop => exact ⟨_, _, _, rfl, by omega⟩

/-- **Delivered only in the destination AS, for every path kind.** -/
theorem walkP_delivered_at_dst (macf : MacF) (t : Topo) (dstAs now : Nat) (ign : Bool) :
    ∀ (fuel curAs curIf : Nat) (k : Pkt) (steps : Nat) (a : Nat) (q : Pkt) (n : Nat),
      walkP macf t dstAs now ign fuel curAs curIf k steps = some (.delivered a, q, n) → a = dstAs := by
  intro fuel
  induction fuel with
  | zero => intro _ _ _ _ _ _ _ h; simp [walkP] at h
  | succ fuel ih =>
    intro curAs curIf k steps a q n h
    unfold walkP at h
    split at h
    · simp at h
    · rename_i ai _
      simp only [] at h
      generalize hr : routePkt macf curAs dstAs k curIf now ai.key (t.lookup curAs) ign = r at h
      obtain ⟨k1, act⟩ := r
      cases act with
      | forwardNext eg =>
        simp only [] at h
        split at h
        · simp at h
        · split at h
          · simp at h
          · split at h
            · simp at h
            · exact ih _ _ _ _ _ _ _ h
      | forwardLocal =>
        simp only [Option.some.injEq, Prod.mk.injEq, Verdict.delivered.injEq] at h
        rw [← h.1]; exact routePkt_forwardLocal hr
      | ingressScmp i => simp at h
      | egressScmp i => simp at h
      | scmpError e => simp at h
      | drop => simp at h

/-- on standard paths the general walk is the walk of `Model/SimRouter.lean` -/
theorem walkP_std (macf : MacF) (t : Topo) (dstAs now : Nat) (ign : Bool) :
    ∀ (fuel curAs curIf : Nat) (p : Path) (steps : Nat),
      walkP macf t dstAs now ign fuel curAs curIf (.std p) steps =
        (walk macf t dstAs now ign fuel curAs curIf p steps).map (fun r => (r.1, .std r.2.1, r.2.2)) := by
  intro fuel
  induction fuel with
  | zero => intro _ _ _ _; rfl
  | succ fuel ih =>
    intro curAs curIf p steps
    unfold walkP walk
    cases ha : t.asInfo curAs with
    | none => rfl
    | some a =>
      simp only [routePkt]
      generalize routeStd macf curAs dstAs p curIf now a.key (t.lookup curAs) ign = r
      obtain ⟨p1, act⟩ := r
      cases act with
      | forwardNext eg =>
        simp only []
        cases hl : t.link curAs eg with
        | none => rfl
        | some l =>
          simp only []
          cases hb : t.asInfo l.peerAs with
          | none => rfl
          | some b =>
            simp only []
            split
            · rfl
            · exact ih _ _ _ _
      | forwardLocal => rfl
      | ingressScmp i => rfl
      | egressScmp i => rfl
      | scmpError e => rfl
      | drop => rfl


/-! ## non-vacuity: a concrete two-AS walk that forwards once and delivers -/
example :
    let mac : MacF := fun _ b t e ci ce => (b + t + e + ci + ce) % 2 ^ 48
    let t : Topo := { ases := [⟨1, true, false, []⟩, ⟨2, false, false, []⟩],
                      links := [⟨1, 5, .parent, 2, 7, true⟩, ⟨2, 7, .child, 1, 5, true⟩] }
    let h0 : Hop := ⟨false, false, 63, 0, 5, mac [] 9 100 63 0 5⟩
    let b1 := betaStep 9 h0.mac
    let h1 : Hop := ⟨false, false, 63, 7, 0, mac [] b1 100 63 7 0⟩
    let p : Path := ⟨0, 0, 2, 0, 0, [⟨true, false, 9, 100⟩], [h0, h1]⟩
    (walk mac t 2 150 false 5 1 0 p 0).map (fun r => (r.1, r.2.2)) = some (.delivered 2, 2) := by
  decide +kernel

/-! ## non-vacuity of `routeStd_forwardNext` / `routeStd_segment_change`: a core AS joining an up segment
   (arrival over child interface 5) with a down segment (departure over child interface 6) -/
example :
    let mac : MacF := fun _ b t e ci ce => (b + t + e + ci + ce) % 2 ^ 48
    let lookup : Nat → Option IfState := fun i => if i = 5 ∨ i = 6 then some ⟨.toChild, true⟩ else none
    -- up segment (beaconed 1 → 2), travelled against construction direction; SegID as the combinator sets it
    let u0 : Hop := ⟨false, false, 63, 0, 5, mac [] 9 100 63 0 5⟩
    let u1 : Hop := ⟨false, false, 63, 7, 0, 0⟩
    -- down segment (beaconed 1 → 3), travelled in construction direction
    let d0 : Hop := ⟨false, false, 63, 0, 6, mac [] 4 100 63 0 6⟩
    let d1 : Hop := ⟨false, false, 63, 8, 0, 0⟩
    let p : Path := ⟨0, 1, 2, 2, 0, [⟨false, false, betaStep 9 u0.mac, 100⟩, ⟨true, false, 4, 100⟩], [u1, u0, d0, d1]⟩
    let r := routeStd mac 1 3 p 5 150 [] lookup false
    r.2 = .forwardNext 6 ∧ r.1.currInf = 1 ∧ r.1.currHf = 3 := by
  decide +kernel

end ScionVerif.Router
